(* C04 / C05: a failed operation leaves no trace, a store failure is always reported, and an
   operation in flight at a crash is entirely present or entirely absent.

   The argument is structural: every write body is [work ;;; tx_commit] where [work] never commits,
   and the monad has no catch, so errors propagate. *)
From Clover Require Import TxSpec.
Open Scope Z_scope.

(* ------------------------------------------------------------------------------------------ *)
(* Predicates                                                                                 *)
(* ------------------------------------------------------------------------------------------ *)

(* an Ok result leaves [fired] as it was *)
Definition ok_keeps_fired {A} (m : M A) : Prop :=
  forall s a s', m s = (Ok a, s') -> fired s' = fired s.

(* the relation between a run with a pending fault that has not fired and the fault-free run *)
Definition sim (s1 s2 : txst) : Prop :=
  view s1 = view s2 /\ committed s1 = committed s2 /\ calls s1 = calls s2 /\
  fired s1 = false /\ fired s2 = false /\ fault s2 = None.

(* either the fault fires, or the run is matched step for step by the fault-free run *)
Definition fault_sim {A} (m : M A) : Prop :=
  forall s1 s2 r1 s1', sim s1 s2 -> m s1 = (r1, s1') ->
    fired s1' = true \/ (exists s2', m s2 = (r1, s2') /\ sim s1' s2').

(* the pair that is closed under bind *)
Definition fsim_ok {A} (m : M A) : Prop := ok_keeps_fired m /\ fault_sim m.

(* ------------------------------------------------------------------------------------------ *)
(* Part 1a: closure lemmas for the primitives                                                 *)
(* ------------------------------------------------------------------------------------------ *)

Ltac inv_pair H := injection H; clear H; intros; subst.

(* ---- no_commit ---- *)
Lemma no_commit_ret : forall A (a : A), no_commit (ret a).
Proof. intros A a s r s' H. unfold ret in H. inv_pair H. reflexivity. Qed.

Lemma no_commit_fail : forall A (e : err), no_commit (@fail A e).
Proof. intros A e s r s' H. unfold fail in H. inv_pair H. reflexivity. Qed.

Lemma no_commit_bind : forall A B (m : M A) (f : A -> M B),
  no_commit m -> (forall a, no_commit (f a)) -> no_commit (bind m f).
Proof.
  intros A B m f Hm Hf s r s' H. unfold bind in H.
  destruct (m s) as [[a|e] s1] eqn:E.
  - rewrite (Hf a _ _ _ H). exact (Hm _ _ _ E).
  - inv_pair H. exact (Hm _ _ _ E).
Qed.

Lemma no_commit_tick : no_commit tick.
Proof.
  intros s r s' H. unfold tick in H.
  destruct (fault s) as [[|n]|]; inv_pair H; reflexivity.
Qed.

Lemma no_commit_get_view : no_commit get_view.
Proof. intros s r s' H. unfold get_view in H. inv_pair H. reflexivity. Qed.

Lemma no_commit_put_view : forall v, no_commit (put_view v).
Proof. intros v s r s' H. unfold put_view in H. inv_pair H. reflexivity. Qed.

(* ---- ok_keeps_fired ---- *)
Lemma okf_ret : forall A (a : A), ok_keeps_fired (ret a).
Proof. intros A a s x s' H. unfold ret in H. inv_pair H. reflexivity. Qed.

Lemma okf_fail : forall A (e : err), ok_keeps_fired (@fail A e).
Proof. intros A e s x s' H. unfold fail in H. discriminate H. Qed.

Lemma okf_bind : forall A B (m : M A) (f : A -> M B),
  ok_keeps_fired m -> (forall a, ok_keeps_fired (f a)) -> ok_keeps_fired (bind m f).
Proof.
  intros A B m f Hm Hf s x s' H. unfold bind in H.
  destruct (m s) as [[a|e] s1] eqn:E.
  - rewrite (Hf a _ _ _ H). exact (Hm _ _ _ E).
  - discriminate H.
Qed.

Lemma okf_tick : ok_keeps_fired tick.
Proof.
  intros s x s' H. unfold tick in H.
  destruct (fault s) as [[|n]|]; try discriminate H; inv_pair H; reflexivity.
Qed.

Lemma okf_get_view : ok_keeps_fired get_view.
Proof. intros s x s' H. unfold get_view in H. inv_pair H. reflexivity. Qed.

Lemma okf_put_view : forall v, ok_keeps_fired (put_view v).
Proof. intros v s x s' H. unfold put_view in H. inv_pair H. reflexivity. Qed.

Definition commit_step : M unit :=
  fun s => (Ok tt, mkTx (view s) (fault s) (calls s) (Some (view s)) (fired s)).

Lemma tx_commit_eq : tx_commit = (tick ;;; commit_step).
Proof. reflexivity. Qed.

Lemma okf_commit_step : ok_keeps_fired commit_step.
Proof. intros s x s' H. unfold commit_step in H. inv_pair H. reflexivity. Qed.

Lemma okf_tx_commit : ok_keeps_fired tx_commit.
Proof.
  rewrite tx_commit_eq. apply okf_bind; [apply okf_tick | intros _; apply okf_commit_step].
Qed.

(* ---- fault_reported from ok_keeps_fired ---- *)
Lemma okf_fault_reported : forall A (m : M A), ok_keeps_fired m -> fault_reported m.
Proof.
  intros A m Hm s r s' H F0 F1. destruct r as [a|e]; [|reflexivity].
  rewrite (Hm _ _ _ H) in F1. rewrite F0 in F1. discriminate F1.
Qed.

Lemma fault_reported_bind : forall A B (m : M A) (f : A -> M B),
  fault_reported m -> ok_keeps_fired m -> (forall a, fault_reported (f a)) ->
  fault_reported (bind m f).
Proof.
  intros A B m f Hm Hk Hf s r s' H F0 F1. unfold bind in H.
  destruct (m s) as [[a|e] s1] eqn:E.
  - apply (Hf a _ _ _ H); [|exact F1]. rewrite (Hk _ _ _ E). exact F0.
  - inv_pair H. reflexivity.
Qed.

(* ---- fault_sim (paired with ok_keeps_fired) ---- *)
Lemma fsim_ret : forall A (a : A), fault_sim (ret a).
Proof.
  intros A a s1 s2 r1 s1' S H. unfold ret in H. inv_pair H.
  right. exists s2. split; [reflexivity | exact S].
Qed.

Lemma fsim_fail : forall A (e : err), fault_sim (@fail A e).
Proof.
  intros A e s1 s2 r1 s1' S H. unfold fail in H. inv_pair H.
  right. exists s2. split; [reflexivity | exact S].
Qed.

Lemma fsim_bind : forall A B (m : M A) (f : A -> M B),
  ok_keeps_fired m -> fault_sim m -> (forall a, fault_sim (f a)) -> fault_sim (bind m f).
Proof.
  intros A B m f Hk Hm Hf s1 s2 r1 s1' S H. unfold bind in H.
  destruct (m s1) as [[a|e] t1] eqn:E.
  - destruct (Hm _ _ _ _ S E) as [F | [t2 [E2 S2]]].
    + exfalso. rewrite (Hk _ _ _ E) in F.
      destruct S as (_ & _ & _ & F1 & _). rewrite F1 in F. discriminate F.
    + destruct (Hf a _ _ _ _ S2 H) as [F | [s2' [E3 S3]]]; [left; exact F|].
      right. exists s2'. split; [|exact S3]. unfold bind. rewrite E2. exact E3.
  - inv_pair H. destruct (Hm _ _ _ _ S E) as [F | [t2 [E2 S2]]]; [left; exact F|].
    right. exists t2. split; [|exact S2]. unfold bind. rewrite E2. reflexivity.
Qed.

Lemma fsim_tick : fault_sim tick.
Proof.
  intros s1 s2 r1 s1' S H. destruct S as (V & C & K & F1 & F2 & N).
  unfold tick in H |- *. rewrite N.
  destruct (fault s1) as [[|n]|]; inv_pair H.
  - left. reflexivity.
  - right. eexists. split; [reflexivity|]. unfold sim; cbn. rewrite V, C, K. repeat split; assumption.
  - right. eexists. split; [reflexivity|]. unfold sim; cbn. rewrite V, C, K. repeat split; assumption.
Qed.

Lemma fsim_get_view : fault_sim get_view.
Proof.
  intros s1 s2 r1 s1' S H. unfold get_view in H |- *. inv_pair H.
  right. exists s2. split; [|exact S]. destruct S as (V & _). rewrite V. reflexivity.
Qed.

Lemma fsim_put_view : forall v, fault_sim (put_view v).
Proof.
  intros v s1 s2 r1 s1' S H. unfold put_view in H |- *. inv_pair H.
  destruct S as (V & C & K & F1 & F2 & N).
  right. eexists. split; [reflexivity|]. unfold sim; cbn. repeat split; assumption.
Qed.

Lemma fsim_commit_step : fault_sim commit_step.
Proof.
  intros s1 s2 r1 s1' S H. unfold commit_step in H |- *. inv_pair H.
  destruct S as (V & C & K & F1 & F2 & N).
  right. eexists. split; [reflexivity|]. unfold sim; cbn. rewrite V. repeat split; assumption.
Qed.

(* ------------------------------------------------------------------------------------------ *)
(* Part 1b: predicates closed under the monad                                                 *)
(* ------------------------------------------------------------------------------------------ *)

Record closed_pred (P : forall A : Type, M A -> Prop) : Prop := mkClosed {
  cp_ret : forall A (a : A), P A (ret a);
  cp_fail : forall A (e : err), P A (fail e);
  cp_bind : forall A B (m : M A) (f : A -> M B), P A m -> (forall a, P B (f a)) -> P B (bind m f);
  cp_tick : P unit tick;
  cp_get : P kv get_view;
  cp_put : forall v, P unit (put_view v)
}.

(* Q extends P to computations that end with the commit *)
Record closed_commit (P Q : forall A : Type, M A -> Prop) : Prop := mkClosedC {
  cc_lift : forall A (m : M A), P A m -> Q A m;
  cc_bind : forall A B (m : M A) (f : A -> M B), P A m -> (forall a, Q B (f a)) -> Q B (bind m f);
  cc_commit : Q unit tx_commit
}.

Lemma nc_closed : closed_pred (@no_commit).
Proof.
  constructor.
  - exact no_commit_ret.
  - exact no_commit_fail.
  - exact no_commit_bind.
  - exact no_commit_tick.
  - exact no_commit_get_view.
  - exact no_commit_put_view.
Qed.

Lemma okf_closed : closed_pred (@ok_keeps_fired).
Proof.
  constructor.
  - exact okf_ret.
  - exact okf_fail.
  - exact okf_bind.
  - exact okf_tick.
  - exact okf_get_view.
  - exact okf_put_view.
Qed.

Lemma fsim_closed : closed_pred (@fsim_ok).
Proof.
  constructor; unfold fsim_ok.
  - intros; split; [apply okf_ret | apply fsim_ret].
  - intros; split; [apply okf_fail | apply fsim_fail].
  - intros A B m f [K1 S1] H2. split.
    + apply okf_bind; [exact K1 | intro a; exact (proj1 (H2 a))].
    + apply fsim_bind; [exact K1 | exact S1 | intro a; exact (proj2 (H2 a))].
  - split; [apply okf_tick | apply fsim_tick].
  - split; [apply okf_get_view | apply fsim_get_view].
  - intros; split; [apply okf_put_view | apply fsim_put_view].
Qed.

(* ---- commit_last ---- *)
Lemma no_commit_commit_last : forall A (m : M A), no_commit m -> commit_last m.
Proof. intros A m Hm s r s' C H _. rewrite (Hm _ _ _ H). exact C. Qed.

Lemma commit_last_bind : forall A B (m : M A) (f : A -> M B),
  no_commit m -> (forall a, commit_last (f a)) -> commit_last (bind m f).
Proof.
  intros A B m f Hm Hf s r s' C H E. unfold bind in H.
  destruct (m s) as [[a|e] s1] eqn:Em.
  - apply (Hf a s1 r s'); [|exact H|exact E]. rewrite (Hm _ _ _ Em). exact C.
  - inv_pair H. rewrite (Hm _ _ _ Em). exact C.
Qed.

Lemma commit_last_tx_commit : commit_last tx_commit.
Proof.
  intros s r s' C H E. unfold tx_commit, bind, tick in H.
  destruct (fault s) as [[|n]|]; inv_pair H; cbn in *; try discriminate E. exact C.
Qed.

Lemma tx_commit_not_no_commit : ~ no_commit tx_commit.
Proof.
  intro H. specialize (H (mkTx [] None 0 None false) _ _ eq_refl). discriminate H.
Qed.

Lemma nc_cl_closed : closed_commit (@no_commit) (@commit_last).
Proof.
  constructor.
  - exact no_commit_commit_last.
  - exact commit_last_bind.
  - exact commit_last_tx_commit.
Qed.

Lemma okf_okf_closed : closed_commit (@ok_keeps_fired) (@ok_keeps_fired).
Proof.
  constructor.
  - intros A m H; exact H.
  - exact okf_bind.
  - exact okf_tx_commit.
Qed.

Lemma fsim_fsim_closed : closed_commit (@fsim_ok) (@fsim_ok).
Proof.
  constructor.
  - intros A m H; exact H.
  - exact (cp_bind _ fsim_closed).
  - rewrite tx_commit_eq. apply (cp_bind _ fsim_closed).
    + exact (cp_tick _ fsim_closed).
    + intros _. split; [apply okf_commit_step | apply fsim_commit_step].
Qed.

(* ------------------------------------------------------------------------------------------ *)
(* Part 1c: lifting a closed predicate to every function of the model                         *)
(* ------------------------------------------------------------------------------------------ *)

Section Lift.
  Variable P : forall A : Type, M A -> Prop.
  Hypothesis HP : closed_pred P.

  Local Lemma P_ret : forall A (a : A), P A (ret a). Proof. exact (cp_ret _ HP). Qed.
  Local Lemma P_fail : forall A (e : err), P A (fail e). Proof. exact (cp_fail _ HP). Qed.
  Local Lemma P_bind : forall A B (m : M A) (f : A -> M B),
    P A m -> (forall a, P B (f a)) -> P B (bind m f).
  Proof. exact (cp_bind _ HP). Qed.
  Local Lemma P_tick : P unit tick. Proof. exact (cp_tick _ HP). Qed.
  Local Lemma P_get : P kv get_view. Proof. exact (cp_get _ HP). Qed.
  Local Lemma P_put : forall v, P unit (put_view v). Proof. exact (cp_put _ HP). Qed.

  Lemma lift_tx_get : forall k, P _ (tx_get k).
  Proof.
    intro k. unfold tx_get. apply P_bind; [apply P_tick|intros _].
    apply P_bind; [apply P_get|intro v]. apply P_ret.
  Qed.

  Lemma lift_tx_set : forall k x, P _ (tx_set k x).
  Proof.
    intros k x. unfold tx_set. apply P_bind; [apply P_tick|intros _].
    apply P_bind; [apply P_get|intro v]. apply P_put.
  Qed.

  Lemma lift_tx_delete : forall k, P _ (tx_delete k).
  Proof.
    intro k. unfold tx_delete. apply P_bind; [apply P_tick|intros _].
    apply P_bind; [apply P_get|intro v]. apply P_put.
  Qed.

  Lemma lift_tx_cursor : forall fw, P _ (tx_cursor fw).
  Proof.
    intro fw. unfold tx_cursor. apply P_bind; [apply P_tick|intros _].
    apply P_bind; [apply P_get|intro v]. apply P_ret.
  Qed.

  Lemma lift_cursor_item : forall e, P _ (cursor_item e).
  Proof. intro e. unfold cursor_item. apply P_bind; [apply P_tick|intros _]. apply P_ret. Qed.

  (* one structural step: primitives, bind, case analysis on the scrutinee, known lemmas *)
  Ltac lstep :=
    match goal with
    | |- P _ (ret _) => apply P_ret
    | |- P _ (fail _) => apply P_fail
    | |- P _ (tx_get _) => apply lift_tx_get
    | |- P _ (tx_set _ _) => apply lift_tx_set
    | |- P _ (tx_delete _) => apply lift_tx_delete
    | |- P _ (tx_cursor _) => apply lift_tx_cursor
    | |- P _ (cursor_item _) => apply lift_cursor_item
    | |- P _ (bind _ _) => apply P_bind; [|intro]
    | |- P _ (match ?x with _ => _ end) => destruct x
    | |- P _ (let '(_, _) := ?x in _) => destruct x
    | |- P _ _ => solve [eauto with txlift]
    end.
  Ltac lsolve := repeat lstep.

  Lemma lift_idx_add : forall c f id v, P _ (idx_add c f id v).
  Proof. intros. unfold idx_add. lsolve. Qed.
  Lemma lift_idx_remove : forall c f id v, P _ (idx_remove c f id v).
  Proof. intros. unfold idx_remove. lsolve. Qed.
  Hint Resolve lift_idx_add lift_idx_remove : txlift.

  Lemma lift_get_meta : forall c, P _ (get_meta c).
  Proof. intros. unfold get_meta. lsolve. Qed.
  Lemma lift_save_meta : forall c n l, P _ (save_meta c n l).
  Proof. intros. unfold save_meta. lsolve. Qed.
  Lemma lift_has_collection : forall c, P _ (has_collection c).
  Proof. intros. unfold has_collection. lsolve. Qed.
  Lemma lift_save_document : forall k d, P _ (save_document k d).
  Proof. intros. unfold save_document. lsolve. Qed.
  Lemma lift_get_doc : forall c id, P _ (get_doc c id).
  Proof. intros. unfold get_doc. lsolve. Qed.
  Hint Resolve lift_get_meta lift_save_meta lift_has_collection lift_save_document lift_get_doc : txlift.

  Lemma lift_add_to_indexes : forall c idx d, P _ (add_to_indexes c idx d).
  Proof. intros c idx d. induction idx as [|f t IH]; cbn [add_to_indexes]; lsolve. Qed.
  Lemma lift_del_from_indexes : forall c idx d, P _ (del_from_indexes c idx d).
  Proof. intros c idx d. induction idx as [|f t IH]; cbn [del_from_indexes]; lsolve. Qed.
  Hint Resolve lift_add_to_indexes lift_del_from_indexes : txlift.

  Lemma lift_idx_drop_loop : forall p c, P _ (idx_drop_loop p c).
  Proof. intros p c. induction c as [|e t IH]; cbn [idx_drop_loop]; lsolve. Qed.
  Hint Resolve lift_idx_drop_loop : txlift.
  Lemma lift_idx_drop : forall c f, P _ (idx_drop c f).
  Proof. intros. unfold idx_drop. lsolve. Qed.
  Hint Resolve lift_idx_drop : txlift.

  (* ---- index scans, for a consumer that satisfies P ---- *)
  Section LiftScan.
    Context {A : Type}.
    Variable on_id : bytes -> A -> M (A * bool).
    Hypothesis H_on_id : forall id a, P _ (on_id id a).
    Hint Resolve H_on_id : txlift.

    Lemma lift_skip_bound : forall bkey c, P _ (skip_bound bkey c).
    Proof. intros bkey c. induction c as [|e t IH]; cbn [skip_bound]; lsolve. Qed.
    Hint Resolve lift_skip_bound : txlift.

    Lemma lift_range_loop : forall p rv chk far finc c a,
      P _ (range_loop on_id p rv chk far finc c a).
    Proof.
      intros p rv chk far finc c. induction c as [|e t IH]; intro a; cbn [range_loop]; lsolve.
    Qed.
    Hint Resolve lift_range_loop : txlift.

    Lemma lift_idx_iterate_range : forall c f r rv a, P _ (idx_iterate_range on_id c f r rv a).
    Proof. intros. unfold idx_iterate_range. lsolve. Qed.

    Lemma lift_idx_iterate : forall c f rv a, P _ (idx_iterate on_id c f rv a).
    Proof. intros. unfold idx_iterate. lsolve. Qed.
  End LiftScan.
  Hint Resolve lift_skip_bound lift_range_loop lift_idx_iterate_range lift_idx_iterate : txlift.

  (* ---- plan execution ---- *)
  Section LiftFeed.
    Context {B : Type}.
    Variable f : obj -> B -> M (B * bool).
    Hypothesis H_f : forall d b, P _ (f d b).
    Hint Resolve H_f : txlift.

    Lemma lift_full_scan_loop : forall p flt c b, P _ (full_scan_loop p flt f c b).
    Proof.
      intros p flt c. induction c as [|e t IH]; intro b; cbn [full_scan_loop]; lsolve.
    Qed.
    Hint Resolve lift_full_scan_loop : txlift.

    Lemma lift_full_scan : forall c flt b, P _ (full_scan c flt f b).
    Proof. intros. unfold full_scan. lsolve. Qed.

    Lemma lift_on_index_id : forall c flt id b, P _ (on_index_id c flt f id b).
    Proof. intros. unfold on_index_id. lsolve. Qed.
    Hint Resolve lift_full_scan lift_on_index_id : txlift.

    Lemma lift_run_input : forall c flt iq b, P _ (run_input c flt iq f b).
    Proof.
      intros. unfold run_input. lsolve.
    Qed.
  End LiftFeed.
  Hint Resolve lift_full_scan_loop lift_full_scan lift_on_index_id lift_run_input : txlift.

  Section LiftExec.
    Context {A : Type}.
    Variable cons : obj -> A -> M (A * bool).
    Hypothesis H_cons : forall d a, P _ (cons d a).
    Hint Resolve H_cons : txlift.

    Lemma lift_down : forall skip limit d st, P _ (down cons skip limit d st).
    Proof. intros. unfold down. lsolve. Qed.
    Hint Resolve lift_down : txlift.

    Lemma lift_feed : forall skip limit l st, P _ (feed cons skip limit l st).
    Proof.
      intros skip limit l. induction l as [|d t IH]; intro st; cbn [feed]; lsolve.
    Qed.
    Hint Resolve lift_feed : txlift.

    Lemma lift_exec_plan : forall c crit sort skip limit idx a0,
      P _ (exec_plan cons c crit sort skip limit idx a0).
    Proof.
      intros. unfold exec_plan.
      destruct (try_select_index crit sort idx) as [iq sorted].
      destruct sort as [|so sort']; [|destruct sorted]; lsolve;
        apply lift_run_input; intros; lsolve.
    Qed.
    Hint Resolve lift_exec_plan : txlift.

    Lemma lift_iterate_docs : forall q a0, P _ (iterate_docs q cons a0).
    Proof. intros. unfold iterate_docs. lsolve. Qed.
  End LiftExec.
  Hint Resolve lift_down lift_feed lift_exec_plan lift_iterate_docs : txlift.

  Lemma lift_collect : forall d acc, P _ (collect d acc).
  Proof. intros. unfold collect. lsolve. Qed.
  Lemma lift_count_cons : forall d n, P _ (count_cons d n).
  Proof. intros. unfold count_cons. lsolve. Qed.
  Lemma lift_foreach_cons : forall n d acc, P _ (foreach_cons n d acc).
  Proof. intros. unfold foreach_cons. lsolve. Qed.
  Lemma lift_index_doc : forall c f d u, P _ (index_doc c f d u).
  Proof. intros. unfold index_doc. lsolve. Qed.
  Hint Resolve lift_collect lift_count_cons lift_foreach_cons lift_index_doc : txlift.

  Lemma lift_find_all_tx : forall q, P _ (find_all_tx q).
  Proof. intros. unfold find_all_tx. lsolve. Qed.
  Hint Resolve lift_find_all_tx : txlift.

  Lemma lift_insert_docs : forall c idx docs, P _ (insert_docs c idx docs).
  Proof. intros c idx docs. induction docs as [|d t IH]; cbn [insert_docs]; lsolve. Qed.

  Lemma lift_get_doc_and_del_idx : forall c idx id, P _ (get_doc_and_del_idx c idx id).
  Proof. intros. unfold get_doc_and_del_idx. lsolve. Qed.

  Lemma lift_replace_loop : forall c idx u docs deleted, P _ (replace_loop c idx u docs deleted).
  Proof.
    intros c idx u docs. induction docs as [|d t IH]; intro deleted; cbn [replace_loop]; lsolve.
  Qed.
  Hint Resolve lift_insert_docs lift_get_doc_and_del_idx lift_replace_loop : txlift.

  Lemma lift_replace_docs : forall q u, P _ (replace_docs q u).
  Proof. intros. unfold replace_docs. lsolve. Qed.
  Hint Resolve lift_replace_docs : txlift.

  Lemma lift_list_coll_loop : forall c acc, P _ (list_coll_loop c acc).
  Proof. intros c. induction c as [|e t IH]; intro acc; cbn [list_coll_loop]; lsolve. Qed.
  Hint Resolve lift_list_coll_loop : txlift.

  Lemma lift_list_collections_tx : P _ list_collections_tx.
  Proof. unfold list_collections_tx. lsolve. Qed.

  Lemma lift_find_by_id_tx : forall c id, P _ (find_by_id_tx c id).
  Proof. intros. unfold find_by_id_tx. lsolve. Qed.
  Lemma lift_has_index_tx : forall c f, P _ (has_index_tx c f).
  Proof. intros. unfold has_index_tx. lsolve. Qed.
  Lemma lift_list_indexes_tx : forall c, P _ (list_indexes_tx c).
  Proof. intros. unfold list_indexes_tx. lsolve. Qed.
  Lemma lift_collection_size_tx : forall c, P _ (collection_size_tx c).
  Proof. intros. unfold collection_size_tx. lsolve. Qed.

  (* ---- the eight write bodies: work in P, then the commit ---- *)
  Variable Q : forall A : Type, M A -> Prop.
  Hypothesis HQ : closed_commit P Q.

  Ltac qstep :=
    match goal with
    | |- Q _ tx_commit => apply (cc_commit _ _ HQ)
    | |- Q _ (bind _ _) => apply (cc_bind _ _ HQ); [solve [lsolve]|intro]
    | |- Q _ (match ?x with _ => _ end) => destruct x
    | |- Q _ _ => apply (cc_lift _ _ HQ); solve [lsolve]
    end.
  Ltac qsolve := repeat qstep.

  Lemma lift_create_collection_tx : forall c, Q _ (create_collection_tx c).
  Proof. intros. unfold create_collection_tx. qsolve. Qed.
  Lemma lift_insert_tx : forall c docs, Q _ (insert_tx c docs).
  Proof. intros. unfold insert_tx. qsolve. Qed.
  Lemma lift_delete_by_id_tx : forall c id, Q _ (delete_by_id_tx c id).
  Proof. intros. unfold delete_by_id_tx. qsolve. Qed.
  Lemma lift_update_by_id_tx : forall c id u, Q _ (update_by_id_tx c id u).
  Proof. intros. unfold update_by_id_tx. qsolve. Qed.
  Lemma lift_update_tx : forall q u, Q _ (update_tx q u).
  Proof. intros. unfold update_tx. qsolve. Qed.
  Lemma lift_drop_collection_tx : forall c, Q _ (drop_collection_tx c).
  Proof. intros. unfold drop_collection_tx. qsolve. Qed.
  Lemma lift_create_index_tx : forall c f, Q _ (create_index_tx c f).
  Proof. intros. unfold create_index_tx. qsolve. Qed.
  Lemma lift_drop_index_tx : forall c f, Q _ (drop_index_tx c f).
  Proof. intros. unfold drop_index_tx. qsolve. Qed.
End Lift.

(* C04 / C05: a failed operation leaves no trace, a store failure is always reported, and an
   operation in flight at a crash is entirely present or entirely absent.

   The argument is structural: every write body is [work ;;; tx_commit] where [work] never commits,
   and the monad has no catch, so errors propagate. *)
From Clover Require Import TxSpec.
Open Scope Z_scope.

(* ------------------------------------------------------------------------------------------ *)
(* Predicates                                                                                 *)
(* ------------------------------------------------------------------------------------------ *)

(* an Ok result leaves [fired] as it was *)
Definition ok_keeps_fired {A} (m : M A) : Prop :=
  forall s a s', m s = (Ok a, s') -> fired s' = fired s.

(* the relation between a run with a pending fault that has not fired and the fault-free run *)
Definition sim (s1 s2 : txst) : Prop :=
  view s1 = view s2 /\ committed s1 = committed s2 /\ calls s1 = calls s2 /\
  fired s1 = false /\ fired s2 = false /\ fault s2 = None.

(* either the fault fires, or the run is matched step for step by the fault-free run *)
Definition fault_sim {A} (m : M A) : Prop :=
  forall s1 s2 r1 s1', sim s1 s2 -> m s1 = (r1, s1') ->
    fired s1' = true \/ (exists s2', m s2 = (r1, s2') /\ sim s1' s2').

(* the pair that is closed under bind *)
Definition fsim_ok {A} (m : M A) : Prop := ok_keeps_fired m /\ fault_sim m.

(* ------------------------------------------------------------------------------------------ *)
(* Part 1a: closure lemmas for the primitives                                                 *)
(* ------------------------------------------------------------------------------------------ *)

Ltac inv_pair H := injection H; clear H; intros; subst.

(* ---- no_commit ---- *)
Lemma no_commit_ret : forall A (a : A), no_commit (ret a).
Proof. intros A a s r s' H. unfold ret in H. inv_pair H. reflexivity. Qed.

Lemma no_commit_fail : forall A (e : err), no_commit (@fail A e).
Proof. intros A e s r s' H. unfold fail in H. inv_pair H. reflexivity. Qed.

Lemma no_commit_bind : forall A B (m : M A) (f : A -> M B),
  no_commit m -> (forall a, no_commit (f a)) -> no_commit (bind m f).
Proof.
  intros A B m f Hm Hf s r s' H. unfold bind in H.
  destruct (m s) as [[a|e] s1] eqn:E.
  - rewrite (Hf a _ _ _ H). exact (Hm _ _ _ E).
  - inv_pair H. exact (Hm _ _ _ E).
Qed.

Lemma no_commit_tick : no_commit tick.
Proof.
  intros s r s' H. unfold tick in H.
  destruct (fault s) as [[|n]|]; inv_pair H; reflexivity.
Qed.

Lemma no_commit_get_view : no_commit get_view.
Proof. intros s r s' H. unfold get_view in H. inv_pair H. reflexivity. Qed.

Lemma no_commit_put_view : forall v, no_commit (put_view v).
Proof. intros v s r s' H. unfold put_view in H. inv_pair H. reflexivity. Qed.

(* ---- ok_keeps_fired ---- *)
Lemma okf_ret : forall A (a : A), ok_keeps_fired (ret a).
Proof. intros A a s x s' H. unfold ret in H. inv_pair H. reflexivity. Qed.

Lemma okf_fail : forall A (e : err), ok_keeps_fired (@fail A e).
Proof. intros A e s x s' H. unfold fail in H. discriminate H. Qed.

Lemma okf_bind : forall A B (m : M A) (f : A -> M B),
  ok_keeps_fired m -> (forall a, ok_keeps_fired (f a)) -> ok_keeps_fired (bind m f).
Proof.
  intros A B m f Hm Hf s x s' H. unfold bind in H.
  destruct (m s) as [[a|e] s1] eqn:E.
  - rewrite (Hf a _ _ _ H). exact (Hm _ _ _ E).
  - discriminate H.
Qed.

Lemma okf_tick : ok_keeps_fired tick.
Proof.
  intros s x s' H. unfold tick in H.
  destruct (fault s) as [[|n]|]; try discriminate H; inv_pair H; reflexivity.
Qed.

Lemma okf_get_view : ok_keeps_fired get_view.
Proof. intros s x s' H. unfold get_view in H. inv_pair H. reflexivity. Qed.

Lemma okf_put_view : forall v, ok_keeps_fired (put_view v).
Proof. intros v s x s' H. unfold put_view in H. inv_pair H. reflexivity. Qed.

Definition commit_step : M unit :=
  fun s => (Ok tt, mkTx (view s) (fault s) (calls s) (Some (view s)) (fired s)).

Lemma tx_commit_eq : tx_commit = (tick ;;; commit_step).
Proof. reflexivity. Qed.

Lemma okf_commit_step : ok_keeps_fired commit_step.
Proof. intros s x s' H. unfold commit_step in H. inv_pair H. reflexivity. Qed.

Lemma okf_tx_commit : ok_keeps_fired tx_commit.
Proof.
  rewrite tx_commit_eq. apply okf_bind; [apply okf_tick | intros _; apply okf_commit_step].
Qed.

(* ---- fault_reported from ok_keeps_fired ---- *)
Lemma okf_fault_reported : forall A (m : M A), ok_keeps_fired m -> fault_reported m.
Proof.
  intros A m Hm s r s' H F0 F1. destruct r as [a|e]; [|reflexivity].
  rewrite (Hm _ _ _ H) in F1. rewrite F0 in F1. discriminate F1.
Qed.

Lemma fault_reported_bind : forall A B (m : M A) (f : A -> M B),
  fault_reported m -> ok_keeps_fired m -> (forall a, fault_reported (f a)) ->
  fault_reported (bind m f).
Proof.
  intros A B m f Hm Hk Hf s r s' H F0 F1. unfold bind in H.
  destruct (m s) as [[a|e] s1] eqn:E.
  - apply (Hf a _ _ _ H); [|exact F1]. rewrite (Hk _ _ _ E). exact F0.
  - inv_pair H. reflexivity.
Qed.

(* ---- fault_sim (paired with ok_keeps_fired) ---- *)
Lemma fsim_ret : forall A (a : A), fault_sim (ret a).
Proof.
  intros A a s1 s2 r1 s1' S H. unfold ret in H. inv_pair H.
  right. exists s2. split; [reflexivity | exact S].
Qed.

Lemma fsim_fail : forall A (e : err), fault_sim (@fail A e).
Proof.
  intros A e s1 s2 r1 s1' S H. unfold fail in H. inv_pair H.
  right. exists s2. split; [reflexivity | exact S].
Qed.

Lemma fsim_bind : forall A B (m : M A) (f : A -> M B),
  ok_keeps_fired m -> fault_sim m -> (forall a, fault_sim (f a)) -> fault_sim (bind m f).
Proof.
  intros A B m f Hk Hm Hf s1 s2 r1 s1' S H. unfold bind in H.
  destruct (m s1) as [[a|e] t1] eqn:E.
  - destruct (Hm _ _ _ _ S E) as [F | [t2 [E2 S2]]].
    + exfalso. rewrite (Hk _ _ _ E) in F.
      destruct S as (_ & _ & _ & F1 & _). rewrite F1 in F. discriminate F.
    + destruct (Hf a _ _ _ _ S2 H) as [F | [s2' [E3 S3]]]; [left; exact F|].
      right. exists s2'. split; [|exact S3]. unfold bind. rewrite E2. exact E3.
  - inv_pair H. destruct (Hm _ _ _ _ S E) as [F | [t2 [E2 S2]]]; [left; exact F|].
    right. exists t2. split; [|exact S2]. unfold bind. rewrite E2. reflexivity.
Qed.

Lemma fsim_tick : fault_sim tick.
Proof.
  intros s1 s2 r1 s1' S H. destruct S as (V & C & K & F1 & F2 & N).
  unfold tick in H |- *. rewrite N.
  destruct (fault s1) as [[|n]|]; inv_pair H.
  - left. reflexivity.
  - right. eexists. split; [reflexivity|]. unfold sim; cbn. rewrite V, C, K. repeat split; assumption.
  - right. eexists. split; [reflexivity|]. unfold sim; cbn. rewrite V, C, K. repeat split; assumption.
Qed.

Lemma fsim_get_view : fault_sim get_view.
Proof.
  intros s1 s2 r1 s1' S H. unfold get_view in H |- *. inv_pair H.
  right. exists s2. split; [|exact S]. destruct S as (V & _). rewrite V. reflexivity.
Qed.

Lemma fsim_put_view : forall v, fault_sim (put_view v).
Proof.
  intros v s1 s2 r1 s1' S H. unfold put_view in H |- *. inv_pair H.
  destruct S as (V & C & K & F1 & F2 & N).
  right. eexists. split; [reflexivity|]. unfold sim; cbn. repeat split; assumption.
Qed.

Lemma fsim_commit_step : fault_sim commit_step.
Proof.
  intros s1 s2 r1 s1' S H. unfold commit_step in H |- *. inv_pair H.
  destruct S as (V & C & K & F1 & F2 & N).
  right. eexists. split; [reflexivity|]. unfold sim; cbn. rewrite V. repeat split; assumption.
Qed.

(* ------------------------------------------------------------------------------------------ *)
(* Part 1b: predicates closed under the monad                                                 *)
(* ------------------------------------------------------------------------------------------ *)

Record closed_pred (P : forall A : Type, M A -> Prop) : Prop := mkClosed {
  cp_ret : forall A (a : A), P A (ret a);
  cp_fail : forall A (e : err), P A (fail e);
  cp_bind : forall A B (m : M A) (f : A -> M B), P A m -> (forall a, P B (f a)) -> P B (bind m f);
  cp_tick : P unit tick;
  cp_get : P kv get_view;
  cp_put : forall v, P unit (put_view v)
}.

(* Q extends P to computations that end with the commit *)
Record closed_commit (P Q : forall A : Type, M A -> Prop) : Prop := mkClosedC {
  cc_lift : forall A (m : M A), P A m -> Q A m;
  cc_bind : forall A B (m : M A) (f : A -> M B), P A m -> (forall a, Q B (f a)) -> Q B (bind m f);
  cc_commit : Q unit tx_commit
}.

Lemma nc_closed : closed_pred (@no_commit).
Proof.
  constructor.
  - exact no_commit_ret.
  - exact no_commit_fail.
  - exact no_commit_bind.
  - exact no_commit_tick.
  - exact no_commit_get_view.
  - exact no_commit_put_view.
Qed.

Lemma okf_closed : closed_pred (@ok_keeps_fired).
Proof.
  constructor.
  - exact okf_ret.
  - exact okf_fail.
  - exact okf_bind.
  - exact okf_tick.
  - exact okf_get_view.
  - exact okf_put_view.
Qed.

Lemma fsim_closed : closed_pred (@fsim_ok).
Proof.
  constructor; unfold fsim_ok.
  - intros; split; [apply okf_ret | apply fsim_ret].
  - intros; split; [apply okf_fail | apply fsim_fail].
  - intros A B m f [K1 S1] H2. split.
    + apply okf_bind; [exact K1 | intro a; exact (proj1 (H2 a))].
    + apply fsim_bind; [exact K1 | exact S1 | intro a; exact (proj2 (H2 a))].
  - split; [apply okf_tick | apply fsim_tick].
  - split; [apply okf_get_view | apply fsim_get_view].
  - intros; split; [apply okf_put_view | apply fsim_put_view].
Qed.

(* ---- commit_last ---- *)
Lemma no_commit_commit_last : forall A (m : M A), no_commit m -> commit_last m.
Proof. intros A m Hm s r s' C H _. rewrite (Hm _ _ _ H). exact C. Qed.

Lemma commit_last_bind : forall A B (m : M A) (f : A -> M B),
  no_commit m -> (forall a, commit_last (f a)) -> commit_last (bind m f).
Proof.
  intros A B m f Hm Hf s r s' C H E. unfold bind in H.
  destruct (m s) as [[a|e] s1] eqn:Em.
  - apply (Hf a s1 r s'); [|exact H|exact E]. rewrite (Hm _ _ _ Em). exact C.
  - inv_pair H. rewrite (Hm _ _ _ Em). exact C.
Qed.

Lemma commit_last_tx_commit : commit_last tx_commit.
Proof.
  intros s r s' C H E. unfold tx_commit, bind, tick in H.
  destruct (fault s) as [[|n]|]; inv_pair H; cbn in *; try discriminate E. exact C.
Qed.

Lemma tx_commit_not_no_commit : ~ no_commit tx_commit.
Proof.
  intro H. specialize (H (mkTx [] None 0 None false) _ _ eq_refl). discriminate H.
Qed.

Lemma nc_cl_closed : closed_commit (@no_commit) (@commit_last).
Proof.
  constructor.
  - exact no_commit_commit_last.
  - exact commit_last_bind.
  - exact commit_last_tx_commit.
Qed.

Lemma okf_okf_closed : closed_commit (@ok_keeps_fired) (@ok_keeps_fired).
Proof.
  constructor.
  - intros A m H; exact H.
  - exact okf_bind.
  - exact okf_tx_commit.
Qed.

Lemma fsim_fsim_closed : closed_commit (@fsim_ok) (@fsim_ok).
Proof.
  constructor.
  - intros A m H; exact H.
  - exact (cp_bind _ fsim_closed).
  - rewrite tx_commit_eq. apply (cp_bind _ fsim_closed).
    + exact (cp_tick _ fsim_closed).
    + intros _. split; [apply okf_commit_step | apply fsim_commit_step].
Qed.

(* ------------------------------------------------------------------------------------------ *)
(* Part 1c: lifting a closed predicate to every function of the model                         *)
(* ------------------------------------------------------------------------------------------ *)

Section Lift.
  Variable P : forall A : Type, M A -> Prop.
  Hypothesis HP : closed_pred P.

  Local Lemma P_ret : forall A (a : A), P A (ret a). Proof. exact (cp_ret _ HP). Qed.
  Local Lemma P_fail : forall A (e : err), P A (fail e). Proof. exact (cp_fail _ HP). Qed.
  Local Lemma P_bind : forall A B (m : M A) (f : A -> M B),
    P A m -> (forall a, P B (f a)) -> P B (bind m f).
  Proof. exact (cp_bind _ HP). Qed.
  Local Lemma P_tick : P unit tick. Proof. exact (cp_tick _ HP). Qed.
  Local Lemma P_get : P kv get_view. Proof. exact (cp_get _ HP). Qed.
  Local Lemma P_put : forall v, P unit (put_view v). Proof. exact (cp_put _ HP). Qed.

  Lemma lift_tx_get : forall k, P _ (tx_get k).
  Proof.
    intro k. unfold tx_get. apply P_bind; [apply P_tick|intros _].
    apply P_bind; [apply P_get|intro v]. apply P_ret.
  Qed.

  Lemma lift_tx_set : forall k x, P _ (tx_set k x).
  Proof.
    intros k x. unfold tx_set. apply P_bind; [apply P_tick|intros _].
    apply P_bind; [apply P_get|intro v]. apply P_put.
  Qed.

  Lemma lift_tx_delete : forall k, P _ (tx_delete k).
  Proof.
    intro k. unfold tx_delete. apply P_bind; [apply P_tick|intros _].
    apply P_bind; [apply P_get|intro v]. apply P_put.
  Qed.

  Lemma lift_tx_cursor : forall fw, P _ (tx_cursor fw).
  Proof.
    intro fw. unfold tx_cursor. apply P_bind; [apply P_tick|intros _].
    apply P_bind; [apply P_get|intro v]. apply P_ret.
  Qed.

  Lemma lift_cursor_item : forall e, P _ (cursor_item e).
  Proof. intro e. unfold cursor_item. apply P_bind; [apply P_tick|intros _]. apply P_ret. Qed.

  (* one structural step: primitives, bind, case analysis on the scrutinee, known lemmas *)
  Ltac lstep :=
    match goal with
    | |- P _ (ret _) => apply P_ret
    | |- P _ (fail _) => apply P_fail
    | |- P _ (tx_get _) => apply lift_tx_get
    | |- P _ (tx_set _ _) => apply lift_tx_set
    | |- P _ (tx_delete _) => apply lift_tx_delete
    | |- P _ (tx_cursor _) => apply lift_tx_cursor
    | |- P _ (cursor_item _) => apply lift_cursor_item
    | |- P _ (bind _ _) => apply P_bind; [|intro]
    | |- P _ (match ?x with _ => _ end) => destruct x
    | |- P _ (let '(_, _) := ?x in _) => destruct x
    | |- P _ _ => solve [eauto with txlift]
    end.
  Ltac lsolve := repeat lstep.

  Lemma lift_idx_add : forall c f id v, P _ (idx_add c f id v).
  Proof. intros. unfold idx_add. lsolve. Qed.
  Lemma lift_idx_remove : forall c f id v, P _ (idx_remove c f id v).
  Proof. intros. unfold idx_remove. lsolve. Qed.
  Hint Resolve lift_idx_add lift_idx_remove : txlift.

  Lemma lift_get_meta : forall c, P _ (get_meta c).
  Proof. intros. unfold get_meta. lsolve. Qed.
  Lemma lift_save_meta : forall c n l, P _ (save_meta c n l).
  Proof. intros. unfold save_meta. lsolve. Qed.
  Lemma lift_has_collection : forall c, P _ (has_collection c).
  Proof. intros. unfold has_collection. lsolve. Qed.
  Lemma lift_save_document : forall k d, P _ (save_document k d).
  Proof. intros. unfold save_document. lsolve. Qed.
  Lemma lift_get_doc : forall c id, P _ (get_doc c id).
  Proof. intros. unfold get_doc. lsolve. Qed.
  Hint Resolve lift_get_meta lift_save_meta lift_has_collection lift_save_document lift_get_doc : txlift.

  Lemma lift_add_to_indexes : forall c idx d, P _ (add_to_indexes c idx d).
  Proof. intros c idx d. induction idx as [|f t IH]; cbn [add_to_indexes]; lsolve. Qed.
  Lemma lift_del_from_indexes : forall c idx d, P _ (del_from_indexes c idx d).
  Proof. intros c idx d. induction idx as [|f t IH]; cbn [del_from_indexes]; lsolve. Qed.
  Hint Resolve lift_add_to_indexes lift_del_from_indexes : txlift.

  Lemma lift_idx_drop_loop : forall p c, P _ (idx_drop_loop p c).
  Proof. intros p c. induction c as [|e t IH]; cbn [idx_drop_loop]; lsolve. Qed.
  Hint Resolve lift_idx_drop_loop : txlift.
  Lemma lift_idx_drop : forall c f, P _ (idx_drop c f).
  Proof. intros. unfold idx_drop. lsolve. Qed.
  Hint Resolve lift_idx_drop : txlift.

  (* ---- index scans, for a consumer that satisfies P ---- *)
  Section LiftScan.
    Context {A : Type}.
    Variable on_id : bytes -> A -> M (A * bool).
    Hypothesis H_on_id : forall id a, P _ (on_id id a).
    Hint Resolve H_on_id : txlift.

    Lemma lift_skip_bound : forall bkey c, P _ (skip_bound bkey c).
    Proof. intros bkey c. induction c as [|e t IH]; cbn [skip_bound]; lsolve. Qed.
    Hint Resolve lift_skip_bound : txlift.

    Lemma lift_range_loop : forall p rv chk far finc c a,
      P _ (range_loop on_id p rv chk far finc c a).
    Proof.
      intros p rv chk far finc c. induction c as [|e t IH]; intro a; cbn [range_loop]; lsolve.
    Qed.
    Hint Resolve lift_range_loop : txlift.

    Lemma lift_idx_iterate_range : forall c f r rv a, P _ (idx_iterate_range on_id c f r rv a).
    Proof. intros. unfold idx_iterate_range. lsolve. Qed.

    Lemma lift_idx_iterate : forall c f rv a, P _ (idx_iterate on_id c f rv a).
    Proof. intros. unfold idx_iterate. lsolve. Qed.
  End LiftScan.
  Hint Resolve lift_skip_bound lift_range_loop lift_idx_iterate_range lift_idx_iterate : txlift.

  (* ---- plan execution ---- *)
  Section LiftFeed.
    Context {B : Type}.
    Variable f : obj -> B -> M (B * bool).
    Hypothesis H_f : forall d b, P _ (f d b).
    Hint Resolve H_f : txlift.

    Lemma lift_full_scan_loop : forall p flt c b, P _ (full_scan_loop p flt f c b).
    Proof.
      intros p flt c. induction c as [|e t IH]; intro b; cbn [full_scan_loop]; lsolve.
    Qed.
    Hint Resolve lift_full_scan_loop : txlift.

    Lemma lift_full_scan : forall c flt b, P _ (full_scan c flt f b).
    Proof. intros. unfold full_scan. lsolve. Qed.

    Lemma lift_on_index_id : forall c flt id b, P _ (on_index_id c flt f id b).
    Proof. intros. unfold on_index_id. lsolve. Qed.
    Hint Resolve lift_full_scan lift_on_index_id : txlift.

    Lemma lift_run_input : forall c flt iq b, P _ (run_input c flt iq f b).
    Proof.
      intros. unfold run_input. lsolve.
    Qed.
  End LiftFeed.
  Hint Resolve lift_full_scan_loop lift_full_scan lift_on_index_id lift_run_input : txlift.

  Section LiftExec.
    Context {A : Type}.
    Variable cons : obj -> A -> M (A * bool).
    Hypothesis H_cons : forall d a, P _ (cons d a).
    Hint Resolve H_cons : txlift.

    Lemma lift_down : forall skip limit d st, P _ (down cons skip limit d st).
    Proof. intros. unfold down. lsolve. Qed.
    Hint Resolve lift_down : txlift.

    Lemma lift_feed : forall skip limit l st, P _ (feed cons skip limit l st).
    Proof.
      intros skip limit l. induction l as [|d t IH]; intro st; cbn [feed]; lsolve.
    Qed.
    Hint Resolve lift_feed : txlift.

    Lemma lift_exec_plan : forall c crit sort skip limit idx a0,
      P _ (exec_plan cons c crit sort skip limit idx a0).
    Proof.
      intros. unfold exec_plan.
      destruct (try_select_index crit sort idx) as [iq sorted].
      destruct sort as [|so sort']; [|destruct sorted]; lsolve;
        apply lift_run_input; intros; lsolve.
    Qed.
    Hint Resolve lift_exec_plan : txlift.

    Lemma lift_iterate_docs : forall q a0, P _ (iterate_docs q cons a0).
    Proof. intros. unfold iterate_docs. lsolve. Qed.
  End LiftExec.
  Hint Resolve lift_down lift_feed lift_exec_plan lift_iterate_docs : txlift.

  Lemma lift_collect : forall d acc, P _ (collect d acc).
  Proof. intros. unfold collect. lsolve. Qed.
  Lemma lift_count_cons : forall d n, P _ (count_cons d n).
  Proof. intros. unfold count_cons. lsolve. Qed.
  Lemma lift_foreach_cons : forall n d acc, P _ (foreach_cons n d acc).
  Proof. intros. unfold foreach_cons. lsolve. Qed.
  Lemma lift_index_doc : forall c f d u, P _ (index_doc c f d u).
  Proof. intros. unfold index_doc. lsolve. Qed.
  Hint Resolve lift_collect lift_count_cons lift_foreach_cons lift_index_doc : txlift.

  Lemma lift_find_all_tx : forall q, P _ (find_all_tx q).
  Proof. intros. unfold find_all_tx. lsolve. Qed.
  Hint Resolve lift_find_all_tx : txlift.

  Lemma lift_insert_docs : forall c idx docs, P _ (insert_docs c idx docs).
  Proof. intros c idx docs. induction docs as [|d t IH]; cbn [insert_docs]; lsolve. Qed.

  Lemma lift_get_doc_and_del_idx : forall c idx id, P _ (get_doc_and_del_idx c idx id).
  Proof. intros. unfold get_doc_and_del_idx. lsolve. Qed.

  Lemma lift_replace_loop : forall c idx u docs deleted, P _ (replace_loop c idx u docs deleted).
  Proof.
    intros c idx u docs. induction docs as [|d t IH]; intro deleted; cbn [replace_loop]; lsolve.
  Qed.
  Hint Resolve lift_insert_docs lift_get_doc_and_del_idx lift_replace_loop : txlift.

  Lemma lift_replace_docs : forall q u, P _ (replace_docs q u).
  Proof. intros. unfold replace_docs. lsolve. Qed.
  Hint Resolve lift_replace_docs : txlift.

  Lemma lift_list_coll_loop : forall c acc, P _ (list_coll_loop c acc).
  Proof. intros c. induction c as [|e t IH]; intro acc; cbn [list_coll_loop]; lsolve. Qed.
  Hint Resolve lift_list_coll_loop : txlift.

  Lemma lift_list_collections_tx : P _ list_collections_tx.
  Proof. unfold list_collections_tx. lsolve. Qed.

  Lemma lift_find_by_id_tx : forall c id, P _ (find_by_id_tx c id).
  Proof. intros. unfold find_by_id_tx. lsolve. Qed.
  Lemma lift_has_index_tx : forall c f, P _ (has_index_tx c f).
  Proof. intros. unfold has_index_tx. lsolve. Qed.
  Lemma lift_list_indexes_tx : forall c, P _ (list_indexes_tx c).
  Proof. intros. unfold list_indexes_tx. lsolve. Qed.
  Lemma lift_collection_size_tx : forall c, P _ (collection_size_tx c).
  Proof. intros. unfold collection_size_tx. lsolve. Qed.

  (* ---- the eight write bodies: work in P, then the commit ---- *)
  Variable Q : forall A : Type, M A -> Prop.
  Hypothesis HQ : closed_commit P Q.

  Ltac qstep :=
    match goal with
    | |- Q _ tx_commit => apply (cc_commit _ _ HQ)
    | |- Q _ (bind _ _) => apply (cc_bind _ _ HQ); [solve [lsolve]|intro]
    | |- Q _ (match ?x with _ => _ end) => destruct x
    | |- Q _ _ => apply (cc_lift _ _ HQ); solve [lsolve]
    end.
  Ltac qsolve := repeat qstep.

  Lemma lift_create_collection_tx : forall c, Q _ (create_collection_tx c).
  Proof. intros. unfold create_collection_tx. qsolve. Qed.
  Lemma lift_insert_tx : forall c docs, Q _ (insert_tx c docs).
  Proof. intros. unfold insert_tx. qsolve. Qed.
  Lemma lift_delete_by_id_tx : forall c id, Q _ (delete_by_id_tx c id).
  Proof. intros. unfold delete_by_id_tx. qsolve. Qed.
  Lemma lift_update_by_id_tx : forall c id u, Q _ (update_by_id_tx c id u).
  Proof. intros. unfold update_by_id_tx. qsolve. Qed.
  Lemma lift_update_tx : forall q u, Q _ (update_tx q u).
  Proof. intros. unfold update_tx. qsolve. Qed.
  Lemma lift_drop_collection_tx : forall c, Q _ (drop_collection_tx c).
  Proof. intros. unfold drop_collection_tx. qsolve. Qed.
  Lemma lift_create_index_tx : forall c f, Q _ (create_index_tx c f).
  Proof. intros. unfold create_index_tx. qsolve. Qed.
  Lemma lift_drop_index_tx : forall c f, Q _ (drop_index_tx c f).
  Proof. intros. unfold drop_index_tx. qsolve. Qed.
End Lift.

(* ------------------------------------------------------------------------------------------ *)
(* Part 1d: the instances (no_commit, ok_keeps_fired, fault_reported, fault_sim)              *)
(* ------------------------------------------------------------------------------------------ *)

(* what the theorems below need of a transaction body *)
Definition good_body {A} (m : M A) : Prop := commit_last m /\ ok_keeps_fired m /\ fault_sim m.

Lemma good_of_lift : forall A (m : M A),
  (forall P, closed_pred P -> P A m) -> good_body m.
Proof.
  intros A m H. split; [|split].
  - apply no_commit_commit_last. exact (H _ nc_closed).
  - exact (H _ okf_closed).
  - exact (proj2 (H _ fsim_closed)).
Qed.

Lemma good_of_lift_commit : forall A (m : M A),
  (forall P Q, closed_pred P -> closed_commit P Q -> Q A m) -> good_body m.
Proof.
  intros A m H. split; [|split].
  - exact (H _ _ nc_closed nc_cl_closed).
  - exact (H _ _ okf_closed okf_okf_closed).
  - exact (proj2 (H _ _ fsim_closed fsim_fsim_closed)).
Qed.

(* the primitives named in the task, for no_commit and fault_reported *)
Lemma no_commit_tx_get : forall k, no_commit (tx_get k).
Proof. exact (lift_tx_get _ nc_closed). Qed.
Lemma no_commit_tx_set : forall k x, no_commit (tx_set k x).
Proof. exact (lift_tx_set _ nc_closed). Qed.
Lemma no_commit_tx_delete : forall k, no_commit (tx_delete k).
Proof. exact (lift_tx_delete _ nc_closed). Qed.
Lemma no_commit_tx_cursor : forall fw, no_commit (tx_cursor fw).
Proof. exact (lift_tx_cursor _ nc_closed). Qed.
Lemma no_commit_cursor_item : forall e, no_commit (cursor_item e).
Proof. exact (lift_cursor_item _ nc_closed). Qed.

Lemma fault_reported_ret : forall A (a : A), fault_reported (ret a).
Proof. intros; apply okf_fault_reported, okf_ret. Qed.
Lemma fault_reported_fail : forall A e, fault_reported (@fail A e).
Proof. intros; apply okf_fault_reported, okf_fail. Qed.
Lemma fault_reported_tick : fault_reported tick.
Proof. apply okf_fault_reported, okf_tick. Qed.
Lemma fault_reported_get_view : fault_reported get_view.
Proof. apply okf_fault_reported, okf_get_view. Qed.
Lemma fault_reported_put_view : forall v, fault_reported (put_view v).
Proof. intros; apply okf_fault_reported, okf_put_view. Qed.
Lemma fault_reported_tx_get : forall k, fault_reported (tx_get k).
Proof. intros; apply okf_fault_reported, (lift_tx_get _ okf_closed). Qed.
Lemma fault_reported_tx_set : forall k x, fault_reported (tx_set k x).
Proof. intros; apply okf_fault_reported, (lift_tx_set _ okf_closed). Qed.
Lemma fault_reported_tx_delete : forall k, fault_reported (tx_delete k).
Proof. intros; apply okf_fault_reported, (lift_tx_delete _ okf_closed). Qed.
Lemma fault_reported_tx_cursor : forall fw, fault_reported (tx_cursor fw).
Proof. intros; apply okf_fault_reported, (lift_tx_cursor _ okf_closed). Qed.
Lemma fault_reported_cursor_item : forall e, fault_reported (cursor_item e).
Proof. intros; apply okf_fault_reported, (lift_cursor_item _ okf_closed). Qed.
Lemma fault_reported_tx_commit : fault_reported tx_commit.
Proof. apply okf_fault_reported, okf_tx_commit. Qed.

(* every body that a single-transaction operation runs *)
Lemma good_create_collection_tx : forall c, good_body (create_collection_tx c).
Proof. intros; apply good_of_lift_commit; intros; apply lift_create_collection_tx with (P := P); assumption. Qed.
Lemma good_insert_tx : forall c docs, good_body (insert_tx c docs).
Proof. intros; apply good_of_lift_commit; intros; apply lift_insert_tx with (P := P); assumption. Qed.
Lemma good_delete_by_id_tx : forall c id, good_body (delete_by_id_tx c id).
Proof. intros; apply good_of_lift_commit; intros; apply lift_delete_by_id_tx with (P := P); assumption. Qed.
Lemma good_update_by_id_tx : forall c id u, good_body (update_by_id_tx c id u).
Proof. intros; apply good_of_lift_commit; intros; apply lift_update_by_id_tx with (P := P); assumption. Qed.
Lemma good_update_tx : forall q u, good_body (update_tx q u).
Proof. intros; apply good_of_lift_commit; intros; apply lift_update_tx with (P := P); assumption. Qed.
Lemma good_drop_collection_tx : forall c, good_body (drop_collection_tx c).
Proof. intros; apply good_of_lift_commit; intros; apply lift_drop_collection_tx with (P := P); assumption. Qed.
Lemma good_create_index_tx : forall c f, good_body (create_index_tx c f).
Proof. intros; apply good_of_lift_commit; intros; apply lift_create_index_tx with (P := P); assumption. Qed.
Lemma good_drop_index_tx : forall c f, good_body (drop_index_tx c f).
Proof. intros; apply good_of_lift_commit; intros; apply lift_drop_index_tx with (P := P); assumption. Qed.

Lemma good_find_all_tx : forall q, good_body (find_all_tx q).
Proof. intros; apply good_of_lift; intros; apply lift_find_all_tx; assumption. Qed.
Lemma good_find_by_id_tx : forall c id, good_body (find_by_id_tx c id).
Proof. intros; apply good_of_lift; intros; apply lift_find_by_id_tx; assumption. Qed.
Lemma good_has_collection : forall c, good_body (has_collection c).
Proof. intros; apply good_of_lift; intros; apply lift_has_collection; assumption. Qed.
Lemma good_has_index_tx : forall c f, good_body (has_index_tx c f).
Proof. intros; apply good_of_lift; intros; apply lift_has_index_tx; assumption. Qed.
Lemma good_list_indexes_tx : forall c, good_body (list_indexes_tx c).
Proof. intros; apply good_of_lift; intros; apply lift_list_indexes_tx; assumption. Qed.
Lemma good_collection_size_tx : forall c, good_body (collection_size_tx c).
Proof. intros; apply good_of_lift; intros; apply lift_collection_size_tx; assumption. Qed.
Lemma good_list_collections_tx : good_body list_collections_tx.
Proof. apply good_of_lift; intros; apply lift_list_collections_tx; assumption. Qed.
Lemma good_iterate_count : forall q n, good_body (iterate_docs q count_cons n).
Proof.
  intros; apply good_of_lift; intros; apply lift_iterate_docs; [assumption|].
  intros; apply lift_count_cons; assumption.
Qed.
Lemma good_iterate_foreach : forall q n acc, good_body (iterate_docs q (foreach_cons n) acc).
Proof.
  intros; apply good_of_lift; intros; apply lift_iterate_docs; [assumption|].
  intros; apply lift_foreach_cons; assumption.
Qed.
Lemma good_fail : forall A e, good_body (@fail A e).
Proof. intros; apply good_of_lift; intros P HP; exact (cp_fail _ HP A e). Qed.

Create HintDb bodies.
#[local] Hint Resolve good_create_collection_tx good_insert_tx good_delete_by_id_tx good_update_by_id_tx
  good_update_tx good_drop_collection_tx good_create_index_tx good_drop_index_tx
  good_find_all_tx good_find_by_id_tx good_has_collection good_has_index_tx good_list_indexes_tx
  good_collection_size_tx good_list_collections_tx good_iterate_count good_iterate_foreach
  good_fail : bodies.

(* ------------------------------------------------------------------------------------------ *)
(* T1                                                                                         *)
(* ------------------------------------------------------------------------------------------ *)

Theorem write_bodies_commit_last :
  (forall c, commit_last (create_collection_tx c)) /\
  (forall c docs, commit_last (insert_tx c docs)) /\
  (forall c id, commit_last (delete_by_id_tx c id)) /\
  (forall c id u, commit_last (update_by_id_tx c id u)) /\
  (forall q u, commit_last (update_tx q u)) /\
  (forall c, commit_last (drop_collection_tx c)) /\
  (forall c f, commit_last (create_index_tx c f)) /\
  (forall c f, commit_last (drop_index_tx c f)).
Proof.
  repeat split; intros.
  - exact (proj1 (good_create_collection_tx c)).
  - exact (proj1 (good_insert_tx c docs)).
  - exact (proj1 (good_delete_by_id_tx c id)).
  - exact (proj1 (good_update_by_id_tx c id u)).
  - exact (proj1 (good_update_tx q u)).
  - exact (proj1 (good_drop_collection_tx c)).
  - exact (proj1 (good_create_index_tx c f)).
  - exact (proj1 (good_drop_index_tx c f)).
Qed.

Theorem read_bodies_no_commit :
  (forall q, no_commit (find_all_tx q)) /\
  (forall c id, no_commit (find_by_id_tx c id)) /\
  (forall c, no_commit (has_collection c)) /\
  (forall c f, no_commit (has_index_tx c f)) /\
  (forall c, no_commit (list_indexes_tx c)) /\
  (forall c, no_commit (collection_size_tx c)) /\
  no_commit list_collections_tx /\
  (forall A (q : nquery) (cons : obj -> A -> M (A * bool)) (a0 : A),
     (forall d a, no_commit (cons d a)) -> no_commit (iterate_docs q cons a0)).
Proof.
  repeat split; intros.
  - exact (lift_find_all_tx _ nc_closed q).
  - exact (lift_find_by_id_tx _ nc_closed c id).
  - exact (lift_has_collection _ nc_closed c).
  - exact (lift_has_index_tx _ nc_closed c f).
  - exact (lift_list_indexes_tx _ nc_closed c).
  - exact (lift_collection_size_tx _ nc_closed c).
  - exact (lift_list_collections_tx _ nc_closed).
  - exact (lift_iterate_docs _ nc_closed cons H q a0).
Qed.

(* the same for the other two invariants *)
Theorem write_bodies_fault_reported :
  (forall c, fault_reported (create_collection_tx c)) /\
  (forall c docs, fault_reported (insert_tx c docs)) /\
  (forall c id, fault_reported (delete_by_id_tx c id)) /\
  (forall c id u, fault_reported (update_by_id_tx c id u)) /\
  (forall q u, fault_reported (update_tx q u)) /\
  (forall c, fault_reported (drop_collection_tx c)) /\
  (forall c f, fault_reported (create_index_tx c f)) /\
  (forall c f, fault_reported (drop_index_tx c f)).
Proof.
  repeat split; intros; apply okf_fault_reported.
  - exact (proj1 (proj2 (good_create_collection_tx c))).
  - exact (proj1 (proj2 (good_insert_tx c docs))).
  - exact (proj1 (proj2 (good_delete_by_id_tx c id))).
  - exact (proj1 (proj2 (good_update_by_id_tx c id u))).
  - exact (proj1 (proj2 (good_update_tx q u))).
  - exact (proj1 (proj2 (good_drop_collection_tx c))).
  - exact (proj1 (proj2 (good_create_index_tx c f))).
  - exact (proj1 (proj2 (good_drop_index_tx c f))).
Qed.

Theorem write_bodies_fault_sim :
  (forall c, ok_keeps_fired (create_collection_tx c) /\ fault_sim (create_collection_tx c)) /\
  (forall c docs, ok_keeps_fired (insert_tx c docs) /\ fault_sim (insert_tx c docs)) /\
  (forall c id, ok_keeps_fired (delete_by_id_tx c id) /\ fault_sim (delete_by_id_tx c id)) /\
  (forall c id u, ok_keeps_fired (update_by_id_tx c id u) /\ fault_sim (update_by_id_tx c id u)) /\
  (forall q u, ok_keeps_fired (update_tx q u) /\ fault_sim (update_tx q u)) /\
  (forall c, ok_keeps_fired (drop_collection_tx c) /\ fault_sim (drop_collection_tx c)) /\
  (forall c f, ok_keeps_fired (create_index_tx c f) /\ fault_sim (create_index_tx c f)) /\
  (forall c f, ok_keeps_fired (drop_index_tx c f) /\ fault_sim (drop_index_tx c f)).
Proof.
  repeat apply conj; intros.
  - exact (proj2 (good_create_collection_tx c)).
  - exact (proj2 (good_insert_tx c docs)).
  - exact (proj2 (good_delete_by_id_tx c id)).
  - exact (proj2 (good_update_by_id_tx c id u)).
  - exact (proj2 (good_update_tx q u)).
  - exact (proj2 (good_drop_collection_tx c)).
  - exact (proj2 (good_create_index_tx c f)).
  - exact (proj2 (good_drop_index_tx c f)).
Qed.

(* ------------------------------------------------------------------------------------------ *)
(* T2: an error result of a transaction means the handle is what it was                        *)
(* ------------------------------------------------------------------------------------------ *)

Definition tx_start (f : option nat) (db : dbst) : txst := mkTx (durable db) f 0 None false.

Lemma with_tx_closed : forall A (body : M A) f db, closed db = true ->
  with_tx body f db = mkOut (Err EOther) db 0 false.
Proof. intros A body f db H. unfold with_tx. rewrite H. reflexivity. Qed.

Lemma with_tx_open : forall A (body : M A) f db r s, closed db = false ->
  (tick ;;; body) (tx_start f db) = (r, s) ->
  with_tx body f db =
    mkOut r (mkDb (match committed s with Some v => v | None => durable db end) false)
          (calls s) (fired s).
Proof.
  intros A body f db r s H E. unfold with_tx. rewrite H. cbv zeta.
  unfold tx_start in E. rewrite E. reflexivity.
Qed.

Lemma commit_last_begin : forall A (body : M A), commit_last body -> commit_last (tick ;;; body).
Proof. intros A body H. apply commit_last_bind; [exact no_commit_tick | intros _; exact H]. Qed.

Lemma okf_begin : forall A (body : M A), ok_keeps_fired body -> ok_keeps_fired (tick ;;; body).
Proof. intros A body H. apply okf_bind; [exact okf_tick | intros _; exact H]. Qed.

Lemma fsim_begin : forall A (body : M A), ok_keeps_fired body -> fault_sim body -> fault_sim (tick ;;; body).
Proof. intros A body K H. apply fsim_bind; [exact okf_tick | exact fsim_tick | intros _; exact H]. Qed.

Theorem with_tx_error_no_effect : forall A (body : M A) f db,
  commit_last body -> is_err (o_res (with_tx body f db)) = true -> o_db (with_tx body f db) = db.
Proof.
  intros A body f db CL E.
  destruct (closed db) eqn:Cl.
  - (* a closed handle: the result is the handle itself *)
    rewrite with_tx_closed by exact Cl. reflexivity.
  - destruct ((tick ;;; body) (tx_start f db)) as [r s] eqn:Eb.
    rewrite (with_tx_open _ _ _ _ _ _ Cl Eb) in *. cbn [o_res o_db] in *.
    (* covers the failing Begin: tick returns Err, body is not run, nothing is committed *)
    rewrite (commit_last_begin _ _ CL (tx_start f db) r s eq_refl Eb E).
    destruct db as [d cl]. cbn in Cl |- *. rewrite Cl. reflexivity.
Qed.

Lemma with_tx_fault_reported : forall A (body : M A) f db,
  ok_keeps_fired body -> o_fired (with_tx body f db) = true -> is_err (o_res (with_tx body f db)) = true.
Proof.
  intros A body f db K F.
  destruct (closed db) eqn:Cl.
  - rewrite with_tx_closed in * by exact Cl. reflexivity.
  - destruct ((tick ;;; body) (tx_start f db)) as [r s] eqn:Eb.
    rewrite (with_tx_open _ _ _ _ _ _ Cl Eb) in *. cbn [o_res o_fired] in *.
    exact (okf_fault_reported _ _ (okf_begin _ _ K) _ _ _ Eb eq_refl F).
Qed.

Lemma with_tx_ok_not_fired : forall A (body : M A) f db a,
  ok_keeps_fired body -> o_res (with_tx body f db) = Ok a -> o_fired (with_tx body f db) = false.
Proof.
  intros A body f db a K F.
  destruct (o_fired (with_tx body f db)) eqn:E; [|reflexivity].
  apply with_tx_fault_reported in E; [|exact K]. rewrite F in E. discriminate E.
Qed.

(* ------------------------------------------------------------------------------------------ *)
(* T6a: crash atomicity of one transaction                                                     *)
(* ------------------------------------------------------------------------------------------ *)

Theorem with_tx_crash_atomic : forall A (body : M A) k db,
  commit_last body -> ok_keeps_fired body -> fault_sim body ->
  o_db (with_tx body (Some k) db) = db \/
  (o_db (with_tx body (Some k) db) = o_db (with_tx body None db) /\
   o_res (with_tx body (Some k) db) = o_res (with_tx body None db)).
Proof.
  intros A body k db CL K FS.
  destruct (closed db) eqn:Cl.
  - left. rewrite with_tx_closed by exact Cl. reflexivity.
  - destruct ((tick ;;; body) (tx_start (Some k) db)) as [r s] eqn:Eb.
    assert (S0 : sim (tx_start (Some k) db) (tx_start None db)).
    { unfold sim, tx_start; cbn. repeat split; reflexivity. }
    destruct (fsim_begin _ _ K FS _ _ _ _ S0 Eb) as [F | [s2 [E2 S2]]].
    + (* the fault fired: the crash happened in this transaction; it is reported, so nothing was committed *)
      left. apply with_tx_error_no_effect; [exact CL|].
      apply with_tx_fault_reported; [exact K|].
      rewrite (with_tx_open _ _ _ _ _ _ Cl Eb). exact F.
    + (* the fault did not fire: the run is the fault-free run *)
      right. rewrite (with_tx_open _ _ _ _ _ _ Cl Eb), (with_tx_open _ _ _ _ _ _ Cl E2).
      cbn [o_db o_res]. destruct S2 as (_ & C2 & _). rewrite C2. split; reflexivity.
Qed.

(* ------------------------------------------------------------------------------------------ *)
(* run_tx                                                                                     *)
(* ------------------------------------------------------------------------------------------ *)

Lemma run_tx_error_no_effect : forall A (body : M A) st,
  commit_last body -> is_err (fst (run_tx body st)) = true -> r_db (snd (run_tx body st)) = r_db st.
Proof.
  intros A body st CL E. unfold run_tx in *. cbn [fst snd r_db] in *.
  apply with_tx_error_no_effect; assumption.
Qed.

Lemma run_tx_fired_err : forall A (body : M A) st,
  ok_keeps_fired body -> r_fired st = false -> r_fired (snd (run_tx body st)) = true ->
  is_err (fst (run_tx body st)) = true.
Proof.
  intros A body st K F0 F1. unfold run_tx in *. cbn [fst snd r_fired] in *.
  rewrite F0 in F1. cbn [orb] in F1. apply with_tx_fault_reported; assumption.
Qed.

Lemma run_tx_ok_fired : forall A (body : M A) st a,
  ok_keeps_fired body -> fst (run_tx body st) = Ok a -> r_fired (snd (run_tx body st)) = r_fired st.
Proof.
  intros A body st a K E. unfold run_tx in *. cbn [fst snd r_fired] in *.
  rewrite (with_tx_ok_not_fired _ _ _ _ _ K E). apply Bool.orb_false_r.
Qed.

Lemma run_tx_crash : forall A (body : M A) db k,
  good_body body ->
  r_db (snd (run_tx body (fresh_rstate db (Some k)))) = db \/
  r_db (snd (run_tx body (fresh_rstate db (Some k)))) = r_db (snd (run_tx body (fresh_rstate db None))).
Proof.
  intros A body db k (CL & K & FS). unfold run_tx, fresh_rstate. cbn [fst snd r_db r_fault].
  destruct (with_tx_crash_atomic _ body k db CL K FS) as [H | [H _]]; [left|right]; exact H.
Qed.

(* ------------------------------------------------------------------------------------------ *)
(* the shape of every single-transaction operation                                             *)
(* ------------------------------------------------------------------------------------------ *)

Lemma T_err_is_err : forall e, T_is_err (T_err e) = true.
Proof. intros []; reflexivity. Qed.

Lemma T_unit_is_err : forall A (r : res A), T_is_err (T_unit r) = is_err r.
Proof. intros A [a|e]; [reflexivity | apply T_err_is_err]. Qed.

Lemma T_res_is_err : forall A (f : A -> T) (r : res A), T_is_err (T_res f r) = is_err r.
Proof. intros A f [a|e]; [reflexivity | apply T_err_is_err]. Qed.

(* either one transaction whose result is rendered, or an error before any store call *)
Definition op_shape (o : op) : Prop :=
  (exists (A : Type) (body : M A) (f : res A -> T),
      good_body body /\ (forall r, T_is_err (f r) = is_err r) /\
      forall st, exec_op o st = (f (fst (run_tx body st)), snd (run_tx body st)))
  \/ (exists t, T_is_err t = true /\ forall st, exec_op o st = (t, st)).

Ltac rew_eqns := repeat match goal with H : _ = _ |- _ => rewrite H end.

Ltac shape_tx body f :=
  left; exists _, body, f; split; [auto with bodies|];
  split; [intro; first [apply T_unit_is_err | apply T_res_is_err]|];
  let st := fresh "st" in
  intro st; unfold exec_op, insert_op, find_all_op; rew_eqns;
  destruct (run_tx body st); reflexivity.

Ltac shape_err :=
  right; exists (T_err EOther); split; [reflexivity|];
  let st := fresh "st" in
  intro st; unfold exec_op, insert_op, find_all_op; rew_eqns; reflexivity.

Lemma exec_op_shape : forall o, single_tx o = true -> op_shape o.
Proof.
  intros o H. destruct o; try discriminate H; clear H.
  - shape_tx (create_collection_tx c) (@T_unit unit).
  - shape_tx (drop_collection_tx c) (@T_unit unit).
  - shape_tx (has_collection c) (T_res Tbool).
  - shape_tx list_collections_tx (T_res (fun l => TL (map TB (msort bleb l)))).
  - shape_tx (insert_tx c (assign_ids docs fresh)) (@T_unit unit).
  - destruct (needs_id d) eqn:E.
    + shape_tx (insert_tx c (assign_ids [d] [fresh])) (@T_unit unit).
    + shape_tx (update_by_id_tx c (object_id d) (UFunConst d)) (@T_unit unit).
  - destruct (normalize_query (mk_query q)) as [nq|] eqn:E.
    + shape_tx (find_all_tx nq) (T_res (T_of_docs (q_sort (mk_query q)) mode)).
    + shape_err.
  - destruct (normalize_query (mk_query q)) as [nq|] eqn:E; [|shape_err].
    destruct (nq_crit nq) eqn:E2.
    + shape_tx (iterate_docs nq count_cons 0) (T_res TZ).
    + shape_tx (collection_size_tx (nq_coll nq))
               (T_res (fun n => TZ (count_window n (nq_skip nq) (nq_limit nq)))).
  - destruct (normalize_query (q_apply (mk_query q) (QLimit 1))) as [nq|] eqn:E.
    + shape_tx (find_all_tx nq) (T_res (fun l : list obj => Tbool (match l with [] => false | _ => true end))).
    + shape_err.
  - destruct (normalize_query (q_apply (mk_query q) (QLimit 1))) as [nq|] eqn:E.
    + shape_tx (find_all_tx nq) (T_res (fun l : list obj => T_of_opt_doc (hd_error l))).
    + shape_err.
  - destruct (normalize_query (mk_query q)) as [nq|] eqn:E; [|shape_err].
    shape_tx (iterate_docs nq (foreach_cons stop_after) [])
             (T_res (fun l => T_of_docs (nq_sort nq) mode (rev l))).
  - shape_tx (find_by_id_tx c id) (T_res T_of_opt_doc).
  - shape_tx (delete_by_id_tx c id) (@T_unit unit).
  - shape_tx (update_by_id_tx c id u) (@T_unit unit).
  - destruct (negb (beqb (object_id d) id)) eqn:E; [shape_err|].
    shape_tx (update_by_id_tx c id (UFunConst d)) (@T_unit unit).
  - destruct (normalize_query (mk_query q)) as [nq|] eqn:E; [|shape_err].
    shape_tx (update_tx nq (USetAll kvs)) (@T_unit unit).
  - destruct (normalize_query (mk_query q)) as [nq|] eqn:E.
    + shape_tx (update_tx nq u) (@T_unit unit).
    + shape_tx (fail EOther : M unit) (@T_unit unit).
  - destruct (normalize_query (mk_query q)) as [nq|] eqn:E; [|shape_err].
    shape_tx (update_tx nq UFunNil) (@T_unit unit).
  - shape_tx (create_index_tx c f) (@T_unit unit).
  - shape_tx (drop_index_tx c f) (@T_unit unit).
  - shape_tx (has_index_tx c f) (T_res Tbool).
  - shape_tx (list_indexes_tx c) (T_res (fun l => TL (map TB (msort bleb l)))).
Qed.

(* ------------------------------------------------------------------------------------------ *)
(* T3, T4, T6b                                                                                *)
(* ------------------------------------------------------------------------------------------ *)

Theorem exec_op_error_no_effect : forall o st,
  single_tx o = true -> T_is_err (fst (exec_op o st)) = true -> r_db (snd (exec_op o st)) = r_db st.
Proof.
  intros o st S E.
  destruct (exec_op_shape o S) as [(A & body & f & (CL & _) & Hf & Hx) | (t & _ & Hx)];
    rewrite Hx in *; cbn [fst snd] in *.
  - rewrite Hf in E. apply run_tx_error_no_effect; assumption.
  - reflexivity.
Qed.

Lemma exec_op_fault_reported_single : forall o st,
  single_tx o = true ->
  r_fired st = false -> r_fired (snd (exec_op o st)) = true -> T_is_err (fst (exec_op o st)) = true.
Proof.
  intros o st S F0 F1.
  destruct (exec_op_shape o S) as [(A & body & f & (_ & K & _) & Hf & Hx) | (t & Ht & Hx)];
    rewrite Hx in *; cbn [fst snd] in *.
  - rewrite Hf. apply run_tx_fired_err; assumption.
  - exact Ht.
Qed.

Theorem exec_op_crash_atomic : forall o db k,
  single_tx o = true ->
  let st := fresh_rstate db (Some k) in
  r_db (snd (exec_op o st)) = db \/ r_db (snd (exec_op o st)) = snd (step db o).
Proof.
  intros o db k S st. subst st.
  assert (Hstep : snd (step db o) = r_db (snd (exec_op o (fresh_rstate db None)))).
  { unfold step. destruct (exec_op o (fresh_rstate db None)); reflexivity. }
  rewrite Hstep.
  destruct (exec_op_shape o S) as [(A & body & f & G & _ & Hx) | (t & _ & Hx)];
    rewrite !Hx; cbn [fst snd].
  - apply run_tx_crash; exact G.
  - left; reflexivity.
Qed.

(* ---- T4 for every operation, the composite ones included ---- *)
Lemma run_tx_eq_fired_err : forall A (body : M A) st r st',
  ok_keeps_fired body -> run_tx body st = (r, st') ->
  r_fired st = false -> r_fired st' = true -> is_err r = true.
Proof.
  intros A body st r st' K E F0 F1.
  change r with (fst (r, st')). rewrite <- E. apply run_tx_fired_err; [exact K|exact F0|].
  rewrite E. exact F1.
Qed.

Lemma run_tx_eq_ok_fired : forall A (body : M A) st a st',
  ok_keeps_fired body -> run_tx body st = (Ok a, st') -> r_fired st' = r_fired st.
Proof.
  intros A body st a st' K E.
  change st' with (snd (Ok a, st')). rewrite <- E. apply run_tx_ok_fired with (a := a); [exact K|].
  rewrite E. reflexivity.
Qed.

Lemma find_all_op_fired_err : forall q st r st',
  find_all_op q st = (r, st') -> r_fired st = false -> r_fired st' = true -> is_err r = true.
Proof.
  intros q st r st' E F0 F1. unfold find_all_op in E.
  destruct (normalize_query q) as [nq|].
  - exact (run_tx_eq_fired_err _ _ _ _ _ (proj1 (proj2 (good_find_all_tx nq))) E F0 F1).
  - inv_pair E. reflexivity.
Qed.

Lemma find_all_op_ok_fired : forall q st a st',
  find_all_op q st = (Ok a, st') -> r_fired st' = r_fired st.
Proof.
  intros q st a st' E. unfold find_all_op in E.
  destruct (normalize_query q) as [nq|].
  - exact (run_tx_eq_ok_fired _ _ _ _ _ (proj1 (proj2 (good_find_all_tx nq))) E).
  - discriminate E.
Qed.

Lemma insert_op_fired_err : forall c docs st r st',
  insert_op c docs st = (r, st') -> r_fired st = false -> r_fired st' = true -> is_err r = true.
Proof.
  intros c docs st r st' E. unfold insert_op in E.
  exact (run_tx_eq_fired_err _ _ _ _ _ (proj1 (proj2 (good_insert_tx c docs))) E).
Qed.

Theorem exec_op_fault_reported : forall o st,
  r_fired st = false -> r_fired (snd (exec_op o st)) = true -> T_is_err (fst (exec_op o st)) = true.
Proof.
  intros o st F0 F1.
  destruct (single_tx o) eqn:S; [exact (exec_op_fault_reported_single o st S F0 F1)|].
  destruct o; try discriminate S; clear S; unfold exec_op in *.
  - (* OExport *)
    destruct (run_tx (has_collection c) st) as [r st1] eqn:E1.
    destruct r as [[|]|e]; cbn [fst snd] in *; try apply T_err_is_err.
    assert (F : r_fired st1 = false).
    { rewrite (run_tx_eq_ok_fired _ _ _ _ _ (proj1 (proj2 (good_has_collection c))) E1). exact F0. }
    destruct (find_all_op (new_query c) st1) as [r2 st2] eqn:E2. cbn [fst snd] in *.
    rewrite T_res_is_err. exact (find_all_op_fired_err _ _ _ _ E2 F F1).
  - (* OImport *)
    destruct file as [| |l]; cbn [fst snd] in *; try apply T_err_is_err.
    + destruct (run_tx (create_collection_tx c) st) as [r st1] eqn:E1.
      destruct r as [u|e]; cbn [fst snd] in *; apply T_err_is_err.
    + destruct (run_tx (create_collection_tx c) st) as [r st1] eqn:E1.
      destruct r as [u|e]; cbn [fst snd] in *; try apply T_err_is_err.
      assert (F : r_fired st1 = false).
      { rewrite (run_tx_eq_ok_fired _ _ _ _ _ (proj1 (proj2 (good_create_collection_tx c))) E1). exact F0. }
      destruct (forallb _ l); cbn [fst snd] in *; try apply T_err_is_err.
      destruct (insert_op c _ st1) as [r2 st2] eqn:E2. cbn [fst snd] in *.
      rewrite T_unit_is_err. exact (insert_op_fired_err _ _ _ _ _ E2 F F1).
  - (* OCreateByQuery *)
    destruct (run_tx (create_collection_tx c) st) as [r st1] eqn:E1.
    destruct r as [u|e]; cbn [fst snd] in *; try apply T_err_is_err.
    assert (F : r_fired st1 = false).
    { rewrite (run_tx_eq_ok_fired _ _ _ _ _ (proj1 (proj2 (good_create_collection_tx c))) E1). exact F0. }
    destruct (find_all_op (mk_query q) st1) as [r2 st2] eqn:E2.
    destruct r2 as [docs|e]; cbn [fst snd] in *; try apply T_err_is_err.
    assert (F2 : r_fired st2 = false).
    { rewrite (find_all_op_ok_fired _ _ _ _ E2). exact F. }
    destruct docs as [|d docs]; cbn [fst snd] in *.
    + rewrite F2 in F1. discriminate F1.
    + destruct (insert_op c (d :: docs) st2) as [r3 st3] eqn:E3. cbn [fst snd] in *.
      rewrite T_unit_is_err. exact (insert_op_fired_err _ _ _ _ _ E3 F2 F1).
  - (* OClose *) cbn [fst snd r_fired] in *. rewrite F0 in F1. discriminate F1.
  - (* OReopen *) cbn [fst snd r_fired] in *. rewrite F0 in F1. discriminate F1.
Qed.

(* ------------------------------------------------------------------------------------------ *)
(* T5: composite operations are not atomic (finding K-composite)                              *)
(* ------------------------------------------------------------------------------------------ *)

Definition ex_cA : bytes := [97%N].
Definition ex_cB : bytes := [98%N].
Definition ex_fX : bytes := [120%N].

(* "00000000-0000-0000-0000-00000000000n" *)
Definition ex_id (n : N) : bytes :=
  let z := 48%N in let d := 45%N in
  [z;z;z;z;z;z;z;z;d;z;z;z;z;d;z;z;z;z;d;z;z;z;z;d;z;z;z;z;z;z;z;z;z;z;z;(48+n)%N].
Definition ex_doc (n : N) (x : Z) : obj := [(id_field, VStr (ex_id n)); (ex_fX, VInt x)].

Example ex_ids_canonical :
  forallb (fun n => canonical_id (ex_id n) && validate (ex_doc n 0)) [1;2;3;4]%N = true.
Proof. vm_compute. reflexivity. Qed.

(* Import of an ill-formed file: the collection has been created and stays *)
Theorem import_not_atomic_refuted : exists c file st,
  T_is_err (fst (exec_op (OImport c file) st)) = true /\
  r_db (snd (exec_op (OImport c file) st)) <> r_db st.
Proof.
  exists ex_cB, FIllFormed, (fresh_rstate empty_db None). split.
  - vm_compute. reflexivity.
  - vm_compute. discriminate.
Qed.

(* the same with a null element in a well-formed array *)
Theorem import_null_elem_not_atomic_refuted :
  let st := fresh_rstate empty_db None in
  T_is_err (fst (exec_op (OImport ex_cB (FElems [None])) st)) = true /\
  r_db (snd (exec_op (OImport ex_cB (FElems [None])) st)) <> r_db st.
Proof. split; [vm_compute; reflexivity | vm_compute; discriminate]. Qed.

Definition ex_db_src : dbst :=
  snd (run_ops empty_db [OCreateCollection ex_cA; OInsert ex_cA [ex_doc 1 10] []]).

(* CreateCollectionByQuery: a fault in the second (k = 5) or third (k = 12) transaction leaves the
   new, empty collection behind *)
Theorem create_by_query_not_atomic_refuted : exists c q st,
  T_is_err (fst (exec_op (OCreateByQuery c q) st)) = true /\
  r_db (snd (exec_op (OCreateByQuery c q) st)) <> r_db st.
Proof.
  exists ex_cB, (ex_cA, []), (fresh_rstate ex_db_src (Some 5%nat)). split.
  - vm_compute. reflexivity.
  - vm_compute. discriminate.
Qed.

Theorem create_by_query_third_tx_not_atomic_refuted :
  let st := fresh_rstate ex_db_src (Some 12%nat) in
  let o := OCreateByQuery ex_cB (ex_cA, []) in
  T_is_err (fst (exec_op o st)) = true /\ r_fired (snd (exec_op o st)) = true /\
  r_db (snd (exec_op o st)) <> r_db st /\
  r_db (snd (exec_op o st)) <> snd (step ex_db_src o).
Proof.
  repeat split; try (vm_compute; reflexivity); vm_compute; discriminate.
Qed.

(* ------------------------------------------------------------------------------------------ *)
(* T7: non-vacuity                                                                            *)
(* ------------------------------------------------------------------------------------------ *)

Definition ex_db0 : dbst :=
  snd (run_ops empty_db [OCreateCollection ex_cA; OCreateIndex ex_cA ex_fX;
                         OInsert ex_cA [ex_doc 1 10; ex_doc 2 20] []]).

Definition ex_ins : op := OInsert ex_cA [ex_doc 3 30; ex_doc 4 40] [].

Example ex_db0_built :
  fst (run_ops empty_db [OCreateCollection ex_cA; OCreateIndex ex_cA ex_fX;
                         OInsert ex_cA [ex_doc 1 10; ex_doc 2 20] []])
  = [T_ok (TL []); T_ok (TL []); T_ok (TL [])] /\ length (durable ex_db0) = 5%nat.
Proof. vm_compute. split; reflexivity. Qed.

Example ex_insert_fault_3 :
  let r := exec_op ex_ins (fresh_rstate ex_db0 (Some 3%nat)) in
  fst r = T_err EStore /\ r_fired (snd r) = true /\ r_db (snd r) = ex_db0.
Proof. vm_compute. repeat split; reflexivity. Qed.

Example ex_insert_fault_6 :
  let r := exec_op ex_ins (fresh_rstate ex_db0 (Some 6%nat)) in
  fst r = T_err EStore /\ r_fired (snd r) = true /\ r_db (snd r) = ex_db0.
Proof. vm_compute. repeat split; reflexivity. Qed.

(* the very last store call of the operation is the commit: failing it still leaves no trace *)
Example ex_insert_fault_commit :
  let r := exec_op ex_ins (fresh_rstate ex_db0 (Some 9%nat)) in
  fst r = T_err EStore /\ r_calls (snd r) = 10%nat /\ r_db (snd r) = ex_db0.
Proof. vm_compute. repeat split; reflexivity. Qed.

Example ex_insert_no_fault :
  let r := exec_op ex_ins (fresh_rstate ex_db0 None) in
  fst r = T_ok (TL []) /\ r_calls (snd r) = 10%nat /\ r_db (snd r) <> ex_db0 /\
  length (durable (r_db (snd r))) = 9%nat.
Proof. vm_compute. repeat split; try reflexivity. discriminate. Qed.

(* a fault position beyond the operation's calls: the run is the fault-free run *)
Example ex_insert_fault_late :
  exec_op ex_ins (fresh_rstate ex_db0 (Some 10%nat)) <> exec_op ex_ins (fresh_rstate ex_db0 None) /\
  r_db (snd (exec_op ex_ins (fresh_rstate ex_db0 (Some 10%nat)))) = snd (step ex_db0 ex_ins).
Proof. vm_compute. split; [discriminate | reflexivity]. Qed.

(* a batch whose second document repeats a stored id: an error after writes were made in the
   transaction, and the database is what it was *)
Example ex_insert_duplicate :
  let r := exec_op (OInsert ex_cA [ex_doc 3 30; ex_doc 1 40] []) (fresh_rstate ex_db0 None) in
  fst r = T_err EDupKey /\ r_fired (snd r) = false /\ r_db (snd r) = ex_db0.
Proof. vm_compute. repeat split; reflexivity. Qed.

Print Assumptions write_bodies_commit_last.
Print Assumptions read_bodies_no_commit.
Print Assumptions write_bodies_fault_reported.
Print Assumptions write_bodies_fault_sim.
Print Assumptions with_tx_error_no_effect.
Print Assumptions exec_op_error_no_effect.
Print Assumptions exec_op_fault_reported.
Print Assumptions import_not_atomic_refuted.
Print Assumptions create_by_query_not_atomic_refuted.
Print Assumptions create_by_query_third_tx_not_atomic_refuted.
Print Assumptions with_tx_crash_atomic.
Print Assumptions exec_op_crash_atomic.

(* C15 — both store adapters give cursors the same meaning.

   Model/Adapters.v models the bbolt adapter (Seek/Next/Valid written over the documented behaviour
   of bbolt's own cursor) and the badger adapter (a pass-through of badger's iterator).
   [contract_scan] is what the model's own ordered-map cursor (Model/KV.v) visits.

   Proved here, for every strictly sorted key list, both directions, every seek target:
     bolt_scan_contract, badger_scan_contract, adapters_agree,
     contract_scan_fwd / contract_scan_rev (explicit characterisations),
     scan_visits_once, scan_in_order,
     bolt_old_violates_contract (the defect repaired in the bbolt adapter: reverse seek past the
     last key left the cursor invalid).
*)
From Clover Require Import Adapters BytesProofs KVProofs.
From Coq Require Import Sorted Lia.

Open Scope nat_scope.

Definition keys_sorted_strict (ks : list bytes) : Prop :=
  StronglySorted (fun a b => lex a b = Lt) ks.

(* ------------------------------------------------------------------ *)
(* 0. list helpers                                                     *)
(* ------------------------------------------------------------------ *)

Lemma skipn_nth_cons : forall {A} (l : list A) i k,
  nth_error l i = Some k -> skipn i l = k :: skipn (S i) l.
Proof.
  intros A l. induction l as [|x l IH]; intros i k H.
  - destruct i; discriminate.
  - destruct i as [|i].
    + simpl in H. inversion H. reflexivity.
    + simpl in H. apply IH in H. exact H.
Qed.

Lemma firstn_S_nth : forall {A} (l : list A) i k,
  nth_error l i = Some k -> firstn (S i) l = firstn i l ++ [k].
Proof.
  intros A l. induction l as [|x l IH]; intros i k H.
  - destruct i; discriminate.
  - destruct i as [|i].
    + simpl in H. inversion H. reflexivity.
    + simpl in H. apply IH in H. change (firstn (S (S i)) (x :: l)) with (x :: firstn (S i) l).
      rewrite H. reflexivity.
Qed.

Lemma Forall_filter_true : forall {A} (p : A -> bool) l, Forall (fun x => p x = true) (filter p l).
Proof.
  intros A p l. apply Forall_forall. intros x Hx. apply filter_In in Hx. tauto.
Qed.

(* a strictly sorted list splits at a downward-closed predicate *)
Lemma sorted_partition : forall (p : bytes -> bool) ks,
  keys_sorted_strict ks ->
  (forall a b, lex a b = Lt -> p b = true -> p a = true) ->
  ks = filter p ks ++ filter (fun k => negb (p k)) ks.
Proof.
  intros p ks Hs Hp. induction Hs as [|x l Hs IH Hf]; [reflexivity|].
  simpl. destruct (p x) eqn:Ex; simpl.
  - f_equal. exact IH.
  - rewrite filter_none, filter_all; [reflexivity | |].
    + eapply Forall_impl; [|exact Hf]. intros y Hy. simpl in Hy.
      destruct (p y) eqn:Ey; [|reflexivity].
      rewrite (Hp x y Hy Ey) in Ex. discriminate.
    + eapply Forall_impl; [|exact Hf]. intros y Hy. simpl in Hy.
      destruct (p y) eqn:Ey; [|reflexivity].
      rewrite (Hp x y Hy Ey) in Ex. discriminate.
Qed.

Lemma bltb_down_l : forall t a b, lex a b = Lt -> bltb b t = true -> bltb a t = true.
Proof.
  intros t a b Hab H. unfold bltb in *. destruct (lex b t) eqn:E; try discriminate.
  rewrite (lex_lt_trans a b t Hab E). reflexivity.
Qed.

Lemma le_down : forall t a b, lex a b = Lt -> negb (bltb t b) = true -> negb (bltb t a) = true.
Proof.
  intros t a b Hab H. unfold bltb in *. destruct (lex t a) eqn:E; try reflexivity.
  rewrite (lex_lt_trans t a b E Hab) in H. discriminate.
Qed.

(* ------------------------------------------------------------------ *)
(* 1. the contract, explicitly                                         *)
(* ------------------------------------------------------------------ *)

Definition embed_keys (ks : list bytes) : kv := map (fun k => (k, SEmpty)) ks.

Lemma embed_keys_sorted : forall ks, keys_sorted_strict ks -> kv_sorted (embed_keys ks).
Proof.
  intros ks H. induction H as [|x l Hs IH Hf]; simpl; [constructor|].
  constructor; [exact IH|]. unfold embed_keys. apply Forall_map. simpl. exact Hf.
Qed.

Lemma map_fst_filter_embed : forall (p : bytes -> bool) ks,
  map fst (filter (fun e => p (fst e)) (embed_keys ks)) = filter p ks.
Proof.
  intros p ks. induction ks as [|k ks IH]; simpl; [reflexivity|].
  destruct (p k); simpl; rewrite IH; reflexivity.
Qed.

(* forward: the keys >= t, ascending *)
Theorem contract_scan_fwd : forall ks t, keys_sorted_strict ks ->
  contract_scan ks true t = filter (fun k => negb (bltb k t)) ks.
Proof.
  intros ks t Hs. unfold contract_scan. fold (embed_keys ks). simpl.
  rewrite seek_fwd_spec by (apply embed_keys_sorted; exact Hs).
  apply (map_fst_filter_embed (fun k => negb (bltb k t))).
Qed.

(* reverse: the keys <= t, descending *)
Theorem contract_scan_rev : forall ks t, keys_sorted_strict ks ->
  contract_scan ks false t = rev (filter (fun k => negb (bltb t k)) ks).
Proof.
  intros ks t Hs. unfold contract_scan. fold (embed_keys ks). simpl.
  rewrite seek_rev_spec by (apply embed_keys_sorted; exact Hs).
  rewrite map_rev. f_equal.
  apply (map_fst_filter_embed (fun k => negb (bltb t k))).
Qed.

(* ------------------------------------------------------------------ *)
(* 2. the library cursor: where Seek lands, what stepping visits       *)
(* ------------------------------------------------------------------ *)

Lemma bolt_iter_none : forall ks fuel forward, bolt_iter ks fuel forward None = [].
Proof. intros ks fuel forward. destruct fuel; reflexivity. Qed.

(* stepping forward from index i visits the keys from index i on *)
Lemma bolt_iter_fwd : forall ks fuel i, length ks - i <= fuel ->
  bolt_iter ks fuel true (Some i) = skipn i ks.
Proof.
  intros ks fuel. induction fuel as [|n IH]; intros i Hf.
  - simpl. symmetry. apply skipn_all2. lia.
  - cbn [bolt_iter key_at bolt_next lib_next]. destruct (nth_error ks i) as [k|] eqn:E.
    + rewrite (skipn_nth_cons _ _ _ E). f_equal.
      destruct (Nat.ltb_spec (S i) (length ks)) as [Hlt|Hge].
      * apply IH. lia.
      * rewrite bolt_iter_none. symmetry. apply skipn_all2. exact Hge.
    + apply nth_error_None in E. symmetry. apply skipn_all2. exact E.
Qed.

(* stepping backward from index i visits the keys at indices i, i-1, ..., 0 *)
Lemma bolt_iter_rev : forall ks i fuel, i < length ks -> S i <= fuel ->
  bolt_iter ks fuel false (Some i) = rev (firstn (S i) ks).
Proof.
  intros ks i. induction i as [|i IH]; intros fuel Hi Hf.
  - destruct fuel as [|n]; [lia|]. cbn [bolt_iter key_at bolt_next lib_prev].
    destruct ks as [|k ks]; [simpl in Hi; lia|]. simpl. rewrite bolt_iter_none. reflexivity.
  - destruct fuel as [|n]; [lia|]. cbn [bolt_iter key_at bolt_next lib_prev].
    destruct (nth_error ks (S i)) as [k|] eqn:E.
    + rewrite (firstn_S_nth _ _ _ E). rewrite rev_app_distr. simpl. f_equal.
      apply IH; lia.
    + apply nth_error_None in E. lia.
Qed.

Lemma first_ge_app : forall t pre suf i,
  Forall (fun k => lex k t = Lt) pre ->
  Forall (fun k => lex k t <> Lt) suf ->
  first_ge t (pre ++ suf) i = match suf with [] => None | _ => Some (i + length pre) end.
Proof.
  intros t pre. induction pre as [|x pre IH]; intros suf i Hp Hq.
  - simpl. destruct suf as [|k suf]; simpl; [reflexivity|].
    inversion Hq as [|? ? Hk _]; subst. unfold bltb.
    destruct (lex k t); [f_equal; lia | congruence | f_equal; lia].
  - inversion Hp as [|? ? Hx Hp']; subst. simpl. unfold bltb. rewrite Hx.
    rewrite (IH suf (S i) Hp' Hq). destruct suf; [reflexivity | f_equal; lia].
Qed.

Lemma last_le_app : forall t pre suf i best,
  Forall (fun k => lex t k <> Lt) pre ->
  Forall (fun k => lex t k = Lt) suf ->
  last_le t (pre ++ suf) i best = match pre with [] => best | _ => Some (i + length pre - 1) end.
Proof.
  intros t pre. induction pre as [|x pre IH]; intros suf i best Hp Hq.
  - simpl. destruct suf as [|k suf]; simpl; [reflexivity|].
    inversion Hq as [|? ? Hk _]; subst. unfold bltb. rewrite Hk. reflexivity.
  - inversion Hp as [|? ? Hx Hp']; subst. simpl. unfold bltb.
    destruct (lex t x) eqn:E; try congruence.
    + rewrite (IH suf (S i) (Some i) Hp' Hq). destruct pre; simpl; f_equal; lia.
    + rewrite (IH suf (S i) (Some i) Hp' Hq). destruct pre; simpl; f_equal; lia.
Qed.

(* the two splits of a sorted key list at a target *)
Lemma split_lt : forall t ks, keys_sorted_strict ks ->
  exists pre suf, ks = pre ++ suf
    /\ Forall (fun k => lex k t = Lt) pre
    /\ Forall (fun k => lex k t <> Lt) suf
    /\ suf = filter (fun k => negb (bltb k t)) ks.
Proof.
  intros t ks Hs.
  exists (filter (fun k => bltb k t) ks), (filter (fun k => negb (bltb k t)) ks).
  split; [apply (sorted_partition (fun k => bltb k t) ks Hs (bltb_down_l t))|].
  split; [|split; [|reflexivity]].
  - eapply Forall_impl; [|apply Forall_filter_true]. intros k Hk. simpl in Hk.
    unfold bltb in Hk. destruct (lex k t); [discriminate | reflexivity | discriminate].
  - eapply Forall_impl; [|apply Forall_filter_true]. intros k Hk. simpl in Hk.
    unfold bltb in Hk. destruct (lex k t); [discriminate | discriminate | discriminate].
Qed.

Lemma split_le : forall t ks, keys_sorted_strict ks ->
  exists pre suf, ks = pre ++ suf
    /\ Forall (fun k => lex t k <> Lt) pre
    /\ Forall (fun k => lex t k = Lt) suf
    /\ pre = filter (fun k => negb (bltb t k)) ks.
Proof.
  intros t ks Hs.
  exists (filter (fun k => negb (bltb t k)) ks),
         (filter (fun k => negb (negb (bltb t k))) ks).
  split; [apply (sorted_partition (fun k => negb (bltb t k)) ks Hs (le_down t))|].
  split; [|split; [|reflexivity]].
  - eapply Forall_impl; [|apply Forall_filter_true]. intros k Hk. simpl in Hk.
    unfold bltb in Hk. destruct (lex t k); [discriminate | discriminate | discriminate].
  - eapply Forall_impl; [|apply Forall_filter_true]. intros k Hk. simpl in Hk.
    unfold bltb in Hk. destruct (lex t k); [discriminate | reflexivity | discriminate].
Qed.

(* ------------------------------------------------------------------ *)
(* 3. forward scans                                                    *)
(* ------------------------------------------------------------------ *)

Lemma fwd_iter_from_seek : forall t pre suf,
  Forall (fun k => lex k t = Lt) pre ->
  Forall (fun k => lex k t <> Lt) suf ->
  bolt_iter (pre ++ suf) (S (length (pre ++ suf))) true (first_ge t (pre ++ suf) 0) = suf.
Proof.
  intros t pre suf Hp Hq. rewrite (first_ge_app t pre suf 0 Hp Hq).
  destruct suf as [|k suf]; [apply bolt_iter_none|].
  rewrite bolt_iter_fwd by lia. simpl plus.
  rewrite skipn_app, skipn_all, Nat.sub_diag. reflexivity.
Qed.

Lemma bolt_scan_fwd : forall ks t, keys_sorted_strict ks ->
  bolt_scan ks true t = filter (fun k => negb (bltb k t)) ks.
Proof.
  intros ks t Hs. destruct (split_lt t ks Hs) as (pre & suf & E & Hp & Hq & Hf).
  rewrite <- Hf. clear Hf. subst ks. unfold bolt_scan, bolt_seek, lib_seek.
  apply fwd_iter_from_seek; assumption.
Qed.

Lemma badger_scan_fwd : forall ks t, keys_sorted_strict ks ->
  badger_scan ks true t = filter (fun k => negb (bltb k t)) ks.
Proof.
  intros ks t Hs. destruct (split_lt t ks Hs) as (pre & suf & E & Hp & Hq & Hf).
  rewrite <- Hf. clear Hf. subst ks. unfold badger_scan, badger_seek.
  apply fwd_iter_from_seek; assumption.
Qed.

(* ------------------------------------------------------------------ *)
(* 4. reverse scans                                                    *)
(* ------------------------------------------------------------------ *)

(* iterating backward from the last index of [pre] inside [pre ++ suf] visits [rev pre] *)
Lemma rev_iter_from : forall pre suf,
  bolt_iter (pre ++ suf) (S (length (pre ++ suf))) false
    (match pre with [] => None | _ => Some (length pre - 1) end) = rev pre.
Proof.
  intros pre suf. destruct pre as [|x pre]; [apply bolt_iter_none|].
  rewrite bolt_iter_rev.
  - f_equal. replace (S (length (x :: pre) - 1)) with (length (x :: pre)) by (simpl; lia).
    rewrite firstn_app, firstn_all, Nat.sub_diag. simpl. rewrite app_nil_r. reflexivity.
  - rewrite app_length. simpl. lia.
  - rewrite app_length. simpl. lia.
Qed.

(* the badger iterator in reverse mode lands on the last key <= t *)
Lemma badger_scan_rev : forall ks t, keys_sorted_strict ks ->
  badger_scan ks false t = rev (filter (fun k => negb (bltb t k)) ks).
Proof.
  intros ks t Hs. destruct (split_le t ks Hs) as (pre & suf & E & Hp & Hq & Hf).
  rewrite <- Hf. clear Hf. subst ks. unfold badger_scan, badger_seek.
  rewrite (last_le_app t pre suf 0 None Hp Hq).
  replace (match pre with [] => None | _ :: _ => Some (0 + length pre - 1) end)
    with (match pre with [] => None | _ :: _ => Some (length pre - 1) end)
    by (destruct pre; reflexivity).
  apply rev_iter_from.
Qed.

(* where the repaired bbolt reverse Seek lands: the last index of the keys <= t *)
Lemma bolt_seek_rev_pos : forall ks t, keys_sorted_strict ks ->
  bolt_seek ks false t =
  match filter (fun k => negb (bltb t k)) ks with
  | [] => None
  | _ => Some (length (filter (fun k => negb (bltb t k)) ks) - 1)
  end.
Proof.
  intros ks t Hs. destruct (split_lt t ks Hs) as (A & B & E & HA & HB & _).
  assert (HAle : filter (fun k => negb (bltb t k)) A = A).
  { apply filter_all. eapply Forall_impl; [|exact HA]. intros k Hk. simpl in Hk.
    unfold bltb. rewrite lex_antisym, Hk. reflexivity. }
  subst ks. unfold bolt_seek, lib_seek. rewrite (first_ge_app t A B 0 HA HB).
  rewrite filter_app, HAle.
  destruct B as [|k B].
  - (* every key is smaller than t: bbolt's Seek fails, the adapter moves to Last *)
    simpl. rewrite !app_nil_r. unfold lib_last. destruct A as [|a A]; reflexivity.
  - apply SSorted_app_iff in Hs. destruct Hs as (_ & HsB & _).
    inversion HsB as [|? ? _ HkB]; subst. inversion HB as [|? ? Hk _]; subst.
    cbn [key_at plus]. rewrite nth_error_app2 by lia. rewrite Nat.sub_diag. cbn [nth_error].
    destruct (beqb k t) eqn:Ekt.
    + (* exact hit *)
      apply beqb_true_iff in Ekt. subst k.
      assert (HBgt : filter (fun k => negb (bltb t k)) B = []).
      { apply filter_none. eapply Forall_impl; [|exact HkB]. intros y Hy. simpl in Hy.
        unfold bltb. rewrite Hy. reflexivity. }
      assert (Hhit : filter (fun k => negb (bltb t k)) (t :: B) = [t]).
      { cbn [filter]. rewrite HBgt. unfold bltb. rewrite lex_refl. reflexivity. }
      rewrite Hhit.
      destruct A as [|a A]; simpl.
      * reflexivity.
      * rewrite app_length. simpl. destruct (A ++ [t]) eqn:EA.
        -- destruct A; discriminate.
        -- f_equal. lia.
    + (* landed on a greater key: step back once *)
      assert (Hgt : lex t k = Lt).
      { destruct (lex k t) eqn:E1.
        - apply lex_eq_iff in E1. subst k. rewrite beqb_refl in Ekt. discriminate.
        - congruence.
        - apply lex_gt_lt. exact E1. }
      assert (HBgt : filter (fun x => negb (bltb t x)) (k :: B) = []).
      { apply filter_none. constructor.
        - unfold bltb. rewrite Hgt. reflexivity.
        - eapply Forall_impl; [|exact HkB]. intros y Hy. simpl in Hy.
          unfold bltb. rewrite (lex_lt_trans t k y Hgt Hy). reflexivity. }
      rewrite HBgt, app_nil_r. unfold lib_prev.
      destruct A as [|a A]; simpl; [reflexivity|]. f_equal. lia.
Qed.

Lemma bolt_scan_rev : forall ks t, keys_sorted_strict ks ->
  bolt_scan ks false t = rev (filter (fun k => negb (bltb t k)) ks).
Proof.
  intros ks t Hs. unfold bolt_scan. rewrite (bolt_seek_rev_pos ks t Hs).
  destruct (split_le t ks Hs) as (pre & suf & E & _ & _ & Hf).
  rewrite <- Hf. clear Hf. subst ks. apply rev_iter_from.
Qed.

(* ------------------------------------------------------------------ *)
(* 5. C15                                                              *)
(* ------------------------------------------------------------------ *)

Theorem bolt_scan_contract : forall ks forward t, keys_sorted_strict ks ->
  bolt_scan ks forward t = contract_scan ks forward t.
Proof.
  intros ks forward t Hs. destruct forward.
  - rewrite contract_scan_fwd by exact Hs. apply bolt_scan_fwd. exact Hs.
  - rewrite contract_scan_rev by exact Hs. apply bolt_scan_rev. exact Hs.
Qed.

Theorem badger_scan_contract : forall ks forward t, keys_sorted_strict ks ->
  badger_scan ks forward t = contract_scan ks forward t.
Proof.
  intros ks forward t Hs. destruct forward.
  - rewrite contract_scan_fwd by exact Hs. apply badger_scan_fwd. exact Hs.
  - rewrite contract_scan_rev by exact Hs. apply badger_scan_rev. exact Hs.
Qed.

Theorem adapters_agree : forall ks forward t, keys_sorted_strict ks ->
  bolt_scan ks forward t = badger_scan ks forward t.
Proof.
  intros ks forward t Hs.
  rewrite bolt_scan_contract, badger_scan_contract by exact Hs. reflexivity.
Qed.

(* the seek position itself is the same in both adapters *)
Theorem adapters_seek_agree_rev : forall ks t, keys_sorted_strict ks ->
  bolt_seek ks false t = badger_seek ks false t.
Proof.
  intros ks t Hs. rewrite (bolt_seek_rev_pos ks t Hs).
  destruct (split_le t ks Hs) as (pre & suf & E & Hp & Hq & Hf).
  rewrite <- Hf. clear Hf. subst ks. unfold badger_seek.
  rewrite (last_le_app t pre suf 0 None Hp Hq). destruct pre; reflexivity.
Qed.

Theorem adapters_seek_agree_fwd : forall ks t,
  bolt_seek ks true t = badger_seek ks true t.
Proof. reflexivity. Qed.

(* ---- each key once, in order ---- *)

Lemma keys_sorted_NoDup : forall ks, keys_sorted_strict ks -> NoDup ks.
Proof.
  intros ks H. induction H as [|x l Hs IH Hf]; constructor; [|exact IH].
  intros Hin. rewrite Forall_forall in Hf. apply Hf in Hin. rewrite lex_refl in Hin. discriminate.
Qed.

Theorem scan_visits_once : forall ks forward t, keys_sorted_strict ks ->
  NoDup (bolt_scan ks forward t).
Proof.
  intros ks forward t Hs. rewrite (bolt_scan_contract ks forward t Hs). destruct forward.
  - rewrite contract_scan_fwd by exact Hs. apply NoDup_filter. apply keys_sorted_NoDup. exact Hs.
  - rewrite contract_scan_rev by exact Hs. apply NoDup_rev. apply NoDup_filter.
    apply keys_sorted_NoDup. exact Hs.
Qed.

Corollary badger_scan_visits_once : forall ks forward t, keys_sorted_strict ks ->
  NoDup (badger_scan ks forward t).
Proof.
  intros ks forward t Hs. rewrite <- (adapters_agree ks forward t Hs).
  apply scan_visits_once. exact Hs.
Qed.

Lemma SSorted_filter : forall {A} (R : A -> A -> Prop) (p : A -> bool) l,
  StronglySorted R l -> StronglySorted R (filter p l).
Proof.
  intros A R p l H. induction H as [|x l Hs IH Hf]; simpl; [constructor|].
  destruct (p x); [|exact IH]. constructor; [exact IH|].
  apply Forall_forall. intros y Hy. apply filter_In in Hy. destruct Hy as [Hy _].
  rewrite Forall_forall in Hf. apply Hf. exact Hy.
Qed.

Lemma SSorted_impl : forall {A} (R R' : A -> A -> Prop) l,
  (forall a b, R a b -> R' a b) -> StronglySorted R l -> StronglySorted R' l.
Proof.
  intros A R R' l HR H. induction H as [|x l Hs IH Hf]; constructor; [exact IH|].
  eapply Forall_impl; [|exact Hf]. intros b Hb. apply HR. exact Hb.
Qed.

(* forward iteration is strictly ascending, reverse iteration strictly descending *)
Theorem scan_in_order : forall ks (forward : bool) t, keys_sorted_strict ks ->
  StronglySorted (fun a b => lex a b = if forward then Lt else Gt) (bolt_scan ks forward t).
Proof.
  intros ks forward t Hs. rewrite (bolt_scan_contract ks forward t Hs). destruct forward.
  - rewrite contract_scan_fwd by exact Hs. apply SSorted_filter. exact Hs.
  - rewrite contract_scan_rev by exact Hs.
    apply (SSorted_filter _ (fun k => negb (bltb t k))) in Hs. apply SSorted_rev in Hs.
    eapply SSorted_impl; [|exact Hs]. intros a b Hab. simpl in Hab. apply lex_gt_lt. exact Hab.
Qed.

(* where the scans start: forward on the least key >= t, reverse on the greatest key <= t *)
Theorem scan_first_fwd : forall ks t k r, keys_sorted_strict ks ->
  bolt_scan ks true t = k :: r ->
  In k ks /\ lex k t <> Lt /\ (forall k', In k' ks -> lex k' t <> Lt -> lex k' k <> Lt).
Proof.
  intros ks t k r Hs E. pose proof (scan_in_order ks true t Hs) as Ho. rewrite E in Ho.
  assert (Hin : In k (bolt_scan ks true t)) by (rewrite E; left; reflexivity).
  rewrite bolt_scan_fwd in Hin by exact Hs. apply filter_In in Hin. destruct Hin as [Hin Hge].
  split; [exact Hin | split].
  - unfold bltb in Hge. intros Hl. rewrite Hl in Hge. discriminate.
  - intros k' Hin' Hge'.
    assert (Hin2 : In k' (bolt_scan ks true t)).
    { rewrite bolt_scan_fwd by exact Hs. apply filter_In. split; [exact Hin'|].
      unfold bltb. destruct (lex k' t); [reflexivity | congruence | reflexivity]. }
    rewrite E in Hin2. destruct Hin2 as [Heq|Hr].
    + subst k'. rewrite lex_refl. discriminate.
    + inversion Ho as [|? ? _ Hf]; subst. rewrite Forall_forall in Hf. apply Hf in Hr.
      apply lex_gt_lt in Hr. rewrite Hr. discriminate.
Qed.

Theorem scan_first_rev : forall ks t k r, keys_sorted_strict ks ->
  bolt_scan ks false t = k :: r ->
  In k ks /\ lex t k <> Lt /\ (forall k', In k' ks -> lex t k' <> Lt -> lex k k' <> Lt).
Proof.
  intros ks t k r Hs E. pose proof (scan_in_order ks false t Hs) as Ho. rewrite E in Ho.
  assert (Hin : In k (bolt_scan ks false t)) by (rewrite E; left; reflexivity).
  rewrite bolt_scan_rev in Hin by exact Hs. apply in_rev in Hin.
  apply filter_In in Hin. destruct Hin as [Hin Hge].
  split; [exact Hin | split].
  - unfold bltb in Hge. intros Hl. rewrite Hl in Hge. discriminate.
  - intros k' Hin' Hge'.
    assert (Hin2 : In k' (bolt_scan ks false t)).
    { rewrite bolt_scan_rev by exact Hs. apply in_rev. rewrite rev_involutive.
      apply filter_In. split; [exact Hin'|].
      unfold bltb. destruct (lex t k'); [reflexivity | congruence | reflexivity]. }
    rewrite E in Hin2. destruct Hin2 as [Heq|Hr].
    + subst k'. rewrite lex_refl. discriminate.
    + inversion Ho as [|? ? _ Hf]; subst. rewrite Forall_forall in Hf. apply Hf in Hr.
      simpl in Hr. rewrite Hr. discriminate.
Qed.

(* ------------------------------------------------------------------ *)
(* 6. the repaired defect: the OLD bbolt reverse Seek                  *)
(* ------------------------------------------------------------------ *)

(* As [bolt_seek], except that in the reverse case a failed library Seek (target after the last
   key) leaves the cursor invalid instead of moving to the last key. *)
Definition bolt_seek_old (ks : list bytes) (forward : bool) (t : bytes) : option nat :=
  let p := lib_seek ks t in
  if forward then p
  else match p with
       | None => None
       | Some _ =>
           match key_at ks p with
           | Some k => if beqb k t then p else lib_prev p
           | None => None
           end
       end.

Definition bolt_scan_old (ks : list bytes) (forward : bool) (t : bytes) : list bytes :=
  bolt_iter ks (S (length ks)) forward (bolt_seek_old ks forward t).

Definition ex_b : bytes := [98%N].        (* "b" *)
Definition ex_d : bytes := [100%N].       (* "d" *)
Definition ex_e : bytes := [101%N].       (* "e" *)
Definition ex_f : bytes := [102%N].       (* "f" *)
Definition ex_a : bytes := [97%N].        (* "a" *)
Definition ex_c : bytes := [99%N].        (* "c" *)
Definition ex_zz : bytes := [122%N; 122%N]. (* "zz" *)
Definition ex_keys : list bytes := [ex_b; ex_d; ex_e; ex_f].

Lemma ex_keys_sorted : keys_sorted_strict ex_keys.
Proof. unfold keys_sorted_strict, ex_keys. repeat constructor. Qed.

Theorem bolt_old_violates_contract : exists ks t,
  keys_sorted_strict ks /\ bolt_scan_old ks false t <> contract_scan ks false t.
Proof.
  exists ex_keys, ex_zz. split; [exact ex_keys_sorted|]. vm_compute. discriminate.
Qed.

(* the old logic visits nothing, the contract visits every key in descending order *)
Example bolt_old_after_last :
  bolt_scan_old ex_keys false ex_zz = [] /\
  contract_scan ex_keys false ex_zz = [ex_f; ex_e; ex_d; ex_b].
Proof. split; vm_compute; reflexivity. Qed.

(* the defect is confined to that case: whenever the library Seek succeeds, and in the forward
   direction always, old and repaired logic coincide *)
Theorem bolt_old_same_elsewhere : forall ks forward t,
  forward = true \/ lib_seek ks t <> None ->
  bolt_scan_old ks forward t = bolt_scan ks forward t.
Proof.
  intros ks forward t H. unfold bolt_scan_old, bolt_scan, bolt_seek_old, bolt_seek.
  destruct forward; [reflexivity|]. destruct H as [H|H]; [discriminate|].
  destruct (lib_seek ks t); [reflexivity | congruence].
Qed.

(* in general: with a non-empty key set all smaller than the target, the old reverse scan is empty
   but the contract's is not *)
Theorem bolt_old_violates_general : forall ks t, keys_sorted_strict ks -> ks <> [] ->
  Forall (fun k => lex k t = Lt) ks ->
  bolt_scan_old ks false t = [] /\ contract_scan ks false t = rev ks.
Proof.
  intros ks t Hs Hne Hall. split.
  - unfold bolt_scan_old, bolt_seek_old, lib_seek.
    pose proof (first_ge_app t ks [] 0 Hall (Forall_nil _)) as E. rewrite app_nil_r in E.
    rewrite E. apply bolt_iter_none.
  - rewrite contract_scan_rev by exact Hs. f_equal. apply filter_all.
    eapply Forall_impl; [|exact Hall]. intros k Hk. simpl in Hk.
    unfold bltb. rewrite lex_antisym, Hk. reflexivity.
Qed.

(* ------------------------------------------------------------------ *)
(* 7. non-vacuity: keys "b" "d" "e" "f"                                *)
(* ------------------------------------------------------------------ *)

(* target present: "d" *)
Example ex_bolt_fwd_present : bolt_scan ex_keys true ex_d = [ex_d; ex_e; ex_f].
Proof. vm_compute. reflexivity. Qed.
Example ex_bolt_rev_present : bolt_scan ex_keys false ex_d = [ex_d; ex_b].
Proof. vm_compute. reflexivity. Qed.
Example ex_badger_fwd_present : badger_scan ex_keys true ex_d = [ex_d; ex_e; ex_f].
Proof. vm_compute. reflexivity. Qed.
Example ex_badger_rev_present : badger_scan ex_keys false ex_d = [ex_d; ex_b].
Proof. vm_compute. reflexivity. Qed.
Example ex_contract_fwd_present : contract_scan ex_keys true ex_d = [ex_d; ex_e; ex_f].
Proof. vm_compute. reflexivity. Qed.
Example ex_contract_rev_present : contract_scan ex_keys false ex_d = [ex_d; ex_b].
Proof. vm_compute. reflexivity. Qed.

(* target absent, between keys: "c" *)
Example ex_bolt_fwd_absent : bolt_scan ex_keys true ex_c = [ex_d; ex_e; ex_f].
Proof. vm_compute. reflexivity. Qed.
Example ex_bolt_rev_absent : bolt_scan ex_keys false ex_c = [ex_b].
Proof. vm_compute. reflexivity. Qed.
Example ex_badger_fwd_absent : badger_scan ex_keys true ex_c = [ex_d; ex_e; ex_f].
Proof. vm_compute. reflexivity. Qed.
Example ex_badger_rev_absent : badger_scan ex_keys false ex_c = [ex_b].
Proof. vm_compute. reflexivity. Qed.
Example ex_contract_fwd_absent : contract_scan ex_keys true ex_c = [ex_d; ex_e; ex_f].
Proof. vm_compute. reflexivity. Qed.
Example ex_contract_rev_absent : contract_scan ex_keys false ex_c = [ex_b].
Proof. vm_compute. reflexivity. Qed.

(* target before the first key: "a" *)
Example ex_bolt_fwd_before : bolt_scan ex_keys true ex_a = [ex_b; ex_d; ex_e; ex_f].
Proof. vm_compute. reflexivity. Qed.
Example ex_bolt_rev_before : bolt_scan ex_keys false ex_a = [].
Proof. vm_compute. reflexivity. Qed.
Example ex_badger_fwd_before : badger_scan ex_keys true ex_a = [ex_b; ex_d; ex_e; ex_f].
Proof. vm_compute. reflexivity. Qed.
Example ex_badger_rev_before : badger_scan ex_keys false ex_a = [].
Proof. vm_compute. reflexivity. Qed.
Example ex_contract_fwd_before : contract_scan ex_keys true ex_a = [ex_b; ex_d; ex_e; ex_f].
Proof. vm_compute. reflexivity. Qed.
Example ex_contract_rev_before : contract_scan ex_keys false ex_a = [].
Proof. vm_compute. reflexivity. Qed.

(* target after the last key: "zz" *)
Example ex_bolt_fwd_after : bolt_scan ex_keys true ex_zz = [].
Proof. vm_compute. reflexivity. Qed.
Example ex_bolt_rev_after : bolt_scan ex_keys false ex_zz = [ex_f; ex_e; ex_d; ex_b].
Proof. vm_compute. reflexivity. Qed.
Example ex_badger_fwd_after : badger_scan ex_keys true ex_zz = [].
Proof. vm_compute. reflexivity. Qed.
Example ex_badger_rev_after : badger_scan ex_keys false ex_zz = [ex_f; ex_e; ex_d; ex_b].
Proof. vm_compute. reflexivity. Qed.
Example ex_contract_fwd_after : contract_scan ex_keys true ex_zz = [].
Proof. vm_compute. reflexivity. Qed.
Example ex_contract_rev_after : contract_scan ex_keys false ex_zz = [ex_f; ex_e; ex_d; ex_b].
Proof. vm_compute. reflexivity. Qed.

(* empty key set *)
Example ex_empty : bolt_scan [] true ex_d = [] /\ bolt_scan [] false ex_d = []
  /\ badger_scan [] true ex_d = [] /\ badger_scan [] false ex_d = [].
Proof. repeat split; vm_compute; reflexivity. Qed.

(* where the seeks land (indices into the key list) *)
Example ex_seek_positions :
  bolt_seek ex_keys false ex_d = Some 1 /\ bolt_seek ex_keys false ex_c = Some 0
  /\ bolt_seek ex_keys false ex_a = None /\ bolt_seek ex_keys false ex_zz = Some 3
  /\ bolt_seek_old ex_keys false ex_zz = None
  /\ bolt_seek ex_keys true ex_c = Some 1 /\ bolt_seek ex_keys true ex_zz = None.
Proof. repeat split; vm_compute; reflexivity. Qed.

(* the sortedness hypothesis is needed: on an unsorted key list the adapters and the contract differ *)
Example ex_unsorted_differs :
  bolt_scan [ex_d; ex_b] true ex_c <> contract_scan [ex_d; ex_b] true ex_c
  \/ bolt_scan [ex_d; ex_b] false ex_c <> contract_scan [ex_d; ex_b] false ex_c.
Proof. right. vm_compute. discriminate. Qed.

Print Assumptions bolt_scan_contract.
Print Assumptions badger_scan_contract.
Print Assumptions adapters_agree.
Print Assumptions contract_scan_fwd.
Print Assumptions contract_scan_rev.
Print Assumptions scan_visits_once.
Print Assumptions scan_in_order.
Print Assumptions bolt_old_violates_contract.

(* orderedcode's float transform (sign-magnitude bits -> signed integer) is an
   order embedding of the exact denotation [fden]. *)
From Clover Require Import Float64.
From Coq Require Import ZArith Bool Lia.
From Coq Require Import ZifyBool.
Open Scope Z_scope.

Ltac Zify.zify_post_hook ::= Z.div_mod_to_equations.

Arguments Z.pow : simpl never.
Arguments Z.mul : simpl never.
Arguments Z.div : simpl never.
Arguments Z.modulo : simpl never.

Lemma two52_eq : two52 = 2 ^ 52. Proof. reflexivity. Qed.
Lemma two63_eq : two63 = 2 ^ 63. Proof. reflexivity. Qed.
Lemma two64_eq : two64 = 2 ^ 64. Proof. reflexivity. Qed.
Lemma two63_two52 : two63 = 2048 * two52. Proof. reflexivity. Qed.
Lemma two64_two63 : two64 = 2 * two63. Proof. reflexivity. Qed.

(* magnitude as a function of exponent and mantissa fields *)
Definition gmag (e m : Z) : Z :=
  if e =? 0 then m else (two52 + m) * 2 ^ (e - 1).

Lemma fmag_gmag : forall b, 0 <= b < two63 ->
  fmag b = gmag (b / two52) (b mod two52).
Proof.
  intros b Hb. unfold fmag, gmag, fexp, fman, fbits_mag.
  rewrite (Z.mod_small b two63) by exact Hb. reflexivity.
Qed.

Lemma gmag_mono : forall e1 m1 e2 m2,
  0 <= e1 -> 0 <= m1 < two52 -> 0 <= m2 < two52 ->
  e1 * two52 + m1 < e2 * two52 + m2 ->
  gmag e1 m1 < gmag e2 m2.
Proof.
  intros e1 m1 e2 m2 He1 Hm1 Hm2 Hlt.
  assert (Hcase : e1 < e2 \/ (e1 = e2 /\ m1 < m2)) by (unfold two52 in *; lia).
  destruct Hcase as [Hlt'|[-> Hm]].
  - unfold gmag.
    assert (He2 : (e2 =? 0) = false) by lia. rewrite He2.
    assert (Hp2 : 2 ^ e1 <= 2 ^ (e2 - 1)) by (apply Z.pow_le_mono_r; lia).
    assert (Hpos : 0 < 2 ^ e1) by (apply Z.pow_pos_nonneg; lia).
    assert (Hlow : two52 * 2 ^ e1 <= (two52 + m2) * 2 ^ (e2 - 1)).
    { apply Z.mul_le_mono_nonneg; lia. }
    destruct (e1 =? 0) eqn:E1.
    + assert (e1 = 0) by lia. subst e1. change (2 ^ 0) with 1 in *. lia.
    + assert (Hs : 2 ^ e1 = 2 * 2 ^ (e1 - 1)).
      { replace e1 with (Z.succ (e1 - 1)) at 1 by lia. apply Z.pow_succ_r. lia. }
      assert (Hq : 0 < 2 ^ (e1 - 1)) by (apply Z.pow_pos_nonneg; lia).
      assert ((two52 + m1) * 2 ^ (e1 - 1) < (2 * two52) * 2 ^ (e1 - 1)).
      { apply Z.mul_lt_mono_pos_r; lia. }
      rewrite Hs in Hlow. lia.
  - unfold gmag. destruct (e2 =? 0) eqn:E2; [exact Hm|].
    apply Z.mul_lt_mono_pos_r; [apply Z.pow_pos_nonneg; lia | lia].
Qed.

(* strict monotonicity of the magnitude in the 63 low bits (NaN patterns included) *)
Lemma fmag_lt : forall a b, 0 <= a -> a < b -> b < two63 -> fmag a < fmag b.
Proof.
  intros a b Ha Hab Hb.
  rewrite (fmag_gmag a), (fmag_gmag b) by lia.
  assert (H52 : 0 < two52) by reflexivity.
  apply gmag_mono.
  - apply Z.div_pos; lia.
  - apply Z.mod_pos_bound; exact H52.
  - apply Z.mod_pos_bound; exact H52.
  - pose proof (Z.div_mod a two52). pose proof (Z.div_mod b two52).
    assert (two52 <> 0) by lia.
    rewrite (Z.mul_comm (a / two52)), (Z.mul_comm (b / two52)). lia.
Qed.

Lemma fmag_0 : fmag 0 = 0.
Proof. reflexivity. Qed.

Lemma fmag_compare : forall a b, 0 <= a < two63 -> 0 <= b < two63 ->
  (fmag a ?= fmag b) = (a ?= b).
Proof.
  intros a b Ha Hb. destruct (Z.compare_spec a b) as [->|H|H].
  - apply Z.compare_refl.
  - apply Z.compare_lt_iff. apply fmag_lt; lia.
  - apply Z.compare_gt_iff. apply fmag_lt; lia.
Qed.

Lemma fmag_nonneg : forall a, 0 <= a < two63 -> 0 <= fmag a.
Proof.
  intros a Ha. destruct (Z.eq_dec a 0) as [->|Hne]; [rewrite fmag_0; lia|].
  pose proof (fmag_lt 0 a). rewrite fmag_0 in *. lia.
Qed.

Lemma fmag_pos : forall a, 0 < a < two63 -> 0 < fmag a.
Proof. intros a Ha. pose proof (fmag_lt 0 a). rewrite fmag_0 in *. lia. Qed.

(* the sign bit does not influence the magnitude *)
Lemma fmag_sign : forall b, two63 <= b < two64 -> fmag b = fmag (b - two63).
Proof.
  intros b Hb. unfold fmag, fexp, fman, fbits_mag.
  assert (E1 : (b - two63) mod two63 = b mod two63).
  { replace (b - two63) with (b + (-1) * two63) by lia. apply Z.mod_add. discriminate. }
  assert (E2 : (b - two63) mod two52 = b mod two52).
  { rewrite two63_two52. replace (b - 2048 * two52) with (b + (-2048) * two52) by lia.
    apply Z.mod_add. discriminate. }
  rewrite E1, E2. reflexivity.
Qed.

Lemma fden_pos : forall b, 0 <= b < two63 -> fden b = fmag b /\ fkey_int b = b.
Proof.
  intros b Hb. unfold fden, fkey_int, fsign.
  assert (E : (two63 <=? b) = false) by lia. rewrite E. split; reflexivity.
Qed.

Lemma fden_neg : forall b, two63 <= b < two64 ->
  fden b = - fmag (b - two63) /\ fkey_int b = - (b - two63).
Proof.
  intros b Hb. unfold fden, fkey_int, fsign.
  assert (E : (two63 <=? b) = true) by lia. rewrite E.
  rewrite (fmag_sign b Hb). split; reflexivity.
Qed.

Lemma fkey_int_range : forall b, 0 <= b < two64 -> - two63 < fkey_int b < two63.
Proof.
  intros b Hb. unfold fkey_int, fsign. rewrite two64_two63 in Hb.
  destruct (two63 <=? b) eqn:E; lia.
Qed.

(* the NaN side conditions are not needed: the law holds for every bit pattern *)
Theorem fkey_order_gen : forall a b, 0 <= a < two64 -> 0 <= b < two64 ->
  Z.compare (fkey_int a) (fkey_int b) = fcmp a b.
Proof.
  intros a b Ha Hb. unfold fcmp. rewrite two64_two63 in Ha, Hb.
  destruct (Z_lt_ge_dec a two63) as [Sa|Sa]; destruct (Z_lt_ge_dec b two63) as [Sb|Sb].
  - destruct (fden_pos a) as [-> ->]; [lia|]. destruct (fden_pos b) as [-> ->]; [lia|].
    symmetry. apply fmag_compare; lia.
  - destruct (fden_pos a) as [-> ->]; [lia|].
    destruct (fden_neg b) as [-> ->]; [rewrite two64_two63; lia|].
    set (b' := b - two63). assert (Hb' : 0 <= b' < two63) by (unfold b'; lia).
    pose proof (fmag_nonneg a ltac:(lia)) as Na.
    pose proof (fmag_nonneg b' Hb') as Nb.
    destruct (Z.eq_dec a 0) as [->|Za]; destruct (Z.eq_dec b' 0) as [Zb|Zb].
    + rewrite Zb, fmag_0. reflexivity.
    + pose proof (fmag_pos b' ltac:(lia)). rewrite fmag_0.
      transitivity Gt; [|symmetry]; apply Z.compare_gt_iff; lia.
    + pose proof (fmag_pos a ltac:(lia)). rewrite Zb, fmag_0.
      transitivity Gt; [|symmetry]; apply Z.compare_gt_iff; lia.
    + pose proof (fmag_pos a ltac:(lia)). pose proof (fmag_pos b' ltac:(lia)).
      transitivity Gt; [|symmetry]; apply Z.compare_gt_iff; lia.
  - destruct (fden_neg a) as [-> ->]; [rewrite two64_two63; lia|].
    destruct (fden_pos b) as [-> ->]; [lia|].
    set (a' := a - two63). assert (Ha' : 0 <= a' < two63) by (unfold a'; lia).
    pose proof (fmag_nonneg b ltac:(lia)) as Nb.
    pose proof (fmag_nonneg a' Ha') as Na.
    destruct (Z.eq_dec b 0) as [->|Zb]; destruct (Z.eq_dec a' 0) as [Za|Za].
    + rewrite Za, fmag_0. reflexivity.
    + pose proof (fmag_pos a' ltac:(lia)). rewrite fmag_0.
      transitivity Lt; [|symmetry]; apply Z.compare_lt_iff; lia.
    + pose proof (fmag_pos b ltac:(lia)). rewrite Za, fmag_0.
      transitivity Lt; [|symmetry]; apply Z.compare_lt_iff; lia.
    + pose proof (fmag_pos b ltac:(lia)). pose proof (fmag_pos a' ltac:(lia)).
      transitivity Lt; [|symmetry]; apply Z.compare_lt_iff; lia.
  - destruct (fden_neg a) as [-> ->]; [rewrite two64_two63; lia|].
    destruct (fden_neg b) as [-> ->]; [rewrite two64_two63; lia|].
    rewrite !Z.compare_opp. symmetry. apply fmag_compare; lia.
Qed.

Theorem fkey_order : forall a b, 0 <= a < two64 -> 0 <= b < two64 ->
  is_nan a = false -> is_nan b = false ->
  Z.compare (fkey_int a) (fkey_int b) = fcmp a b.
Proof. intros a b Ha Hb _ _. apply fkey_order_gen; assumption. Qed.

Print Assumptions fkey_int_range.
Print Assumptions fkey_order_gen.
Print Assumptions fkey_order.

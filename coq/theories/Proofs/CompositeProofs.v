(* The multi-transaction composites (ExportCollection, ImportCollection, CreateCollectionByQuery) chained
   from the per-transaction refinement theorems, the history invariant extended to the whole operation
   alphabet, and C19 end to end (export, then import of the exported file under a new name).
   Specification: Spec/CompositeSpec.v. *)
From Coq Require Import Lia ZArith Bool List Permutation.
Import ListNotations.
From Clover Require Import CompositeSpec HistDom HistoryProofs RProofs WriteProofs BulkProofs QueryProofs
  OpProofs OpQueryProofs TxProofs ScanProofs PlanProofs.
Open Scope Z_scope.

(* ------------------------------------------------------------------------------------------ *)
(* 0. one fault-free transaction of a composite, whatever the counters of the running state    *)
(* ------------------------------------------------------------------------------------------ *)
Lemma run_tx_nofault : forall A (body : M A) h n f,
  run_tx body (mkR h None n f) =
  (o_res (with_tx body None h),
   mkR (o_db (with_tx body None h)) None (n + o_calls (with_tx body None h))%nat
       (f || o_fired (with_tx body None h))).
Proof.
  intros. unfold run_tx; cbn [r_fault r_db r_calls r_fired].
  destruct (o_fired _); reflexivity.
Qed.

(* ------------------------------------------------------------------------------------------ *)
(* 1. FindAll without a domain hypothesis, when the planner's input node needs none            *)
(* ------------------------------------------------------------------------------------------ *)
(* [find_all_value] (QueryProofs.v) asks for [coll_dom]/[crit_dom]; they serve the index scans and the
   meaning of the result.  The VALUE of the result needs only the side condition of the selected input
   node, which is void for a full scan: the query of Export (no criteria, no sort) and every query on a
   collection without an index. *)
Lemma find_all_value_input_ok : forall db s q sc,
  wf_db db -> R db s -> assoc (nq_coll q) db = Some sc ->
  input_ok sc (fst (try_select_index (nq_crit q) (nq_sort q) (sc_idx sc))) ->
  o_res (with_tx (find_all_tx q) None (mkDb s false)) = Ok (find_all_result sc q) /\
  o_db (with_tx (find_all_tx q) None (mkDb s false)) = mkDb s false.
Proof.
  intros db s q sc Hwf HR Ha Hok. apply with_tx_runs_to.
  intros st Hf Hv. unfold find_all_tx.
  rewrite <- (rev_involutive (find_all_result sc q)), <- (PlanProofs.fold_collect (find_all_result sc q)).
  apply runs_to_ret_bind. rewrite PlanProofs.collect_pure.
  apply (iterate_docs_runs db s q sc); try assumption.
  intros st' Hf' Hv'. unfold find_all_result, find_all_seq.
  apply (exec_plan_pure_at s); [|exact Hf' | exact Hv'].
  intros B g b st2 Hf2 Hv2. unfold feed_list.
  apply (run_input_pure db (nq_coll q) sc _ B g (nq_crit q) b st2 Hwf Ha Hok).
  - rewrite Hv2. exact HR.
  - exact Hf2.
Qed.

Lemma try_select_no_index : forall crit sort, try_select_index crit sort [] = (None, false).
Proof.
  intros crit sort. unfold try_select_index.
  assert (E : get_index_query crit [] = None) by (destruct crit; reflexivity).
  rewrite E. destruct sort as [|[sf dir] [|o t]]; reflexivity.
Qed.

(* FindAll on an empty collection without index: no document, for any criteria *)
Lemma find_all_empty_collection : forall db s q,
  wf_db db -> R db s -> assoc (nq_coll q) db = Some (mkSC [] []) ->
  o_res (with_tx (find_all_tx q) None (mkDb s false)) = Ok [] /\
  o_db (with_tx (find_all_tx q) None (mkDb s false)) = mkDb s false.
Proof.
  intros db s q Hwf HR Ha.
  destruct (find_all_value_input_ok db s q (mkSC [] []) Hwf HR Ha) as (E1 & E2).
  { cbn [sc_idx]. rewrite try_select_no_index. exact I. }
  split; [|exact E2]. rewrite E1. f_equal.
  unfold find_all_result, find_all_seq, feed_list, plan_seq, needs_sort. cbn [sc_idx].
  rewrite try_select_no_index. cbn [fst snd negb input_docs].
  assert (L0 : filter (sat_opt (nq_crit q)) (docs_by_id (mkSC [] [])) = []) by reflexivity.
  rewrite L0.
  assert (W0 : forall sk li, window sk li [] = []).
  { intros sk li. unfold window. rewrite skipn_nil. destruct (li <? 0); [reflexivity | apply firstn_nil]. }
  destruct (nq_sort q); [apply W0|]. cbn [negb]. change (sort_docs (p :: l) []) with (@nil obj) . apply W0.
Qed.

(* the query of Export: every document, each once *)
Lemma find_all_whole_collection : forall db s c sc,
  wf_db db -> R db s -> assoc c db = Some sc ->
  exists res,
    o_res (with_tx (find_all_tx (mkNQ c None (-1) 0 [])) None (mkDb s false)) = Ok res /\
    o_db (with_tx (find_all_tx (mkNQ c None (-1) 0 [])) None (mkDb s false)) = mkDb s false /\
    Permutation res (map snd (sc_docs sc)).
Proof.
  intros db s c sc Hwf HR Ha.
  destruct (find_all_value_input_ok db s (mkNQ c None (-1) 0 []) sc Hwf HR Ha) as (E1 & E2).
  { cbn [nq_crit nq_sort]. exact I. }
  eexists. split; [exact E1|]. split; [exact E2|].
  unfold find_all_result, find_all_seq, feed_list, plan_seq, needs_sort.
  cbn [nq_crit nq_sort nq_skip nq_limit nq_coll].
  rewrite (window_all (-1)) by lia.
  change (fst (try_select_index None [] (sc_idx sc))) with (@None idx_query).
  cbn [input_docs]. 
  assert (F : forall l : list obj, filter (sat_opt None) l = l).
  { induction l as [|x t IH]; [reflexivity|]. cbn [filter sat_opt]. rewrite IH. reflexivity. }
  rewrite F. exact (docs_by_id_perm db c sc Hwf Ha).
Qed.

(* ------------------------------------------------------------------------------------------ *)
(* 2. K3 (a): Export                                                                           *)
(* ------------------------------------------------------------------------------------------ *)
Lemma new_query_normal : forall c, normalize_query (new_query c) = Some (mkNQ c None (-1) 0 []).
Proof. reflexivity. Qed.

(* the pair computed by Export on an open handle *)
Lemma exec_export_open : forall db s c, wf_db db -> R db s ->
  let out := exec_op (OExport c) (fresh_rstate (mkDb s false) None) in
  r_db (snd out) = mkDb s false /\
  match assoc c db with
  | None => fst out = T_err ECollNotExist
  | Some sc => fst out = T_ok (T_of_docs [] 0 (docs_by_id sc))
  end.
Proof.
  intros db s c W HR. cbv zeta. unfold exec_op, fresh_rstate. rewrite run_tx_nofault.
  destruct (has_collection_refines db s c W HR) as (E1 & E2). rewrite E1, E2.
  destruct (assoc c db) as [sc|] eqn:A.
  - unfold find_all_op. rewrite new_query_normal, run_tx_nofault.
    destruct (find_all_value_input_ok db s (mkNQ c None (-1) 0 []) sc W HR A) as (F1 & F2).
    { cbn [nq_crit nq_sort]. exact I. }
    rewrite F1, F2. cbn [fst snd r_db T_res]. split; [reflexivity|].
    do 2 f_equal.
    unfold find_all_result, find_all_seq, feed_list, plan_seq, needs_sort.
    cbn [nq_crit nq_sort nq_skip nq_limit nq_coll].
    rewrite (window_all (-1)) by lia.
    change (fst (try_select_index None [] (sc_idx sc))) with (@None idx_query).
    cbn [input_docs].
    assert (F : forall l : list obj, filter (sat_opt None) l = l).
    { induction l as [|x t IH]; [reflexivity|]. cbn [filter sat_opt]. rewrite IH. reflexivity. }
    apply F.
  - cbn [fst snd r_db]. split; reflexivity.
Qed.

Theorem export_refines_exact : forall db h c, wf_db db -> R db (durable h) -> closed h = false ->
  snd (step h (OExport c)) = h /\
  match assoc c db with
  | None => fst (step h (OExport c)) = T_err ECollNotExist
  | Some sc => fst (step h (OExport c)) = T_ok (T_of_docs [] 0 (docs_by_id sc))
  end.
Proof.
  intros db [s cl] c W HR C. cbn [closed durable] in *. subst cl. rewrite step_snd, step_fst.
  exact (exec_export_open db s c W HR).
Qed.

(* K3 (a) as stated *)
Theorem export_refines : forall db h c, wf_db db -> R db (durable h) -> closed h = false -> no_semi c = true ->
  snd (step h (OExport c)) = h /\
  match assoc c db with
  | None => fst (step h (OExport c)) = T_err ECollNotExist
  | Some sc => exists res, fst (step h (OExport c)) = T_ok (T_of_docs [] 0 res) /\
                           Permutation res (map snd (sc_docs sc))
  end.
Proof.
  intros db h c W HR C _. destruct (export_refines_exact db h c W HR C) as (E1 & E2).
  split; [exact E1|]. destruct (assoc c db) as [sc|] eqn:A; [|exact E2].
  exists (docs_by_id sc). split; [exact E2 | exact (docs_by_id_perm db c sc W A)].
Qed.

(* ------------------------------------------------------------------------------------------ *)
(* 3. K3 (b): Import                                                                           *)
(* ------------------------------------------------------------------------------------------ *)
Lemma in_file_docs : forall (l : list (option obj)) d,
  In d (flat_map (fun o => match o with Some d => [d] | None => [] end) l) -> In (Some d) l.
Proof.
  intros l d H. apply in_flat_map in H. destruct H as ([x|] & Hin & Hd).
  - destruct Hd as [->|[]]. exact Hin.
  - destruct Hd.
Qed.

Lemma import_open : forall db s c file, wf_db db -> R db s -> op_dom_all db (OImport c file) ->
  let out := exec_op (OImport c file) (fresh_rstate (mkDb s false) None) in
  fst out = T_unit (fst (s_import c file db)) /\ wf_db (snd (s_import c file db)) /\
  R (snd (s_import c file db)) (durable (r_db (snd out))).
Proof.
  intros db s c file W HR (Hc & Hids). cbv zeta. unfold exec_op, fresh_rstate, s_import.
  destruct point_ops_preserve_refinement as (PC & PI & _).
  specialize (PC db s c W HR Hc). cbv zeta in PC.
  destruct file as [| |l].
  - cbn [fst snd r_db durable T_unit]. split; [reflexivity|]. split; assumption.
  - rewrite run_tx_nofault. destruct (s_create c db) as [db1|e].
    + destruct PC as (E1 & R1 & C1 & W1). rewrite E1. cbn [fst snd r_db T_unit].
      split; [reflexivity|]. split; assumption.
    + destruct PC as (E1 & E2). rewrite E1, E2. cbn [fst snd r_db durable T_unit].
      split; [reflexivity|]. split; assumption.
  - rewrite run_tx_nofault. destruct (s_create c db) as [db1|e].
    + destruct PC as (E1 & R1 & C1 & W1). rewrite E1.
      destruct (o_db (with_tx (create_collection_tx c) None (mkDb s false))) as [s1 c1].
      cbn [closed durable] in C1, R1. subst c1.
      unfold file_docs.
      destruct (forallb (fun o : option obj => match o with Some _ => true | None => false end) l).
      * unfold insert_op. rewrite run_tx_nofault.
        set (docs := flat_map (fun o : option obj => match o with Some d => [d] | None => [] end) l).
        assert (Hd : docs_have_ids docs).
        { intros d Hd. apply Hids. apply in_file_docs. exact Hd. }
        specialize (PI db1 s1 c docs W1 R1 Hc Hd). cbv zeta in PI.
        destruct (s_insert c docs db1) as [db2|e].
        -- destruct PI as (E2 & R2 & W2). rewrite E2. cbn [fst snd r_db T_unit].
           split; [reflexivity|]. split; assumption.
        -- destruct PI as (E2 & E3). rewrite E2, E3. cbn [fst snd r_db durable T_unit].
           split; [reflexivity|]. split; assumption.
      * cbn [fst snd r_db durable T_unit]. split; [reflexivity|]. split; assumption.
    + destruct PC as (E1 & E2). rewrite E1, E2. cbn [fst snd r_db durable T_unit].
      split; [reflexivity|]. split; assumption.
Qed.

Theorem import_refines : forall db h c file,
  wf_db db -> R db (durable h) -> closed h = false -> op_dom_all db (OImport c file) ->
  let '(r, db') := s_import c file db in
  fst (step h (OImport c file)) = T_unit r /\ wf_db db' /\ R db' (durable (snd (step h (OImport c file)))).
Proof.
  intros db [s cl] c file W HR C D. cbn [closed durable] in *. subst cl.
  pose proof (import_open db s c file W HR D) as H. cbv zeta in H.
  rewrite step_fst, step_snd. destruct (s_import c file db) as [r db']. exact H.
Qed.

(* ------------------------------------------------------------------------------------------ *)
(* 4. K3 (c): CreateCollectionByQuery                                                          *)
(* ------------------------------------------------------------------------------------------ *)
(* a batch of valid documents with distinct ids, none of them stored, is inserted as it is *)
Lemma s_insert_docs_succeeds : forall docs acc,
  NoDup (map object_id docs) ->
  (forall d, In d docs -> validate d = true /\ assoc (object_id d) acc = None) ->
  s_insert_docs docs acc = Ok (acc ++ map (fun d => (object_id d, d)) docs).
Proof.
  induction docs as [|d t IH]; intros acc ND H.
  - cbn [s_insert_docs map]. rewrite app_nil_r. reflexivity.
  - cbn [s_insert_docs map]. destruct (H d (or_introl eq_refl)) as (V & A). rewrite A, V.
    cbn [map] in ND. inversion ND as [|x l Hnotin ND' E]. subst x l.
    rewrite IH; [rewrite <- app_assoc; reflexivity | exact ND' |].
    intros d' Hd'. destruct (H d' (or_intror Hd')) as (V' & A'). split; [exact V'|].
    rewrite assoc_app_other; [exact A'|].
    intro E. apply Hnotin. rewrite E. apply in_map. exact Hd'.
Qed.

Lemma wf_listed_doc_ok : forall db c sc d, wf_db db -> assoc c db = Some sc ->
  In d (map snd (sc_docs sc)) -> doc_ok (object_id d) d.
Proof.
  intros db c sc d W A H. apply (wf_doc db c sc _ d W A). exact (wf_listed_stored db c sc d W A H).
Qed.

(* the strongest form: database afterwards and result in every case *)
Lemma create_by_query_open : forall db s c q, wf_db db -> R db s -> op_dom_all db (OCreateByQuery c q) ->
  let out := exec_op (OCreateByQuery c q) (fresh_rstate (mkDb s false) None) in
  match assoc c db with
  | Some _ => fst out = T_err ECollExist /\ r_db (snd out) = mkDb s false
  | None =>
      match normalize_query (mk_query q) with
      | None =>
          fst out = T_err EOther /\
          wf_db (db ++ [(c, mkSC [] [])]) /\ R (db ++ [(c, mkSC [] [])]) (durable (r_db (snd out)))
      | Some nq =>
          match assoc (nq_coll nq) db with
          | None =>
              (nq_coll nq = c -> fst out = T_ok (TL [])) /\
              (nq_coll nq <> c -> fst out = T_err ECollNotExist) /\
              wf_db (db ++ [(c, mkSC [] [])]) /\ R (db ++ [(c, mkSC [] [])]) (durable (r_db (snd out)))
          | Some sc =>
              exists res,
                find_ok' (map snd (sc_docs sc)) nq res /\
                fst out = T_ok (TL []) /\
                let db' := assoc_set c (mkSC (map (fun d => (object_id d, d)) res) []) (db ++ [(c, mkSC [] [])]) in
                wf_db db' /\ R db' (durable (r_db (snd out)))
          end
      end
  end.
Proof.
  intros db s c q W HR (Hc & QD). cbv zeta. unfold exec_op, fresh_rstate.
  destruct point_ops_preserve_refinement as (PC & PI & _).
  specialize (PC db s c W HR Hc). cbv zeta in PC. unfold s_create in PC.
  rewrite run_tx_nofault.
  destruct (assoc c db) as [sc0|] eqn:A.
  - destruct PC as (E1 & E2). rewrite E1, E2. cbn [fst snd r_db]. split; reflexivity.
  - set (db1 := db ++ [(c, mkSC [] [])]) in *.
    destruct PC as (E1 & R1 & C1 & W1). rewrite E1.
    destruct (o_db (with_tx (create_collection_tx c) None (mkDb s false))) as [s1 c1].
    cbn [closed durable] in C1, R1. subst c1.
    assert (A1 : assoc c db1 = Some (mkSC [] [])) by (apply assoc_app_none; exact A).
    assert (Ao : forall c', c' <> c -> assoc c' db1 = assoc c' db).
    { intros c' Hn. apply assoc_app_other. congruence. }
    unfold find_all_op. destruct (normalize_query (mk_query q)) as [nq|] eqn:N.
    + rewrite run_tx_nofault.
      destruct (assoc (nq_coll nq) db) as [sc|] eqn:As.
      * (* an existing source *)
        assert (Hne : nq_coll nq <> c) by (intro E; rewrite E in As; congruence).
        assert (As1 : assoc (nq_coll nq) db1 = Some sc) by (rewrite (Ao _ Hne); exact As).
        destruct QD as (_ & QD). rewrite N in QD. destruct QD as (Hs & QD). rewrite As in QD.
        destruct QD as (m & CD & KD).
        destruct (find_all_refines m db1 s1 nq sc W1 R1 As1 CD KD Hs) as (res & F1 & F2 & F3).
        exists res. split; [exact F3|].
        assert (Hd : docs_have_ids res).
        { intros d Hin.
          destruct (find_all_only_matches m db1 s1 nq sc res d W1 R1 As1 CD KD F1 Hin) as (_ & Hl).
          exact (proj1 (wf_listed_doc_ok db1 (nq_coll nq) sc d W1 As1 Hl)). }
        assert (Hi : s_insert c res db1 =
                     Ok (assoc_set c (mkSC (map (fun d => (object_id d, d)) res) []) db1)).
        { unfold s_insert. rewrite A1. cbn [sc_docs sc_idx].
          rewrite s_insert_docs_succeeds; [reflexivity | |].
          - exact (find_all_each_once m db1 s1 nq sc res W1 R1 As1 CD KD F1).
          - intros d Hin. split; [|reflexivity].
            destruct (find_all_only_matches m db1 s1 nq sc res d W1 R1 As1 CD KD F1 Hin) as (_ & Hl).
            exact (proj2 (proj2 (wf_listed_doc_ok db1 (nq_coll nq) sc d W1 As1 Hl))). }
        rewrite F1, F2. destruct res as [|d0 t] eqn:Eres.
        -- cbn [fst snd r_db durable map]. split; [reflexivity|].
           rewrite (assoc_set_id _ c (mkSC [] []) db1 A1). split; assumption.
        -- rewrite <- Eres in *. unfold insert_op. rewrite run_tx_nofault.
           specialize (PI db1 s1 c res W1 R1 Hc Hd). cbv zeta in PI. rewrite Hi in PI.
           destruct PI as (E2 & R2 & W2). rewrite E2. cbn [fst snd r_db T_unit].
           split; [reflexivity|]. split; assumption.
      * (* no such source in db *)
        destruct (bytes_eq_dec (nq_coll nq) c) as [E|Hne].
        -- assert (As1 : assoc (nq_coll nq) db1 = Some (mkSC [] [])) by (rewrite E; exact A1).
           destruct (find_all_empty_collection db1 s1 nq W1 R1 As1) as (F1 & F2).
           rewrite F1, F2. cbn [fst snd r_db durable].
           split; [intros _; reflexivity|]. split; [intros Hn; contradiction|]. split; assumption.
        -- assert (As1 : assoc (nq_coll nq) db1 = None) by (rewrite (Ao _ Hne); exact As).
           destruct (find_all_missing db1 s1 nq W1 R1 As1) as (F1 & F2).
           rewrite F1, F2. cbn [fst snd r_db durable].
           split; [intros E; contradiction|]. split; [intros _; reflexivity|]. split; assumption.
    + cbn [fst snd r_db durable]. split; [reflexivity|]. split; assumption.
Qed.

(* K3 (c) as stated.  [T_unit (Ok tt)] is [T_ok (TL [])]. *)
Theorem create_by_query_refines : forall db h c q,
  wf_db db -> R db (durable h) -> closed h = false -> op_dom_all db (OCreateByQuery c q) ->
  exists db', wf_db db' /\ R db' (durable (snd (step h (OCreateByQuery c q)))) /\
    match assoc c db with
    | Some _ => fst (step h (OCreateByQuery c q)) = T_err ECollExist /\ db' = db
    | None =>
        (forall c', c' <> c -> assoc c' db' = assoc c' db) /\
        match normalize_query (mk_query q) with
        | None => fst (step h (OCreateByQuery c q)) = T_err EOther /\ assoc c db' = Some (mkSC [] [])
        | Some nq =>
            match assoc (nq_coll nq) db with
            | None => (* the source does not exist (it may be c itself, just created and empty) *)
                assoc c db' = Some (mkSC [] [])
            | Some sc =>
                fst (step h (OCreateByQuery c q)) = T_ok (TL []) /\
                exists res sc', find_ok' (map snd (sc_docs sc)) nq res /\ assoc c db' = Some sc' /\
                                sc_idx sc' = [] /\ Permutation (map snd (sc_docs sc')) res
            end
        end
    end.
Proof.
  intros db [s cl] c q W HR C D. cbn [closed durable] in *. subst cl.
  pose proof (create_by_query_open db s c q W HR D) as H. cbv zeta in H.
  rewrite step_fst, step_snd.
  set (out := exec_op (OCreateByQuery c q) (fresh_rstate (mkDb s false) None)) in *.
  destruct (assoc c db) as [sc0|] eqn:A.
  - destruct H as (E1 & E2). exists db. rewrite E2. cbn [durable].
    split; [exact W|]. split; [exact HR|]. split; [exact E1 | reflexivity].
  - assert (A1 : assoc c (db ++ [(c, mkSC [] [])]) = Some (mkSC [] [])) by (apply assoc_app_none; exact A).
    assert (Ao : forall c', c' <> c -> assoc c' (db ++ [(c, mkSC [] [])]) = assoc c' db).
    { intros c' Hn. apply assoc_app_other. congruence. }
    destruct (normalize_query (mk_query q)) as [nq|].
    + destruct (assoc (nq_coll nq) db) as [sc|].
      * destruct H as (res & F & E & W' & R').
        exists (assoc_set c (mkSC (map (fun d => (object_id d, d)) res) []) (db ++ [(c, mkSC [] [])])).
        split; [exact W'|]. split; [exact R'|]. split.
        -- intros c' Hn. rewrite assoc_set_other by congruence. exact (Ao c' Hn).
        -- split; [exact E|]. exists res, (mkSC (map (fun d => (object_id d, d)) res) []).
           split; [exact F|]. split; [apply assoc_set_same|]. split; [reflexivity|].
           cbn [sc_docs]. rewrite map_map. cbn [snd]. rewrite map_id. apply Permutation_refl.
      * destruct H as (_ & _ & W' & R'). exists (db ++ [(c, mkSC [] [])]).
        split; [exact W'|]. split; [exact R'|]. split; [exact Ao | exact A1].
    + destruct H as (E & W' & R'). exists (db ++ [(c, mkSC [] [])]).
      split; [exact W'|]. split; [exact R'|]. split; [exact Ao|]. split; [exact E | exact A1].
Qed.

(* what the statement leaves open, pinned down: the result when the source does not exist in [db], and the
   new collection holding the result list itself, in result order, under the documents' own ids *)
Theorem create_by_query_refines_exact : forall db h c q,
  wf_db db -> R db (durable h) -> closed h = false -> op_dom_all db (OCreateByQuery c q) ->
  assoc c db = None ->
  forall nq, normalize_query (mk_query q) = Some nq ->
  match assoc (nq_coll nq) db with
  | None =>
      (nq_coll nq = c -> fst (step h (OCreateByQuery c q)) = T_ok (TL [])) /\
      (nq_coll nq <> c -> fst (step h (OCreateByQuery c q)) = T_err ECollNotExist) /\
      wf_db (db ++ [(c, mkSC [] [])]) /\
      R (db ++ [(c, mkSC [] [])]) (durable (snd (step h (OCreateByQuery c q))))
  | Some sc =>
      exists res,
        find_ok' (map snd (sc_docs sc)) nq res /\
        fst (step h (OCreateByQuery c q)) = T_ok (TL []) /\
        let db' := assoc_set c (mkSC (map (fun d => (object_id d, d)) res) []) (db ++ [(c, mkSC [] [])]) in
        wf_db db' /\ R db' (durable (snd (step h (OCreateByQuery c q))))
  end.
Proof.
  intros db [s cl] c q W HR C D A nq N. cbn [closed durable] in *. subst cl.
  pose proof (create_by_query_open db s c q W HR D) as H. cbv zeta in H.
  rewrite step_fst, step_snd. rewrite A, N in H. exact H.
Qed.

(* ------------------------------------------------------------------------------------------ *)
(* 5. K1: every operation of the API preserves the invariant                                   *)
(* ------------------------------------------------------------------------------------------ *)
Definition composite (o : op) : bool :=
  match o with OExport _ | OImport _ _ | OCreateByQuery _ _ => true | _ => false end.

Lemma op_dom_all_simple : forall db o, composite o = false -> (op_dom_all db o <-> op_dom db o).
Proof. intros db o H. destruct o; try discriminate H; cbn [op_dom_all]; tauto. Qed.

Lemma op_dom_op_dom_all : forall db o, op_dom db o -> op_dom_all db o.
Proof.
  intros db o H. destruct (composite o) eqn:Co.
  - destruct o; try discriminate Co; cbn [op_dom] in H; contradiction.
  - apply (op_dom_all_simple db o Co). exact H.
Qed.

Lemma step_open_keeps_all : forall db s o, wf_db db -> R db s -> op_dom_all db o ->
  keeps (durable (snd (step (mkDb s false) o))).
Proof.
  intros db s o W HR D. destruct (composite o) eqn:Co.
  - destruct o; try discriminate Co.
    + (* Export *)
      rewrite (proj1 (export_refines_exact db (mkDb s false) c W HR eq_refl)).
      exact (keeps_same db s W HR).
    + (* Import *)
      pose proof (import_refines db (mkDb s false) c file W HR eq_refl D) as H.
      destruct (s_import c file db) as [r db']. destruct H as (_ & W' & R').
      exists db'. split; assumption.
    + (* CreateByQuery *)
      destruct (create_by_query_refines db (mkDb s false) c q W HR eq_refl D) as (db' & W' & R' & _).
      exists db'. split; assumption.
  - apply (step_open_keeps db s o W HR). apply (op_dom_all_simple db o Co). exact D.
Qed.

Theorem step_preserves_refinement_all : forall db h o,
  wf_db db -> Rdb' db h -> (closed h = false -> op_dom_all db o) ->
  exists db', wf_db db' /\ Rdb' db' (snd (step h o)).
Proof.
  intros db h o W HR D. unfold Rdb' in *.
  destruct (closed h) eqn:C.
  - destruct (handle_op o) eqn:Ho.
    + destruct o; try discriminate Ho; rewrite step_snd; cbn [exec_op snd r_db fresh_rstate durable];
        exists db; split; assumption.
    + rewrite (step_closed o h C Ho). cbn [snd]. exists db; split; assumption.
  - rewrite (open_handle h C). cbn [durable] in HR.
    exact (step_open_keeps_all db (durable h) o W HR (D eq_refl)).
Qed.

(* ------------------------------------------------------------------------------------------ *)
(* 6. K2: the history invariant over the whole alphabet                                        *)
(* ------------------------------------------------------------------------------------------ *)
Lemma hist_dom_implies_all : forall h ops, hist_dom h ops -> hist_dom_all h ops.
Proof.
  intros h ops. revert h. induction ops as [|o t IH]; intros h H; [exact I|].
  destruct H as (Ho & Ht). split; [|exact (IH _ Ht)].
  intros db W HR. apply op_dom_op_dom_all. exact (Ho db W HR).
Qed.

Theorem history_invariant_all_from : forall ops h db,
  wf_db db -> Rdb' db h -> hist_dom_all h ops ->
  exists db', wf_db db' /\ R db' (durable (snd (run_ops h ops))).
Proof.
  induction ops as [|o t IH]; intros h db W HR HD.
  - exists db. split; assumption.
  - destruct HD as (Ho & Ht). rewrite HistoryProofs.run_ops_cons.
    destruct (step_preserves_refinement_all db h o W HR) as (db1 & W1 & R1).
    + intros C. apply Ho; [exact W|]. split; assumption.
    + exact (IH _ db1 W1 R1 Ht).
Qed.

Theorem history_invariant_all : forall ops, hist_dom_all empty_db ops ->
  exists db, wf_db db /\ R db (durable (snd (run_ops empty_db ops))).
Proof. intros ops HD. exact (history_invariant_all_from ops empty_db [] wf_empty R_empty HD). Qed.

(* ------------------------------------------------------------------------------------------ *)
(* 7. K4 (C19 end to end): export, then import of the exported file under a new name           *)
(* ------------------------------------------------------------------------------------------ *)
Lemma file_docs_all_some : forall (A : Type) (f : A -> obj) (l : list A),
  file_docs (map (fun x => Some (f x)) l) = Some (map f l).
Proof.
  intros A f l. unfold file_docs.
  assert (E1 : forallb (fun o : option obj => match o with Some _ => true | None => false end)
                 (map (fun x => Some (f x)) l) = true).
  { induction l as [|x t IH]; [reflexivity|]. cbn [map forallb]. exact IH. }
  rewrite E1. clear E1. f_equal. induction l as [|x t IH]; [reflexivity|]. cbn [map flat_map app]. rewrite IH. reflexivity.
Qed.

Lemma assoc_map_snd : forall (A B : Type) (f : A -> B) k (l : list (bytes * A)),
  assoc k (map (fun e => (fst e, f (snd e))) l) = option_map f (assoc k l).
Proof.
  intros A B f k l. induction l as [|[k' a] t IH]; [reflexivity|].
  cbn [map assoc fst snd]. destruct (beqb k k'); [reflexivity | exact IH].
Qed.

Lemma doc_lookup_id : forall d, doc_lookup id_field d = obj_get id_field d.
Proof. reflexivity. Qed.

Lemma doc_lookup_expires : forall d, doc_lookup expires_field d = obj_get expires_field d.
Proof. reflexivity. Qed.

Section RoundTrip.
  Variable fmt : Z -> Z -> Z -> bytes.

  Lemma json_doc_eq : forall d, json_doc fmt d = map (fun kv => (fst kv, json_value fmt (snd kv))) d.
  Proof. intro d. unfold json_doc. rewrite json_value_obj. reflexivity. Qed.

  Lemma obj_get_json_doc : forall k d,
    obj_get k (json_doc fmt d) = option_map (json_value fmt) (obj_get k d).
  Proof.
    intros k d. rewrite json_doc_eq. induction d as [|[k' v] t IH]; [reflexivity|].
    cbn [map obj_get fst snd]. destruct (beqb k k'); [reflexivity | exact IH].
  Qed.

  (* the _id is a string, which JSON typing leaves alone; a document whose ObjectId() is "" may acquire one
     (a time under "_id" becomes its text), hence the premise *)
  Lemma object_id_json_doc : forall d, object_id d <> [] -> object_id (json_doc fmt d) = object_id d.
  Proof.
    intros d H. unfold object_id, doc_get in *. rewrite !doc_lookup_id in *. rewrite obj_get_json_doc.
    destruct (obj_get id_field d) as [v|]; [|reflexivity].
    destruct v; cbn [option_map json_value]; try reflexivity. contradiction H. reflexivity.
  Qed.

  Lemma canonical_id_nonempty : forall id, canonical_id id = true -> id <> [].
  Proof. intros id H E. apply canonical_id_length in H. subst id. discriminate H. Qed.

  Lemma validate_json_doc : forall d, object_id d <> [] -> validate d = true ->
    doc_has expires_field d = false -> validate (json_doc fmt d) = true.
  Proof.
    intros d Hid V X. unfold validate in *. rewrite (object_id_json_doc d Hid).
    apply andb_true_iff in V. destruct V as (V1 & _). rewrite V1. cbn [andb].
    unfold doc_has in X. rewrite !doc_lookup_expires in *. rewrite obj_get_json_doc.
    destruct (obj_get expires_field d); [discriminate X | reflexivity].
  Qed.

  (* the general form: the file lists the collection's documents in ANY order (Export writes them in the
     order FindAll returns them, which is by _id); the imported collection keeps the file's order *)
  Theorem export_import_roundtrip_any_order : forall db h c c' sc l,
    wf_db db -> R db (durable h) -> closed h = false -> no_semi c = true -> no_semi c' = true ->
    assoc c db = Some sc -> assoc c' db = None ->
    (forall id d, In (id, d) (sc_docs sc) -> doc_has expires_field d = false) ->
    Permutation l (sc_docs sc) ->
    let file := FElems (map (fun idd => Some (json_doc fmt (snd idd))) l) in
    exists db', fst (step h (OImport c' file)) = T_unit (Ok tt) /\ wf_db db' /\
      R db' (durable (snd (step h (OImport c' file)))) /\
      (forall c0, c0 <> c' -> assoc c0 db' = assoc c0 db) /\
      exists sc', assoc c' db' = Some sc' /\ sc_idx sc' = [] /\
        map fst (sc_docs sc') = map fst l /\
        forall id d, assoc id (sc_docs sc) = Some d -> assoc id (sc_docs sc') = Some (json_doc fmt d).
  Proof.
    intros db h c c' sc l W HR C Hc Hc' A A' X P file.
    destruct (wf_coll db c sc W A) as (_ & ND0 & Hdocs & _).
    assert (ND : NoDup (map fst l)).
    { apply (Permutation_NoDup (Permutation_sym (Permutation_map fst P))). exact ND0. }
    assert (Hin_l : forall id d, In (id, d) l -> In (id, d) (sc_docs sc)).
    { intros id d Hin. exact (Permutation_in _ P Hin). }
    assert (Hok : forall id d, In (id, d) l ->
                    object_id d = id /\ object_id d <> [] /\ validate d = true).
    { intros id d Hin. destruct (Hdocs id d (Hin_l id d Hin)) as (Ci & Oi & V).
      split; [exact Oi|]. split; [|exact V]. rewrite Oi. exact (canonical_id_nonempty id Ci). }
    set (docs := map (fun idd : bytes * obj => json_doc fmt (snd idd)) l).
    set (ds := map (fun idd : bytes * obj => (fst idd, json_doc fmt (snd idd))) l).
    set (db1 := db ++ [(c', mkSC [] [])]).
    assert (Eds : map (fun d => (object_id d, d)) docs = ds).
    { unfold docs, ds. rewrite map_map. apply map_ext_in. intros [id d] Hin. cbn [fst snd].
      destruct (Hok id d Hin) as (Oi & Ne & _). rewrite (object_id_json_doc d Ne), Oi. reflexivity. }
    assert (D : op_dom_all db (OImport c' file)).
    { split; [exact Hc'|]. unfold file. intros d Hin. apply in_map_iff in Hin.
      destruct Hin as ([id d0] & E & Hin). cbn [snd] in E. injection E as <-.
      destruct (Hok id d0 Hin) as (Oi & Ne & _). rewrite (object_id_json_doc d0 Ne), Oi.
      exact (proj1 (Hdocs id d0 (Hin_l id d0 Hin))). }
    assert (Hs : s_import c' file db = (Ok tt, assoc_set c' (mkSC ds []) db1)).
    { unfold s_import, file, s_create. rewrite A'. fold db1.
      rewrite (file_docs_all_some _ (fun idd : bytes * obj => json_doc fmt (snd idd))). fold docs.
      unfold s_insert. unfold db1 at 1. rewrite (assoc_app_none c' (mkSC [] []) db A').
      cbn [sc_docs sc_idx]. rewrite s_insert_docs_succeeds.
      - cbn [app]. rewrite Eds. reflexivity.
      - assert (E : map object_id docs = map fst l).
        { unfold docs. rewrite map_map. apply map_ext_in. intros [id d] Hin. cbn [fst snd].
          destruct (Hok id d Hin) as (Oi & Ne & _). rewrite (object_id_json_doc d Ne). exact Oi. }
        rewrite E. exact ND.
      - intros d Hin. split; [|reflexivity]. unfold docs in Hin. apply in_map_iff in Hin.
        destruct Hin as ([id d0] & <- & Hin). cbn [snd].
        destruct (Hok id d0 Hin) as (_ & Ne & V).
        exact (validate_json_doc d0 Ne V (X id d0 (Hin_l id d0 Hin))). }
    pose proof (import_refines db h c' file W HR C D) as H. rewrite Hs in H.
    destruct H as (E & W' & R').
    exists (assoc_set c' (mkSC ds []) db1).
    split; [exact E|]. split; [exact W'|]. split; [exact R'|]. split.
    - intros c0 Hn. rewrite assoc_set_other by congruence. unfold db1. apply assoc_app_other. congruence.
    - exists (mkSC ds []). split; [apply assoc_set_same|]. split; [reflexivity|]. cbn [sc_docs]. split.
      + unfold ds. rewrite map_map. reflexivity.
      + intros id d Hd. unfold ds. rewrite (assoc_map_snd _ _ (json_doc fmt)).
        assert (Hl : assoc id l = Some d).
        { apply (assoc_In id d l ND). apply (Permutation_in _ (Permutation_sym P)).
          apply assoc_some_In. exact Hd. }
        rewrite Hl. reflexivity.
  Qed.

  (* K4 as stated: the file in the abstract collection's own order *)
  Theorem export_import_roundtrip : forall db h c c' sc,
    wf_db db -> R db (durable h) -> closed h = false -> no_semi c = true -> no_semi c' = true ->
    assoc c db = Some sc -> assoc c' db = None ->
    (forall id d, In (id, d) (sc_docs sc) -> doc_has expires_field d = false) ->
    let file := FElems (map (fun idd => Some (json_doc fmt (snd idd))) (sc_docs sc)) in
    exists db', fst (step h (OImport c' file)) = T_unit (Ok tt) /\ wf_db db' /\
      R db' (durable (snd (step h (OImport c' file)))) /\
      (forall c0, c0 <> c' -> assoc c0 db' = assoc c0 db) /\
      exists sc', assoc c' db' = Some sc' /\ sc_idx sc' = [] /\
        map fst (sc_docs sc') = map fst (sc_docs sc) /\
        forall id d, assoc id (sc_docs sc) = Some d -> assoc id (sc_docs sc') = Some (json_doc fmt d).
  Proof.
    intros db h c c' sc W HR C Hc Hc' A A' X.
    exact (export_import_roundtrip_any_order db h c c' sc (sc_docs sc) W HR C Hc Hc' A A' X
             (Permutation_refl _)).
  Qed.

  (* the file Export really writes: the documents Export answers ([docs_by_id sc], export_refines_exact),
     JSON-typed, in that order *)
  Theorem export_then_import : forall db h c c' sc,
    wf_db db -> R db (durable h) -> closed h = false -> no_semi c = true -> no_semi c' = true ->
    assoc c db = Some sc -> assoc c' db = None ->
    (forall id d, In (id, d) (sc_docs sc) -> doc_has expires_field d = false) ->
    fst (step h (OExport c)) = T_ok (T_of_docs [] 0 (docs_by_id sc)) /\ snd (step h (OExport c)) = h /\
    let file := FElems (map (fun d => Some (json_doc fmt d)) (docs_by_id sc)) in
    exists db', fst (step h (OImport c' file)) = T_unit (Ok tt) /\ wf_db db' /\
      R db' (durable (snd (step h (OImport c' file)))) /\
      (forall c0, c0 <> c' -> assoc c0 db' = assoc c0 db) /\
      exists sc', assoc c' db' = Some sc' /\ sc_idx sc' = [] /\
        Permutation (map fst (sc_docs sc')) (map fst (sc_docs sc)) /\
        forall id d, assoc id (sc_docs sc) = Some d -> assoc id (sc_docs sc') = Some (json_doc fmt d).
  Proof.
    intros db h c c' sc W HR C Hc Hc' A A' X.
    destruct (export_refines_exact db h c W HR C) as (E1 & E2). rewrite A in E2.
    split; [exact E2|]. split; [exact E1|]. intro file.
    pose proof (SortProofs.msort_perm by_id_leb (sc_docs sc)) as P.
    destruct (export_import_roundtrip_any_order db h c c' sc (msort by_id_leb (sc_docs sc))
                W HR C Hc Hc' A A' X P) as (db' & F1 & F2 & F3 & F4 & sc' & G1 & G2 & G3 & G4).
    assert (Ef : FElems (map (fun idd : bytes * obj => Some (json_doc fmt (snd idd)))
                             (msort by_id_leb (sc_docs sc))) = file).
    { unfold file, docs_by_id. rewrite map_map. reflexivity. }
    rewrite Ef in F1, F3.
    exists db'. split; [exact F1|]. split; [exact F2|]. split; [exact F3|]. split; [exact F4|].
    exists sc'. split; [exact G1|]. split; [exact G2|]. split; [|exact G4].
    rewrite G3. apply Permutation_map. exact P.
  Qed.

  (* K-expires, in general: JSON typing turns the time under "_expiresAt" into its text, which Validate
     rejects; the import of the exported file then fails and leaves the new, empty collection behind *)
  Lemma validate_json_doc_expires : forall d s n o,
    obj_get expires_field d = Some (VTime s n o) -> validate (json_doc fmt d) = false.
  Proof.
    intros d s n o H. unfold validate. rewrite doc_lookup_expires, obj_get_json_doc, H.
    cbn [option_map json_value]. apply andb_false_r.
  Qed.

  Lemma s_insert_docs_invalid : forall docs acc d, In d docs -> validate d = false ->
    exists e, s_insert_docs docs acc = Err e.
  Proof.
    induction docs as [|d0 t IH]; intros acc d Hin V; [destruct Hin|].
    cbn [s_insert_docs]. destruct (assoc (object_id d0) acc); [eexists; reflexivity|].
    destruct (validate d0) eqn:V0; [|eexists; reflexivity].
    destruct Hin as [->|Hin]; [congruence|]. exact (IH _ d Hin V).
  Qed.

  Theorem export_import_expires_fails : forall db h c c' sc id d s n o,
    wf_db db -> R db (durable h) -> closed h = false -> no_semi c = true -> no_semi c' = true ->
    assoc c db = Some sc -> assoc c' db = None ->
    In (id, d) (sc_docs sc) -> obj_get expires_field d = Some (VTime s n o) ->
    let file := FElems (map (fun idd => Some (json_doc fmt (snd idd))) (sc_docs sc)) in
    exists e, fst (step h (OImport c' file)) = T_err e /\
      wf_db (db ++ [(c', mkSC [] [])]) /\
      R (db ++ [(c', mkSC [] [])]) (durable (snd (step h (OImport c' file)))).
  Proof.
    intros db h c c' sc id d s n o W HR C Hc Hc' A A' Hin X file.
    destruct (wf_coll db c sc W A) as (_ & _ & Hdocs & _).
    assert (Hok : forall id d, In (id, d) (sc_docs sc) -> object_id d = id /\ object_id d <> []).
    { intros id0 d0 Hin0. destruct (Hdocs id0 d0 Hin0) as (Ci & Oi & _).
      split; [exact Oi|]. rewrite Oi. exact (canonical_id_nonempty id0 Ci). }
    assert (D : op_dom_all db (OImport c' file)).
    { split; [exact Hc'|]. unfold file. intros d1 Hin1. apply in_map_iff in Hin1.
      destruct Hin1 as ([id0 d0] & E & Hin0). cbn [snd] in E. injection E as <-.
      destruct (Hok id0 d0 Hin0) as (Oi & Ne). rewrite (object_id_json_doc d0 Ne), Oi.
      exact (proj1 (Hdocs id0 d0 Hin0)). }
    set (docs := map (fun idd : bytes * obj => json_doc fmt (snd idd)) (sc_docs sc)).
    destruct (s_insert_docs_invalid docs [] (json_doc fmt d)) as (e & He).
    { unfold docs. apply in_map_iff. exists (id, d). split; [reflexivity | exact Hin]. }
    { exact (validate_json_doc_expires d s n o X). }
    assert (Hs : s_import c' file db = (Err e, db ++ [(c', mkSC [] [])])).
    { unfold s_import, file, s_create. rewrite A'.
      rewrite (file_docs_all_some _ (fun idd : bytes * obj => json_doc fmt (snd idd))). fold docs.
      unfold s_insert. rewrite (assoc_app_none c' (mkSC [] []) db A').
      cbn [sc_docs sc_idx]. rewrite He. reflexivity. }
    pose proof (import_refines db h c' file W HR C D) as H. rewrite Hs in H.
    exists e. exact H.
  Qed.
End RoundTrip.

(* the roundtrip theorem without its premise on "_expiresAt" is false (known finding K-expires): a witness *)
Definition kx_d : obj := [(id_field, VStr ex_id1); (expires_field, VTime 100 0 0)].
Definition kx_db : sdb := [(ex_c, mkSC [(ex_id1, kx_d)] [])].
Definition kx_h : dbst := snd (step empty_db (OImport ex_c (FElems [Some kx_d]))).
Definition kx_fmt : Z -> Z -> Z -> bytes := fun _ _ _ => [84%N].
Definition kx_c2 : bytes := [117%N].          (* "u" *)

Lemma kx_state : wf_db kx_db /\ R kx_db (durable kx_h) /\ closed kx_h = false.
Proof.
  assert (D : op_dom_all [] (OImport ex_c (FElems [Some kx_d]))).
  { split; [reflexivity|]. intros d [E|[]]. injection E as <-. reflexivity. }
  pose proof (import_refines [] empty_db ex_c (FElems [Some kx_d]) wf_empty R_empty eq_refl D) as H.
  assert (Hs : s_import ex_c (FElems [Some kx_d]) [] = (Ok tt, kx_db)) by (vm_compute; reflexivity).
  rewrite Hs in H. destruct H as (_ & W & HR). split; [exact W|]. split; [exact HR|].
  vm_compute. reflexivity.
Qed.

Theorem export_import_expires_witness :
  let file := FElems [Some (json_doc kx_fmt kx_d)] in
  validate kx_d = true /\ validate (json_doc kx_fmt kx_d) = false /\
  fst (step kx_h (OExport ex_c)) = T_ok (T_of_docs [] 0 [kx_d]) /\
  fst (step kx_h (OImport kx_c2 file)) = T_err EOther /\
  s_import kx_c2 file kx_db = (Err EOther, kx_db ++ [(kx_c2, mkSC [] [])]) /\
  fst (step (snd (step kx_h (OImport kx_c2 file))) (OHasCollection kx_c2)) = T_ok (Tbool true).
Proof. cbv zeta. repeat split; vm_compute; reflexivity. Qed.

Theorem export_import_expires_refuted :
  ~ (forall (fmt : Z -> Z -> Z -> bytes) db h c c' sc,
       wf_db db -> R db (durable h) -> closed h = false -> no_semi c = true -> no_semi c' = true ->
       assoc c db = Some sc -> assoc c' db = None ->
       let file := FElems (map (fun idd => Some (json_doc fmt (snd idd))) (sc_docs sc)) in
       exists db', fst (step h (OImport c' file)) = T_unit (Ok tt) /\ wf_db db' /\
         R db' (durable (snd (step h (OImport c' file)))) /\
         (forall c0, c0 <> c' -> assoc c0 db' = assoc c0 db) /\
         exists sc', assoc c' db' = Some sc' /\ sc_idx sc' = [] /\
           map fst (sc_docs sc') = map fst (sc_docs sc) /\
           forall id d, assoc id (sc_docs sc) = Some d -> assoc id (sc_docs sc') = Some (json_doc fmt d)).
Proof.
  intros H. destruct kx_state as (W & HR & C).
  specialize (H kx_fmt kx_db kx_h ex_c kx_c2 (mkSC [(ex_id1, kx_d)] []) W HR C
                eq_refl eq_refl eq_refl eq_refl).
  cbv zeta in H. destruct H as (db' & E & _). vm_compute in E. discriminate E.
Qed.

(* ------------------------------------------------------------------------------------------ *)
(* 8. K5: a decidable sufficient condition for [hist_dom_all], and a concrete history          *)
(* ------------------------------------------------------------------------------------------ *)
Definition file_ids_okb (file : import_file) : bool :=
  match file with
  | FElems l => forallb (fun o => match o with Some d => canonical_id (object_id d) | None => true end) l
  | _ => true
  end.

Definition op_domb_all (s : kv) (o : op) : bool :=
  match o with
  | OExport c => no_semi c
  | OImport c file => no_semi c && file_ids_okb file
  | OCreateByQuery c q => no_semi c && query_domb s (mk_query q)
  | _ => op_domb s o
  end.

Lemma op_domb_all_sound : forall s o, op_domb_all s o = true ->
  forall db, wf_db db -> R db s -> op_dom_all db o.
Proof.
  intros s o H db W HR. destruct (composite o) eqn:Co.
  - destruct o; try discriminate Co; cbn [op_domb_all op_dom_all] in *.
    + exact H.
    + apply andb_true_iff in H. destruct H as (H1 & H2). split; [exact H1|].
      destruct file as [| |l]; try exact I. cbn [file_ids_okb] in H2. rewrite forallb_forall in H2.
      intros d Hd. exact (H2 _ Hd).
    + apply andb_true_iff in H. destruct H as (H1 & H2). split; [exact H1|].
      exact (query_domb_sound s _ H2 db W HR).
  - apply (op_dom_all_simple db o Co). apply (op_domb_sound s o); [|exact W | exact HR].
    destruct o; try discriminate Co; exact H.
Qed.

Fixpoint hist_domb_all (h : dbst) (ops : list op) : bool :=
  match ops with
  | [] => true
  | o :: t => (closed h || op_domb_all (durable h) o) && hist_domb_all (snd (step h o)) t
  end.

Theorem hist_domb_all_sound : forall ops h, hist_domb_all h ops = true -> hist_dom_all h ops.
Proof.
  induction ops as [|o t IH]; intros h H; [exact I|].
  cbn [hist_domb_all hist_dom_all] in *. apply andb_true_iff in H. destruct H as (H1 & H2).
  split; [|exact (IH _ H2)].
  intros db W [C HR]. rewrite C in H1. cbn [orb] in H1. exact (op_domb_all_sound _ o H1 db W HR).
Qed.

(* collection "t" with two documents (one holding an integer and a time); export it; import the exported
   file as "u"; copy the documents with a >= 3 into "v"; import an ill-formed file as "w" *)
Definition k_ts : bytes := [116%N; 115%N].      (* field "ts" *)
Definition k_c2 : bytes := [117%N].             (* "u" *)
Definition k_c3 : bytes := [118%N].             (* "v" *)
Definition k_c4 : bytes := [119%N].             (* "w" *)
Definition k_fmt : Z -> Z -> Z -> bytes := fun _ _ _ => [84%N].
Definition k_d1 : obj := [(id_field, VStr ex_id1); (ex_f, VInt 5); (k_ts, VTime 1000 0 0)].
Definition k_d2 : obj := [(id_field, VStr ex_id2); (ex_f, VInt 1)].
Definition k_crit : gcrit := CCmp OGtEq ex_f (OLit (GInt 0 3)).
Definition k_file : import_file := FElems [Some (json_doc k_fmt k_d1); Some (json_doc k_fmt k_d2)].

Definition ex_ops : list op :=
  [ OCreateCollection ex_c;
    OInsert ex_c [k_d1; k_d2] [];
    OExport ex_c;
    OImport k_c2 k_file;
    OCreateByQuery k_c3 (ex_c, [QWhere k_crit]);
    OImport k_c4 FIllFormed ].

Example composite_history_in_domain : hist_dom_all empty_db ex_ops.
Proof. apply hist_domb_all_sound. vm_compute. reflexivity. Qed.

(* the composites are outside the old domain: the extension is a real one *)
Example composite_history_not_in_old_domain : ~ hist_dom empty_db ex_ops.
Proof.
  intros H.
  change ex_ops with ([OCreateCollection ex_c; OInsert ex_c [k_d1; k_d2] []] ++
                      [OExport ex_c; OImport k_c2 k_file; OCreateByQuery k_c3 (ex_c, [QWhere k_crit]);
                       OImport k_c4 FIllFormed]) in H.
  apply hist_dom_app in H. destruct H as (_ & H & _).
  destruct (history_invariant_all [OCreateCollection ex_c; OInsert ex_c [k_d1; k_d2] []]) as (db & W & HR).
  - apply hist_domb_all_sound. vm_compute. reflexivity.
  - apply (H db W). split; [vm_compute; reflexivity | exact HR].
Qed.

Example composite_history_invariant :
  exists db, wf_db db /\ R db (durable (snd (run_ops empty_db ex_ops))).
Proof. exact (history_invariant_all ex_ops composite_history_in_domain). Qed.

(* every step's result, and the store at the end: "t" unchanged, "u" with the JSON-typed copies (5 and 1 as
   float64, the time as its text), "v" with the one document having a >= 3, and the empty "w" that the
   failed import left behind (K-composite) *)
Example composite_history_runs :
  fst (run_ops empty_db ex_ops) =
    [ T_ok (TL []);
      T_ok (TL []);
      T_ok (TL [T_of_doc k_d1; T_of_doc k_d2]);
      T_ok (TL []);
      T_ok (TL []);
      T_err EOther ] /\
  durable (snd (run_ops empty_db ex_ops)) =
    [ (doc_key ex_c ex_id1, SDoc (doc_encode k_d1));
      (doc_key ex_c ex_id2, SDoc (doc_encode k_d2));
      (doc_key k_c2 ex_id1,
       SDoc (doc_encode [(id_field, VStr ex_id1); (ex_f, VFloat (Float64.of_Z 5)); (k_ts, VStr [84%N])]));
      (doc_key k_c2 ex_id2, SDoc (doc_encode [(id_field, VStr ex_id2); (ex_f, VFloat (Float64.of_Z 1))]));
      (doc_key k_c3 ex_id1, SDoc (doc_encode k_d1));
      (coll_key ex_c, SMeta 2 []);
      (coll_key k_c2, SMeta 2 []);
      (coll_key k_c3, SMeta 1 []);
      (coll_key k_c4, SMeta 0 []) ].
Proof. split; vm_compute; reflexivity. Qed.

(* the abstract database at the end, through the invariant: four collections, with these sizes *)
Example composite_history_consistent :
  let s := durable (snd (run_ops empty_db ex_ops)) in
  exists db, wf_db db /\ R db s /\
    (exists sc, assoc ex_c db = Some sc /\ length (sc_docs sc) = 2%nat /\ sc_idx sc = []) /\
    (exists sc, assoc k_c2 db = Some sc /\ length (sc_docs sc) = 2%nat /\ sc_idx sc = []) /\
    (exists sc, assoc k_c3 db = Some sc /\ length (sc_docs sc) = 1%nat /\ sc_idx sc = []) /\
    (exists sc, assoc k_c4 db = Some sc /\ length (sc_docs sc) = 0%nat /\ sc_idx sc = []).
Proof.
  intros s. destruct composite_history_invariant as (db & W & HR). fold s in HR.
  exists db. split; [exact W|]. split; [exact HR|].
  assert (G : forall c n, kv_get (coll_key c) s = Some (SMeta (Z.of_nat n) []) ->
            exists sc, assoc c db = Some sc /\ length (sc_docs sc) = n /\ sc_idx sc = []).
  { intros c n E. rewrite (R_get_meta db s c HR W) in E. destruct (assoc c db) as [sc|]; [|discriminate E].
    injection E as E1 E2. exists sc. split; [reflexivity|]. split; [lia | exact E2]. }
  repeat split; apply G; vm_compute; reflexivity.
Qed.

Print Assumptions find_all_value_input_ok.
Print Assumptions export_refines_exact.
Print Assumptions export_refines.
Print Assumptions import_refines.
Print Assumptions create_by_query_refines.
Print Assumptions create_by_query_refines_exact.
Print Assumptions step_preserves_refinement_all.
Print Assumptions hist_dom_implies_all.
Print Assumptions history_invariant_all_from.
Print Assumptions history_invariant_all.
Print Assumptions object_id_json_doc.
Print Assumptions validate_json_doc.
Print Assumptions export_import_roundtrip_any_order.
Print Assumptions export_import_roundtrip.
Print Assumptions export_then_import.
Print Assumptions export_import_expires_fails.
Print Assumptions export_import_expires_witness.
Print Assumptions export_import_expires_refuted.
Print Assumptions hist_domb_all_sound.
Print Assumptions composite_history_in_domain.
Print Assumptions composite_history_not_in_old_domain.
Print Assumptions composite_history_invariant.
Print Assumptions composite_history_runs.
Print Assumptions composite_history_consistent.

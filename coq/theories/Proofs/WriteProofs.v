(* The point-wise write operations of the model refine the abstract database: create collection,
   insert, delete by id, update by id; the read bodies return the abstract answers. *)
From Clover Require Import PureRun BytesProofs KeyProofs KVProofs RProofs WireProofs.
From Coq Require Import Lia.
Open Scope Z_scope.

Arguments idx_key : simpl never.
Arguments doc_key : simpl never.
Arguments coll_key : simpl never.
Arguments idx_value_key : simpl never.
Arguments idx_prefix : simpl never.
Arguments doc_prefix : simpl never.

(* ================================================================== *)
(* 1. Big-step runs of transaction bodies when no fault is injected     *)
(* ================================================================== *)

(* m, started with view v and commit slot cm (and no fault), returns r with view v' and commit slot cm' *)
Definition runs {A} (m : M A) (v : kv) (cm : option kv) (r : res A) (v' : kv) (cm' : option kv) : Prop :=
  forall n fr, exists n', m (mkTx v None n cm fr) = (r, mkTx v' None n' cm' fr).

Lemma runs_ret : forall A (a : A) v cm, runs (ret a) v cm (Ok a) v cm.
Proof. intros A a v cm n fr. exists n. reflexivity. Qed.

Lemma runs_fail : forall A e v cm, runs (@fail A e) v cm (Err e) v cm.
Proof. intros A e v cm n fr. exists n. reflexivity. Qed.

Lemma runs_bind : forall A B (m : M A) (f : A -> M B) v cm a v1 cm1 r v2 cm2,
  runs m v cm (Ok a) v1 cm1 -> runs (f a) v1 cm1 r v2 cm2 -> runs (bind m f) v cm r v2 cm2.
Proof.
  intros A B m f v cm a v1 cm1 r v2 cm2 H1 H2 n fr.
  destruct (H1 n fr) as (n1 & E1). destruct (H2 n1 fr) as (n2 & E2).
  exists n2. unfold bind. rewrite E1. exact E2.
Qed.

Lemma runs_bind_err : forall A B (m : M A) (f : A -> M B) v cm e v1 cm1,
  runs m v cm (Err e) v1 cm1 -> runs (bind m f) v cm (Err e) v1 cm1.
Proof.
  intros A B m f v cm e v1 cm1 H1 n fr.
  destruct (H1 n fr) as (n1 & E1). exists n1. unfold bind. rewrite E1. reflexivity.
Qed.

Lemma runs_tick : forall v cm, runs tick v cm (Ok tt) v cm.
Proof. intros v cm n fr. exists (S n). reflexivity. Qed.

Lemma runs_tx_get : forall k v cm, runs (tx_get k) v cm (Ok (kv_get k v)) v cm.
Proof. intros k v cm n fr. exists (S n). reflexivity. Qed.

Lemma runs_tx_set : forall k x v cm, runs (tx_set k x) v cm (Ok tt) (kv_set k x v) cm.
Proof. intros k x v cm n fr. exists (S n). reflexivity. Qed.

Lemma runs_tx_delete : forall k v cm, runs (tx_delete k) v cm (Ok tt) (kv_del k v) cm.
Proof. intros k v cm n fr. exists (S n). reflexivity. Qed.

Lemma runs_tx_commit : forall v cm, runs tx_commit v cm (Ok tt) v (Some v).
Proof. intros v cm n fr. exists (S n). reflexivity. Qed.

(* a run of the body determines the outcome of the transaction *)
Lemma runs_with_tx : forall A (body : M A) s r v' cm',
  runs body s None r v' cm' ->
  o_res (with_tx body None (mkDb s false)) = r /\
  o_db (with_tx body None (mkDb s false)) =
    mkDb (match cm' with Some v => v | None => s end) false.
Proof.
  intros A body s r v' cm' H.
  assert (Hb : runs (tick ;;; body) s None r v' cm').
  { eapply runs_bind; [apply runs_tick | exact H]. }
  destruct (Hb 0%nat false) as (n' & E).
  unfold with_tx. cbn [closed durable]. rewrite E. cbn. split; reflexivity.
Qed.

(* ---- the composite store accesses ---- *)
Lemma runs_get_meta : forall c v cm,
  runs (get_meta c) v cm
       (match kv_get (coll_key c) v with
        | Some (SMeta n l) => Ok (n, l)
        | Some _ => Err EOther
        | None => Err ECollNotExist
        end) v cm.
Proof.
  intros c v cm. unfold get_meta.
  destruct (kv_get (coll_key c) v) as [[w|n l|]|] eqn:E.
  - eapply runs_bind; [apply runs_tx_get|]. rewrite E. apply runs_fail.
  - eapply runs_bind; [apply runs_tx_get|]. rewrite E. apply runs_ret.
  - eapply runs_bind; [apply runs_tx_get|]. rewrite E. apply runs_fail.
  - eapply runs_bind; [apply runs_tx_get|]. rewrite E. apply runs_fail.
Qed.

Lemma runs_get_meta_some : forall c v cm n l, kv_get (coll_key c) v = Some (SMeta n l) ->
  runs (get_meta c) v cm (Ok (n, l)) v cm.
Proof. intros c v cm n l H. pose proof (runs_get_meta c v cm) as Hm. rewrite H in Hm. exact Hm. Qed.

Lemma runs_save_meta : forall c n l v cm,
  runs (save_meta c n l) v cm (Ok tt) (kv_set (coll_key c) (SMeta n l) v) cm.
Proof. intros. apply runs_tx_set. Qed.

Lemma runs_has_collection : forall c v cm,
  runs (has_collection c) v cm
       (Ok (match kv_get (coll_key c) v with Some _ => true | None => false end)) v cm.
Proof.
  intros c v cm. unfold has_collection.
  eapply runs_bind; [apply runs_tx_get|]. apply runs_ret.
Qed.

Lemma runs_get_doc : forall c id v cm,
  runs (get_doc c id) v cm
       (Ok (match kv_get (doc_key c id) v with Some x => Some (decode_sval x) | None => None end)) v cm.
Proof.
  intros c id v cm. unfold get_doc.
  eapply runs_bind; [apply runs_tx_get|]. apply runs_ret.
Qed.

(* the view after addDocToIndexes / deleteDocFromIndexes *)
Fixpoint add_view (c : bytes) (idx : list bytes) (d : obj) (v : kv) : kv :=
  match idx with
  | [] => v
  | f :: t => add_view c t d (kv_set (idx_key c f (doc_get f d) (object_id d)) SEmpty v)
  end.

Fixpoint del_view (c : bytes) (idx : list bytes) (d : obj) (v : kv) : kv :=
  match idx with
  | [] => v
  | f :: t => del_view c t d (kv_del (idx_key c f (doc_get f d) (object_id d)) v)
  end.

Lemma runs_add_to_indexes : forall c idx d v cm,
  runs (add_to_indexes c idx d) v cm (Ok tt) (add_view c idx d v) cm.
Proof.
  intros c idx d. induction idx as [|f t IH]; intros v cm; simpl.
  - apply runs_ret.
  - eapply runs_bind; [apply runs_tx_set|]. apply IH.
Qed.

Lemma runs_del_from_indexes : forall c idx d v cm,
  runs (del_from_indexes c idx d) v cm (Ok tt) (del_view c idx d v) cm.
Proof.
  intros c idx d. induction idx as [|f t IH]; intros v cm; simpl.
  - apply runs_ret.
  - eapply runs_bind; [apply runs_tx_delete|]. apply IH.
Qed.

(* ================================================================== *)
(* 2. Stores described by a content predicate                           *)
(* ================================================================== *)

Definition Rp (D : bytes -> sval -> Prop) (s : kv) : Prop :=
  kv_sorted s /\ forall k v, kv_get k s = Some v <-> D k v.

Lemma R_Rp : forall db s, R db s <-> Rp (denotes db) s.
Proof. intros. unfold R, Rp. tauto. Qed.

Lemma Rp_equiv : forall (D D' : bytes -> sval -> Prop) s,
  (forall k v, D k v <-> D' k v) -> Rp D s -> Rp D' s.
Proof.
  intros D D' s He (Hs & H). split; [exact Hs|].
  intros k v. rewrite H. apply He.
Qed.

Lemma bytes_eq_dec : forall a b : bytes, a = b \/ a <> b.
Proof.
  intros a b. destruct (beqb a b) eqn:E.
  - left. apply beqb_true_iff. exact E.
  - right. apply beqb_false_iff. exact E.
Qed.

Lemma Rp_set : forall D s k x, Rp D s ->
  Rp (fun k' v' => (k' = k /\ v' = x) \/ (k' <> k /\ D k' v')) (kv_set k x s).
Proof.
  intros D s k x (Hs & H). split; [apply kv_set_sorted; exact Hs|].
  intros k' v'. destruct (bytes_eq_dec k' k) as [E|E].
  - subst k'. rewrite kv_get_set_same_nosort. split.
    + intros E. injection E as E. left. split; [reflexivity | symmetry; exact E].
    + intros [(_ & E) | (F & _)]; [subst; reflexivity | contradiction F; reflexivity].
  - rewrite kv_get_set_other by (intros F; apply E; symmetry; exact F). rewrite H. split.
    + intros Hd. right. split; assumption.
    + intros [(F & _) | (_ & Hd)]; [contradiction (E F) | exact Hd].
Qed.

Lemma Rp_del : forall D s k, Rp D s ->
  Rp (fun k' v' => k' <> k /\ D k' v') (kv_del k s).
Proof.
  intros D s k (Hs & H). split; [apply kv_del_sorted; exact Hs|].
  intros k' v'. destruct (bytes_eq_dec k' k) as [E|E].
  - subst k'. rewrite kv_get_del_same. split; [discriminate|].
    intros (F & _). contradiction F. reflexivity.
  - rewrite kv_get_del_other by (intros F; apply E; symmetry; exact F). rewrite H. split.
    + intros Hd. split; assumption.
    + intros (_ & Hd). exact Hd.
Qed.

(* the index entries of document d in collection c *)
Definition ikey (c : bytes) (d : obj) (f : bytes) : bytes := idx_key c f (doc_get f d) (object_id d).

Lemma Rp_add_view : forall c d idx D s, Rp D s ->
  Rp (fun k v => (exists f, In f idx /\ k = ikey c d f /\ v = SEmpty) \/
                 ((forall f, In f idx -> k <> ikey c d f) /\ D k v))
     (add_view c idx d s).
Proof.
  intros c d idx. induction idx as [|f t IH]; intros D s H; simpl.
  - eapply Rp_equiv; [|exact H]. intros k v. split.
    + intros Hd. right. split; [intros f []|exact Hd].
    + intros [(f & [] & _) | (_ & Hd)]. exact Hd.
  - eapply Rp_equiv; [|apply IH; apply Rp_set; exact H].
    intros k v. cbv beta. fold (ikey c d f). split.
    + intros [(g & Hg & Ek & Ev) | (Hn & [(Ek & Ev) | (Ek & Hd)])].
      * left. exists g. split; [right; exact Hg|]. split; assumption.
      * left. exists f. split; [left; reflexivity|]. split; assumption.
      * right. split; [|exact Hd]. intros g [Eg|Hg]; [subst g; exact Ek | apply Hn; exact Hg].
    + intros [(g & [Eg|Hg] & Ek & Ev) | (Hn & Hd)].
      * subst g. destruct (bytes_eq_dec k (ikey c d f)) as [E|E]; [|contradiction (E Ek)].
        clear E.
        (* either also one of the later keys, or only this one *)
        assert (Hdec : (exists g, In g t /\ k = ikey c d g) \/ (forall g, In g t -> k <> ikey c d g)).
        { clear. induction t as [|g t IHt].
          - right. intros g [].
          - destruct IHt as [(g' & Hg' & E) | Hn].
            + left. exists g'. split; [right; exact Hg' | exact E].
            + destruct (bytes_eq_dec k (ikey c d g)) as [E|E].
              * left. exists g. split; [left; reflexivity | exact E].
              * right. intros g' [Eg|Hg']; [subst g'; exact E | apply Hn; exact Hg']. }
        destruct Hdec as [(g & Hg & Eg) | Hn].
        -- left. exists g. split; [exact Hg|]. split; assumption.
        -- right. split; [exact Hn|]. left. split; assumption.
      * left. exists g. split; [exact Hg|]. split; assumption.
      * right. split; [intros g Hg; apply Hn; right; exact Hg|].
        right. split; [apply Hn; left; reflexivity | exact Hd].
Qed.

Lemma Rp_del_view : forall c d idx D s, Rp D s ->
  Rp (fun k v => (forall f, In f idx -> k <> ikey c d f) /\ D k v) (del_view c idx d s).
Proof.
  intros c d idx. induction idx as [|f t IH]; intros D s H; simpl.
  - eapply Rp_equiv; [|exact H]. intros k v. split.
    + intros Hd. split; [intros f []|exact Hd].
    + intros (_ & Hd). exact Hd.
  - eapply Rp_equiv; [|apply IH; apply Rp_del; exact H].
    intros k v. cbv beta. fold (ikey c d f). split.
    + intros (Hn & Ek & Hd). split; [|exact Hd].
      intros g [Eg|Hg]; [subst g; exact Ek | apply Hn; exact Hg].
    + intros (Hn & Hd). split; [intros g Hg; apply Hn; right; exact Hg|].
      split; [apply Hn; left; reflexivity | exact Hd].
Qed.

Lemma Rp_get_some : forall D s k v, Rp D s -> D k v -> kv_get k s = Some v.
Proof. intros D s k v (_ & H) Hd. apply H. exact Hd. Qed.

Lemma Rp_get_none : forall D s k, Rp D s -> (forall v, ~ D k v) -> kv_get k s = None.
Proof.
  intros D s k (_ & H) Hn. destruct (kv_get k s) as [v|] eqn:E; [|reflexivity].
  apply H in E. contradiction (Hn v E).
Qed.

(* ================================================================== *)
(* 3. What one collection denotes; splitting a database at a collection *)
(* ================================================================== *)

Definition sden (c : bytes) (sc : scoll) : bytes -> sval -> Prop := denotes [(c, sc)].

Lemma assoc_single : forall (c : bytes) (sc : scoll) c1 sc1,
  assoc c1 [(c, sc)] = Some sc1 -> c1 = c /\ sc1 = sc.
Proof.
  intros c sc c1 sc1. simpl. destruct (beqb c1 c) eqn:E; [|discriminate].
  intros H. injection H as H. apply beqb_true_iff in E. split; [exact E | symmetry; exact H].
Qed.

Lemma assoc_single_same : forall (c : bytes) (sc : scoll), assoc c [(c, sc)] = Some sc.
Proof. intros. simpl. rewrite beqb_refl. reflexivity. Qed.

Lemma sden_meta : forall c sc,
  sden c sc (coll_key c) (SMeta (Z.of_nat (length (sc_docs sc))) (sc_idx sc)).
Proof. intros. apply den_meta. apply assoc_single_same. Qed.

Lemma sden_doc : forall c sc id d, assoc id (sc_docs sc) = Some d ->
  sden c sc (doc_key c id) (SDoc (doc_encode d)).
Proof. intros c sc id d H. apply (den_doc _ c sc id d); [apply assoc_single_same | exact H]. Qed.

Lemma sden_idx : forall c sc id d f, assoc id (sc_docs sc) = Some d -> In f (sc_idx sc) ->
  sden c sc (idx_key c f (doc_get f d) id) SEmpty.
Proof.
  intros c sc id d f H Hf. apply (den_idx _ c sc id d f); [apply assoc_single_same | exact H | exact Hf].
Qed.

Lemma sden_inv : forall c sc k v, sden c sc k v ->
  (k = coll_key c /\ v = SMeta (Z.of_nat (length (sc_docs sc))) (sc_idx sc)) \/
  (exists id d, assoc id (sc_docs sc) = Some d /\ k = doc_key c id /\ v = SDoc (doc_encode d)) \/
  (exists id d f, assoc id (sc_docs sc) = Some d /\ In f (sc_idx sc) /\
                  k = idx_key c f (doc_get f d) id /\ v = SEmpty).
Proof.
  intros c sc k v H. apply den_inv in H.
  destruct H as [(c1 & sc1 & Ha & Ek & Ev) | [(c1 & sc1 & id & d & Ha & Hd & Ek & Ev)
                | (c1 & sc1 & id & d & f & Ha & Hd & Hf & Ek & Ev)]];
    apply assoc_single in Ha; destruct Ha; subst c1 sc1.
  - left. split; assumption.
  - right. left. exists id, d. repeat split; assumption.
  - right. right. exists id, d, f. repeat split; assumption.
Qed.

Lemma sden_lift : forall db c sc k v, assoc c db = Some sc -> sden c sc k v -> denotes db k v.
Proof.
  intros db c sc k v Ha H. apply sden_inv in H.
  destruct H as [(Ek & Ev) | [(id & d & Hd & Ek & Ev) | (id & d & f & Hd & Hf & Ek & Ev)]]; subst k v.
  - apply den_meta. exact Ha.
  - apply (den_doc db c sc id d); assumption.
  - apply (den_idx db c sc id d f); assumption.
Qed.

Lemma kic_coll : forall c, key_in_coll c (coll_key c).
Proof. intros. left. reflexivity. Qed.
Lemma kic_doc : forall c id, key_in_coll c (doc_key c id).
Proof. intros. right. left. exists id. reflexivity. Qed.
Lemma kic_idx : forall c f x id, key_in_coll c (idx_key c f x id).
Proof. intros. right. right. exists f, x, id. reflexivity. Qed.

(* a denoted key is either outside collection c or denoted by c alone *)
Lemma den_split : forall db c k v, wf_db db -> no_semi c = true -> denotes db k v ->
  (~ key_in_coll c k /\ denotes db k v) \/ (exists sc, assoc c db = Some sc /\ sden c sc k v).
Proof.
  intros db c k v Hwf Hc H.
  destruct (den_cases_full db k v Hwf H)
    as [(c0 & sc & Ha & Hc0 & Ek & Ev) | [(c0 & sc & id0 & d & Ha & Hd & Hc0 & Hid & Hok & Ek & Ev)
       | (c0 & sc & id0 & d & f0 & Ha & Hd & Hf0 & Hc0 & Hf0' & Hid & Hok & Ek & Ev)]];
    subst k v; destruct (bytes_eq_dec c0 c) as [E|E].
  - subst c0. right. exists sc. split; [exact Ha | apply sden_meta].
  - left. split; [|exact H]. intros F. apply coll_key_in_coll in F. exact (E F).
  - subst c0. right. exists sc. split; [exact Ha | apply sden_doc; exact Hd].
  - left. split; [|exact H]. intros F. apply doc_key_in_coll in F; [exact (E F)|exact Hc|exact Hc0].
  - subst c0. right. exists sc. split; [exact Ha | apply sden_idx; assumption].
  - left. split; [|exact H]. intros F. apply idx_key_in_coll in F; [exact (E F)|exact Hc|exact Hc0].
Qed.

Lemma den_set_split : forall db c sc' k v, wf_db db -> no_semi c = true ->
  denotes (assoc_set c sc' db) k v ->
  (~ key_in_coll c k /\ denotes db k v) \/ sden c sc' k v.
Proof.
  intros db c sc' k v Hwf Hc H. apply den_inv in H.
  destruct H as [(c0 & sc & Ha & Ek & Ev) | [(c0 & sc & id0 & d & Ha & Hd & Ek & Ev)
                | (c0 & sc & id0 & d & f0 & Ha & Hd & Hf0 & Ek & Ev)]];
    subst k v; destruct (bytes_eq_dec c0 c) as [E|E];
    try (subst c0; rewrite assoc_set_same in Ha; injection Ha as Ha; subst sc);
    try (rewrite assoc_set_frame in Ha by exact E; pose proof (wf_coll_name db c0 sc Hwf Ha) as Hc0).
  - right. apply sden_meta.
  - left. split; [|apply den_meta; exact Ha]. intros F. apply coll_key_in_coll in F. exact (E F).
  - right. apply sden_doc. exact Hd.
  - left. split; [|apply (den_doc db c0 sc id0 d); assumption].
    intros F. apply doc_key_in_coll in F; [exact (E F)|exact Hc|exact Hc0].
  - right. apply sden_idx; assumption.
  - left. split; [|apply (den_idx db c0 sc id0 d f0); assumption].
    intros F. apply idx_key_in_coll in F; [exact (E F)|exact Hc|exact Hc0].
Qed.

Lemma den_set_join : forall db c sc' k v,
  (~ key_in_coll c k /\ denotes db k v) \/ sden c sc' k v ->
  denotes (assoc_set c sc' db) k v.
Proof.
  intros db c sc' k v [(Hn & H) | H].
  - apply (den_frame db (assoc_set c sc' db) c k v); [intros c0; apply assoc_set_frame | exact Hn | exact H].
  - apply (sden_lift _ c sc'); [apply assoc_set_same | exact H].
Qed.

(* ---- small facts ---- *)
Lemma assoc_set_set : forall (A : Type) k (a b : A) l, assoc_set k a (assoc_set k b l) = assoc_set k a l.
Proof.
  intros A k a b l. induction l as [|[k0 a0] t IH]; simpl.
  - rewrite beqb_refl. reflexivity.
  - destruct (beqb k k0) eqn:E; simpl.
    + rewrite beqb_refl. reflexivity.
    + rewrite E, IH. reflexivity.
Qed.

Lemma assoc_set_id : forall (A : Type) k (a : A) l, assoc k l = Some a -> assoc_set k a l = l.
Proof.
  intros A k a l. induction l as [|[k0 a0] t IH]; simpl; intros H; [discriminate|].
  destruct (beqb k k0) eqn:E.
  - injection H as H. subst a0. apply beqb_true_iff in E. subst k0. reflexivity.
  - rewrite (IH H). reflexivity.
Qed.

Lemma assoc_app_inv : forall (A : Type) id (d : A) l id1 d1, assoc id l = None ->
  (assoc id1 (l ++ [(id, d)]) = Some d1 <->
   assoc id1 l = Some d1 \/ (id1 = id /\ d1 = d)).
Proof.
  intros A id d l id1 d1 Hn. destruct (bytes_eq_dec id1 id) as [E|E].
  - subst id1. rewrite (assoc_app_none id d l Hn). rewrite Hn. split.
    + intros H. injection H as H. right. split; [reflexivity | symmetry; exact H].
    + intros [H | (_ & H)]; [discriminate | subst; reflexivity].
  - rewrite assoc_app_other by (intros F; apply E; symmetry; exact F). split.
    + intros H. left. exact H.
    + intros [H | (F & _)]; [exact H | contradiction (E F)].
Qed.

Lemma idx_key_ne : forall c f1 x1 id1 f x id,
  no_semi c = true -> no_semi f1 = true -> no_semi f = true ->
  length id1 = 36%nat -> length id = 36%nat -> id1 <> id ->
  idx_key c f1 x1 id1 <> idx_key c f x id.
Proof.
  intros c f1 x1 id1 f x id Hc Hf1 Hf Hl1 Hl Hne E.
  apply idx_key_inj in E; try assumption. destruct E as (_ & _ & _ & E). exact (Hne E).
Qed.

Lemma doc_key_ne : forall c id1 id, no_semi c = true -> id1 <> id -> doc_key c id1 <> doc_key c id.
Proof.
  intros c id1 id Hc Hne E. apply doc_key_inj in E; try assumption. destruct E as (_ & E). exact (Hne E).
Qed.

Lemma beqb_neg_false : forall a b, negb (beqb a b) = false -> a = b.
Proof. intros a b H. apply beqb_true_iff. destruct (beqb a b); [reflexivity | discriminate]. Qed.

(* ================================================================== *)
(* 4. The key-space effect of each abstract operation                   *)
(* ================================================================== *)

(* the database with a stale Size counter n for collection c *)
Definition Dm (c : bytes) (n : Z) (l : list bytes) (db : sdb) (k : bytes) (v : sval) : Prop :=
  (k = coll_key c /\ v = SMeta n l) \/ (k <> coll_key c /\ denotes db k v).

Lemma create_spec : forall db c, wf_db db -> no_semi c = true -> assoc c db = None ->
  forall k v,
    ((k = coll_key c /\ v = SMeta 0 []) \/ (k <> coll_key c /\ denotes db k v)) <->
    denotes (assoc_set c (mkSC [] []) db) k v.
Proof.
  intros db c Hwf Hc Hn k v. split.
  - intros [(Ek & Ev) | (Ek & H)].
    + subst k v. apply den_set_join. right. apply (sden_meta c (mkSC [] [])).
    + apply den_set_join. left. split; [|exact H].
      destruct (den_split db c k v Hwf Hc H) as [(Hk & _) | (sc & Ha & _)]; [exact Hk|].
      rewrite Hn in Ha. discriminate.
  - intros H. apply den_set_split in H; [|exact Hwf|exact Hc].
    destruct H as [(Hk & H) | H].
    + right. split; [|exact H]. intros E. subst k. apply Hk. apply kic_coll.
    + apply sden_inv in H. cbn [sc_docs sc_idx] in H.
      destruct H as [(Ek & Ev) | [(id & d & Hd & _) | (id & d & f & Hd & _)]].
      * left. split; assumption.
      * discriminate Hd.
      * discriminate Hd.
Qed.

Section OneColl.
  Variables (db : sdb) (c : bytes) (sc : scoll).
  Hypothesis Hwf : wf_db db.
  Hypothesis Ha : assoc c db = Some sc.

  Let Hc : no_semi c = true := wf_coll_name db c sc Hwf Ha.

  Lemma oc_field : forall f, In f (sc_idx sc) -> no_semi f = true.
  Proof. intros f Hf. exact (wf_idx_name db c sc f Hwf Ha Hf). Qed.

  Lemma oc_id_len : forall id d, assoc id (sc_docs sc) = Some d -> length id = 36%nat.
  Proof. intros id d Hd. exact (proj1 (wf_doc_id_ok db c sc id d Hwf Ha Hd)). Qed.

  Lemma oc_obj_id : forall id d, assoc id (sc_docs sc) = Some d -> object_id d = id.
  Proof. intros id d Hd. exact (wf_doc_object_id db c sc id d Hwf Ha Hd). Qed.

  (* a key denoted by the database but outside c survives any change of c *)
  Lemma oc_old_outside : forall sc2 k v, denotes db k v -> ~ key_in_coll c k ->
    denotes (assoc_set c sc2 db) k v.
  Proof. intros sc2 k v H Hk. apply den_set_join. left. split; assumption. Qed.

  (* ---- inserting one fresh document (the Size counter is rewritten later) ---- *)
  Lemma insert_one_spec : forall d n,
    canonical_id (object_id d) = true -> assoc (object_id d) (sc_docs sc) = None ->
    forall k v,
      ((k = doc_key c (object_id d) /\ v = SDoc (doc_encode d)) \/
       (k <> doc_key c (object_id d) /\
        ((exists f, In f (sc_idx sc) /\ k = ikey c d f /\ v = SEmpty) \/
         ((forall f, In f (sc_idx sc) -> k <> ikey c d f) /\ Dm c n (sc_idx sc) db k v)))) <->
      Dm c n (sc_idx sc)
         (assoc_set c (mkSC (sc_docs sc ++ [(object_id d, d)]) (sc_idx sc)) db) k v.
  Proof.
    intros d n Hcan Hfresh k v.
    set (id := object_id d) in *.
    set (sc2 := mkSC (sc_docs sc ++ [(id, d)]) (sc_idx sc)).
    assert (Hlen : length id = 36%nat) by (apply canonical_id_length; exact Hcan).
    assert (Hnew : assoc id (sc_docs sc2) = Some d) by (apply assoc_app_none; exact Hfresh).
    split.
    - intros [(Ek & Ev) | (Ek & [(f & Hf & Ekf & Ev) | (Hnk & [(Ekc & Ev) | (Ekc & H)])])].
      + subst k v. right. split; [intros F; symmetry in F; exact (coll_key_not_doc _ _ _ F)|].
        apply den_set_join. right. apply (sden_doc c sc2 id d). exact Hnew.
      + subst k v. right. split; [intros F; symmetry in F; exact (coll_key_not_idx _ _ _ _ _ F)|].
        apply den_set_join. right. apply (sden_idx c sc2 id d f); [exact Hnew | exact Hf].
      + left. split; assumption.
      + right. split; [exact Ekc|].
        destruct (den_split db c k v Hwf Hc H) as [(Hk & _) | (sc0 & Ha0 & Hs)].
        * apply oc_old_outside; assumption.
        * rewrite Ha in Ha0. injection Ha0 as Ha0. subst sc0.
          apply den_set_join. right. apply sden_inv in Hs.
          destruct Hs as [(E1 & _) | [(id1 & d1 & Hd1 & E1 & Ev) | (id1 & d1 & f1 & Hd1 & Hf1 & E1 & Ev)]].
          -- contradiction (Ekc E1).
          -- subst k v. apply (sden_doc c sc2 id1 d1).
             apply (assoc_app_inv _ id d (sc_docs sc) id1 d1 Hfresh). left. exact Hd1.
          -- subst k v. apply (sden_idx c sc2 id1 d1 f1); [|exact Hf1].
             apply (assoc_app_inv _ id d (sc_docs sc) id1 d1 Hfresh). left. exact Hd1.
    - intros [(Ekc & Ev) | (Ekc & H)].
      + subst k v. right. split; [apply coll_key_not_doc|]. right.
        split; [intros f _; apply coll_key_not_idx|]. left. split; reflexivity.
      + apply den_set_split in H; [|exact Hwf|exact Hc]. destruct H as [(Hk & H) | H].
        * right. split; [intros E; subst k; apply Hk; apply kic_doc|]. right.
          split; [intros f _ E; subst k; apply Hk; apply kic_idx|]. right. split; assumption.
        * apply sden_inv in H. cbn [sc_docs sc_idx sc2] in H.
          destruct H as [(E1 & _) | [(id1 & d1 & Hd1 & E1 & Ev) | (id1 & d1 & f1 & Hd1 & Hf1 & E1 & Ev)]].
          -- contradiction (Ekc E1).
          -- apply (assoc_app_inv _ id d (sc_docs sc) id1 d1 Hfresh) in Hd1.
             destruct Hd1 as [Hd1 | (Ei & Ed)].
             ++ assert (Hne : id1 <> id) by (intros F; subst id1; rewrite Hfresh in Hd1; discriminate).
                subst k v. right. split; [apply doc_key_ne; assumption|]. right.
                split; [intros f _; apply doc_key_not_idx; exact Hc|]. right. split; [exact Ekc|].
                apply (den_doc db c sc id1 d1); assumption.
             ++ subst id1 d1 k v. left. split; reflexivity.
          -- apply (assoc_app_inv _ id d (sc_docs sc) id1 d1 Hfresh) in Hd1.
             destruct Hd1 as [Hd1 | (Ei & Ed)].
             ++ assert (Hne : id1 <> id) by (intros F; subst id1; rewrite Hfresh in Hd1; discriminate).
                subst k v. right.
                split; [intros F; symmetry in F; exact (doc_key_not_idx _ _ _ _ _ _ Hc Hc F)|]. right.
                split.
                { intros f Hf. apply idx_key_ne; try assumption.
                  - apply oc_field; exact Hf1.
                  - apply oc_field; exact Hf.
                  - apply (oc_id_len id1 d1 Hd1). }
                right. split; [exact Ekc|]. apply (den_idx db c sc id1 d1 f1); assumption.
             ++ subst id1 d1 k v. right.
                split; [intros F; symmetry in F; exact (doc_key_not_idx _ _ _ _ _ _ Hc Hc F)|].
                left. exists f1. split; [exact Hf1|]. split; reflexivity.
  Qed.

  (* ---- deleting a stored document ---- *)
  Lemma delete_spec : forall id d0, assoc id (sc_docs sc) = Some d0 ->
    forall k v,
      ((k = coll_key c /\ v = SMeta (Z.of_nat (length (sc_docs sc)) - 1) (sc_idx sc)) \/
       (k <> coll_key c /\ k <> doc_key c id /\
        (forall f, In f (sc_idx sc) -> k <> ikey c d0 f) /\ denotes db k v)) <->
      denotes (assoc_set c (mkSC (assoc_del id (sc_docs sc)) (sc_idx sc)) db) k v.
  Proof.
    intros id d0 Hd0 k v.
    set (sc2 := mkSC (assoc_del id (sc_docs sc)) (sc_idx sc)).
    assert (Hoid : object_id d0 = id) by (apply (oc_obj_id id d0 Hd0)).
    assert (Hlen : length id = 36%nat) by (apply (oc_id_len id d0 Hd0)).
    assert (Hsz : Z.of_nat (length (sc_docs sc)) - 1 = Z.of_nat (length (sc_docs sc2))).
    { cbn [sc_docs sc2].
      rewrite (assoc_del_length_present_S id d0 (sc_docs sc) (wf_docs_NoDup db c sc Hwf Ha) Hd0). lia. }
    split.
    - intros [(Ek & Ev) | (Ekc & Ekd & Hnk & H)].
      + subst k v. rewrite Hsz. apply den_set_join. right. apply (sden_meta c sc2).
      + destruct (den_split db c k v Hwf Hc H) as [(Hk & _) | (sc0 & Ha0 & Hs)].
        * apply oc_old_outside; assumption.
        * rewrite Ha in Ha0. injection Ha0 as Ha0. subst sc0.
          apply den_set_join. right. apply sden_inv in Hs.
          destruct Hs as [(E1 & _) | [(id1 & d1 & Hd1 & E1 & Ev) | (id1 & d1 & f1 & Hd1 & Hf1 & E1 & Ev)]].
          -- contradiction (Ekc E1).
          -- subst k v. apply (sden_doc c sc2 id1 d1). cbn [sc_docs sc2].
             rewrite assoc_del_other; [exact Hd1|]. intros F. subst id1. apply Ekd. reflexivity.
          -- subst k v. apply (sden_idx c sc2 id1 d1 f1); [|exact Hf1]. cbn [sc_docs sc2].
             rewrite assoc_del_other; [exact Hd1|]. intros F. subst id1.
             rewrite Hd0 in Hd1. injection Hd1 as Hd1. subst d1.
             apply (Hnk f1 Hf1). unfold ikey. rewrite Hoid. reflexivity.
    - intros H. apply den_set_split in H; [|exact Hwf|exact Hc]. destruct H as [(Hk & H) | H].
      + right. split; [intros E; subst k; apply Hk; apply kic_coll|].
        split; [intros E; subst k; apply Hk; apply kic_doc|].
        split; [intros f _ E; subst k; apply Hk; apply kic_idx | exact H].
      + apply sden_inv in H. cbn [sc_docs sc_idx sc2] in H.
        destruct H as [(E1 & Ev) | [(id1 & d1 & Hd1 & E1 & Ev) | (id1 & d1 & f1 & Hd1 & Hf1 & E1 & Ev)]].
        * left. rewrite Hsz. split; assumption.
        * assert (Hne : id1 <> id).
          { intros F. subst id1. rewrite assoc_del_same in Hd1. discriminate. }
          rewrite assoc_del_other in Hd1 by (intros F; apply Hne; symmetry; exact F).
          subst k v. right. split; [intros F; symmetry in F; exact (coll_key_not_doc _ _ _ F)|].
          split; [apply doc_key_ne; assumption|].
          split; [intros f _; apply doc_key_not_idx; exact Hc|].
          apply (den_doc db c sc id1 d1); assumption.
        * assert (Hne : id1 <> id).
          { intros F. subst id1. rewrite assoc_del_same in Hd1. discriminate. }
          rewrite assoc_del_other in Hd1 by (intros F; apply Hne; symmetry; exact F).
          subst k v. right. split; [intros F; symmetry in F; exact (coll_key_not_idx _ _ _ _ _ F)|].
          split; [intros F; symmetry in F; exact (doc_key_not_idx _ _ _ _ _ _ Hc Hc F)|].
          split.
          { intros f Hf. unfold ikey. rewrite Hoid. apply idx_key_ne; try assumption.
            - apply oc_field; exact Hf1.
            - apply oc_field; exact Hf.
            - apply (oc_id_len id1 d1 Hd1). }
          apply (den_idx db c sc id1 d1 f1); assumption.
  Qed.

  (* ---- replacing a stored document by one with the same id ---- *)
  Lemma update_spec : forall id d0 d', assoc id (sc_docs sc) = Some d0 -> object_id d' = id ->
    forall k v,
      ((k = doc_key c id /\ v = SDoc (doc_encode d')) \/
       (k <> doc_key c id /\
        ((exists f, In f (sc_idx sc) /\ k = ikey c d' f /\ v = SEmpty) \/
         ((forall f, In f (sc_idx sc) -> k <> ikey c d' f) /\
          (forall f, In f (sc_idx sc) -> k <> ikey c d0 f) /\ denotes db k v)))) <->
      denotes (assoc_set c (mkSC (assoc_set id d' (sc_docs sc)) (sc_idx sc)) db) k v.
  Proof.
    intros id d0 d' Hd0 Hoid' k v.
    set (sc2 := mkSC (assoc_set id d' (sc_docs sc)) (sc_idx sc)).
    assert (Hoid : object_id d0 = id) by (apply (oc_obj_id id d0 Hd0)).
    assert (Hlen : length id = 36%nat) by (apply (oc_id_len id d0 Hd0)).
    assert (Hsz : length (sc_docs sc2) = length (sc_docs sc)).
    { cbn [sc_docs sc2]. apply (assoc_set_length_present id d' d0). exact Hd0. }
    assert (Hnew : assoc id (sc_docs sc2) = Some d') by (apply assoc_set_same).
    split.
    - intros [(Ek & Ev) | (Ekd & [(f & Hf & Ekf & Ev) | (Hnk' & Hnk & H)])].
      + subst k v. apply den_set_join. right. apply (sden_doc c sc2 id d'). exact Hnew.
      + subst k v. apply den_set_join. right. unfold ikey. rewrite Hoid'.
        apply (sden_idx c sc2 id d' f); [exact Hnew | exact Hf].
      + destruct (den_split db c k v Hwf Hc H) as [(Hk & _) | (sc0 & Ha0 & Hs)].
        * apply oc_old_outside; assumption.
        * rewrite Ha in Ha0. injection Ha0 as Ha0. subst sc0.
          apply den_set_join. right. apply sden_inv in Hs.
          destruct Hs as [(E1 & Ev) | [(id1 & d1 & Hd1 & E1 & Ev) | (id1 & d1 & f1 & Hd1 & Hf1 & E1 & Ev)]].
          -- subst k v. rewrite <- Hsz. apply (sden_meta c sc2).
          -- subst k v. apply (sden_doc c sc2 id1 d1). cbn [sc_docs sc2].
             rewrite assoc_set_other; [exact Hd1|]. intros F. subst id1. apply Ekd. reflexivity.
          -- subst k v. apply (sden_idx c sc2 id1 d1 f1); [|exact Hf1]. cbn [sc_docs sc2].
             rewrite assoc_set_other; [exact Hd1|]. intros F. subst id1.
             rewrite Hd0 in Hd1. injection Hd1 as Hd1. subst d1.
             apply (Hnk f1 Hf1). unfold ikey. rewrite Hoid. reflexivity.
    - intros H. apply den_set_split in H; [|exact Hwf|exact Hc]. destruct H as [(Hk & H) | H].
      + right. split; [intros E; subst k; apply Hk; apply kic_doc|]. right.
        split; [intros f _ E; subst k; apply Hk; apply kic_idx|].
        split; [intros f _ E; subst k; apply Hk; apply kic_idx | exact H].
      + apply sden_inv in H. rewrite Hsz in H. cbn [sc_docs sc_idx sc2] in H.
        destruct H as [(E1 & Ev) | [(id1 & d1 & Hd1 & E1 & Ev) | (id1 & d1 & f1 & Hd1 & Hf1 & E1 & Ev)]].
        * subst k v. right. split; [apply coll_key_not_doc|]. right.
          split; [intros f _; apply coll_key_not_idx|].
          split; [intros f _; apply coll_key_not_idx|]. apply den_meta. exact Ha.
        * destruct (bytes_eq_dec id1 id) as [E|Hne].
          -- subst id1. rewrite assoc_set_same in Hd1. injection Hd1 as Hd1. subst d1 k v.
             left. split; reflexivity.
          -- rewrite assoc_set_other in Hd1 by (intros F; apply Hne; symmetry; exact F).
             subst k v. right. split; [apply doc_key_ne; assumption|]. right.
             split; [intros f _; apply doc_key_not_idx; exact Hc|].
             split; [intros f _; apply doc_key_not_idx; exact Hc|].
             apply (den_doc db c sc id1 d1); assumption.
        * destruct (bytes_eq_dec id1 id) as [E|Hne].
          -- subst id1. rewrite assoc_set_same in Hd1. injection Hd1 as Hd1. subst d1 k v.
             right. split; [intros F; symmetry in F; exact (doc_key_not_idx _ _ _ _ _ _ Hc Hc F)|].
             left. exists f1. split; [exact Hf1|]. unfold ikey. rewrite Hoid'. split; reflexivity.
          -- rewrite assoc_set_other in Hd1 by (intros F; apply Hne; symmetry; exact F).
             subst k v. right.
             split; [intros F; symmetry in F; exact (doc_key_not_idx _ _ _ _ _ _ Hc Hc F)|]. right.
             assert (Hl1 : length id1 = 36%nat) by (apply (oc_id_len id1 d1 Hd1)).
             split.
             { intros f Hf. unfold ikey. rewrite Hoid'. apply idx_key_ne; try assumption.
               - apply oc_field; exact Hf1.
               - apply oc_field; exact Hf. }
             split.
             { intros f Hf. unfold ikey. rewrite Hoid. apply idx_key_ne; try assumption.
               - apply oc_field; exact Hf1.
               - apply oc_field; exact Hf. }
             apply (den_idx db c sc id1 d1 f1); assumption.
  Qed.
End OneColl.

(* ================================================================== *)
(* 5. The refinement theorems                                           *)
(* ================================================================== *)

Lemma Dm_fix : forall db c sc n, wf_db db -> assoc c db = Some sc ->
  forall k v,
    ((k = coll_key c /\ v = SMeta (Z.of_nat (length (sc_docs sc))) (sc_idx sc)) \/
     (k <> coll_key c /\ Dm c n (sc_idx sc) db k v)) <-> denotes db k v.
Proof.
  intros db c sc n Hwf Ha k v. split.
  - intros [(Ek & Ev) | (Ek & [(F & _) | (_ & H)])].
    + subst k v. apply den_meta. exact Ha.
    + contradiction (Ek F).
    + exact H.
  - intros H. destruct (bytes_eq_dec k (coll_key c)) as [E|E].
    + left. split; [exact E|]. subst k. apply (den_coll_iff db c v Hwf) in H.
      destruct H as (sc0 & Ha0 & Ev). rewrite Ha in Ha0. injection Ha0 as Ha0. subst sc0. exact Ev.
    + right. split; [exact E|]. right. split; assumption.
Qed.

Lemma Dm_of_den : forall db c sc, wf_db db -> assoc c db = Some sc ->
  forall k v, denotes db k v <-> Dm c (Z.of_nat (length (sc_docs sc))) (sc_idx sc) db k v.
Proof.
  intros db c sc Hwf Ha k v. split.
  - intros H. destruct (bytes_eq_dec k (coll_key c)) as [E|E].
    + left. split; [exact E|]. subst k. apply (den_coll_iff db c v Hwf) in H.
      destruct H as (sc0 & Ha0 & Ev). rewrite Ha in Ha0. injection Ha0 as Ha0. subst sc0. exact Ev.
    + right. split; assumption.
  - intros [(Ek & Ev) | (_ & H)]; [|exact H]. subst k v. apply den_meta. exact Ha.
Qed.

(* ---- W1: CreateCollection ---- *)
Theorem create_refines : forall db s c, wf_db db -> R db s -> no_semi c = true ->
  let out := with_tx (create_collection_tx c) None (mkDb s false) in
  match s_create c db with
  | Ok db' => o_res out = Ok tt /\ R db' (durable (o_db out)) /\ closed (o_db out) = false
  | Err e => o_res out = Err e /\ o_db out = mkDb s false
  end.
Proof.
  intros db s c Hwf HR Hc. cbv zeta. unfold s_create.
  pose proof (R_get_meta db s c HR Hwf) as Hg.
  destruct (assoc c db) as [sc|] eqn:Ha.
  - assert (Hr : runs (create_collection_tx c) s None (Err ECollExist) s None).
    { unfold create_collection_tx. eapply runs_bind; [apply runs_has_collection|].
      rewrite Hg. apply runs_fail. }
    destruct (runs_with_tx _ _ _ _ _ _ Hr) as (Er & Ed). rewrite Er, Ed. split; reflexivity.
  - set (s' := kv_set (coll_key c) (SMeta 0 []) s).
    assert (Hr : runs (create_collection_tx c) s None (Ok tt) s' (Some s')).
    { unfold create_collection_tx. eapply runs_bind; [apply runs_has_collection|].
      rewrite Hg. eapply runs_bind; [apply runs_save_meta|]. apply runs_tx_commit. }
    destruct (runs_with_tx _ _ _ _ _ _ Hr) as (Er & Ed). rewrite Er, Ed. cbn [durable closed].
    split; [reflexivity|]. split; [|reflexivity].
    rewrite <- (assoc_set_fresh c (mkSC [] []) db Ha). apply R_Rp.
    eapply Rp_equiv; [apply (create_spec db c Hwf Hc Ha)|].
    apply Rp_set. apply R_Rp. exact HR.
Qed.

(* ---- W2: Insert ---- *)
Lemma runs_insert_docs : forall c docs db sc view n cm,
  wf_db db -> assoc c db = Some sc -> docs_have_ids docs ->
  Rp (Dm c n (sc_idx sc) db) view ->
  match s_insert_docs docs (sc_docs sc) with
  | Ok ds => exists view', runs (insert_docs c (sc_idx sc) docs) view cm (Ok tt) view' cm /\
               Rp (Dm c n (sc_idx sc) (assoc_set c (mkSC ds (sc_idx sc)) db)) view'
  | Err e => exists view', runs (insert_docs c (sc_idx sc) docs) view cm (Err e) view' cm
  end.
Proof.
  intros c docs. induction docs as [|d t IH]; intros db sc view n cm Hwf Ha Hids HRp.
  - simpl. exists view. split; [apply runs_ret|].
    destruct sc as [ds idx]. cbn [sc_docs sc_idx] in *. rewrite (assoc_set_id _ c _ db Ha). exact HRp.
  - pose proof (wf_coll_name db c sc Hwf Ha) as Hc.
    set (id := object_id d).
    assert (Hcan : canonical_id id = true) by (apply Hids; left; reflexivity).
    set (view1 := add_view c (sc_idx sc) d view).
    pose proof (Rp_add_view c d (sc_idx sc) _ view HRp) as H1. fold view1 in H1.
    cbn [s_insert_docs insert_docs]. fold id.
    destruct (assoc id (sc_docs sc)) as [d0|] eqn:Hid.
    + (* duplicate *)
      exists view1. eapply runs_bind; [apply runs_add_to_indexes|]. fold view1.
      eapply runs_bind; [apply runs_tx_get|]. cbv beta.
      rewrite (Rp_get_some _ view1 (doc_key c id) (SDoc (doc_encode d0)) H1); [apply runs_fail|].
      right. split; [intros f _; apply doc_key_not_idx; exact Hc|].
      right. split; [intros F; symmetry in F; exact (coll_key_not_doc _ _ _ F)|].
      apply (den_doc db c sc id d0); assumption.
    + assert (Hnone : kv_get (doc_key c id) view1 = None).
      { apply (Rp_get_none _ view1 _ H1).
        intros v [(f & _ & E & _) | (_ & [(E & _) | (_ & H)])].
        - exact (doc_key_not_idx _ _ _ _ _ _ Hc Hc E).
        - symmetry in E. exact (coll_key_not_doc _ _ _ E).
        - apply (den_doc_iff db c id v Hwf Hc) in H. destruct H as (sc0 & d0 & Ha0 & Hd0 & _).
          rewrite Ha in Ha0. injection Ha0 as Ha0. subst sc0. rewrite Hid in Hd0. discriminate. }
      destruct (validate d) eqn:Hval.
      * set (view2 := kv_set (doc_key c id) (SDoc (doc_encode d)) view1).
        set (sc2 := mkSC (sc_docs sc ++ [(id, d)]) (sc_idx sc)).
        set (db2 := assoc_set c sc2 db).
        assert (Hwf2 : wf_db db2).
        { apply wf_assoc_set; [exact Hwf|]. unfold sc2.
          rewrite <- (assoc_set_fresh id d (sc_docs sc) Hid).
          apply coll_ok_set_doc; [apply (wf_coll db c sc Hwf Ha)|].
          split; [exact Hcan|]. split; [reflexivity | exact Hval]. }
        assert (Ha2 : assoc c db2 = Some sc2) by (apply assoc_set_same).
        assert (H2 : Rp (Dm c n (sc_idx sc2) db2) view2).
        { eapply Rp_equiv; [apply (insert_one_spec db c sc Hwf Ha d n Hcan Hid)|].
          apply Rp_set. exact H1. }
        assert (Hids' : docs_have_ids t) by (intros x Hx; apply Hids; right; exact Hx).
        specialize (IH db2 sc2 view2 n cm Hwf2 Ha2 Hids' H2).
        cbn [sc_docs sc_idx sc2] in IH.
        destruct (s_insert_docs t (sc_docs sc ++ [(id, d)])) as [ds|e].
        -- destruct IH as (view' & Hr & HRp'). exists view'. split.
           ++ eapply runs_bind; [apply runs_add_to_indexes|]. fold view1.
              eapply runs_bind; [apply runs_tx_get|]. cbv beta. rewrite Hnone.
              eapply runs_bind; [|exact Hr]. unfold save_document. rewrite Hval. apply runs_tx_set.
           ++ unfold db2 in HRp'. rewrite assoc_set_set in HRp'. exact HRp'.
        -- destruct IH as (view' & Hr). exists view'.
           eapply runs_bind; [apply runs_add_to_indexes|]. fold view1.
           eapply runs_bind; [apply runs_tx_get|]. cbv beta. rewrite Hnone.
           eapply runs_bind; [|exact Hr]. unfold save_document. rewrite Hval. apply runs_tx_set.
      * exists view1. eapply runs_bind; [apply runs_add_to_indexes|]. fold view1.
        eapply runs_bind; [apply runs_tx_get|]. cbv beta. rewrite Hnone.
        eapply runs_bind_err. unfold save_document. rewrite Hval. apply runs_fail.
Qed.

Theorem insert_refines : forall db s c docs, wf_db db -> R db s -> no_semi c = true ->
  docs_have_ids docs ->
  let out := with_tx (insert_tx c docs) None (mkDb s false) in
  match s_insert c docs db with
  | Ok db' => o_res out = Ok tt /\ R db' (durable (o_db out))
  | Err e => o_res out = Err e /\ o_db out = mkDb s false
  end.
Proof.
  intros db s c docs Hwf HR Hc Hids. cbv zeta.
  pose proof (R_get_meta db s c HR Hwf) as Hg.
  pose proof (wf_s_insert c docs db) as Hwf'.
  unfold s_insert in *. destruct (assoc c db) as [sc|] eqn:Ha.
  - assert (H0 : Rp (Dm c (Z.of_nat (length (sc_docs sc))) (sc_idx sc) db) s).
    { eapply Rp_equiv; [apply (Dm_of_den db c sc Hwf Ha)|]. apply R_Rp. exact HR. }
    pose proof (runs_insert_docs c docs db sc s _ None Hwf Ha Hids H0) as Hloop.
    pose proof (s_insert_docs_eq docs (sc_docs sc)) as Heq.
    destruct (s_insert_docs docs (sc_docs sc)) as [ds|e].
    + destruct Hloop as (view' & Hr & HRp').
      set (db' := assoc_set c (mkSC ds (sc_idx sc)) db) in *.
      specialize (Hwf' db' Hwf Hids eq_refl).
      set (s' := kv_set (coll_key c) (SMeta (Z.of_nat (length (sc_docs sc)) + Z.of_nat (length docs)) (sc_idx sc)) view').
      assert (Hrun : runs (insert_tx c docs) s None (Ok tt) s' (Some s')).
      { unfold insert_tx. eapply runs_bind; [apply (runs_get_meta_some _ _ _ _ _ Hg)|]. cbn [fst snd].
        eapply runs_bind; [exact Hr|]. eapply runs_bind; [apply runs_save_meta|]. apply runs_tx_commit. }
      destruct (runs_with_tx _ _ _ _ _ _ Hrun) as (Er & Ed). rewrite Er, Ed. cbn [durable].
      split; [reflexivity|]. apply R_Rp.
      assert (Ha' : assoc c db' = Some (mkSC ds (sc_idx sc))) by (apply assoc_set_same).
      eapply Rp_equiv; [|apply Rp_set; exact HRp'].
      intros k v. rewrite <- (Dm_fix db' c _ (Z.of_nat (length (sc_docs sc))) Hwf' Ha' k v).
      cbn [sc_docs sc_idx]. rewrite (Heq ds eq_refl), app_length, map_length, Nat2Z.inj_add.
      reflexivity.
    + destruct Hloop as (view' & Hr).
      assert (Hrun : runs (insert_tx c docs) s None (Err e) view' None).
      { unfold insert_tx. eapply runs_bind; [apply (runs_get_meta_some _ _ _ _ _ Hg)|]. cbn [fst snd].
        eapply runs_bind_err. exact Hr. }
      destruct (runs_with_tx _ _ _ _ _ _ Hrun) as (Er & Ed). rewrite Er, Ed. split; reflexivity.
  - assert (Hrun : runs (insert_tx c docs) s None (Err ECollNotExist) s None).
    { unfold insert_tx. eapply runs_bind_err.
      pose proof (runs_get_meta c s None) as Hm. rewrite Hg in Hm. exact Hm. }
    destruct (runs_with_tx _ _ _ _ _ _ Hrun) as (Er & Ed). rewrite Er, Ed. split; reflexivity.
Qed.

(* ---- W3: DeleteById ---- *)
Lemma runs_get_doc_and_del_idx : forall c idx id d0 v cm,
  kv_get (doc_key c id) v = Some (SDoc (doc_encode d0)) ->
  runs (get_doc_and_del_idx c idx id) v cm (Ok tt) (del_view c idx d0 v) cm.
Proof.
  intros c idx id d0 v cm Hg. unfold get_doc_and_del_idx. destruct idx as [|f t].
  - apply runs_ret.
  - eapply runs_bind; [apply runs_get_doc|]. rewrite Hg. cbn [decode_sval]. rewrite decode_encode.
    apply runs_del_from_indexes.
Qed.

Theorem delete_by_id_refines : forall db s c id, wf_db db -> R db s -> no_semi c = true ->
  let out := with_tx (delete_by_id_tx c id) None (mkDb s false) in
  match s_delete_by_id c id db with
  | Ok db' => o_res out = Ok tt /\ R db' (durable (o_db out))
  | Err e => o_res out = Err e /\ o_db out = mkDb s false
  end.
Proof.
  intros db s c id Hwf HR Hc. cbv zeta.
  pose proof (R_get_meta db s c HR Hwf) as Hg.
  pose proof (R_get_doc db s c id HR Hwf Hc) as Hgd.
  unfold s_delete_by_id. destruct (assoc c db) as [sc|] eqn:Ha.
  - destruct (assoc id (sc_docs sc)) as [d0|] eqn:Hd0.
    + set (n := Z.of_nat (length (sc_docs sc))) in *.
      set (s' := kv_set (coll_key c) (SMeta (n - 1) (sc_idx sc))
                   (kv_del (doc_key c id) (del_view c (sc_idx sc) d0 s))).
      assert (Hrun : runs (delete_by_id_tx c id) s None (Ok tt) s' (Some s')).
      { unfold delete_by_id_tx. eapply runs_bind; [apply (runs_get_meta_some _ _ _ _ _ Hg)|]. cbn [fst snd].
        eapply runs_bind; [apply runs_tx_get|]. cbv beta. rewrite Hgd.
        eapply runs_bind; [apply (runs_get_doc_and_del_idx c (sc_idx sc) id d0); exact Hgd|].
        eapply runs_bind; [apply runs_tx_delete|].
        eapply runs_bind; [apply runs_save_meta|]. apply runs_tx_commit. }
      destruct (runs_with_tx _ _ _ _ _ _ Hrun) as (Er & Ed). rewrite Er, Ed. cbn [durable].
      split; [reflexivity|]. apply R_Rp.
      eapply Rp_equiv; [apply (delete_spec db c sc Hwf Ha id d0 Hd0)|].
      apply Rp_set. apply Rp_del. apply Rp_del_view. apply R_Rp. exact HR.
    + assert (Hrun : runs (delete_by_id_tx c id) s None (Ok tt) s None).
      { unfold delete_by_id_tx. eapply runs_bind; [apply (runs_get_meta_some _ _ _ _ _ Hg)|]. cbn [fst snd].
        eapply runs_bind; [apply runs_tx_get|]. cbv beta. rewrite Hgd. apply runs_ret. }
      destruct (runs_with_tx _ _ _ _ _ _ Hrun) as (Er & Ed). rewrite Er, Ed. cbn [durable].
      split; [reflexivity|]. rewrite (assoc_del_absent id (sc_docs sc) Hd0).
      destruct sc as [ds idx]. cbn [sc_docs sc_idx]. rewrite (assoc_set_id _ c _ db Ha). exact HR.
  - assert (Hrun : runs (delete_by_id_tx c id) s None (Err ECollNotExist) s None).
    { unfold delete_by_id_tx. eapply runs_bind_err.
      pose proof (runs_get_meta c s None) as Hm. rewrite Hg in Hm. exact Hm. }
    destruct (runs_with_tx _ _ _ _ _ _ Hrun) as (Er & Ed). rewrite Er, Ed. split; reflexivity.
Qed.

(* ---- W4: UpdateById ---- *)
Theorem update_by_id_refines : forall db s c id u, wf_db db -> R db s -> no_semi c = true ->
  let out := with_tx (update_by_id_tx c id u) None (mkDb s false) in
  match s_update_by_id c id u db with
  | Ok db' => o_res out = Ok tt /\ R db' (durable (o_db out))
  | Err e => o_res out = Err e /\ o_db out = mkDb s false
  end.
Proof.
  intros db s c id u Hwf HR Hc. cbv zeta.
  pose proof (R_get_meta db s c HR Hwf) as Hg.
  pose proof (R_get_doc db s c id HR Hwf Hc) as Hgd.
  unfold s_update_by_id. destruct (assoc c db) as [sc|] eqn:Ha.
  - destruct (assoc id (sc_docs sc)) as [d0|] eqn:Hd0.
    + set (v1 := del_view c (sc_idx sc) d0 s).
      destruct (apply_updater u d0) as [d'|] eqn:Hu.
      * destruct (negb (beqb (object_id d') id)) eqn:Hidb.
        -- assert (Hrun : runs (update_by_id_tx c id u) s None (Err EOther) v1 None).
           { unfold update_by_id_tx.
             eapply runs_bind; [apply (runs_get_meta_some _ _ _ _ _ Hg)|]. cbn [fst snd].
             eapply runs_bind; [apply runs_tx_get|]. cbv beta. rewrite Hgd. cbv zeta.
             cbn [decode_sval]. rewrite decode_encode.
             eapply runs_bind; [apply runs_del_from_indexes|]. rewrite Hu, Hidb. apply runs_fail. }
           destruct (runs_with_tx _ _ _ _ _ _ Hrun) as (Er & Ed). rewrite Er, Ed. split; reflexivity.
        -- pose proof (beqb_neg_false _ _ Hidb) as Hoid'.
           set (v2 := add_view c (sc_idx sc) d' v1).
           destruct (validate d') eqn:Hval.
           ++ set (s' := kv_set (doc_key c id) (SDoc (doc_encode d')) v2).
              assert (Hrun : runs (update_by_id_tx c id u) s None (Ok tt) s' (Some s')).
              { unfold update_by_id_tx.
                eapply runs_bind; [apply (runs_get_meta_some _ _ _ _ _ Hg)|]. cbn [fst snd].
                eapply runs_bind; [apply runs_tx_get|]. cbv beta. rewrite Hgd. cbv zeta.
                cbn [decode_sval]. rewrite decode_encode.
                eapply runs_bind; [apply runs_del_from_indexes|]. rewrite Hu, Hidb.
                eapply runs_bind; [apply runs_add_to_indexes|].
                eapply runs_bind; [unfold save_document; rewrite Hval; apply runs_tx_set|].
                apply runs_tx_commit. }
              destruct (runs_with_tx _ _ _ _ _ _ Hrun) as (Er & Ed). rewrite Er, Ed. cbn [durable].
              split; [reflexivity|]. apply R_Rp.
              eapply Rp_equiv; [apply (update_spec db c sc Hwf Ha id d0 d' Hd0 Hoid')|].
              apply Rp_set. apply Rp_add_view. apply Rp_del_view. apply R_Rp. exact HR.
           ++ assert (Hrun : runs (update_by_id_tx c id u) s None (Err EOther) v2 None).
              { unfold update_by_id_tx.
                eapply runs_bind; [apply (runs_get_meta_some _ _ _ _ _ Hg)|]. cbn [fst snd].
                eapply runs_bind; [apply runs_tx_get|]. cbv beta. rewrite Hgd. cbv zeta.
                cbn [decode_sval]. rewrite decode_encode.
                eapply runs_bind; [apply runs_del_from_indexes|]. rewrite Hu, Hidb.
                eapply runs_bind; [apply runs_add_to_indexes|].
                eapply runs_bind_err. unfold save_document. rewrite Hval. apply runs_fail. }
              destruct (runs_with_tx _ _ _ _ _ _ Hrun) as (Er & Ed). rewrite Er, Ed.
              split; reflexivity.
      * assert (Hrun : runs (update_by_id_tx c id u) s None (Err EOther) v1 None).
        { unfold update_by_id_tx.
          eapply runs_bind; [apply (runs_get_meta_some _ _ _ _ _ Hg)|]. cbn [fst snd].
          eapply runs_bind; [apply runs_tx_get|]. cbv beta. rewrite Hgd. cbv zeta.
          cbn [decode_sval]. rewrite decode_encode.
          eapply runs_bind; [apply runs_del_from_indexes|]. rewrite Hu. apply runs_fail. }
        destruct (runs_with_tx _ _ _ _ _ _ Hrun) as (Er & Ed). rewrite Er, Ed. split; reflexivity.
    + assert (Hrun : runs (update_by_id_tx c id u) s None (Err EDocNotExist) s None).
      { unfold update_by_id_tx. eapply runs_bind; [apply (runs_get_meta_some _ _ _ _ _ Hg)|]. cbn [fst snd].
        eapply runs_bind; [apply runs_tx_get|]. cbv beta. rewrite Hgd. apply runs_fail. }
      destruct (runs_with_tx _ _ _ _ _ _ Hrun) as (Er & Ed). rewrite Er, Ed. split; reflexivity.
  - assert (Hrun : runs (update_by_id_tx c id u) s None (Err ECollNotExist) s None).
    { unfold update_by_id_tx. eapply runs_bind_err.
      pose proof (runs_get_meta c s None) as Hm. rewrite Hg in Hm. exact Hm. }
    destruct (runs_with_tx _ _ _ _ _ _ Hrun) as (Er & Ed). rewrite Er, Ed. split; reflexivity.
Qed.

(* ---- W5: the read bodies return the abstract answers and leave the store alone ---- *)
Theorem find_by_id_refines : forall db s c id, wf_db db -> R db s -> no_semi c = true ->
  o_res (with_tx (find_by_id_tx c id) None (mkDb s false)) =
    match assoc c db with
    | None => Err ECollNotExist
    | Some sc => Ok (assoc id (sc_docs sc))
    end /\
  o_db (with_tx (find_by_id_tx c id) None (mkDb s false)) = mkDb s false.
Proof.
  intros db s c id Hwf HR Hc.
  pose proof (R_get_meta db s c HR Hwf) as Hg.
  pose proof (R_get_doc db s c id HR Hwf Hc) as Hgd.
  destruct (assoc c db) as [sc|] eqn:Ha.
  - assert (Hrun : runs (find_by_id_tx c id) s None (Ok (assoc id (sc_docs sc))) s None).
    { unfold find_by_id_tx. eapply runs_bind; [apply runs_has_collection|]. rewrite Hg.
      pose proof (runs_get_doc c id s None) as Hd. rewrite Hgd in Hd.
      destruct (assoc id (sc_docs sc)) as [d|]; [|exact Hd].
      cbn [decode_sval] in Hd. rewrite decode_encode in Hd. exact Hd. }
    destruct (runs_with_tx _ _ _ _ _ _ Hrun) as (Er & Ed). rewrite Er, Ed. split; reflexivity.
  - assert (Hrun : runs (find_by_id_tx c id) s None (Err ECollNotExist) s None).
    { unfold find_by_id_tx. eapply runs_bind; [apply runs_has_collection|]. rewrite Hg.
      apply runs_fail. }
    destruct (runs_with_tx _ _ _ _ _ _ Hrun) as (Er & Ed). rewrite Er, Ed. split; reflexivity.
Qed.

Theorem has_collection_refines : forall db s c, wf_db db -> R db s ->
  o_res (with_tx (has_collection c) None (mkDb s false)) =
    Ok (match assoc c db with Some _ => true | None => false end) /\
  o_db (with_tx (has_collection c) None (mkDb s false)) = mkDb s false.
Proof.
  intros db s c Hwf HR.
  pose proof (R_get_meta db s c HR Hwf) as Hg.
  pose proof (runs_has_collection c s None) as Hrun. rewrite Hg in Hrun.
  destruct (runs_with_tx _ _ _ _ _ _ Hrun) as (Er & Ed). rewrite Er, Ed.
  split; [|reflexivity]. destruct (assoc c db); reflexivity.
Qed.

(* HasCollection answers true exactly for the collections of the abstract database *)
Corollary has_collection_true_iff : forall db s c, wf_db db -> R db s ->
  (o_res (with_tx (has_collection c) None (mkDb s false)) = Ok true <-> assoc c db <> None).
Proof.
  intros db s c Hwf HR. rewrite (proj1 (has_collection_refines db s c Hwf HR)).
  destruct (assoc c db); split; intros H; try reflexivity; try discriminate.
  contradiction H. reflexivity.
Qed.

Lemma meta_read_refines : forall A (g : Z * list bytes -> A) db s c, wf_db db -> R db s ->
  o_res (with_tx (m <- get_meta c ;; ret (g m)) None (mkDb s false)) =
    match assoc c db with
    | None => Err ECollNotExist
    | Some sc => Ok (g (Z.of_nat (length (sc_docs sc)), sc_idx sc))
    end /\
  o_db (with_tx (m <- get_meta c ;; ret (g m)) None (mkDb s false)) = mkDb s false.
Proof.
  intros A g db s c Hwf HR.
  pose proof (R_get_meta db s c HR Hwf) as Hg.
  destruct (assoc c db) as [sc|] eqn:Ha.
  - assert (Hrun : runs (m <- get_meta c ;; ret (g m)) s None
                        (Ok (g (Z.of_nat (length (sc_docs sc)), sc_idx sc))) s None).
    { eapply runs_bind; [apply (runs_get_meta_some _ _ _ _ _ Hg)|]. apply runs_ret. }
    destruct (runs_with_tx _ _ _ _ _ _ Hrun) as (Er & Ed). rewrite Er, Ed. split; reflexivity.
  - assert (Hrun : runs (m <- get_meta c ;; ret (g m)) s None (Err ECollNotExist) s None).
    { eapply runs_bind_err. pose proof (runs_get_meta c s None) as Hm. rewrite Hg in Hm. exact Hm. }
    destruct (runs_with_tx _ _ _ _ _ _ Hrun) as (Er & Ed). rewrite Er, Ed. split; reflexivity.
Qed.

Theorem has_index_refines : forall db s c f, wf_db db -> R db s ->
  o_res (with_tx (has_index_tx c f) None (mkDb s false)) =
    match assoc c db with
    | None => Err ECollNotExist
    | Some sc => Ok (has_field f (sc_idx sc))
    end /\
  o_db (with_tx (has_index_tx c f) None (mkDb s false)) = mkDb s false.
Proof.
  intros db s c f Hwf HR.
  exact (meta_read_refines bool (fun m => has_field f (snd m)) db s c Hwf HR).
Qed.

Theorem list_indexes_refines : forall db s c, wf_db db -> R db s ->
  o_res (with_tx (list_indexes_tx c) None (mkDb s false)) =
    match assoc c db with
    | None => Err ECollNotExist
    | Some sc => Ok (sc_idx sc)
    end /\
  o_db (with_tx (list_indexes_tx c) None (mkDb s false)) = mkDb s false.
Proof.
  intros db s c Hwf HR.
  exact (meta_read_refines (list bytes) (fun m => snd m) db s c Hwf HR).
Qed.

Theorem collection_size_refines : forall db s c, wf_db db -> R db s ->
  o_res (with_tx (collection_size_tx c) None (mkDb s false)) =
    match assoc c db with
    | None => Err ECollNotExist
    | Some sc => Ok (Z.of_nat (length (sc_docs sc)))
    end /\
  o_db (with_tx (collection_size_tx c) None (mkDb s false)) = mkDb s false.
Proof.
  intros db s c Hwf HR.
  exact (meta_read_refines Z (fun m => fst m) db s c Hwf HR).
Qed.

(* ---- W6: the four write operations preserve refinement and well-formedness ---- *)
Theorem point_ops_preserve_refinement :
  (forall db s c, wf_db db -> R db s -> no_semi c = true ->
     let out := with_tx (create_collection_tx c) None (mkDb s false) in
     match s_create c db with
     | Ok db' => o_res out = Ok tt /\ R db' (durable (o_db out)) /\ closed (o_db out) = false /\ wf_db db'
     | Err e => o_res out = Err e /\ o_db out = mkDb s false
     end) /\
  (forall db s c docs, wf_db db -> R db s -> no_semi c = true -> docs_have_ids docs ->
     let out := with_tx (insert_tx c docs) None (mkDb s false) in
     match s_insert c docs db with
     | Ok db' => o_res out = Ok tt /\ R db' (durable (o_db out)) /\ wf_db db'
     | Err e => o_res out = Err e /\ o_db out = mkDb s false
     end) /\
  (forall db s c id, wf_db db -> R db s -> no_semi c = true ->
     let out := with_tx (delete_by_id_tx c id) None (mkDb s false) in
     match s_delete_by_id c id db with
     | Ok db' => o_res out = Ok tt /\ R db' (durable (o_db out)) /\ wf_db db'
     | Err e => o_res out = Err e /\ o_db out = mkDb s false
     end) /\
  (forall db s c id u, wf_db db -> R db s -> no_semi c = true ->
     let out := with_tx (update_by_id_tx c id u) None (mkDb s false) in
     match s_update_by_id c id u db with
     | Ok db' => o_res out = Ok tt /\ R db' (durable (o_db out)) /\ wf_db db'
     | Err e => o_res out = Err e /\ o_db out = mkDb s false
     end).
Proof.
  split; [|split; [|split]].
  - intros db s c Hwf HR Hc. pose proof (create_refines db s c Hwf HR Hc) as H. cbv zeta in *.
    pose proof (wf_s_create c db) as Hw. destruct (s_create c db) as [db'|e]; [|exact H].
    destruct H as (H1 & H2 & H3). split; [exact H1|]. split; [exact H2|]. split; [exact H3|].
    apply (Hw db' Hwf Hc eq_refl).
  - intros db s c docs Hwf HR Hc Hids.
    pose proof (insert_refines db s c docs Hwf HR Hc Hids) as H. cbv zeta in *.
    pose proof (wf_s_insert c docs db) as Hw. destruct (s_insert c docs db) as [db'|e]; [|exact H].
    destruct H as (H1 & H2). split; [exact H1|]. split; [exact H2|]. apply (Hw db' Hwf Hids eq_refl).
  - intros db s c id Hwf HR Hc. pose proof (delete_by_id_refines db s c id Hwf HR Hc) as H.
    cbv zeta in *. pose proof (wf_s_delete_by_id c id db) as Hw.
    destruct (s_delete_by_id c id db) as [db'|e]; [|exact H].
    destruct H as (H1 & H2). split; [exact H1|]. split; [exact H2|]. apply (Hw db' Hwf eq_refl).
  - intros db s c id u Hwf HR Hc. pose proof (update_by_id_refines db s c id u Hwf HR Hc) as H.
    cbv zeta in *. pose proof (wf_s_update_by_id c id u db) as Hw.
    destruct (s_update_by_id c id u db) as [db'|e]; [|exact H].
    destruct H as (H1 & H2). split; [exact H1|]. split; [exact H2|]. apply (Hw db' Hwf eq_refl).
Qed.

(* ================================================================== *)
(* 6. Non-vacuity: the theorems instantiated on concrete data           *)
(* ================================================================== *)

(* from the empty store: create "t", insert two documents, delete one, update the other *)
Definition wx_db1 : sdb := [(ex_c, mkSC [] [])].
Definition wx_s1 : kv := [(coll_key ex_c, SMeta 0 [])].

Definition wx_db2 : sdb := [(ex_c, mkSC [(ex_id1, ex_d1); (ex_id2, ex_d2)] [])].
Definition wx_s2 : kv :=
  [ (doc_key ex_c ex_id1, SDoc (doc_encode ex_d1));
    (doc_key ex_c ex_id2, SDoc (doc_encode ex_d2));
    (coll_key ex_c, SMeta 2 []) ].

Definition wx_db3 : sdb := [(ex_c, mkSC [(ex_id2, ex_d2)] [])].
Definition wx_s3 : kv :=
  [ (doc_key ex_c ex_id2, SDoc (doc_encode ex_d2));
    (coll_key ex_c, SMeta 1 []) ].

Definition wx_d2' : obj := doc_set ex_f (VInt 7) ex_d2.
Definition wx_db4 : sdb := [(ex_c, mkSC [(ex_id2, wx_d2')] [])].
Definition wx_s4 : kv :=
  [ (doc_key ex_c ex_id2, SDoc (doc_encode wx_d2'));
    (coll_key ex_c, SMeta 1 []) ].

Lemma wx_ids12 : docs_have_ids [ex_d1; ex_d2].
Proof. intros d [E|[E|[]]]; subst d; vm_compute; reflexivity. Qed.

Example wx_create :
  let out := with_tx (create_collection_tx ex_c) None (mkDb [] false) in
  s_create ex_c [] = Ok wx_db1 /\
  o_res out = Ok tt /\ o_db out = mkDb wx_s1 false /\ length wx_s1 = 1%nat /\
  R wx_db1 wx_s1 /\ wf_db wx_db1.
Proof.
  cbv zeta.
  assert (E1 : s_create ex_c [] = Ok wx_db1) by (vm_compute; reflexivity).
  assert (E2 : o_db (with_tx (create_collection_tx ex_c) None (mkDb [] false)) = mkDb wx_s1 false)
    by (vm_compute; reflexivity).
  pose proof (proj1 point_ops_preserve_refinement [] [] ex_c wf_empty R_empty eq_refl) as H.
  cbv zeta in H. rewrite E1, E2 in H. destruct H as (H1 & H2 & _ & H3).
  split; [exact E1|]. split; [exact H1|]. split; [exact E2|]. split; [reflexivity|].
  split; [exact H2 | exact H3].
Qed.

Example wx_insert :
  let out := with_tx (insert_tx ex_c [ex_d1; ex_d2]) None (mkDb wx_s1 false) in
  s_insert ex_c [ex_d1; ex_d2] wx_db1 = Ok wx_db2 /\
  o_res out = Ok tt /\ o_db out = mkDb wx_s2 false /\ length wx_s2 = 3%nat /\
  R wx_db2 wx_s2 /\ wf_db wx_db2.
Proof.
  cbv zeta. destruct wx_create as (_ & _ & _ & _ & HR1 & Hwf1).
  assert (E1 : s_insert ex_c [ex_d1; ex_d2] wx_db1 = Ok wx_db2) by (vm_compute; reflexivity).
  assert (E2 : o_db (with_tx (insert_tx ex_c [ex_d1; ex_d2]) None (mkDb wx_s1 false)) = mkDb wx_s2 false)
    by (vm_compute; reflexivity).
  pose proof (proj1 (proj2 point_ops_preserve_refinement) wx_db1 wx_s1 ex_c [ex_d1; ex_d2]
                Hwf1 HR1 eq_refl wx_ids12) as H.
  cbv zeta in H. rewrite E1, E2 in H. destruct H as (H1 & H2 & H3).
  split; [exact E1|]. split; [exact H1|]. split; [exact E2|]. split; [reflexivity|].
  split; [exact H2 | exact H3].
Qed.

Example wx_delete :
  let out := with_tx (delete_by_id_tx ex_c ex_id1) None (mkDb wx_s2 false) in
  s_delete_by_id ex_c ex_id1 wx_db2 = Ok wx_db3 /\
  o_res out = Ok tt /\ o_db out = mkDb wx_s3 false /\ length wx_s3 = 2%nat /\
  R wx_db3 wx_s3 /\ wf_db wx_db3.
Proof.
  cbv zeta. destruct wx_insert as (_ & _ & _ & _ & HR2 & Hwf2).
  assert (E1 : s_delete_by_id ex_c ex_id1 wx_db2 = Ok wx_db3) by (vm_compute; reflexivity).
  assert (E2 : o_db (with_tx (delete_by_id_tx ex_c ex_id1) None (mkDb wx_s2 false)) = mkDb wx_s3 false)
    by (vm_compute; reflexivity).
  pose proof (proj1 (proj2 (proj2 point_ops_preserve_refinement)) wx_db2 wx_s2 ex_c ex_id1
                Hwf2 HR2 eq_refl) as H.
  cbv zeta in H. rewrite E1, E2 in H. destruct H as (H1 & H2 & H3).
  split; [exact E1|]. split; [exact H1|]. split; [exact E2|]. split; [reflexivity|].
  split; [exact H2 | exact H3].
Qed.

Example wx_update :
  let out := with_tx (update_by_id_tx ex_c ex_id2 (UFunSet ex_f (VInt 7))) None (mkDb wx_s3 false) in
  s_update_by_id ex_c ex_id2 (UFunSet ex_f (VInt 7)) wx_db3 = Ok wx_db4 /\
  o_res out = Ok tt /\ o_db out = mkDb wx_s4 false /\ length wx_s4 = 2%nat /\
  R wx_db4 wx_s4 /\ wf_db wx_db4.
Proof.
  cbv zeta. destruct wx_delete as (_ & _ & _ & _ & HR3 & Hwf3).
  assert (E1 : s_update_by_id ex_c ex_id2 (UFunSet ex_f (VInt 7)) wx_db3 = Ok wx_db4)
    by (vm_compute; reflexivity).
  assert (E2 : o_db (with_tx (update_by_id_tx ex_c ex_id2 (UFunSet ex_f (VInt 7))) None
                       (mkDb wx_s3 false)) = mkDb wx_s4 false) by (vm_compute; reflexivity).
  pose proof (proj2 (proj2 (proj2 point_ops_preserve_refinement)) wx_db3 wx_s3 ex_c ex_id2
                (UFunSet ex_f (VInt 7)) Hwf3 HR3 eq_refl) as H.
  cbv zeta in H. rewrite E1, E2 in H. destruct H as (H1 & H2 & H3).
  split; [exact E1|]. split; [exact H1|]. split; [exact E2|]. split; [reflexivity|].
  split; [exact H2 | exact H3].
Qed.

(* with an index on field "a": RProofs' two-document store ex_s (5 entries) *)
Definition wx_id3 : bytes := ex_uuid 98%N.     (* "bbbbbbbb-bbbb-bbbb-bbbb-bbbbbbbbbbbb" *)
Definition wx_d3 : obj := [(id_field, VStr wx_id3); (ex_f, VInt 1)].

Lemma wx_ids3 : docs_have_ids [wx_d3].
Proof. intros d [E|[]]; subst d; vm_compute; reflexivity. Qed.

Definition wx_db5 : sdb := [(ex_c, mkSC [(ex_id1, ex_d1); (ex_id2, ex_d2); (wx_id3, wx_d3)] [ex_f])].
Definition wx_s5 : kv :=
  [ (doc_key ex_c ex_id1, SDoc (doc_encode ex_d1));
    (doc_key ex_c ex_id2, SDoc (doc_encode ex_d2));
    (doc_key ex_c wx_id3, SDoc (doc_encode wx_d3));
    (idx_key ex_c ex_f (VInt 1) wx_id3, SEmpty);
    (idx_key ex_c ex_f (VInt 5) ex_id1, SEmpty);
    (idx_key ex_c ex_f (VStr [120%N]) ex_id2, SEmpty);
    (coll_key ex_c, SMeta 3 [ex_f]) ].

Example wx_insert_indexed :
  let out := with_tx (insert_tx ex_c [wx_d3]) None (mkDb ex_s false) in
  s_insert ex_c [wx_d3] ex_db = Ok wx_db5 /\
  o_res out = Ok tt /\ o_db out = mkDb wx_s5 false /\ length wx_s5 = 7%nat /\
  R wx_db5 wx_s5 /\ wf_db wx_db5.
Proof.
  cbv zeta.
  assert (E1 : s_insert ex_c [wx_d3] ex_db = Ok wx_db5) by (vm_compute; reflexivity).
  assert (E2 : o_db (with_tx (insert_tx ex_c [wx_d3]) None (mkDb ex_s false)) = mkDb wx_s5 false)
    by (vm_compute; reflexivity).
  pose proof (proj1 (proj2 point_ops_preserve_refinement) ex_db ex_s ex_c [wx_d3]
                ex_wf ex_R eq_refl wx_ids3) as H.
  cbv zeta in H. rewrite E1, E2 in H. destruct H as (H1 & H2 & H3).
  split; [exact E1|]. split; [exact H1|]. split; [exact E2|]. split; [reflexivity|].
  split; [exact H2 | exact H3].
Qed.

(* a duplicate later in the batch: ErrDuplicateKey and nothing is stored *)
Example wx_insert_dup :
  let out := with_tx (insert_tx ex_c [wx_d3; ex_d1]) None (mkDb ex_s false) in
  s_insert ex_c [wx_d3; ex_d1] ex_db = Err EDupKey /\
  o_res out = Err EDupKey /\ o_db out = mkDb ex_s false.
Proof.
  cbv zeta.
  assert (E1 : s_insert ex_c [wx_d3; ex_d1] ex_db = Err EDupKey) by (vm_compute; reflexivity).
  assert (Hids : docs_have_ids [wx_d3; ex_d1]).
  { intros d [E|[E|[]]]; subst d; vm_compute; reflexivity. }
  pose proof (insert_refines ex_db ex_s ex_c [wx_d3; ex_d1] ex_wf ex_R eq_refl Hids) as H.
  cbv zeta in H. rewrite E1 in H. split; [exact E1 | exact H].
Qed.

Definition wx_db6 : sdb := [(ex_c, mkSC [(ex_id2, ex_d2)] [ex_f])].
Definition wx_s6 : kv :=
  [ (doc_key ex_c ex_id2, SDoc (doc_encode ex_d2));
    (idx_key ex_c ex_f (VStr [120%N]) ex_id2, SEmpty);
    (coll_key ex_c, SMeta 1 [ex_f]) ].

Example wx_delete_indexed :
  let out := with_tx (delete_by_id_tx ex_c ex_id1) None (mkDb ex_s false) in
  s_delete_by_id ex_c ex_id1 ex_db = Ok wx_db6 /\
  o_res out = Ok tt /\ o_db out = mkDb wx_s6 false /\ length wx_s6 = 3%nat /\
  R wx_db6 wx_s6 /\ wf_db wx_db6.
Proof.
  cbv zeta.
  assert (E1 : s_delete_by_id ex_c ex_id1 ex_db = Ok wx_db6) by (vm_compute; reflexivity).
  assert (E2 : o_db (with_tx (delete_by_id_tx ex_c ex_id1) None (mkDb ex_s false)) = mkDb wx_s6 false)
    by (vm_compute; reflexivity).
  pose proof (proj1 (proj2 (proj2 point_ops_preserve_refinement)) ex_db ex_s ex_c ex_id1
                ex_wf ex_R eq_refl) as H.
  cbv zeta in H. rewrite E1, E2 in H. destruct H as (H1 & H2 & H3).
  split; [exact E1|]. split; [exact H1|]. split; [exact E2|]. split; [reflexivity|].
  split; [exact H2 | exact H3].
Qed.

(* deleting an absent (even malformed) id succeeds and changes nothing *)
Example wx_delete_absent :
  let out := with_tx (delete_by_id_tx ex_c [1%N; 59%N]) None (mkDb ex_s false) in
  o_res out = Ok tt /\ o_db out = mkDb ex_s false /\
  s_delete_by_id ex_c [1%N; 59%N] ex_db = Ok ex_db.
Proof. vm_compute. repeat split; reflexivity. Qed.

Definition wx_d2'' : obj := doc_set ex_f (VInt 9) ex_d2.
Definition wx_db7 : sdb := [(ex_c, mkSC [(ex_id1, ex_d1); (ex_id2, wx_d2'')] [ex_f])].
Definition wx_s7 : kv :=
  [ (doc_key ex_c ex_id1, SDoc (doc_encode ex_d1));
    (doc_key ex_c ex_id2, SDoc (doc_encode wx_d2''));
    (idx_key ex_c ex_f (VInt 5) ex_id1, SEmpty);
    (idx_key ex_c ex_f (VInt 9) ex_id2, SEmpty);
    (coll_key ex_c, SMeta 2 [ex_f]) ].

Example wx_update_indexed :
  let out := with_tx (update_by_id_tx ex_c ex_id2 (UFunSet ex_f (VInt 9))) None (mkDb ex_s false) in
  s_update_by_id ex_c ex_id2 (UFunSet ex_f (VInt 9)) ex_db = Ok wx_db7 /\
  o_res out = Ok tt /\ o_db out = mkDb wx_s7 false /\ length wx_s7 = 5%nat /\
  R wx_db7 wx_s7 /\ wf_db wx_db7.
Proof.
  cbv zeta.
  assert (E1 : s_update_by_id ex_c ex_id2 (UFunSet ex_f (VInt 9)) ex_db = Ok wx_db7)
    by (vm_compute; reflexivity).
  assert (E2 : o_db (with_tx (update_by_id_tx ex_c ex_id2 (UFunSet ex_f (VInt 9))) None
                       (mkDb ex_s false)) = mkDb wx_s7 false) by (vm_compute; reflexivity).
  pose proof (proj2 (proj2 (proj2 point_ops_preserve_refinement)) ex_db ex_s ex_c ex_id2
                (UFunSet ex_f (VInt 9)) ex_wf ex_R eq_refl) as H.
  cbv zeta in H. rewrite E1, E2 in H. destruct H as (H1 & H2 & H3).
  split; [exact E1|]. split; [exact H1|]. split; [exact E2|]. split; [reflexivity|].
  split; [exact H2 | exact H3].
Qed.

(* an updater that changes _id, and one that returns nil: errors, store unchanged *)
Example wx_update_errors :
  let o1 := with_tx (update_by_id_tx ex_c ex_id2 (UFunSet id_field (VStr wx_id3))) None (mkDb ex_s false) in
  let o2 := with_tx (update_by_id_tx ex_c ex_id2 UFunNil) None (mkDb ex_s false) in
  let o3 := with_tx (update_by_id_tx ex_c wx_id3 UFunId) None (mkDb ex_s false) in
  o_res o1 = Err EOther /\ o_db o1 = mkDb ex_s false /\
  s_update_by_id ex_c ex_id2 (UFunSet id_field (VStr wx_id3)) ex_db = Err EOther /\
  o_res o2 = Err EOther /\ o_db o2 = mkDb ex_s false /\
  s_update_by_id ex_c ex_id2 UFunNil ex_db = Err EOther /\
  o_res o3 = Err EDocNotExist /\ o_db o3 = mkDb ex_s false /\
  s_update_by_id ex_c wx_id3 UFunId ex_db = Err EDocNotExist.
Proof. vm_compute. repeat split; reflexivity. Qed.

Example wx_reads :
  o_res (with_tx (find_by_id_tx ex_c ex_id2) None (mkDb ex_s false)) = Ok (Some ex_d2) /\
  o_res (with_tx (find_by_id_tx ex_c wx_id3) None (mkDb ex_s false)) = Ok None /\
  o_res (with_tx (find_by_id_tx ex_f ex_id2) None (mkDb ex_s false)) = Err ECollNotExist /\
  o_res (with_tx (has_collection ex_c) None (mkDb ex_s false)) = Ok true /\
  o_res (with_tx (has_index_tx ex_c ex_f) None (mkDb ex_s false)) = Ok true /\
  o_res (with_tx (list_indexes_tx ex_c) None (mkDb ex_s false)) = Ok [ex_f] /\
  o_res (with_tx (collection_size_tx ex_c) None (mkDb ex_s false)) = Ok 2.
Proof.
  pose proof (find_by_id_refines ex_db ex_s ex_c ex_id2 ex_wf ex_R eq_refl) as (H1 & _).
  pose proof (find_by_id_refines ex_db ex_s ex_c wx_id3 ex_wf ex_R eq_refl) as (H2 & _).
  pose proof (find_by_id_refines ex_db ex_s ex_f ex_id2 ex_wf ex_R eq_refl) as (H3 & _).
  pose proof (has_collection_refines ex_db ex_s ex_c ex_wf ex_R) as (H4 & _).
  pose proof (has_index_refines ex_db ex_s ex_c ex_f ex_wf ex_R) as (H5 & _).
  pose proof (list_indexes_refines ex_db ex_s ex_c ex_wf ex_R) as (H6 & _).
  pose proof (collection_size_refines ex_db ex_s ex_c ex_wf ex_R) as (H7 & _).
  rewrite H1, H2, H3, H4, H5, H6, H7. vm_compute. repeat split; reflexivity.
Qed.

Print Assumptions create_refines.
Print Assumptions insert_refines.
Print Assumptions delete_by_id_refines.
Print Assumptions update_by_id_refines.
Print Assumptions find_by_id_refines.
Print Assumptions has_collection_refines.
Print Assumptions has_index_refines.
Print Assumptions list_indexes_refines.
Print Assumptions collection_size_refines.
Print Assumptions point_ops_preserve_refinement.

(* The capstone refinement theorem in its textbook form.

   PART 1 defines a small abstract specification S of the public API: an abstract state (the abstract
   database of Spec/SpecDB.v plus the handle's closed flag), the semantics [a_step] of ONE call as a
   relation "from abstract state a, the call o may answer t and lead to a'", and its closure [a_run] over
   histories.  S speaks of the abstract database only.

   PART 2 proves that EVERY history of the public API in the domain (Spec/CompositeSpec.v: hist_dom_all),
   as a client observes it -- the rendered answer of every call -- is a run of S, and that the final store
   refines the final abstract state (history_refines_spec).  The proof assembles the per-operation theorems
   of IndexIndepProofs.v (writes, catalog, point reads), OpQueryProofs.v (query reads), WriteProofs.v
   (index catalog reads), CompositeProofs.v (Export, Import, CreateCollectionByQuery) and OpProofs.v (the
   closed handle).

   PART 3: S is deterministic where it should be, reads keep the state, and a concrete history.
   PART 4: what a client can conclude from S alone. *)
From Coq Require Import Lia ZArith Bool List Permutation Sorted.
Import ListNotations.
From Clover Require Import CompositeSpec HistDom HistoryProofs RProofs WriteProofs BulkProofs QueryProofs
  OpProofs OpQueryProofs TxProofs IndexIndepProofs CompositeProofs ScanProofs SortProofs.
Open Scope Z_scope.

(* ========================================================================================== *)
(* PART 1 : THE SPECIFICATION S (definitions only)                                            *)
(* ========================================================================================== *)

(* ---- abstract states ---- *)
(* [a_db] : the abstract database (SpecDB.v): collection name |-> (documents by id, indexed fields)
   [a_closed] : has the handle been closed *)
Record astate : Type := mkA { a_db : sdb; a_closed : bool }.

Definition a_init : astate := mkA [] false.

(* ---- the query reads ----
   [onq] is the normalised query (None: a literal of the criteria does not normalise); [render] turns the
   result sequence into the answer.  The result sequence is ANY sequence acceptable to [find_ok']
   (QueryProofs.v): the matching documents of the collection, each once, sorted by the sort options when
   there are any (an absent field ties with nil), then cut to the skip/limit window. *)
Definition read_spec (onq : option nquery) (render : nquery -> list obj -> T) (db : sdb) (t : T) : Prop :=
  match onq with
  | None => t = T_err EOther
  | Some nq =>
      match assoc (nq_coll nq) db with
      | None => t = T_err ECollNotExist
      | Some sc => exists res, find_ok' (map snd (sc_docs sc)) nq res /\ t = T_ok (render nq res)
      end
  end.

(* Exists and FindFirst are FindAll of the caller's query with Limit(1) applied last (exactly the query
   [exec_op] builds); its normal form is [with_limit nq 1] (lemma [normalize_limit1] below) *)
Definition limit1 (q : qspec) : query := q_apply (mk_query q) (QLimit 1).

(* ---- one call on an OPEN handle, Close and Reopen excepted: [open_spec o db t db'] ----
   "on the abstract database db the call o may answer t and leave db'".
   Recalled from IndexIndepProofs.v:
     fun_spec r db t db'  :=  match r with Ok d  => t = T_ok (TL []) /\ db' = d
                                          | Err e => t = T_err e     /\ db' = db end
     bulk_q_spec q u db t db' := normalisation failure: t = T_err EOther /\ db' = db;
        missing collection: t = T_err ECollNotExist /\ db' = db;  otherwise there is a selection sel with
        find_ok' docs nq sel (its members stored, with distinct ids) and the outcome is that of
        [s_apply_sel u sel] (SpecDB.v): all selected documents rewritten/removed and ok, or an error and
        db' = db. *)
Definition open_spec (o : op) (db : sdb) (t : T) (db' : sdb) : Prop :=
  match o with
  (* -- the deterministic writes and the catalog writes: the functions of SpecDB.v -- *)
  | OCreateCollection c => fun_spec (s_create c db) db t db'
  | ODropCollection c => fun_spec (s_drop c db) db t db'
  | OInsert c docs fresh => fun_spec (s_insert c (assign_ids docs fresh) db) db t db'
  | OSave c d fresh =>
      if needs_id d then fun_spec (s_insert c (assign_ids [d] [fresh]) db) db t db'
      else fun_spec (s_update_by_id c (object_id d) (UFunConst d) db) db t db'
  | ODeleteById c id => fun_spec (s_delete_by_id c id db) db t db'
  | OUpdateById c id u => fun_spec (s_update_by_id c id u db) db t db'
  | OReplaceById c id d =>
      if negb (beqb (object_id d) id) then t = T_err EOther /\ db' = db
      else fun_spec (s_update_by_id c id (UFunConst d) db) db t db'
  | OCreateIndex c f => fun_spec (s_create_index c f db) db t db'
  | ODropIndex c f => fun_spec (s_drop_index c f db) db t db'
  (* -- the bulk writes: a relation (which documents a windowed query selects is not determined) -- *)
  | OUpdate q kvs => bulk_q_spec q (USetAll kvs) db t db'
  | OUpdateFunc q u => bulk_q_spec q u db t db'
  | ODelete q => bulk_q_spec q UFunNil db t db'
  (* -- catalog reads and point reads -- *)
  | OHasCollection c =>
      t = T_ok (Tbool (match assoc c db with Some _ => true | None => false end)) /\ db' = db
  | OListCollections => t = T_ok (TL (map TB (msort bleb (map fst db)))) /\ db' = db
  | OFindById c id =>
      t = match assoc c db with
          | None => T_err ECollNotExist
          | Some sc => T_ok (T_of_opt_doc (assoc id (sc_docs sc)))
          end /\ db' = db
  | OHasIndex c f =>
      t = match assoc c db with
          | None => T_err ECollNotExist
          | Some sc => T_ok (Tbool (has_field f (sc_idx sc)))
          end /\ db' = db
  | OListIndexes c =>
      t = match assoc c db with
          | None => T_err ECollNotExist
          | Some sc => T_ok (TL (map TB (msort bleb (sc_idx sc))))
          end /\ db' = db
  (* -- the query reads -- *)
  | OFindAll q mode =>
      read_spec (normalize_query (mk_query q)) (fun nq res => T_of_docs (nq_sort nq) mode res) db t /\ db' = db
  | OCount q =>
      read_spec (normalize_query (mk_query q)) (fun _ res => TZ (Z.of_nat (length res))) db t /\ db' = db
  | OForEach q n mode =>
      read_spec (normalize_query (mk_query q))
        (fun nq res => T_of_docs (nq_sort nq) mode (if 0 <? n then firstn (Z.to_nat n) res else res)) db t /\
      db' = db
  | OExists q =>
      read_spec (normalize_query (limit1 q))
        (fun _ res1 => Tbool (match res1 with [] => false | _ => true end)) db t /\ db' = db
  | OFindFirst q =>
      read_spec (normalize_query (limit1 q)) (fun _ res1 => T_of_opt_doc (hd_error res1)) db t /\ db' = db
  (* -- the composites (not atomic: the specification says what a failure leaves behind) -- *)
  | OExport c =>
      (* the documents of the collection, as a set (no sort, mode 0: rendered in _id order) *)
      t = match assoc c db with
          | None => T_err ECollNotExist
          | Some sc => T_ok (T_of_docs [] 0 (map snd (sc_docs sc)))
          end /\ db' = db
  | OImport c file => t = T_unit (fst (s_import c file db)) /\ db' = snd (s_import c file db)
  | OCreateByQuery c q =>
      (* create c; run the query on the database so extended; copy the result into c *)
      match s_create c db with
      | Err e => t = T_err e /\ db' = db
      | Ok db1 =>
          match normalize_query (mk_query q) with
          | None => t = T_err EOther /\ db' = db1                  (* the new, empty collection stays *)
          | Some nq =>
              match assoc (nq_coll nq) db1 with
              | None => t = T_err ECollNotExist /\ db' = db1       (* the new, empty collection stays *)
              | Some sc =>
                  exists res, find_ok' (map snd (sc_docs sc)) nq res /\ t = T_ok (TL []) /\
                    db' = assoc_set c (mkSC (map (fun d => (object_id d, d)) res) []) db1
              end
          end
      end
  (* -- Close and Reopen are defined on [astate] below -- *)
  | OClose | OReopen => False
  end.

(* ---- one call: [a_step o a t a'] ---- *)
Definition a_step (o : op) (a : astate) (t : T) (a' : astate) : Prop :=
  if a_closed a then
    (* a closed handle: Reopen opens it, Close is accepted, anything else fails and changes nothing *)
    match o with
    | OReopen => t = T_ok (TL []) /\ a' = mkA (a_db a) false
    | OClose => t = T_ok (TL []) /\ a' = a
    | _ => t = T_err EOther /\ a' = a
    end
  else
    match o with
    | OClose => t = T_ok (TL []) /\ a' = mkA (a_db a) true
    | OReopen => t = T_ok (TL []) /\ a' = a
    | _ => a_closed a' = false /\ open_spec o (a_db a) t (a_db a')
    end.

(* ---- histories: the closure of [a_step] ---- *)
Inductive a_run : astate -> list op -> list T -> astate -> Prop :=
| a_run_nil : forall a, a_run a [] [] a
| a_run_cons : forall a o t a' ops ts a'',
    a_step o a t a' -> a_run a' ops ts a'' -> a_run a (o :: ops) (t :: ts) a''.

(* the operations of A3 *)
(* answer and next state are functions of the state *)
Definition det_op (o : op) : bool :=
  match o with
  | OCreateCollection _ | ODropCollection _ | OInsert _ _ _ | OSave _ _ _ | ODeleteById _ _
  | OUpdateById _ _ _ | OReplaceById _ _ _ | OCreateIndex _ _ | ODropIndex _ _
  | OHasCollection _ | OListCollections | OFindById _ _ | OHasIndex _ _ | OListIndexes _
  | OClose | OReopen | OImport _ _ | OExport _ => true
  | _ => false
  end.

(* the state is not changed *)
Definition read_op (o : op) : bool :=
  match o with
  | OHasCollection _ | OListCollections | OFindAll _ _ | OCount _ | OExists _ | OFindFirst _
  | OForEach _ _ _ | OFindById _ _ | OHasIndex _ _ | OListIndexes _ | OExport _ => true
  | _ => false
  end.

(* ========================================================================================== *)
(* PART 2 : EVERY HISTORY OF THE MODEL IS A RUN OF S                                          *)
(* ========================================================================================== *)

(* ---- small facts ---- *)
Lemma normalize_limit1 : forall q,
  normalize_query (limit1 q) = option_map (fun nq => with_limit nq 1) (normalize_query (mk_query q)).
Proof.
  intros q. unfold limit1. destruct (normalize_query (mk_query q)) as [nq|] eqn:N.
  - exact (normalize_query_limit _ nq 1 N).
  - exact (normalize_query_limit_none _ 1 N).
Qed.

(* hence Exists / FindFirst, stated through [with_limit]: on an open handle, for a query that normalises to
   nq on an existing collection, the answer renders a result res1 of the query nq with its limit set to 1 *)
Lemma read_spec_limit1 : forall q render db t nq sc,
  normalize_query (mk_query q) = Some nq -> assoc (nq_coll nq) db = Some sc ->
  (read_spec (normalize_query (limit1 q)) render db t <->
   exists res1, find_ok' (map snd (sc_docs sc)) (with_limit nq 1) res1 /\ t = T_ok (render (with_limit nq 1) res1)).
Proof.
  intros q render db t nq sc N A. rewrite normalize_limit1, N. cbn [option_map read_spec].
  change (nq_coll (with_limit nq 1)) with (nq_coll nq). rewrite A. reflexivity.
Qed.

Lemma keys_iff_assoc : forall (A : Type) c (l : list (bytes * A)), In c (map fst l) <-> assoc c l <> None.
Proof.
  intros A c l. split.
  - intros H E. apply assoc_none_notin in E. contradiction.
  - intros H. destruct (in_dec bytes_dec c (map fst l)) as [Hin|Hn]; [exact Hin|].
    contradiction H. apply assoc_none_notin. exact Hn.
Qed.

Lemma wf_ids_NoDup : forall db c sc, wf_db db -> assoc c db = Some sc ->
  NoDup (map object_id (map snd (sc_docs sc))).
Proof.
  intros db c sc W A.
  assert (E : map object_id (map snd (sc_docs sc)) = map fst (sc_docs sc)).
  { rewrite map_map. apply map_ext_in. intros [id d] Hin. cbn [fst snd].
    destruct (wf_coll db c sc W A) as (_ & _ & Hd & _). exact (proj1 (proj2 (Hd id d Hin))). }
  rewrite E. exact (wf_docs_NoDup db c sc W A).
Qed.

(* Export answers the documents as a set: the order of the abstract collection is immaterial *)
Lemma export_rendering : forall db c sc, wf_db db -> assoc c db = Some sc ->
  T_of_docs [] 0 (docs_by_id sc) = T_of_docs [] 0 (map snd (sc_docs sc)).
Proof.
  intros db c sc W A. unfold T_of_docs. change (0 =? 2) with false. cbv iota. f_equal. f_equal.
  pose proof (docs_by_id_perm db c sc W A) as P.
  apply msort_id_leb_perm; [exact P|].
  apply (Permutation_NoDup (Permutation_map object_id (Permutation_sym P))).
  exact (wf_ids_NoDup db c sc W A).
Qed.

Lemma window_nil : forall sk li, window sk li [] = [].
Proof.
  intros sk li. unfold window. rewrite skipn_nil. destruct (li <? 0); [reflexivity | apply firstn_nil].
Qed.

Lemma find_ok'_no_docs : forall nq, find_ok' [] nq [].
Proof.
  intros nq. exists []. split; [apply Permutation_refl|]. split; [intros _; constructor|].
  symmetry. apply window_nil.
Qed.

(* ---- the closed flag along the transactions of a composite ---- *)
Lemma run_tx_closed_flag : forall A (body : M A) st,
  closed (r_db (snd (run_tx body st))) = closed (r_db st).
Proof.
  intros A body st. unfold run_tx. cbn [snd r_db].
  destruct (closed (r_db st)) eqn:Cl.
  - rewrite with_tx_closed by exact Cl. exact Cl.
  - destruct ((tick ;;; body) (tx_start (r_fault st) (r_db st))) as [r s] eqn:Eb.
    rewrite (with_tx_open _ _ _ _ _ _ Cl Eb). reflexivity.
Qed.

Lemma find_all_op_closed_flag : forall q st,
  closed (r_db (snd (find_all_op q st))) = closed (r_db st).
Proof.
  intros q st. unfold find_all_op. destruct (normalize_query q); [apply run_tx_closed_flag | reflexivity].
Qed.

Lemma insert_op_closed_flag : forall c docs st,
  closed (r_db (snd (insert_op c docs st))) = closed (r_db st).
Proof. intros. unfold insert_op. apply run_tx_closed_flag. Qed.

Ltac flag_tx :=
  repeat match goal with
  | |- context [run_tx ?b ?st] =>
      let H := fresh "F" in
      pose proof (run_tx_closed_flag _ b st) as H; destruct (run_tx b st) as [? ?]; cbn [snd fst] in H |- *
  | |- context [find_all_op ?q ?st] =>
      let H := fresh "F" in
      pose proof (find_all_op_closed_flag q st) as H; destruct (find_all_op q st) as [? ?];
      cbn [snd fst] in H |- *
  | |- context [insert_op ?c ?d ?st] =>
      let H := fresh "F" in
      pose proof (insert_op_closed_flag c d st) as H; destruct (insert_op c d st) as [? ?];
      cbn [snd fst] in H |- *
  | |- context [match ?x with _ => _ end] => destruct x
  end.

Lemma composite_keeps_closed_flag : forall o h, composite o = true -> closed (snd (step h o)) = closed h.
Proof.
  intros o h Co. rewrite step_snd.
  change (closed h) with (closed (r_db (fresh_rstate h None))).
  generalize (fresh_rstate h None). intros st.
  destruct o; try discriminate Co; unfold exec_op; flag_tx; cbn [snd r_db]; congruence.
Qed.

Lemma step_keeps_closed_flag_all : forall o h, handle_op o = false -> closed (snd (step h o)) = closed h.
Proof.
  intros o h Ho. destruct (single_tx o) eqn:S.
  - exact (closed_after_tx h o S).
  - apply composite_keeps_closed_flag. destruct o; try discriminate S; try discriminate Ho; reflexivity.
Qed.

(* ---- FindAll of an arbitrary query of the domain (used for the Limit(1) queries) ---- *)
Lemma find_all_op_open : forall db s q, wf_db db -> R db s -> query_dom db q ->
  match normalize_query q with
  | None => fst (find_all_op q (fresh_rstate (mkDb s false) None)) = Err EOther
  | Some nq =>
      match assoc (nq_coll nq) db with
      | None => fst (find_all_op q (fresh_rstate (mkDb s false) None)) = Err ECollNotExist
      | Some sc => exists res, fst (find_all_op q (fresh_rstate (mkDb s false) None)) = Ok res /\
                               find_ok' (map snd (sc_docs sc)) nq res
      end
  end.
Proof.
  intros db s q W HR (_ & QD). unfold find_all_op.
  destruct (normalize_query q) as [nq|]; [|reflexivity].
  rewrite run_tx_with_tx. cbn [fst]. destruct QD as (Hs & QD).
  destruct (assoc (nq_coll nq) db) as [sc|] eqn:A.
  - destruct QD as (m & CD & KD).
    destruct (find_all_refines m db s nq sc W HR A CD KD Hs) as (res & E & _ & F).
    exists res. split; assumption.
  - exact (proj1 (find_all_missing db s nq W HR A)).
Qed.

(* ---- one call on an open handle ---- *)
Section OpenStep.
  Variables (db : sdb) (s : kv).
  Hypothesis (W : wf_db db) (HR : R db s).

  Local Notation hh := (mkDb s false) (only parsing).

  Let HRh : R db (durable hh) := HR.
  Let Ch : closed hh = false := eq_refl.

  Ltac same_db := exists db; split; [exact W|]; split; [exact HR|].

  Ltac via_step_spec D :=
    match goal with
    | |- exists db', _ /\ R db' (durable (snd (step _ ?o))) /\ _ =>
        let db' := fresh "db'" in let W' := fresh "W'" in let R' := fresh "R'" in let S := fresh "S" in
        destruct (step_open_spec db s W HR o D) as (db' & W' & R' & S);
        exists db'; split; [exact W'|]; split; [exact R'|]; exact S
    end.

  Ltac read_pure :=
    match goal with
    | |- context [snd (step ?h ?o)] => rewrite (clover_read_pure h o eq_refl); cbn [durable]
    end.

  Lemma open_query_read : forall q (render : nquery -> list obj -> T) (t : T),
    (normalize_query (mk_query q) = None -> t = T_err EOther) ->
    (forall nq, normalize_query (mk_query q) = Some nq -> assoc (nq_coll nq) db = None ->
       t = T_err ECollNotExist) ->
    (forall nq sc, normalize_query (mk_query q) = Some nq -> assoc (nq_coll nq) db = Some sc ->
       exists res, find_ok' (map snd (sc_docs sc)) nq res /\ t = T_ok (render nq res)) ->
    read_spec (normalize_query (mk_query q)) render db t.
  Proof.
    intros q render t H1 H2 H3. unfold read_spec.
    destruct (normalize_query (mk_query q)) as [nq|]; [|exact (H1 eq_refl)].
    destruct (assoc (nq_coll nq) db) as [sc|] eqn:A.
    - exact (H3 nq sc eq_refl A).
    - exact (H2 nq eq_refl A).
  Qed.

  (* Exists / FindFirst: the answer is the rendering [f] of FindAll of the Limit(1) query *)
  Lemma open_limit1_read : forall q (f : list obj -> T) (t : T),
    query_dom db (mk_query q) ->
    t = T_res f (fst (find_all_op (limit1 q) (fresh_rstate hh None))) ->
    read_spec (normalize_query (limit1 q)) (fun _ res1 => f res1) db t.
  Proof.
    intros q f t QD ->. unfold read_spec.
    pose proof (find_all_op_open db s (limit1 q) W HR (query_dom_limit db _ 1 QD)) as H.
    destruct (normalize_query (limit1 q)) as [nq|].
    - destruct (assoc (nq_coll nq) db) as [sc|].
      + destruct H as (res & E & F). exists res. split; [exact F|]. rewrite E. reflexivity.
      + rewrite H. reflexivity.
    - rewrite H. reflexivity.
  Qed.

  Lemma open_step_spec : forall o, op_dom_all db o -> handle_op o = false ->
    exists db', wf_db db' /\ R db' (durable (snd (step hh o))) /\ open_spec o db (fst (step hh o)) db'.
  Proof.
    intros o D Ho. destruct o; try discriminate Ho; cbn [op_dom_all] in D.
    - (* OCreateCollection *) via_step_spec D.
    - (* ODropCollection *) via_step_spec D.
    - (* OHasCollection *) via_step_spec D.
    - (* OListCollections *)
      destruct (step_open_spec db s W HR OListCollections D) as (db' & W' & R' & S).
      exists db'. split; [exact W'|]. split; [exact R'|]. cbn [step_spec] in S. cbn [open_spec].
      destruct S as ((l & E & ND & Hl) & Edb). split; [|exact Edb]. rewrite E.
      rewrite (msort_bleb_perm l (map fst db)); [reflexivity|].
      apply NoDup_Permutation; [exact ND | exact (proj1 W)|].
      intros c. rewrite Hl. symmetry. apply keys_iff_assoc.
    - (* OInsert *) via_step_spec D.
    - (* OSave *) via_step_spec D.
    - (* OFindAll *) read_pure. same_db. cbn [open_spec]. split; [|reflexivity].
      apply open_query_read.
      + intros N. exact (proj1 (proj1 (op_find_all_errors db hh W HRh Ch q mode) N)).
      + intros nq N A. exact (proj1 (proj2 (op_find_all_errors db hh W HRh Ch q mode) nq N A)).
      + intros nq sc N A. destruct (op_find_all db hh W HRh Ch q nq sc N A D mode) as (res & E & F & _).
        exists res. split; assumption.
    - (* OCount *) read_pure. same_db. cbn [open_spec]. split; [|reflexivity].
      apply open_query_read.
      + intros N. exact (proj1 (proj1 (op_reads_errors db hh W HRh Ch q 0 0) N)).
      + intros nq N A. exact (proj1 (proj2 (op_reads_errors db hh W HRh Ch q 0 0) nq N A)).
      + intros nq sc N A. exists (fa_result hh nq).
        split; [exact (proj2 (fa_ok db hh W HRh Ch q nq sc N A D))|].
        exact (proj1 (op_count db hh W HRh Ch q nq sc N A D)).
    - (* OExists *) read_pure. same_db. cbn [open_spec]. split; [|reflexivity].
      apply (open_limit1_read q (fun l => Tbool (match l with [] => false | _ => true end))); [exact D|].
      rewrite step_fst. unfold exec_op, limit1.
      destruct (find_all_op (q_apply (mk_query q) (QLimit 1)) (fresh_rstate hh None)) as [r st']. reflexivity.
    - (* OFindFirst *) read_pure. same_db. cbn [open_spec]. split; [|reflexivity].
      apply (open_limit1_read q (fun l => T_of_opt_doc (hd_error l))); [exact D|].
      rewrite step_fst. unfold exec_op, limit1.
      destruct (find_all_op (q_apply (mk_query q) (QLimit 1)) (fresh_rstate hh None)) as [r st']. reflexivity.
    - (* OForEach *) read_pure. same_db. cbn [open_spec]. split; [|reflexivity].
      apply open_query_read.
      + intros N. exact (proj1 (proj2 (proj1 (op_reads_errors db hh W HRh Ch q mode stop_after) N))).
      + intros nq N A.
        exact (proj1 (proj2 (proj2 (op_reads_errors db hh W HRh Ch q mode stop_after) nq N A))).
      + intros nq sc N A. exists (fa_result hh nq).
        split; [exact (proj2 (fa_ok db hh W HRh Ch q nq sc N A D))|].
        exact (proj1 (op_foreach db hh W HRh Ch q nq sc N A D stop_after mode)).
    - (* OFindById *) via_step_spec D.
    - (* ODeleteById *) via_step_spec D.
    - (* OUpdateById *) via_step_spec D.
    - (* OReplaceById *) via_step_spec D.
    - (* OUpdate *) via_step_spec D.
    - (* OUpdateFunc *) via_step_spec D.
    - (* ODelete *) via_step_spec D.
    - (* OCreateIndex *) via_step_spec D.
    - (* ODropIndex *) via_step_spec D.
    - (* OHasIndex *) read_pure. same_db. cbn [open_spec]. split; [|reflexivity].
      rewrite step_fst. unfold exec_op. rewrite run_tx_with_tx. cbn [fst].
      rewrite (proj1 (has_index_refines db s c f W HR)). destruct (assoc c db); reflexivity.
    - (* OListIndexes *) read_pure. same_db. cbn [open_spec]. split; [|reflexivity].
      rewrite step_fst. unfold exec_op. rewrite run_tx_with_tx. cbn [fst].
      rewrite (proj1 (list_indexes_refines db s c W HR)). destruct (assoc c db); reflexivity.
    - (* OExport *)
      destruct (export_refines_exact db hh c W HRh Ch) as (E1 & E2). rewrite E1. cbn [durable].
      same_db. cbn [open_spec]. split; [|reflexivity].
      destruct (assoc c db) as [sc|] eqn:A; [|exact E2].
      rewrite E2, (export_rendering db c sc W A). reflexivity.
    - (* OImport *)
      pose proof (import_open db s c file W HR D) as H. cbv zeta in H.
      rewrite step_fst, step_snd. destruct H as (E & W' & R').
      exists (snd (s_import c file db)). split; [exact W'|]. split; [exact R'|].
      cbn [open_spec]. split; [exact E | reflexivity].
    - (* OCreateByQuery *)
      pose proof (create_by_query_open db s c q W HR D) as H. cbv zeta in H.
      rewrite step_fst, step_snd. cbn [open_spec]. unfold s_create.
      destruct (assoc c db) as [sc0|] eqn:A.
      + destruct H as (E1 & E2). rewrite E1, E2. cbn [durable]. same_db. split; reflexivity.
      + assert (A1 : assoc c (db ++ [(c, mkSC [] [])]) = Some (mkSC [] [])) by (apply assoc_app_none; exact A).
        destruct (normalize_query (mk_query q)) as [nq|].
        * destruct (assoc (nq_coll nq) db) as [sc|] eqn:As.
          -- assert (Hne : c <> nq_coll nq) by (intro E; rewrite <- E in As; congruence).
             destruct H as (res & F & E & W' & R').
             eexists. split; [exact W'|]. split; [exact R'|].
             rewrite (assoc_app_other c (nq_coll nq) _ db Hne), As.
             exists res. split; [exact F|]. split; [exact E | reflexivity].
          -- destruct H as (H1 & H2 & W' & R').
             exists (db ++ [(c, mkSC [] [])]). split; [exact W'|]. split; [exact R'|].
             destruct (bytes_dec c (nq_coll nq)) as [Eq|Hne].
             ++ rewrite <- Eq, A1. exists []. split; [apply find_ok'_no_docs|].
                split; [apply H1; symmetry; exact Eq|]. cbn [map].
                symmetry. apply assoc_set_id. exact A1.
             ++ rewrite (assoc_app_other c (nq_coll nq) _ db Hne), As.
                split; [apply H2; congruence | reflexivity].
        * destruct H as (E & W' & R').
          exists (db ++ [(c, mkSC [] [])]). split; [exact W'|]. split; [exact R'|].
          split; [exact E | reflexivity].
  Qed.
End OpenStep.

(* ---- A1: one step of the model is one step of S ---- *)
Theorem step_refines_spec : forall db h o,
  wf_db db -> Rdb' db h -> (closed h = false -> op_dom_all db o) ->
  exists db', wf_db db' /\ Rdb' db' (snd (step h o)) /\
    a_step o (mkA db (closed h)) (fst (step h o)) (mkA db' (closed (snd (step h o)))).
Proof.
  intros db h o W HR D. unfold Rdb' in *. unfold a_step. cbn [a_closed a_db].
  destruct (closed h) eqn:C.
  - (* closed handle *)
    exists db. destruct (handle_op o) eqn:Ho.
    + destruct o; try discriminate Ho; rewrite step_snd, step_fst;
        cbn [exec_op fst snd r_db fresh_rstate durable closed];
        (split; [exact W|]; split; [exact HR|]; split; reflexivity).
    + rewrite (step_closed o h C Ho). cbn [fst snd]. rewrite C.
      split; [exact W|]. split; [exact HR|].
      destruct o; try discriminate Ho; split; reflexivity.
  - (* open handle *)
    destruct (handle_op o) eqn:Ho.
    + exists db.
      destruct o; try discriminate Ho; rewrite step_snd, step_fst;
        cbn [exec_op fst snd r_db fresh_rstate durable closed];
        (split; [exact W|]; split; [exact HR|]; split; reflexivity).
    + pose proof (step_keeps_closed_flag_all o h Ho) as Cl. rewrite C in Cl. rewrite Cl.
      rewrite (open_handle h C) in *. cbn [durable] in HR.
      destruct (open_step_spec db (durable h) W HR o (D eq_refl) Ho) as (db' & W' & R' & S).
      exists db'. split; [exact W'|]. split; [exact R'|].
      destruct o; try discriminate Ho; (split; [reflexivity | exact S]).
Qed.

(* ---- A2: histories ---- *)
Lemma run_ops_cons_fst : forall h o t,
  fst (run_ops h (o :: t)) = fst (step h o) :: fst (run_ops (snd (step h o)) t).
Proof.
  intros h o t. cbn [run_ops]. destruct (step h o) as [x h']. cbn [fst snd].
  destruct (run_ops h' t) as [xs h'']. reflexivity.
Qed.

Theorem history_refines_spec_from : forall ops h db,
  wf_db db -> Rdb' db h -> hist_dom_all h ops ->
  exists a, a_run (mkA db (closed h)) ops (fst (run_ops h ops)) a /\
    wf_db (a_db a) /\ R (a_db a) (durable (snd (run_ops h ops))) /\
    a_closed a = closed (snd (run_ops h ops)).
Proof.
  induction ops as [|o t IH]; intros h db W HR HD.
  - exists (mkA db (closed h)). cbn [run_ops fst snd a_db a_closed].
    split; [constructor|]. split; [exact W|]. split; [exact HR | reflexivity].
  - destruct HD as (Ho & Ht).
    destruct (step_refines_spec db h o W HR) as (db1 & W1 & R1 & S1).
    { intros C. apply Ho; [exact W|]. split; assumption. }
    destruct (IH _ db1 W1 R1 Ht) as (a & Ra & Wa & HRa & Ca).
    exists a. rewrite run_ops_cons_fst, HistoryProofs.run_ops_cons.
    split; [exact (a_run_cons _ _ _ _ _ _ _ S1 Ra)|]. split; [exact Wa|]. split; [exact HRa | exact Ca].
Qed.

(* MAIN *)
Theorem history_refines_spec : forall ops,
  hist_dom_all empty_db ops ->
  exists a, a_run a_init ops (fst (run_ops empty_db ops)) a /\
    wf_db (a_db a) /\ R (a_db a) (durable (snd (run_ops empty_db ops))) /\
    a_closed a = closed (snd (run_ops empty_db ops)).
Proof. intros ops HD. exact (history_refines_spec_from ops empty_db [] wf_empty R_empty HD). Qed.

(* ========================================================================================== *)
(* PART 3 : S IS DETERMINISTIC WHERE IT SHOULD BE; READS KEEP THE STATE; A CONCRETE HISTORY   *)
(* ========================================================================================== *)
Lemma same_answer : forall (A : Type) (t1 t2 x : T) (d1 d2 y : A),
  t1 = x /\ d1 = y -> t2 = x /\ d2 = y -> t1 = t2 /\ d1 = d2.
Proof. intros A t1 t2 x d1 d2 y (-> & ->) (-> & ->). split; reflexivity. Qed.

Lemma fun_spec_det : forall r db t1 d1 t2 d2,
  fun_spec r db t1 d1 -> fun_spec r db t2 d2 -> t1 = t2 /\ d1 = d2.
Proof. intros r db t1 d1 t2 d2. destruct r; cbn [fun_spec]; apply same_answer. Qed.

Lemma open_spec_deterministic : forall o db t1 d1 t2 d2, det_op o = true ->
  open_spec o db t1 d1 -> open_spec o db t2 d2 -> t1 = t2 /\ d1 = d2.
Proof.
  intros o db t1 d1 t2 d2 Hd H1 H2.
  destruct o; try discriminate Hd; cbn [open_spec] in H1, H2;
    try (exact (fun_spec_det _ _ _ _ _ _ H1 H2)); try (exact (same_answer _ _ _ _ _ _ _ H1 H2));
    try contradiction.
  - (* OSave *) destruct (needs_id d); exact (fun_spec_det _ _ _ _ _ _ H1 H2).
  - (* OReplaceById *) destruct (negb (beqb (object_id d) id));
      [exact (same_answer _ _ _ _ _ _ _ H1 H2) | exact (fun_spec_det _ _ _ _ _ _ H1 H2)].
Qed.

Lemma astate_eq : forall a1 a2, a_db a1 = a_db a2 -> a_closed a1 = a_closed a2 -> a1 = a2.
Proof. intros [d1 c1] [d2 c2]. cbn [a_db a_closed]. intros -> ->. reflexivity. Qed.

(* A3: Create/DropCollection, Insert, Save, DeleteById, UpdateById, ReplaceById, CreateIndex, DropIndex,
   HasCollection, ListCollections, FindById, HasIndex, ListIndexes, Close, Reopen, Import, Export *)
Lemma a_step_writes_deterministic : forall o a t1 a1 t2 a2, det_op o = true ->
  a_step o a t1 a1 -> a_step o a t2 a2 -> t1 = t2 /\ a1 = a2.
Proof.
  intros o [db cl] t1 a1 t2 a2 Hd. unfold a_step. cbn [a_closed a_db]. destruct cl.
  - destruct o; try discriminate Hd; apply same_answer.
  - destruct o; try discriminate Hd; cbv beta iota; try apply same_answer;
      intros (C1 & S1) (C2 & S2);
      (destruct (open_spec_deterministic _ _ _ _ _ _ Hd S1 S2) as (Et & Ed);
       split; [exact Et | apply astate_eq; congruence]).
Qed.

(* A3: the reads -- HasCollection, ListCollections, FindAll, Count, Exists, FindFirst, ForEach, FindById,
   HasIndex, ListIndexes and Export -- keep the state, on an open and on a closed handle *)
Lemma a_step_reads_keep_state : forall o a t a', read_op o = true -> a_step o a t a' -> a' = a.
Proof.
  intros o [db cl] t a' Hr. unfold a_step. cbn [a_closed a_db]. destruct cl.
  - destruct o; try discriminate Hr; intros (_ & E); exact E.
  - destruct o; try discriminate Hr; cbn [open_spec]; intros (C & _ & E);
      apply astate_eq; cbn [a_db a_closed]; assumption.
Qed.

(* the bulk writes and CreateByQuery are relations on purpose: with a window the selection is any
   acceptable FindAll result (IndexIndepProofs.history_index_independent_windowed_refuted) *)
(* and so are the query reads: a windowed query without a sort option has several acceptable answers, which
   S does not tell apart (the list of [det_op] cannot be extended to FindAll) *)
Lemma a_step_find_all_not_deterministic :
  exists a q mode t1 a1 t2 a2, wf_db (a_db a) /\
    a_step (OFindAll q mode) a t1 a1 /\ a_step (OFindAll q mode) a t2 a2 /\ t1 <> t2.
Proof.
  exists (mkA [(ex_c, mkSC [(ex_id1, ex_d1); (ex_id2, ex_d2)] [])] false), (ex_c, [QLimit 1]), 2,
    (T_ok (T_of_docs [] 2 [ex_d1])), (mkA [(ex_c, mkSC [(ex_id1, ex_d1); (ex_id2, ex_d2)] [])] false),
    (T_ok (T_of_docs [] 2 [ex_d2])), (mkA [(ex_c, mkSC [(ex_id1, ex_d1); (ex_id2, ex_d2)] [])] false).
  split; [|split; [|split]].
  - cbn [a_db]. split.
    + cbn [map fst]. constructor; [intros []|constructor].
    + intros c sc [E|[]]. injection E as <- <-. unfold coll_ok. cbn [sc_docs sc_idx map fst].
      split; [reflexivity|]. split.
      { constructor; [|constructor; [intros []|constructor]].
        intros [E|[]]. vm_compute in E. discriminate E. }
      split; [|split; [constructor | intros f []]].
      intros id d [E|[E|[]]]; injection E as <- <-; unfold doc_ok; repeat split; vm_compute; reflexivity.
  - unfold a_step. cbn [a_closed a_db open_spec]. split; [reflexivity|]. split; [|reflexivity].
    exists [ex_d1]. split; [|reflexivity].
    exists [ex_d1; ex_d2]. split; [apply Permutation_refl|]. split; [intros H; contradiction H; reflexivity|].
    reflexivity.
  - unfold a_step. cbn [a_closed a_db open_spec]. split; [reflexivity|]. split; [|reflexivity].
    exists [ex_d2]. split; [|reflexivity].
    exists [ex_d2; ex_d1]. split; [apply perm_swap|]. split; [intros H; contradiction H; reflexivity|].
    reflexivity.
  - intros E. vm_compute in E. discriminate E.
Qed.

(* ---- a concrete history: the composites' example of CompositeProofs.v, then reads with sort and limit, a
   Count, a FindFirst, an index catalog read, Close, a read on the closed handle, Reopen, a read ---- *)
Definition sx_ops : list op :=
  ex_ops ++
  [ OFindAll (ex_c, [QSort [(ex_f, -1)]; QLimit 1]) 2;
    OCount (ex_c, []);
    OFindFirst (ex_c, [QWhere k_crit]);
    OHasIndex ex_c ex_f;
    OClose;
    OFindAll (ex_c, []) 0;
    OReopen;
    OExists (k_c4, []) ].

Example sx_in_domain : hist_dom_all empty_db sx_ops.
Proof. apply hist_domb_all_sound. vm_compute. reflexivity. Qed.

(* A2 instantiated *)
Example sx_refines_spec :
  exists a, a_run a_init sx_ops (fst (run_ops empty_db sx_ops)) a /\
    wf_db (a_db a) /\ R (a_db a) (durable (snd (run_ops empty_db sx_ops))) /\
    a_closed a = closed (snd (run_ops empty_db sx_ops)).
Proof. exact (history_refines_spec sx_ops sx_in_domain). Qed.

(* what the model reports for it *)
Example sx_runs :
  fst (run_ops empty_db sx_ops) =
    [ T_ok (TL []);                                        (* CreateCollection t *)
      T_ok (TL []);                                        (* Insert t [d1; d2] *)
      T_ok (TL [T_of_doc k_d1; T_of_doc k_d2]);            (* Export t *)
      T_ok (TL []);                                        (* Import u *)
      T_ok (TL []);                                        (* CreateByQuery v (t, a >= 3) *)
      T_err EOther;                                        (* Import w, ill-formed file *)
      T_ok (T_of_docs [(ex_f, -1)] 2 [k_d1]);              (* FindAll t sorted by a descending, limit 1 *)
      T_ok (TZ 2);                                         (* Count t *)
      T_ok (T_of_opt_doc (Some k_d1));                     (* FindFirst t, a >= 3 *)
      T_ok (Tbool false);                                  (* HasIndex t a *)
      T_ok (TL []);                                        (* Close *)
      T_err EOther;                                        (* FindAll on the closed handle *)
      T_ok (TL []);                                        (* Reopen *)
      T_ok (Tbool false) ] /\                              (* Exists w: the empty collection left behind *)
  closed (snd (run_ops empty_db sx_ops)) = false.
Proof. split; vm_compute; reflexivity. Qed.

(* ========================================================================================== *)
(* PART 4 : WHAT A CLIENT CONCLUDES FROM S ALONE                                              *)
(* ========================================================================================== *)
Lemma T_err_not_ok : forall e p, T_err e <> T_ok p.
Proof. intros e p H. unfold T_err, T_ok in H. destruct e; discriminate H. Qed.

(* the last two calls of a run *)
Lemma a_run_last2 : forall ops a o1 o2 ts a',
  a_run a (ops ++ [o1; o2]) ts a' ->
  exists ts0 t1 t2 am a1,
    ts = ts0 ++ [t1; t2] /\ a_run a ops ts0 am /\ a_step o1 am t1 a1 /\ a_step o2 a1 t2 a'.
Proof.
  induction ops as [|o t IH]; intros a o1 o2 ts a' H.
  - cbn [app] in H. inversion H as [|? ? t1 a1 ? ts1 ? S1 H1]; subst.
    inversion H1 as [|? ? t2 a2 ? ts2 ? S2 H2]; subst.
    inversion H2; subst.
    exists [], t1, t2, a, a1. split; [reflexivity|]. split; [constructor|]. split; assumption.
  - cbn [app] in H. inversion H as [|? ? t0 a0 ? ts1 ? S0 H1]; subst.
    destruct (IH _ _ _ _ _ H1) as (ts0 & t1 & t2 & am & a1 & E & Hr & S1 & S2).
    exists (t0 :: ts0), t1, t2, am, a1. split; [rewrite E; reflexivity|].
    split; [exact (a_run_cons _ _ _ _ _ _ _ S0 Hr)|]. split; assumption.
Qed.

(* ---- Insert, then FindById of the inserted document ---- *)
Lemma spec_insert_then_find_by_id : forall a c d fresh d' t1 a1 t2 a2,
  assign_ids [d] fresh = [d'] ->                   (* d' : the document with its id filled in *)
  a_step (OInsert c [d] fresh) a t1 a1 -> t1 = T_ok (TL []) ->
  a_step (OFindById c (object_id d')) a1 t2 a2 ->
  t2 = T_ok (T_of_opt_doc (Some d')).
Proof.
  intros [db cl] c d fresh d' t1 a1 t2 a2 Hid S1 Hok S2.
  unfold a_step in S1. cbn [a_closed a_db] in S1. destruct cl.
  - destruct S1 as (E & _). rewrite E in Hok. contradiction (T_err_not_ok _ _ Hok).
  - destruct S1 as (C1 & S1). cbn [open_spec] in S1. rewrite Hid in S1. unfold s_insert in S1.
    assert (Herr : forall e (X : sdb), fun_spec (Err e) db t1 X -> False).
    { intros e X (E & _). rewrite E in Hok. exact (T_err_not_ok _ _ Hok). }
    destruct (assoc c db) as [sc|] eqn:A; [|contradiction (Herr _ _ S1)].
    cbn [s_insert_docs] in S1.
    destruct (assoc (object_id d') (sc_docs sc)) eqn:Ad; [contradiction (Herr _ _ S1)|].
    destruct (validate d'); [|contradiction (Herr _ _ S1)].
    cbn [fun_spec] in S1. destruct S1 as (_ & Edb).
    unfold a_step in S2. rewrite C1 in S2. cbn [open_spec] in S2. destruct S2 as (_ & S2 & _).
    rewrite Edb, assoc_set_same in S2. cbn [sc_docs] in S2.
    rewrite (assoc_app_none _ d' _ Ad) in S2. exact S2.
Qed.

(* ---- DeleteById, then FindById ---- *)
Lemma spec_delete_then_find_by_id : forall a c id t1 a1 t2 a2,
  a_step (ODeleteById c id) a t1 a1 -> t1 = T_ok (TL []) ->
  a_step (OFindById c id) a1 t2 a2 ->
  t2 = T_ok (T_of_opt_doc None).
Proof.
  intros [db cl] c id t1 a1 t2 a2 S1 Hok S2.
  unfold a_step in S1. cbn [a_closed a_db] in S1. destruct cl.
  - destruct S1 as (E & _). rewrite E in Hok. contradiction (T_err_not_ok _ _ Hok).
  - destruct S1 as (C1 & S1). cbn [open_spec] in S1. unfold s_delete_by_id in S1.
    destruct (assoc c db) as [sc|] eqn:A.
    + cbn [fun_spec] in S1. destruct S1 as (_ & Edb).
      unfold a_step in S2. rewrite C1 in S2. cbn [open_spec] in S2. destruct S2 as (_ & S2 & _).
      rewrite Edb, assoc_set_same in S2. cbn [sc_docs] in S2. rewrite assoc_del_same in S2. exact S2.
    + destruct S1 as (E & _). rewrite E in Hok. contradiction (T_err_not_ok _ _ Hok).
Qed.

(* ---- FindAll, then Count of the same unwindowed query (sorted or not) ---- *)
Lemma spec_count_is_length_of_find_all : forall a q mode nq t1 a1 t2 a2,
  normalize_query (mk_query q) = Some nq -> nq_skip nq = 0 -> nq_limit nq < 0 ->
  a_step (OFindAll q mode) a t1 a1 -> a_step (OCount q) a1 t2 a2 ->
  (exists e, t1 = T_err e /\ t2 = T_err e) \/
  (exists res1 res2,
     t1 = T_ok (T_of_docs (nq_sort nq) mode res1) /\ t2 = T_ok (TZ (Z.of_nat (length res2))) /\
     Permutation res1 res2).
Proof.
  intros [db cl] q mode nq t1 a1 t2 a2 N Hsk Hlim S1 S2.
  unfold a_step in S1. cbn [a_closed a_db] in S1. destruct cl.
  - destruct S1 as (E1 & ->). unfold a_step in S2. cbn [a_closed] in S2. destruct S2 as (E2 & _).
    left. exists EOther. split; assumption.
  - destruct S1 as (C1 & S1). cbn [open_spec] in S1. destruct S1 as (R1 & D1).
    unfold a_step in S2. rewrite C1 in S2. cbn [open_spec] in S2. destruct S2 as (_ & R2 & _).
    unfold read_spec in R1, R2. rewrite N in R1, R2. rewrite D1 in R2.
    destruct (assoc (nq_coll nq) db) as [sc|].
    + destruct R1 as (res1 & (l1 & P1 & _ & W1) & E1), R2 as (res2 & (l2 & P2 & _ & W2) & E2).
      rewrite Hsk, (window_all _ _ Hlim) in W1. rewrite Hsk, (window_all _ _ Hlim) in W2. subst l1 l2.
      right. exists res1, res2. split; [exact E1|]. split; [exact E2|].
      eapply Permutation_trans; [exact P1 | apply Permutation_sym; exact P2].
    + left. exists ECollNotExist. split; assumption.
Qed.

(* ---- the same three facts about the MODEL after any history of the domain, from A2 and S alone ---- *)
Theorem history_insert_then_find_by_id : forall ops c d fresh d',
  hist_dom_all empty_db (ops ++ [OInsert c [d] fresh; OFindById c (object_id d')]) ->
  assign_ids [d] fresh = [d'] ->
  exists ts0 t1 t2,
    fst (run_ops empty_db (ops ++ [OInsert c [d] fresh; OFindById c (object_id d')])) = ts0 ++ [t1; t2] /\
    (t1 = T_ok (TL []) -> t2 = T_ok (T_of_opt_doc (Some d'))).
Proof.
  intros ops c d fresh d' HD Hid. destruct (history_refines_spec _ HD) as (a & Ra & _).
  destruct (a_run_last2 _ _ _ _ _ _ Ra) as (ts0 & t1 & t2 & am & a1 & E & _ & S1 & S2).
  exists ts0, t1, t2. split; [exact E|]. intros Hok.
  exact (spec_insert_then_find_by_id am c d fresh d' t1 a1 t2 a Hid S1 Hok S2).
Qed.

Theorem history_delete_then_find_by_id : forall ops c id,
  hist_dom_all empty_db (ops ++ [ODeleteById c id; OFindById c id]) ->
  exists ts0 t1 t2,
    fst (run_ops empty_db (ops ++ [ODeleteById c id; OFindById c id])) = ts0 ++ [t1; t2] /\
    (t1 = T_ok (TL []) -> t2 = T_ok (T_of_opt_doc None)).
Proof.
  intros ops c id HD. destruct (history_refines_spec _ HD) as (a & Ra & _).
  destruct (a_run_last2 _ _ _ _ _ _ Ra) as (ts0 & t1 & t2 & am & a1 & E & _ & S1 & S2).
  exists ts0, t1, t2. split; [exact E|]. intros Hok.
  exact (spec_delete_then_find_by_id am c id t1 a1 t2 a S1 Hok S2).
Qed.

Theorem history_count_is_length_of_find_all : forall ops q mode nq,
  hist_dom_all empty_db (ops ++ [OFindAll q mode; OCount q]) ->
  normalize_query (mk_query q) = Some nq -> nq_skip nq = 0 -> nq_limit nq < 0 ->
  exists ts0 t1 t2,
    fst (run_ops empty_db (ops ++ [OFindAll q mode; OCount q])) = ts0 ++ [t1; t2] /\
    ((exists e, t1 = T_err e /\ t2 = T_err e) \/
     (exists res1 res2,
        t1 = T_ok (T_of_docs (nq_sort nq) mode res1) /\ t2 = T_ok (TZ (Z.of_nat (length res2))) /\
        Permutation res1 res2)).
Proof.
  intros ops q mode nq HD N Hsk Hlim. destruct (history_refines_spec _ HD) as (a & Ra & _).
  destruct (a_run_last2 _ _ _ _ _ _ Ra) as (ts0 & t1 & t2 & am & a1 & E & _ & S1 & S2).
  exists ts0, t1, t2. split; [exact E|].
  exact (spec_count_is_length_of_find_all am q mode nq t1 a1 t2 a N Hsk Hlim S1 S2).
Qed.

Print Assumptions normalize_limit1.
Print Assumptions open_step_spec.
Print Assumptions step_refines_spec.
Print Assumptions history_refines_spec_from.
Print Assumptions history_refines_spec.
Print Assumptions open_spec_deterministic.
Print Assumptions a_step_writes_deterministic.
Print Assumptions a_step_reads_keep_state.
Print Assumptions a_step_find_all_not_deterministic.
Print Assumptions read_spec_limit1.
Print Assumptions sx_in_domain.
Print Assumptions sx_refines_spec.
Print Assumptions sx_runs.
Print Assumptions a_run_last2.
Print Assumptions spec_insert_then_find_by_id.
Print Assumptions spec_delete_then_find_by_id.
Print Assumptions spec_count_is_length_of_find_all.
Print Assumptions history_insert_then_find_by_id.
Print Assumptions history_delete_then_find_by_id.
Print Assumptions history_count_is_length_of_find_all.

(* C10, key half: inside the key-order domain the byte encoding of index keys
   sorts exactly like [compare], and is prefix-free. *)
From Coq Require Import Lia.
From Clover Require Import Index Domains BytesProofs CompareProofs FloatProofs OrderedCodeProofs.
Open Scope Z_scope.

Arguments Z.pow : simpl never.
Arguments Z.mul : simpl never.
Arguments N.compare : simpl never.
Arguments Z.to_N : simpl never.
Arguments oc_uint64 : simpl never.
Arguments oc_string : simpl never.
Arguments oc_float64 : simpl never.

(* ------------------------------------------------------------------ *)
(* Unfolding equations for ordered_code                                *)
(* ------------------------------------------------------------------ *)

Fixpoint arr_go (l : list value) : bytes :=
  match l with
  | [] => []
  | x :: t => ordered_code x true ++ arr_go t
  end.

Fixpoint obj_go (o : list (bytes * value)) : bytes :=
  match o with
  | [] => []
  | (k, x) :: t => oc_string k ++ ordered_code x true ++ obj_go t
  end.

(* what follows the type prefix *)
Definition oc_body (v : value) : bytes :=
  match v with
  | VArr l => oc_string (arr_go l)
  | VObj o => oc_string (obj_go o)
  | _ => oc_prim_body v
  end.

Definition is_container (v : value) : bool :=
  match v with VArr _ | VObj _ => true | _ => false end.

Lemma ordered_code_true : forall v, ordered_code v true = oc_uint64 (type_id v) ++ oc_body v.
Proof. intros v. destruct v; reflexivity. Qed.

Lemma ordered_code_false : forall v,
  ordered_code v false = if is_container v then ordered_code v true else oc_body v.
Proof. intros v. destruct v; reflexivity. Qed.

Lemma arr_go_cons : forall x t, arr_go (x :: t) = ordered_code x true ++ arr_go t.
Proof. reflexivity. Qed.

Lemma obj_go_cons : forall k x t,
  obj_go ((k, x) :: t) = oc_string k ++ ordered_code x true ++ obj_go t.
Proof. reflexivity. Qed.

Lemma key_dom_arr_cons : forall x t, key_dom (VArr (x :: t)) = key_dom x && key_dom (VArr t).
Proof. reflexivity. Qed.

Lemma key_dom_obj_cons : forall k x t,
  key_dom (VObj ((k, x) :: t)) = key_dom x && key_dom (VObj t).
Proof. reflexivity. Qed.

Lemma type_id_range : forall v, 0 <= type_id v <= 6.
Proof. intros v. destruct v; cbn [type_id]; lia. Qed.

Lemma container_tid : forall a b, type_id a = type_id b -> is_container a = is_container b.
Proof.
  intros a b H. destruct a; destruct b; cbn [type_id] in H; try discriminate H; reflexivity.
Qed.

(* ------------------------------------------------------------------ *)
(* Non-emptiness of codes                                              *)
(* ------------------------------------------------------------------ *)

Lemma oc_uint64_cons : forall z r, exists h t, oc_uint64 z ++ r = h :: t.
Proof. intros z r. unfold oc_uint64. cbn [app]. eauto. Qed.

Lemma ordered_code_cons : forall v r, exists h t, ordered_code v true ++ r = h :: t.
Proof.
  intros v r. rewrite ordered_code_true, <- app_assoc. apply oc_uint64_cons.
Qed.

Lemma oc_string_cons : forall k r, exists h t, oc_string k ++ r = h :: t.
Proof.
  intros k r. destruct (oc_string k ++ r) as [|h t] eqn:E.
  - exfalso. apply app_eq_nil in E. destruct E as [E _].
    unfold oc_string in E. apply app_eq_nil in E. destruct E as [_ E]. discriminate E.
  - eauto.
Qed.

(* ------------------------------------------------------------------ *)
(* Range of of_Z on small integers                                     *)
(* ------------------------------------------------------------------ *)

Lemma of_Z_mag_range : forall n, 0 <= n <= two53 -> 0 <= of_Z_mag n < two63.
Proof.
  intros n Hn.
  assert (Hc : n = 0 \/ n = two53 \/ 0 < n < two53) by lia.
  destruct Hc as [Hc | [Hc | Hc]].
  - subst n. vm_compute. split; [discriminate | reflexivity].
  - subst n. vm_compute. split; [discriminate | reflexivity].
  - destruct (of_Z_mag_exact n Hc) as [e [m [Heq [He [Hm _]]]]].
    rewrite Heq. pose proof two52_pos as Hp. rewrite two63_as_two52.
    assert (H1 : e * two52 <= 2046 * two52) by (apply Z.mul_le_mono_nonneg_r; lia).
    assert (H2 : 0 <= e * two52) by (apply Z.mul_nonneg_nonneg; lia).
    lia.
Qed.

Lemma of_Z_range : forall z, - two53 <= z <= two53 -> 0 <= of_Z z < two64.
Proof.
  intros z Hz. unfold of_Z. rewrite two64_two63.
  destruct (z <? 0) eqn:E.
  - apply Z.ltb_lt in E.
    assert (H : 0 <= of_Z_mag (- z) < two63) by (apply of_Z_mag_range; lia).
    assert (H63 : 0 < two63) by reflexivity. lia.
  - apply Z.ltb_ge in E.
    assert (H : 0 <= of_Z_mag z < two63) by (apply of_Z_mag_range; lia).
    lia.
Qed.

Lemma to_float_range : forall a, is_number a = true -> key_dom a = true ->
  0 <= to_float a < two64.
Proof.
  intros a Hn Hd. destruct a; try discriminate Hn; cbn [to_float key_dom] in *.
  - apply of_Z_range. apply small_int_range. exact Hd.
  - apply of_Z_range. apply small_int_range. exact Hd.
  - apply andb_prop in Hd. destruct Hd as [Hu _]. unfold uint64_ok in Hu.
    apply andb_prop in Hu. destruct Hu as [H1 H2].
    apply Z.leb_le in H1. apply Z.ltb_lt in H2. lia.
Qed.

Lemma key_dom_small_ints_num : forall a, is_number a = true -> key_dom a = true ->
  small_ints a = true.
Proof.
  intros a Hn Hd. destruct a; try discriminate Hn; cbn [small_ints key_dom] in *;
    first [exact Hd | reflexivity].
Qed.

(* ------------------------------------------------------------------ *)
(* Body laws for primitives                                            *)
(* ------------------------------------------------------------------ *)

Lemma body_num_law : forall a b x y,
  is_number a = true -> is_number b = true ->
  key_dom a = true -> key_dom b = true ->
  lex (oc_float64 (to_float a) ++ x) (oc_float64 (to_float b) ++ y)
  = cmp_then (compare a b) (lex x y).
Proof.
  intros a b x y Na Nb Da Db.
  rewrite oc_float64_law_gen by (apply to_float_range; assumption).
  f_equal.
  pose proof (key_dom_small_ints_num a Na Da) as Sa.
  pose proof (key_dom_small_ints_num b Nb Db) as Sb.
  rewrite (compare_numbers_nden a b Na Nb Sa Sb).
  unfold fcmp. rewrite (to_float_nden a Na Sa), (to_float_nden b Nb Sb). reflexivity.
Qed.

Lemma compare_lexico : forall B s1 n1 s2 n2,
  0 <= n1 < B -> 0 <= n2 < B ->
  (s1 * B + n1 ?= s2 * B + n2) = cmp_then (s1 ?= s2) (n1 ?= n2).
Proof.
  intros B s1 n1 s2 n2 H1 H2.
  destruct (Z.compare_spec s1 s2) as [E | L | G]; cbn [cmp_then].
  - subst s2. apply Z.add_compare_mono_l.
  - apply Z.compare_lt_iff.
    assert (H : (s1 + 1) * B <= s2 * B) by (apply Z.mul_le_mono_nonneg_r; lia).
    lia.
  - apply Z.compare_gt_iff.
    assert (H : (s2 + 1) * B <= s1 * B) by (apply Z.mul_le_mono_nonneg_r; lia).
    lia.
Qed.

Lemma time_key_ok_facts : forall s n, time_key_ok s n = true ->
  0 <= n < billion /\ 0 <= s * billion + n < two63.
Proof.
  intros s n H. unfold time_key_ok in H.
  apply andb_prop in H. destruct H as [H H4].
  apply andb_prop in H. destruct H as [H H3].
  apply andb_prop in H. destruct H as [H1 H2].
  apply Z.leb_le in H1. apply Z.ltb_lt in H2. apply Z.leb_le in H3. apply Z.ltb_lt in H4.
  lia.
Qed.

Lemma unix_nano_small : forall s n, time_key_ok s n = true ->
  unix_nano_u64 s n = s * billion + n.
Proof.
  intros s n H. apply time_key_ok_facts in H. destruct H as [_ H].
  unfold unix_nano_u64. apply Z.mod_small. rewrite two64_two63. lia.
Qed.

Lemma body_time_law : forall s1 n1 o1 s2 n2 o2 x y,
  time_key_ok s1 n1 = true -> time_key_ok s2 n2 = true ->
  lex (oc_uint64 (unix_nano_u64 s1 n1) ++ x) (oc_uint64 (unix_nano_u64 s2 n2) ++ y)
  = cmp_then (compare (VTime s1 n1 o1) (VTime s2 n2 o2)) (lex x y).
Proof.
  intros s1 n1 o1 s2 n2 o2 x y H1 H2.
  rewrite (unix_nano_small _ _ H1), (unix_nano_small _ _ H2).
  apply time_key_ok_facts in H1. apply time_key_ok_facts in H2.
  destruct H1 as [N1 R1]. destruct H2 as [N2 R2].
  rewrite oc_uint64_law_gen by lia.
  rewrite compare_time_eq. unfold compare_time.
  rewrite (compare_lexico billion s1 n1 s2 n2 N1 N2). reflexivity.
Qed.

Lemma body_bool_law : forall (b1 b2 : bool) x y,
  lex (oc_uint64 (if b1 then 1 else 0) ++ x) (oc_uint64 (if b2 then 1 else 0) ++ y)
  = cmp_then (compare (VBool b1) (VBool b2)) (lex x y).
Proof.
  intros b1 b2 x y.
  rewrite oc_uint64_law_gen by (destruct b1, b2; lia).
  rewrite compare_bool_eq. destruct b1; destruct b2; reflexivity.
Qed.

Lemma prim_body_law : forall a b x y,
  is_container a = false ->
  key_dom a = true -> key_dom b = true -> type_id a = type_id b ->
  lex (oc_body a ++ x) (oc_body b ++ y) = cmp_then (compare a b) (lex x y).
Proof.
  intros a b x y Hc Da Db Ht.
  destruct a as [ | za | za | fa | sa | ba | s1 n1 o1 | la | oa ]; try discriminate Hc;
  destruct b as [ | zb | zb | fb | sb | bb | s2 n2 o2 | lb | ob ];
    cbn [type_id] in Ht; try discriminate Ht; cbn [oc_body oc_prim_body].
  - (* nil, nil *) rewrite compare_refl. reflexivity.
  - apply (body_num_law (VInt za) (VInt zb)); first [reflexivity | assumption].
  - apply (body_num_law (VInt za) (VUint zb)); first [reflexivity | assumption].
  - apply (body_num_law (VInt za) (VFloat fb)); first [reflexivity | assumption].
  - apply (body_num_law (VUint za) (VInt zb)); first [reflexivity | assumption].
  - apply (body_num_law (VUint za) (VUint zb)); first [reflexivity | assumption].
  - apply (body_num_law (VUint za) (VFloat fb)); first [reflexivity | assumption].
  - apply (body_num_law (VFloat fa) (VInt zb)); first [reflexivity | assumption].
  - apply (body_num_law (VFloat fa) (VUint zb)); first [reflexivity | assumption].
  - apply (body_num_law (VFloat fa) (VFloat fb)); first [reflexivity | assumption].
  - (* strings *) rewrite oc_string_law, compare_string_bytewise. reflexivity.
  - (* bools *) apply body_bool_law.
  - (* times *) cbn [key_dom] in Da, Db. apply body_time_law; assumption.
Qed.

(* ------------------------------------------------------------------ *)
(* From the body law to the full law (type prefix)                     *)
(* ------------------------------------------------------------------ *)

Lemma law_from_body : forall a b x y,
  (type_id a = type_id b ->
   lex (oc_body a ++ x) (oc_body b ++ y) = cmp_then (compare a b) (lex x y)) ->
  lex (ordered_code a true ++ x) (ordered_code b true ++ y)
  = cmp_then (compare a b) (lex x y).
Proof.
  intros a b x y Hbody.
  rewrite !ordered_code_true, <- !app_assoc.
  pose proof (type_id_range a) as Ra. pose proof (type_id_range b) as Rb.
  rewrite oc_uint64_law_gen by lia.
  destruct (Z.compare_spec (type_id a) (type_id b)) as [E | L | G]; cbn [cmp_then].
  - apply Hbody. exact E.
  - rewrite (compare_type_rank a b L). reflexivity.
  - rewrite (compare_type_rank_gt a b G). reflexivity.
Qed.

(* the statement proved by induction *)
Definition OCLaw (a : value) : Prop :=
  forall b x y, key_dom a = true -> key_dom b = true ->
    lex (ordered_code a true ++ x) (ordered_code b true ++ y)
    = cmp_then (compare a b) (lex x y).

Lemma arr_go_law : forall l1, Forall OCLaw l1 -> forall l2,
  key_dom (VArr l1) = true -> key_dom (VArr l2) = true ->
  lex (arr_go l1) (arr_go l2) = compare (VArr l1) (VArr l2).
Proof.
  intros l1 HF. induction HF as [ | a t1 Ha HF IH ]; intros l2 D1 D2.
  - destruct l2 as [ | b t2 ].
    + rewrite compare_arr_nil_nil. reflexivity.
    + rewrite compare_arr_nil_cons, arr_go_cons.
      destruct (ordered_code_cons b (arr_go t2)) as [h [t E]]. rewrite E. reflexivity.
  - destruct l2 as [ | b t2 ].
    + rewrite compare_arr_cons_nil, arr_go_cons.
      destruct (ordered_code_cons a (arr_go t1)) as [h [t E]]. rewrite E. reflexivity.
    + rewrite key_dom_arr_cons in D1, D2.
      apply andb_prop in D1. destruct D1 as [Da Dt1].
      apply andb_prop in D2. destruct D2 as [Db Dt2].
      rewrite !arr_go_cons, compare_array_lex.
      rewrite (Ha b (arr_go t1) (arr_go t2) Da Db).
      rewrite (IH t2 Dt1 Dt2). reflexivity.
Qed.

Lemma obj_go_law : forall o1, Forall (fun kv => OCLaw (snd kv)) o1 -> forall o2,
  key_dom (VObj o1) = true -> key_dom (VObj o2) = true ->
  lex (obj_go o1) (obj_go o2) = compare (VObj o1) (VObj o2).
Proof.
  intros o1 HF. induction HF as [ | [k1 a] t1 Ha HF IH ]; intros o2 D1 D2.
  - destruct o2 as [ | [k2 b] t2 ].
    + rewrite compare_obj_nil_nil. reflexivity.
    + rewrite compare_obj_nil_cons, obj_go_cons.
      destruct (oc_string_cons k2 (ordered_code b true ++ obj_go t2)) as [h [t E]].
      rewrite E. reflexivity.
  - destruct o2 as [ | [k2 b] t2 ].
    + rewrite compare_obj_cons_nil, obj_go_cons.
      destruct (oc_string_cons k1 (ordered_code a true ++ obj_go t1)) as [h [t E]].
      rewrite E. reflexivity.
    + rewrite key_dom_obj_cons in D1, D2.
      apply andb_prop in D1. destruct D1 as [Da Dt1].
      apply andb_prop in D2. destruct D2 as [Db Dt2].
      cbn [snd] in Ha.
      rewrite !obj_go_cons, compare_object_lex, oc_string_law.
      rewrite (Ha b (obj_go t1) (obj_go t2) Da Db).
      rewrite (IH t2 Dt1 Dt2). reflexivity.
Qed.

Lemma OCLaw_prim : forall a, is_container a = false -> OCLaw a.
Proof.
  intros a Hc b x y Da Db. apply law_from_body. intros Ht.
  apply prim_body_law; assumption.
Qed.

Lemma OCLaw_all : forall a, OCLaw a.
Proof.
  induction a as [ | z | z | f | s | b0 | s n o | l IHl | o IHo ] using value_ind';
    try (apply OCLaw_prim; reflexivity).
  - (* arrays *)
    intros b x y Da Db. apply law_from_body. intros Ht.
    destruct b as [ | zb | zb | fb | sb | bb | s2 n2 o2 | lb | ob ];
      cbn [type_id] in Ht; try discriminate Ht.
    cbn [oc_body]. rewrite oc_string_law.
    rewrite (arr_go_law l IHl lb Da Db). reflexivity.
  - (* objects *)
    intros b x y Da Db. apply law_from_body. intros Ht.
    destruct b as [ | zb | zb | fb | sb | bb | s2 n2 o2 | lb | ob ];
      cbn [type_id] in Ht; try discriminate Ht.
    cbn [oc_body]. rewrite oc_string_law.
    rewrite (obj_go_law o IHo ob Da Db). reflexivity.
Qed.

(* ------------------------------------------------------------------ *)
(* 1. The composition law for ordered_code                             *)
(* ------------------------------------------------------------------ *)

Theorem ordered_code_law : forall a b x y,
  key_dom a = true -> key_dom b = true ->
  lex (ordered_code a true ++ x) (ordered_code b true ++ y)
  = cmp_then (compare a b) (lex x y).
Proof. intros a b x y Da Db. apply OCLaw_all; assumption. Qed.

(* the law for the part after the type prefix, same type on both sides *)
Lemma oc_body_law : forall a b x y,
  key_dom a = true -> key_dom b = true -> type_id a = type_id b ->
  lex (oc_body a ++ x) (oc_body b ++ y) = cmp_then (compare a b) (lex x y).
Proof.
  intros a b x y Da Db Ht.
  rewrite <- (ordered_code_law a b x y Da Db).
  rewrite !ordered_code_true, <- !app_assoc, Ht, lex_app_prefix. reflexivity.
Qed.

(* ------------------------------------------------------------------ *)
(* 2. value_code (top level, no type prefix on primitives)             *)
(* ------------------------------------------------------------------ *)

Theorem value_code_law : forall a b x y,
  key_dom a = true -> key_dom b = true -> type_id a = type_id b ->
  lex (value_code a ++ x) (value_code b ++ y) = cmp_then (compare a b) (lex x y).
Proof.
  intros a b x y Da Db Ht. unfold value_code.
  rewrite !ordered_code_false, <- (container_tid a b Ht).
  destruct (is_container a).
  - apply ordered_code_law; assumption.
  - apply oc_body_law; assumption.
Qed.

(* ------------------------------------------------------------------ *)
(* 3. Index keys                                                       *)
(* ------------------------------------------------------------------ *)

Lemma idx_value_key_shape : forall c f v r,
  idx_value_key c f v ++ r =
  (idx_prefix c f ++ [ch_t; ch_colon]) ++
  Z.to_N (48 + type_id v) :: ch_semi :: ch_v :: ch_colon :: (value_code v ++ r).
Proof.
  intros c f v r. unfold idx_value_key, idx_type_prefix.
  rewrite <- !app_assoc. reflexivity.
Qed.

Theorem idx_key_law : forall c f a b ida idb,
  key_dom a = true -> key_dom b = true ->
  lex (idx_value_key c f a ++ ida) (idx_value_key c f b ++ idb)
  = cmp_then (compare a b) (lex ida idb).
Proof.
  intros c f a b ida idb Da Db.
  rewrite !idx_value_key_shape, lex_app_prefix.
  pose proof (type_id_range a) as Ra. pose proof (type_id_range b) as Rb.
  destruct (Z.compare_spec (type_id a) (type_id b)) as [E | L | G].
  - rewrite E, !lex_cons_eq. apply value_code_law; assumption.
  - rewrite (compare_type_rank a b L). cbn [cmp_then].
    apply lex_cons_lt. unfold N.lt.
    rewrite Z2N.inj_compare by lia. apply Z.compare_lt_iff. lia.
  - rewrite (compare_type_rank_gt a b G). cbn [cmp_then].
    apply lex_cons_gt. unfold N.lt.
    rewrite Z2N.inj_compare by lia. apply Z.compare_lt_iff. lia.
Qed.

Theorem idx_key_order : forall c f a b ida idb,
  key_dom a = true -> key_dom b = true -> compare a b = Lt ->
  lex (idx_key c f a ida) (idx_key c f b idb) = Lt.
Proof.
  intros c f a b ida idb Da Db Hc. unfold idx_key.
  rewrite (idx_key_law c f a b ida idb Da Db), Hc. reflexivity.
Qed.

Theorem idx_key_eq : forall c f a b,
  key_dom a = true -> key_dom b = true -> compare a b = Eq ->
  idx_value_key c f a = idx_value_key c f b.
Proof.
  intros c f a b Da Db Hc.
  apply lex_eq_iff.
  rewrite <- (app_nil_r (idx_value_key c f a)), <- (app_nil_r (idx_value_key c f b)).
  rewrite (idx_key_law c f a b [] [] Da Db), Hc. reflexivity.
Qed.

Theorem idx_key_prefix_free : forall c f a b r,
  key_dom a = true -> key_dom b = true ->
  idx_value_key c f a ++ r = idx_value_key c f b -> compare a b = Eq.
Proof.
  intros c f a b r Da Db Hr.
  pose proof (idx_key_law c f a b r [] Da Db) as H.
  rewrite app_nil_r, Hr, lex_refl in H.
  destruct (compare a b); [reflexivity | discriminate H | discriminate H].
Qed.

(* a proper extension never happens either: the remainder must be empty *)
Corollary idx_key_prefix_free_nil : forall c f a b r,
  key_dom a = true -> key_dom b = true ->
  idx_value_key c f a ++ r = idx_value_key c f b -> r = [].
Proof.
  intros c f a b r Da Db Hr.
  pose proof (idx_key_prefix_free c f a b r Da Db Hr) as Hc.
  pose proof (idx_key_eq c f a b Da Db Hc) as He.
  rewrite <- He in Hr.
  rewrite <- (app_nil_r (idx_value_key c f a)) in Hr at 2.
  apply app_inv_head in Hr. exact Hr.
Qed.

(* ------------------------------------------------------------------ *)
(* 4. Non-vacuity                                                      *)
(* ------------------------------------------------------------------ *)

(* int 1 and float64 1.0: different Go kinds, both in the key domain, equal under
   compare, and they share one index key *)
Example int_float_share_key :
  key_dom (VInt 1) = true /\
  key_dom (VFloat 4607182418800017408) = true /\
  compare (VInt 1) (VFloat 4607182418800017408) = Eq /\
  idx_value_key [99%N] [102%N] (VInt 1)
  = idx_value_key [99%N] [102%N] (VFloat 4607182418800017408).
Proof. vm_compute. repeat split. Qed.

(* and a strict instance: int 1 sorts before float64 1.5 in the index *)
Example int_float_strict :
  key_dom (VFloat 4609434218613702656) = true /\
  compare (VInt 1) (VFloat 4609434218613702656) = Lt /\
  lex (idx_key [99%N] [102%N] (VInt 1) [255%N])
      (idx_key [99%N] [102%N] (VFloat 4609434218613702656) [0%N]) = Lt.
Proof. vm_compute. repeat split. Qed.

Print Assumptions ordered_code_law.
Print Assumptions value_code_law.
Print Assumptions idx_key_law.
Print Assumptions idx_key_order.
Print Assumptions idx_key_eq.
Print Assumptions idx_key_prefix_free.
Print Assumptions int_float_share_key.

(* C18, last clause: a struct converted to a document (internal.Normalize) and unmarshalled back
   (Document.Unmarshal = internal.Convert) is unchanged, on the round-trip domain of Spec/UnmarshalSpec.v.

   U1  normalize_typed, normalize_typed_struct        as stated
   U2  unmarshal_roundtrip                            with ONE extra premise, [rt_extra (TyStruct fs) = true]
       (defined in section 7 below). Without it the statement is false:
       unmarshal_roundtrip_unrestricted_refuted (and _anon_map, _unexported) prove the negation, from
         - anon_map_refuted:            an embedded (anonymous) field of map type is merged into the parent by
                                        Normalize but travels as a named field through encoding/json;
         - omit_ptr_refuted:            `omitempty` on **T / *interface{}: a pointer to nil is stored as nil, comes
                                        back as a nil pointer and is then omitted;
         - unexported_rename_refuted:   renameValue also visits unexported fields, so an unexported field whose name
                                        is the json name of an exported field has ITS type's renames applied to the
                                        exported field's value.
       jdecode_rename_roundtrip is the generalisation to every type and any sufficient fuel.
   U3  rename_obj_order_irrelevant                    as stated (a literal equality of lists)
   U4  rt_example_*; casefold_refuted, emb_ptr_refuted (casepair_not_a_counterexample: two ORDINARY fields whose
       json names differ only by case do round-trip, because an exact key match wins; case folding matters only
       against the names reserved for embedded nil pointers). *)
From Coq Require Import Lia ZifyBool ZArith Bool List Permutation.
From Clover Require Import GoValue Embed BytesProofs Unmarshal UnmarshalSpec NormalizeProofs.
From Clover Require DocumentProofs.
Open Scope Z_scope.


(* ================================================================== *)
(** * 0. Generic list facts *)

Lemma pairwise_NoDup : forall l, pairwise beqb l = true -> NoDup l.
Proof.
  induction l as [|x t IH]; intros H; [constructor|].
  cbn [pairwise] in H. apply andb_true_iff in H. destruct H as [H1 H2].
  constructor; [|apply IH; exact H2].
  intros Hin. rewrite forallb_forall in H1. specialize (H1 x Hin).
  rewrite beqb_refl in H1. discriminate.
Qed.

Lemma pairwise_app_l : forall A (r : A -> A -> bool) l1 l2, pairwise r (l1 ++ l2) = true -> pairwise r l1 = true.
Proof.
  induction l1 as [|x t IH]; intros l2 H; [reflexivity|].
  cbn [pairwise app] in *. apply andb_true_iff in H. destruct H as [H1 H2].
  rewrite forallb_app in H1. apply andb_true_iff in H1. destruct H1 as [H1 _].
  rewrite H1. exact (IH _ H2).
Qed.

Lemma pairwise_app_cross : forall A (r : A -> A -> bool) l1 l2 a b,
  pairwise r (l1 ++ l2) = true -> In a l1 -> In b l2 -> r a b = false.
Proof.
  induction l1 as [|x t IH]; intros l2 a b H Ha Hb; [destruct Ha|].
  cbn [pairwise app] in H. apply andb_true_iff in H. destruct H as [H1 H2].
  destruct Ha as [->|Ha].
  - rewrite forallb_forall in H1. specialize (H1 b (in_or_app _ _ _ (or_intror Hb))).
    apply negb_true_iff in H1. exact H1.
  - exact (IH _ _ _ H2 Ha Hb).
Qed.

Lemma pairwise_map_inj : forall A B (r : B -> B -> bool) (h : A -> B) l a b,
  (forall x, r x x = true) ->
  pairwise r (map h l) = true -> In a l -> In b l -> h a = h b -> a = b.
Proof.
  intros A B r h l a b Hr. induction l as [|c t IH]; intros H Ha Hb E; [destruct Ha|].
  cbn [pairwise map] in H. apply andb_true_iff in H. destruct H as [H1 H2].
  rewrite forallb_forall in H1.
  destruct Ha as [->|Ha], Hb as [->|Hb].
  - reflexivity.
  - specialize (H1 (h b) (in_map h _ _ Hb)). rewrite E, Hr in H1. discriminate.
  - specialize (H1 (h a) (in_map h _ _ Ha)). rewrite <- E, Hr in H1. discriminate.
  - exact (IH H2 Ha Hb E).
Qed.

Lemma pairwise_In : forall A (r : A -> A -> bool) l a b,
  (forall x y, r x y = r y x) ->
  pairwise r l = true -> In a l -> In b l -> r a b = true -> a = b.
Proof.
  intros A r l a b Hs. induction l as [|c t IH]; intros H Ha Hb E; [destruct Ha|].
  cbn [pairwise] in H. apply andb_true_iff in H. destruct H as [H1 H2].
  rewrite forallb_forall in H1.
  destruct Ha as [->|Ha], Hb as [->|Hb].
  - reflexivity.
  - specialize (H1 b Hb). rewrite E in H1. discriminate.
  - specialize (H1 a Ha). rewrite Hs, E in H1. discriminate.
  - exact (IH H2 Ha Hb E).
Qed.

Lemma NoDup_app_disj : forall A (l1 l2 : list A) x, NoDup (l1 ++ l2) -> In x l1 -> In x l2 -> False.
Proof.
  induction l1 as [|a t IH]; intros l2 x H H1 H2; [destruct H1|].
  cbn [app] in H. inversion H as [|? ? Hn Hd]; subst.
  destruct H1 as [->|H1].
  - apply Hn. apply in_or_app. right. exact H2.
  - exact (IH _ _ Hd H1 H2).
Qed.

Lemma NoDup_app_l : forall A (l1 l2 : list A), NoDup (l1 ++ l2) -> NoDup l1.
Proof.
  induction l1 as [|a t IH]; intros l2 H; [constructor|].
  cbn [app] in H. inversion H as [|? ? Hn Hd]; subst. constructor.
  - intros Hin. apply Hn. apply in_or_app. left. exact Hin.
  - exact (IH _ Hd).
Qed.

Lemma NoDup_app_r : forall A (l1 l2 : list A), NoDup (l1 ++ l2) -> NoDup l2.
Proof.
  induction l1 as [|a t IH]; intros l2 H; [exact H|].
  cbn [app] in H. inversion H; subst. apply IH. assumption.
Qed.

(* ================================================================== *)
(** * 1. Association-list facts *)

Lemma obj_get_In : forall k o x, obj_get k o = Some x -> In (k, x) o.
Proof.
  induction o as [|[k' v'] t IH]; intros x H; [discriminate|].
  cbn [obj_get] in H. destruct (beqb k k') eqn:E.
  - apply beqb_true_iff in E. inversion H; subst. left. reflexivity.
  - right. apply IH. exact H.
Qed.

Lemma In_obj_get_some : forall k o x, In (k, x) o -> obj_get k o <> None.
Proof.
  induction o as [|[k' v'] t IH]; intros x H; [destruct H|].
  cbn [obj_get]. destruct (beqb k k') eqn:E; [discriminate|].
  destruct H as [H|H]; [inversion H; subst; rewrite beqb_refl in E; discriminate|].
  exact (IH _ H).
Qed.

Lemma NoDup_In_obj_get : forall k o x, NoDup (map fst o) -> In (k, x) o -> obj_get k o = Some x.
Proof.
  induction o as [|[k' v'] t IH]; intros x Hn H; [destruct H|].
  cbn [map fst] in Hn. inversion Hn as [|? ? Hni Hnd]; subst.
  cbn [obj_get]. destruct H as [H|H].
  - inversion H; subst. rewrite beqb_refl. reflexivity.
  - destruct (beqb k k') eqn:E; [|exact (IH _ Hnd H)].
    apply beqb_true_iff in E. subst k'. exfalso. apply Hni.
    change k with (fst (k, x)). apply in_map. exact H.
Qed.

Lemma key_below_notin : forall k o, key_below k o -> ~ In k (map fst o).
Proof.
  unfold key_below. intros k o H Hin. apply in_map_iff in Hin. destruct Hin as [[k' v'] [E Hin]].
  simpl in E. subst k'. rewrite Forall_forall in H. specialize (H _ Hin). simpl in H.
  rewrite lex_refl in H. discriminate.
Qed.

Lemma sorted_NoDup : forall o, keys_sorted o = true -> NoDup (map fst o).
Proof.
  induction o as [|[k v] t IH]; intros H; [constructor|].
  destruct (keys_sorted_cons_inv _ _ _ H) as [HB HT].
  cbn [map fst]. constructor; [apply key_below_notin; exact HB | apply IH; exact HT].
Qed.

Lemma key_below_get : forall k o, key_below k o -> forall k', lex k' k <> Gt -> obj_get k' o = None.
Proof.
  unfold key_below. induction o as [|[k1 v1] t IH]; intros H k' Hle; [reflexivity|].
  inversion H as [|? ? H1 H2]; subst. simpl in H1. cbn [obj_get].
  destruct (beqb k' k1) eqn:E.
  - apply beqb_true_iff in E. subst k1. exfalso. apply Hle. apply lex_gt_lt. exact H1.
  - apply IH; assumption.
Qed.

(* two key-sorted objects with the same lookups are equal *)
Lemma sorted_ext : forall a b, keys_sorted a = true -> keys_sorted b = true ->
  (forall k, obj_get k a = obj_get k b) -> a = b.
Proof.
  induction a as [|[k v] t IH]; intros b Ha Hb H.
  - destruct b as [|[k' v'] t']; [reflexivity|]. specialize (H k'). cbn [obj_get] in H.
    rewrite beqb_refl in H. discriminate.
  - destruct b as [|[k' v'] t'].
    + specialize (H k). cbn [obj_get] in H. rewrite beqb_refl in H. discriminate.
    + destruct (keys_sorted_cons_inv _ _ _ Ha) as [HBa HTa].
      destruct (keys_sorted_cons_inv _ _ _ Hb) as [HBb HTb].
      assert (Ek : k = k').
      { destruct (lex k k') eqn:E.
        - apply lex_eq_iff. exact E.
        - exfalso. pose proof (H k) as Hk. cbn [obj_get] in Hk. rewrite beqb_refl in Hk.
          assert (beqb k k' = false) as Hb0 by (unfold beqb; rewrite E; reflexivity).
          rewrite Hb0 in Hk. rewrite (key_below_get k' t' HBb k) in Hk; [discriminate|].
          rewrite E. discriminate.
        - exfalso. pose proof (H k') as Hk. cbn [obj_get] in Hk. rewrite beqb_refl in Hk.
          apply lex_gt_lt in E.
          assert (beqb k' k = false) as Hb0 by (unfold beqb; rewrite E; reflexivity).
          rewrite Hb0 in Hk. rewrite (key_below_get k t HBa k') in Hk; [discriminate|].
          rewrite E. discriminate. }
      subst k'. pose proof (H k) as Hk. cbn [obj_get] in Hk. rewrite beqb_refl in Hk.
      inversion Hk; subst v'. f_equal. apply IH; [exact HTa | exact HTb|].
      intros k0. specialize (H k0). cbn [obj_get] in H. destruct (beqb k0 k) eqn:E0; [|exact H].
      apply beqb_true_iff in E0. subst k0.
      rewrite (key_below_get k t HBa k), (key_below_get k t' HBb k); try reflexivity;
        rewrite lex_refl; discriminate.
Qed.

(* a fold of obj_set under a key map [rho] *)
Definition rfold (rho : bytes -> bytes) (o acc : obj) : obj :=
  fold_left (fun m kv => obj_set (rho (fst kv)) (snd kv) m) o acc.

Lemma rfold_sorted : forall rho o acc, keys_sorted acc = true -> keys_sorted (rfold rho o acc) = true.
Proof.
  unfold rfold. induction o as [|[k v] t IH]; intros acc H; [exact H|].
  cbn [fold_left]. apply IH. apply obj_set_sorted. exact H.
Qed.

Lemma rfold_other : forall rho o acc k',
  (forall kv, In kv o -> rho (fst kv) <> k') -> obj_get k' (rfold rho o acc) = obj_get k' acc.
Proof.
  unfold rfold. induction o as [|[k v] t IH]; intros acc k' H; [reflexivity|].
  cbn [fold_left]. rewrite IH by (intros kv Hin; apply H; right; exact Hin).
  apply DocumentProofs.obj_get_set_other. apply (H (k, v)). left. reflexivity.
Qed.

Lemma rfold_get_inv : forall rho o acc k' v,
  obj_get k' (rfold rho o acc) = Some v ->
  (exists k, In (k, v) o /\ rho k = k') \/ obj_get k' acc = Some v.
Proof.
  unfold rfold. induction o as [|[k x] t IH]; intros acc k' v H; [right; exact H|].
  cbn [fold_left] in H. apply IH in H. destruct H as [[k0 [Hin E]]|H].
  - left. exists k0. split; [right; exact Hin | exact E].
  - cbn [fst snd] in H. destruct (list_eq_dec N.eq_dec (rho k) k') as [E|E].
    + subst k'. rewrite DocumentProofs.obj_get_set_same in H. inversion H; subst.
      left. exists k. split; [left; reflexivity | reflexivity].
    + rewrite DocumentProofs.obj_get_set_other in H by exact E. right. exact H.
Qed.

Lemma rfold_get : forall rho o acc k v,
  NoDup (map (fun kv => rho (fst kv)) o) -> In (k, v) o -> obj_get (rho k) (rfold rho o acc) = Some v.
Proof.
  unfold rfold. induction o as [|[k0 x0] t IH]; intros acc k v Hn Hin; [destruct Hin|].
  cbn [map fst] in Hn. inversion Hn as [|? ? Hni Hnd]; subst.
  cbn [fold_left fst snd]. destruct Hin as [Hin|Hin].
  - inversion Hin; subst. fold (rfold rho t (obj_set (rho k) v acc)).
    rewrite rfold_other.
    + apply DocumentProofs.obj_get_set_same.
    + intros kv Hkv E. apply Hni. rewrite <- E. apply (in_map (fun kv => rho (fst kv))). exact Hkv.
  - apply IH; assumption.
Qed.

Lemma obj_get_merge : forall o acc k, NoDup (map fst o) ->
  obj_get k (merge_obj acc o) = match obj_get k o with Some v => Some v | None => obj_get k acc end.
Proof.
  intros o acc k Hn. change (merge_obj acc o) with (rfold (fun x => x) o acc).
  destruct (obj_get k o) as [v|] eqn:E.
  - apply obj_get_In in E. apply (rfold_get (fun x => x)); [|exact E].
    rewrite <- map_map with (f := fst) (g := fun x => x). rewrite map_id. exact Hn.
  - apply rfold_other. intros [k1 v1] Hin E1. simpl in E1. subst k1.
    apply In_obj_get_some in Hin. congruence.
Qed.

Lemma vdepth_obj_get : forall k o x, obj_get k o = Some x -> (S (vdepth x) <= vdepth (VObj o))%nat.
Proof.
  intros k o x H. apply obj_get_In in H. cbn [vdepth]. apply le_n_S.
  induction o as [|[k1 v1] t IH]; [destruct H|].
  destruct H as [H|H].
  - inversion H; subst. apply Nat.le_max_l.
  - etransitivity; [apply IH; exact H | apply Nat.le_max_r].
Qed.

Lemma vdepth_arr_In : forall l x, In x l -> (S (vdepth x) <= vdepth (VArr l))%nat.
Proof.
  intros l x H. cbn [vdepth]. apply le_n_S.
  induction l as [|y t IH]; [destruct H|]. cbn [fold_right].
  destruct H as [->|H]; [apply Nat.le_max_l|].
  etransitivity; [apply IH; exact H | apply Nat.le_max_r].
Qed.

Lemma vdepth_obj_In : forall o kv, In kv o -> (S (vdepth (snd kv)) <= vdepth (VObj o))%nat.
Proof.
  intros o kv H. cbn [vdepth]. apply le_n_S.
  induction o as [|[k1 v1] t IH]; [destruct H|].
  destruct H as [H|H].
  - subst kv. apply Nat.le_max_l.
  - etransitivity; [apply IH; exact H | apply Nat.le_max_r].
Qed.

(* ================================================================== *)
(** * 2. Nested induction on Go types, and the inner loops exposed at top level *)

Section GotypeNInd.
  Variable P : gotype -> Prop.
  Hypothesis HInt : forall b, P (TyInt b).
  Hypothesis HUint : forall b, P (TyUint b).
  Hypothesis HF32 : P TyFloat32.
  Hypothesis HF64 : P TyFloat64.
  Hypothesis HStr : P TyString.
  Hypothesis HBool : P TyBool.
  Hypothesis HTime : P TyTime.
  Hypothesis HPtr : forall p, P p -> P (TyPtr p).
  Hypothesis HStruct : forall fs, Forall (fun f => P (tf_type f)) fs -> P (TyStruct fs).
  Hypothesis HMap : forall e, P e -> P (TyMap e).
  Hypothesis HSlice : forall e, P e -> P (TySlice e).
  Hypothesis HArray : forall n e, P e -> P (TyArray n e).
  Hypothesis HIface : P TyIface.

  Fixpoint gotype_nind (t : gotype) : P t :=
    match t as t0 return P t0 with
    | TyInt b => HInt b
    | TyUint b => HUint b
    | TyFloat32 => HF32
    | TyFloat64 => HF64
    | TyString => HStr
    | TyBool => HBool
    | TyTime => HTime
    | TyPtr p => HPtr p (gotype_nind p)
    | TyStruct fs =>
        HStruct fs ((fix go (fs : list tfield) : Forall (fun f => P (tf_type f)) fs :=
                       match fs as fs0 return Forall (fun f => P (tf_type f)) fs0 with
                       | [] => Forall_nil _
                       | f :: r =>
                           Forall_cons f
                             (match f as f0 return P (tf_type f0) with
                              | TField _ _ _ _ _ ft => gotype_nind ft
                              end) (go r)
                       end) fs)
    | TyMap e => HMap e (gotype_nind e)
    | TySlice e => HSlice e (gotype_nind e)
    | TyArray n e => HArray n e (gotype_nind e)
    | TyIface => HIface
    end.
End GotypeNInd.

Definition is_emb (f : tfield) : bool := tf_anon f && is_struct_ty (tf_type f).
Definition is_ptr_ty (t : gotype) : bool := match t with TyPtr _ => true | _ => false end.

(* struct_fields *)
Definition sf1 (f : tfield) : list tfield := if is_emb f then struct_fields (tf_type f) else [f].

Lemma struct_fields_cons : forall f fs,
  struct_fields (TyStruct (f :: fs)) = sf1 f ++ struct_fields (TyStruct fs).
Proof.
  intros [n e tg jt an ft] fs. unfold sf1, is_emb. cbn [tf_anon tf_type]. cbn [struct_fields].
  destruct (an && is_struct_ty ft); reflexivity.
Qed.

Lemma struct_fields_nil : struct_fields (TyStruct []) = [].
Proof. reflexivity. Qed.

Lemma struct_fields_ptr : forall p, struct_fields (TyPtr p) = struct_fields p.
Proof. reflexivity. Qed.

(* all_emb_ptr_names *)
Definition epn1 (f : tfield) : list bytes := if is_emb f && is_ptr_ty (tf_type f) then [tf_name f] else [].
Definition aen1 (f : tfield) : list bytes := if is_emb f then all_emb_ptr_names (tf_type f) else [].

Lemma emb_ptr_names_cons : forall f fs, emb_ptr_names (f :: fs) = epn1 f ++ emb_ptr_names fs.
Proof.
  intros f fs. unfold emb_ptr_names, epn1, is_emb, is_ptr_ty. cbn [filter].
  destruct (tf_anon f && is_struct_ty (tf_type f) && match tf_type f with TyPtr _ => true | _ => false end); reflexivity.
Qed.

Definition aen_rest (fs : list tfield) : list bytes := flat_map aen1 fs.

Lemma all_emb_ptr_names_struct : forall fs,
  all_emb_ptr_names (TyStruct fs) = emb_ptr_names fs ++ aen_rest fs.
Proof.
  intros fs. cbn [all_emb_ptr_names]. f_equal. unfold aen_rest.
  induction fs as [|[n e tg jt an ft] r IH]; [reflexivity|].
  cbn [flat_map]. rewrite <- IH. reflexivity.
Qed.

Lemma all_emb_ptr_names_ptr : forall p, all_emb_ptr_names (TyPtr p) = all_emb_ptr_names p.
Proof. reflexivity. Qed.

Definition xflat (t : gotype) : list tfield := filter tf_exported (struct_fields t).
Definition names (t : gotype) : list bytes := map field_from (xflat t) ++ all_emb_ptr_names t.
Definition tnames (t : gotype) : list bytes := map field_to (xflat t) ++ all_emb_ptr_names t.

Lemma struct_level_ok_eq : forall t,
  struct_level_ok t = pairwise beqb (names t) && pairwise fold_eq (tnames t).
Proof. reflexivity. Qed.

(* the keys a declared field may write *)
Definition K (f : tfield) : list bytes :=
  map field_from (filter tf_exported (sf1 f)) ++ epn1 f ++ aen1 f.

Lemma names_cons_perm : forall f fs,
  Permutation (names (TyStruct (f :: fs))) (K f ++ names (TyStruct fs)).
Proof.
  intros f fs. unfold names, xflat, K.
  rewrite struct_fields_cons, !all_emb_ptr_names_struct, emb_ptr_names_cons.
  rewrite filter_app, map_app. cbn [aen_rest flat_map]. fold (aen_rest fs).
  set (A1 := map field_from (filter tf_exported (sf1 f))).
  set (A2 := map field_from (filter tf_exported (struct_fields (TyStruct fs)))).
  set (B1 := epn1 f). set (B2 := emb_ptr_names fs). set (C1 := aen1 f). set (C2 := aen_rest fs).
  rewrite <- !app_assoc. apply Permutation_app_head.
  (* A2 ++ B1 ++ B2 ++ C1 ++ C2  ~  B1 ++ C1 ++ A2 ++ B2 ++ C2 *)
  transitivity (B1 ++ A2 ++ B2 ++ C1 ++ C2).
  { rewrite !app_assoc. apply Permutation_app_tail. apply Permutation_app_tail. apply Permutation_app_tail.
    apply Permutation_app_comm. }
  apply Permutation_app_head.
  transitivity (A2 ++ C1 ++ B2 ++ C2).
  { apply Permutation_app_head. rewrite !app_assoc. apply Permutation_app_tail. apply Permutation_app_comm. }
  rewrite !app_assoc. apply Permutation_app_tail. apply Permutation_app_tail. apply Permutation_app_comm.
Qed.

Lemma names_ptr : forall p, names (TyPtr p) = names p.
Proof. reflexivity. Qed.
Lemma tnames_ptr : forall p, tnames (TyPtr p) = tnames p.
Proof. reflexivity. Qed.
Lemma xflat_ptr : forall p, xflat (TyPtr p) = xflat p.
Proof. reflexivity. Qed.

Lemma names_cons_in : forall f fs k,
  In k (names (TyStruct (f :: fs))) <-> In k (K f) \/ In k (names (TyStruct fs)).
Proof.
  intros f fs k. rewrite <- in_app_iff. split; apply Permutation_in.
  - apply names_cons_perm.
  - apply Permutation_sym, names_cons_perm.
Qed.

Lemma names_cons_nodup : forall f fs, NoDup (names (TyStruct (f :: fs))) ->
  NoDup (K f) /\ NoDup (names (TyStruct fs)) /\ (forall k, In k (K f) -> In k (names (TyStruct fs)) -> False).
Proof.
  intros f fs H. apply (Permutation_NoDup (names_cons_perm f fs)) in H.
  split; [exact (NoDup_app_l _ _ _ H)|]. split; [exact (NoDup_app_r _ _ _ H)|].
  intros k. apply NoDup_app_disj. exact H.
Qed.

(* K for the two kinds of field *)
Lemma K_emb_in : forall f k, is_emb f = true ->
  (In k (K f) <-> In k (names (tf_type f)) \/ (is_ptr_ty (tf_type f) = true /\ k = tf_name f)).
Proof.
  intros f k H. unfold K, sf1, epn1, aen1, names, xflat. rewrite H. cbn [andb].
  rewrite !in_app_iff. destruct (is_ptr_ty (tf_type f)); cbn [In]; intuition congruence.
Qed.

Lemma K_emb_nodup : forall f, is_emb f = true -> NoDup (K f) ->
  NoDup (names (tf_type f)) /\ (is_ptr_ty (tf_type f) = true -> ~ In (tf_name f) (names (tf_type f))).
Proof.
  intros f H. unfold K, sf1, epn1, aen1, names, xflat. rewrite H. cbn [andb].
  set (A := map field_from (filter tf_exported (struct_fields (tf_type f)))).
  set (C := all_emb_ptr_names (tf_type f)).
  intros Hn. split.
  - assert (Permutation (A ++ (if is_ptr_ty (tf_type f) then [tf_name f] else []) ++ C)
                        ((if is_ptr_ty (tf_type f) then [tf_name f] else []) ++ A ++ C)) as HP.
    { rewrite !app_assoc. apply Permutation_app_tail. apply Permutation_app_comm. }
    apply (Permutation_NoDup HP) in Hn. exact (NoDup_app_r _ _ _ Hn).
  - intros Hp. rewrite Hp in Hn. intros Hin. apply in_app_iff in Hin. destruct Hin as [Hin|Hin].
    + apply (NoDup_app_disj _ _ _ (tf_name f) Hn Hin). left. reflexivity.
    + apply NoDup_app_r in Hn. cbn [app] in Hn. inversion Hn; subst. contradiction.
Qed.

Lemma K_reg : forall f, is_emb f = false -> K f = if tf_exported f then [field_from f] else [].
Proof.
  intros f H. unfold K, sf1, epn1, aen1. rewrite H. cbn [andb filter].
  destruct (tf_exported f); reflexivity.
Qed.

(* flat exported fields of a cons *)
Lemma xflat_cons : forall f fs, xflat (TyStruct (f :: fs)) = filter tf_exported (sf1 f) ++ xflat (TyStruct fs).
Proof. intros. unfold xflat. rewrite struct_fields_cons, filter_app. reflexivity. Qed.

Lemma xflat_emb_incl : forall f fs f', is_emb f = true -> In f' (xflat (tf_type f)) -> In f' (xflat (TyStruct (f :: fs))).
Proof.
  intros f fs f' H Hin. rewrite xflat_cons. apply in_or_app. left. unfold sf1. rewrite H. exact Hin.
Qed.

Lemma xflat_reg_in : forall f fs, is_emb f = false -> tf_exported f = true -> In f (xflat (TyStruct (f :: fs))).
Proof.
  intros f fs H He. rewrite xflat_cons. apply in_or_app. left. unfold sf1. rewrite H. cbn [filter].
  rewrite He. left. reflexivity.
Qed.

Lemma xflat_tail_incl : forall f fs f', In f' (xflat (TyStruct fs)) -> In f' (xflat (TyStruct (f :: fs))).
Proof. intros. rewrite xflat_cons. apply in_or_app. right. assumption. Qed.

Lemma xflat_in_names : forall t f, In f (xflat t) -> In (field_from f) (names t).
Proof. intros. unfold names. apply in_or_app. left. apply in_map. assumption. Qed.

Lemma xflat_in_tnames : forall t f, In f (xflat t) -> In (field_to f) (tnames t).
Proof. intros. unfold tnames. apply in_or_app. left. apply in_map. assumption. Qed.

(* ---- top-level versions of the nested loops ---- *)

Definition type_ok_field (f : tfield) (gf : gfield) : bool :=
  match f, gf with
  | TField n e tg _ an ft, GField n' e' tg' an' ifc v =>
      beqb n n' && Bool.eqb e e' && beqb tg tg' && Bool.eqb an an' && Bool.eqb ifc (is_iface ft) &&
      (if e then type_ok ft v else true)
  end.

Fixpoint type_ok_fields (tfs : list tfield) (gfs : list gfield) : bool :=
  match tfs, gfs with
  | [], [] => true
  | f :: trest, gf :: grest => type_ok_field f gf && type_ok_fields trest grest
  | _, _ => false
  end.

Lemma type_ok_struct : forall tfs gfs, type_ok (TyStruct tfs) (GStruct gfs) = type_ok_fields tfs gfs.
Proof.
  induction tfs as [|[n e tg jt an ft] tr IH]; intros [|[n' e' tg' an' ifc v] gr]; try reflexivity.
  cbn [type_ok_fields type_ok_field]. rewrite <- IH. reflexivity.
Qed.

Lemma type_ok_struct_inv : forall tfs g, type_ok (TyStruct tfs) g = true -> exists gfs, g = GStruct gfs.
Proof. intros tfs g H. destruct g; try discriminate. eexists. reflexivity. Qed.

Definition rt_field (f : tfield) : bool :=
  field_decl_ok f && emb_ptr_ok f && (if tf_exported f then rt_ty (tf_type f) else true).

Lemma rt_ty_struct : forall fs, rt_ty (TyStruct fs) = struct_level_ok (TyStruct fs) && forallb rt_field fs.
Proof.
  intros fs. cbn [rt_ty]. f_equal.
  induction fs as [|[n e tg jt an ft] r IH]; [reflexivity|].
  cbn [forallb]. rewrite <- IH. unfold rt_field. cbn [tf_exported tf_type]. reflexivity.
Qed.

Definition zero_field (f : tfield) : gfield :=
  GField (tf_name f) (tf_exported f) (tf_tag f) (tf_anon f) (is_iface (tf_type f)) (zero (tf_type f)).

Lemma zero_struct : forall fs, zero (TyStruct fs) = GStruct (map zero_field fs).
Proof.
  intros fs. cbn [zero]. f_equal.
  induction fs as [|[n e tg jt an ft] r IH]; [reflexivity|].
  cbn [map]. rewrite <- IH. unfold zero_field. cbn [tf_name tf_exported tf_tag tf_anon tf_type].
  destruct ft; reflexivity.
Qed.

Fixpoint tdepth_fields (fs : list tfield) : nat :=
  match fs with [] => O | f :: rest => Nat.max (tdepth (tf_type f)) (tdepth_fields rest) end.

Lemma tdepth_struct : forall fs, tdepth (TyStruct fs) = S (tdepth_fields fs).
Proof.
  intros fs. cbn [tdepth]. f_equal.
  induction fs as [|[n e tg jt an ft] r IH]; [reflexivity|]. cbn [tdepth_fields tf_type]. rewrite <- IH. reflexivity.
Qed.

(* the struct loop of jdecode *)
Fixpoint dec_fields (n : nat) (all : list bytes) (v : value) (o : obj) (fs : list tfield) : ures (list gfield) :=
  match fs with
  | [] => UOk []
  | TField nm e tg jt an ft :: rest =>
      let iface := match ft with TyIface => true | _ => false end in
      let mk := fun g => ubind (dec_fields n all v o rest) (fun gs => UOk (GField nm e tg an iface g :: gs)) in
      if negb e then
        (if an && is_struct_ty ft then UUndet else mk (zero ft))
      else if an && is_struct_ty ft then
        match jt with
        | Some _ => UUndet
        | None =>
            let mine := exported_names (struct_fields ft) in
            let present := existsb (fun kv => existsb (fun nme => routes_to all nme (fst kv)) mine) o in
            match ft with
            | TyPtr _ => if present then ubind (jdecode n ft v) mk else mk (GPtr None)
            | _ => ubind (jdecode n ft v) mk
            end
        end
      else
        let jname := field_to (TField nm e tg jt an ft) in
        match filter (fun kv => routes_to all jname (fst kv)) o with
        | [] => mk (zero ft)
        | [kv] => ubind (jdecode n ft (snd kv)) mk
        | _ => UUndet
        end
  end.

Lemma jdecode_struct : forall n fs o,
  jdecode (S n) (TyStruct fs) (VObj o) =
  ubind (dec_fields n (exported_names (struct_fields (TyStruct fs))) (VObj o) o fs) (fun gs => UOk (GStruct gs)).
Proof.
  intros n fs o. cbn [jdecode]. f_equal.
  generalize (exported_names (struct_fields (TyStruct fs))). intros all.
  induction fs as [|[nm e tg jt an ft] r IH]; [reflexivity|].
  cbn [dec_fields]. rewrite <- IH. reflexivity.
Qed.

Lemma jdecode_ptr : forall n p v, v <> VNil ->
  jdecode (S n) (TyPtr p) v = ubind (jdecode n p v) (fun g => UOk (GPtr (Some g))).
Proof. intros n p v H. cbn [jdecode]. destruct v; try reflexivity. congruence. Qed.

(* ================================================================== *)
(** * 3. Inversion of typing *)

Lemma tok_field_inv : forall f gf, type_ok_field f gf = true ->
  exists x, gf = GField (tf_name f) (tf_exported f) (tf_tag f) (tf_anon f) (is_iface (tf_type f)) x /\
            (tf_exported f = true -> type_ok (tf_type f) x = true).
Proof.
  intros [n e tg jt an ft] [n' e' tg' an' ifc v] H. cbn [type_ok_field] in H.
  repeat (apply andb_true_iff in H; destruct H as [H ?]).
  apply beqb_true_iff in H. apply eqb_prop in H4, H2, H1. apply beqb_true_iff in H3. subst.
  exists v. cbn [tf_name tf_exported tf_tag tf_anon tf_type]. split; [reflexivity|].
  intros ->. assumption.
Qed.

Lemma tok_fields_cons : forall f tr gfs, type_ok_fields (f :: tr) gfs = true ->
  exists gf gr, gfs = gf :: gr /\ type_ok_field f gf = true /\ type_ok_fields tr gr = true.
Proof.
  intros f tr [|gf gr] H; [discriminate|]. cbn [type_ok_fields] in H.
  apply andb_true_iff in H. destruct H. eauto.
Qed.

Lemma tok_fields_nil : forall gfs, type_ok_fields [] gfs = true -> gfs = [].
Proof. intros [|? ?] H; [reflexivity|discriminate]. Qed.

Lemma tok_struct : forall fs g, type_ok (TyStruct fs) g = true ->
  exists gfs, g = GStruct gfs /\ type_ok_fields fs gfs = true.
Proof.
  intros fs g H. destruct (type_ok_struct_inv _ _ H) as [gfs ->]. rewrite type_ok_struct in H. eauto.
Qed.

Lemma tok_ptr : forall p g, type_ok (TyPtr p) g = true ->
  g = GPtr None \/ exists g', g = GPtr (Some g') /\ type_ok p g' = true.
Proof.
  intros p g H. cbn [type_ok] in H. destruct g as [| | | | | | | |[g'|]| | | | |]; try discriminate; eauto.
Qed.

Lemma tok_slice : forall e g, type_ok (TySlice e) g = true ->
  exists l, g = GSlice false l /\ is_u8 e = false /\ Forall (fun x => type_ok e x = true) l.
Proof.
  intros e g H. cbn [type_ok] in H. destruct g as [| | | | | | | | | | |[|] l| |]; try discriminate.
  apply andb_true_iff in H. destruct H as [H1 H2]. apply negb_true_iff in H1.
  exists l. repeat split; [exact H1|]. apply Forall_forall. rewrite forallb_forall in H2. exact H2.
Qed.

Lemma tok_array : forall n e g, type_ok (TyArray n e) g = true ->
  exists l, g = GSlice false l /\ is_u8 e = false /\ Z.of_nat (length l) = n /\ Forall (fun x => type_ok e x = true) l.
Proof.
  intros n e g H. cbn [type_ok] in H. destruct g as [| | | | | | | | | | |[|] l| |]; try discriminate.
  apply andb_true_iff in H. destruct H as [H1 H2]. apply andb_true_iff in H1. destruct H1 as [H1 H3].
  apply negb_true_iff in H1. apply Z.eqb_eq in H3.
  exists l. repeat split; [exact H1|exact H3|]. apply Forall_forall. rewrite forallb_forall in H2. exact H2.
Qed.

Lemma tok_map : forall e g, type_ok (TyMap e) g = true ->
  exists es, g = GMap true es /\ is_u8 e = false /\
             Forall (fun kv => ascii (fst kv) = true /\ type_ok e (snd kv) = true) es.
Proof.
  intros e g H. cbn [type_ok] in H. destruct g as [| | | | | | | | | |[|] es| | |]; try discriminate.
  apply andb_true_iff in H. destruct H as [H1 H2]. apply negb_true_iff in H1.
  exists es. repeat split; [exact H1|]. apply Forall_forall. rewrite forallb_forall in H2.
  intros kv Hin. specialize (H2 kv Hin). apply andb_true_iff in H2. exact H2.
Qed.

(* ================================================================== *)
(** * 4. U1: Normalize is total on typed values *)

Definition omitted (f : tfield) (x : goval) : bool :=
  tag_omitempty (tf_tag f) && is_empty_value (is_iface (tf_type f)) x.

Definition fwrite (f : tfield) (vx : value) (acc : obj) : obj :=
  if tf_anon f then match vx with VObj o => merge_obj acc o | _ => obj_set (field_from f) vx acc end
  else obj_set (field_from f) vx acc.

Definition mkfield (f : tfield) (x : goval) : gfield :=
  GField (tf_name f) (tf_exported f) (tf_tag f) (tf_anon f) (is_iface (tf_type f)) x.

Lemma struct_loop_unexp : forall f x gr acc, tf_exported f = false ->
  struct_loop (mkfield f x :: gr) acc = struct_loop gr acc.
Proof. intros f x gr acc H. unfold mkfield. rewrite struct_loop_cons, H. reflexivity. Qed.

Lemma struct_loop_exp : forall f x gr acc w, tf_exported f = true -> normalize x = NOk w ->
  struct_loop (mkfield f x :: gr) acc =
  if omitted f x then struct_loop gr acc else struct_loop gr (fwrite f w acc).
Proof.
  intros f x gr acc w H Hw. unfold mkfield. rewrite struct_loop_cons, H. cbn [negb].
  fold (omitted f x). destruct (omitted f x); [reflexivity|]. rewrite Hw. unfold fwrite, field_key, field_from.
  destruct (tf_anon f); [destruct w|]; reflexivity.
Qed.

Lemma struct_loop_obj : forall gfs acc v, struct_loop gfs acc = NOk v -> exists d, v = VObj d.
Proof.
  induction gfs as [|[name e tag a i x] t IH]; intros acc v H.
  - cbn [struct_loop] in H. inversion H. eauto.
  - rewrite struct_loop_cons in H.
    destruct (negb e); [eauto|]. destruct (tag_omitempty tag && is_empty_value i x); [eauto|].
    destruct (normalize x) as [w| |]; [|discriminate|eauto].
    destruct a; [destruct w|]; eauto.
Qed.

Lemma norm_total : forall t g, type_ok t g = true -> exists v, normalize g = NOk v.
Proof.
  induction t as [b|b| | | | | |p IH|fs IH|e IH|e IH|n e IH| ] using gotype_nind; intros g H;
    try (cbn [type_ok] in H; destruct g; try discriminate; cbn [normalize]; eauto; fail).
  - destruct (tok_ptr _ _ H) as [->|[g' [-> H']]]; [cbn; eauto|]. cbn [normalize]. apply IH. exact H'.
  - destruct (tok_struct _ _ H) as [gfs [-> Hf]]. rewrite normalize_struct_loop. generalize (@nil (bytes*value)).
    clear H. revert gfs Hf. induction fs as [|f tr IHf]; intros gfs Hf acc.
    + apply tok_fields_nil in Hf. subst. cbn. eauto.
    + destruct (tok_fields_cons _ _ _ Hf) as [gf [gr [-> [H1 H2]]]].
      destruct (tok_field_inv _ _ H1) as [x [-> Hx]]. fold (mkfield f x).
      inversion IH as [|? ? IH1 IH2]; subst.
      destruct (tf_exported f) eqn:He.
      * destruct (IH1 x (Hx eq_refl)) as [w Hw]. rewrite (struct_loop_exp f x gr acc w He Hw).
        destruct (omitted f x); apply IHf; assumption.
      * rewrite struct_loop_unexp by exact He. apply IHf; assumption.
  - destruct (tok_map _ _ H) as [es [-> [_ Hes]]]. rewrite normalize_map_loop. apply map_loop_total.
    eapply Forall_impl; [|exact Hes]. intros kv [_ Hk]. apply IH. exact Hk.
  - destruct (tok_slice _ _ H) as [l [-> [_ Hl]]]. rewrite normalize_slice_loop. apply slice_loop_total.
    eapply Forall_impl; [|exact Hl]. intros x Hx. apply IH. exact Hx.
  - destruct (tok_array _ _ _ H) as [l [-> [_ [_ Hl]]]]. rewrite normalize_slice_loop. apply slice_loop_total.
    eapply Forall_impl; [|exact Hl]. intros x Hx. apply IH. exact Hx.
Qed.

Theorem normalize_typed : forall t g, rt_ty t = true -> type_ok t g = true -> exists v, normalize g = NOk v.
Proof. intros t g _. apply norm_total. Qed.

Theorem normalize_typed_struct : forall fs g, rt_ty (TyStruct fs) = true -> type_ok (TyStruct fs) g = true ->
  exists d, normalize g = NOk (VObj d).
Proof.
  intros fs g _ H. destruct (norm_total _ _ H) as [v Hv].
  destruct (tok_struct _ _ H) as [gfs [-> _]]. pose proof Hv as Hv'. rewrite normalize_struct_loop in Hv'.
  destruct (struct_loop_obj _ _ _ Hv') as [d ->]. eauto.
Qed.

(* ================================================================== *)
(** * 5. Shapes, sortedness *)

Definition is_map_ty (t : gotype) : bool := match t with TyMap _ => true | _ => false end.

Lemma struct_shape : forall t g v, is_struct_ty t = true -> type_ok t g = true -> normalize g = NOk v ->
  (exists d, v = VObj d) \/ (v = VNil /\ is_ptr_ty t = true).
Proof.
  induction t; intros g v Hs Ht Hn; try discriminate.
  - destruct (tok_ptr _ _ Ht) as [->|[g' [-> H']]].
    + cbn in Hn. inversion Hn. right. split; reflexivity.
    + cbn [normalize] in Hn. cbn [is_struct_ty] in Hs. destruct (IHt g' v Hs H' Hn) as [?|[? _]]; [left; assumption|].
      right. split; [assumption|reflexivity].
  - destruct (tok_struct _ _ Ht) as [gfs [-> _]]. rewrite normalize_struct_loop in Hn.
    left. exact (struct_loop_obj _ _ _ Hn).
Qed.

Lemma map_loop_obj : forall es acc v, map_loop es acc = NOk v -> exists d, v = VObj d.
Proof.
  induction es as [|[k x] t IH]; intros acc v H.
  - cbn in H. inversion H. eauto.
  - cbn [map_loop] in H. destruct (normalize x); [eauto|discriminate|eauto].
Qed.

Lemma slice_loop_arr : forall l acc v, slice_loop l acc = NOk v -> exists vs, v = VArr vs.
Proof.
  induction l as [|x t IH]; intros acc v H.
  - cbn in H. inversion H. eauto.
  - cbn [slice_loop] in H. destruct (normalize x); [eauto|discriminate|eauto].
Qed.

Lemma obj_shape : forall t g o, type_ok t g = true -> normalize g = NOk (VObj o) ->
  is_struct_ty t = true \/ is_map_ty (elem_type t) = true.
Proof.
  induction t; intros g o Ht Hn;
    try (cbn [type_ok] in Ht; destruct g; try discriminate; cbn [normalize] in Hn; discriminate).
  - destruct (tok_ptr _ _ Ht) as [->|[g' [-> H']]]; [discriminate|]. cbn [normalize] in Hn.
    exact (IHt g' o H' Hn).
  - left. reflexivity.
  - right. reflexivity.
  - destruct (tok_slice _ _ Ht) as [l [-> _]]. rewrite normalize_slice_loop in Hn.
    destruct (slice_loop_arr _ _ _ Hn). discriminate.
  - destruct (tok_array _ _ _ Ht) as [l [-> _]]. rewrite normalize_slice_loop in Hn.
    destruct (slice_loop_arr _ _ _ Hn). discriminate.
Qed.

Lemma struct_loop_sorted : forall gfs acc d, keys_sorted acc = true -> struct_loop gfs acc = NOk (VObj d) ->
  keys_sorted d = true.
Proof.
  induction gfs as [|[name e tag a i x] t IH]; intros acc d Hs H.
  - cbn in H. inversion H; subst. exact Hs.
  - rewrite struct_loop_cons in H.
    destruct (negb e); [eauto|]. destruct (tag_omitempty tag && is_empty_value i x); [eauto|].
    destruct (normalize x) as [w| |]; [|discriminate|].
    + destruct a; [destruct w|]; try (eapply IH; [|exact H]; apply obj_set_sorted; exact Hs).
      eapply IH; [|exact H]. apply merge_obj_sorted. exact Hs.
    + eapply IH; [|exact H]; apply obj_set_sorted; exact Hs.
Qed.

Lemma map_loop_sorted : forall es acc d, keys_sorted acc = true -> map_loop es acc = NOk (VObj d) ->
  keys_sorted d = true.
Proof.
  induction es as [|[k x] t IH]; intros acc d Hs H.
  - cbn in H. inversion H; subst. exact Hs.
  - cbn [map_loop] in H. destruct (normalize x); [|discriminate|];
      (eapply IH; [|exact H]; apply obj_set_sorted; exact Hs).
Qed.

Lemma norm_obj_sorted : forall t g d, type_ok t g = true -> normalize g = NOk (VObj d) -> keys_sorted d = true.
Proof.
  induction t; intros g d Ht Hn;
    try (cbn [type_ok] in Ht; destruct g; try discriminate; cbn [normalize] in Hn; discriminate).
  - destruct (tok_ptr _ _ Ht) as [->|[g' [-> H']]]; [discriminate|]. cbn [normalize] in Hn. eauto.
  - destruct (tok_struct _ _ Ht) as [gfs [-> _]]. rewrite normalize_struct_loop in Hn.
    eapply struct_loop_sorted; [|exact Hn]. reflexivity.
  - destruct (tok_map _ _ Ht) as [es [-> _]]. rewrite normalize_map_loop in Hn.
    eapply map_loop_sorted; [|exact Hn]. reflexivity.
  - destruct (tok_slice _ _ Ht) as [l [-> _]]. rewrite normalize_slice_loop in Hn.
    destruct (slice_loop_arr _ _ _ Hn). discriminate.
  - destruct (tok_array _ _ _ Ht) as [l [-> _]]. rewrite normalize_slice_loop in Hn.
    destruct (slice_loop_arr _ _ _ Hn). discriminate.
Qed.

(* ================================================================== *)
(** * 6. Invariants of the three loops *)

Lemma Forall_obj_set : forall (P : bytes * value -> Prop) o k v, Forall P o -> P (k, v) -> Forall P (obj_set k v o).
Proof.
  induction o as [|[k' v'] t IH]; intros k v Ho Hp; cbn [obj_set].
  - constructor; [exact Hp|constructor].
  - inversion Ho as [|? ? H1 H2]; subst. destruct (lex k k').
    + constructor; assumption.
    + constructor; assumption.
    + constructor; [assumption|]. apply IH; assumption.
Qed.

Lemma Forall_merge : forall (P : bytes * value -> Prop) o acc, Forall P acc -> Forall P o -> Forall P (merge_obj acc o).
Proof.
  unfold merge_obj. induction o as [|[k v] t IH]; intros acc Ha Ho; [exact Ha|].
  inversion Ho as [|? ? H1 H2]; subst. cbn [fold_left fst snd]. apply IH; [|exact H2].
  apply Forall_obj_set; assumption.
Qed.

Lemma struct_loop_typed_inv : forall (P : bytes * value -> Prop) fs0 fs gfs acc d,
  (forall f, In f fs -> In f fs0) ->
  type_ok_fields fs gfs = true ->
  (forall f x w a, In f fs0 -> tf_exported f = true -> type_ok (tf_type f) x = true -> normalize x = NOk w ->
                   Forall P a -> Forall P (fwrite f w a)) ->
  Forall P acc -> struct_loop gfs acc = NOk (VObj d) -> Forall P d.
Proof.
  intros P fs0. induction fs as [|f tr IHf]; intros gfs acc d Hin Hf HP Ha HL.
  - apply tok_fields_nil in Hf. subst. cbn in HL. inversion HL; subst. exact Ha.
  - destruct (tok_fields_cons _ _ _ Hf) as [gf [gr [-> [H1 H2]]]].
    destruct (tok_field_inv _ _ H1) as [x [-> Hx]]. fold (mkfield f x) in HL.
    assert (Hin' : forall f', In f' tr -> In f' fs0) by (intros; apply Hin; right; assumption).
    destruct (tf_exported f) eqn:He.
    + destruct (norm_total _ _ (Hx eq_refl)) as [w Hw]. rewrite (struct_loop_exp f x gr acc w He Hw) in HL.
      destruct (omitted f x); [eapply IHf; eassumption|].
      eapply IHf; [exact Hin'|exact H2|exact HP| |exact HL].
      apply (HP f x w acc); auto. apply Hin. left. reflexivity.
    + rewrite struct_loop_unexp in HL by exact He. eapply IHf; eassumption.
Qed.

Lemma map_loop_inv : forall (P : bytes * value -> Prop) es acc d,
  (forall kv w, In kv es -> normalize (snd kv) = NOk w -> P (fst kv, w)) ->
  (forall kv, In kv es -> normalize (snd kv) <> NBytes) ->
  Forall P acc -> map_loop es acc = NOk (VObj d) -> Forall P d.
Proof.
  intros P. induction es as [|[k x] t IH]; intros acc d HP HB Ha HL.
  - cbn in HL. inversion HL; subst. exact Ha.
  - cbn [map_loop] in HL. destruct (normalize x) as [w| |] eqn:E; [|discriminate|].
    + eapply IH; [| | |exact HL].
      * intros kv w' Hin. apply HP. right. exact Hin.
      * intros kv Hin. apply HB. right. exact Hin.
      * apply Forall_obj_set; [exact Ha|]. apply (HP (k, x)); [left; reflexivity|exact E].
    + exfalso. apply (HB (k, x)); [left; reflexivity|exact E].
Qed.

Lemma slice_loop_spec : forall l acc v, slice_loop l acc = NOk v ->
  (forall x, In x l -> normalize x <> NBytes) ->
  exists vs, v = VArr (rev acc ++ vs) /\ Forall2 (fun x w => normalize x = NOk w) l vs.
Proof.
  induction l as [|x t IH]; intros acc v H HB.
  - cbn in H. inversion H; subst. exists []. rewrite app_nil_r. split; [reflexivity|constructor].
  - cbn [slice_loop] in H. destruct (normalize x) as [w| |] eqn:E; [|discriminate|].
    + destruct (IH _ _ H) as [vs [-> HF]]; [intros; apply HB; right; assumption|].
      exists (w :: vs). cbn [rev]. rewrite <- app_assoc. split; [reflexivity|]. constructor; assumption.
    + exfalso. apply (HB x); [left; reflexivity|exact E].
Qed.

Lemma typed_not_bytes : forall t g, type_ok t g = true -> normalize g <> NBytes.
Proof. intros t g H. destruct (norm_total _ _ H) as [v ->]. discriminate. Qed.

(* ================================================================== *)
(** * 7. The extra premises the round trip needs (see the _refuted examples at the end) *)

(* a pointer type whose pointee can normalise to nil: with omitempty, a pointer to nil is stored as nil,
   comes back as a nil pointer, and is then omitted *)
Definition omit_ptr_bad (t : gotype) : bool :=
  match t with TyPtr (TyPtr _) | TyPtr TyIface => true | _ => false end.

Definition extra_field (f : tfield) : bool :=
  negb (tf_anon f && is_map_ty (elem_type (tf_type f))) &&      (* an embedded map type is merged by Normalize *)
  negb (tag_omitempty (tf_tag f) && omit_ptr_bad (tf_type f)).

(* renameValue also visits unexported fields: their names must not be the json name of an exported field *)
Definition unexp_clear (t : gotype) : bool :=
  forallb (fun u => negb (existsb (beqb (field_to u)) (exported_names (struct_fields t))))
          (filter (fun u => negb (tf_exported u)) (struct_fields t)).

Fixpoint rt_extra (t : gotype) {struct t} : bool :=
  match t with
  | TyPtr p | TyMap p | TySlice p | TyArray _ p => rt_extra p
  | TyStruct fs =>
      unexp_clear t &&
      (fix go (fs : list tfield) : bool :=
         match fs with
         | [] => true
         | TField n e tg jt an ft :: rest =>
             (if e then extra_field (TField n e tg jt an ft) && rt_extra ft else true) && go rest
         end) fs
  | _ => true
  end.

Definition xf (f : tfield) : bool := if tf_exported f then extra_field f && rt_extra (tf_type f) else true.

Lemma rt_extra_struct : forall fs, rt_extra (TyStruct fs) = unexp_clear (TyStruct fs) && forallb xf fs.
Proof.
  intros fs. cbn [rt_extra]. f_equal.
  induction fs as [|[n e tg jt an ft] r IH]; [reflexivity|].
  cbn [forallb]. rewrite <- IH. reflexivity.
Qed.

(* ---- facts about declared fields ---- *)

Lemma tag_name_nil : tag_name [] = [].
Proof. reflexivity. Qed.
Lemma tag_omitempty_nil : tag_omitempty [] = false.
Proof. reflexivity. Qed.

Lemma emb_facts : forall f, rt_field f = true -> is_emb f = true ->
  tf_exported f = true /\ tf_tag f = [] /\ tf_jtag f = None.
Proof.
  intros f H He. unfold rt_field in H. apply andb_true_iff in H. destruct H as [H _].
  apply andb_true_iff in H. destruct H as [H _]. unfold field_decl_ok in H.
  apply andb_true_iff in H. destruct H as [_ H]. unfold is_emb in He. rewrite He in H.
  destruct (tf_exported f).
  - destruct (tf_tag f); [|discriminate]. destruct (tf_jtag f); [discriminate|]. auto.
  - destruct (tf_tag f); [|discriminate]. destruct (tf_jtag f); discriminate.
Qed.

Lemma unexp_facts : forall f, rt_field f = true -> tf_exported f = false ->
  tf_tag f = [] /\ tf_jtag f = None /\ is_emb f = false.
Proof.
  intros f H He. unfold rt_field in H. apply andb_true_iff in H. destruct H as [H _].
  apply andb_true_iff in H. destruct H as [H _]. unfold field_decl_ok in H.
  apply andb_true_iff in H. destruct H as [_ H]. rewrite He in H. unfold is_emb.
  destruct (tf_tag f); [|discriminate]. destruct (tf_jtag f); [discriminate|].
  apply negb_true_iff in H. auto.
Qed.

Lemma rt_field_ty : forall f, rt_field f = true -> tf_exported f = true -> rt_ty (tf_type f) = true.
Proof. intros f H He. unfold rt_field in H. rewrite He in H. apply andb_true_iff in H. apply H. Qed.

Lemma xf_ty : forall f, xf f = true -> tf_exported f = true -> rt_extra (tf_type f) = true /\ extra_field f = true.
Proof. intros f H He. unfold xf in H. rewrite He in H. apply andb_true_iff in H. tauto. Qed.

Lemma emb_from : forall f, rt_field f = true -> is_emb f = true -> field_from f = tf_name f.
Proof. intros f H He. destruct (emb_facts f H He) as [_ [Ht _]]. unfold field_from. rewrite Ht. reflexivity. Qed.

Lemma emb_not_omitted : forall f x, rt_field f = true -> is_emb f = true -> omitted f x = false.
Proof. intros f x H He. destruct (emb_facts f H He) as [_ [Ht _]]. unfold omitted. rewrite Ht. reflexivity. Qed.

Lemma fwrite_cases : forall f x w a,
  rt_field f = true -> extra_field f = true -> tf_exported f = true ->
  type_ok (tf_type f) x = true -> normalize x = NOk w ->
  (is_emb f = true /\
     ((exists dx, w = VObj dx /\ fwrite f w a = merge_obj a dx) \/
      (w = VNil /\ is_ptr_ty (tf_type f) = true /\ fwrite f w a = obj_set (tf_name f) VNil a)))
  \/ (is_emb f = false /\ fwrite f w a = obj_set (field_from f) w a).
Proof.
  intros f x w a Hr Hx He Ht Hn. destruct (is_emb f) eqn:Hemb.
  - left. split; [reflexivity|]. pose proof Hemb as Hemb'. unfold is_emb in Hemb'.
    apply andb_true_iff in Hemb'. destruct Hemb' as [Ha Hs].
    destruct (struct_shape _ _ _ Hs Ht Hn) as [[dx ->]|[-> Hp]].
    + left. exists dx. split; [reflexivity|]. unfold fwrite. rewrite Ha. reflexivity.
    + right. repeat split; [exact Hp|]. unfold fwrite. rewrite Ha. rewrite emb_from by assumption. reflexivity.
  - right. split; [reflexivity|]. unfold fwrite. destruct (tf_anon f) eqn:Ha; [|reflexivity].
    destruct w; try reflexivity. exfalso.
    destruct (obj_shape _ _ _ Ht Hn) as [Hs|Hm].
    + unfold is_emb in Hemb. rewrite Ha, Hs in Hemb. discriminate.
    + unfold extra_field in Hx. rewrite Ha, Hm in Hx. discriminate.
Qed.

(* ================================================================== *)
(** * 8. The document passes json.Marshal *)

Definition jgood (kv : bytes * value) : Prop := ascii (fst kv) = true /\ json_ok (snd kv) = UOk tt.

Lemma json_ok_obj : forall o, Forall jgood o -> json_ok (VObj o) = UOk tt.
Proof.
  intros o H. cbn [json_ok]. induction H as [|[k x] t [H1 H2] _ IH]; [reflexivity|].
  cbn [fst snd] in *. rewrite H1, H2. cbn [ubind]. exact IH.
Qed.

Lemma json_ok_arr : forall l, Forall (fun x => json_ok x = UOk tt) l -> json_ok (VArr l) = UOk tt.
Proof.
  intros l H. cbn [json_ok]. induction H as [|x t H1 _ IH]; [reflexivity|].
  rewrite H1. cbn [ubind]. exact IH.
Qed.

Lemma json_ok_obj_inv : forall o, json_ok (VObj o) = UOk tt -> Forall jgood o.
Proof.
  intros o. cbn [json_ok]. induction o as [|[k x] t IH]; intros H; [constructor|].
  destruct (ascii k) eqn:E; [|discriminate]. destruct (json_ok x) as [[]| |] eqn:E2; try discriminate.
  cbn [ubind] in H. constructor; [split; assumption|]. exact (IH H).
Qed.

Lemma split_on_forallb : forall (p : N -> bool) sep s, forallb p s = true ->
  Forall (fun piece => forallb p piece = true) (split_on sep s).
Proof.
  intros p sep. induction s as [|x t IH]; intros H.
  - cbn. constructor; [reflexivity|constructor].
  - cbn [forallb] in H. apply andb_true_iff in H. destruct H as [H1 H2]. specialize (IH H2).
    cbn [split_on]. destruct (N.eqb x sep).
    + constructor; [reflexivity|exact IH].
    + destruct (split_on sep t) as [|h r]; [constructor; [cbn; rewrite H1; reflexivity|constructor]|].
      inversion IH as [|? ? I1 I2]; subst. constructor; [|exact I2]. cbn [forallb]. rewrite H1, I1. reflexivity.
Qed.

Lemma ascii_tag_name : forall tag, ascii tag = true -> ascii (tag_name tag) = true.
Proof.
  intros tag H. unfold tag_name. pose proof (split_on_forallb _ ch_comma tag H) as HF.
  destruct (split_on ch_comma tag); [reflexivity|]. inversion HF; subst. assumption.
Qed.

Lemma ascii_field_from : forall f, rt_field f = true -> ascii (field_from f) = true.
Proof.
  intros f H. unfold rt_field in H. apply andb_true_iff in H. destruct H as [H _].
  apply andb_true_iff in H. destruct H as [H _]. unfold field_decl_ok in H.
  apply andb_true_iff in H. destruct H as [H _]. apply andb_true_iff in H. destruct H as [H _].
  apply andb_true_iff in H. destruct H as [Hn Ht]. unfold name_ok in Hn.
  apply andb_true_iff in Hn. destruct Hn as [Hn _]. apply andb_true_iff in Hn. destruct Hn as [Hn _].
  unfold field_from. pose proof (ascii_tag_name _ Ht) as Hq. destruct (tag_name (tf_tag f)); assumption.
Qed.

Lemma fwrite_Forall : forall (P : bytes * value -> Prop) f w a,
  Forall P a -> P (field_from f, w) -> (forall o, w = VObj o -> Forall P o) -> Forall P (fwrite f w a).
Proof.
  intros P f w a Ha Hp Ho. unfold fwrite. destruct (tf_anon f); [|apply Forall_obj_set; assumption].
  destruct w; try (apply Forall_obj_set; assumption). apply Forall_merge; [exact Ha|]. apply Ho. reflexivity.
Qed.

Lemma finite_json : forall b, finite b = true -> is_nan b || is_inf b = false.
Proof.
  intros b H. unfold finite in H. destruct (is_nan b); [cbn [negb andb] in H; discriminate|].
  destruct (is_inf b); [cbn [negb andb] in H; discriminate|]. reflexivity.
Qed.

Lemma norm_json : forall t, rt_ty t = true -> forall g v, type_ok t g = true -> normalize g = NOk v ->
  json_ok v = UOk tt.
Proof.
  induction t as [b|b| | | | | |p IH|fs IH|e IH|e IH|n e IH| ] using gotype_nind; intros Hrt g v H Hn.
  - cbn [type_ok] in H. destruct g; try discriminate. cbn in Hn. inversion Hn. reflexivity.
  - cbn [type_ok] in H. destruct g; try discriminate. cbn in Hn. inversion Hn. reflexivity.
  - cbn [type_ok] in H. destruct g; try discriminate. cbn [normalize] in Hn. inversion Hn; subst.
    apply andb_true_iff in H. destruct H as [H _]. cbn [json_ok]. rewrite (finite_json _ H). reflexivity.
  - cbn [type_ok] in H. destruct g; try discriminate. cbn [normalize] in Hn. inversion Hn; subst.
    cbn [json_ok]. rewrite (finite_json _ H). reflexivity.
  - cbn [type_ok] in H. destruct g; try discriminate. cbn [normalize] in Hn. inversion Hn; subst.
    cbn [json_ok]. rewrite H. reflexivity.
  - cbn [type_ok] in H. destruct g; try discriminate. cbn in Hn. inversion Hn. reflexivity.
  - cbn [type_ok] in H. destruct g; try discriminate. cbn [normalize] in Hn. inversion Hn; subst.
    apply andb_true_iff in H; destruct H as [H _]. apply andb_true_iff in H; destruct H as [H _].
    apply andb_true_iff in H; destruct H as [H H2]. cbn [json_ok]. rewrite H, H2. reflexivity.
  - destruct (tok_ptr _ _ H) as [->|[g' [-> H']]]; [cbn in Hn; inversion Hn; reflexivity|].
    cbn [normalize] in Hn. exact (IH Hrt g' v H' Hn).
  - destruct (tok_struct _ _ H) as [gfs [-> Hf]]. rewrite normalize_struct_loop in Hn.
    destruct (struct_loop_obj _ _ _ Hn) as [d ->]. apply json_ok_obj.
    rewrite rt_ty_struct in Hrt. apply andb_true_iff in Hrt. destruct Hrt as [_ Hrf].
    rewrite forallb_forall in Hrf. rewrite Forall_forall in IH.
    eapply (struct_loop_typed_inv jgood fs fs gfs [] d); [auto|exact Hf| |constructor|exact Hn].
    intros f x w a Hin He Hx Hw Ha. specialize (Hrf f Hin).
    assert (Hjw : json_ok w = UOk tt) by (eapply (IH f Hin); [apply rt_field_ty; assumption|exact Hx|exact Hw]).
    apply fwrite_Forall; [exact Ha| |].
    + split; [apply ascii_field_from; exact Hrf|exact Hjw].
    + intros o ->. apply json_ok_obj_inv. exact Hjw.
  - cbn [rt_ty] in Hrt. apply andb_true_iff in Hrt. destruct Hrt as [_ Hrt].
    destruct (tok_map _ _ H) as [es [-> [_ Hes]]]. rewrite normalize_map_loop in Hn.
    destruct (map_loop_obj _ _ _ Hn) as [d ->]. apply json_ok_obj. rewrite Forall_forall in Hes.
    eapply (map_loop_inv jgood es [] d); [| |constructor|exact Hn].
    + intros kv w Hin Hw. destruct (Hes kv Hin) as [Ha Ht]. split; [exact Ha|]. exact (IH Hrt _ _ Ht Hw).
    + intros kv Hin. destruct (Hes kv Hin) as [_ Ht]. eapply typed_not_bytes; exact Ht.
  - cbn [rt_ty] in Hrt. apply andb_true_iff in Hrt. destruct Hrt as [_ Hrt].
    destruct (tok_slice _ _ H) as [l [-> [_ Hl]]]. rewrite normalize_slice_loop in Hn. rewrite Forall_forall in Hl.
    destruct (slice_loop_spec _ _ _ Hn) as [vs [-> HF]]; [intros x Hin; eapply typed_not_bytes; apply Hl; exact Hin|].
    apply json_ok_arr. cbn [rev app]. clear Hn H. induction HF as [|x w l' vs' Hxw _ IHF]; [constructor|].
    constructor; [|apply IHF; intros; apply Hl; right; assumption].
    eapply IH; [exact Hrt| |exact Hxw]. apply Hl. left. reflexivity.
  - cbn [rt_ty] in Hrt. apply andb_true_iff in Hrt. destruct Hrt as [_ Hrt].
    destruct (tok_array _ _ _ H) as [l [-> [_ [_ Hl]]]]. rewrite normalize_slice_loop in Hn. rewrite Forall_forall in Hl.
    destruct (slice_loop_spec _ _ _ Hn) as [vs [-> HF]]; [intros x Hin; eapply typed_not_bytes; apply Hl; exact Hin|].
    apply json_ok_arr. cbn [rev app]. clear Hn H. induction HF as [|x w l' vs' Hxw _ IHF]; [constructor|].
    constructor; [|apply IHF; intros; apply Hl; right; assumption].
    eapply IH; [exact Hrt| |exact Hxw]. apply Hl. left. reflexivity.
  - cbn [type_ok] in H. destruct g; try discriminate; cbn [normalize] in Hn; inversion Hn; subst; try reflexivity.
    + cbn [iface_ok] in H. cbn [json_ok]. rewrite (finite_json _ H). reflexivity.
    + cbn [iface_ok] in H. cbn [json_ok]. rewrite H. reflexivity.
Qed.

(* ================================================================== *)
(** * 9. Which keys a normalised struct holds, and what is stored under them *)

Lemma K_incl : forall fs f k, In f fs -> In k (K f) -> In k (names (TyStruct fs)).
Proof.
  induction fs as [|f0 tr IH]; intros f k Hin Hk; [destruct Hin|].
  apply names_cons_in. destruct Hin as [->|Hin]; [left; exact Hk|right; eapply IH; eassumption].
Qed.

Lemma doc_keys : forall t, rt_ty t = true -> rt_extra t = true -> is_struct_ty t = true ->
  forall g d, type_ok t g = true -> normalize g = NOk (VObj d) ->
  Forall (fun kv => In (fst kv) (names t)) d.
Proof.
  induction t as [b|b| | | | | |p IH|fs IH|e IH|e IH|n e IH| ] using gotype_nind;
    intros Hrt Hex Hs g d H Hn; try discriminate.
  - destruct (tok_ptr _ _ H) as [->|[g' [-> H']]]; [discriminate|]. cbn [normalize] in Hn.
    rewrite names_ptr. exact (IH Hrt Hex Hs g' d H' Hn).
  - destruct (tok_struct _ _ H) as [gfs [-> Hf]]. rewrite normalize_struct_loop in Hn.
    rewrite rt_ty_struct in Hrt. apply andb_true_iff in Hrt. destruct Hrt as [_ Hrf].
    rewrite rt_extra_struct in Hex. apply andb_true_iff in Hex. destruct Hex as [_ Hxf].
    rewrite forallb_forall in Hrf, Hxf. rewrite Forall_forall in IH.
    eapply (struct_loop_typed_inv _ fs fs gfs [] d); [auto|exact Hf| |constructor|exact Hn].
    intros f x w a Hin He Hx Hw Ha. specialize (Hrf f Hin). specialize (Hxf f Hin).
    destruct (xf_ty _ Hxf He) as [Hxt Hxe].
    destruct (fwrite_cases f x w a Hrf Hxe He Hx Hw) as [[Hemb [[dx [-> ->]]|[-> [Hp ->]]]]|[Hemb ->]].
    + apply Forall_merge; [exact Ha|].
      assert (Hs' : is_struct_ty (tf_type f) = true) by (unfold is_emb in Hemb; apply andb_true_iff in Hemb; apply Hemb).
      pose proof (IH f Hin (rt_field_ty _ Hrf He) Hxt Hs' x dx Hx Hw) as Hd.
      eapply Forall_impl; [|exact Hd]. intros kv Hk. cbn beta in *.
      apply (K_incl fs f); [exact Hin|]. apply K_emb_in; [exact Hemb|]. left. exact Hk.
    + apply Forall_obj_set; [exact Ha|]. cbn [fst].
      apply (K_incl fs f); [exact Hin|]. apply K_emb_in; [exact Hemb|]. right. split; [exact Hp|reflexivity].
    + apply Forall_obj_set; [exact Ha|]. cbn [fst].
      apply (K_incl fs f); [exact Hin|]. rewrite K_reg by exact Hemb. rewrite He. left. reflexivity.
Qed.

Lemma doc_keys_get : forall t g d k x, rt_ty t = true -> rt_extra t = true -> is_struct_ty t = true ->
  type_ok t g = true -> normalize g = NOk (VObj d) -> obj_get k d = Some x -> In k (names t).
Proof.
  intros t g d k x Hrt Hex Hs H Hn Hg. pose proof (doc_keys t Hrt Hex Hs g d H Hn) as HF.
  rewrite Forall_forall in HF. apply obj_get_In in Hg. exact (HF _ Hg).
Qed.

(* the effect of one declared field on the accumulator *)
Definition step (f : tfield) (x : goval) (w : value) (acc : obj) : obj :=
  if tf_exported f then (if omitted f x then acc else fwrite f w acc) else acc.

Lemma obj_get_set : forall k k' v o,
  obj_get k' (obj_set k v o) = if beqb k' k then Some v else obj_get k' o.
Proof.
  intros k k' v o. destruct (beqb k' k) eqn:E.
  - apply beqb_true_iff in E. subst. apply DocumentProofs.obj_get_set_same.
  - apply beqb_false_iff in E. apply DocumentProofs.obj_get_set_other. congruence.
Qed.

Section Step.
  Variables (f : tfield) (x : goval) (w : value) (acc : obj).
  Hypothesis Hrf : rt_field f = true.
  Hypothesis Hxf : xf f = true.
  Hypothesis Hx : tf_exported f = true -> type_ok (tf_type f) x = true.
  Hypothesis Hw : tf_exported f = true -> normalize x = NOk w.

  Lemma step_other : forall k, ~ In k (K f) -> obj_get k (step f x w acc) = obj_get k acc.
  Proof.
    intros k Hk. unfold step. destruct (tf_exported f) eqn:He; [|reflexivity].
    destruct (omitted f x); [reflexivity|]. destruct (xf_ty _ Hxf He) as [Hxt Hxe].
    destruct (fwrite_cases f x w acc Hrf Hxe He (Hx eq_refl) (Hw eq_refl)) as [[Hemb [[dx [-> ->]]|[-> [Hp ->]]]]|[Hemb ->]].
    - assert (Hs' : is_struct_ty (tf_type f) = true) by (unfold is_emb in Hemb; apply andb_true_iff in Hemb; apply Hemb).
      rewrite obj_get_merge.
      + destruct (obj_get k dx) as [v|] eqn:E; [|reflexivity]. exfalso. apply Hk.
        apply K_emb_in; [exact Hemb|]. left.
        eapply doc_keys_get; [apply rt_field_ty; eassumption|exact Hxt|exact Hs'|exact (Hx eq_refl)|exact (Hw eq_refl)|exact E].
      + apply sorted_NoDup. eapply norm_obj_sorted; [exact (Hx eq_refl)|exact (Hw eq_refl)].
    - rewrite obj_get_set. destruct (beqb k (tf_name f)) eqn:E; [|reflexivity].
      apply beqb_true_iff in E. exfalso. apply Hk. apply K_emb_in; [exact Hemb|]. right. split; assumption.
    - rewrite obj_get_set. destruct (beqb k (field_from f)) eqn:E; [|reflexivity].
      apply beqb_true_iff in E. exfalso. apply Hk. rewrite K_reg by exact Hemb. rewrite He. left. congruence.
  Qed.

  Lemma step_reg : tf_exported f = true -> is_emb f = false ->
    obj_get (field_from f) (step f x w acc) = if omitted f x then obj_get (field_from f) acc else Some w.
  Proof.
    intros He Hemb. unfold step. rewrite He. destruct (omitted f x); [reflexivity|].
    destruct (xf_ty _ Hxf He) as [Hxt Hxe].
    destruct (fwrite_cases f x w acc Hrf Hxe He (Hx He) (Hw He)) as [[Hemb' _]|[_ ->]]; [congruence|].
    apply DocumentProofs.obj_get_set_same.
  Qed.

  Lemma step_emb : is_emb f = true -> NoDup (K f) -> forall k, In k (names (tf_type f)) ->
    obj_get k (step f x w acc) =
    match w with
    | VObj dx => match obj_get k dx with Some v => Some v | None => obj_get k acc end
    | _ => obj_get k acc
    end.
  Proof.
    intros Hemb Hnd k Hk. destruct (emb_facts f Hrf Hemb) as [He _]. unfold step. rewrite He.
    rewrite emb_not_omitted by assumption. destruct (xf_ty _ Hxf He) as [Hxt Hxe].
    destruct (fwrite_cases f x w acc Hrf Hxe He (Hx He) (Hw He)) as [[_ [[dx [-> ->]]|[-> [Hp ->]]]]|[Hemb' _]];
      [| |congruence].
    - apply obj_get_merge. apply sorted_NoDup. eapply norm_obj_sorted; [exact (Hx He)|exact (Hw He)].
    - rewrite obj_get_set. destruct (beqb k (tf_name f)) eqn:E; [|reflexivity].
      apply beqb_true_iff in E. subst k. exfalso.
      destruct (K_emb_nodup f Hemb Hnd) as [_ Hni]. exact (Hni Hp Hk).
  Qed.
End Step.

Lemma struct_loop_step : forall f x gr acc w,
  (tf_exported f = true -> normalize x = NOk w) ->
  struct_loop (mkfield f x :: gr) acc = struct_loop gr (step f x w acc).
Proof.
  intros f x gr acc w Hw. unfold step. destruct (tf_exported f) eqn:He.
  - rewrite (struct_loop_exp f x gr acc w He (Hw eq_refl)). destruct (omitted f x); reflexivity.
  - apply struct_loop_unexp. exact He.
Qed.

(* the facts about the document of a struct value, relative to an initial accumulator *)
Definition field_fact (d acc : obj) (f : tfield) (x : goval) : Prop :=
  tf_exported f = true -> forall w, normalize x = NOk w ->
  (is_emb f = false ->
     obj_get (field_from f) d = if omitted f x then obj_get (field_from f) acc else Some w) /\
  (is_emb f = true -> forall k, In k (names (tf_type f)) ->
     obj_get k d = match w with
                   | VObj dx => match obj_get k dx with Some v => Some v | None => obj_get k acc end
                   | _ => obj_get k acc
                   end).

Lemma loop_facts : forall fs gfs acc d,
  forallb rt_field fs = true -> forallb xf fs = true -> NoDup (names (TyStruct fs)) ->
  type_ok_fields fs gfs = true -> struct_loop gfs acc = NOk (VObj d) ->
  (forall k, ~ In k (names (TyStruct fs)) -> obj_get k d = obj_get k acc) /\
  (forall f x, In (f, mkfield f x) (combine fs gfs) -> field_fact d acc f x).
Proof.
  induction fs as [|f tr IH]; intros gfs acc d Hrf Hxf Hnd Hf HL.
  - apply tok_fields_nil in Hf. subst. cbn in HL. inversion HL; subst. split; [reflexivity|intros ? ? []].
  - destruct (tok_fields_cons _ _ _ Hf) as [gf [gr [-> [H1 H2]]]].
    destruct (tok_field_inv _ _ H1) as [x [-> Hx]]. fold (mkfield f x) in *.
    cbn [forallb] in Hrf, Hxf. apply andb_true_iff in Hrf, Hxf. destruct Hrf as [Hrf Hrfs], Hxf as [Hxf Hxfs].
    destruct (names_cons_nodup _ _ Hnd) as [HndK [Hndr Hdisj]].
    assert (Hw : exists w, tf_exported f = true -> normalize x = NOk w).
    { destruct (tf_exported f); [|exists VNil; discriminate].
      destruct (norm_total _ _ (Hx eq_refl)) as [w Hw]. exists w. auto. }
    destruct Hw as [w Hw]. rewrite (struct_loop_step f x gr acc w Hw) in HL.
    destruct (IH gr _ d Hrfs Hxfs Hndr H2 HL) as [IH1 IH2]. split.
    + intros k Hk. rewrite IH1 by (intros Hc; apply Hk; apply names_cons_in; right; exact Hc).
      apply (step_other f x w acc Hrf Hxf Hx Hw). intros Hc. apply Hk. apply names_cons_in. left. exact Hc.
    + intros f0 x0 Hin. cbn [combine] in Hin. destruct Hin as [Hin|Hin].
      * inversion Hin; subst f0. assert (x0 = x) by (unfold mkfield in *; congruence). subst x0. clear Hin.
        intros He w' Hw'. rewrite (Hw He) in Hw'. inversion Hw'; subst w'. split.
        -- intros Hemb. rewrite IH1.
           ++ apply (step_reg f x w acc Hrf Hxf Hx Hw He Hemb).
           ++ intros Hc. eapply Hdisj; [|exact Hc]. rewrite K_reg by exact Hemb. rewrite He. left. reflexivity.
        -- intros Hemb k Hk. rewrite IH1.
           ++ apply (step_emb f x w acc Hrf Hxf Hx Hw Hemb HndK k Hk).
           ++ intros Hc. eapply Hdisj; [|exact Hc]. apply K_emb_in; [exact Hemb|]. left. exact Hk.
      * assert (Hf0 : In f0 tr) by (apply in_combine_l in Hin; exact Hin).
        specialize (IH2 f0 x0 Hin). intros He w' Hw'. destruct (IH2 He w' Hw') as [A B].
        assert (Hoth : forall k, In k (K f0) -> obj_get k (step f x w acc) = obj_get k acc).
        { intros k Hk. apply (step_other f x w acc Hrf Hxf Hx Hw). intros Hc.
          apply (Hdisj k Hc). eapply K_incl; eassumption. }
        split.
        -- intros Hemb. rewrite (A Hemb). rewrite Hoth; [reflexivity|].
           rewrite K_reg by exact Hemb. rewrite He. left. reflexivity.
        -- intros Hemb k Hk. rewrite (B Hemb k Hk). rewrite Hoth; [reflexivity|].
           apply K_emb_in; [exact Hemb|]. left. exact Hk.
Qed.

(* ================================================================== *)
(** * 10. clover's renaming *)

Definition rho (F : list tfield) (k : bytes) : bytes :=
  match rename_lookup F k with Some k' => k' | None => k end.

Lemma rename_obj_rfold : forall F o, rename_obj F o = rfold (rho F) o [].
Proof. reflexivity. Qed.

Lemma rl_some : forall F k k', rename_lookup F k = Some k' ->
  exists f, In f F /\ field_from f = k /\ field_to f = k' /\ field_from f <> field_to f.
Proof.
  induction F as [|f r IH]; intros k k' H; [discriminate|].
  cbn [rename_lookup] in H. destruct (rename_lookup r k) as [q|] eqn:E.
  - inversion H; subst. destruct (IH _ _ E) as [f' [Hin Hf]]. exists f'. split; [right; exact Hin|exact Hf].
  - destruct (beqb (field_from f) k && negb (beqb (field_from f) (field_to f))) eqn:C; [|discriminate].
    inversion H; subst. apply andb_true_iff in C. destruct C as [C1 C2].
    apply beqb_true_iff in C1. apply negb_true_iff in C2. apply beqb_false_iff in C2.
    exists f. split; [left; reflexivity|]. auto.
Qed.

Lemma rl_none : forall F k, rename_lookup F k = None ->
  forall f, In f F -> field_from f = k -> field_from f = field_to f.
Proof.
  induction F as [|f r IH]; intros k H f0 Hin Hk; [destruct Hin|].
  cbn [rename_lookup] in H. destruct (rename_lookup r k) as [q|] eqn:E; [discriminate|].
  destruct Hin as [->|Hin]; [|exact (IH _ E _ Hin Hk)].
  rewrite Hk, beqb_refl in H. cbn [andb] in H.
  destruct (beqb k (field_to f0)) eqn:C; [|discriminate]. apply beqb_true_iff in C. congruence.
Qed.

Lemma struct_level_ok_ptr : forall p, struct_level_ok (TyPtr p) = struct_level_ok p.
Proof. reflexivity. Qed.

Lemma rt_level : forall t, rt_ty t = true -> is_struct_ty t = true -> struct_level_ok t = true.
Proof.
  induction t; intros H Hs; try discriminate.
  - rewrite struct_level_ok_ptr. apply IHt; assumption.
  - rewrite rt_ty_struct in H. apply andb_true_iff in H. apply H.
Qed.

Lemma flat_rt_field : forall t, rt_ty t = true -> is_struct_ty t = true ->
  forall f, In f (struct_fields t) -> rt_field f = true /\ is_emb f = false.
Proof.
  induction t as [b|b| | | | | |p IH|fs IH|e IH|e IH|n e IH| ] using gotype_nind; intros H Hs f Hin; try discriminate.
  - rewrite struct_fields_ptr in Hin. exact (IH H Hs f Hin).
  - rewrite rt_ty_struct in H. apply andb_true_iff in H. destruct H as [_ H].
    clear Hs. induction fs as [|f0 tr IHf]; [destruct Hin|].
    inversion IH as [|? ? I1 I2]; subst. cbn [forallb] in H. apply andb_true_iff in H. destruct H as [H0 H].
    rewrite struct_fields_cons in Hin. apply in_app_iff in Hin. destruct Hin as [Hin|Hin]; [|exact (IHf I2 H Hin)].
    unfold sf1 in Hin. destruct (is_emb f0) eqn:E.
    + destruct (emb_facts f0 H0 E) as [He _]. apply I1; [apply rt_field_ty; assumption| |exact Hin].
      unfold is_emb in E. apply andb_true_iff in E. apply E.
    + destruct Hin as [<-|[]]. auto.
Qed.

Lemma fold_eq_refl : forall a, fold_eq a a = true.
Proof. intros. unfold fold_eq. apply beqb_refl. Qed.
Lemma fold_eq_sym : forall a b, fold_eq a b = fold_eq b a.
Proof. intros. unfold fold_eq. apply beqb_sym. Qed.
Lemma fold_eq_false_ne : forall a b, fold_eq a b = false -> a <> b.
Proof. intros a b H E. subst. rewrite fold_eq_refl in H. discriminate. Qed.

Section Level.
  Variable t : gotype.
  Hypothesis Hrt : rt_ty t = true.
  Hypothesis Hs : is_struct_ty t = true.

  Let F := struct_fields t.

  Lemma lvl_names : pairwise beqb (names t) = true.
  Proof. pose proof (rt_level t Hrt Hs) as H. rewrite struct_level_ok_eq in H. apply andb_true_iff in H. apply H. Qed.
  Lemma lvl_tnames : pairwise fold_eq (tnames t) = true.
  Proof. pose proof (rt_level t Hrt Hs) as H. rewrite struct_level_ok_eq in H. apply andb_true_iff in H. apply H. Qed.

  Lemma from_inj : forall f1 f2, In f1 (xflat t) -> In f2 (xflat t) -> field_from f1 = field_from f2 -> f1 = f2.
  Proof.
    intros f1 f2 H1 H2 E. eapply (pairwise_map_inj _ _ beqb field_from); try eassumption; [apply beqb_refl|].
    eapply pairwise_app_l. exact lvl_names.
  Qed.

  Lemma to_inj : forall f1 f2, In f1 (xflat t) -> In f2 (xflat t) -> field_to f1 = field_to f2 -> f1 = f2.
  Proof.
    intros f1 f2 H1 H2 E. eapply (pairwise_map_inj _ _ fold_eq field_to); try eassumption; [apply fold_eq_refl|].
    eapply pairwise_app_l. exact lvl_tnames.
  Qed.

  Lemma from_res : forall f r, In f (xflat t) -> In r (all_emb_ptr_names t) -> field_from f <> r.
  Proof.
    intros f r H1 H2. apply beqb_false_iff. eapply pairwise_app_cross; [exact lvl_names| |exact H2].
    apply in_map. exact H1.
  Qed.

  Lemma to_res : forall f r, In f (xflat t) -> In r (all_emb_ptr_names t) -> field_to f <> r.
  Proof.
    intros f r H1 H2. apply fold_eq_false_ne. eapply pairwise_app_cross; [exact lvl_tnames| |exact H2].
    apply in_map. exact H1.
  Qed.

  Lemma tnames_fold : forall a b, In a (tnames t) -> In b (tnames t) -> fold_eq a b = true -> a = b.
  Proof. intros a b. apply pairwise_In; [apply fold_eq_sym|exact lvl_tnames]. Qed.

  Lemma xflat_F : forall f, In f (xflat t) -> In f F /\ tf_exported f = true.
  Proof. intros f H. unfold xflat in H. apply filter_In in H. exact H. Qed.

  Lemma F_unexp : forall u, In u F -> tf_exported u = false -> field_from u = field_to u.
  Proof.
    intros u Hin He. destruct (flat_rt_field t Hrt Hs u Hin) as [Hr _].
    destruct (unexp_facts u Hr He) as [Ht [Hj _]]. unfold field_from, field_to. rewrite Ht, Hj. reflexivity.
  Qed.

  Lemma rho_field : forall f, In f (xflat t) -> rho F (field_from f) = field_to f.
  Proof.
    intros f Hf. unfold rho. destruct (rename_lookup F (field_from f)) as [k'|] eqn:E.
    - destruct (rl_some _ _ _ E) as [f2 [Hin [E1 [E2 Hne]]]].
      destruct (tf_exported f2) eqn:He.
      + assert (In f2 (xflat t)) as H2 by (unfold xflat; apply filter_In; auto).
        rewrite <- (from_inj f2 f H2 Hf E1). symmetry. exact E2.
      + exfalso. apply Hne. apply F_unexp; assumption.
    - apply (rl_none _ _ E f); [apply xflat_F; exact Hf|reflexivity].
  Qed.

  Lemma rho_res : forall r, In r (all_emb_ptr_names t) -> rho F r = r.
  Proof.
    intros r Hr. unfold rho. destruct (rename_lookup F r) as [k'|] eqn:E; [|reflexivity].
    destruct (rl_some _ _ _ E) as [f2 [Hin [E1 [E2 Hne]]]]. exfalso.
    destruct (tf_exported f2) eqn:He.
    - assert (In f2 (xflat t)) as H2 by (unfold xflat; apply filter_In; auto).
      exact (from_res f2 r H2 Hr E1).
    - apply Hne. apply F_unexp; assumption.
  Qed.

  Lemma names_cases : forall k, In k (names t) ->
    (exists f, In f (xflat t) /\ k = field_from f) \/ In k (all_emb_ptr_names t).
  Proof.
    intros k H. unfold names in H. apply in_app_iff in H. destruct H as [H|H]; [left|right; exact H].
    apply in_map_iff in H. destruct H as [f [E Hf]]. eauto.
  Qed.

  Lemma rho_tnames : forall k, In k (names t) -> In (rho F k) (tnames t).
  Proof.
    intros k H. destruct (names_cases k H) as [[f [Hf ->]]|Hr].
    - rewrite rho_field by exact Hf. apply xflat_in_tnames. exact Hf.
    - rewrite rho_res by exact Hr. unfold tnames. apply in_or_app. right. exact Hr.
  Qed.

  Lemma rho_inj : forall k1 k2, In k1 (names t) -> In k2 (names t) -> rho F k1 = rho F k2 -> k1 = k2.
  Proof.
    intros k1 k2 H1 H2 E.
    destruct (names_cases k1 H1) as [[f1 [Hf1 ->]]|Hr1], (names_cases k2 H2) as [[f2 [Hf2 ->]]|Hr2].
    - rewrite !rho_field in E by assumption. f_equal. apply to_inj; assumption.
    - rewrite rho_field in E by assumption. rewrite rho_res in E by assumption.
      exfalso. exact (to_res f1 k2 Hf1 Hr2 E).
    - rewrite (rho_field f2) in E by assumption. rewrite rho_res in E by assumption.
      exfalso. exact (to_res f2 k1 Hf2 Hr1 (eq_sym E)).
    - rewrite !rho_res in E by assumption. exact E.
  Qed.

  (* the renamed object *)
  Variable d : obj.
  Hypothesis Hsorted : keys_sorted d = true.
  Hypothesis Hkeys : Forall (fun kv => In (fst kv) (names t)) d.

  Lemma rho_nodup : NoDup (map (fun kv => rho F (fst kv)) d).
  Proof.
    pose proof (sorted_NoDup d Hsorted) as Hn. clear Hsorted.
    induction d as [|[k v] r IH]; [constructor|].
    inversion Hkeys as [|? ? K1 K2]; subst. cbn [map fst] in *. inversion Hn as [|? ? N1 N2]; subst.
    constructor; [|apply IH; assumption].
    intros Hin. apply in_map_iff in Hin. destruct Hin as [[k2 v2] [E Hin]]. cbn [fst] in E.
    rewrite Forall_forall in K2. pose proof (K2 _ Hin) as Hk2. cbn [fst] in Hk2.
    apply rho_inj in E; [|assumption|assumption]. subst k2. apply N1.
    change k with (fst (k, v2)). apply in_map. exact Hin.
  Qed.

  Lemma rename_obj_get : forall f, In f (xflat t) ->
    obj_get (field_to f) (rename_obj F d) = obj_get (field_from f) d.
  Proof.
    intros f Hf. rewrite rename_obj_rfold. destruct (obj_get (field_from f) d) as [v|] eqn:E.
    - apply obj_get_In in E. rewrite <- (rho_field f Hf). apply rfold_get; [exact rho_nodup|exact E].
    - rewrite rfold_other; [reflexivity|]. intros [k v] Hin Ek. cbn [fst] in Ek.
      rewrite <- (rho_field f Hf) in Ek. rewrite Forall_forall in Hkeys. pose proof (Hkeys _ Hin) as Hk. cbn [fst] in Hk.
      apply rho_inj in Ek; [|exact Hk|apply xflat_in_names; exact Hf]. subst k.
      apply In_obj_get_some in Hin. congruence.
  Qed.

  Lemma rename_obj_keys : forall k v, obj_get k (rename_obj F d) = Some v -> In k (tnames t).
  Proof.
    intros k v H. rewrite rename_obj_rfold in H. apply rfold_get_inv in H. destruct H as [[k0 [Hin E]]|H]; [|discriminate].
    subst k. apply rho_tnames. rewrite Forall_forall in Hkeys. exact (Hkeys _ Hin).
  Qed.

  Lemma rename_obj_sorted : keys_sorted (rename_obj F d) = true.
  Proof. rewrite rename_obj_rfold. apply rfold_sorted. reflexivity. Qed.
End Level.

(* ---- the per-field pass of renameValue ---- *)
Definition rv_step (n : nat) (r : obj) (f : tfield) : obj :=
  match obj_get (field_to f) r with
  | Some fv => obj_set (field_to f) (rename_value n (tf_type f) fv) r
  | None => r
  end.
Definition rv_fold (n : nat) (F : list tfield) (r : obj) : obj := fold_left (rv_step n) F r.

Lemma rename_value_struct : forall n t fs o, elem_type t = TyStruct fs ->
  rename_value (S n) t (VObj o) =
  VObj (rv_fold n (struct_fields (TyStruct fs)) (rename_obj (struct_fields (TyStruct fs)) o)).
Proof. intros n t fs o E. cbn [rename_value]. rewrite E. reflexivity. Qed.

Lemma rv_step_sorted : forall n r f, keys_sorted r = true -> keys_sorted (rv_step n r f) = true.
Proof. intros n r f H. unfold rv_step. destruct (obj_get (field_to f) r); [apply obj_set_sorted|]; exact H. Qed.

Lemma rv_fold_sorted : forall n F r, keys_sorted r = true -> keys_sorted (rv_fold n F r) = true.
Proof.
  unfold rv_fold. induction F as [|f tr IH]; intros r H; [exact H|]. cbn [fold_left]. apply IH. apply rv_step_sorted. exact H.
Qed.

Lemma rv_step_none : forall n r f k, obj_get k (rv_step n r f) = None <-> obj_get k r = None.
Proof.
  intros n r f k. unfold rv_step. destruct (obj_get (field_to f) r) as [fv|] eqn:E; [|tauto].
  rewrite obj_get_set. destruct (beqb k (field_to f)) eqn:B; [|tauto].
  apply beqb_true_iff in B. subst k. rewrite E. split; discriminate.
Qed.

Lemma rv_fold_none : forall n F r k, obj_get k (rv_fold n F r) = None <-> obj_get k r = None.
Proof.
  unfold rv_fold. induction F as [|f tr IH]; intros r k; [tauto|]. cbn [fold_left]. rewrite IH. apply rv_step_none.
Qed.

Lemma rv_step_other : forall n r f k, field_to f <> k -> obj_get k (rv_step n r f) = obj_get k r.
Proof.
  intros n r f k H. unfold rv_step. destruct (obj_get (field_to f) r); [|reflexivity].
  apply DocumentProofs.obj_get_set_other. exact H.
Qed.

Lemma rv_fold_other : forall n F r k, (forall f, In f F -> field_to f <> k) -> obj_get k (rv_fold n F r) = obj_get k r.
Proof.
  unfold rv_fold. induction F as [|f tr IH]; intros r k H; [reflexivity|]. cbn [fold_left].
  rewrite IH by (intros; apply H; right; assumption). apply rv_step_other. apply H. left. reflexivity.
Qed.

Lemma rv_fold_get : forall n F1 f F2 r,
  (forall f', In f' F1 -> field_to f' <> field_to f) -> (forall f', In f' F2 -> field_to f' <> field_to f) ->
  obj_get (field_to f) (rv_fold n (F1 ++ f :: F2) r) =
  option_map (rename_value n (tf_type f)) (obj_get (field_to f) r).
Proof.
  intros n F1 f F2 r H1 H2. unfold rv_fold. rewrite fold_left_app. cbn [fold_left].
  fold (rv_fold n F1 r). fold (rv_fold n F2 (rv_step n (rv_fold n F1 r) f)).
  rewrite rv_fold_other by exact H2. unfold rv_step at 1. rewrite (rv_fold_other n F1 r) by exact H1.
  destruct (obj_get (field_to f) r) as [fv|] eqn:E.
  - rewrite DocumentProofs.obj_get_set_same. reflexivity.
  - rewrite rv_fold_other by exact H1. rewrite E. reflexivity.
Qed.

Lemma pairwise_split : forall A (r : A -> A -> bool) l1 a l2, pairwise r (l1 ++ a :: l2) = true ->
  (forall b, In b l1 -> r b a = false) /\ (forall b, In b l2 -> r a b = false).
Proof.
  induction l1 as [|c t IH]; intros a l2 H.
  - cbn [app pairwise] in H. apply andb_true_iff in H. destruct H as [H _]. rewrite forallb_forall in H.
    split; [intros ? []|]. intros b Hb. apply negb_true_iff. apply H. exact Hb.
  - cbn [app pairwise] in H. apply andb_true_iff in H. destruct H as [H0 H]. destruct (IH _ _ H) as [A1 A2].
    split; [|exact A2]. intros b [->|Hb]; [|apply A1; exact Hb].
    rewrite forallb_forall in H0. apply negb_true_iff. apply H0. apply in_or_app. right. left. reflexivity.
Qed.

(* the json name of an exported flat field belongs to exactly one flat field *)
Lemma to_unique : forall t, rt_ty t = true -> is_struct_ty t = true -> unexp_clear t = true ->
  forall f, In f (xflat t) -> exists F1 F2, struct_fields t = F1 ++ f :: F2 /\
    (forall f', In f' F1 -> field_to f' <> field_to f) /\ (forall f', In f' F2 -> field_to f' <> field_to f).
Proof.
  intros t Hrt Hs Hu f Hf. destruct (xflat_F t f Hf) as [HinF He].
  destruct (in_split _ _ HinF) as [F1 [F2 EF]]. exists F1, F2. split; [exact EF|].
  pose proof (lvl_tnames t Hrt Hs) as Hp. apply pairwise_app_l in Hp. unfold xflat in Hp. rewrite EF in Hp.
  rewrite filter_app in Hp. cbn [filter] in Hp. rewrite He in Hp. rewrite map_app in Hp. cbn [map] in Hp.
  destruct (pairwise_split _ _ _ _ _ Hp) as [P1 P2].
  assert (HU : forall u, In u (struct_fields t) -> tf_exported u = false -> field_to u <> field_to f).
  { intros u Hin Hue E. unfold unexp_clear in Hu. rewrite forallb_forall in Hu.
    assert (In u (filter (fun u => negb (tf_exported u)) (struct_fields t))) as Hin'
      by (apply filter_In; split; [exact Hin|rewrite Hue; reflexivity]).
    specialize (Hu u Hin'). apply negb_true_iff in Hu.
    assert (existsb (beqb (field_to u)) (exported_names (struct_fields t)) = true) as Hex.
    { apply existsb_exists. exists (field_to f). split; [|apply beqb_true_iff; exact E].
      unfold exported_names. apply in_map. apply filter_In. split; [exact HinF|exact He]. }
    congruence. }
  split; intros f' Hin'.
  - destruct (tf_exported f') eqn:He'.
    + apply fold_eq_false_ne. apply P1. apply in_map. apply filter_In. auto.
    + apply HU; [rewrite EF; apply in_or_app; left; exact Hin'|exact He'].
  - destruct (tf_exported f') eqn:He'.
    + intros E. symmetry in E. revert E. apply fold_eq_false_ne. apply P2. apply in_map. apply filter_In. auto.
    + apply HU; [rewrite EF; apply in_or_app; right; right; exact Hin'|exact He'].
Qed.

(* ================================================================== *)
(** * 11. Zero values, emptiness *)

Lemma forallb_repeat : forall A (p : A -> bool) a n, p a = true -> forallb p (repeat a n) = true.
Proof. intros A p a n H. induction n; [reflexivity|]. cbn [repeat forallb]. rewrite H. exact IHn. Qed.

Lemma tok_field_refl : forall f x, (tf_exported f = true -> type_ok (tf_type f) x = true) ->
  type_ok_field f (mkfield f x) = true.
Proof.
  intros [n e tg jt an ft] x H. cbn [tf_exported tf_type] in H. unfold mkfield.
  cbn [type_ok_field tf_name tf_exported tf_tag tf_anon tf_type].
  rewrite !beqb_refl, !eqb_reflx. cbn [andb]. destruct e; [apply H|]; reflexivity.
Qed.

Lemma zero_typed : forall t g, type_ok t g = true -> type_ok t (zero t) = true.
Proof.
  induction t as [b|b| | | | | |p IH|fs IH|e IH|e IH|n e IH| ] using gotype_nind; intros g H.
  - cbn [type_ok] in H. destruct g; try discriminate. apply andb_true_iff in H. destruct H as [H1 H2].
    cbn [zero type_ok]. rewrite Z.eqb_refl. cbn [andb]. unfold int_range in *. destruct (b =? 0); lia.
  - cbn [type_ok] in H. destruct g; try discriminate. apply andb_true_iff in H. destruct H as [H1 H2].
    cbn [zero type_ok]. rewrite Z.eqb_refl. cbn [andb]. unfold uint_range in *. destruct (b =? 0); lia.
  - vm_compute. reflexivity.
  - vm_compute. reflexivity.
  - reflexivity.
  - reflexivity.
  - vm_compute. reflexivity.
  - reflexivity.
  - destruct (tok_struct _ _ H) as [gfs [-> Hf]]. rewrite zero_struct, type_ok_struct. clear H.
    revert gfs Hf. induction fs as [|f tr IHf]; intros gfs Hf; [reflexivity|].
    destruct (tok_fields_cons _ _ _ Hf) as [gf [gr [-> [H1 H2]]]].
    destruct (tok_field_inv _ _ H1) as [x [-> Hx]]. inversion IH as [|? ? I1 I2]; subst.
    cbn [map type_ok_fields]. rewrite (IHf I2 gr H2). rewrite andb_true_r.
    change (zero_field f) with (mkfield f (zero (tf_type f))). apply tok_field_refl.
    intros He. exact (I1 x (Hx He)).
  - destruct (tok_map _ _ H) as [es [-> [Hu _]]]. cbn [zero type_ok]. rewrite Hu. reflexivity.
  - destruct (tok_slice _ _ H) as [l [-> [Hu _]]]. cbn [zero type_ok]. rewrite Hu. reflexivity.
  - destruct (tok_array _ _ _ H) as [l [-> [Hu [Hlen Hl]]]]. cbn [zero type_ok]. rewrite Hu. cbn [negb andb].
    rewrite repeat_length. apply andb_true_iff. split; [lia|].
    destruct l as [|x l']; [cbn [length] in Hlen; subst n; reflexivity|].
    inversion Hl; subst. apply forallb_repeat. eapply IH. eassumption.
  - reflexivity.
Qed.

Lemma zero_omitted : forall f x, type_ok (tf_type f) x = true -> omitted f x = true -> omitted f (zero (tf_type f)) = true.
Proof.
  intros f x Ht Ho. unfold omitted in *. apply andb_true_iff in Ho. destruct Ho as [Ho He]. rewrite Ho. cbn [andb].
  destruct (tf_type f) as [b|b| | | | | |p|fs|e|e|n e| ]; try reflexivity.
  - cbn [type_ok] in Ht. destruct x; try discriminate.
  - destruct (tok_struct _ _ Ht) as [gfs [-> _]]. discriminate.
  - destruct (tok_array _ _ _ Ht) as [l [-> [_ [Hlen _]]]]. cbn [is_iface is_empty_value] in He.
    destruct l; [|discriminate]. cbn [length] in Hlen. subst n. reflexivity.
Qed.

Lemma obj_set_nonempty : forall k v o, obj_set k v o <> [].
Proof. intros k v [|[k' v'] t]; cbn [obj_set]; [discriminate|]. destruct (lex k k'); discriminate. Qed.

Lemma map_loop_nonempty : forall es acc o, acc <> [] -> map_loop es acc = NOk (VObj o) -> o <> [].
Proof.
  induction es as [|[k x] t IH]; intros acc o Ha H.
  - cbn in H. inversion H; subst. exact Ha.
  - cbn [map_loop] in H. destruct (normalize x); [|discriminate|]; (eapply IH; [|exact H]; apply obj_set_nonempty).
Qed.

Lemma nil_shape : forall t g, type_ok t g = true -> normalize g = NOk VNil ->
  is_ptr_ty t = true \/ t = TyIface.
Proof.
  intros t g Ht Hn. destruct t; try (left; reflexivity); try (right; reflexivity); exfalso;
    try (cbn [type_ok] in Ht; destruct g; try discriminate; cbn [normalize] in Hn; discriminate).
  - destruct (tok_struct _ _ Ht) as [gfs [-> _]]. rewrite normalize_struct_loop in Hn.
    destruct (struct_loop_obj _ _ _ Hn). discriminate.
  - destruct (tok_map _ _ Ht) as [es [-> _]]. rewrite normalize_map_loop in Hn.
    destruct (map_loop_obj _ _ _ Hn). discriminate.
  - destruct (tok_slice _ _ Ht) as [l [-> _]]. rewrite normalize_slice_loop in Hn.
    destruct (slice_loop_arr _ _ _ Hn). discriminate.
  - destruct (tok_array _ _ _ Ht) as [l [-> _]]. rewrite normalize_slice_loop in Hn.
    destruct (slice_loop_arr _ _ _ Hn). discriminate.
Qed.

Lemma Forall2_len : forall A B (R : A -> B -> Prop) l1 l2, Forall2 R l1 l2 -> length l1 = length l2.
Proof. intros A B R l1 l2 H. induction H; [reflexivity|]. cbn [length]. congruence. Qed.

Lemma slice_len : forall l w, slice_loop l [] = NOk w -> (forall x, In x l -> normalize x <> NBytes) ->
  exists vs, w = VArr vs /\ length vs = length l.
Proof.
  intros l w H HB. destruct (slice_loop_spec _ _ _ H HB) as [vs [-> HF]]. exists vs. split; [reflexivity|].
  symmetry. eapply Forall2_len. exact HF.
Qed.

Lemma empty_by_norm : forall t x x' w, type_ok t x = true -> type_ok t x' = true ->
  normalize x = NOk w -> normalize x' = NOk w -> omit_ptr_bad t = false ->
  is_empty_value (is_iface t) x = is_empty_value (is_iface t) x'.
Proof.
  intros t x x' w Ht Ht' Hn Hn' Hb. destruct t as [b|b| | | | | |p|fs|e|e|n e| ].
  - cbn [type_ok] in Ht, Ht'. destruct x, x'; try discriminate. cbn [normalize] in Hn, Hn'. cbn [is_iface is_empty_value]. rewrite <- Hn' in Hn; inversion Hn; subst; reflexivity.
  - cbn [type_ok] in Ht, Ht'. destruct x, x'; try discriminate. cbn [normalize] in Hn, Hn'. cbn [is_iface is_empty_value]. rewrite <- Hn' in Hn; inversion Hn; subst; reflexivity.
  - cbn [type_ok] in Ht, Ht'. destruct x, x'; try discriminate. cbn [normalize] in Hn, Hn'. cbn [is_iface is_empty_value]. rewrite <- Hn' in Hn; inversion Hn; subst; reflexivity.
  - cbn [type_ok] in Ht, Ht'. destruct x, x'; try discriminate. cbn [normalize] in Hn, Hn'. cbn [is_iface is_empty_value]. rewrite <- Hn' in Hn; inversion Hn; subst; reflexivity.
  - cbn [type_ok] in Ht, Ht'. destruct x, x'; try discriminate. cbn [normalize] in Hn, Hn'. cbn [is_iface is_empty_value]. rewrite <- Hn' in Hn; inversion Hn; subst; reflexivity.
  - cbn [type_ok] in Ht, Ht'. destruct x, x'; try discriminate. cbn [normalize] in Hn, Hn'. cbn [is_iface is_empty_value]. rewrite <- Hn' in Hn; inversion Hn; subst; reflexivity.
  - cbn [type_ok] in Ht, Ht'. destruct x, x'; try discriminate. reflexivity.
  - assert (HN : forall y, type_ok p y = true -> normalize y = NOk VNil -> False).
    { intros y Hy Hyn. destruct (nil_shape _ _ Hy Hyn) as [Hp| ->]; [destruct p; discriminate|discriminate]. }
    destruct (tok_ptr _ _ Ht) as [->|[y [-> Hy]]], (tok_ptr _ _ Ht') as [->|[y' [-> Hy']]]; try reflexivity; exfalso.
    + cbn [normalize] in Hn, Hn'. inversion Hn; subst. exact (HN y' Hy' Hn').
    + cbn [normalize] in Hn, Hn'. inversion Hn'; subst. exact (HN y Hy Hn).
  - destruct (tok_struct _ _ Ht) as [gfs [-> _]]. destruct (tok_struct _ _ Ht') as [gfs' [-> _]]. reflexivity.
  - destruct (tok_map _ _ Ht) as [es [-> _]]. destruct (tok_map _ _ Ht') as [es' [-> _]].
    rewrite normalize_map_loop in Hn, Hn'. cbn [is_iface is_empty_value].
    destruct (map_loop_obj _ _ _ Hn) as [o ->].
    assert (HE : forall es0, map_loop es0 [] = NOk (VObj o) -> (match es0 with [] => true | _ => false end) = match o with [] => true | _ => false end).
    { intros [|[k y] t] H0; [cbn in H0; inversion H0; reflexivity|].
      cbn [map_loop] in H0. assert (o <> []) as Hne.
      { destruct (normalize y); [|discriminate|]; (eapply map_loop_nonempty; [|exact H0]; apply obj_set_nonempty). }
      destruct o; [congruence|reflexivity]. }
    rewrite (HE _ Hn), (HE _ Hn'). reflexivity.
  - destruct (tok_slice _ _ Ht) as [l [-> [_ Hl]]]. destruct (tok_slice _ _ Ht') as [l' [-> [_ Hl']]].
    rewrite normalize_slice_loop in Hn, Hn'. rewrite Forall_forall in Hl, Hl'.
    destruct (slice_len _ _ Hn) as [vs [-> L1]]; [intros y Hy; eapply typed_not_bytes; apply Hl; exact Hy|].
    destruct (slice_len _ _ Hn') as [vs' [E L2]]; [intros y Hy; eapply typed_not_bytes; apply Hl'; exact Hy|].
    inversion E; subst vs'. cbn [is_iface is_empty_value]. destruct l, l'; try reflexivity; cbn [length] in *; congruence.
  - destruct (tok_array _ _ _ Ht) as [l [-> [_ [_ Hl]]]]. destruct (tok_array _ _ _ Ht') as [l' [-> [_ [_ Hl']]]].
    rewrite normalize_slice_loop in Hn, Hn'. rewrite Forall_forall in Hl, Hl'.
    destruct (slice_len _ _ Hn) as [vs [-> L1]]; [intros y Hy; eapply typed_not_bytes; apply Hl; exact Hy|].
    destruct (slice_len _ _ Hn') as [vs' [E L2]]; [intros y Hy; eapply typed_not_bytes; apply Hl'; exact Hy|].
    inversion E; subst vs'. cbn [is_iface is_empty_value]. destruct l, l'; try reflexivity; cbn [length] in *; congruence.
  - cbn [type_ok] in Ht, Ht'. destruct x, x'; try discriminate; cbn [normalize] in Hn, Hn'; try congruence; reflexivity.
Qed.

(* ================================================================== *)
(** * 12. rename_value on non-containers; routing of keys *)

Lemma rv_nil : forall m t, rename_value m t VNil = VNil.
Proof. intros [|m] t; [reflexivity|]. cbn [rename_value]. destruct (elem_type t); reflexivity. Qed.

Lemma rv_ptr : forall m p v, rename_value m (TyPtr p) v = rename_value m p v.
Proof. intros [|m] p v; reflexivity. Qed.

Lemma rv_nil_inv : forall m t v, rename_value m t v = VNil -> v = VNil.
Proof.
  intros [|m] t v H; [exact H|]. cbn [rename_value] in H.
  destruct (elem_type t); try exact H; destruct v; try exact H; discriminate.
Qed.

Definition scalar_ty (t : gotype) : Prop :=
  match t with TyStruct _ | TySlice _ | TyArray _ _ | TyMap _ | TyPtr _ => False | _ => True end.

Lemma rv_scalar : forall m t v, scalar_ty t -> rename_value m t v = v.
Proof. intros [|m] t v H; [reflexivity|]. destruct t; try contradiction; reflexivity. Qed.

Lemma filter_key_none : forall j (o : obj), (forall kv, In kv o -> fst kv <> j) ->
  filter (fun kv => beqb (fst kv) j) o = [].
Proof.
  induction o as [|kv t IH]; intros H; [reflexivity|]. cbn [filter].
  destruct (beqb (fst kv) j) eqn:E.
  - apply beqb_true_iff in E. exfalso. apply (H kv); [left; reflexivity|exact E].
  - apply IH. intros kv' Hin. apply H. right. exact Hin.
Qed.

Lemma filter_key : forall j o, keys_sorted o = true ->
  filter (fun kv => beqb (fst kv) j) o = match obj_get j o with Some y => [(j, y)] | None => [] end.
Proof.
  induction o as [|[k v] t IH]; intros Hs; [reflexivity|].
  destruct (keys_sorted_cons_inv _ _ _ Hs) as [HB HT]. cbn [filter obj_get fst].
  rewrite (beqb_sym j k). destruct (beqb k j) eqn:E.
  - apply beqb_true_iff in E. subst k. rewrite filter_key_none; [reflexivity|].
    intros kv Hin Ek. apply (key_below_notin j t HB). rewrite <- Ek. apply in_map. exact Hin.
  - apply IH. exact HT.
Qed.

(* ================================================================== *)
(** * 13. Rebuilding slices and maps *)

Lemma umap_Forall2 : forall A B (f : A -> ures B) (Q : A -> B -> Prop) l,
  (forall a, In a l -> exists b, f a = UOk b /\ Q a b) ->
  exists bs, umap f l = UOk bs /\ Forall2 Q l bs.
Proof.
  intros A B f Q. induction l as [|a t IH]; intros H.
  - exists []. split; [reflexivity|constructor].
  - destruct (H a (or_introl eq_refl)) as [b [Hb Hq]].
    destruct IH as [bs [Hbs HF]]; [intros; apply H; right; assumption|].
    exists (b :: bs). cbn [umap]. rewrite Hb. cbn [ubind]. rewrite Hbs. cbn [ubind].
    split; [reflexivity|constructor; assumption].
Qed.

Lemma slice_loop_rebuild : forall gs vs acc, Forall2 (fun x w => normalize x = NOk w) gs vs ->
  slice_loop gs acc = NOk (VArr (rev acc ++ vs)).
Proof.
  intros gs vs acc H. revert acc. induction H as [|x w gs' vs' Hxw _ IH]; intros acc.
  - cbn. rewrite app_nil_r. reflexivity.
  - cbn [slice_loop]. rewrite Hxw. rewrite IH. cbn [rev]. rewrite <- app_assoc. reflexivity.
Qed.

Lemma map_loop_rebuild : forall o es acc,
  Forall2 (fun kv kx => fst kx = fst kv /\ normalize (snd kx) = NOk (snd kv)) o es ->
  keys_sorted o = true -> Forall (fun kv => keys_below acc (fst kv)) o ->
  map_loop es acc = NOk (VObj (acc ++ o)).
Proof.
  intros o es acc H. revert acc. induction H as [|[k v] [k' x] o' es' [E1 E2] _ IH]; intros acc HS HB.
  - cbn. rewrite app_nil_r. reflexivity.
  - cbn [fst snd] in E1, E2. subst k'.
    inversion HB as [|? ? H1 H2]; subst. cbn [fst] in H1.
    destruct (keys_sorted_cons_inv _ _ _ HS) as [HK HT].
    cbn [map_loop]. rewrite E2. rewrite obj_set_append by exact H1. rewrite IH.
    + rewrite <- app_assoc. reflexivity.
    + exact HT.
    + unfold key_below in HK. rewrite Forall_forall in *. intros kv Hin.
      unfold keys_below. apply Forall_app. split; [apply H2; exact Hin|].
      constructor; [|constructor]. cbn [fst]. apply HK. exact Hin.
Qed.

Lemma jdecode_slice : forall n e v, is_u8 e = false ->
  jdecode (S n) (TySlice e) v =
  match v with
  | VNil => UOk (GSlice false [])
  | VArr l => ubind (umap (jdecode n e) l) (fun gs => UOk (GSlice false gs))
  | _ => UErr
  end.
Proof.
  intros n e v H. cbn [jdecode]. destruct e as [b|b| | | | | |p|fs|e|e|m e| ]; try reflexivity.
  destruct b as [|p|p]; try reflexivity.
  do 4 (destruct p as [p|p|]; try reflexivity). discriminate.
Qed.

(* ================================================================== *)
(** * 14. Decoding a struct from a renamed object *)

(* R is a renamed image of the document d, as far as the flattened exported fields of t are concerned *)
Definition Repr (t : gotype) (d R : obj) : Prop :=
  keys_sorted R = true /\
  (forall k x f, obj_get k R = Some x -> In f (xflat t) -> fold_eq k (field_to f) = true -> k = field_to f) /\
  (forall f, In f (xflat t) -> exists m,
      obj_get (field_to f) R = option_map (rename_value m (tf_type f)) (obj_get (field_from f) d) /\
      (forall x, obj_get (field_from f) d = Some x -> (vdepth x <= m)%nat)).

Definition RT (t : gotype) : Prop :=
  rt_ty t = true -> rt_extra t = true ->
  forall g v, type_ok t g = true -> normalize g = NOk v ->
  (forall n m, (tdepth t <= n)%nat -> (vdepth v <= m)%nat ->
     exists g', jdecode n t (rename_value m t v) = UOk g' /\ type_ok t g' = true /\ normalize g' = NOk v) /\
  (is_struct_ty t = true -> forall d R n, v = VObj d -> Repr t d R -> (tdepth t <= n)%nat ->
     exists g', jdecode n t (VObj R) = UOk g' /\ type_ok t g' = true /\ normalize g' = NOk v).

Lemma dec_fields_cons : forall n all v o f rest,
  dec_fields n all v o (f :: rest) =
  let mk := fun g => ubind (dec_fields n all v o rest) (fun gs => UOk (mkfield f g :: gs)) in
  if negb (tf_exported f) then (if is_emb f then UUndet else mk (zero (tf_type f)))
  else if is_emb f then
    match tf_jtag f with
    | Some _ => UUndet
    | None =>
        let present := existsb (fun kv => existsb (fun nme => routes_to all nme (fst kv))
                                                  (exported_names (struct_fields (tf_type f)))) o in
        if is_ptr_ty (tf_type f)
        then (if present then ubind (jdecode n (tf_type f) v) mk else mk (GPtr None))
        else ubind (jdecode n (tf_type f) v) mk
    end
  else match filter (fun kv => routes_to all (field_to f) (fst kv)) o with
       | [] => mk (zero (tf_type f))
       | [kv] => ubind (jdecode n (tf_type f) (snd kv)) mk
       | _ => UUndet
       end.
Proof.
  intros n all v o [nm e tg jt an ft] rest. unfold is_emb, mkfield.
  cbn [dec_fields tf_exported tf_anon tf_type tf_jtag tf_name tf_tag].
  destruct (negb e); [reflexivity|]. destruct (an && is_struct_ty ft); [|reflexivity].
  destruct jt; [reflexivity|]. destruct ft; reflexivity.
Qed.

Lemma routes_same : forall all j, routes_to all j j = true.
Proof. intros. unfold routes_to. rewrite beqb_refl, fold_eq_refl. destruct (existsb (beqb j) all); reflexivity. Qed.

Lemma routes_eq : forall T d R all kv f, Repr T d R -> In kv R -> In f (xflat T) -> In (field_to f) all ->
  routes_to all (field_to f) (fst kv) = beqb (fst kv) (field_to f).
Proof.
  intros T d R all [k x] f [HS [H2 _]] Hin Hf Hall. cbn [fst].
  assert (Hg : obj_get k R = Some x) by (apply NoDup_In_obj_get; [apply sorted_NoDup; exact HS|exact Hin]).
  unfold routes_to. destruct (existsb (beqb k) all) eqn:E; [reflexivity|].
  destruct (fold_eq k (field_to f)) eqn:Ef.
  - pose proof (H2 k x f Hg Hf Ef) as ->. exfalso.
    assert (existsb (beqb (field_to f)) all = true) as C
      by (apply existsb_exists; exists (field_to f); split; [exact Hall|apply beqb_refl]).
    congruence.
  - symmetry. apply beqb_false_iff. intros ->. rewrite fold_eq_refl in Ef. discriminate.
Qed.

Lemma filter_routes : forall T d R all f, Repr T d R -> In f (xflat T) -> In (field_to f) all ->
  filter (fun kv => routes_to all (field_to f) (fst kv)) R =
  match obj_get (field_to f) R with Some y => [(field_to f, y)] | None => [] end.
Proof.
  intros T d R all f HR Hf Hall. rewrite <- filter_key by apply HR.
  apply filter_ext_in. intros kv Hin. eapply routes_eq; eassumption.
Qed.

Lemma present_false : forall T d R all ft, Repr T d R ->
  (forall f', In f' (xflat ft) -> In f' (xflat T) /\ In (field_to f') all /\ obj_get (field_to f') R = None) ->
  existsb (fun kv => existsb (fun nme => routes_to all nme (fst kv)) (exported_names (struct_fields ft))) R = false.
Proof.
  intros T d R all ft HR H. destruct (existsb _ R) eqn:E; [|reflexivity]. exfalso.
  apply existsb_exists in E. destruct E as [kv [Hin E]]. apply existsb_exists in E. destruct E as [nme [Hn E]].
  unfold exported_names in Hn. apply in_map_iff in Hn. destruct Hn as [f' [<- Hf']].
  destruct (H f' Hf') as [HT [Hall Hnone]]. rewrite (routes_eq T d R all kv f' HR Hin HT Hall) in E.
  apply beqb_true_iff in E. destruct kv as [k x]. cbn [fst] in E. subst k.
  apply In_obj_get_some in Hin. congruence.
Qed.

Lemma present_true : forall all ft R f0 y, In f0 (xflat ft) -> obj_get (field_to f0) R = Some y ->
  existsb (fun kv => existsb (fun nme => routes_to all nme (fst kv)) (exported_names (struct_fields ft))) R = true.
Proof.
  intros all ft R f0 y Hf Hg. apply existsb_exists. exists (field_to f0, y). split; [apply obj_get_In; exact Hg|].
  apply existsb_exists. exists (field_to f0). split; [unfold exported_names; apply in_map; exact Hf|].
  cbn [fst]. apply routes_same.
Qed.

(* reaching the struct behind pointers *)
Lemma unwrap_struct : forall t fs1 g d, elem_type t = TyStruct fs1 -> type_ok t g = true ->
  normalize g = NOk (VObj d) -> exists gfs1, type_ok_fields fs1 gfs1 = true /\ struct_loop gfs1 [] = NOk (VObj d).
Proof.
  induction t; intros fs1 g d E Ht Hn; try discriminate.
  - destruct (tok_ptr _ _ Ht) as [->|[g' [-> H']]]; [discriminate|]. cbn [normalize] in Hn.
    exact (IHt fs1 g' d E H' Hn).
  - cbn [elem_type] in E. inversion E; subst. destruct (tok_struct _ _ Ht) as [gfs [-> Hf]].
    rewrite normalize_struct_loop in Hn. eauto.
Qed.

Lemma rt_elem : forall t fs1, elem_type t = TyStruct fs1 -> rt_ty t = true -> rt_ty (TyStruct fs1) = true.
Proof. induction t; intros fs1 E H; try discriminate; [exact (IHt fs1 E H)|cbn [elem_type] in E; congruence]. Qed.

Lemma rtx_elem : forall t fs1, elem_type t = TyStruct fs1 -> rt_extra t = true -> rt_extra (TyStruct fs1) = true.
Proof. induction t; intros fs1 E H; try discriminate; [exact (IHt fs1 E H)|cbn [elem_type] in E; congruence]. Qed.

Lemma sf_elem : forall t fs1, elem_type t = TyStruct fs1 -> struct_fields t = struct_fields (TyStruct fs1).
Proof. induction t; intros fs1 E; try discriminate; [exact (IHt fs1 E)|cbn [elem_type] in E; congruence]. Qed.

Lemma typed_combine : forall fs gfs f, In f fs -> type_ok_fields fs gfs = true ->
  exists x, In (f, mkfield f x) (combine fs gfs) /\ (tf_exported f = true -> type_ok (tf_type f) x = true).
Proof.
  induction fs as [|f0 tr IH]; intros gfs f Hin Hf; [destruct Hin|].
  destruct (tok_fields_cons _ _ _ Hf) as [gf [gr [-> [H1 H2]]]].
  destruct (tok_field_inv _ _ H1) as [x [-> Hx]]. destruct Hin as [->|Hin].
  - exists x. split; [left; reflexivity|exact Hx].
  - destruct (IH gr f Hin H2) as [x' [A B]]. exists x'. split; [right; exact A|exact B].
Qed.

Lemma In_reg_sf : forall fs f, In f fs -> is_emb f = false -> In f (struct_fields (TyStruct fs)).
Proof.
  induction fs as [|f0 tr IH]; intros f Hin He; [destruct Hin|]. rewrite struct_fields_cons. apply in_or_app.
  destruct Hin as [->|Hin]; [left; unfold sf1; rewrite He; left; reflexivity|right; apply IH; assumption].
Qed.

Lemma xflat_emb_incl_gen : forall fs0 f f', In f fs0 -> is_emb f = true -> In f' (xflat (tf_type f)) ->
  In f' (xflat (TyStruct fs0)).
Proof.
  induction fs0 as [|f0 tr IH]; intros f f' Hin He Hf'; [destruct Hin|].
  destruct Hin as [->|Hin]; [apply xflat_emb_incl; assumption|apply xflat_tail_incl; eapply IH; eassumption].
Qed.

Lemma xflat_reg_in_gen : forall fs0 f, In f fs0 -> is_emb f = false -> tf_exported f = true -> In f (xflat (TyStruct fs0)).
Proof.
  intros fs0 f Hin He Hx. unfold xflat. apply filter_In. split; [apply In_reg_sf; assumption|exact Hx].
Qed.

Lemma xflat_all : forall T f, In f (xflat T) -> In (field_to f) (exported_names (struct_fields T)).
Proof. intros T f H. unfold exported_names. apply in_map. exact H. Qed.

Lemma emb_ptr_always : forall f p, rt_field f = true -> is_emb f = true -> tf_type f = TyPtr p ->
  exists fs1 f0, elem_type p = TyStruct fs1 /\ In f0 fs1 /\ always_present f0 = true.
Proof.
  intros f p H He Ep. unfold rt_field in H. apply andb_true_iff in H. destruct H as [H _].
  apply andb_true_iff in H. destruct H as [_ H]. unfold emb_ptr_ok in H. unfold is_emb in He. rewrite He, Ep in H.
  destruct (elem_type p) as [| | | | | | | |fs1| | | |]; try discriminate.
  apply existsb_exists in H. destruct H as [f0 [Hin Ha]]. eauto.
Qed.

(* an embedded non-nil pointer is seen in the renamed object *)
Lemma emb_present : forall f p x dx R all,
  rt_field f = true -> xf f = true -> is_emb f = true -> tf_type f = TyPtr p ->
  type_ok (tf_type f) x = true -> normalize x = NOk (VObj dx) -> Repr (tf_type f) dx R ->
  existsb (fun kv => existsb (fun nme => routes_to all nme (fst kv)) (exported_names (struct_fields (tf_type f)))) R = true.
Proof.
  intros f p x dx R all Hrf Hxf He Ep Ht Hn HR.
  destruct (emb_facts f Hrf He) as [Hexp _].
  destruct (emb_ptr_always f p Hrf He Ep) as [fs1 [f0 [Eel [Hin0 Hap]]]].
  assert (Eel' : elem_type (tf_type f) = TyStruct fs1) by (rewrite Ep; exact Eel).
  pose proof (rt_elem _ _ Eel' (rt_field_ty _ Hrf Hexp)) as Hrt1.
  destruct (xf_ty _ Hxf Hexp) as [Hxt _]. pose proof (rtx_elem _ _ Eel' Hxt) as Hrx1.
  destruct (unwrap_struct _ _ _ _ Eel' Ht Hn) as [gfs1 [Hf1 HL1]].
  unfold always_present in Hap. apply andb_true_iff in Hap. destruct Hap as [Hap Hno].
  apply andb_true_iff in Hap. destruct Hap as [Hx0 Hna]. apply negb_true_iff in Hna, Hno.
  assert (Hemb0 : is_emb f0 = false) by (unfold is_emb; rewrite Hna; reflexivity).
  destruct (typed_combine _ _ _ Hin0 Hf1) as [x0 [Hc Hx0t]].
  destruct (norm_total _ _ (Hx0t Hx0)) as [w0 Hw0].
  rewrite rt_ty_struct in Hrt1. apply andb_true_iff in Hrt1. destruct Hrt1 as [Hlv Hrf1].
  rewrite rt_extra_struct in Hrx1. apply andb_true_iff in Hrx1. destruct Hrx1 as [_ Hxf1].
  rewrite struct_level_ok_eq in Hlv. apply andb_true_iff in Hlv. destruct Hlv as [Hnm _].
  destruct (loop_facts fs1 gfs1 [] dx Hrf1 Hxf1 (pairwise_NoDup _ Hnm) Hf1 HL1) as [_ HF].
  destruct (HF f0 x0 Hc Hx0 w0 Hw0) as [A _]. specialize (A Hemb0).
  assert (Hom : omitted f0 x0 = false) by (unfold omitted; rewrite Hno; reflexivity). rewrite Hom in A.
  assert (Hf0 : In f0 (xflat (tf_type f))).
  { unfold xflat. rewrite (sf_elem _ _ Eel'). apply filter_In. split; [apply In_reg_sf; assumption|exact Hx0]. }
  destruct HR as [_ [_ H3]]. destruct (H3 f0 Hf0) as [m [Hg _]]. rewrite A in Hg. cbn [option_map] in Hg.
  eapply present_true; eassumption.
Qed.

Lemma Repr_emb : forall fs0 d R f dx,
  Repr (TyStruct fs0) d R -> In f fs0 -> is_emb f = true ->
  (forall k, In k (names (tf_type f)) -> obj_get k d = obj_get k dx) ->
  Repr (tf_type f) dx R.
Proof.
  intros fs0 d R f dx [H1 [H2 H3]] Hin He Hk. split; [exact H1|]. split.
  - intros k y f' Hg Hf'. apply (H2 k y f' Hg). eapply xflat_emb_incl_gen; eassumption.
  - intros f' Hf'. destruct (H3 f' (xflat_emb_incl_gen fs0 f f' Hin He Hf')) as [m [A B]].
    rewrite (Hk (field_from f') (xflat_in_names _ _ Hf')) in A, B. exists m. split; assumption.
Qed.

Lemma dec_loop : forall fs0 d R n',
  Repr (TyStruct fs0) d R ->
  forall fs gfs,
  (forall f, In f fs -> In f fs0) ->
  Forall (fun f => RT (tf_type f)) fs ->
  forallb rt_field fs = true -> forallb xf fs = true -> (tdepth_fields fs <= n')%nat ->
  type_ok_fields fs gfs = true ->
  (forall f x, In (f, mkfield f x) (combine fs gfs) -> field_fact d [] f x) ->
  exists gs, dec_fields n' (exported_names (struct_fields (TyStruct fs0))) (VObj R) R fs = UOk gs /\
             type_ok_fields fs gs = true /\ forall acc, struct_loop gs acc = struct_loop gfs acc.
Proof.
  intros fs0 d R n' HR. set (all := exported_names (struct_fields (TyStruct fs0))).
  induction fs as [|f tr IHf]; intros gfs Hsub HRT Hrf Hxf Hdep Hf Hfacts.
  - apply tok_fields_nil in Hf. subst. exists []. repeat split.
  - destruct (tok_fields_cons _ _ _ Hf) as [gf [gr [-> [H1 H2]]]].
    destruct (tok_field_inv _ _ H1) as [x [-> Hx]]. fold (mkfield f x) in *.
    inversion HRT as [|? ? RT1 RT2]; subst.
    cbn [forallb] in Hrf, Hxf. apply andb_true_iff in Hrf, Hxf. destruct Hrf as [Hrf Hrfs], Hxf as [Hxf Hxfs].
    cbn [tdepth_fields] in Hdep.
    pose proof (Nat.max_lub_l _ _ _ Hdep) as Hd1. pose proof (Nat.max_lub_r _ _ _ Hdep) as Hd2.
    assert (Hin0 : In f fs0) by (apply Hsub; left; reflexivity).
    destruct (IHf gr) as [gs [Hgs [Hts Hls]]]; try assumption.
    { intros; apply Hsub; right; assumption. }
    { intros f' x' Hc. apply Hfacts. right. exact Hc. }
    pose proof (Hfacts f x (or_introl eq_refl)) as Hfact.
    rewrite dec_fields_cons. cbn zeta. fold all. rewrite Hgs.
    (* what is needed of the value chosen for this field *)
    assert (FIN : forall g', (tf_exported f = true -> type_ok (tf_type f) g' = true) ->
                   (forall acc, struct_loop (mkfield f g' :: gs) acc = struct_loop (mkfield f x :: gr) acc) ->
                   exists gs0, ubind (UOk gs) (fun gs1 => UOk (mkfield f g' :: gs1)) = UOk gs0 /\
                               type_ok_fields (f :: tr) gs0 = true /\
                               forall acc, struct_loop gs0 acc = struct_loop (mkfield f x :: gr) acc).
    { intros g' Hg' Hl. exists (mkfield f g' :: gs). split; [reflexivity|]. split; [|exact Hl].
      cbn [type_ok_fields]. rewrite Hts, (tok_field_refl f g' Hg'). reflexivity. }
    destruct (tf_exported f) eqn:He; cbn [negb].
    + (* exported *)
      specialize (Hx eq_refl). destruct (norm_total _ _ Hx) as [w Hw]. destruct (Hfact He w Hw) as [FA FB].
      destruct (xf_ty _ Hxf He) as [Hxt Hxe]. pose proof (rt_field_ty _ Hrf He) as Hrtt.
      destruct (is_emb f) eqn:Hemb.
      * (* embedded struct *)
        destruct (emb_facts f Hrf Hemb) as [_ [Htag Hjt]]. rewrite Hjt.
        pose proof Hemb as Hemb'. unfold is_emb in Hemb'. apply andb_true_iff in Hemb'. destruct Hemb' as [_ Hst].
        assert (Hnom : forall y, omitted f y = false) by (intros; apply emb_not_omitted; assumption).
        specialize (FB eq_refl).
        destruct (struct_shape _ _ _ Hst Hx Hw) as [[dx ->]|[-> Hp]].
        -- assert (HRe : Repr (tf_type f) dx R).
           { eapply (Repr_emb fs0 d R f dx HR Hin0 Hemb). intros k Hk. rewrite (FB k Hk).
             destruct (obj_get k dx); reflexivity. }
           destruct (RT1 Hrtt Hxt x (VObj dx) Hx Hw) as [_ RB].
           destruct (RB Hst dx R n' eq_refl HRe) as [g' [Hd [Hg't Hg'n]]]; [exact Hd1|].
           assert (Hcong : forall acc, struct_loop (mkfield f g' :: gs) acc = struct_loop (mkfield f x :: gr) acc).
           { intros acc. rewrite (struct_loop_exp f g' gs acc (VObj dx) He Hg'n).
             rewrite (struct_loop_exp f x gr acc (VObj dx) He Hw). rewrite !Hnom. apply Hls. }
           destruct (is_ptr_ty (tf_type f)) eqn:Hp.
           ++ destruct (tf_type f) as [| | | | | | |p| | | | |] eqn:Ety; try discriminate.
              assert (Hpres := emb_present f p x dx R all Hrf Hxf Hemb Ety).
              rewrite Ety in Hpres. rewrite (Hpres Hx Hw HRe). rewrite Hd. cbn [ubind].
              apply FIN; [intros _; exact Hg't|exact Hcong].
           ++ rewrite Hd. cbn [ubind]. apply FIN; [intros _; exact Hg't|exact Hcong].
        -- rewrite Hp. rewrite (present_false (TyStruct fs0) d R all (tf_type f) HR).
           ++ apply FIN.
              ** intros _. destruct (tf_type f); try discriminate. reflexivity.
              ** intros acc. rewrite (struct_loop_exp f (GPtr None) gs acc VNil He eq_refl).
                 rewrite (struct_loop_exp f x gr acc VNil He Hw). rewrite !Hnom. apply Hls.
           ++ intros f' Hf'. pose proof (xflat_emb_incl_gen fs0 f f' Hin0 Hemb Hf') as HfT.
              split; [exact HfT|]. split; [apply xflat_all; exact HfT|].
              destruct HR as [_ [_ H3]]. destruct (H3 f' HfT) as [m [A _]].
              rewrite (FB (field_from f') (xflat_in_names _ _ Hf')) in A. exact A.
      * (* an ordinary exported field *)
        specialize (FA eq_refl).
        pose proof (xflat_reg_in_gen fs0 f Hin0 Hemb He) as HfT.
        rewrite (filter_routes (TyStruct fs0) d R all f HR HfT (xflat_all _ _ HfT)).
        destruct HR as [HR1 [HR2 HR3]]. destruct (HR3 f HfT) as [m [A B]]. rewrite FA in A, B.
        destruct (omitted f x) eqn:Hom.
        -- cbn [option_map] in A. rewrite A. apply FIN.
           ++ intros _. eapply zero_typed. exact Hx.
           ++ intros acc. destruct (norm_total _ _ (zero_typed _ _ Hx)) as [wz Hwz].
              rewrite (struct_loop_exp f _ gs acc wz He Hwz). rewrite (struct_loop_exp f x gr acc w He Hw).
              rewrite Hom, (zero_omitted f x Hx Hom). apply Hls.
        -- cbn [option_map] in A. rewrite A. cbn [snd].
           destruct (RT1 Hrtt Hxt x w Hx Hw) as [RA _].
           destruct (RA n' m) as [g' [Hd [Hg't Hg'n]]]; [exact Hd1|apply B; reflexivity|].
           rewrite Hd. cbn [ubind]. apply FIN; [intros _; exact Hg't|].
           intros acc. rewrite (struct_loop_exp f g' gs acc w He Hg'n). rewrite (struct_loop_exp f x gr acc w He Hw).
           assert (Hom' : omitted f g' = false).
           { unfold omitted in *. destruct (tag_omitempty (tf_tag f)) eqn:Eo; [|reflexivity]. cbn [andb] in *.
             rewrite <- Hom. symmetry. apply (empty_by_norm (tf_type f) x g' w Hx Hg't Hw Hg'n).
             unfold extra_field in Hxe. apply andb_true_iff in Hxe. destruct Hxe as [_ Hxe]. rewrite Eo in Hxe.
             cbn [andb] in Hxe. apply negb_true_iff in Hxe. exact Hxe. }
           rewrite Hom, Hom'. rewrite Hls. reflexivity.
    + (* unexported *)
      destruct (unexp_facts f Hrf He) as [_ [_ Hemb]]. rewrite Hemb.
      apply FIN; [discriminate|]. intros acc. rewrite !struct_loop_unexp by exact He. apply Hls.
Qed.

(* ================================================================== *)
(** * 15. The round trip at every type *)

Lemma fuel_S : forall t n, (tdepth t <= n)%nat -> exists n', n = S n'.
Proof. intros t n H. destruct n; [destruct t; cbn [tdepth] in H; inversion H|eauto]. Qed.

Lemma vfuel_S : forall v m, (vdepth v <= m)%nat -> exists m', m = S m'.
Proof. intros v m H. destruct m; [destruct v; cbn [vdepth] in H; inversion H|eauto]. Qed.

Lemma rename_value_map : forall m e o,
  rename_value (S m) (TyMap e) (VObj o) = VObj (map (fun kv => (fst kv, rename_value m e (snd kv))) o).
Proof. reflexivity. Qed.
Lemma rename_value_slice : forall m e l,
  rename_value (S m) (TySlice e) (VArr l) = VArr (map (rename_value m e) l).
Proof. reflexivity. Qed.
Lemma rename_value_array : forall m n e l,
  rename_value (S m) (TyArray n e) (VArr l) = VArr (map (rename_value m e) l).
Proof. reflexivity. Qed.

Lemma RT_scalar : forall t,
  scalar_ty t -> is_struct_ty t = false ->
  (forall g v, type_ok t g = true -> normalize g = NOk v ->
     forall n, exists g', jdecode (S n) t v = UOk g' /\ type_ok t g' = true /\ normalize g' = NOk v) ->
  RT t.
Proof.
  intros t Hsc Hns H _ _ g v Ht Hn. split; [|rewrite Hns; discriminate].
  intros n m Hd _. destruct (fuel_S _ _ Hd) as [n' ->]. rewrite rv_scalar by exact Hsc. exact (H g v Ht Hn n').
Qed.

Lemma elems_roundtrip : forall e n m l vs,
  RT e -> rt_ty e = true -> rt_extra e = true -> (tdepth e <= n)%nat ->
  Forall (fun x => type_ok e x = true) l -> Forall2 (fun x w => normalize x = NOk w) l vs ->
  (forall w, In w vs -> (vdepth w <= m)%nat) ->
  exists gs, umap (jdecode n e) (map (rename_value m e) vs) = UOk gs /\
             Forall (fun x => type_ok e x = true) gs /\ Forall2 (fun x w => normalize x = NOk w) gs vs.
Proof.
  intros e n m l vs HRT Hrt Hex Hd Hl HF. revert Hl. induction HF as [|x w l' vs' Hxw _ IH]; intros Hl Hdep.
  - exists []. repeat split; constructor.
  - inversion Hl as [|? ? L1 L2]; subst.
    destruct (HRT Hrt Hex x w L1 Hxw) as [RA _].
    destruct (RA n m Hd (Hdep w (or_introl eq_refl))) as [g' [Hg [Hgt Hgn]]].
    destruct (IH L2) as [gs [Hgs [Hgst Hgsn]]]; [intros; apply Hdep; right; assumption|].
    exists (g' :: gs). cbn [map umap]. rewrite Hg. cbn [ubind]. rewrite Hgs. cbn [ubind].
    split; [reflexivity|]. split; constructor; assumption.
Qed.

Lemma Forall_forallb : forall A (p : A -> bool) l, Forall (fun x => p x = true) l -> forallb p l = true.
Proof. intros A p l H. apply forallb_forall. rewrite Forall_forall in H. exact H. Qed.

Theorem RT_all : forall t, RT t.
Proof.
  induction t as [b|b| | | | | |p IH|fs IH|e IH|e IH|len e IH| ] using gotype_nind.
  - (* int *)
    apply RT_scalar; [exact I|reflexivity|]. intros g v Ht Hn n.
    cbn [type_ok] in Ht. destruct g; try discriminate. cbn [normalize] in Hn. inversion Hn; subst.
    apply andb_true_iff in Ht. destruct Ht as [Hb Hr]. cbn [jdecode]. rewrite Hr.
    eexists. split; [reflexivity|]. split; [|reflexivity]. cbn [type_ok]. rewrite Z.eqb_refl, Hr. reflexivity.
  - apply RT_scalar; [exact I|reflexivity|]. intros g v Ht Hn n.
    cbn [type_ok] in Ht. destruct g; try discriminate. cbn [normalize] in Hn. inversion Hn; subst.
    apply andb_true_iff in Ht. destruct Ht as [Hb Hr]. cbn [jdecode]. rewrite Hr.
    eexists. split; [reflexivity|]. split; [|reflexivity]. cbn [type_ok]. rewrite Z.eqb_refl, Hr. reflexivity.
  - apply RT_scalar; [exact I|reflexivity|]. intros g v Ht Hn n.
    cbn [type_ok] in Ht. destruct g; try discriminate. cbn [normalize] in Hn. inversion Hn; subst.
    pose proof Ht as Ht'. apply andb_true_iff in Ht'. destruct Ht' as [_ Hx]. cbn [jdecode]. rewrite Hx.
    eexists. split; [reflexivity|]. split; [exact Ht|reflexivity].
  - apply RT_scalar; [exact I|reflexivity|]. intros g v Ht Hn n.
    cbn [type_ok] in Ht. destruct g; try discriminate. cbn [normalize] in Hn. inversion Hn; subst.
    cbn [jdecode]. eexists. split; [reflexivity|]. split; [exact Ht|reflexivity].
  - apply RT_scalar; [exact I|reflexivity|]. intros g v Ht Hn n.
    cbn [type_ok] in Ht. destruct g; try discriminate. cbn [normalize] in Hn. inversion Hn; subst.
    cbn [jdecode]. eexists. split; [reflexivity|]. split; [exact Ht|reflexivity].
  - apply RT_scalar; [exact I|reflexivity|]. intros g v Ht Hn n.
    cbn [type_ok] in Ht. destruct g; try discriminate. cbn [normalize] in Hn. inversion Hn; subst.
    cbn [jdecode]. eexists. split; [reflexivity|]. split; [exact Ht|reflexivity].
  - apply RT_scalar; [exact I|reflexivity|]. intros g v Ht Hn n.
    cbn [type_ok] in Ht. destruct g; try discriminate. cbn [normalize] in Hn. inversion Hn; subst.
    cbn [jdecode]. eexists. split; [reflexivity|]. split; [exact Ht|reflexivity].
  - (* pointers *)
    intros Hrt Hex g v Ht Hn. cbn [rt_ty rt_extra] in Hrt, Hex. split.
    + intros n m Hd Hv. destruct (fuel_S _ _ Hd) as [n' ->]. cbn [tdepth] in Hd. apply le_S_n in Hd.
      destruct (tok_ptr _ _ Ht) as [->|[g0 [-> H0]]].
      * cbn [normalize] in Hn. inversion Hn; subst. rewrite rv_nil. cbn [jdecode].
        exists (GPtr None). repeat split.
      * cbn [normalize] in Hn. rewrite rv_ptr.
        destruct v; try (
          destruct (IH Hrt Hex g0 _ H0 Hn) as [RA _]; destruct (RA n' m Hd Hv) as [g' [Hg [Hgt Hgn]]];
          rewrite jdecode_ptr by (intros C; apply rv_nil_inv in C; discriminate);
          rewrite Hg; cbn [ubind]; exists (GPtr (Some g')); split; [reflexivity|]; split; [exact Hgt|exact Hgn]).
        rewrite rv_nil. cbn [jdecode]. exists (GPtr None). repeat split.
    + intros Hs d R n -> HR Hd. destruct (fuel_S _ _ Hd) as [n' ->]. cbn [tdepth] in Hd. apply le_S_n in Hd.
      destruct (tok_ptr _ _ Ht) as [->|[g0 [-> H0]]]; [discriminate|]. cbn [normalize] in Hn.
      destruct (IH Hrt Hex g0 _ H0 Hn) as [_ RB]. cbn [is_struct_ty] in Hs.
      destruct (RB Hs d R n' eq_refl HR Hd) as [g' [Hg [Hgt Hgn]]].
      rewrite jdecode_ptr by discriminate. rewrite Hg. cbn [ubind].
      exists (GPtr (Some g')). split; [reflexivity|]. split; [exact Hgt|exact Hgn].
  - (* structs *)
    intros Hrt Hex g v Ht Hn.
    destruct (tok_struct _ _ Ht) as [gfs [-> Hf]]. pose proof Hn as HL. rewrite normalize_struct_loop in HL.
    destruct (struct_loop_obj _ _ _ HL) as [d0 ->].
    pose proof Hrt as Hrt'. rewrite rt_ty_struct in Hrt'. apply andb_true_iff in Hrt'. destruct Hrt' as [Hlv Hrf].
    pose proof Hex as Hex'. rewrite rt_extra_struct in Hex'. apply andb_true_iff in Hex'. destruct Hex' as [Hun Hxf].
    pose proof Hlv as Hlv'. rewrite struct_level_ok_eq in Hlv'. apply andb_true_iff in Hlv'. destruct Hlv' as [Hnm _].
    destruct (loop_facts fs gfs [] d0 Hrf Hxf (pairwise_NoDup _ Hnm) Hf HL) as [_ HFacts].
    assert (PB : forall d R n, VObj d0 = VObj d -> Repr (TyStruct fs) d R -> (tdepth (TyStruct fs) <= n)%nat ->
                 exists g', jdecode n (TyStruct fs) (VObj R) = UOk g' /\ type_ok (TyStruct fs) g' = true /\
                            normalize g' = NOk (VObj d0)).
    { intros d R n E HR Hd. inversion E; subst d. destruct (fuel_S _ _ Hd) as [n' ->].
      rewrite tdepth_struct in Hd. apply le_S_n in Hd.
      destruct (dec_loop fs d0 R n' HR fs gfs (fun f H => H) IH Hrf Hxf Hd Hf HFacts) as [gs [Hgs [Hts Hls]]].
      rewrite jdecode_struct. rewrite Hgs. cbn [ubind]. exists (GStruct gs). split; [reflexivity|].
      split; [rewrite type_ok_struct; exact Hts|]. rewrite normalize_struct_loop. rewrite Hls. exact HL. }
    split; [|intros _; exact PB].
    intros n m Hd Hv. destruct (vfuel_S _ _ Hv) as [m' ->].
    rewrite (rename_value_struct m' (TyStruct fs) fs d0 eq_refl).
    apply (PB d0); [reflexivity| |exact Hd].
    set (F := struct_fields (TyStruct fs)).
    assert (Hsd : keys_sorted d0 = true) by (eapply norm_obj_sorted; eassumption).
    assert (Hkd : Forall (fun kv => In (fst kv) (names (TyStruct fs))) d0)
      by (eapply doc_keys; try eassumption; reflexivity).
    split; [apply rv_fold_sorted; apply rename_obj_sorted|]. split.
    + intros k x f Hg Hfx Hfe.
      assert (Hk0 : obj_get k (rename_obj F d0) <> None).
      { intros C. apply (rv_fold_none m' F) in C. congruence. }
      destruct (obj_get k (rename_obj F d0)) as [y|] eqn:Ey; [|congruence].
      apply (tnames_fold (TyStruct fs) Hrt eq_refl); [| apply xflat_in_tnames; exact Hfx|exact Hfe].
      eapply rename_obj_keys; try eassumption; reflexivity.
    + intros f Hfx. exists m'.
      destruct (to_unique (TyStruct fs) Hrt eq_refl Hun f Hfx) as [F1 [F2 [EF [U1 U2]]]].
      fold F in EF. split.
      * rewrite EF at 1. rewrite (rv_fold_get m' F1 f F2 _ U1 U2).
        pose proof (rename_obj_get (TyStruct fs) Hrt eq_refl d0 Hsd Hkd f Hfx) as HG. fold F in HG.
        rewrite HG. reflexivity.
      * intros x Hx. pose proof (vdepth_obj_get _ _ _ Hx) as Hvx.
        apply le_S_n. etransitivity; [exact Hvx|exact Hv].
  - (* maps *)
    intros Hrt Hex g v Ht Hn. split; [|discriminate]. intros n m Hd Hv.
    cbn [rt_ty] in Hrt. apply andb_true_iff in Hrt. destruct Hrt as [_ Hrt]. cbn [rt_extra] in Hex.
    destruct (fuel_S _ _ Hd) as [n' ->]. cbn [tdepth] in Hd. apply le_S_n in Hd.
    destruct (vfuel_S _ _ Hv) as [m' ->].
    destruct (tok_map _ _ Ht) as [es [-> [Hu Hes]]]. pose proof Hn as HL. rewrite normalize_map_loop in HL.
    destruct (map_loop_obj _ _ _ HL) as [o ->]. rewrite rename_value_map.
    assert (Hso : keys_sorted o = true) by (eapply map_loop_sorted; [|exact HL]; reflexivity).
    assert (Hent : Forall (fun kv => ascii (fst kv) = true /\ exists x, type_ok e x = true /\ normalize x = NOk (snd kv)) o).
    { rewrite Forall_forall in Hes.
      eapply (map_loop_inv _ es [] o); [| |constructor|exact HL].
      - intros kv w Hin Hw. destruct (Hes kv Hin) as [Ha Hk]. cbn [fst snd]. split; [exact Ha|]. eauto.
      - intros kv Hin. destruct (Hes kv Hin) as [_ Hk]. eapply typed_not_bytes. exact Hk. }
    assert (HU : exists es', umap (fun kv => ubind (jdecode n' e (snd kv)) (fun g => UOk (fst kv, g)))
                                  (map (fun kv => (fst kv, rename_value m' e (snd kv))) o) = UOk es' /\
                Forall2 (fun kv kx => fst kx = fst kv /\ normalize (snd kx) = NOk (snd kv)) o es' /\
                Forall (fun kx => ascii (fst kx) = true /\ type_ok e (snd kx) = true) es').
    { assert (Hdep : forall kv, In kv o -> (vdepth (snd kv) <= m')%nat).
      { intros kv Hin. apply le_S_n. etransitivity; [apply vdepth_obj_In; exact Hin|exact Hv]. }
      clear HL Hn Hso Hv. induction o as [|[k w] t IHo].
      - exists []. repeat split; constructor.
      - inversion Hent as [|? ? [Ha [x [Hxt Hxn]]] E2]; subst. cbn [fst snd] in *.
        destruct (IH Hrt Hex x w Hxt Hxn) as [RA _].
        destruct (RA n' m' Hd (Hdep (k, w) (or_introl eq_refl))) as [g' [Hg [Hgt Hgn]]].
        destruct (IHo E2) as [es' [Hes' [F2 F3]]]; [intros; apply Hdep; right; assumption|].
        exists ((k, g') :: es'). cbn [map umap fst snd]. rewrite Hg. cbn [ubind]. rewrite Hes'. cbn [ubind].
        split; [reflexivity|]. split; constructor; try assumption; cbn [fst snd]; auto. }
    destruct HU as [es' [HU1 [HU2 HU3]]]. cbn [jdecode]. rewrite HU1. cbn [ubind].
    exists (GMap true es'). split; [reflexivity|]. split.
    + cbn [type_ok]. rewrite Hu. cbn [negb andb]. apply Forall_forallb.
      eapply Forall_impl; [|exact HU3]. intros kx [A B]. cbn beta. rewrite A, B. reflexivity.
    + rewrite normalize_map_loop. rewrite (map_loop_rebuild o es' [] HU2 Hso); [reflexivity|].
      apply Forall_forall. intros kv _. constructor.
  - (* slices *)
    intros Hrt Hex g v Ht Hn. split; [|discriminate]. intros n m Hd Hv.
    cbn [rt_ty] in Hrt. apply andb_true_iff in Hrt. destruct Hrt as [_ Hrt]. cbn [rt_extra] in Hex.
    destruct (fuel_S _ _ Hd) as [n' ->]. cbn [tdepth] in Hd. apply le_S_n in Hd.
    destruct (vfuel_S _ _ Hv) as [m' ->].
    destruct (tok_slice _ _ Ht) as [l [-> [Hu Hl]]]. pose proof Hn as HL. rewrite normalize_slice_loop in HL.
    destruct (slice_loop_spec _ _ _ HL) as [vs [-> HF]].
    { intros x Hin. rewrite Forall_forall in Hl. eapply typed_not_bytes. apply Hl. exact Hin. }
    cbn [rev app] in *. rewrite rename_value_slice. rewrite jdecode_slice by exact Hu.
    destruct (elems_roundtrip e n' m' l vs IH Hrt Hex Hd Hl HF) as [gs [Hgs [Hgt Hgn]]].
    { intros w Hin. apply le_S_n. etransitivity; [apply vdepth_arr_In; exact Hin|exact Hv]. }
    rewrite Hgs. cbn [ubind]. exists (GSlice false gs). split; [reflexivity|]. split.
    + cbn [type_ok]. rewrite Hu. cbn [negb andb]. apply Forall_forallb. exact Hgt.
    + rewrite normalize_slice_loop. rewrite (slice_loop_rebuild gs vs [] Hgn). reflexivity.
  - (* arrays *)
    intros Hrt Hex g v Ht Hn. split; [|discriminate]. intros n m Hd Hv.
    cbn [rt_ty] in Hrt. apply andb_true_iff in Hrt. destruct Hrt as [_ Hrt]. cbn [rt_extra] in Hex.
    destruct (fuel_S _ _ Hd) as [n' ->]. cbn [tdepth] in Hd. apply le_S_n in Hd.
    destruct (vfuel_S _ _ Hv) as [m' ->].
    destruct (tok_array _ _ _ Ht) as [l [-> [Hu [Hlen Hl]]]]. pose proof Hn as HL. rewrite normalize_slice_loop in HL.
    destruct (slice_loop_spec _ _ _ HL) as [vs [-> HF]].
    { intros x Hin. rewrite Forall_forall in Hl. eapply typed_not_bytes. apply Hl. exact Hin. }
    cbn [rev app] in *. rewrite rename_value_array. cbn [jdecode].
    destruct (elems_roundtrip e n' m' l vs IH Hrt Hex Hd Hl HF) as [gs [Hgs [Hgt Hgn]]].
    { intros w Hin. apply le_S_n. etransitivity; [apply vdepth_arr_In; exact Hin|exact Hv]. }
    pose proof (Forall2_len _ _ _ _ _ HF) as L1. pose proof (Forall2_len _ _ _ _ _ Hgn) as L2.
    assert (Hfn : firstn (Z.to_nat len) (map (rename_value m' e) vs) = map (rename_value m' e) vs).
    { apply firstn_all2. rewrite map_length. rewrite <- L1. rewrite <- Hlen. rewrite Nat2Z.id. apply le_n. }
    rewrite Hfn, Hgs. cbn [ubind].
    assert (Hpad : (Z.to_nat len - length gs = 0)%nat).
    { rewrite L2, <- L1, <- Hlen, Nat2Z.id. apply Nat.sub_diag. }
    rewrite Hpad. cbn [repeat]. rewrite app_nil_r.
    exists (GSlice false gs). split; [reflexivity|]. split.
    + cbn [type_ok]. rewrite Hu. cbn [negb andb]. apply andb_true_iff. split.
      * apply Z.eqb_eq. rewrite L2, <- L1. exact Hlen.
      * apply Forall_forallb. exact Hgt.
    + rewrite normalize_slice_loop. rewrite (slice_loop_rebuild gs vs [] Hgn). reflexivity.
  - (* interface{} *)
    apply RT_scalar; [exact I|reflexivity|]. intros g v Ht Hn n.
    cbn [type_ok] in Ht. destruct g; try discriminate; cbn [normalize] in Hn; inversion Hn; subst;
      cbn [jdecode jdecode_iface]; eexists; (split; [reflexivity|]); (split; [exact Ht|reflexivity]).
Qed.

(* ================================================================== *)
(** * 16. U2: Document.Unmarshal inverts NewDocumentOf on the round-trip domain *)

Theorem unmarshal_roundtrip : forall fs g d,
  rt_ty (TyStruct fs) = true -> rt_extra (TyStruct fs) = true ->
  type_ok (TyStruct fs) g = true -> normalize g = NOk (VObj d) ->
  exists g', unmarshal (TyStruct fs) d = UOk g' /\ type_ok (TyStruct fs) g' = true /\ normalize g' = NOk (VObj d).
Proof.
  intros fs g d Hrt Hex Ht Hn. unfold unmarshal. rewrite (norm_json _ Hrt g _ Ht Hn). cbn [ubind].
  destruct (RT_all (TyStruct fs) Hrt Hex g (VObj d) Ht Hn) as [RA _].
  apply RA; apply Nat.le_succ_diag_r.
Qed.

(* the generalisation to every type, with any sufficient fuel *)
Theorem jdecode_rename_roundtrip : forall t g v n m,
  rt_ty t = true -> rt_extra t = true -> type_ok t g = true -> normalize g = NOk v ->
  (tdepth t <= n)%nat -> (vdepth v <= m)%nat ->
  exists g', jdecode n t (rename_value m t v) = UOk g' /\ type_ok t g' = true /\ normalize g' = NOk v.
Proof. intros t g v n m Hrt Hex Ht Hn Hd Hv. destruct (RT_all t Hrt Hex g v Ht Hn) as [RA _]. exact (RA n m Hd Hv). Qed.

(* ================================================================== *)
(** * 17. U3: the iteration order of rename is irrelevant *)

Theorem rename_obj_order_irrelevant : forall fields o o',
  NoDup (map fst o) -> Permutation o o' ->
  NoDup (map (fun kv => match rename_lookup fields (fst kv) with Some k' => k' | None => fst kv end) o) ->
  rename_obj fields o = rename_obj fields o'.
Proof.
  intros fields o o' _ HP Hnd. rewrite !rename_obj_rfold.
  change (NoDup (map (fun kv => rho fields (fst kv)) o)) in Hnd.
  assert (Hnd' : NoDup (map (fun kv => rho fields (fst kv)) o')).
  { eapply Permutation_NoDup; [|exact Hnd]. apply Permutation_map. exact HP. }
  assert (CH : forall l, NoDup (map (fun kv => rho fields (fst kv)) l) -> forall k v,
            obj_get k (rfold (rho fields) l []) = Some v <-> exists k0, In (k0, v) l /\ rho fields k0 = k).
  { intros l Hl k v. split.
    - intros H. apply rfold_get_inv in H. destruct H as [H|H]; [exact H|discriminate].
    - intros [k0 [Hin <-]]. apply rfold_get; assumption. }
  apply sorted_ext; try (apply rfold_sorted; reflexivity).
  intros k. destruct (obj_get k (rfold (rho fields) o [])) as [v|] eqn:E.
  - symmetry. apply (CH o' Hnd'). apply (CH o Hnd) in E. destruct E as [k0 [Hin E]].
    exists k0. split; [eapply Permutation_in; eassumption|exact E].
  - destruct (obj_get k (rfold (rho fields) o' [])) as [v|] eqn:E'; [|reflexivity].
    apply (CH o' Hnd') in E'. destruct E' as [k0 [Hin E']].
    assert (obj_get k (rfold (rho fields) o []) = Some v) as C.
    { apply (CH o Hnd). exists k0. split; [eapply Permutation_in; [apply Permutation_sym; exact HP|exact Hin]|exact E']. }
    congruence.
Qed.

From Coq Require Import String Ascii.

(* ================================================================== *)
(** * 18. U4: a concrete struct; the premises matter *)

Definition bs (s : string) : bytes := map N_of_ascii (list_ascii_of_string s).

Definition ex_inner : gotype :=
  TyStruct [TField (bs "City") true (bs "city") None false TyString;
            TField (bs "Zip") true (bs "zip,omitempty") (Some (bs "zip_code")) false (TyInt 0)].
Definition ex_base : gotype :=
  TyStruct [TField (bs "ID") true (bs "_id") (Some (bs "id")) false TyString].
Definition ex_meta : gotype :=
  TyStruct [TField (bs "Rev") true (bs "rev") None false (TyInt 64);
            TField (bs "Note") true (bs "note,omitempty") None false TyString].

Definition ex_ty : gotype :=
  TyStruct [TField (bs "Name") true (bs "name") None false TyString;
            TField (bs "Addr") true (bs "addr") None false ex_inner;
            TField (bs "Addrs") true (bs "addrs") None false (TySlice ex_inner);
            TField (bs "ByName") true (bs "by_name") None false (TyMap ex_inner);
            TField (bs "Home") true (bs "home") None false (TyPtr ex_inner);
            TField (bs "Base") true [] None true ex_base;
            TField (bs "Meta") true [] None true (TyPtr ex_meta);
            TField (bs "Nick") true (bs "nick,omitempty") None false TyString;
            TField (bs "secret") false [] None false (TyInt 0);
            TField (bs "When") true (bs "when") None false TyTime;
            TField (bs "I8") true [] None false (TyInt 8);
            TField (bs "U64") true (bs "u64") None false (TyUint 64);
            TField (bs "F32") true (bs "f32") None false TyFloat32;
            TField (bs "Any") true (bs "any") None false TyIface].

Definition mk_inner (city : string) (zip : Z) : goval :=
  GStruct [GField (bs "City") true (bs "city") false false (GString (bs city));
           GField (bs "Zip") true (bs "zip,omitempty") false false (GInt 0 zip)].

Definition ex_fields (meta : goval) (secret : Z) : list gfield :=
  [GField (bs "Name") true (bs "name") false false (GString (bs "Ada"));
   GField (bs "Addr") true (bs "addr") false false (mk_inner "Paris" 75001);
   GField (bs "Addrs") true (bs "addrs") false false (GSlice false [mk_inner "Rome" 0; mk_inner "Oslo" 150]);
   GField (bs "ByName") true (bs "by_name") false false
          (GMap true [(bs "alt", mk_inner "Kyiv" 0); (bs "work", mk_inner "Bern" 3000)]);
   GField (bs "Home") true (bs "home") false false (GPtr (Some (mk_inner "Lima" 15)));
   GField (bs "Base") true [] true false
          (GStruct [GField (bs "ID") true (bs "_id") false false (GString (bs "doc-1"))]);
   GField (bs "Meta") true [] true false meta;
   GField (bs "Nick") true (bs "nick,omitempty") false false (GString []);
   GField (bs "secret") false [] false false (GInt 0 secret);
   GField (bs "When") true (bs "when") false false (GTime 1700000000 5 3600);
   GField (bs "I8") true [] false false (GInt 8 (-7));
   GField (bs "U64") true (bs "u64") false false (GUint 64 18446744073709551615);
   GField (bs "F32") true (bs "f32") false false (GFloat32 4609434218613702656);   (* 1.5 *)
   GField (bs "Any") true (bs "any") false true (GFloat64 4611686018427387904)].   (* 2.0 *)

Definition ex_meta_val : goval :=
  GPtr (Some (GStruct [GField (bs "Rev") true (bs "rev") false false (GInt 64 3);
                       GField (bs "Note") true (bs "note,omitempty") false false (GString [])])).

Definition ex_g : goval := GStruct (ex_fields ex_meta_val 42).
(* the same with the embedded pointer nil *)
Definition ex_g_nil : goval := GStruct (ex_fields (GPtr None) 42).

Definition ex_d : obj := Eval vm_compute in match normalize ex_g with NOk (VObj d) => d | _ => [] end.
Definition ex_g' : goval := Eval vm_compute in match unmarshal ex_ty ex_d with UOk g => g | _ => GNil end.
Definition ex_d_nil : obj := Eval vm_compute in match normalize ex_g_nil with NOk (VObj d) => d | _ => [] end.
Definition ex_g_nil' : goval := Eval vm_compute in match unmarshal ex_ty ex_d_nil with UOk g => g | _ => GNil end.

Example rt_example_in_domain : rt_ty ex_ty = true /\ type_ok ex_ty ex_g = true.
Proof. vm_compute. split; reflexivity. Qed.

Example rt_example_extra : rt_extra ex_ty = true /\ type_ok ex_ty ex_g_nil = true.
Proof. vm_compute. split; reflexivity. Qed.

Example rt_example_roundtrip :
  exists d g', normalize ex_g = NOk (VObj d) /\ unmarshal ex_ty d = UOk g' /\ normalize g' = NOk (VObj d).
Proof. exists ex_d, ex_g'. vm_compute. repeat split; reflexivity. Qed.

(* the same value with the embedded pointer nil: stored as "Meta": nil, ignored by json, restored as nil *)
Example rt_example_nil_roundtrip :
  exists d g', normalize ex_g_nil = NOk (VObj d) /\ obj_get (bs "Meta") d = Some VNil /\
               unmarshal ex_ty d = UOk g' /\ normalize g' = NOk (VObj d).
Proof. exists ex_d_nil, ex_g_nil'. vm_compute. repeat split; reflexivity. Qed.

(* the unexported field is not restored: the result differs from the input, only its document is the same *)
Example rt_example_not_identity :
  unmarshal ex_ty ex_d = UOk (GStruct (ex_fields ex_meta_val 0)) /\ ex_g <> GStruct (ex_fields ex_meta_val 0).
Proof.
  split; [vm_compute; reflexivity|]. intros C.
  apply (f_equal (fun g => match g with
                           | GStruct fs => match nth 8 fs (GField [] true [] false false GNil) with
                                           | GField _ _ _ _ _ (GInt _ z) => z
                                           | _ => 0
                                           end
                           | _ => 0
                           end)) in C.
  vm_compute in C. discriminate C.
Qed.

Example rt_example_by_theorem :
  exists d g', normalize ex_g = NOk (VObj d) /\
               unmarshal ex_ty d = UOk g' /\ type_ok ex_ty g' = true /\ normalize g' = NOk (VObj d).
Proof.
  destruct rt_example_in_domain as [Hrt Ht]. destruct rt_example_extra as [Hex _].
  destruct (normalize_typed_struct _ ex_g Hrt Ht) as [d Hd]. exists d.
  destruct (unmarshal_roundtrip _ ex_g d Hrt Hex Ht Hd) as [g' H]. exists g'. split; [exact Hd|exact H].
Qed.

(* ---- (a) case folding: struct_level_ok ---- *)

(* an embedded nil pointer is stored under its field name "Meta"; a field whose json name is "meta" then
   receives two keys: the answer is not determined *)
Definition casefold_ty : gotype :=
  TyStruct [TField (bs "Meta") true [] None true (TyPtr ex_meta);
            TField (bs "M") true [] (Some (bs "meta")) false (TyInt 0)].
Definition casefold_g : goval :=
  GStruct [GField (bs "Meta") true [] true false (GPtr None);
           GField (bs "M") true [] false false (GInt 0 5)].
Definition casefold_d : obj := Eval vm_compute in match normalize casefold_g with NOk (VObj d) => d | _ => [] end.

Example casefold_refuted :
  struct_level_ok casefold_ty = false /\ rt_ty casefold_ty = false /\ rt_extra casefold_ty = true /\
  type_ok casefold_ty casefold_g = true /\
  normalize casefold_g = NOk (VObj casefold_d) /\ unmarshal casefold_ty casefold_d = UUndet.
Proof. vm_compute. repeat split; reflexivity. Qed.

(* two ORDINARY fields whose json names differ only by case also violate struct_level_ok, but they are not a
   counterexample: encoding/json prefers the exact match, so the round trip succeeds. The case-fold part of
   struct_level_ok is needed only between a field and a name reserved for an embedded nil pointer. *)
Definition casepair_ty : gotype :=
  TyStruct [TField (bs "A") true [] (Some (bs "x")) false (TyInt 0);
            TField (bs "B") true [] (Some (bs "X")) false (TyInt 0)].
Definition casepair_g : goval :=
  GStruct [GField (bs "A") true [] false false (GInt 0 1); GField (bs "B") true [] false false (GInt 0 2)].
Definition casepair_d : obj := Eval vm_compute in match normalize casepair_g with NOk (VObj d) => d | _ => [] end.

Example casepair_not_a_counterexample :
  struct_level_ok casepair_ty = false /\ type_ok casepair_ty casepair_g = true /\
  normalize casepair_g = NOk (VObj casepair_d) /\ unmarshal casepair_ty casepair_d = UOk casepair_g.
Proof. vm_compute. repeat split; reflexivity. Qed.

(* ---- (b) emb_ptr_ok ---- *)
Definition opt_ty : gotype := TyStruct [TField (bs "Note") true (bs "note,omitempty") None false TyString].
Definition embptr_ty : gotype := TyStruct [TField (bs "Opt") true [] None true (TyPtr opt_ty)].
Definition embptr_g : goval :=
  GStruct [GField (bs "Opt") true [] true false
                  (GPtr (Some (GStruct [GField (bs "Note") true (bs "note,omitempty") false false (GString [])])))].
Definition embptr_d : obj := Eval vm_compute in match normalize embptr_g with NOk (VObj d) => d | _ => [(bs "?", VNil)] end.
Definition embptr_g' : goval := Eval vm_compute in match unmarshal embptr_ty embptr_d with UOk g => g | _ => GNil end.

Example emb_ptr_refuted :
  forallb emb_ptr_ok [TField (bs "Opt") true [] None true (TyPtr opt_ty)] = false /\ rt_ty embptr_ty = false /\
  struct_level_ok embptr_ty = true /\ rt_extra embptr_ty = true /\ type_ok embptr_ty embptr_g = true /\
  normalize embptr_g = NOk (VObj []) /\
  unmarshal embptr_ty [] = UOk embptr_g' /\ type_ok embptr_ty embptr_g' = true /\
  normalize embptr_g' = NOk (VObj [(bs "Opt", VNil)]).
Proof. vm_compute. repeat split; reflexivity. Qed.

(* ---- U2 as first stated (without rt_extra) is false: three independent counterexamples ---- *)

Definition U2_unrestricted : Prop :=
  forall fs g d, rt_ty (TyStruct fs) = true -> type_ok (TyStruct fs) g = true -> normalize g = NOk (VObj d) ->
  exists g', unmarshal (TyStruct fs) d = UOk g' /\ type_ok (TyStruct fs) g' = true /\ normalize g' = NOk (VObj d).

Lemma refute_by : forall fs g d g0,
  rt_ty (TyStruct fs) = true -> type_ok (TyStruct fs) g = true -> normalize g = NOk (VObj d) ->
  unmarshal (TyStruct fs) d = UOk g0 -> normalize g0 <> NOk (VObj d) -> ~ U2_unrestricted.
Proof.
  intros fs g d g0 Hrt Ht Hn Hu Hne HU. destruct (HU fs g d Hrt Ht Hn) as [g' [Hg' [_ Hn']]].
  rewrite Hu in Hg'. inversion Hg'; subst. contradiction.
Qed.

(* 1. an embedded (anonymous) map type: Normalize merges its entries into the parent, json keeps it named *)
Definition anonmap_fs : list tfield := [TField (bs "M") true [] None true (TyMap (TyInt 0))].
Definition anonmap_g : goval := GStruct [GField (bs "M") true [] true false (GMap true [(bs "x", GInt 0 1)])].

Example anon_map_refuted :
  rt_ty (TyStruct anonmap_fs) = true /\ rt_extra (TyStruct anonmap_fs) = false /\
  type_ok (TyStruct anonmap_fs) anonmap_g = true /\
  normalize anonmap_g = NOk (VObj [(bs "x", VInt 1)]) /\
  unmarshal (TyStruct anonmap_fs) [(bs "x", VInt 1)] = UOk (GStruct [GField (bs "M") true [] true false (GMap true [])]) /\
  normalize (GStruct [GField (bs "M") true [] true false (GMap true [])]) = NOk (VObj []).
Proof. vm_compute. repeat split; reflexivity. Qed.

(* 2. omitempty on a pointer to a pointer: &nil is stored as nil, comes back as a nil pointer, and is omitted *)
Definition omitptr_fs : list tfield := [TField (bs "P") true (bs "p,omitempty") None false (TyPtr (TyPtr (TyInt 0)))].
Definition omitptr_g : goval := GStruct [GField (bs "P") true (bs "p,omitempty") false false (GPtr (Some (GPtr None)))].

Example omit_ptr_refuted :
  rt_ty (TyStruct omitptr_fs) = true /\ rt_extra (TyStruct omitptr_fs) = false /\
  type_ok (TyStruct omitptr_fs) omitptr_g = true /\
  normalize omitptr_g = NOk (VObj [(bs "p", VNil)]) /\
  unmarshal (TyStruct omitptr_fs) [(bs "p", VNil)] =
    UOk (GStruct [GField (bs "P") true (bs "p,omitempty") false false (GPtr None)]) /\
  normalize (GStruct [GField (bs "P") true (bs "p,omitempty") false false (GPtr None)]) = NOk (VObj []).
Proof. vm_compute. repeat split; reflexivity. Qed.

(* 3. renameValue also visits unexported fields: an unexported field named like the json name of an exported
      field gets its renames applied to the exported field's value *)
Definition unexp_u : gotype := TyStruct [TField (bs "P") true (bs "Q") None false (TyInt 0)].
Definition unexp_in : gotype :=
  TyStruct [TField (bs "Q") true [] None false (TyInt 0); TField (bs "P") true [] None false (TyInt 0)].
Definition unexp_fs : list tfield :=
  [TField (bs "a") false [] None false unexp_u; TField (bs "B") true [] (Some (bs "a")) false unexp_in].
Definition unexp_g : goval :=
  GStruct [GField (bs "a") false [] false false GNil;
           GField (bs "B") true [] false false
                  (GStruct [GField (bs "Q") true [] false false (GInt 0 1); GField (bs "P") true [] false false (GInt 0 2)])].
Definition unexp_d : obj := Eval vm_compute in match normalize unexp_g with NOk (VObj d) => d | _ => [] end.
Definition unexp_g' : goval := Eval vm_compute in match unmarshal (TyStruct unexp_fs) unexp_d with UOk g => g | _ => GNil end.
Definition unexp_d' : obj := Eval vm_compute in match normalize unexp_g' with NOk (VObj d) => d | _ => [] end.

Example unexported_rename_refuted :
  rt_ty (TyStruct unexp_fs) = true /\ rt_extra (TyStruct unexp_fs) = false /\
  type_ok (TyStruct unexp_fs) unexp_g = true /\
  normalize unexp_g = NOk (VObj unexp_d) /\
  unmarshal (TyStruct unexp_fs) unexp_d = UOk unexp_g' /\
  normalize unexp_g' = NOk (VObj unexp_d') /\
  unexp_d = [(bs "B", VObj [(bs "P", VInt 2); (bs "Q", VInt 1)])] /\
  unexp_d' = [(bs "B", VObj [(bs "P", VInt 1); (bs "Q", VInt 0)])].
Proof. vm_compute. repeat split; reflexivity. Qed.

Theorem unmarshal_roundtrip_unrestricted_refuted : ~ U2_unrestricted.
Proof.
  destruct omit_ptr_refuted as [H1 [_ [H2 [H3 [H4 H5]]]]].
  eapply refute_by; try eassumption. rewrite H5. discriminate.
Qed.

Theorem unmarshal_roundtrip_unrestricted_refuted_anon_map : ~ U2_unrestricted.
Proof.
  destruct anon_map_refuted as [H1 [_ [H2 [H3 [H4 H5]]]]].
  eapply refute_by; try eassumption. rewrite H5. discriminate.
Qed.

Theorem unmarshal_roundtrip_unrestricted_refuted_unexported : ~ U2_unrestricted.
Proof.
  destruct unexported_rename_refuted as [H1 [_ [H2 [H3 [H4 [H5 [H6 H7]]]]]]].
  eapply refute_by; try eassumption. rewrite H5, H6, H7. discriminate.
Qed.

Print Assumptions normalize_typed.
Print Assumptions normalize_typed_struct.
Print Assumptions unmarshal_roundtrip.
Print Assumptions jdecode_rename_roundtrip.
Print Assumptions rename_obj_order_irrelevant.
Print Assumptions rt_example_in_domain.
Print Assumptions rt_example_roundtrip.
Print Assumptions rt_example_by_theorem.
Print Assumptions casefold_refuted.
Print Assumptions emb_ptr_refuted.
Print Assumptions unmarshal_roundtrip_unrestricted_refuted.
Print Assumptions unmarshal_roundtrip_unrestricted_refuted_anon_map.
Print Assumptions unmarshal_roundtrip_unrestricted_refuted_unexported.

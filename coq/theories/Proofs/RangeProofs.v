(* C17 — range algebra (Model/Range.v) against the scan-set semantics of Spec/ScanSpec.v.
   intersect_sound: the intersection never loses a value lying in both ranges.
   empty_sound as first stated is FALSE (ranges whose end bound is VNil = "unbounded" can be
   reported empty although their scan set is not): see empty_sound_refuted, the exact
   characterisation empty_in_range_char and the true variant empty_sound_bounded. *)
From Coq Require Import Lia ZArith Bool List.
From Clover Require Import Visit ScanSpec Domains BytesProofs CompareProofs.
Import ListNotations.
Open Scope Z_scope.

Arguments compare : simpl never.

(* ------------------------------------------------------------------ *)
(** * The regime and the compare domain *)

Lemma regime_dom : forall m v, regime m v = num_ok v && dom m v.
Proof. reflexivity. Qed.

Lemma regime_nil : forall m, regime m VNil = true.
Proof. destruct m; reflexivity. Qed.

Lemma regime_cmp_dom3 : forall m a b c,
  regime m a = true -> regime m b = true -> regime m c = true -> cmp_dom3 a b c = true.
Proof.
  intros m a b c Ha Hb Hc. unfold regime in *.
  apply andb_true_iff in Ha as [Na Da].
  apply andb_true_iff in Hb as [Nb Db].
  apply andb_true_iff in Hc as [Nc Dc].
  unfold cmp_dom3. rewrite Na, Nb, Nc. simpl.
  destruct m; rewrite Da, Db, Dc; simpl; [reflexivity | apply orb_true_r].
Qed.

(* ------------------------------------------------------------------ *)
(** * Booleans on [comparison] *)

Lemma is_ge_not_lt : forall c, is_ge c = true <-> c <> Lt.
Proof. destruct c; cbv; split; intros; congruence. Qed.

Lemma is_le_not_gt : forall c, is_le c = true <-> c <> Gt.
Proof. destruct c; cbv; split; intros; congruence. Qed.

Lemma is_lt_iff : forall c, is_lt c = true <-> c = Lt.
Proof. destruct c; simpl; split; intros; congruence. Qed.

Lemma is_gt_iff : forall c, is_gt c = true <-> c = Gt.
Proof. destruct c; simpl; split; intros; congruence. Qed.

Lemma is_eq_iff : forall c, is_eq c = true <-> c = Eq.
Proof. destruct c; simpl; split; intros; congruence. Qed.

Lemma is_ge_negb_lt : forall c, is_ge c = negb (is_lt c).
Proof. reflexivity. Qed.

Lemma is_le_negb_gt : forall c, is_le c = negb (is_gt c).
Proof. reflexivity. Qed.

Lemma is_gt_negb_le : forall c, is_gt c = negb (is_le c).
Proof. destruct c; reflexivity. Qed.

Lemma is_lt_negb_ge : forall c, is_lt c = negb (is_ge c).
Proof. destruct c; reflexivity. Qed.

(* ------------------------------------------------------------------ *)
(** * Order consequences of antisymmetry and transitivity *)

Lemma cmp_gt_lt : forall a b, compare a b = Gt <-> compare b a = Lt.
Proof.
  intros a b. rewrite (compare_antisym a b).
  destruct (compare a b); simpl; split; intros; congruence.
Qed.

Lemma cmp_lt_gt : forall a b, compare a b = Lt <-> compare b a = Gt.
Proof. intros a b. symmetry. apply cmp_gt_lt. Qed.

Lemma cmp_eq_sym : forall a b, compare a b = Eq -> compare b a = Eq.
Proof. intros a b H. rewrite (compare_antisym a b), H. reflexivity. Qed.

Lemma cmp_eq_l : forall m a b c,
  regime m a = true -> regime m b = true -> regime m c = true ->
  compare a b = Eq -> compare a c = compare b c.
Proof.
  intros m a b c Ha Hb Hc E. apply compare_eq_cong; [ | exact E].
  apply regime_cmp_dom3 with m; assumption.
Qed.

Lemma cmp_eq_r : forall m a b c,
  regime m a = true -> regime m b = true -> regime m c = true ->
  compare a b = Eq -> compare c a = compare c b.
Proof.
  intros m a b c Ha Hb Hc E.
  rewrite (compare_antisym a c), (compare_antisym b c). f_equal.
  apply cmp_eq_l with m; assumption.
Qed.

Lemma cmp_lt_trans : forall m a b c,
  regime m a = true -> regime m b = true -> regime m c = true ->
  compare a b = Lt -> compare b c = Lt -> compare a c = Lt.
Proof.
  intros m a b c Ha Hb Hc E1 E2.
  apply compare_trans with b; [ | exact E1 | exact E2].
  apply regime_cmp_dom3 with m; assumption.
Qed.

Lemma cmp_lt_le_trans : forall m a b c,
  regime m a = true -> regime m b = true -> regime m c = true ->
  compare a b = Lt -> compare b c <> Gt -> compare a c = Lt.
Proof.
  intros m a b c Ha Hb Hc E1 E2. destruct (compare b c) eqn:E.
  - rewrite <- (cmp_eq_r m b c a Hb Hc Ha E). exact E1.
  - apply cmp_lt_trans with m b; assumption.
  - congruence.
Qed.

Lemma cmp_le_lt_trans : forall m a b c,
  regime m a = true -> regime m b = true -> regime m c = true ->
  compare a b <> Gt -> compare b c = Lt -> compare a c = Lt.
Proof.
  intros m a b c Ha Hb Hc E1 E2. destruct (compare a b) eqn:E.
  - rewrite (cmp_eq_l m a b c Ha Hb Hc E). exact E2.
  - apply cmp_lt_trans with m b; assumption.
  - congruence.
Qed.

(* ------------------------------------------------------------------ *)
(** * VNil is the unique least value *)

Lemma is_nilv_true : forall x, is_nilv x = true -> x = VNil.
Proof. destruct x; simpl; intros H; try discriminate H; reflexivity. Qed.

Lemma compare_nil_l : forall x, compare VNil x = if is_nilv x then Eq else Lt.
Proof. destruct x; reflexivity. Qed.

Lemma compare_nil_r : forall x, compare x VNil = if is_nilv x then Eq else Gt.
Proof. destruct x; reflexivity. Qed.

Theorem compare_nil_eq : forall v, compare v VNil = Eq <-> v = VNil.
Proof.
  intros v. split.
  - intros H. rewrite compare_nil_r in H. destruct (is_nilv v) eqn:N.
    + apply is_nilv_true; exact N.
    + discriminate H.
  - intros ->. reflexivity.
Qed.

(* ------------------------------------------------------------------ *)
(** * in_range: the nil-only range versus ordinary ranges *)

Definition wk (r : range) (v : value) : bool :=
  above (r_start r) (r_sinc r) v && below (r_end r) (r_einc r) v.

Lemma in_range_wk : forall r v, in_range r v = true -> wk r v = true.
Proof.
  intros r v H. unfold in_range in H. unfold wk.
  destruct (range_is_nil r) eqn:N; [ | exact H].
  unfold range_is_nil in N.
  apply andb_true_iff in N as [N _]. apply andb_true_iff in N as [N _].
  apply andb_true_iff in N as [Ns Ne].
  unfold above, below. rewrite Ns, Ne. reflexivity.
Qed.

Lemma in_range_of_wk : forall r v, range_is_nil r = false -> wk r v = true -> in_range r v = true.
Proof. intros r v N H. unfold in_range. rewrite N. exact H. Qed.

Theorem in_range_nil : forall r v,
  range_is_nil r = true -> (in_range r v = true <-> compare v VNil = Eq).
Proof.
  intros r v N. unfold in_range. rewrite N. apply is_eq_iff.
Qed.

(* ------------------------------------------------------------------ *)
(** * range_intersect, bound by bound *)

Definition pick_start (s1 : value) (i1 : bool) (s2 : value) (i2 : bool) : value * bool :=
  let c1 := compare s2 s1 in
  if is_gt c1 then (s2, i2)
  else if is_eq c1 then (s1, i1 && i2)
  else if is_nilv s1 then (s2, i2)
  else (s1, i1).

Definition pick_end (e1 : value) (j1 : bool) (e2 : value) (j2 : bool) : value * bool :=
  let c2 := compare e2 e1 in
  if is_lt c2 then (e2, j2)
  else if is_eq c2 then (e1, j1 && j2)
  else if is_nilv e1 then (e2, j2)
  else (e1, j1).

Lemma range_intersect_eq : forall r1 r2,
  range_intersect r1 r2 =
  mkRange (fst (pick_start (r_start r1) (r_sinc r1) (r_start r2) (r_sinc r2)))
          (fst (pick_end (r_end r1) (r_einc r1) (r_end r2) (r_einc r2)))
          (snd (pick_start (r_start r1) (r_sinc r1) (r_start r2) (r_sinc r2)))
          (snd (pick_end (r_end r1) (r_einc r1) (r_end r2) (r_einc r2))).
Proof.
  intros r1 r2. unfold range_intersect, pick_start, pick_end.
  destruct (compare (r_start r2) (r_start r1)); simpl;
  destruct (compare (r_end r2) (r_end r1)); simpl;
  destruct (is_nilv (r_start r1)); destruct (is_nilv (r_end r1)); reflexivity.
Qed.

(* the bounds of an intersection are bounds of its arguments *)
Lemma pick_start_cases : forall s1 i1 s2 i2,
  fst (pick_start s1 i1 s2 i2) = s1 \/ fst (pick_start s1 i1 s2 i2) = s2.
Proof.
  intros. unfold pick_start.
  destruct (compare s2 s1); simpl; auto. destruct (is_nilv s1); simpl; auto.
Qed.

Lemma pick_end_cases : forall e1 j1 e2 j2,
  fst (pick_end e1 j1 e2 j2) = e1 \/ fst (pick_end e1 j1 e2 j2) = e2.
Proof.
  intros. unfold pick_end.
  destruct (compare e2 e1); simpl; auto. destruct (is_nilv e1); simpl; auto.
Qed.

Lemma intersect_bounds : forall (P : value -> Prop) r1 r2,
  P (r_start r1) -> P (r_end r1) -> P (r_start r2) -> P (r_end r2) ->
  P (r_start (range_intersect r1 r2)) /\ P (r_end (range_intersect r1 r2)).
Proof.
  intros P r1 r2 H1 H2 H3 H4. rewrite range_intersect_eq. simpl. split.
  - destruct (pick_start_cases (r_start r1) (r_sinc r1) (r_start r2) (r_sinc r2)) as [E | E];
      rewrite E; assumption.
  - destruct (pick_end_cases (r_end r1) (r_einc r1) (r_end r2) (r_einc r2)) as [E | E];
      rewrite E; assumption.
Qed.

Lemma above_pick : forall m s1 i1 s2 i2 v,
  regime m v = true -> regime m s1 = true -> regime m s2 = true ->
  above s1 i1 v = true -> above s2 i2 v = true ->
  above (fst (pick_start s1 i1 s2 i2)) (snd (pick_start s1 i1 s2 i2)) v = true.
Proof.
  intros m s1 i1 s2 i2 v Rv R1 R2 H1 H2. unfold pick_start.
  destruct (compare s2 s1) eqn:C; simpl.
  - (* equal bounds: the conjunction of the inclusivity flags *)
    unfold above in *. destruct (is_nilv s1) eqn:N1; simpl; [reflexivity | ].
    simpl in H1.
    destruct (is_nilv s2) eqn:N2.
    + apply is_nilv_true in N2. subst s2. rewrite compare_nil_l, N1 in C. discriminate C.
    + simpl in H2. rewrite (cmp_eq_r m s2 s1 v R2 R1 Rv C) in H2.
      destruct i1, i2; simpl; destruct (compare v s1); simpl in *; congruence.
  - destruct (is_nilv s1); simpl; assumption.
  - exact H2.
Qed.

Lemma below_pick : forall m e1 j1 e2 j2 v,
  regime m v = true -> regime m e1 = true -> regime m e2 = true ->
  below e1 j1 v = true -> below e2 j2 v = true ->
  below (fst (pick_end e1 j1 e2 j2)) (snd (pick_end e1 j1 e2 j2)) v = true.
Proof.
  intros m e1 j1 e2 j2 v Rv R1 R2 H1 H2. unfold pick_end.
  destruct (compare e2 e1) eqn:C; simpl.
  - unfold below in *. destruct (is_nilv e1) eqn:N1; simpl; [reflexivity | ].
    simpl in H1.
    destruct (is_nilv e2) eqn:N2.
    + apply is_nilv_true in N2. subst e2. rewrite compare_nil_l, N1 in C. discriminate C.
    + simpl in H2. rewrite (cmp_eq_r m e2 e1 v R2 R1 Rv C) in H2.
      destruct j1, j2; simpl; destruct (compare v e1); simpl in *; congruence.
  - exact H2.
  - destruct (is_nilv e1); simpl; assumption.
Qed.

(* the intersection is the nil-only range only if its second argument is *)
Lemma pick_start_nil : forall s1 i1 s2 i2,
  is_nilv (fst (pick_start s1 i1 s2 i2)) = true -> snd (pick_start s1 i1 s2 i2) = true ->
  is_nilv s2 = true /\ i2 = true.
Proof.
  intros s1 i1 s2 i2. unfold pick_start.
  destruct (compare s2 s1) eqn:C; simpl.
  - intros N I. apply is_nilv_true in N. subst s1.
    apply compare_nil_eq in C. subst s2.
    apply andb_true_iff in I as [_ I]. auto.
  - destruct (is_nilv s1) eqn:N1; simpl.
    + apply is_nilv_true in N1. subst s1. rewrite compare_nil_r in C.
      destruct (is_nilv s2); discriminate C.
    + intros N. rewrite N in N1. discriminate N1.
  - auto.
Qed.

Lemma pick_end_nil : forall e1 j1 e2 j2,
  is_nilv (fst (pick_end e1 j1 e2 j2)) = true -> snd (pick_end e1 j1 e2 j2) = true ->
  is_nilv e2 = true /\ j2 = true.
Proof.
  intros e1 j1 e2 j2. unfold pick_end.
  destruct (compare e2 e1) eqn:C; simpl.
  - intros N I. apply is_nilv_true in N. subst e1.
    apply compare_nil_eq in C. subst e2.
    apply andb_true_iff in I as [_ I]. auto.
  - auto.
  - destruct (is_nilv e1) eqn:N1; simpl.
    + auto.
    + intros N. rewrite N in N1. discriminate N1.
Qed.

Lemma intersect_nil_r : forall r1 r2,
  range_is_nil (range_intersect r1 r2) = true -> range_is_nil r2 = true.
Proof.
  intros r1 r2 H. rewrite range_intersect_eq in H. unfold range_is_nil in *. simpl in H.
  apply andb_true_iff in H as [H Ie]. apply andb_true_iff in H as [H Is].
  apply andb_true_iff in H as [Ns Ne].
  destruct (pick_start_nil _ _ _ _ Ns Is) as [A1 A2].
  destruct (pick_end_nil _ _ _ _ Ne Ie) as [B1 B2].
  rewrite A1, A2, B1, B2. reflexivity.
Qed.

(* ------------------------------------------------------------------ *)
(** * A1 — intersection is sound *)

Theorem intersect_sound : forall m r1 r2 v,
  regime m v = true ->
  regime m (r_start r1) = true -> regime m (r_end r1) = true ->
  regime m (r_start r2) = true -> regime m (r_end r2) = true ->
  in_range r1 v = true -> in_range r2 v = true ->
  in_range (range_intersect r1 r2) v = true.
Proof.
  intros m r1 r2 v Rv Rs1 Re1 Rs2 Re2 H1 H2.
  destruct (range_is_nil (range_intersect r1 r2)) eqn:N.
  - (* then r2 is the nil-only range, and v is nil *)
    pose proof (intersect_nil_r r1 r2 N) as N2.
    unfold in_range. rewrite N. unfold in_range in H2. rewrite N2 in H2. exact H2.
  - apply in_range_of_wk; [exact N | ].
    apply in_range_wk in H1. apply in_range_wk in H2. unfold wk in *.
    apply andb_true_iff in H1 as [A1 B1]. apply andb_true_iff in H2 as [A2 B2].
    rewrite range_intersect_eq. simpl. apply andb_true_iff. split.
    + apply above_pick with m; assumption.
    + apply below_pick with m; assumption.
Qed.

(* ------------------------------------------------------------------ *)
(** * A2 — emptiness.  The statement as given is false. *)

(* Counterexamples found by the vm_compute grid (8 values, 256 ranges):
   r = {start = 3, end = nil (unbounded), start incl, end incl} is reported empty, yet 5 is in its scan set;
   r = {nil, nil, excl, excl} (the unbounded range) is reported empty, yet every value is in its scan set. *)
Lemma empty_sound_refuted : exists m r v,
  regime m v = true /\ regime m (r_start r) = true /\ regime m (r_end r) = true /\
  range_is_empty r = true /\ in_range r v = true.
Proof.
  exists true, (mkRange (VInt 3) VNil true true), (VInt 5). vm_compute. repeat split.
Qed.

Lemma empty_sound_refuted_unbounded : exists m r v,
  regime m v = true /\ regime m (r_start r) = true /\ regime m (r_end r) = true /\
  range_is_empty r = true /\ in_range r v = true.
Proof.
  exists true, (mkRange VNil VNil false false), (VInt 5). vm_compute. repeat split.
Qed.

(* Exact characterisation: a range reported empty has scan set
   "nothing" if its end bound is a value, and "everything above the start" if its end bound is VNil. *)
Theorem empty_in_range_char : forall m r v,
  regime m v = true -> regime m (r_start r) = true -> regime m (r_end r) = true ->
  range_is_empty r = true ->
  in_range r v = is_nilv (r_end r) && above (r_start r) (r_sinc r) v.
Proof.
  intros m [s e si ei] v Rv Rs Re H. simpl in *.
  unfold range_is_empty in H. simpl in H.
  unfold in_range, range_is_nil. simpl.
  destruct (is_nilv e) eqn:Ne.
  - apply is_nilv_true in Ne. subst e. simpl.
    destruct (is_nilv s) eqn:Ns.
    + apply is_nilv_true in Ns. subst s. simpl in H.
      try rewrite compare_refl in H.
      destruct si, ei; simpl in H; try discriminate H. reflexivity.
    + simpl. unfold below. simpl. apply andb_true_r.
  - rewrite andb_false_r. simpl. unfold above, below. rewrite Ne. simpl.
    destruct (is_nilv s) eqn:Ns.
    + apply is_nilv_true in Ns. subst s. simpl in H.
      rewrite compare_nil_l, Ne in H.
      destruct si; simpl in H; discriminate H.
    + simpl. simpl in H.
      destruct (compare s e) eqn:C; simpl in H.
      * (* s ~ e, both exclusive *)
        destruct si; simpl in H; [discriminate H | ].
        destruct ei; simpl in H; [discriminate H | ].
        rewrite (cmp_eq_r m s e v Rs Re Rv C).
        destruct (compare v e); reflexivity.
      * discriminate H.
      * (* e < s *)
        assert (X : compare v s <> Lt -> compare v e = Gt).
        { intros NL. apply cmp_gt_lt. apply cmp_lt_le_trans with m s; try assumption.
          - apply cmp_gt_lt. exact C.
          - intros G. apply NL. apply cmp_gt_lt. exact G. }
        destruct (compare v s) eqn:Cs.
        -- rewrite X by discriminate. destruct si, ei; reflexivity.
        -- destruct si; reflexivity.
        -- rewrite X by discriminate. destruct si, ei; reflexivity.
Qed.

Definition end_bounded (r : range) : bool := negb (is_nilv (r_end r)).

(* The true variant: an "empty" range whose end bound is a value has an empty scan set. *)
Theorem empty_sound_bounded : forall m r v,
  regime m v = true -> regime m (r_start r) = true -> regime m (r_end r) = true ->
  end_bounded r = true ->
  range_is_empty r = true -> in_range r v = false.
Proof.
  intros m r v Rv Rs Re B H.
  rewrite (empty_in_range_char m r v Rv Rs Re H).
  unfold end_bounded in B. apply negb_true_iff in B. rewrite B. reflexivity.
Qed.

(* ------------------------------------------------------------------ *)
(** * Two shape invariants of intersections (used by the planner-level emptiness theorem) *)

(* the end bound is VNil and inclusive: only the nil-only range and what [range_intersect] makes of it *)
Definition nil_end (r : range) : bool := is_nilv (r_end r) && r_einc r.

(* a VNil start bound never comes with an exclusive VNil end bound *)
Definition start_ok (r : range) : bool :=
  implb (is_nilv (r_start r)) (negb (is_nilv (r_end r)) || r_einc r).

Lemma pick_end_nil_end : forall e1 j1 e2 j2,
  is_nilv (fst (pick_end e1 j1 e2 j2)) && snd (pick_end e1 j1 e2 j2) = true ->
  is_nilv e1 && j1 = true \/ is_nilv e2 && j2 = true.
Proof.
  intros e1 j1 e2 j2. unfold pick_end.
  destruct (compare e2 e1) eqn:C; simpl.
  - intros H. left. apply andb_true_iff in H as [N J].
    apply andb_true_iff in J as [J _]. rewrite N, J. reflexivity.
  - auto.
  - destruct (is_nilv e1) eqn:N1; simpl.
    + apply is_nilv_true in N1. subst e1. rewrite compare_nil_r in C.
      destruct (is_nilv e2); simpl; [discriminate C | intros H; discriminate H].
    + rewrite N1. simpl. intros H. discriminate H.
Qed.

Lemma intersect_nil_end : forall r1 r2,
  nil_end (range_intersect r1 r2) = true -> nil_end r1 = true \/ nil_end r2 = true.
Proof.
  intros r1 r2 H. rewrite range_intersect_eq in H. unfold nil_end in *. simpl in H.
  apply pick_end_nil_end. exact H.
Qed.

Lemma pick_start_nil_both : forall s1 i1 s2 i2,
  is_nilv (fst (pick_start s1 i1 s2 i2)) = true -> is_nilv s1 = true /\ is_nilv s2 = true.
Proof.
  intros s1 i1 s2 i2. unfold pick_start.
  destruct (compare s2 s1) eqn:C; simpl.
  - intros N. split; [exact N | ]. apply is_nilv_true in N. subst s1.
    apply compare_nil_eq in C. subst s2. reflexivity.
  - destruct (is_nilv s1) eqn:N1; simpl.
    + apply is_nilv_true in N1. subst s1. rewrite compare_nil_r in C.
      destruct (is_nilv s2); discriminate C.
    + intros N. rewrite N in N1. discriminate N1.
  - intros N. apply is_nilv_true in N. subst s2. rewrite compare_nil_l in C.
    destruct (is_nilv s1); discriminate C.
Qed.

Lemma pick_end_ok : forall e1 j1 e2 j2,
  negb (is_nilv e1) || j1 = true -> negb (is_nilv e2) || j2 = true ->
  negb (is_nilv (fst (pick_end e1 j1 e2 j2))) || snd (pick_end e1 j1 e2 j2) = true.
Proof.
  intros e1 j1 e2 j2 H1 H2. unfold pick_end.
  destruct (compare e2 e1) eqn:C; simpl.
  - destruct (is_nilv e1) eqn:N1; simpl; [ | reflexivity].
    apply is_nilv_true in N1. subst e1. apply compare_nil_eq in C. subst e2.
    simpl in H1, H2. rewrite H1, H2. reflexivity.
  - exact H2.
  - destruct (is_nilv e1) eqn:N1; simpl; [exact H2 | ]. rewrite N1. reflexivity.
Qed.

Lemma intersect_start_ok : forall r1 r2,
  start_ok r1 = true -> start_ok r2 = true -> start_ok (range_intersect r1 r2) = true.
Proof.
  intros r1 r2 H1 H2. rewrite range_intersect_eq. unfold start_ok in *. simpl.
  destruct (is_nilv (fst (pick_start (r_start r1) (r_sinc r1) (r_start r2) (r_sinc r2)))) eqn:N;
    [ | reflexivity].
  simpl. destruct (pick_start_nil_both _ _ _ _ N) as [N1 N2].
  rewrite N1 in H1. rewrite N2 in H2. simpl in H1, H2.
  apply pick_end_ok; assumption.
Qed.

(* ------------------------------------------------------------------ *)
(** * The exhaustive grid both statements were first tested on (float-free slice; the full
      8-value grid including a float gave the same verdicts) *)

Definition grid_vals : list value :=
  [VNil; VInt 1; VInt 3; VInt 5; VStr [97%N]; VBool true; VArr [VInt 1]].
Definition grid_ranges : list range :=
  flat_map (fun s => flat_map (fun e => flat_map (fun si =>
    map (fun ei => mkRange s e si ei) [true; false]) [true; false]) grid_vals) grid_vals.
Definition grid_intersect : bool :=
  forallb (fun r1 => forallb (fun r2 => forallb (fun v =>
    implb (in_range r1 v && in_range r2 v) (in_range (range_intersect r1 r2) v))
    grid_vals) grid_ranges) grid_ranges.
Definition grid_empty : bool :=
  forallb (fun r => forallb (fun v => implb (range_is_empty r) (negb (in_range r v))) grid_vals) grid_ranges.
Definition grid_empty_bounded : bool :=
  forallb (fun r => forallb (fun v =>
    implb (end_bounded r && range_is_empty r) (negb (in_range r v))) grid_vals) grid_ranges.

Example intersect_grid : grid_intersect = true.
Proof. vm_compute. reflexivity. Qed.
Example empty_grid_fails : grid_empty = false.
Proof. vm_compute. reflexivity. Qed.
Example empty_bounded_grid : grid_empty_bounded = true.
Proof. vm_compute. reflexivity. Qed.

(* ------------------------------------------------------------------ *)

Print Assumptions regime_cmp_dom3.
Print Assumptions intersect_sound.
Print Assumptions empty_sound_refuted.
Print Assumptions empty_sound_refuted_unbounded.
Print Assumptions empty_in_range_char.
Print Assumptions empty_sound_bounded.
Print Assumptions in_range_nil.
Print Assumptions compare_nil_eq.
Print Assumptions intersect_nil_end.
Print Assumptions intersect_start_ok.

(* C18: Go values are normalised deterministically into the canonical universe.
   normalize (Model/GoValue.v) against embed / canonical / supported (Spec/Embed.v). *)
From Coq Require Import Lia ZArith Bool List.
From Clover Require Import GoValue Embed BytesProofs.
Open Scope Z_scope.

(* ------------------------------------------------------------------ *)
(** * Nested induction principles *)

Section ValueNInd.
  Variable P : value -> Prop.
  Hypothesis HNil : P VNil.
  Hypothesis HInt : forall z, P (VInt z).
  Hypothesis HUint : forall z, P (VUint z).
  Hypothesis HFloat : forall b, P (VFloat b).
  Hypothesis HStr : forall s, P (VStr s).
  Hypothesis HBool : forall b, P (VBool b).
  Hypothesis HTime : forall s n o, P (VTime s n o).
  Hypothesis HArr : forall l, Forall P l -> P (VArr l).
  Hypothesis HObj : forall o, Forall (fun kv => P (snd kv)) o -> P (VObj o).

  Fixpoint value_nind (v : value) : P v :=
    match v as v0 return P v0 with
    | VNil => HNil
    | VInt z => HInt z
    | VUint z => HUint z
    | VFloat b => HFloat b
    | VStr s => HStr s
    | VBool b => HBool b
    | VTime s n o => HTime s n o
    | VArr l =>
        HArr l ((fix go (l : list value) : Forall P l :=
                   match l as l0 return Forall P l0 with
                   | [] => Forall_nil P
                   | x :: t => Forall_cons x (value_nind x) (go t)
                   end) l)
    | VObj o =>
        HObj o ((fix go (o : list (bytes * value)) : Forall (fun kv => P (snd kv)) o :=
                   match o as o0 return Forall (fun kv => P (snd kv)) o0 with
                   | [] => Forall_nil _
                   | kv :: t => Forall_cons kv (value_nind (snd kv)) (go t)
                   end) o)
    end.
End ValueNInd.

Definition fval (f : gfield) : goval := match f with GField _ _ _ _ _ x => x end.

Section GovalNInd.
  Variable P : goval -> Prop.
  Hypothesis HNil : P GNil.
  Hypothesis HInt : forall b z, P (GInt b z).
  Hypothesis HUint : forall b z, P (GUint b z).
  Hypothesis HF32 : forall b, P (GFloat32 b).
  Hypothesis HF64 : forall b, P (GFloat64 b).
  Hypothesis HStr : forall s, P (GString s).
  Hypothesis HBool : forall b, P (GBool b).
  Hypothesis HTime : forall s n o, P (GTime s n o).
  Hypothesis HPtrNone : P (GPtr None).
  Hypothesis HPtrSome : forall g, P g -> P (GPtr (Some g)).
  Hypothesis HStruct : forall fs, Forall (fun f => P (fval f)) fs -> P (GStruct fs).
  Hypothesis HMap : forall sk es, Forall (fun kv => P (snd kv)) es -> P (GMap sk es).
  Hypothesis HSlice : forall b l, Forall P l -> P (GSlice b l).
  Hypothesis HUnsup : P GUnsupported.
  Hypothesis HCanon : forall v, P (GCanon v).

  Fixpoint goval_nind (g : goval) : P g :=
    match g as g0 return P g0 with
    | GNil => HNil
    | GInt b z => HInt b z
    | GUint b z => HUint b z
    | GFloat32 b => HF32 b
    | GFloat64 b => HF64 b
    | GString s => HStr s
    | GBool b => HBool b
    | GTime s n o => HTime s n o
    | GPtr p =>
        match p as p0 return P (GPtr p0) with
        | None => HPtrNone
        | Some g' => HPtrSome g' (goval_nind g')
        end
    | GStruct fs =>
        HStruct fs ((fix go (fs : list gfield) : Forall (fun f => P (fval f)) fs :=
                       match fs as fs0 return Forall (fun f => P (fval f)) fs0 with
                       | [] => Forall_nil _
                       | f :: t =>
                           Forall_cons f
                             (match f as f0 return P (fval f0) with
                              | GField _ _ _ _ _ x => goval_nind x
                              end) (go t)
                       end) fs)
    | GMap sk es =>
        HMap sk es ((fix go (es : list (bytes * goval)) : Forall (fun kv => P (snd kv)) es :=
                       match es as es0 return Forall (fun kv => P (snd kv)) es0 with
                       | [] => Forall_nil _
                       | kv :: t =>
                           Forall_cons kv
                             (match kv as kv0 return P (snd kv0) with
                              | (_, x) => goval_nind x
                              end) (go t)
                       end) es)
    | GSlice b l =>
        HSlice b l ((fix go (l : list goval) : Forall P l :=
                       match l as l0 return Forall P l0 with
                       | [] => Forall_nil P
                       | x :: t => Forall_cons x (goval_nind x) (go t)
                       end) l)
    | GUnsupported => HUnsup
    | GCanon v => HCanon v
    end.
End GovalNInd.

(* ------------------------------------------------------------------ *)
(** * The three inner loops of [normalize], exposed at top level *)

Fixpoint slice_loop (l : list goval) (acc : list value) : nres :=
  match l with
  | [] => NOk (VArr (rev acc))
  | x :: t =>
      match normalize x with
      | NOk v => slice_loop t (v :: acc)
      | NBytes => slice_loop t (VNil :: acc)
      | NErr => NErr
      end
  end.

Fixpoint map_loop (es : list (bytes * goval)) (acc : obj) : nres :=
  match es with
  | [] => NOk (VObj acc)
  | (k, x) :: t =>
      match normalize x with
      | NOk v => map_loop t (obj_set k v acc)
      | NBytes => map_loop t (obj_set k VNil acc)
      | NErr => NErr
      end
  end.

(* the key under which a struct field is stored: the tag name, or the Go field name *)
Definition field_key (name tag : bytes) : bytes :=
  match tag_name tag with [] => name | n => n end.

Fixpoint struct_loop (fs : list gfield) (acc : obj) : nres :=
  match fs with
  | [] => NOk (VObj acc)
  | GField name exported tag anon iface x :: t =>
      if negb exported then struct_loop t acc
      else if tag_omitempty tag && is_empty_value iface x then struct_loop t acc
      else match normalize x with
           | NErr => NErr
           | NBytes => struct_loop t (obj_set (field_key name tag) VNil acc)
           | NOk v =>
               if anon then
                 match v with
                 | VObj o => struct_loop t (merge_obj acc o)
                 | _ => struct_loop t (obj_set (field_key name tag) v acc)
                 end
               else struct_loop t (obj_set (field_key name tag) v acc)
           end
  end.

Lemma normalize_slice_loop : forall l, normalize (GSlice false l) = slice_loop l [].
Proof.
  intros l. simpl. generalize (@nil value).
  induction l as [|x t IH]; intros acc; simpl; [reflexivity|].
  destruct (normalize x); try reflexivity; apply IH.
Qed.

Lemma normalize_map_loop : forall es, normalize (GMap true es) = map_loop es [].
Proof.
  intros es. simpl. generalize (@nil (bytes * value)).
  induction es as [|[k x] t IH]; intros acc; simpl; [reflexivity|].
  destruct (normalize x); try reflexivity; apply IH.
Qed.

Lemma normalize_struct_loop : forall fs, normalize (GStruct fs) = struct_loop fs [].
Proof.
  intros fs. simpl. generalize (@nil (bytes * value)).
  induction fs as [|[name e tag a i x] t IH]; intros acc; [reflexivity|].
  cbn [struct_loop]. fold (field_key name tag).
  destruct (negb e); [apply IH|].
  destruct (tag_omitempty tag && is_empty_value i x); [apply IH|].
  destruct (normalize x) as [v| |]; [|reflexivity|apply IH].
  destruct a; [|apply IH]. destruct v; apply IH.
Qed.

Lemma struct_loop_cons : forall name e tag a i x t acc,
  struct_loop (GField name e tag a i x :: t) acc =
  if negb e then struct_loop t acc
  else if tag_omitempty tag && is_empty_value i x then struct_loop t acc
  else match normalize x with
       | NErr => NErr
       | NBytes => struct_loop t (obj_set (field_key name tag) VNil acc)
       | NOk v =>
           if a then
             match v with
             | VObj o => struct_loop t (merge_obj acc o)
             | _ => struct_loop t (obj_set (field_key name tag) v acc)
             end
           else struct_loop t (obj_set (field_key name tag) v acc)
       end.
Proof. reflexivity. Qed.

(* ------------------------------------------------------------------ *)
(** * [obj_set] / [merge_obj] keep objects key-sorted and canonical *)

Definition key_below (k : bytes) (o : obj) : Prop := Forall (fun kv => lex k (fst kv) = Lt) o.
Definition keys_below (o : obj) (k : bytes) : Prop := Forall (fun kv => lex (fst kv) k = Lt) o.

Lemma keys_sorted_cons2 : forall k v k' v' t,
  keys_sorted ((k, v) :: (k', v') :: t) = bltb k k' && keys_sorted ((k', v') :: t).
Proof. reflexivity. Qed.

Lemma keys_sorted_cons_inv : forall t k v,
  keys_sorted ((k, v) :: t) = true -> key_below k t /\ keys_sorted t = true.
Proof.
  unfold key_below.
  induction t as [|[k' v'] t IH]; intros k v H.
  - split; [constructor | reflexivity].
  - rewrite keys_sorted_cons2 in H. apply andb_true_iff in H. destruct H as [H1 H2].
    unfold bltb in H1. destruct (lex k k') eqn:E; try discriminate.
    split; [|exact H2].
    constructor; [exact E|].
    destruct (IH k' v' H2) as [HB _].
    eapply Forall_impl; [|exact HB]. intros [k2 v2] H3; simpl in *.
    eapply lex_lt_trans; eauto.
Qed.

Lemma keys_sorted_cons_intro : forall t k v,
  key_below k t -> keys_sorted t = true -> keys_sorted ((k, v) :: t) = true.
Proof.
  unfold key_below. intros [|[k' v'] t] k v HB HS; [reflexivity|].
  rewrite keys_sorted_cons2. inversion HB as [|? ? H1 H2]; subst. simpl in H1.
  unfold bltb. rewrite H1. exact HS.
Qed.

Lemma obj_set_key_below : forall o k0 k v,
  key_below k0 o -> lex k0 k = Lt -> key_below k0 (obj_set k v o).
Proof.
  unfold key_below.
  induction o as [|[k' v'] t IH]; intros k0 k v HB HL; simpl.
  - constructor; [exact HL|constructor].
  - inversion HB as [|? ? H1 H2]; subst. destruct (lex k k') eqn:E.
    + constructor; [exact HL|exact H2].
    + constructor; [exact HL|exact HB].
    + constructor; [exact H1 | apply IH; assumption].
Qed.

Theorem obj_set_sorted : forall o k v,
  keys_sorted o = true -> keys_sorted (obj_set k v o) = true.
Proof.
  induction o as [|[k' v'] t IH]; intros k v HS; [reflexivity|].
  cbn [obj_set]. destruct (lex k k') eqn:E.
  - apply lex_eq_iff in E; subst k'.
    destruct (keys_sorted_cons_inv _ _ _ HS) as [HB HT].
    apply keys_sorted_cons_intro; assumption.
  - rewrite keys_sorted_cons2. unfold bltb; rewrite E; exact HS.
  - destruct (keys_sorted_cons_inv _ _ _ HS) as [HB HT].
    apply keys_sorted_cons_intro.
    + apply obj_set_key_below; [exact HB | apply lex_gt_lt; exact E].
    + apply IH; exact HT.
Qed.

Definition obj_canon (o : obj) : bool := forallb (fun kv => canonical (snd kv)) o.

Lemma canonical_obj : forall o, canonical (VObj o) = keys_sorted o && obj_canon o.
Proof.
  intros o. cbn [canonical]. f_equal. unfold obj_canon.
  induction o as [|[k x] t IH]; [reflexivity|]. cbn [forallb snd]. rewrite <- IH. reflexivity.
Qed.

Lemma canonical_arr : forall l, canonical (VArr l) = forallb canonical l.
Proof. reflexivity. Qed.

Lemma obj_set_canon : forall o k v,
  obj_canon o = true -> canonical v = true -> obj_canon (obj_set k v o) = true.
Proof.
  unfold obj_canon.
  induction o as [|[k' v'] t IH]; intros k v HO HV.
  - cbn [obj_set forallb snd]. rewrite HV. reflexivity.
  - cbn [obj_set]. cbn [forallb snd] in HO. apply andb_true_iff in HO. destruct HO as [H1 H2].
    destruct (lex k k'); cbn [forallb snd].
    + rewrite HV, H2. reflexivity.
    + rewrite HV, H1, H2. reflexivity.
    + rewrite H1, IH by assumption. reflexivity.
Qed.

Lemma merge_obj_sorted : forall from into,
  keys_sorted into = true -> keys_sorted (merge_obj into from) = true.
Proof.
  unfold merge_obj. induction from as [|[k v] t IH]; intros into H; simpl; [exact H|].
  apply IH. apply obj_set_sorted. exact H.
Qed.

Lemma merge_obj_canon : forall from into,
  obj_canon into = true -> obj_canon from = true -> obj_canon (merge_obj into from) = true.
Proof.
  unfold merge_obj. induction from as [|[k v] t IH]; intros into H HF; simpl; [exact H|].
  unfold obj_canon in HF. cbn [forallb snd] in HF. apply andb_true_iff in HF. destruct HF as [H1 H2].
  apply IH; [apply obj_set_canon; assumption | exact H2].
Qed.

(* inserting a key above all present keys appends at the end *)
Lemma obj_set_append : forall o k v, keys_below o k -> obj_set k v o = o ++ [(k, v)].
Proof.
  unfold keys_below. induction o as [|[k' v'] t IH]; intros k v H; [reflexivity|].
  inversion H as [|? ? H1 H2]; subst. simpl in H1.
  cbn [obj_set]. apply lex_gt_lt in H1. rewrite H1. rewrite IH by exact H2. reflexivity.
Qed.

(* folding obj_set over a strictly key-sorted list rebuilds it *)
Lemma fold_obj_set_sorted : forall o acc,
  keys_sorted o = true -> Forall (fun kv => keys_below acc (fst kv)) o ->
  fold_left (fun a kv => obj_set (fst kv) (snd kv) a) o acc = acc ++ o.
Proof.
  induction o as [|[k x] t IH]; intros acc HS HB; simpl.
  - rewrite app_nil_r. reflexivity.
  - inversion HB as [|? ? H1 H2]; subst. simpl in H1.
    destruct (keys_sorted_cons_inv _ _ _ HS) as [HK HT].
    rewrite obj_set_append by exact H1. rewrite IH.
    + rewrite <- app_assoc. reflexivity.
    + exact HT.
    + unfold key_below in HK. rewrite Forall_forall in *. intros kv Hin.
      unfold keys_below. apply Forall_app. split; [apply H2; exact Hin|].
      constructor; [|constructor]. simpl. apply HK. exact Hin.
Qed.

Theorem obj_of_list_sorted : forall o, keys_sorted o = true -> obj_of_list o = o.
Proof.
  intros o H. unfold obj_of_list. rewrite fold_obj_set_sorted; [reflexivity | exact H |].
  apply Forall_forall. intros kv _. constructor.
Qed.

Theorem merge_obj_empty_sorted : forall o, keys_sorted o = true -> merge_obj [] o = o.
Proof. exact obj_of_list_sorted. Qed.

(* ------------------------------------------------------------------ *)
(** * 1. Canonical values are fixed points of [normalize] *)

Fixpoint embed_obj (o : list (bytes * value)) : list (bytes * goval) :=
  match o with [] => [] | (k, x) :: t => (k, embed x) :: embed_obj t end.

Lemma embed_obj_eq : forall o, embed (VObj o) = GMap true (embed_obj o).
Proof.
  reflexivity.
Qed.

Lemma slice_loop_embed : forall l acc,
  Forall (fun x => normalize (embed x) = NOk x) l ->
  slice_loop (map embed l) acc = NOk (VArr (rev acc ++ l)).
Proof.
  induction l as [|x t IH]; intros acc H.
  - simpl. rewrite app_nil_r. reflexivity.
  - inversion H as [|? ? H1 H2]; subst. cbn [map slice_loop]. rewrite H1.
    rewrite IH by exact H2. cbn [rev]. rewrite <- app_assoc. reflexivity.
Qed.

Lemma map_loop_embed : forall o acc,
  Forall (fun kv => normalize (embed (snd kv)) = NOk (snd kv)) o ->
  keys_sorted o = true -> Forall (fun kv => keys_below acc (fst kv)) o ->
  map_loop (embed_obj o) acc = NOk (VObj (acc ++ o)).
Proof.
  induction o as [|[k x] t IH]; intros acc HN HS HB.
  - simpl. rewrite app_nil_r. reflexivity.
  - inversion HN as [|? ? N1 N2]; subst. simpl in N1.
    inversion HB as [|? ? H1 H2]; subst. simpl in H1.
    destruct (keys_sorted_cons_inv _ _ _ HS) as [HK HT].
    cbn [embed_obj map_loop]. rewrite N1. rewrite obj_set_append by exact H1.
    rewrite IH.
    + rewrite <- app_assoc. reflexivity.
    + exact N2.
    + exact HT.
    + unfold key_below in HK. rewrite Forall_forall in *. intros kv Hin.
      unfold keys_below. apply Forall_app. split; [apply H2; exact Hin|].
      constructor; [|constructor]. simpl. apply HK. exact Hin.
Qed.

Theorem normalize_embed : forall v, canonical v = true -> normalize (embed v) = NOk v.
Proof.
  induction v as [ | z | z | b | s | b | s n o | l IH | o IH ] using value_nind;
    intros HC; try reflexivity.
  - (* arrays *)
    change (embed (VArr l)) with (GSlice false (map embed l)).
    rewrite normalize_slice_loop. rewrite slice_loop_embed; [reflexivity|].
    rewrite canonical_arr in HC. rewrite forallb_forall in HC.
    rewrite Forall_forall in *. intros x Hin. apply IH; [exact Hin | apply HC; exact Hin].
  - (* objects *)
    rewrite embed_obj_eq, normalize_map_loop.
    rewrite canonical_obj in HC. apply andb_true_iff in HC. destruct HC as [HS HO].
    rewrite map_loop_embed; [reflexivity | | exact HS |].
    + unfold obj_canon in HO. rewrite forallb_forall in HO.
      rewrite Forall_forall in *. intros kv Hin. apply IH; [exact Hin | apply HO; exact Hin].
    + apply Forall_forall. intros kv _. constructor.
Qed.

Theorem normalize_idempotent : forall g v,
  normalize g = NOk v -> canonical v = true -> normalize (embed v) = NOk v.
Proof. intros g v _ HC. apply normalize_embed. exact HC. Qed.

(* ------------------------------------------------------------------ *)
(** * 2. The result of [normalize] is canonical *)

(* The side condition really needed: every already-canonical leaf [GCanon v] handed in through
   interface{} is canonical.  ([]uint8, unsupported kinds and non-string maps may occur freely:
   a nested []uint8 becomes VNil, which is canonical; the others make normalize fail.) *)
Fixpoint canon_leaves (g : goval) {struct g} : bool :=
  match g with
  | GSlice _ l => forallb canon_leaves l
  | GMap _ es => (fix go (es : list (bytes * goval)) : bool :=
                    match es with [] => true | (_, x) :: t => canon_leaves x && go t end) es
  | GPtr (Some g') => canon_leaves g'
  | GStruct fs => (fix go (fs : list gfield) : bool :=
                     match fs with
                     | [] => true
                     | GField _ _ _ _ _ x :: t => canon_leaves x && go t
                     end) fs
  | GCanon v => canonical v
  | _ => true
  end.

Lemma canon_leaves_slice : forall b l,
  canon_leaves (GSlice b l) = true <-> Forall (fun x => canon_leaves x = true) l.
Proof. intros b l. cbn [canon_leaves]. rewrite forallb_forall, Forall_forall. reflexivity. Qed.

Lemma canon_leaves_map : forall sk es,
  canon_leaves (GMap sk es) = true <-> Forall (fun kv => canon_leaves (snd kv) = true) es.
Proof.
  intros sk es. cbn [canon_leaves].
  induction es as [|[k x] t IH].
  - split; [constructor | reflexivity].
  - rewrite andb_true_iff, IH. split.
    + intros [A B]. constructor; assumption.
    + intros H. inversion H; subst. split; assumption.
Qed.

Lemma canon_leaves_struct : forall fs,
  canon_leaves (GStruct fs) = true <-> Forall (fun f => canon_leaves (fval f) = true) fs.
Proof.
  intros fs. cbn [canon_leaves].
  induction fs as [|[name e tag a i x] t IH].
  - split; [constructor | reflexivity].
  - rewrite andb_true_iff, IH. split.
    + intros [A B]. constructor; assumption.
    + intros H. inversion H; subst. split; assumption.
Qed.

Lemma supported_slice : forall b l,
  supported (GSlice b l) = true <-> b = false /\ Forall (fun x => supported x = true) l.
Proof.
  intros [|] l; cbn [supported].
  - split; [discriminate | intros [H _]; discriminate].
  - rewrite forallb_forall, Forall_forall. split; [intros H; split; [reflexivity | exact H] | intros [_ H]; exact H].
Qed.

Lemma supported_map : forall sk es,
  supported (GMap sk es) = true <-> sk = true /\ Forall (fun kv => supported (snd kv) = true) es.
Proof.
  intros sk es. cbn [supported]. rewrite andb_true_iff.
  apply and_iff_compat_l.
  induction es as [|[k x] t IH].
  - split; [constructor | reflexivity].
  - rewrite andb_true_iff, IH. split.
    + intros [A B]. constructor; assumption.
    + intros H. inversion H; subst. split; assumption.
Qed.

Lemma supported_struct : forall fs,
  supported (GStruct fs) = true <-> Forall (fun f => supported (fval f) = true) fs.
Proof.
  intros fs. cbn [supported].
  induction fs as [|[name e tag a i x] t IH].
  - split; [constructor | reflexivity].
  - rewrite andb_true_iff, IH. split.
    + intros [A B]. constructor; assumption.
    + intros H. inversion H; subst. split; assumption.
Qed.

Lemma Forall_mp : forall (A : Type) (P Q : A -> Prop) (l : list A),
  Forall (fun x => P x -> Q x) l -> Forall P l -> Forall Q l.
Proof.
  intros A P Q l H1 H2. rewrite Forall_forall in *. intros x Hin. apply H1; [exact Hin | apply H2; exact Hin].
Qed.

Lemma supported_canon_leaves : forall g, supported g = true -> canon_leaves g = true.
Proof.
  induction g as [ | b z | b z | b | b | s | b | s n o | | g IH | fs IH | sk es IH | b l IH | | v ]
    using goval_nind; intros H; try reflexivity.
  - apply IH. exact H.
  - apply canon_leaves_struct. apply supported_struct in H. exact (Forall_mp _ _ _ _ IH H).
  - apply canon_leaves_map. apply supported_map in H. destruct H as [_ H].
    exact (Forall_mp _ (fun kv => supported (snd kv) = true) (fun kv => canon_leaves (snd kv) = true) _ IH H).
  - apply canon_leaves_slice. apply supported_slice in H. destruct H as [_ H].
    exact (Forall_mp _ _ _ _ IH H).
  - exact H.
Qed.

(* [NC x]: whatever x normalises to is canonical *)
Definition NC (x : goval) : Prop := forall v, normalize x = NOk v -> canonical v = true.

Lemma forallb_rev : forall (A : Type) (f : A -> bool) (l : list A),
  forallb f l = true -> forallb f (rev l) = true.
Proof.
  intros A f l H. rewrite forallb_forall in *. intros x Hin. apply H. apply in_rev. exact Hin.
Qed.

Lemma slice_loop_canonical : forall l acc v,
  Forall NC l -> forallb canonical acc = true -> slice_loop l acc = NOk v -> canonical v = true.
Proof.
  induction l as [|x t IH]; intros acc v HN HA HL.
  - cbn [slice_loop] in HL. inversion HL; subst. rewrite canonical_arr. apply forallb_rev. exact HA.
  - inversion HN as [|? ? N1 N2]; subst. cbn [slice_loop] in HL.
    destruct (normalize x) as [w| |] eqn:E; [| discriminate |].
    + apply (IH (w :: acc) v N2); [|exact HL]. cbn [forallb]. rewrite (N1 w E). exact HA.
    + apply (IH (VNil :: acc) v N2); [|exact HL]. exact HA.
Qed.

Lemma map_loop_canonical : forall es acc v,
  Forall (fun kv => NC (snd kv)) es -> keys_sorted acc = true -> obj_canon acc = true ->
  map_loop es acc = NOk v -> canonical v = true.
Proof.
  induction es as [|[k x] t IH]; intros acc v HN HS HO HL.
  - cbn [map_loop] in HL. inversion HL; subst. rewrite canonical_obj, HS, HO. reflexivity.
  - inversion HN as [|? ? N1 N2]; subst. simpl in N1. cbn [map_loop] in HL.
    destruct (normalize x) as [w| |] eqn:E; [| discriminate |].
    + apply (IH (obj_set k w acc) v N2); [apply obj_set_sorted; exact HS | | exact HL].
      apply obj_set_canon; [exact HO | exact (N1 w E)].
    + apply (IH (obj_set k VNil acc) v N2); [apply obj_set_sorted; exact HS | | exact HL].
      apply obj_set_canon; [exact HO | reflexivity].
Qed.

Lemma struct_loop_canonical : forall fs acc v,
  Forall (fun f => NC (fval f)) fs -> keys_sorted acc = true -> obj_canon acc = true ->
  struct_loop fs acc = NOk v -> canonical v = true.
Proof.
  induction fs as [|[name e tag a i x] t IH]; intros acc v HN HS HO HL.
  - cbn [struct_loop] in HL. inversion HL; subst. rewrite canonical_obj, HS, HO. reflexivity.
  - inversion HN as [|? ? N1 N2]; subst. simpl in N1. rewrite struct_loop_cons in HL.
    assert (HSET : forall w, canonical w = true ->
              struct_loop t (obj_set (field_key name tag) w acc) = NOk v -> canonical v = true).
    { intros w Hw HL'. apply (IH _ v N2) in HL'; [exact HL' | apply obj_set_sorted; exact HS |].
      apply obj_set_canon; assumption. }
    destruct (negb e); [exact (IH acc v N2 HS HO HL)|].
    destruct (tag_omitempty tag && is_empty_value i x); [exact (IH acc v N2 HS HO HL)|].
    destruct (normalize x) as [w| |] eqn:E; [| discriminate | exact (HSET VNil eq_refl HL)].
    pose proof (N1 w E) as Hw.
    destruct a; [|exact (HSET w Hw HL)].
    destruct w; try exact (HSET _ Hw HL).
    rewrite canonical_obj in Hw. apply andb_true_iff in Hw. destruct Hw as [Hw1 Hw2].
    apply (IH _ v N2) in HL; [exact HL | apply merge_obj_sorted; exact HS |].
    apply merge_obj_canon; assumption.
Qed.

(* strongest form: only the GCanon leaves matter *)
Theorem normalize_canonical_leaves : forall g v,
  canon_leaves g = true -> normalize g = NOk v -> canonical v = true.
Proof.
  intros g. 
  induction g as [ | b z | b z | b | b | s | b | s n o | | g IH | fs IH | sk es IH | b l IH | | w ]
    using goval_nind; intros v HC HN;
    try (cbn [normalize] in HN; inversion HN; subst; reflexivity).
  - exact (IH v HC HN).
  - rewrite normalize_struct_loop in HN. apply canon_leaves_struct in HC.
    refine (struct_loop_canonical fs [] v _ eq_refl eq_refl HN).
    rewrite Forall_forall in *. intros f Hin w Hw. exact (IH f Hin w (HC f Hin) Hw).
  - destruct sk; [|discriminate]. rewrite normalize_map_loop in HN. apply canon_leaves_map in HC.
    refine (map_loop_canonical es [] v _ eq_refl eq_refl HN).
    rewrite Forall_forall in *. intros kv Hin w Hw. exact (IH kv Hin w (HC kv Hin) Hw).
  - destruct b; [discriminate|]. rewrite normalize_slice_loop in HN. apply canon_leaves_slice in HC.
    refine (slice_loop_canonical l [] v _ eq_refl HN).
    rewrite Forall_forall in *. intros x Hin w Hw. exact (IH x Hin w (HC x Hin) Hw).
  - cbn [normalize] in HN. inversion HN; subst. exact HC.
Qed.

Theorem normalize_canonical : forall g v,
  supported g = true -> normalize g = NOk v -> canonical v = true.
Proof.
  intros g v HS. apply normalize_canonical_leaves. apply supported_canon_leaves. exact HS.
Qed.

(* the side condition cannot be dropped: a non-canonical value passed through interface{} *)
Example normalize_canonical_needs_leaves :
  let g := GCanon (VObj [([98%N], VInt 1); ([97%N], VInt 2)]) in
  exists v, normalize g = NOk v /\ canonical v = false.
Proof. eexists. split; reflexivity. Qed.

(* ... while nested []uint8 (not [supported]) still yields a canonical value: VNil *)
Example normalize_nested_bytes :
  let g := GMap true [([97%N], GSlice true [GUint 8 1]); ([98%N], GSlice false [GSlice true []])] in
  supported g = false /\ canon_leaves g = true /\
  normalize g = NOk (VObj [([97%N], VNil); ([98%N], VArr [VNil])]).
Proof. repeat split; reflexivity. Qed.

(* ------------------------------------------------------------------ *)
(** * 3. Totality on supported input, and the error cases *)

Definition NS (x : goval) : Prop := exists v, normalize x = NOk v.

Lemma slice_loop_total : forall l acc, Forall NS l -> exists v, slice_loop l acc = NOk v.
Proof.
  induction l as [|x t IH]; intros acc H.
  - eexists. reflexivity.
  - inversion H as [|? ? [w Hw] H2]; subst. cbn [slice_loop]. rewrite Hw. apply IH. exact H2.
Qed.

Lemma map_loop_total : forall es acc, Forall (fun kv => NS (snd kv)) es -> exists v, map_loop es acc = NOk v.
Proof.
  induction es as [|[k x] t IH]; intros acc H.
  - eexists. reflexivity.
  - inversion H as [|? ? [w Hw] H2]; subst. simpl in Hw. cbn [map_loop]. rewrite Hw. apply IH. exact H2.
Qed.

Lemma struct_loop_total : forall fs acc, Forall (fun f => NS (fval f)) fs -> exists v, struct_loop fs acc = NOk v.
Proof.
  induction fs as [|[name e tag a i x] t IH]; intros acc H.
  - eexists. reflexivity.
  - inversion H as [|? ? [w Hw] H2]; subst. simpl in Hw. rewrite struct_loop_cons. rewrite Hw.
    destruct (negb e); [apply IH; exact H2|].
    destruct (tag_omitempty tag && is_empty_value i x); [apply IH; exact H2|].
    destruct a; [destruct w|]; apply IH; exact H2.
Qed.

Theorem normalize_supported : forall g, supported g = true -> exists v, normalize g = NOk v.
Proof.
  induction g as [ | b z | b z | b | b | s | b | s n o | | g IH | fs IH | sk es IH | b l IH | | w ]
    using goval_nind; intros HS; try (eexists; reflexivity).
  - exact (IH HS).
  - rewrite normalize_struct_loop. apply struct_loop_total. apply supported_struct in HS.
    exact (Forall_mp _ _ _ _ IH HS).
  - apply supported_map in HS. destruct HS as [-> HS]. rewrite normalize_map_loop.
    apply map_loop_total.
    exact (Forall_mp _ (fun kv => supported (snd kv) = true) (fun kv => NS (snd kv)) _ IH HS).
  - apply supported_slice in HS. destruct HS as [-> HS]. rewrite normalize_slice_loop.
    apply slice_loop_total. exact (Forall_mp _ _ _ _ IH HS).
  - discriminate.
Qed.

Theorem normalize_unsupported : normalize GUnsupported = NErr.
Proof. reflexivity. Qed.

Theorem normalize_map_nonstring_keys : forall es, normalize (GMap false es) = NErr.
Proof. reflexivity. Qed.

Theorem normalize_bytes_slice : forall l, normalize (GSlice true l) = NBytes.
Proof. reflexivity. Qed.

Corollary normalize_fail_not_supported : forall g,
  normalize g = NErr \/ normalize g = NBytes -> supported g = false.
Proof.
  intros g H. destruct (supported g) eqn:E; [|reflexivity].
  destruct (normalize_supported g E) as [v Hv]. rewrite Hv in H. destruct H; discriminate.
Qed.

(* ------------------------------------------------------------------ *)
(** * 4. Integer and float widening; other scalars kept *)

Theorem normalize_scalars :
  (forall b z, normalize (GInt b z) = NOk (VInt z)) /\
  (forall b z, normalize (GUint b z) = NOk (VUint z)) /\
  (forall b, normalize (GFloat32 b) = NOk (VFloat b)) /\
  (forall b, normalize (GFloat64 b) = NOk (VFloat b)) /\
  (forall s, normalize (GString s) = NOk (VStr s)) /\
  (forall b, normalize (GBool b) = NOk (VBool b)) /\
  (forall s n o, normalize (GTime s n o) = NOk (VTime s n o)) /\
  normalize GNil = NOk VNil /\
  (forall v, normalize (GCanon v) = NOk v).
Proof. repeat split. Qed.

(* ------------------------------------------------------------------ *)
(** * 5. Pointers are followed *)

Theorem normalize_ptr : forall g, normalize (GPtr (Some g)) = normalize g.
Proof. reflexivity. Qed.

Theorem normalize_ptr_nil : normalize (GPtr None) = NOk VNil.
Proof. reflexivity. Qed.

Theorem normalize_ptr_chain : forall n g,
  normalize (Nat.iter n (fun x => GPtr (Some x)) g) = normalize g.
Proof.
  induction n as [|n IH]; intros g; [reflexivity|].
  cbn [Nat.iter nat_rect]. rewrite normalize_ptr. apply IH.
Qed.

(* ------------------------------------------------------------------ *)
(** * 6. Struct tags *)

Theorem normalize_struct_field_rename : forall name tag x v,
  normalize x = NOk v -> tag_name tag <> [] -> tag_omitempty tag = false ->
  normalize (GStruct [GField name true tag false false x]) = NOk (VObj [(tag_name tag, v)]).
Proof.
  intros name tag x v HN HT HO. rewrite normalize_struct_loop, struct_loop_cons.
  rewrite HO, HN. cbn [negb andb struct_loop obj_set].
  unfold field_key. destruct (tag_name tag); [contradiction HT; reflexivity | reflexivity].
Qed.

(* without a tag name the Go field name is used *)
Theorem normalize_struct_field_untagged : forall name tag x v,
  normalize x = NOk v -> tag_name tag = [] -> tag_omitempty tag = false ->
  normalize (GStruct [GField name true tag false false x]) = NOk (VObj [(name, v)]).
Proof.
  intros name tag x v HN HT HO. rewrite normalize_struct_loop, struct_loop_cons.
  rewrite HO, HN. cbn [negb andb struct_loop obj_set].
  unfold field_key. rewrite HT. reflexivity.
Qed.

Lemma struct_loop_unexported : forall name tag a i x rest acc,
  struct_loop (GField name false tag a i x :: rest) acc = struct_loop rest acc.
Proof. reflexivity. Qed.

Theorem normalize_struct_unexported : forall name tag a i x rest,
  normalize (GStruct (GField name false tag a i x :: rest)) = normalize (GStruct rest).
Proof. intros. rewrite !normalize_struct_loop. apply struct_loop_unexported. Qed.

Lemma struct_loop_omitempty : forall name tag a i x rest acc,
  tag_omitempty tag = true -> is_empty_value i x = true ->
  struct_loop (GField name true tag a i x :: rest) acc = struct_loop rest acc.
Proof. intros name tag a i x rest acc HO HE. rewrite struct_loop_cons, HO, HE. reflexivity. Qed.

Theorem normalize_struct_omitempty : forall name tag a i x rest,
  tag_omitempty tag = true -> is_empty_value i x = true ->
  normalize (GStruct (GField name true tag a i x :: rest)) = normalize (GStruct rest).
Proof. intros. rewrite !normalize_struct_loop. apply struct_loop_omitempty; assumption. Qed.

Theorem normalize_struct_embedded : forall name tag x o rest acc,
  normalize x = NOk (VObj o) -> tag_omitempty tag = false ->
  struct_loop (GField name true tag true false x :: rest) acc = struct_loop rest (merge_obj acc o).
Proof. intros name tag x o rest acc HN HO. rewrite struct_loop_cons, HO, HN. reflexivity. Qed.

(* an ordinary (exported, kept, non-embedded) field is stored under its key *)
Theorem struct_loop_field : forall name tag i x v rest acc,
  normalize x = NOk v -> tag_omitempty tag && is_empty_value i x = false ->
  struct_loop (GField name true tag false i x :: rest) acc =
  struct_loop rest (obj_set (field_key name tag) v acc).
Proof. intros name tag i x v rest acc HN HO. rewrite struct_loop_cons, HO, HN. reflexivity. Qed.

(* ------------------------------------------------------------------ *)
(** * 7. Documents *)

Theorem doc_set_go_unsupported : forall name g d, normalize g = NErr -> doc_set_go name g d = d.
Proof. intros name g d H. unfold doc_set_go. rewrite H. reflexivity. Qed.

Theorem doc_set_go_bytes : forall name g d, normalize g = NBytes -> doc_set_go name g d = d.
Proof. intros name g d H. unfold doc_set_go. rewrite H. reflexivity. Qed.

Theorem doc_set_go_ok : forall name g v d,
  normalize g = NOk v -> doc_set_go name g d = doc_set name v d.
Proof. intros name g v d H. unfold doc_set_go. rewrite H. reflexivity. Qed.

Theorem new_document_of_non_map : forall g v,
  normalize g = NOk v -> (forall o, v <> VObj o) -> new_document_of g = None.
Proof.
  intros g v H HV. unfold new_document_of. rewrite H.
  destruct v; try reflexivity. exfalso. exact (HV l eq_refl).
Qed.

Theorem new_document_of_map : forall g o, normalize g = NOk (VObj o) -> new_document_of g = Some o.
Proof. intros g o H. unfold new_document_of. rewrite H. reflexivity. Qed.

(* ------------------------------------------------------------------ *)
(** * 8. Non-vacuity *)

Module Examples.
  Local Open Scope N_scope.
  Definition s_Name : bytes := [78; 97; 109; 101].          (* "Name" *)
  Definition s_name : bytes := [110; 97; 109; 101].         (* "name" *)
  Definition s_Age : bytes := [65; 103; 101].               (* "Age" *)
  Definition s_age_omit : bytes := [97; 103; 101; 44] ++ omitempty_s.  (* "age,omitempty" *)
  Definition s_age : bytes := [97; 103; 101].               (* "age" *)
  Definition s_Base : bytes := [66; 97; 115; 101].          (* "Base" *)
  Definition s_Id : bytes := [73; 100].                     (* "Id" *)
  Definition s_id : bytes := [105; 100].                    (* "id" *)
  Definition s_secret : bytes := [115; 101; 99; 114; 101; 116]. (* "secret" *)
  Definition s_Score : bytes := [83; 99; 111; 114; 101].    (* "Score" *)
  Definition s_bob : bytes := [98; 111; 98].                (* "bob" *)
  Local Open Scope Z_scope.

  Definition base : goval :=
    GStruct [GField s_Id true s_id false false (GUint 32 7);
             GField s_secret false [] false false GUnsupported].

  Definition person (age : Z) : goval :=
    GStruct [GField s_Name true s_name false false (GString s_bob);
             GField s_Age true s_age_omit false false (GInt 0 age);
             GField s_Base true [] true false base;
             GField s_Score true [] false false
               (GPtr (Some (GPtr (Some (GFloat32 4609434218613702656)))))].

  (* renamed field, omitted empty field, flattened embedded struct (its unexported field skipped),
     pointer-to-pointer followed, float32 widened; keys come out sorted *)
  Example normalize_person_0 :
    normalize (person 0) =
    NOk (VObj [(s_Score, VFloat 4609434218613702656); (s_id, VUint 7); (s_name, VStr s_bob)]).
  Proof. vm_compute. reflexivity. Qed.

  (* omitempty keeps a non-empty value, under the tag name *)
  Example normalize_person_41 :
    normalize (person 41) =
    NOk (VObj [(s_Score, VFloat 4609434218613702656); (s_age, VInt 41); (s_id, VUint 7);
               (s_name, VStr s_bob)]).
  Proof. vm_compute. reflexivity. Qed.

  Example person_supported : supported (person 0) = false /\ canon_leaves (person 0) = true.
  Proof. split; vm_compute; reflexivity. Qed.

  (* the result is a fixed point *)
  Example normalize_person_idem :
    forall v, normalize (person 41) = NOk v -> normalize (embed v) = NOk v.
  Proof.
    intros v H. apply (normalize_idempotent _ _ H).
    apply (normalize_canonical_leaves (person 41)); [vm_compute; reflexivity | exact H].
  Qed.

  Example new_document_of_person :
    new_document_of (person 0) =
    Some [(s_Score, VFloat 4609434218613702656); (s_id, VUint 7); (s_name, VStr s_bob)].
  Proof. vm_compute. reflexivity. Qed.

  Example new_document_of_scalar : new_document_of (GInt 8 3) = None.
  Proof. reflexivity. Qed.

  (* a chan-typed exported field makes the whole struct fail; Set then leaves the document alone *)
  Example doc_set_go_chan : forall d,
    doc_set_go s_name (GStruct [GField s_Name true [] false false GUnsupported]) d = d.
  Proof. intros d. apply doc_set_go_unsupported. reflexivity. Qed.
End Examples.

(* ------------------------------------------------------------------ *)
Print Assumptions normalize_embed.
Print Assumptions normalize_idempotent.
Print Assumptions obj_set_sorted.
Print Assumptions obj_of_list_sorted.
Print Assumptions normalize_canonical.
Print Assumptions normalize_canonical_leaves.
Print Assumptions normalize_supported.
Print Assumptions normalize_unsupported.
Print Assumptions normalize_map_nonstring_keys.
Print Assumptions normalize_bytes_slice.
Print Assumptions normalize_fail_not_supported.
Print Assumptions normalize_scalars.
Print Assumptions normalize_ptr.
Print Assumptions normalize_ptr_nil.
Print Assumptions normalize_ptr_chain.
Print Assumptions normalize_struct_loop.
Print Assumptions normalize_struct_field_rename.
Print Assumptions normalize_struct_field_untagged.
Print Assumptions normalize_struct_unexported.
Print Assumptions normalize_struct_omitempty.
Print Assumptions normalize_struct_embedded.
Print Assumptions struct_loop_field.
Print Assumptions doc_set_go_unsupported.
Print Assumptions doc_set_go_bytes.
Print Assumptions doc_set_go_ok.
Print Assumptions new_document_of_non_map.
Print Assumptions new_document_of_map.
Print Assumptions Examples.normalize_person_0.
Print Assumptions Examples.normalize_person_41.
Print Assumptions Examples.normalize_person_idem.

(* C18: Go values are normalised deterministically into the canonical universe.
   normalize (Model/GoValue.v) against embed / canonical / supported (Spec/Embed.v). *)
From Coq Require Import Lia ZArith Bool List.
From Clover Require Import GoValue Embed BytesProofs.
Open Scope Z_scope.

(* ------------------------------------------------------------------ *)
(** * Nested induction principles *)

Section ValueNInd.
  Variable P : value -> Prop.
  Hypothesis HNil : P VNil.
  Hypothesis HInt : forall z, P (VInt z).
  Hypothesis HUint : forall z, P (VUint z).
  Hypothesis HFloat : forall b, P (VFloat b).
  Hypothesis HStr : forall s, P (VStr s).
  Hypothesis HBool : forall b, P (VBool b).
  Hypothesis HTime : forall s n o, P (VTime s n o).
  Hypothesis HArr : forall l, Forall P l -> P (VArr l).
  Hypothesis HObj : forall o, Forall (fun kv => P (snd kv)) o -> P (VObj o).

  Fixpoint value_nind (v : value) : P v :=
    match v as v0 return P v0 with
    | VNil => HNil
    | VInt z => HInt z
    | VUint z => HUint z
    | VFloat b => HFloat b
    | VStr s => HStr s
    | VBool b => HBool b
    | VTime s n o => HTime s n o
    | VArr l =>
        HArr l ((fix go (l : list value) : Forall P l :=
                   match l as l0 return Forall P l0 with
                   | [] => Forall_nil P
                   | x :: t => Forall_cons x (value_nind x) (go t)
                   end) l)
    | VObj o =>
        HObj o ((fix go (o : list (bytes * value)) : Forall (fun kv => P (snd kv)) o :=
                   match o as o0 return Forall (fun kv => P (snd kv)) o0 with
                   | [] => Forall_nil _
                   | kv :: t => Forall_cons kv (value_nind (snd kv)) (go t)
                   end) o)
    end.
End ValueNInd.

Definition fval (f : gfield) : goval := match f with GField _ _ _ _ _ x => x end.

Section GovalNInd.
  Variable P : goval -> Prop.
  Hypothesis HNil : P GNil.
  Hypothesis HInt : forall b z, P (GInt b z).
  Hypothesis HUint : forall b z, P (GUint b z).
  Hypothesis HF32 : forall b, P (GFloat32 b).
  Hypothesis HF64 : forall b, P (GFloat64 b).
  Hypothesis HStr : forall s, P (GString s).
  Hypothesis HBool : forall b, P (GBool b).
  Hypothesis HTime : forall s n o, P (GTime s n o).
  Hypothesis HPtrNone : P (GPtr None).
  Hypothesis HPtrSome : forall g, P g -> P (GPtr (Some g)).
  Hypothesis HStruct : forall fs, Forall (fun f => P (fval f)) fs -> P (GStruct fs).
  Hypothesis HMap : forall sk es, Forall (fun kv => P (snd kv)) es -> P (GMap sk es).
  Hypothesis HSlice : forall b l, Forall P l -> P (GSlice b l).
  Hypothesis HUnsup : P GUnsupported.
  Hypothesis HCanon : forall v, P (GCanon v).

  Fixpoint goval_nind (g : goval) : P g :=
    match g as g0 return P g0 with
    | GNil => HNil
    | GInt b z => HInt b z
    | GUint b z => HUint b z
    | GFloat32 b => HF32 b
    | GFloat64 b => HF64 b
    | GString s => HStr s
    | GBool b => HBool b
    | GTime s n o => HTime s n o
    | GPtr p =>
        match p as p0 return P (GPtr p0) with
        | None => HPtrNone
        | Some g' => HPtrSome g' (goval_nind g')
        end
    | GStruct fs =>
        HStruct fs ((fix go (fs : list gfield) : Forall (fun f => P (fval f)) fs :=
                       match fs as fs0 return Forall (fun f => P (fval f)) fs0 with
                       | [] => Forall_nil _
                       | f :: t =>
                           Forall_cons f
                             (match f as f0 return P (fval f0) with
                              | GField _ _ _ _ _ x => goval_nind x
                              end) (go t)
                       end) fs)
    | GMap sk es =>
        HMap sk es ((fix go (es : list (bytes * goval)) : Forall (fun kv => P (snd kv)) es :=
                       match es as es0 return Forall (fun kv => P (snd kv)) es0 with
                       | [] => Forall_nil _
                       | kv :: t =>
                           Forall_cons kv
                             (match kv as kv0 return P (snd kv0) with
                              | (_, x) => goval_nind x
                              end) (go t)
                       end) es)
    | GSlice b l =>
        HSlice b l ((fix go (l : list goval) : Forall P l :=
                       match l as l0 return Forall P l0 with
                       | [] => Forall_nil P
                       | x :: t => Forall_cons x (goval_nind x) (go t)
                       end) l)
    | GUnsupported => HUnsup
    | GCanon v => HCanon v
    end.
End GovalNInd.

(* ------------------------------------------------------------------ *)
(** * The three inner loops of [normalize], exposed at top level *)

Fixpoint slice_loop (l : list goval) (acc : list value) : nres :=
  match l with
  | [] => NOk (VArr (rev acc))
  | x :: t =>
      match normalize x with
      | NOk v => slice_loop t (v :: acc)
      | NBytes => slice_loop t (VNil :: acc)
      | NErr => NErr
      end
  end.

Fixpoint map_loop (es : list (bytes * goval)) (acc : obj) : nres :=
  match es with
  | [] => NOk (VObj acc)
  | (k, x) :: t =>
      match normalize x with
      | NOk v => map_loop t (obj_set k v acc)
      | NBytes => map_loop t (obj_set k VNil acc)
      | NErr => NErr
      end
  end.

(* the key under which a struct field is stored: the tag name, or the Go field name *)
Definition field_key (name tag : bytes) : bytes :=
  match tag_name tag with [] => name | n => n end.

Fixpoint struct_loop (fs : list gfield) (acc : obj) : nres :=
  match fs with
  | [] => NOk (VObj acc)
  | GField name exported tag anon iface x :: t =>
      if negb exported then struct_loop t acc
      else if tag_omitempty tag && is_empty_value iface x then struct_loop t acc
      else match normalize x with
           | NErr => NErr
           | NBytes => struct_loop t (obj_set (field_key name tag) VNil acc)
           | NOk v =>
               if anon then
                 match v with
                 | VObj o => struct_loop t (merge_obj acc o)
                 | _ => struct_loop t (obj_set (field_key name tag) v acc)
                 end
               else struct_loop t (obj_set (field_key name tag) v acc)
           end
  end.

Lemma normalize_slice_loop : forall l, normalize (GSlice false l) = slice_loop l [].
Proof.
  intros l. simpl. generalize (@nil value).
  induction l as [|x t IH]; intros acc; simpl; [reflexivity|].
  destruct (normalize x); try reflexivity; apply IH.
Qed.

Lemma normalize_map_loop : forall es, normalize (GMap true es) = map_loop es [].
Proof.
  intros es. simpl. generalize (@nil (bytes * value)).
  induction es as [|[k x] t IH]; intros acc; simpl; [reflexivity|].
  destruct (normalize x); try reflexivity; apply IH.
Qed.

Lemma normalize_struct_loop : forall fs, normalize (GStruct fs) = struct_loop fs [].
Proof.
  intros fs. simpl. generalize (@nil (bytes * value)).
  induction fs as [|[name e tag a i x] t IH]; intros acc; [reflexivity|].
  cbn [struct_loop]. fold (field_key name tag).
  destruct (negb e); [apply IH|].
  destruct (tag_omitempty tag && is_empty_value i x); [apply IH|].
  destruct (normalize x) as [v| |]; [|reflexivity|apply IH].
  destruct a; [|apply IH]. destruct v; apply IH.
Qed.

Lemma struct_loop_cons : forall name e tag a i x t acc,
  struct_loop (GField name e tag a i x :: t) acc =
  if negb e then struct_loop t acc
  else if tag_omitempty tag && is_empty_value i x then struct_loop t acc
  else match normalize x with
       | NErr => NErr
       | NBytes => struct_loop t (obj_set (field_key name tag) VNil acc)
       | NOk v =>
           if a then
             match v with
             | VObj o => struct_loop t (merge_obj acc o)
             | _ => struct_loop t (obj_set (field_key name tag) v acc)
             end
           else struct_loop t (obj_set (field_key name tag) v acc)
       end.
Proof. reflexivity. Qed.

(* ------------------------------------------------------------------ *)
(** * [obj_set] / [merge_obj] keep objects key-sorted and canonical *)

Definition key_below (k : bytes) (o : obj) : Prop := Forall (fun kv => lex k (fst kv) = Lt) o.
Definition keys_below (o : obj) (k : bytes) : Prop := Forall (fun kv => lex (fst kv) k = Lt) o.

Lemma keys_sorted_cons2 : forall k v k' v' t,
  keys_sorted ((k, v) :: (k', v') :: t) = bltb k k' && keys_sorted ((k', v') :: t).
Proof. reflexivity. Qed.

Lemma keys_sorted_cons_inv : forall t k v,
  keys_sorted ((k, v) :: t) = true -> key_below k t /\ keys_sorted t = true.
Proof.
  unfold key_below.
  induction t as [|[k' v'] t IH]; intros k v H.
  - split; [constructor | reflexivity].
  - rewrite keys_sorted_cons2 in H. apply andb_true_iff in H. destruct H as [H1 H2].
    unfold bltb in H1. destruct (lex k k') eqn:E; try discriminate.
    split; [|exact H2].
    constructor; [exact E|].
    destruct (IH k' v' H2) as [HB _].
    eapply Forall_impl; [|exact HB]. intros [k2 v2] H3; simpl in *.
    eapply lex_lt_trans; eauto.
Qed.

Lemma keys_sorted_cons_intro : forall t k v,
  key_below k t -> keys_sorted t = true -> keys_sorted ((k, v) :: t) = true.
Proof.
  unfold key_below. intros [|[k' v'] t] k v HB HS; [reflexivity|].
  rewrite keys_sorted_cons2. inversion HB as [|? ? H1 H2]; subst. simpl in H1.
  unfold bltb. rewrite H1. exact HS.
Qed.

Lemma obj_set_key_below : forall o k0 k v,
  key_below k0 o -> lex k0 k = Lt -> key_below k0 (obj_set k v o).
Proof.
  unfold key_below.
  induction o as [|[k' v'] t IH]; intros k0 k v HB HL; simpl.
  - constructor; [exact HL|constructor].
  - inversion HB as [|? ? H1 H2]; subst. destruct (lex k k') eqn:E.
    + constructor; [exact HL|exact H2].
    + constructor; [exact HL|exact HB].
    + constructor; [exact H1 | apply IH; assumption].
Qed.

Theorem obj_set_sorted : forall o k v,
  keys_sorted o = true -> keys_sorted (obj_set k v o) = true.
Proof.
  induction o as [|[k' v'] t IH]; intros k v HS; [reflexivity|].
  cbn [obj_set]. destruct (lex k k') eqn:E.
  - apply lex_eq_iff in E; subst k'.
    destruct (keys_sorted_cons_inv _ _ _ HS) as [HB HT].
    apply keys_sorted_cons_intro; assumption.
  - rewrite keys_sorted_cons2. unfold bltb; rewrite E; exact HS.
  - destruct (keys_sorted_cons_inv _ _ _ HS) as [HB HT].
    apply keys_sorted_cons_intro.
    + apply obj_set_key_below; [exact HB | apply lex_gt_lt; exact E].
    + apply IH; exact HT.
Qed.

Definition obj_canon (o : obj) : bool := forallb (fun kv => canonical (snd kv)) o.

Lemma canonical_obj : forall o, canonical (VObj o) = keys_sorted o && obj_canon o.
Proof.
  intros o. cbn [canonical]. f_equal. unfold obj_canon.
  induction o as [|[k x] t IH]; [reflexivity|]. cbn [forallb snd]. rewrite <- IH. reflexivity.
Qed.

Lemma canonical_arr : forall l, canonical (VArr l) = forallb canonical l.
Proof. reflexivity. Qed.

Lemma obj_set_canon : forall o k v,
  obj_canon o = true -> canonical v = true -> obj_canon (obj_set k v o) = true.
Proof.
  unfold obj_canon.
  induction o as [|[k' v'] t IH]; intros k v HO HV.
  - cbn [obj_set forallb snd]. rewrite HV. reflexivity.
  - cbn [obj_set]. cbn [forallb snd] in HO. apply andb_true_iff in HO. destruct HO as [H1 H2].
    destruct (lex k k'); cbn [forallb snd].
    + rewrite HV, H2. reflexivity.
    + rewrite HV, H1, H2. reflexivity.
    + rewrite H1, IH by assumption. reflexivity.
Qed.

Lemma merge_obj_sorted : forall from into,
  keys_sorted into = true -> keys_sorted (merge_obj into from) = true.
Proof.
  unfold merge_obj. induction from as [|[k v] t IH]; intros into H; simpl; [exact H|].
  apply IH. apply obj_set_sorted. exact H.
Qed.

Lemma merge_obj_canon : forall from into,
  obj_canon into = true -> obj_canon from = true -> obj_canon (merge_obj into from) = true.
Proof.
  unfold merge_obj. induction from as [|[k v] t IH]; intros into H HF; simpl; [exact H|].
  unfold obj_canon in HF. cbn [forallb snd] in HF. apply andb_true_iff in HF. destruct HF as [H1 H2].
  apply IH; [apply obj_set_canon; assumption | exact H2].
Qed.

(* inserting a key above all present keys appends at the end *)
Lemma obj_set_append : forall o k v, keys_below o k -> obj_set k v o = o ++ [(k, v)].
Proof.
  unfold keys_below. induction o as [|[k' v'] t IH]; intros k v H; [reflexivity|].
  inversion H as [|? ? H1 H2]; subst. simpl in H1.
  cbn [obj_set]. apply lex_gt_lt in H1. rewrite H1. rewrite IH by exact H2. reflexivity.
Qed.

(* folding obj_set over a strictly key-sorted list rebuilds it *)
Lemma fold_obj_set_sorted : forall o acc,
  keys_sorted o = true -> Forall (fun kv => keys_below acc (fst kv)) o ->
  fold_left (fun a kv => obj_set (fst kv) (snd kv) a) o acc = acc ++ o.
Proof.
  induction o as [|[k x] t IH]; intros acc HS HB; simpl.
  - rewrite app_nil_r. reflexivity.
  - inversion HB as [|? ? H1 H2]; subst. simpl in H1.
    destruct (keys_sorted_cons_inv _ _ _ HS) as [HK HT].
    rewrite obj_set_append by exact H1. rewrite IH.
    + rewrite <- app_assoc. reflexivity.
    + exact HT.
    + unfold key_below in HK. rewrite Forall_forall in *. intros kv Hin.
      unfold keys_below. apply Forall_app. split; [apply H2; exact Hin|].
      constructor; [|constructor]. simpl. apply HK. exact Hin.
Qed.

Theorem obj_of_list_sorted : forall o, keys_sorted o = true -> obj_of_list o = o.
Proof.
  intros o H. unfold obj_of_list. rewrite fold_obj_set_sorted; [reflexivity | exact H |].
  apply Forall_forall. intros kv _. constructor.
Qed.

Theorem merge_obj_empty_sorted : forall o, keys_sorted o = true -> merge_obj [] o = o.
Proof. exact obj_of_list_sorted. Qed.

(* ------------------------------------------------------------------ *)
(** * 1. Canonical values are fixed points of [normalize] *)

Fixpoint embed_obj (o : list (bytes * value)) : list (bytes * goval) :=
  match o with [] => [] | (k, x) :: t => (k, embed x) :: embed_obj t end.

Lemma embed_obj_eq : forall o, embed (VObj o) = GMap true (embed_obj o).
Proof.
  reflexivity.
Qed.

Lemma slice_loop_embed : forall l acc,
  Forall (fun x => normalize (embed x) = NOk x) l ->
  slice_loop (map embed l) acc = NOk (VArr (rev acc ++ l)).
Proof.
  induction l as [|x t IH]; intros acc H.
  - simpl. rewrite app_nil_r. reflexivity.
  - inversion H as [|? ? H1 H2]; subst. cbn [map slice_loop]. rewrite H1.
    rewrite IH by exact H2. cbn [rev]. rewrite <- app_assoc. reflexivity.
Qed.

Lemma map_loop_embed : forall o acc,
  Forall (fun kv => normalize (embed (snd kv)) = NOk (snd kv)) o ->
  keys_sorted o = true -> Forall (fun kv => keys_below acc (fst kv)) o ->
  map_loop (embed_obj o) acc = NOk (VObj (acc ++ o)).
Proof.
  induction o as [|[k x] t IH]; intros acc HN HS HB.
  - simpl. rewrite app_nil_r. reflexivity.
  - inversion HN as [|? ? N1 N2]; subst. simpl in N1.
    inversion HB as [|? ? H1 H2]; subst. simpl in H1.
    destruct (keys_sorted_cons_inv _ _ _ HS) as [HK HT].
    cbn [embed_obj map_loop]. rewrite N1. rewrite obj_set_append by exact H1.
    rewrite IH.
    + rewrite <- app_assoc. reflexivity.
    + exact N2.
    + exact HT.
    + unfold key_below in HK. rewrite Forall_forall in *. intros kv Hin.
      unfold keys_below. apply Forall_app. split; [apply H2; exact Hin|].
      constructor; [|constructor]. simpl. apply HK. exact Hin.
Qed.

Theorem normalize_embed : forall v, canonical v = true -> normalize (embed v) = NOk v.
Proof.
  induction v as [ | z | z | b | s | b | s n o | l IH | o IH ] using value_nind;
    intros HC; try reflexivity.
  - (* arrays *)
    change (embed (VArr l)) with (GSlice false (map embed l)).
    rewrite normalize_slice_loop. rewrite slice_loop_embed; [reflexivity|].
    rewrite canonical_arr in HC. rewrite forallb_forall in HC.
    rewrite Forall_forall in *. intros x Hin. apply IH; [exact Hin | apply HC; exact Hin].
  - (* objects *)
    rewrite embed_obj_eq, normalize_map_loop.
    rewrite canonical_obj in HC. apply andb_true_iff in HC. destruct HC as [HS HO].
    rewrite map_loop_embed; [reflexivity | | exact HS |].
    + unfold obj_canon in HO. rewrite forallb_forall in HO.
      rewrite Forall_forall in *. intros kv Hin. apply IH; [exact Hin | apply HO; exact Hin].
    + apply Forall_forall. intros kv _. constructor.
Qed.

Theorem normalize_idempotent : forall g v,
  normalize g = NOk v -> canonical v = true -> normalize (embed v) = NOk v.
Proof. intros g v _ HC. apply normalize_embed. exact HC. Qed.

(* Linearizability with respect to the ABSTRACT specification S.

   Two results are composed here:
     - Proofs/ConcurrencyProofs.v + Proofs/OpProofs.v (C07): every concurrent execution of
       single-transaction clover operations under the store's transaction discipline (one writer,
       snapshot readers) is linearizable w.r.t. the sequential MODEL [step]: the durable store is the
       sequential replay of the linearisation [lin_of tr], and every returned call is linearised, with
       the result it returned, between its invoke and its return;
     - Proofs/AbstractSpecProofs.v: one step of the model is one step [a_step] of the abstract
       specification S (refinement R between the abstract database and the store).

   Result: the sequence of (operation, answer) pairs of a concurrent execution, taken in linearisation
   order, is a run [a_run] of S from the abstract state the initial store refines, and the final durable
   store refines the final abstract state.  No statement below mentions the model [step] in its
   conclusion: a client may reason about a concurrent execution with S alone.

   PART 1  the domain along a replay; a sequential replay is a run of S (L1)
   PART 2  concurrent executions (L2), the empty initial database (L3)
   PART 3  a concrete concurrent execution (L4)

   On the alphabet.  [step_tx]/[is_write_tx] (OpProofs.v) are [step]/[is_write_op] restricted to the
   sub-alphabet [txop] of the single-transaction operations ([single_tx o = true]: everything except
   Export, Import, CreateCollectionByQuery, Close, Reopen), the only operations for which "one operation =
   one store transaction" is faithful.  L1 is proved first over the WHOLE alphabet [op] (it is a
   statement about sequential replays, where the restriction is not needed) and then specialised to
   [txop]; L2 is stated over [txop] as C07 is.  Since Close and Reopen are not in [txop], the closed flag
   of the handle is constant along such an execution; the theorems say so ([a_closed a = closed db0]). *)
From Coq Require Import Lia ZArith Bool List.
Import ListNotations.
From Clover Require Import Concurrency ConcurrencyProofs.
From Clover Require Import CompositeSpec HistDom HistoryProofs RProofs OpProofs CompositeProofs
  AbstractSpecProofs.
Open Scope Z_scope.

(* the two projections called [durable]: of a system state (Concurrency.v) and of a handle (KV.v) *)
Local Notation sys_durable := Concurrency.durable (only parsing).
Local Notation store := KV.durable (only parsing).

(* ========================================================================================== *)
(* PART 1 : A SEQUENTIAL REPLAY IS A RUN OF S                                                 *)
(* ========================================================================================== *)

(* the operations and the answers of a sequential history, in order *)
Definition lin_ops {Op : Type} (l : list (client * Op * T)) : list Op := map (fun e => snd (fst e)) l.
Definition lin_results {Op : Type} (l : list (client * Op * T)) : list T := map snd l.

(* ---- the domain along a replay ----
   [replay_dom h l]: every operation of [l] is in the domain ([op_dom_all], CompositeSpec.v) of every
   well-formed abstract database the handle refines at its point of the replay; nothing is asked at a
   point where the handle is closed ([Rdb] demands an open handle).  This is [hist_dom_all] read along a
   list of (client, operation, answer) entries: lemma [replay_dom_hist_dom]. *)
Fixpoint replay_dom (h : dbst) (l : list (client * op * T)) : Prop :=
  match l with
  | [] => True
  | (_, o, _) :: l' =>
      (forall db, wf_db db -> Rdb db h -> op_dom_all db o) /\ replay_dom (snd (step h o)) l'
  end.

Lemma replay_dom_hist_dom : forall l h, replay_dom h l <-> hist_dom_all h (lin_ops l).
Proof.
  induction l as [|[[c o] r] l IH]; intros h.
  - cbn [replay_dom lin_ops map hist_dom_all]. tauto.
  - cbn [replay_dom lin_ops map hist_dom_all fst snd]. fold (lin_ops l). rewrite (IH (snd (step h o))). tauto.
Qed.

(* the same over the single-transaction alphabet *)
Definition untx (e : client * txop * T) : client * op * T := (fst (fst e), the_op (snd (fst e)), snd e).

Definition replay_dom_tx (h : dbst) (l : list (client * txop * T)) : Prop := replay_dom h (map untx l).

(* unfolded: the natural recursion along [step_tx] *)
Lemma replay_dom_tx_nil : forall h, replay_dom_tx h [] <-> True.
Proof. intros h. unfold replay_dom_tx. cbn [map replay_dom]. tauto. Qed.

Lemma replay_dom_tx_cons : forall h c o r l,
  replay_dom_tx h ((c, o, r) :: l) <->
  (forall db, wf_db db -> Rdb db h -> op_dom_all db (the_op o)) /\ replay_dom_tx (snd (step_tx h o)) l.
Proof. intros h c o r l. unfold replay_dom_tx, step_tx. cbn [map untx fst snd replay_dom]. tauto. Qed.

Lemma lin_ops_untx : forall l, lin_ops (map untx l) = map the_op (lin_ops l).
Proof. intros l. unfold lin_ops. rewrite !map_map. reflexivity. Qed.

Lemma lin_results_untx : forall l, lin_results (map untx l) = lin_results l.
Proof. intros l. unfold lin_results. rewrite map_map. reflexivity. Qed.

Lemma replay_ok_untx : forall l h h',
  replay_ok step_tx h l h' <-> replay_ok step h (map untx l) h'.
Proof.
  induction l as [|[[c o] r] l IH]; intros h h'.
  - cbn [map replay_ok]. tauto.
  - cbn [map untx fst snd replay_ok]. unfold step_tx at 1 2. rewrite (IH (snd (step h (the_op o))) h'). tauto.
Qed.

(* a replay computes what [run_ops] computes *)
Lemma replay_ok_run_ops : forall l h h',
  replay_ok step h l h' ->
  lin_results l = fst (run_ops h (lin_ops l)) /\ h' = snd (run_ops h (lin_ops l)).
Proof.
  induction l as [|[[c o] r] l IH]; intros h h' H.
  - cbn [replay_ok] in H. subst h'. split; reflexivity.
  - cbn [replay_ok] in H. destruct H as (Er & H).
    destruct (IH _ _ H) as (E1 & E2).
    cbn [lin_ops lin_results map fst snd]. fold (lin_ops l). fold (lin_results l).
    rewrite run_ops_cons_fst, HistoryProofs.run_ops_cons. split; [|exact E2].
    rewrite Er, E1. reflexivity.
Qed.

(* ---- L1 over the whole alphabet ---- *)
Lemma replay_refines_spec_all : forall l h a0 h',
  wf_db a0 -> Rdb' a0 h -> replay_dom h l -> replay_ok step h l h' ->
  exists a, a_run (mkA a0 (closed h)) (lin_ops l) (lin_results l) a /\
    wf_db (a_db a) /\ R (a_db a) (store h') /\ a_closed a = closed h'.
Proof.
  induction l as [|[[c o] r] l IH]; intros h a0 h' W HR HD H.
  - cbn [replay_ok] in H. subst h'. exists (mkA a0 (closed h)).
    cbn [lin_ops lin_results map a_db a_closed].
    split; [constructor|]. split; [exact W|]. split; [exact HR | reflexivity].
  - cbn [replay_ok] in H. destruct H as (Er & H). cbn [replay_dom] in HD. destruct HD as (Ho & Hl).
    destruct (step_refines_spec a0 h o W HR) as (a1 & W1 & R1 & S1).
    { intros C. apply Ho; [exact W|]. split; [exact C | exact HR]. }
    destruct (IH _ a1 h' W1 R1 Hl H) as (a & Ra & Wa & HRa & Ca).
    exists a. cbn [lin_ops lin_results map fst snd]. fold (lin_ops l). fold (lin_results l).
    rewrite Er. split; [exact (a_run_cons _ _ _ _ _ _ _ S1 Ra)|].
    split; [exact Wa|]. split; [exact HRa | exact Ca].
Qed.

(* the closed flag along a replay of single-transaction operations *)
Lemma replay_tx_keeps_closed_flag : forall l h h', replay_ok step_tx h l h' -> closed h' = closed h.
Proof.
  induction l as [|[[c o] r] l IH]; intros h h' H.
  - cbn [replay_ok] in H. subst h'. reflexivity.
  - cbn [replay_ok] in H. destruct H as (_ & H). rewrite (IH _ _ H). apply step_keeps_closed_flag.
Qed.

(* ---- L1 ---- *)
Lemma replay_refines_spec : forall (l : list (client * txop * T)) db0 a0 s,
  wf_db a0 -> Rdb' a0 db0 -> replay_dom_tx db0 l -> replay_ok step_tx db0 l s ->
  exists a, a_run (mkA a0 (closed db0)) (map the_op (lin_ops l)) (lin_results l) a /\
    wf_db (a_db a) /\ R (a_db a) (store s) /\ a_closed a = closed db0.
Proof.
  intros l db0 a0 s W HR HD H.
  destruct (replay_refines_spec_all (map untx l) db0 a0 s W HR HD (proj1 (replay_ok_untx l db0 s) H))
    as (a & Ra & Wa & HRa & Ca).
  exists a. rewrite lin_ops_untx, lin_results_untx in Ra.
  split; [exact Ra|]. split; [exact Wa|]. split; [exact HRa|].
  rewrite Ca. exact (replay_tx_keeps_closed_flag l db0 s H).
Qed.

(* ========================================================================================== *)
(* PART 2 : CONCURRENT EXECUTIONS                                                             *)
(* ========================================================================================== *)

(* ---- L2, in full: all four conclusions of [linearizable], the first one against S ---- *)
Theorem concurrent_linearizable_wrt_spec_full :
  forall (db0 : dbst) (a0 : sdb) (tr : list (event txop T)) (s : sys dbst txop T),
  wf_db a0 -> Rdb' a0 db0 ->
  exec step_tx is_write_tx (init db0) tr s ->
  replay_dom_tx db0 (lin_of tr) ->
  (exists a, a_run (mkA a0 (closed db0)) (map the_op (lin_ops (lin_of tr))) (lin_results (lin_of tr)) a /\
     wf_db (a_db a) /\ R (a_db a) (store (sys_durable s)) /\ a_closed a = closed db0) /\
  (forall i c o r, returned_at tr i c o r ->
     exists k j, lin_point_of tr c o r k j /\ (j < i)%nat /\
                 own_quiet tr c o k i (Some j) /\
                 nth_error (lin_of tr) (lin_index tr j) = Some (c, o, r)) /\
  (forall j c o r, linearised_at tr j c o r ->
     exists k, lin_point_of tr c o r k j) /\
  (forall i ca oa ra j cb ob rb lb,
     returned_at tr i ca oa ra -> (i < j)%nat -> lin_point_of tr cb ob rb j lb ->
     exists ka la, lin_point_of tr ca oa ra ka la /\ (la < i)%nat /\
                   (lin_index tr la < lin_index tr lb)%nat).
Proof.
  intros db0 a0 tr s W HR He HD.
  destruct (clover_linearizable_single_tx db0 tr s He) as (H1 & H234).
  split; [|exact H234].
  exact (replay_refines_spec (lin_of tr) db0 a0 (sys_durable s) W HR HD H1).
Qed.

(* ---- L2, in the shape of C07_clover_linearizable ---- *)
Theorem concurrent_linearizable_wrt_spec :
  forall (db0 : dbst) (a0 : sdb) (tr : list (event txop T)) (s : sys dbst txop T),
  wf_db a0 -> Rdb' a0 db0 ->
  exec step_tx is_write_tx (init db0) tr s ->
  replay_dom_tx db0 (lin_of tr) ->
  exists a,
    a_run (mkA a0 (closed db0)) (map the_op (lin_ops (lin_of tr))) (lin_results (lin_of tr)) a /\
    wf_db (a_db a) /\ R (a_db a) (store (sys_durable s)) /\ a_closed a = closed db0 /\
    (forall i c o r, returned_at tr i c o r ->
       exists k j, lin_point_of tr c o r k j /\ (j < i)%nat /\
                   nth_error (lin_of tr) (lin_index tr j) = Some (c, o, r)).
Proof.
  intros db0 a0 tr s W HR He HD.
  destruct (concurrent_linearizable_wrt_spec_full db0 a0 tr s W HR He HD)
    as ((a & Ra & Wa & HRa & Ca) & H2 & _).
  exists a. split; [exact Ra|]. split; [exact Wa|]. split; [exact HRa|]. split; [exact Ca|].
  intros i c o r Hr. destruct (H2 i c o r Hr) as (k & j & Hl & Hj & _ & Hn).
  exists k, j. split; [exact Hl|]. split; [exact Hj | exact Hn].
Qed.

(* ---- what one call observes ----
   a run of S, cut at position n: the state reached by the first n calls allows call n its answer *)
Lemma a_run_nth : forall a ops ts a', a_run a ops ts a' ->
  forall n o t, nth_error ops n = Some o -> nth_error ts n = Some t ->
  exists am am', a_run a (firstn n ops) (firstn n ts) am /\ a_step o am t am'.
Proof.
  intros a ops ts a' H. induction H as [a|a o0 t0 a1 ops ts a2 S0 H IH]; intros n o t Ho Ht.
  - destruct n; discriminate Ho.
  - destruct n as [|n].
    + cbn [nth_error] in Ho, Ht. injection Ho as <-. injection Ht as <-.
      exists a, a1. cbn [firstn]. split; [constructor | exact S0].
    + cbn [nth_error] in Ho, Ht. destruct (IH n o t Ho Ht) as (am & am' & Hr & Hs).
      exists am, am'. cbn [firstn]. split; [exact (a_run_cons _ _ _ _ _ _ _ S0 Hr) | exact Hs].
Qed.

(* every returned call got an answer that S allows in the abstract state reached by the calls linearised
   before it (n of them), and its linearisation point lies between its invoke and its return *)
Theorem returned_call_allowed_by_spec :
  forall (db0 : dbst) (a0 : sdb) (tr : list (event txop T)) (s : sys dbst txop T),
  wf_db a0 -> Rdb' a0 db0 ->
  exec step_tx is_write_tx (init db0) tr s ->
  replay_dom_tx db0 (lin_of tr) ->
  forall i c o r, returned_at tr i c o r ->
    exists k j am am',
      lin_point_of tr c o r k j /\ (j < i)%nat /\
      a_run (mkA a0 (closed db0))
            (firstn (lin_index tr j) (map the_op (lin_ops (lin_of tr))))
            (firstn (lin_index tr j) (lin_results (lin_of tr))) am /\
      a_step (the_op o) am r am'.
Proof.
  intros db0 a0 tr s W HR He HD i c o r Hr.
  destruct (concurrent_linearizable_wrt_spec db0 a0 tr s W HR He HD) as (a & Ra & _ & _ & _ & H2).
  destruct (H2 i c o r Hr) as (k & j & Hl & Hj & Hn).
  assert (Ho : nth_error (map the_op (lin_ops (lin_of tr))) (lin_index tr j) = Some (the_op o)).
  { unfold lin_ops. rewrite map_map. rewrite (map_nth_error _ _ _ Hn). reflexivity. }
  assert (Ht : nth_error (lin_results (lin_of tr)) (lin_index tr j) = Some r).
  { unfold lin_results. rewrite (map_nth_error _ _ _ Hn). reflexivity. }
  destruct (a_run_nth _ _ _ _ Ra _ _ _ Ho Ht) as (am & am' & Hrun & Hs).
  exists k, j, am, am'. split; [exact Hl|]. split; [exact Hj|]. split; [exact Hrun | exact Hs].
Qed.

(* ---- L3: the empty initial database ---- *)
Corollary concurrent_linearizable_wrt_spec_empty :
  forall (tr : list (event txop T)) (s : sys dbst txop T),
  exec step_tx is_write_tx (init empty_db) tr s ->
  replay_dom_tx empty_db (lin_of tr) ->
  exists a,
    a_run a_init (map the_op (lin_ops (lin_of tr))) (lin_results (lin_of tr)) a /\
    wf_db (a_db a) /\ R (a_db a) (store (sys_durable s)) /\ a_closed a = false /\
    (forall i c o r, returned_at tr i c o r ->
       exists k j, lin_point_of tr c o r k j /\ (j < i)%nat /\
                   nth_error (lin_of tr) (lin_index tr j) = Some (c, o, r)).
Proof.
  intros tr s He HD.
  exact (concurrent_linearizable_wrt_spec empty_db [] tr s wf_empty R_empty He HD).
Qed.

(* ---- the same over the whole alphabet [op] ----
   [clover_linearizable] (OpProofs.v) instantiates the discipline over every operation, composites and
   Close/Reopen included; as said there, for those it is not a claim about clover (they are not one
   transaction).  The composition with S goes through all the same, and is recorded for completeness. *)
Theorem concurrent_linearizable_wrt_spec_all_ops :
  forall (db0 : dbst) (a0 : sdb) (tr : list (event op T)) (s : sys dbst op T),
  wf_db a0 -> Rdb' a0 db0 ->
  exec step is_write_op (init db0) tr s ->
  replay_dom db0 (lin_of tr) ->
  exists a,
    a_run (mkA a0 (closed db0)) (lin_ops (lin_of tr)) (lin_results (lin_of tr)) a /\
    wf_db (a_db a) /\ R (a_db a) (store (sys_durable s)) /\ a_closed a = closed (sys_durable s) /\
    (forall i c o r, returned_at tr i c o r ->
       exists k j, lin_point_of tr c o r k j /\ (j < i)%nat /\
                   nth_error (lin_of tr) (lin_index tr j) = Some (c, o, r)).
Proof.
  intros db0 a0 tr s W HR He HD.
  destruct (clover_linearizable db0 tr s He) as (H1 & H2 & _).
  destruct (replay_refines_spec_all (lin_of tr) db0 a0 (sys_durable s) W HR HD H1) as (a & Ra & Wa & HRa & Ca).
  exists a. split; [exact Ra|]. split; [exact Wa|]. split; [exact HRa|]. split; [exact Ca|].
  intros i c o r Hr. destruct (H2 i c o r Hr) as (k & j & Hl & Hj & _ & Hn).
  exists k, j. split; [exact Hl|]. split; [exact Hj | exact Hn].
Qed.

(* ========================================================================================== *)
(* PART 3 : A CONCRETE CONCURRENT EXECUTION                                                   *)
(* ========================================================================================== *)
(* Two goroutines on one handle, from the empty database.  Client 0 creates collection "t" and returns;
   then client 0 inserts a document while client 1 runs FindAll on "t": the read transaction begins after
   the write transaction has begun and BEFORE it commits, so it works on the snapshot without the document
   and answers the empty list, although it ends (and returns) after the commit.  Client 1 then runs FindAll
   again and sees the document. *)
Definition cx_create : txop := mkTxOp (OCreateCollection ex_c) eq_refl.
Definition cx_insert : txop := mkTxOp (OInsert ex_c [ex_d1] []) eq_refl.
Definition cx_find   : txop := mkTxOp (OFindAll (ex_c, []) 0) eq_refl.

Definition cx_ok : T := T_ok (TL []).
Definition cx_none : T := T_ok (T_of_docs [] 0 []).
Definition cx_one : T := T_ok (T_of_docs [] 0 [ex_d1]).

Definition cx_trace : list (event txop T) :=
  [ EInvoke 0%nat cx_create;
    EBeginWrite 0%nat cx_create;
    ECommit 0%nat cx_create cx_ok;
    EReturn 0%nat cx_create cx_ok;
    EInvoke 0%nat cx_insert;
    EInvoke 1%nat cx_find;
    EBeginWrite 0%nat cx_insert;
    EBeginRead 1%nat cx_find cx_none;        (* snapshot: the insert is not committed yet *)
    ECommit 0%nat cx_insert cx_ok;
    EEndRead 1%nat;
    EReturn 1%nat cx_find cx_none;
    EReturn 0%nat cx_insert cx_ok;
    EInvoke 1%nat cx_find;
    EBeginRead 1%nat cx_find cx_one;
    EEndRead 1%nat;
    EReturn 1%nat cx_find cx_one ].

Ltac cx_cl := cbv [cl lock set_cl upd Nat.eqb init]; reflexivity.
Ltac cx_res := cbv [Concurrency.durable set_cl init]; vm_compute; reflexivity.
Ltac cx_step :=
  eapply exec_cons;
  [ first [ eapply T_invoke; cx_cl
          | eapply T_begin_read; [cx_cl | reflexivity | cx_res]
          | eapply T_end_read; cx_cl
          | eapply T_begin_write; [cx_cl | reflexivity | cx_cl]
          | eapply T_commit; [cx_cl | cx_cl | cx_res]
          | eapply T_return; cx_cl ] | ].

(* it is an execution of the transition system *)
Example cx_is_execution : exists s, exec step_tx is_write_tx (init empty_db) cx_trace s.
Proof. eexists. unfold cx_trace. do 16 cx_step. apply exec_nil. Qed.

(* its linearisation: the first FindAll is ordered BEFORE the Insert it overlaps *)
Example cx_linearisation :
  lin_of cx_trace =
    [ (0%nat, cx_create, cx_ok); (1%nat, cx_find, cx_none); (0%nat, cx_insert, cx_ok); (1%nat, cx_find, cx_one) ].
Proof. reflexivity. Qed.

Example cx_in_domain : replay_dom_tx empty_db (lin_of cx_trace).
Proof.
  unfold replay_dom_tx. apply replay_dom_hist_dom. rewrite cx_linearisation.
  apply hist_domb_all_sound. vm_compute. reflexivity.
Qed.

(* L3 instantiated: whatever state the execution ends in, the four calls in linearisation order, with the
   answers the clients got, are a run of S from the empty abstract database, the final store refines the
   final abstract state, and each of the four returned calls is linearised before it returns *)
Example cx_linearizable_wrt_spec : forall s,
  exec step_tx is_write_tx (init empty_db) cx_trace s ->
  exists a,
    a_run a_init
      [ OCreateCollection ex_c; OFindAll (ex_c, []) 0; OInsert ex_c [ex_d1] []; OFindAll (ex_c, []) 0 ]
      [ T_ok (TL []); T_ok (T_of_docs [] 0 []); T_ok (TL []); T_ok (T_of_docs [] 0 [ex_d1]) ] a /\
    wf_db (a_db a) /\ R (a_db a) (store (sys_durable s)) /\ a_closed a = false /\
    (forall i c o r, returned_at cx_trace i c o r ->
       exists k j, lin_point_of cx_trace c o r k j /\ (j < i)%nat /\
                   nth_error (lin_of cx_trace) (lin_index cx_trace j) = Some (c, o, r)).
Proof.
  intros s He.
  destruct (concurrent_linearizable_wrt_spec_empty cx_trace s He cx_in_domain) as (a & Ra & H).
  exists a. split; [|exact H]. rewrite cx_linearisation in Ra. exact Ra.
Qed.

(* the premise is inhabited *)
Example cx_nonvacuous : exists s a,
  exec step_tx is_write_tx (init empty_db) cx_trace s /\
  a_run a_init
    [ OCreateCollection ex_c; OFindAll (ex_c, []) 0; OInsert ex_c [ex_d1] []; OFindAll (ex_c, []) 0 ]
    [ T_ok (TL []); T_ok (T_of_docs [] 0 []); T_ok (TL []); T_ok (T_of_docs [] 0 [ex_d1]) ] a /\
  wf_db (a_db a) /\ R (a_db a) (store (sys_durable s)).
Proof.
  destruct cx_is_execution as (s & He).
  destruct (cx_linearizable_wrt_spec s He) as (a & Ra & Wa & HRa & _).
  exists s, a. split; [exact He|]. split; [exact Ra|]. split; [exact Wa | exact HRa].
Qed.

(* S alone determines the final abstract database of this run: collection "t" holding the one document,
   so by the refinement the durable store at the end holds exactly that *)
Example cx_final_abstract_state : forall a,
  a_run a_init
    [ OCreateCollection ex_c; OFindAll (ex_c, []) 0; OInsert ex_c [ex_d1] []; OFindAll (ex_c, []) 0 ]
    [ T_ok (TL []); T_ok (T_of_docs [] 0 []); T_ok (TL []); T_ok (T_of_docs [] 0 [ex_d1]) ] a ->
  a = mkA [(ex_c, mkSC [(ex_id1, ex_d1)] [])] false.
Proof.
  intros a H.
  inversion H as [|? ? ? a1 ? ? ? S1 H1]; subst; clear H.
  inversion H1 as [|? ? ? a2 ? ? ? S2 H2]; subst; clear H1.
  inversion H2 as [|? ? ? a3 ? ? ? S3 H3]; subst; clear H2.
  inversion H3 as [|? ? ? a4 ? ? ? S4 H4]; subst; clear H3.
  inversion H4; subst; clear H4.
  pose proof (a_step_reads_keep_state (OFindAll (ex_c, []) 0) _ _ _ eq_refl S4) as E4. subst a.
  pose proof (a_step_reads_keep_state (OFindAll (ex_c, []) 0) _ _ _ eq_refl S2) as E2. subst a2.
  destruct a1 as [d1 c1], a3 as [d3 c3].
  unfold a_step, a_init in S1. cbn [a_closed a_db open_spec] in S1. destruct S1 as (C1 & S1).
  unfold a_step in S3. cbn [a_closed a_db] in C1, S3. subst c1. cbn [open_spec] in S3. destruct S3 as (C3 & S3).
  cbn [a_closed a_db] in C3, S3. subst c3.
  vm_compute in S1. destruct S1 as (_ & ->).
  vm_compute in S3. destruct S3 as (_ & ->).
  vm_compute. reflexivity.
Qed.

Print Assumptions replay_dom_hist_dom.
Print Assumptions replay_dom_tx_cons.
Print Assumptions replay_ok_untx.
Print Assumptions replay_ok_run_ops.
Print Assumptions replay_refines_spec_all.
Print Assumptions replay_tx_keeps_closed_flag.
Print Assumptions replay_refines_spec.
Print Assumptions concurrent_linearizable_wrt_spec_full.
Print Assumptions concurrent_linearizable_wrt_spec.
Print Assumptions a_run_nth.
Print Assumptions returned_call_allowed_by_spec.
Print Assumptions concurrent_linearizable_wrt_spec_empty.
Print Assumptions concurrent_linearizable_wrt_spec_all_ops.
Print Assumptions cx_is_execution.
Print Assumptions cx_linearisation.
Print Assumptions cx_in_domain.
Print Assumptions cx_linearizable_wrt_spec.
Print Assumptions cx_nonvacuous.
Print Assumptions cx_final_abstract_state.

(* Plan executor (plan.go): exact skip/limit windows, in-memory sort order, and agreement of
   Count / Exists / FindFirst / ForEach with FindAll -- properties C08 and C09 at the level of
   [exec_plan], with the input node abstracted to "it feeds the list L to any pure consumer". *)
From Clover Require Import PureRun SortProofs CompareProofs RangeProofs.
From Coq Require Import Lia.
Open Scope Z_scope.

(* ================================================================== *)
(** * 0. Extensionality of the input node in its consumer

    [down] over a pure consumer equals a pure consumer only pointwise (the [if]s of [down] sit
    outside the state abstraction), and the library has no functional extensionality; so we show
    that [run_input] depends on its consumer only pointwise. *)

Definition meq {A : Type} (m1 m2 : M A) : Prop := forall s, m1 s = m2 s.

Lemma meq_refl : forall A (m : M A), meq m m.
Proof. intros A m s. reflexivity. Qed.

Lemma bind_meq : forall A B (m1 m2 : M A) (f g : A -> M B),
  meq m1 m2 -> (forall a, meq (f a) (g a)) -> meq (bind m1 f) (bind m2 g).
Proof.
  intros A B m1 m2 f g Hm Hf s. unfold bind. rewrite Hm.
  destruct (m2 s) as [[a|e] s']; [apply Hf | reflexivity].
Qed.

Lemma range_loop_ext : forall A (on1 on2 : bytes -> A -> M (A * bool)),
  (forall id a, meq (on1 id a) (on2 id a)) ->
  forall p rv chk far finc cur a,
    meq (range_loop on1 p rv chk far finc cur a) (range_loop on2 p rv chk far finc cur a).
Proof.
  intros A on1 on2 H p rv chk far finc cur.
  induction cur as [|e t IH]; intro a; cbn [range_loop]; [apply meq_refl|].
  apply bind_meq; [apply meq_refl|]. intro it. cbv zeta.
  destruct (negb (is_prefix p (fst it))); [apply meq_refl|].
  destruct (key_split_id (fst it)) as [pk id].
  match goal with |- meq (if ?b then _ else _) _ => destruct b end; [apply meq_refl|].
  apply bind_meq; [apply H|]. intro r. destruct (snd r); [apply IH | apply meq_refl].
Qed.

Lemma idx_iterate_range_ext : forall A (on1 on2 : bytes -> A -> M (A * bool)),
  (forall id a, meq (on1 id a) (on2 id a)) ->
  forall c f r rv a, meq (idx_iterate_range on1 c f r rv a) (idx_iterate_range on2 c f r rv a).
Proof.
  intros A on1 on2 H c f r rv a. unfold idx_iterate_range.
  destruct (range_is_empty r); [apply meq_refl|]. cbv zeta.
  apply bind_meq; [apply meq_refl|]. intro cur.
  apply bind_meq; [apply meq_refl|]. intro c1.
  destruct rv; apply range_loop_ext; exact H.
Qed.

Lemma idx_iterate_ext : forall A (on1 on2 : bytes -> A -> M (A * bool)),
  (forall id a, meq (on1 id a) (on2 id a)) ->
  forall c f rv a, meq (idx_iterate on1 c f rv a) (idx_iterate on2 c f rv a).
Proof.
  intros A on1 on2 H c f rv a. unfold idx_iterate. cbv zeta.
  apply bind_meq; [apply meq_refl|]. intro cur. apply range_loop_ext; exact H.
Qed.

Lemma on_index_id_ext : forall B (f g : obj -> B -> M (B * bool)),
  (forall d b, meq (f d b) (g d b)) ->
  forall c flt id b, meq (on_index_id c flt f id b) (on_index_id c flt g id b).
Proof.
  intros B f g H c flt id b. unfold on_index_id.
  apply bind_meq; [apply meq_refl|]. intros [d|]; [|apply meq_refl].
  destruct (sat_opt flt d); [apply H | apply meq_refl].
Qed.

Lemma full_scan_loop_ext : forall B (f g : obj -> B -> M (B * bool)),
  (forall d b, meq (f d b) (g d b)) ->
  forall p flt cur b, meq (full_scan_loop p flt f cur b) (full_scan_loop p flt g cur b).
Proof.
  intros B f g H p flt cur.
  induction cur as [|e t IH]; intro b; cbn [full_scan_loop]; [apply meq_refl|].
  apply bind_meq; [apply meq_refl|]. intro it. cbv zeta.
  destruct (negb (is_prefix p (fst it))); [apply meq_refl|].
  destruct (sat_opt flt (decode_sval (snd it))); [|apply IH].
  apply bind_meq; [apply H|]. intro r. destruct (snd r); [apply IH | apply meq_refl].
Qed.

Theorem run_input_ext : forall B (f g : obj -> B -> M (B * bool)),
  (forall d b, meq (f d b) (g d b)) ->
  forall c flt iq b, meq (run_input c flt iq f b) (run_input c flt iq g b).
Proof.
  intros B f g H c flt iq b. unfold run_input.
  destruct iq as [[fld r rv|fld rv]|].
  - apply idx_iterate_range_ext. intros id a. apply on_index_id_ext; exact H.
  - apply idx_iterate_ext. intros id a. apply on_index_id_ext; exact H.
  - unfold full_scan. apply bind_meq; [apply meq_refl|]. intro cur.
    apply full_scan_loop_ext; exact H.
Qed.

(* ================================================================== *)
(** * 1. (P1) The skip/limit node over a pure consumer, and window arithmetic *)

(* the pure counterpart of [down] *)
Definition down_g {B : Type} (k : obj -> B -> B * bool) (skip limit : Z)
           (d : obj) (st : @dstate B) : @dstate B * bool :=
  if (0 <? skip) || (0 <=? limit) then
    if d_skipped st <? skip then (mkD (d_skipped st + 1) (d_consumed st) (d_acc st), true)
    else if (limit <? 0) || (d_consumed st <? limit) then
      let r := k d (d_acc st) in (mkD (d_skipped st) (d_consumed st + 1) (fst r), snd r)
    else (st, false)
  else
    let r := k d (d_acc st) in (mkD (d_skipped st) (d_consumed st) (fst r), snd r).

(* [down] over a pure consumer is the pure consumer [down_g] (pointwise: no funext) *)
Lemma down_pure : forall B (k : obj -> B -> B * bool) skip limit d st,
  down (pure_cons k) skip limit d st = pure_cons (down_g k skip limit) d st.
Proof.
  intros B k skip limit d st. unfold down, down_g, pure_cons.
  destruct ((0 <? skip) || (0 <=? limit)); [|reflexivity].
  destruct (d_skipped st <? skip); [reflexivity|].
  destruct ((limit <? 0) || (d_consumed st <? limit)); reflexivity.
Qed.

(* [feed] over a pure consumer: no store call, the pure fold of [down_g] *)
Lemma feed_pure : forall B (k : obj -> B -> B * bool) skip limit l st s,
  feed (pure_cons k) skip limit l st s = (Ok (fold_pure (down_g k skip limit) l st), s).
Proof.
  intros B k skip limit l. induction l as [|d t IH]; intros st s; cbn [feed fold_pure].
  - reflexivity.
  - unfold bind. rewrite down_pure. unfold pure_cons, ret.
    destruct (snd (down_g k skip limit d st)); [apply IH | reflexivity].
Qed.

(* window, one document at a time *)
Lemma window_nil : forall skip limit, window skip limit [] = [].
Proof.
  intros. unfold window. rewrite skipn_nil. destruct (limit <? 0); [reflexivity | apply firstn_nil].
Qed.

Lemma window_cons_skip : forall skip limit d t,
  0 < skip -> window skip limit (d :: t) = window (skip - 1) limit t.
Proof.
  intros skip limit d t H. unfold window.
  replace (Z.to_nat skip) with (S (Z.to_nat (skip - 1))) by lia. reflexivity.
Qed.

Lemma window_cons_take : forall skip limit d t,
  skip <= 0 -> limit < 0 \/ 0 < limit ->
  window skip limit (d :: t) = d :: window skip (limit - 1) t.
Proof.
  intros skip limit d t Hs Hl. unfold window.
  replace (Z.to_nat skip) with 0%nat by lia. cbn [skipn].
  destruct Hl as [Hl|Hl].
  - destruct (limit <? 0) eqn:E1; [|lia]. destruct (limit - 1 <? 0) eqn:E2; [reflexivity | lia].
  - destruct (limit <? 0) eqn:E1; [lia|]. destruct (limit - 1 <? 0) eqn:E2; [lia|].
    replace (Z.to_nat limit) with (S (Z.to_nat (limit - 1))) by lia. reflexivity.
Qed.

Lemma window_limit_zero : forall skip l, window skip 0 l = [].
Proof. intros. unfold window. reflexivity. Qed.

Lemma window_negative_limit : forall skip limit l,
  limit < 0 -> window skip limit l = skipn (Z.to_nat skip) l.
Proof. intros skip limit l H. unfold window. destruct (limit <? 0) eqn:E; [reflexivity | lia]. Qed.

(* the invariant of the node: [sk] documents skipped and [cn] consumed so far *)
Lemma down_window_gen : forall B (k : obj -> B -> B * bool) skip limit l sk cn b,
  0 <= sk -> 0 <= cn -> (limit < 0 \/ cn <= limit) ->
  d_acc (fold_pure (down_g k skip limit) l (mkD sk cn b)) =
  fold_pure k (window (skip - sk) (limit - cn) l) b.
Proof.
  intros B k skip limit l. induction l as [|d t IH]; intros sk cn b Hsk Hcn Hlim.
  - rewrite window_nil. reflexivity.
  - assert (Hstep : forall r, down_g k skip limit d (mkD sk cn b) = r ->
       fold_pure (down_g k skip limit) (d :: t) (mkD sk cn b) =
       if snd r then fold_pure (down_g k skip limit) t (fst r) else fst r).
    { intros r <-. reflexivity. }
    destruct ((0 <? skip) || (0 <=? limit)) eqn:E1.
    + destruct (sk <? skip) eqn:E2.
      * (* still skipping *)
        rewrite (Hstep (mkD (sk + 1) cn b, true))
          by (unfold down_g; cbn [d_skipped d_consumed d_acc]; rewrite E1, E2; reflexivity).
        cbn [fst snd]. rewrite IH by lia.
        rewrite window_cons_skip by lia.
        replace (skip - (sk + 1)) with (skip - sk - 1) by lia. reflexivity.
      * destruct ((limit <? 0) || (cn <? limit)) eqn:E3.
        -- (* consuming *)
           rewrite (Hstep (mkD sk (cn + 1) (fst (k d b)), snd (k d b)))
             by (unfold down_g; cbn [d_skipped d_consumed d_acc]; rewrite E1, E2, E3; reflexivity).
           cbn [fst snd]. rewrite window_cons_take by lia. cbn [fold_pure].
           destruct (snd (k d b)); [|reflexivity].
           rewrite IH by lia.
           replace (limit - (cn + 1)) with (limit - cn - 1) by lia. reflexivity.
        -- (* the limit is reached: stop without consuming *)
           rewrite (Hstep (mkD sk cn b, false))
             by (unfold down_g; cbn [d_skipped d_consumed d_acc]; rewrite E1, E2, E3; reflexivity).
           cbn [fst snd d_acc]. replace (limit - cn) with 0 by lia.
           rewrite window_limit_zero. reflexivity.
    + (* no skip, no limit: the node is transparent *)
      rewrite (Hstep (mkD sk cn (fst (k d b)), snd (k d b)))
        by (unfold down_g; cbn [d_skipped d_consumed d_acc]; rewrite E1; reflexivity).
      cbn [fst snd]. rewrite window_cons_take by lia. cbn [fold_pure].
      destruct (snd (k d b)); [|reflexivity].
      rewrite IH by lia.
      rewrite !window_negative_limit by lia. reflexivity.
Qed.

(* holds for a negative skip too (both sides then skip nothing) *)
Lemma down_window_any : forall B (k : obj -> B -> B * bool) skip limit l b0,
  d_acc (fold_pure (down_g k skip limit) l (mkD 0 0 b0)) =
  fold_pure k (window skip limit l) b0.
Proof.
  intros B k skip limit l b0.
  rewrite down_window_gen by lia. rewrite !Z.sub_0_r. reflexivity.
Qed.

Theorem down_window : forall B (k : obj -> B -> B * bool) skip limit l b0,
  0 <= skip ->
  d_acc (fold_pure (down_g k skip limit) l (mkD 0 0 b0)) =
  fold_pure k (window skip limit l) b0.
Proof. intros B k skip limit l b0 _. apply down_window_any. Qed.

(* ================================================================== *)
(** * 2. (P3) The document comparator is a total preorder inside one regime *)

Definition docs_regime (m : bool) (sort : list (bytes * Z)) (l : list obj) : Prop :=
  forall d f dir, In d l -> In (f, dir) sort -> regime m (doc_get f d) = true.

Definition doc_regime (m : bool) (sort : list (bytes * Z)) (d : obj) : Prop :=
  forall f dir, In (f, dir) sort -> regime m (doc_get f d) = true.

(* one level of the lexicographic comparison, over booleans and comparison results only *)
Definition field_cmp (ha hb neg : bool) (x r : comparison) : comparison :=
  if negb ha && hb then (if neg then Gt else Lt)
  else if ha && negb hb then (if neg then Lt else Gt)
  else if ha && hb then
    match x with
    | Eq => r
    | c => if neg then CompOpp c else c
    end
  else r.

Lemma compare_docs_cons : forall f dir t a b,
  compare_docs ((f, dir) :: t) a b =
  field_cmp (doc_has f a) (doc_has f b) (dir <? 0)
            (compare (doc_get f a) (doc_get f b)) (compare_docs t a b).
Proof.
  intros. cbn [compare_docs]. unfold field_cmp.
  destruct (compare (doc_get f a) (doc_get f b)); reflexivity.
Qed.

Lemma field_cmp_opp : forall ha hb neg x r,
  field_cmp hb ha neg (CompOpp x) (CompOpp r) = CompOpp (field_cmp ha hb neg x r).
Proof. intros [] [] [] [] []; reflexivity. Qed.

Lemma field_cmp_t3 : forall hA hB hC neg x1 x2 x3 r1 r2 r3,
  t3 x1 x2 x3 = true -> t3 r1 r2 r3 = true ->
  t3 (field_cmp hA hB neg x1 r1) (field_cmp hB hC neg x2 r2) (field_cmp hA hC neg x3 r3) = true.
Proof.
  intros hA hB hC neg x1 x2 x3 r1 r2 r3.
  destruct x1, x2, x3; simpl; intro Hx; try discriminate Hx;
    destruct r1, r2, r3; simpl; intro Hr; try discriminate Hr;
    destruct hA, hB, hC, neg; reflexivity.
Qed.

Theorem compare_docs_antisym : forall opts a b,
  compare_docs opts b a = CompOpp (compare_docs opts a b).
Proof.
  induction opts as [|[f dir] t IH]; intros a b; [reflexivity|].
  rewrite !compare_docs_cons.
  rewrite (compare_antisym (doc_get f a) (doc_get f b)), (IH a b).
  apply field_cmp_opp.
Qed.

Theorem compare_docs_refl : forall opts a, compare_docs opts a a = Eq.
Proof.
  intros opts a. pose proof (compare_docs_antisym opts a a) as H.
  destruct (compare_docs opts a a); simpl in H; congruence.
Qed.

Theorem compare_docs_t3 : forall m opts a b c,
  doc_regime m opts a -> doc_regime m opts b -> doc_regime m opts c ->
  t3 (compare_docs opts a b) (compare_docs opts b c) (compare_docs opts a c) = true.
Proof.
  intros m opts a b c. induction opts as [|[f dir] t IH]; intros Ha Hb Hc; [reflexivity|].
  rewrite !compare_docs_cons. apply field_cmp_t3.
  - apply compare_t3. apply regime_cmp_dom3 with m;
      [eapply Ha | eapply Hb | eapply Hc]; left; reflexivity.
  - apply IH; intros f' dir' Hin; [eapply Ha | eapply Hb | eapply Hc]; right; exact Hin.
Qed.

Theorem docs_leb_total : forall opts a b, docs_leb opts a b = true \/ docs_leb opts b a = true.
Proof.
  intros opts a b. unfold docs_leb. rewrite (compare_docs_antisym opts a b).
  destruct (compare_docs opts a b); simpl; auto.
Qed.

Theorem docs_leb_trans : forall m opts a b c,
  doc_regime m opts a -> doc_regime m opts b -> doc_regime m opts c ->
  docs_leb opts a b = true -> docs_leb opts b c = true -> docs_leb opts a c = true.
Proof.
  intros m opts a b c Ha Hb Hc. unfold docs_leb.
  pose proof (compare_docs_t3 m opts a b c Ha Hb Hc) as H. revert H.
  destruct (compare_docs opts a b), (compare_docs opts b c), (compare_docs opts a c);
    simpl; intros; congruence.
Qed.

(* the builder's normalisation does not change the order: only the sign of a direction matters,
   and a direction >= 0 (0 included) is ascending *)
Theorem compare_docs_norm : forall opts a b,
  compare_docs (norm_sort_opts opts) a b = compare_docs opts a b.
Proof.
  induction opts as [|[f dir] t IH]; intros a b; [reflexivity|].
  unfold norm_sort_opts in *. cbn [map fst snd]. rewrite !compare_docs_cons, IH.
  replace ((if 0 <=? dir then 1 else -1) <? 0) with (dir <? 0); [reflexivity|].
  destruct (0 <=? dir) eqn:E1, (dir <? 0) eqn:E2; try reflexivity; lia.
Qed.

(* locally sorted + transitive on the members of the list => strongly sorted *)
Lemma Sorted_StronglySorted_on : forall A (R : A -> A -> Prop) l,
  (forall x y z, In x l -> In y l -> In z l -> R x y -> R y z -> R x z) ->
  Sorted R l -> StronglySorted R l.
Proof.
  intros A R l. induction l as [|a t IH]; intros Htr Hs; [constructor|].
  inversion Hs as [|a' t' Hst Hhd]; subst.
  assert (Hsst : StronglySorted R t).
  { apply IH; [|exact Hst]. intros x y z Hx Hy Hz. apply Htr; right; assumption. }
  constructor; [exact Hsst|].
  destruct t as [|b t2]; [constructor|].
  inversion Hhd as [|b' t2' Hab]; subst.
  inversion Hsst as [|b' t2' Hsst2 Hall]; subst.
  constructor; [exact Hab|].
  rewrite Forall_forall in *. intros z Hz.
  apply (Htr a b z); [left; reflexivity | right; left; reflexivity | right; right; exact Hz
                     | exact Hab | apply Hall; exact Hz].
Qed.

Theorem sort_docs_perm : forall sort l, Permutation (sort_docs sort l) l.
Proof. intros. unfold sort_docs. apply msort_perm. Qed.

Theorem sort_docs_in : forall sort l d, In d (sort_docs sort l) <-> In d l.
Proof. intros. unfold sort_docs. apply msort_in. Qed.

Theorem sort_docs_length : forall sort l, length (sort_docs sort l) = length l.
Proof. intros. unfold sort_docs. apply msort_length. Qed.

(* Route: [msort_locally_sorted] needs totality only; transitivity is then used on the members of
   the list only, through [Sorted_StronglySorted_on]. *)
Theorem sort_docs_sorted : forall m sort l,
  docs_regime m sort l -> StronglySorted (docs_le sort) (sort_docs sort l).
Proof.
  intros m sort l Hreg. apply Sorted_StronglySorted_on.
  - intros x y z Hx Hy Hz. unfold docs_le.
    apply sort_docs_in in Hx. apply sort_docs_in in Hy. apply sort_docs_in in Hz.
    apply (docs_leb_trans m); intros f dir Hin; eapply Hreg; eassumption.
  - unfold sort_docs. apply (msort_locally_sorted (docs_leb sort)). apply docs_leb_total.
Qed.

(* [msort_stable_isort] is NOT usable here: it asks for transitivity on all documents, which
   fails outside one regime (see [sort_outside_regime_not_sorted] below). *)

(* ================================================================== *)
(** * 3. Pure folds used by the operations *)

Definition collect_g (d : obj) (acc : list obj) : list obj * bool := (d :: acc, true).
Definition count_g (_ : obj) (n : Z) : Z * bool := (n + 1, true).
Definition foreach_g (n : Z) (d : obj) (acc : list obj) : list obj * bool :=
  (d :: acc, negb (Z.of_nat (length acc) + 1 =? n)).

Lemma collect_pure : collect = pure_cons collect_g.
Proof. reflexivity. Qed.

Lemma exec_collect_pure :
  (fun (d : obj) (acc : list obj) => ret (d :: acc, true)) = pure_cons collect_g.
Proof. reflexivity. Qed.

Lemma count_cons_pure : count_cons = pure_cons count_g.
Proof. reflexivity. Qed.

Lemma foreach_cons_pure : forall n, foreach_cons n = pure_cons (foreach_g n).
Proof. reflexivity. Qed.

Lemma fold_collect_gen : forall l acc, fold_pure collect_g l acc = rev l ++ acc.
Proof.
  induction l as [|d t IH]; intro acc; [reflexivity|].
  cbn [fold_pure collect_g fst snd]. rewrite IH. cbn [rev]. rewrite <- app_assoc. reflexivity.
Qed.

Lemma fold_collect : forall l, fold_pure collect_g l [] = rev l.
Proof. intro l. rewrite fold_collect_gen. apply app_nil_r. Qed.

Lemma fold_count_gen : forall l n, fold_pure count_g l n = n + Z.of_nat (length l).
Proof.
  induction l as [|d t IH]; intro n; cbn [fold_pure count_g fst snd length]; [lia|].
  rewrite IH. lia.
Qed.

Lemma fold_count : forall l, fold_pure count_g l 0 = Z.of_nat (length l).
Proof. intro l. rewrite fold_count_gen. lia. Qed.

Lemma fold_foreach_never : forall n l acc,
  n <= 0 -> fold_pure (foreach_g n) l acc = rev l ++ acc.
Proof.
  intros n l. induction l as [|d t IH]; intros acc Hn; [reflexivity|].
  cbn [fold_pure foreach_g fst snd].
  destruct (Z.of_nat (length acc) + 1 =? n) eqn:E; [lia|]. cbn [negb].
  rewrite IH by exact Hn. cbn [rev]. rewrite <- app_assoc. reflexivity.
Qed.

Lemma fold_foreach_stop : forall n l acc,
  Z.of_nat (length acc) < n ->
  fold_pure (foreach_g n) l acc = rev (firstn (Z.to_nat (n - Z.of_nat (length acc))) l) ++ acc.
Proof.
  intros n l. induction l as [|d t IH]; intros acc Hn.
  - rewrite firstn_nil. reflexivity.
  - cbn [fold_pure foreach_g fst snd].
    replace (Z.to_nat (n - Z.of_nat (length acc)))
      with (S (Z.to_nat (n - Z.of_nat (length acc) - 1))) by lia.
    cbn [firstn rev]. rewrite <- app_assoc. cbn [app].
    destruct (Z.of_nat (length acc) + 1 =? n) eqn:E; cbn [negb].
    + replace (n - Z.of_nat (length acc) - 1) with 0 by lia. reflexivity.
    + rewrite IH by (cbn [length]; lia). cbn [length].
      replace (n - Z.of_nat (S (length acc))) with (n - Z.of_nat (length acc) - 1) by lia.
      reflexivity.
Qed.

(* ForEach: what the visitor has seen. NOTE n = 0 never stops (the stop test runs after a visit,
   so "stop after 0 documents" cannot happen): every document is visited, as for n < 0. *)
Theorem foreach_prefix : forall n res,
  fold_pure (foreach_g n) res [] = rev (if 0 <? n then firstn (Z.to_nat n) res else res).
Proof.
  intros n res. destruct (0 <? n) eqn:E.
  - rewrite fold_foreach_stop by (cbn [length]; lia). cbn [length].
    rewrite app_nil_r, Z.sub_0_r. reflexivity.
  - rewrite fold_foreach_never by lia. apply app_nil_r.
Qed.

Corollary foreach_prefix_all : forall n res,
  n <= 0 \/ Z.of_nat (length res) <= n -> fold_pure (foreach_g n) res [] = rev res.
Proof.
  intros n res H. rewrite foreach_prefix. destruct (0 <? n) eqn:E; [|reflexivity].
  rewrite firstn_all2 by lia. reflexivity.
Qed.

(* ================================================================== *)
(** * 4. (P5) Option normalisation in the query builder, window facts *)

Theorem q_skip_negative_ignored : forall q n, n < 0 -> q_apply q (QSkip n) = q.
Proof. intros q n H. cbn [q_apply]. destruct (0 <=? n) eqn:E; [lia | reflexivity]. Qed.

Theorem q_skip_nonneg : forall q n, 0 <= n -> q_skip (q_apply q (QSkip n)) = n.
Proof. intros q n H. cbn [q_apply]. destruct (0 <=? n) eqn:E; [reflexivity | lia]. Qed.

(* built queries always carry a skip >= 0 *)
Theorem build_query_skip_nonneg : forall c steps, 0 <= q_skip (build_query c steps).
Proof.
  intros c steps. unfold build_query.
  assert (H : forall q, 0 <= q_skip q -> 0 <= q_skip (fold_left q_apply steps q)).
  { induction steps as [|s t IH]; intros q Hq; [exact Hq|]. cbn [fold_left]. apply IH.
    destruct s; cbn [q_apply q_skip]; try exact Hq.
    destruct (0 <=? n) eqn:E; cbn [q_skip]; [lia | exact Hq]. }
  apply H. cbn. lia.
Qed.

(* any limit is stored as is: negative = unlimited, 0 = nothing *)
Theorem q_limit_any : forall q n,
  q_limit (q_apply q (QLimit n)) = n /\
  q_skip (q_apply q (QLimit n)) = q_skip q /\
  q_sort (q_apply q (QLimit n)) = q_sort q /\
  q_crit (q_apply q (QLimit n)) = q_crit q /\
  q_coll (q_apply q (QLimit n)) = q_coll q.
Proof. intros. cbn. repeat split. Qed.

Theorem q_sort_default : forall q, q_sort (q_apply q (QSort [])) = [(id_field, 1)].
Proof. reflexivity. Qed.

Theorem q_sort_norm : forall q o t, q_sort (q_apply q (QSort (o :: t))) = norm_sort_opts (o :: t).
Proof. reflexivity. Qed.

Theorem norm_sort_dir : forall opts f d, In (f, d) (norm_sort_opts opts) -> d = 1 \/ d = -1.
Proof.
  intros opts f d H. unfold norm_sort_opts in H. apply in_map_iff in H as [[f0 d0] [E _]].
  cbn [fst snd] in E. inversion E; subst. destruct (0 <=? d0); auto.
Qed.

Theorem norm_sort_dir_sign : forall opts f d,
  In (f, d) opts -> In (f, if 0 <=? d then 1 else -1) (norm_sort_opts opts).
Proof.
  intros opts f d H. unfold norm_sort_opts. apply in_map_iff. exists (f, d). split; [reflexivity | exact H].
Qed.

Theorem norm_sort_fields : forall opts, map fst (norm_sort_opts opts) = map fst opts.
Proof.
  intros. unfold norm_sort_opts. rewrite map_map. reflexivity.
Qed.

Theorem norm_sort_idem : forall opts, norm_sort_opts (norm_sort_opts opts) = norm_sort_opts opts.
Proof.
  intros. unfold norm_sort_opts. rewrite map_map. apply map_ext. intros [f d]. cbn [fst snd].
  destruct (0 <=? d); reflexivity.
Qed.

Theorem window_length : forall skip limit l,
  0 <= skip ->
  length (window skip limit l) =
  if limit <? 0 then (length l - Z.to_nat skip)%nat
  else Nat.min (Z.to_nat limit) (length l - Z.to_nat skip).
Proof.
  intros skip limit l _. unfold window. destruct (limit <? 0).
  - apply skipn_length.
  - rewrite firstn_length, skipn_length. reflexivity.
Qed.

Theorem window_skip_all : forall skip limit l,
  Z.of_nat (length l) <= skip -> window skip limit l = [].
Proof.
  intros skip limit l H. unfold window. rewrite skipn_all2 by lia.
  destruct (limit <? 0); [reflexivity | apply firstn_nil].
Qed.

(* the stored-counter shortcut of Count (no criteria). FALSE for skip < 0: count_window would
   add -skip to the size; built queries never carry a negative skip (build_query_skip_nonneg). *)
Theorem count_window_agrees : forall n skip limit l,
  0 <= skip -> length l = n ->
  count_window (Z.of_nat n) skip limit = Z.of_nat (length (window skip limit l)).
Proof.
  intros n skip limit l Hs Hn. rewrite window_length by exact Hs. unfold count_window. cbv zeta.
  rewrite Hn.
  destruct (limit <? 0) eqn:E1.
  - destruct (0 <=? limit) eqn:E2; [lia|]. cbn [andb]. lia.
  - destruct (0 <=? limit) eqn:E2; [|lia]. cbn [andb].
    destruct (limit <? Z.max 0 (Z.of_nat n - skip)) eqn:E3; lia.
Qed.

(* FindFirst / Exists run the plan with limit := 1 *)
Theorem window_limit_one : forall skip l,
  window skip 1 l = firstn 1 (skipn (Z.to_nat skip) l).
Proof. reflexivity. Qed.

Lemma hd_error_firstn : forall (A : Type) n (l : list A), hd_error (firstn (S n) l) = hd_error l.
Proof. intros A n [|x t]; reflexivity. Qed.

Theorem findfirst_is_head : forall skip l,
  hd_error (window skip 1 l) = hd_error (skipn (Z.to_nat skip) l).
Proof. intros. rewrite window_limit_one. apply hd_error_firstn. Qed.

Theorem findfirst_agrees : forall skip limit l,
  limit <> 0 -> hd_error (window skip 1 l) = hd_error (window skip limit l).
Proof.
  intros skip limit l H. rewrite findfirst_is_head. unfold window.
  destruct (limit <? 0) eqn:E; [reflexivity|].
  replace (Z.to_nat limit) with (S (Z.to_nat (limit - 1))) by lia.
  symmetry. apply hd_error_firstn.
Qed.

(* with Limit(0) FindAll is empty, yet FindFirst (which overrides the limit by 1) still returns
   the first document after the skip *)
Theorem findfirst_limit_zero : forall skip l,
  window skip 0 l = [] /\ hd_error (window skip 1 l) = hd_error (skipn (Z.to_nat skip) l).
Proof. intros. split; [apply window_limit_zero | apply findfirst_is_head]. Qed.

Definition nonempty {A : Type} (l : list A) : bool := match l with [] => false | _ => true end.

Lemma nonempty_hd : forall (A : Type) (l : list A),
  nonempty l = match hd_error l with Some _ => true | None => false end.
Proof. intros A [|x t]; reflexivity. Qed.

Theorem exists_is_nonempty : forall skip l,
  nonempty (window skip 1 l) = nonempty (skipn (Z.to_nat skip) l) /\
  nonempty (window skip 1 l) = (Z.to_nat skip <? length l)%nat.
Proof.
  intros skip l. rewrite !nonempty_hd, findfirst_is_head. split; [reflexivity|].
  generalize (Z.to_nat skip). intro n. revert l.
  induction n as [|n IH]; intros [|x t]; cbn [skipn hd_error length]; try reflexivity.
  rewrite IH. reflexivity.
Qed.

Theorem exists_agrees : forall skip limit l,
  limit <> 0 -> nonempty (window skip 1 l) = nonempty (window skip limit l).
Proof. intros skip limit l H. rewrite !nonempty_hd, (findfirst_agrees skip limit l H). reflexivity. Qed.

(* ================================================================== *)
(** * 5. Plan level (P2, P4, P6): the input node feeds L *)

Lemma runs_to_ret_bind : forall A B (m : M A) (f : A -> B) s a,
  runs_to m s a -> runs_to (x <- m ;; ret (f x)) s (f a).
Proof.
  intros A B m f s a (s' & E & Hs). exists s'. split; [|exact Hs].
  unfold bind. rewrite E. reflexivity.
Qed.

Lemma runs_to_meq : forall A (m1 m2 : M A) s a, meq m1 m2 -> runs_to m2 s a -> runs_to m1 s a.
Proof. intros A m1 m2 s a H (s' & E & Hs). exists s'. split; [rewrite H; exact E | exact Hs]. Qed.

Section PlanLevel.
  Variables (c : bytes) (crit : option ncrit) (sort : list (bytes * Z)) (skip : Z)
            (idx : list bytes) (L : list obj).

  (* the selected input scan feeds exactly the documents of L, in that order *)
  Hypothesis Hinput : forall (B : Type) (g : obj -> B -> B * bool) (b : B) (s : txst),
    fault s = None ->
    runs_to (run_input c crit (fst (try_select_index crit sort idx)) (pure_cons g) b) s
            (fold_pure g L b).

  (* does the plan contain a sort node? *)
  Definition needs_sort : bool :=
    match sort with [] => false | _ => negb (snd (try_select_index crit sort idx)) end.

  (* the FindAll sequence before the window *)
  Definition plan_seq : list obj := if needs_sort then sort_docs sort L else L.

  Lemma plan_seq_unfold :
    plan_seq =
    if match sort with [] => false | _ => negb (snd (try_select_index crit sort idx)) end
    then sort_docs sort L else L.
  Proof. reflexivity. Qed.

  Lemma direct_branch : forall B (k : obj -> B -> B * bool) limit b0 s,
    fault s = None ->
    runs_to (st <- run_input c crit (fst (try_select_index crit sort idx))
                     (down (pure_cons k) skip limit) (mkD 0 0 b0) ;; ret (d_acc st)) s
            (fold_pure k (window skip limit L) b0).
  Proof.
    intros B k limit b0 s Hs.
    rewrite <- (down_window_any B k skip limit L b0). apply runs_to_ret_bind.
    eapply runs_to_meq; [|apply Hinput; exact Hs].
    apply run_input_ext. intros d b s0. rewrite down_pure. reflexivity.
  Qed.

  Lemma sort_branch : forall B (k : obj -> B -> B * bool) limit b0 s,
    fault s = None ->
    runs_to (docs <- run_input c crit (fst (try_select_index crit sort idx))
                       (fun d (acc : list obj) => ret (d :: acc, true)) [] ;;
             st <- feed (pure_cons k) skip limit (sort_docs sort (rev docs)) (mkD 0 0 b0) ;;
             ret (d_acc st)) s
            (fold_pure k (window skip limit (sort_docs sort L)) b0).
  Proof.
    intros B k limit b0 s Hs.
    destruct (Hinput _ collect_g [] s Hs) as (s' & E & Hs').
    exists s'. split; [|exact Hs'].
    unfold bind at 1. change (fun (d : obj) (acc : list obj) => ret (d :: acc, true))
      with (pure_cons collect_g). rewrite E.
    unfold bind. rewrite feed_pure. unfold ret.
    rewrite fold_collect, rev_involutive.
    rewrite (down_window_any B k skip limit (sort_docs sort L) b0). reflexivity.
  Qed.

  (* P2 *)
  Theorem exec_plan_pure : forall B (k : obj -> B -> B * bool) limit b0 s,
    fault s = None -> 0 <= skip ->
    runs_to (exec_plan (pure_cons k) c crit sort skip limit idx b0) s
            (fold_pure k (window skip limit plan_seq) b0).
  Proof.
    intros B k limit b0 s Hs _.
    pose proof (direct_branch B k limit b0 s Hs) as Hd.
    pose proof (sort_branch B k limit b0 s Hs) as Hsrt.
    unfold exec_plan, plan_seq, needs_sort.
    destruct (try_select_index crit sort idx) as [iq sorted]. cbn [fst snd] in *.
    destruct sort as [|o t]; [exact Hd|].
    destruct sorted; cbn [negb]; [exact Hd | exact Hsrt].
  Qed.

  (* the sequence is a permutation of the input; sorted when the plan sorts in memory *)
  Lemma plan_seq_perm : Permutation plan_seq L.
  Proof. unfold plan_seq. destruct needs_sort; [apply sort_docs_perm | apply Permutation_refl]. Qed.

  (* P4 *)
  Theorem find_all_spec : forall m docs limit s,
    Permutation L (matches crit docs) ->
    fault s = None -> 0 <= skip ->
    (needs_sort = true /\ docs_regime m sort L) \/
    (needs_sort = false /\ (sort = [] \/ StronglySorted (docs_le sort) L)) ->
    exists acc,
      runs_to (exec_plan collect c crit sort skip limit idx []) s acc /\
      find_ok docs (mkNQ c crit limit skip sort) (rev acc).
  Proof.
    intros m docs limit s HL Hs Hskip Hord.
    exists (fold_pure collect_g (window skip limit plan_seq) []). split.
    - rewrite collect_pure. apply exec_plan_pure; assumption.
    - rewrite fold_collect, rev_involutive. exists plan_seq. cbn [nq_crit nq_sort nq_skip nq_limit].
      split; [|split; [|reflexivity]].
      + eapply Permutation_trans; [apply plan_seq_perm | exact HL].
      + intro Hne. unfold plan_seq.
        destruct Hord as [[Hn Hreg] | [Hn [Hnil | Hsrt]]]; rewrite Hn.
        * apply (sort_docs_sorted m). exact Hreg.
        * contradiction.
        * exact Hsrt.
  Qed.

  (* the same, through find_all_tx's final reversal *)
  Corollary find_all_spec_rev : forall m docs limit s,
    Permutation L (matches crit docs) ->
    fault s = None -> 0 <= skip ->
    (needs_sort = true /\ docs_regime m sort L) \/
    (needs_sort = false /\ (sort = [] \/ StronglySorted (docs_le sort) L)) ->
    exists res,
      runs_to (l <- exec_plan collect c crit sort skip limit idx [] ;; ret (rev l)) s res /\
      find_ok docs (mkNQ c crit limit skip sort) res.
  Proof.
    intros m docs limit s HL Hs Hskip Hord.
    destruct (find_all_spec m docs limit s HL Hs Hskip Hord) as (acc & Hr & Hok).
    exists (rev acc). split; [apply runs_to_ret_bind; exact Hr | exact Hok].
  Qed.

  (* FindAll at plan level, as a function of the window *)
  Theorem find_all_plan : forall limit s,
    fault s = None -> 0 <= skip ->
    runs_to (l <- exec_plan collect c crit sort skip limit idx [] ;; ret (rev l)) s
            (window skip limit plan_seq).
  Proof.
    intros limit s Hs Hskip.
    rewrite <- (rev_involutive (window skip limit plan_seq)), <- (fold_collect (window skip limit plan_seq)).
    apply runs_to_ret_bind. rewrite collect_pure. apply exec_plan_pure; assumption.
  Qed.

  (* P6: Count with criteria = length of FindAll *)
  Theorem count_agrees : forall limit s,
    fault s = None -> 0 <= skip ->
    runs_to (exec_plan count_cons c crit sort skip limit idx 0) s
            (Z.of_nat (length (window skip limit plan_seq))).
  Proof.
    intros limit s Hs Hskip. rewrite <- fold_count, count_cons_pure.
    apply exec_plan_pure; assumption.
  Qed.

  (* P6: ForEach visits a prefix of FindAll (reversed back as exec_op does) *)
  Theorem foreach_agrees : forall n limit s,
    fault s = None -> 0 <= skip ->
    runs_to (l <- exec_plan (foreach_cons n) c crit sort skip limit idx [] ;; ret (rev l)) s
            (let res := window skip limit plan_seq in
             if 0 <? n then firstn (Z.to_nat n) res else res).
  Proof.
    intros n limit s Hs Hskip. cbv zeta.
    rewrite <- (rev_involutive (if 0 <? n then _ else _)), <- foreach_prefix.
    apply runs_to_ret_bind. rewrite foreach_cons_pure. apply exec_plan_pure; assumption.
  Qed.

  (* P6: FindFirst = the plan with limit := 1; its answer is the head of the sequence after skip,
     which is the head of FindAll unless FindAll's own limit is 0 *)
  Theorem findfirst_plan : forall s,
    fault s = None -> 0 <= skip ->
    runs_to (l <- exec_plan collect c crit sort skip 1 idx [] ;; ret (hd_error (rev l))) s
            (hd_error (skipn (Z.to_nat skip) plan_seq)).
  Proof.
    intros s Hs Hskip. rewrite <- findfirst_is_head.
    rewrite <- (rev_involutive (window skip 1 plan_seq)), <- (fold_collect (window skip 1 plan_seq)).
    apply (runs_to_ret_bind _ _ _ (fun l => hd_error (rev l))).
    rewrite collect_pure. apply exec_plan_pure; assumption.
  Qed.

  Theorem findfirst_plan_agrees : forall limit s,
    fault s = None -> 0 <= skip -> limit <> 0 ->
    runs_to (l <- exec_plan collect c crit sort skip 1 idx [] ;; ret (hd_error (rev l))) s
            (hd_error (window skip limit plan_seq)).
  Proof.
    intros limit s Hs Hskip Hl. rewrite <- (findfirst_agrees skip limit plan_seq Hl), findfirst_is_head.
    apply findfirst_plan; assumption.
  Qed.

  Theorem exists_plan : forall s,
    fault s = None -> 0 <= skip ->
    runs_to (l <- exec_plan collect c crit sort skip 1 idx [] ;; ret (nonempty (rev l))) s
            (nonempty (skipn (Z.to_nat skip) plan_seq)).
  Proof.
    intros s Hs Hskip.
    rewrite <- (proj1 (exists_is_nonempty skip plan_seq)).
    rewrite <- (rev_involutive (window skip 1 plan_seq)), <- (fold_collect (window skip 1 plan_seq)).
    apply (runs_to_ret_bind _ _ _ (fun l => nonempty (rev l))).
    rewrite collect_pure. apply exec_plan_pure; assumption.
  Qed.

  Theorem exists_plan_agrees : forall limit s,
    fault s = None -> 0 <= skip -> limit <> 0 ->
    runs_to (l <- exec_plan collect c crit sort skip 1 idx [] ;; ret (nonempty (rev l))) s
            (nonempty (window skip limit plan_seq)).
  Proof.
    intros limit s Hs Hskip Hl.
    rewrite <- (exists_agrees skip limit plan_seq Hl), (proj1 (exists_is_nonempty skip plan_seq)).
    apply exists_plan; assumption.
  Qed.
End PlanLevel.

(* ================================================================== *)
(** * 6. (P7) Non-vacuity *)

Definition fld_a : bytes := [97]%N.
Definition mk (n : Z) : obj := [(fld_a, VInt n)].
Definition l5 : list obj := [mk 1; mk 2; mk 3; mk 4; mk 5].

Example window_ex_all : window 0 (-1) l5 = l5.
Proof. vm_compute. reflexivity. Qed.
Example window_ex_mid : window 1 2 l5 = [mk 2; mk 3].
Proof. vm_compute. reflexivity. Qed.
Example window_ex_zero : window 2 0 l5 = [].
Proof. vm_compute. reflexivity. Qed.
Example window_ex_tail : window 4 100 l5 = [mk 5].
Proof. vm_compute. reflexivity. Qed.

Example down_ex_all : d_acc (fold_pure (down_g collect_g 0 (-1)) l5 (mkD 0 0 [])) = rev l5.
Proof. vm_compute. reflexivity. Qed.
Example down_ex_mid : d_acc (fold_pure (down_g collect_g 1 2) l5 (mkD 0 0 [])) = [mk 3; mk 2].
Proof. vm_compute. reflexivity. Qed.
Example down_ex_zero : d_acc (fold_pure (down_g collect_g 2 0) l5 (mkD 0 0 [])) = [].
Proof. vm_compute. reflexivity. Qed.
Example down_ex_tail : d_acc (fold_pure (down_g collect_g 4 100) l5 (mkD 0 0 [])) = [mk 5].
Proof. vm_compute. reflexivity. Qed.
(* the node's counters: limit 2 reached on the fourth document, which is not consumed *)
Example down_ex_mid_state :
  fold_pure (down_g collect_g 1 2) l5 (mkD 0 0 []) = mkD 1 2 [mk 3; mk 2].
Proof. vm_compute. reflexivity. Qed.
(* an early-stopping consumer inside a window: ForEach(stop after 2) under skip 1 / limit 3 *)
Example down_ex_early :
  d_acc (fold_pure (down_g (foreach_g 2) 1 3) l5 (mkD 0 0 [])) = [mk 3; mk 2].
Proof. vm_compute. reflexivity. Qed.
Example foreach_ex_zero_never_stops : fold_pure (foreach_g 0) l5 [] = rev l5.
Proof. vm_compute. reflexivity. Qed.
Example count_window_ex : count_window 5 1 2 = 2 /\ count_window 5 4 100 = 1 /\ count_window 5 2 0 = 0
                          /\ count_window 5 7 (-1) = 0.
Proof. vm_compute. repeat split. Qed.
(* count_window_agrees needs 0 <= skip *)
Example count_window_negative_skip :
  count_window 5 (-2) (-1) = 7 /\ length (window (-2) (-1) l5) = 5%nat.
Proof. vm_compute. split; reflexivity. Qed.

(* mixed-type sort keys: absent < nil < number < string (ascending) *)
Definition d_str : obj := [(fld_a, VStr [120]%N)].
Definition d_abs : obj := [([98]%N, VInt 7)].
Definition d_num : obj := [(fld_a, VInt 3)].
Definition d_nil : obj := [(fld_a, VNil)].
Definition d_flt : obj := [(fld_a, VFloat (of_Z 2))].
Definition mixed : list obj := [d_str; d_abs; d_num; d_nil; d_flt].

Lemma mixed_regime : docs_regime true [(fld_a, 1)] mixed.
Proof.
  intros d f dir Hd Hf. destruct Hf as [Hf|[]]. inversion Hf; subst f dir.
  repeat (destruct Hd as [Hd|Hd]; [subst d; vm_compute; reflexivity|]). destruct Hd.
Qed.

Example mixed_sorted : StronglySorted (docs_le [(fld_a, 1)]) (sort_docs [(fld_a, 1)] mixed).
Proof. apply (sort_docs_sorted true). exact mixed_regime. Qed.

Example mixed_sorted_value : sort_docs [(fld_a, 1)] mixed = [d_abs; d_nil; d_flt; d_num; d_str].
Proof. vm_compute. reflexivity. Qed.

Example mixed_sorted_desc : sort_docs [(fld_a, -1)] mixed = [d_str; d_num; d_flt; d_nil; d_abs].
Proof. vm_compute. reflexivity. Qed.

(* outside one regime the comparator is not transitive and the in-memory sort output is not
   strongly sorted: 2^53+1 ~ float(2^53) ~ 2^53 but 2^53+1 > 2^53 *)
Definition big : list obj :=
  [[(fld_a, VInt (2^53 + 1))]; [(fld_a, VFloat (of_Z (2^53)))]; [(fld_a, VFloat (of_Z (2^53)))];
   [(fld_a, VInt (2^53))]].

Example sort_outside_regime_not_sorted :
  ~ StronglySorted (docs_le [(fld_a, 1)]) (sort_docs [(fld_a, 1)] big).
Proof.
  intro H. assert (E : sort_docs [(fld_a, 1)] big = big) by (vm_compute; reflexivity).
  rewrite E in H. unfold big in H.
  inversion H as [|a t _ Hall]; subst. inversion Hall as [|x l _ Hall2]; subst.
  inversion Hall2 as [|x l _ Hall3]; subst.
  inversion Hall3 as [|x l Hle _]; subst. vm_compute in Hle. discriminate Hle.
Qed.

(* ================================================================== *)

Check @down_pure.
Check @down_window.
Check @run_input_ext.
Check @exec_plan_pure.
Check @docs_leb_total.
Check @docs_leb_trans.
Check @sort_docs_sorted.
Check @sort_docs_perm.
Check @find_all_spec.
Check @find_all_spec_rev.
Check @find_all_plan.
Check @count_agrees.
Check @count_window_agrees.
Check @foreach_prefix.
Check @foreach_agrees.
Check @findfirst_is_head.
Check @findfirst_agrees.
Check @findfirst_limit_zero.
Check @findfirst_plan.
Check @findfirst_plan_agrees.
Check @exists_is_nonempty.
Check @exists_agrees.
Check @exists_plan.
Check @exists_plan_agrees.

Print Assumptions down_pure.
Print Assumptions down_window.
Print Assumptions run_input_ext.
Print Assumptions exec_plan_pure.
Print Assumptions compare_docs_antisym.
Print Assumptions compare_docs_t3.
Print Assumptions compare_docs_norm.
Print Assumptions docs_leb_total.
Print Assumptions docs_leb_trans.
Print Assumptions sort_docs_sorted.
Print Assumptions sort_docs_perm.
Print Assumptions find_all_spec.
Print Assumptions find_all_spec_rev.
Print Assumptions find_all_plan.
Print Assumptions q_skip_negative_ignored.
Print Assumptions build_query_skip_nonneg.
Print Assumptions q_limit_any.
Print Assumptions q_sort_default.
Print Assumptions norm_sort_dir.
Print Assumptions norm_sort_dir_sign.
Print Assumptions window_negative_limit.
Print Assumptions window_length.
Print Assumptions count_agrees.
Print Assumptions count_window_agrees.
Print Assumptions foreach_prefix.
Print Assumptions foreach_prefix_all.
Print Assumptions foreach_cons_pure.
Print Assumptions foreach_agrees.
Print Assumptions findfirst_is_head.
Print Assumptions findfirst_agrees.
Print Assumptions findfirst_limit_zero.
Print Assumptions findfirst_plan.
Print Assumptions findfirst_plan_agrees.
Print Assumptions exists_is_nonempty.
Print Assumptions exists_agrees.
Print Assumptions exists_plan.
Print Assumptions exists_plan_agrees.
Print Assumptions mixed_sorted.
Print Assumptions sort_outside_regime_not_sorted.

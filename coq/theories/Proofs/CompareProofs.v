(* compare (Model/Compare.v) is a total preorder on the C10 domain.
   Nested induction on values; numeric comparison is exact on nden for
   integers within +-2^53. *)
From Coq Require Import Lia ZArith Bool List.
From Clover Require Import Compare Domains BytesProofs.
Open Scope Z_scope.

Arguments Z.pow : simpl never.
Arguments Z.mul : simpl never.
Arguments N.compare : simpl never.

(* ------------------------------------------------------------------ *)
(** * Nested induction principle for [value] *)

Section ValueInd.
  Variable P : value -> Prop.
  Hypothesis HNil : P VNil.
  Hypothesis HInt : forall z, P (VInt z).
  Hypothesis HUint : forall z, P (VUint z).
  Hypothesis HFloat : forall b, P (VFloat b).
  Hypothesis HStr : forall s, P (VStr s).
  Hypothesis HBool : forall b, P (VBool b).
  Hypothesis HTime : forall s n o, P (VTime s n o).
  Hypothesis HArr : forall l, Forall P l -> P (VArr l).
  Hypothesis HObj : forall o, Forall (fun kv => P (snd kv)) o -> P (VObj o).

  Fixpoint value_ind' (v : value) : P v :=
    match v as v0 return P v0 with
    | VNil => HNil
    | VInt z => HInt z
    | VUint z => HUint z
    | VFloat b => HFloat b
    | VStr s => HStr s
    | VBool b => HBool b
    | VTime s n o => HTime s n o
    | VArr l =>
        HArr l ((fix go (l : list value) : Forall P l :=
                   match l as l0 return Forall P l0 with
                   | [] => Forall_nil P
                   | x :: t => Forall_cons x (value_ind' x) (go t)
                   end) l)
    | VObj o =>
        HObj o ((fix go (o : list (bytes * value)) : Forall (fun kv => P (snd kv)) o :=
                   match o as o0 return Forall (fun kv => P (snd kv)) o0 with
                   | [] => Forall_nil _
                   | kv :: t => Forall_cons kv (value_ind' (snd kv)) (go t)
                   end) o)
    end.
End ValueInd.

(* ------------------------------------------------------------------ *)
(** * Unfolding lemmas (item 6) *)

Theorem compare_string_bytewise : forall s1 s2, compare (VStr s1) (VStr s2) = lex s1 s2.
Proof. reflexivity. Qed.

Theorem compare_array_lex : forall x y t1 t2,
  compare (VArr (x :: t1)) (VArr (y :: t2)) = cmp_then (compare x y) (compare (VArr t1) (VArr t2)).
Proof. reflexivity. Qed.

Theorem compare_arr_nil_nil : compare (VArr []) (VArr []) = Eq.
Proof. reflexivity. Qed.

Theorem compare_arr_nil_cons : forall y t, compare (VArr []) (VArr (y :: t)) = Lt.
Proof. reflexivity. Qed.

Theorem compare_arr_cons_nil : forall x t, compare (VArr (x :: t)) (VArr []) = Gt.
Proof. reflexivity. Qed.

Theorem compare_object_lex : forall k1 x k2 y t1 t2,
  compare (VObj ((k1, x) :: t1)) (VObj ((k2, y) :: t2)) =
  cmp_then (lex k1 k2) (cmp_then (compare x y) (compare (VObj t1) (VObj t2))).
Proof. reflexivity. Qed.

Theorem compare_obj_nil_nil : compare (VObj []) (VObj []) = Eq.
Proof. reflexivity. Qed.

Theorem compare_obj_nil_cons : forall kv t, compare (VObj []) (VObj (kv :: t)) = Lt.
Proof. reflexivity. Qed.

Theorem compare_obj_cons_nil : forall kv t, compare (VObj (kv :: t)) (VObj []) = Gt.
Proof. intros [k x] t. reflexivity. Qed.

Lemma compare_bool_eq : forall b1 b2, compare (VBool b1) (VBool b2) = compare_bool b1 b2.
Proof. reflexivity. Qed.

Lemma compare_time_eq : forall s1 n1 o1 s2 n2 o2,
  compare (VTime s1 n1 o1) (VTime s2 n2 o2) = compare_time s1 n1 s2 n2.
Proof. reflexivity. Qed.

Lemma compare_num : forall a b, is_number a = true -> is_number b = true ->
  compare a b = compare_numbers a b.
Proof.
  intros a b Ha Hb.
  destruct a; try discriminate Ha; destruct b; try discriminate Hb; reflexivity.
Qed.

Lemma tid_number : forall v, type_id v = 1 -> is_number v = true.
Proof. intros v H. destruct v; simpl in H; try discriminate H; reflexivity. Qed.

Lemma number_tid : forall v, is_number v = true -> type_id v = 1.
Proof. intros v H. destruct v; try discriminate H; reflexivity. Qed.

(* ------------------------------------------------------------------ *)
(** * Type rank (item 3) *)

Theorem compare_type_rank : forall a b, (type_id a < type_id b)%Z -> compare a b = Lt.
Proof.
  intros a b H.
  destruct a; destruct b; simpl in H; try reflexivity; exfalso; lia.
Qed.

Lemma compare_type_rank_gt : forall a b, (type_id b < type_id a)%Z -> compare a b = Gt.
Proof.
  intros a b H.
  destruct a; destruct b; simpl in H; try reflexivity; exfalso; lia.
Qed.

(* ------------------------------------------------------------------ *)
(** * Reflexivity (item 1) *)

Lemma compare_numbers_refl : forall a, compare_numbers a a = Eq.
Proof.
  intros a. unfold compare_numbers, fcmp.
  destruct (is_float a || is_float a); apply Z.compare_refl.
Qed.

Lemma compare_bool_refl : forall b, compare_bool b b = Eq.
Proof. destruct b; reflexivity. Qed.

Theorem compare_refl : forall v, compare v v = Eq.
Proof.
  induction v as [ | z | z | b | s | b | s n o | l IH | o IH ] using value_ind'.
  - reflexivity.
  - rewrite compare_num by reflexivity. apply compare_numbers_refl.
  - rewrite compare_num by reflexivity. apply compare_numbers_refl.
  - rewrite compare_num by reflexivity. apply compare_numbers_refl.
  - rewrite compare_string_bytewise. apply lex_refl.
  - rewrite compare_bool_eq. apply compare_bool_refl.
  - rewrite compare_time_eq. unfold compare_time. rewrite !Z.compare_refl. reflexivity.
  - induction IH as [ | x t Hx Ht IHt ].
    + reflexivity.
    + rewrite compare_array_lex, Hx, IHt. reflexivity.
  - induction IH as [ | [k x] t Hx Ht IHt ].
    + reflexivity.
    + simpl in Hx. rewrite compare_object_lex, lex_refl, Hx, IHt. reflexivity.
Qed.

(* ------------------------------------------------------------------ *)
(** * Antisymmetry (item 2) *)

Lemma compare_numbers_antisym : forall a b,
  compare_numbers b a = CompOpp (compare_numbers a b).
Proof.
  intros a b. unfold compare_numbers, fcmp. rewrite (orb_comm (is_float b)).
  destruct (is_float a || is_float b); apply Z.compare_antisym.
Qed.

Lemma cmp_then_opp : forall c d, cmp_then (CompOpp c) (CompOpp d) = CompOpp (cmp_then c d).
Proof. intros [] d; reflexivity. Qed.

Theorem compare_antisym : forall a b, compare b a = CompOpp (compare a b).
Proof.
  induction a as [ | z | z | f | s | b1 | s n o | l IH | o IH ] using value_ind'; intros b.
  - destruct b; reflexivity.
  - destruct b; try reflexivity;
      rewrite !(compare_num) by reflexivity; apply compare_numbers_antisym.
  - destruct b; try reflexivity;
      rewrite !(compare_num) by reflexivity; apply compare_numbers_antisym.
  - destruct b; try reflexivity;
      rewrite !(compare_num) by reflexivity; apply compare_numbers_antisym.
  - destruct b; try reflexivity. rewrite !compare_string_bytewise. apply lex_antisym.
  - destruct b; try reflexivity. rewrite !compare_bool_eq. destruct b1, b; reflexivity.
  - destruct b; try reflexivity. rewrite !compare_time_eq. unfold compare_time.
    rewrite (Z.compare_antisym s sec), (Z.compare_antisym n nsec). apply cmp_then_opp.
  - destruct b as [ | | | | | | | l2 | ]; try reflexivity.
    revert l2. induction IH as [ | x t Hx Ht IHt ]; intros [ | y l2]; try reflexivity.
    rewrite !compare_array_lex, Hx, IHt. apply cmp_then_opp.
  - destruct b as [ | | | | | | | | o2 ]; try reflexivity.
    revert o2. induction IH as [ | [k x] t Hx Ht IHt ]; intros [ | [k2 y] o2]; try reflexivity.
    simpl in Hx. rewrite !compare_object_lex, Hx, IHt, (lex_antisym k k2).
    rewrite <- !cmp_then_opp. reflexivity.
Qed.

(* ------------------------------------------------------------------ *)
(** * float64 conversion of integers within +-2^53 is exact *)

Lemma two63_as_two52 : two63 = 2048 * two52.
Proof. reflexivity. Qed.

Lemma two53_as_two52 : two53 = 2 * two52.
Proof. reflexivity. Qed.

Lemma two52_pow : two52 = 2 ^ 52.
Proof. reflexivity. Qed.

Lemma two52_pos : 0 < two52.
Proof. reflexivity. Qed.

(* field extraction for a well-formed non-negative pattern *)
Lemma fields_pos : forall e m, 0 <= e < 2048 -> 0 <= m < two52 ->
  fsign (e * two52 + m) = false /\ fexp (e * two52 + m) = e /\ fman (e * two52 + m) = m.
Proof.
  intros e m He Hm.
  assert (Hb : 0 <= e * two52 + m < two63).
  { rewrite two63_as_two52. pose proof two52_pos. nia. }
  split; [|split].
  - unfold fsign. apply Z.leb_gt. lia.
  - unfold fexp, fbits_mag. rewrite Z.mod_small by exact Hb.
    symmetry. apply (Z.div_unique _ _ e m); [left; exact Hm | lia].
  - unfold fman. symmetry. apply (Z.mod_unique _ _ e m); [left; exact Hm | lia].
Qed.

Lemma fields_neg : forall e m, 0 <= e < 2048 -> 0 <= m < two52 ->
  fsign (two63 + (e * two52 + m)) = true /\
  fexp (two63 + (e * two52 + m)) = e /\
  fman (two63 + (e * two52 + m)) = m.
Proof.
  intros e m He Hm.
  assert (Hb : 0 <= e * two52 + m < two63).
  { rewrite two63_as_two52. pose proof two52_pos. nia. }
  split; [|split].
  - unfold fsign. apply Z.leb_le. lia.
  - unfold fexp, fbits_mag.
    replace ((two63 + (e * two52 + m)) mod two63) with (e * two52 + m).
    + symmetry. apply (Z.div_unique _ _ e m); [left; exact Hm | lia].
    + apply (Z.mod_unique _ _ 1 (e * two52 + m)); [left; exact Hb | lia].
  - unfold fman. symmetry. apply (Z.mod_unique _ _ (2048 + e) m); [left; exact Hm |].
    rewrite two63_as_two52. lia.
Qed.

(* shape of of_Z_mag below 2^53: an exact normal number *)
Lemma of_Z_mag_exact : forall n, 0 < n < two53 ->
  exists e m, of_Z_mag n = e * two52 + m /\ 1 <= e < 2047 /\ 0 <= m < two52 /\
              (two52 + m) * 2 ^ (e - 1) = n * scale1074.
Proof.
  intros n Hn.
  pose proof (Z.log2_spec n (proj1 Hn)) as [Hlo Hhi].
  pose proof (Z.log2_nonneg n) as Hk0.
  set (k := Z.log2 n) in *.
  assert (Hk : k <= 52).
  { assert (k < 53); [| lia].
    apply (Z.pow_lt_mono_r_iff 2); [lia | lia |].
    change (2 ^ 53) with two53. lia. }
  set (p := 2 ^ (52 - k)).
  assert (Hp : 0 < p) by (apply Z.pow_pos_nonneg; lia).
  assert (Hkp : 2 ^ k * p = two52).
  { unfold p. rewrite <- Z.pow_add_r by lia.
    replace (k + (52 - k)) with 52 by lia. reflexivity. }
  assert (Hkp1 : 2 ^ Z.succ k * p = two53).
  { rewrite Z.pow_succ_r by lia. rewrite <- Z.mul_assoc, Hkp. reflexivity. }
  assert (Hnp : two52 <= n * p < two53).
  { rewrite <- Hkp, <- Hkp1. split.
    - apply Z.mul_le_mono_nonneg_r; lia.
    - apply Z.mul_lt_mono_pos_r; lia. }
  exists (1023 + k), (n * p - two52).
  split; [|split; [|split]].
  - unfold of_Z_mag. fold k.
    destruct (n =? 0) eqn:E0; [apply Z.eqb_eq in E0; lia|].
    destruct (k <=? 52) eqn:E1; [| apply Z.leb_gt in E1; lia].
    reflexivity.
  - lia.
  - rewrite two53_as_two52 in Hnp. lia.
  - replace (two52 + (n * p - two52)) with (n * p) by lia.
    replace (1023 + k - 1) with (1022 + k) by lia.
    rewrite <- Z.mul_assoc. f_equal.
    unfold p, scale1074. rewrite <- Z.pow_add_r by lia.
    f_equal. lia.
Qed.

Lemma fmag_fields : forall b e m, fexp b = e -> fman b = m -> 1 <= e ->
  fmag b = (two52 + m) * 2 ^ (e - 1).
Proof.
  intros b e m He Hm H1. unfold fmag. rewrite He, Hm.
  destruct (e =? 0) eqn:E; [apply Z.eqb_eq in E; lia | reflexivity].
Qed.

Theorem fden_of_Z_exact : forall z, (- two53 <= z <= two53)%Z ->
  fden (of_Z z) = (z * scale1074)%Z.
Proof.
  intros z Hz.
  destruct (Z.eq_dec z two53) as [-> | Hne1]; [vm_compute; reflexivity|].
  destruct (Z.eq_dec z (- two53)) as [-> | Hne2]; [vm_compute; reflexivity|].
  destruct (Z.eq_dec z 0) as [-> | Hne3]; [vm_compute; reflexivity|].
  unfold of_Z. destruct (z <? 0) eqn:Es.
  - apply Z.ltb_lt in Es.
    destruct (of_Z_mag_exact (- z)) as (e & m & Hb & He & Hm & Hv); [lia|].
    rewrite Hb.
    destruct (fields_neg e m) as (Hs & Hx & Hf); [lia | exact Hm |].
    unfold fden. rewrite Hs.
    rewrite (fmag_fields _ e m Hx Hf) by lia. rewrite Hv. lia.
  - apply Z.ltb_ge in Es.
    destruct (of_Z_mag_exact z) as (e & m & Hb & He & Hm & Hv); [lia|].
    rewrite Hb.
    destruct (fields_pos e m) as (Hs & Hx & Hf); [lia | exact Hm |].
    unfold fden. rewrite Hs.
    rewrite (fmag_fields _ e m Hx Hf) by lia. exact Hv.
Qed.

(* ------------------------------------------------------------------ *)
(** * Numbers compare by exact value (item 4) *)

Lemma scale1074_pos : 0 < scale1074.
Proof. unfold scale1074. apply Z.pow_pos_nonneg; lia. Qed.

Lemma small_int_range : forall z, small_int z = true -> - two53 <= z <= two53.
Proof.
  intros z H. unfold small_int in H. apply andb_true_iff in H as [H1 H2].
  apply Z.leb_le in H1. apply Z.leb_le in H2. lia.
Qed.

Lemma to_float_nden : forall a, is_number a = true -> small_ints a = true ->
  fden (to_float a) = nden a.
Proof.
  intros a Hn Hs. destruct a; try discriminate Hn; simpl in *.
  - apply fden_of_Z_exact. apply small_int_range. exact Hs.
  - apply fden_of_Z_exact. apply small_int_range. exact Hs.
  - reflexivity.
Qed.

Lemma int_val_nden : forall a, is_number a = true -> is_float a = false ->
  nden a = int_val a * scale1074.
Proof. intros a Hn Hf. destruct a; try discriminate Hn; try discriminate Hf; reflexivity. Qed.

(* the version without the (unneeded) num_ok hypotheses *)
Lemma compare_numbers_nden : forall a b,
  is_number a = true -> is_number b = true ->
  small_ints a = true -> small_ints b = true ->
  compare a b = Z.compare (nden a) (nden b).
Proof.
  intros a b Ha Hb Sa Sb.
  rewrite compare_num by assumption. unfold compare_numbers.
  destruct (is_float a || is_float b) eqn:Ef.
  - unfold fcmp. rewrite !to_float_nden by assumption. reflexivity.
  - apply orb_false_iff in Ef as [Fa Fb].
    rewrite (int_val_nden a), (int_val_nden b) by assumption.
    apply Zmult_compare_compat_r. pose proof scale1074_pos. lia.
Qed.

Theorem compare_numbers_by_value : forall a b,
  is_number a = true -> is_number b = true ->
  small_ints a = true -> small_ints b = true ->
  num_ok a = true -> num_ok b = true ->
  compare a b = Z.compare (nden a) (nden b).
Proof. intros a b Ha Hb Sa Sb _ _. apply compare_numbers_nden; assumption. Qed.

Lemma compare_nofloat : forall a b,
  is_number a = true -> is_number b = true ->
  no_floats a = true -> no_floats b = true ->
  compare a b = Z.compare (int_val a) (int_val b).
Proof.
  intros a b Ha Hb Na Nb.
  destruct a; try discriminate Ha; try discriminate Na;
    destruct b; try discriminate Hb; try discriminate Nb; reflexivity.
Qed.

(* ------------------------------------------------------------------ *)
(** * Transitivity: the boolean "transitive triple" predicate *)

Definition ceq (c d : comparison) : bool :=
  match c, d with
  | Eq, Eq | Lt, Lt | Gt, Gt => true
  | _, _ => false
  end.

Lemma ceq_true : forall c d, ceq c d = true -> c = d.
Proof. intros [] []; simpl; intros H; try discriminate H; reflexivity. Qed.

Lemma ceq_refl : forall c, ceq c c = true.
Proof. intros []; reflexivity. Qed.

(* t3 ab bc ac: the three results are consistent with a total preorder *)
Definition t3 (ab bc ac : comparison) : bool :=
  match ab, bc with
  | Eq, _ => ceq ac bc
  | _, Eq => ceq ac ab
  | Lt, Lt => ceq ac Lt
  | Gt, Gt => ceq ac Gt
  | _, _ => true
  end.

Lemma t3_then : forall x1 x2 x3 r1 r2 r3,
  t3 x1 x2 x3 = true -> t3 r1 r2 r3 = true ->
  t3 (cmp_then x1 r1) (cmp_then x2 r2) (cmp_then x3 r3) = true.
Proof.
  intros x1 x2 x3 r1 r2 r3.
  destruct x1; destruct x2; destruct x3; simpl; intros Hx; try discriminate Hx;
    destruct r1; destruct r2; destruct r3; simpl; intros Hr; try discriminate Hr; reflexivity.
Qed.

Lemma t3_trans : forall ab bc ac c0, t3 ab bc ac = true -> ab = c0 -> bc = c0 -> ac = c0.
Proof.
  intros ab bc ac c0 H -> ->. destruct c0; simpl in H; apply ceq_true in H; exact H.
Qed.

Lemma t3_eq_l : forall ab bc ac, t3 ab bc ac = true -> ab = Eq -> ac = bc.
Proof. intros ab bc ac H ->. simpl in H. apply ceq_true. exact H. Qed.

Lemma t3_eq_r : forall ab bc ac, t3 ab bc ac = true -> bc = Eq -> ac = ab.
Proof.
  intros ab bc ac H ->. destruct ab; simpl in H; apply ceq_true in H; exact H.
Qed.

Lemma t3_intro : forall ab bc ac,
  (forall c0, ab = c0 -> bc = c0 -> ac = c0) ->
  (ab = Eq -> ac = bc) -> (bc = Eq -> ac = ab) ->
  t3 ab bc ac = true.
Proof.
  intros ab bc ac Ht Hl Hr.
  destruct ab.
  - simpl. rewrite Hl by reflexivity. apply ceq_refl.
  - destruct bc; simpl.
    + rewrite Hr by reflexivity. reflexivity.
    + rewrite (Ht Lt) by reflexivity. reflexivity.
    + reflexivity.
  - destruct bc; simpl.
    + rewrite Hr by reflexivity. reflexivity.
    + reflexivity.
    + rewrite (Ht Gt) by reflexivity. reflexivity.
Qed.

Lemma t3_Lt_x_Lt : forall c, t3 Lt c Lt = true.
Proof. intros []; reflexivity. Qed.
Lemma t3_x_Lt_Lt : forall c, t3 c Lt Lt = true.
Proof. intros []; reflexivity. Qed.
Lemma t3_Gt_x_Gt : forall c, t3 Gt c Gt = true.
Proof. intros []; reflexivity. Qed.
Lemma t3_x_Gt_Gt : forall c, t3 c Gt Gt = true.
Proof. intros []; reflexivity. Qed.
Lemma t3_Lt_Gt_x : forall c, t3 Lt Gt c = true.
Proof. intros []; reflexivity. Qed.
Lemma t3_Gt_Lt_x : forall c, t3 Gt Lt c = true.
Proof. intros []; reflexivity. Qed.

Lemma Zcompare_t3 : forall x y z, t3 (x ?= y) (y ?= z) (x ?= z) = true.
Proof.
  intros x y z. apply t3_intro.
  - intros [] H1 H2.
    + apply Z.compare_eq in H1. apply Z.compare_eq in H2. subst. apply Z.compare_refl.
    + rewrite Z.compare_lt_iff in *. lia.
    + rewrite Z.compare_gt_iff in *. lia.
  - intros H. apply Z.compare_eq in H. subst. reflexivity.
  - intros H. apply Z.compare_eq in H. subst. reflexivity.
Qed.

Lemma lex_t3 : forall x y z, t3 (lex x y) (lex y z) (lex x z) = true.
Proof.
  intros x y z. apply t3_intro.
  - intros c0. apply lex_trans.
  - intros H. apply lex_eq_iff in H. subst. reflexivity.
  - intros H. apply lex_eq_iff in H. subst. reflexivity.
Qed.

Lemma compare_bool_t3 : forall x y z,
  t3 (compare_bool x y) (compare_bool y z) (compare_bool x z) = true.
Proof. intros [] [] []; reflexivity. Qed.

(* triples whose type ranks are not all equal *)
Lemma t3_tid : forall a b c,
  ~ (type_id a = type_id b /\ type_id b = type_id c) ->
  t3 (compare a b) (compare b c) (compare a c) = true.
Proof.
  intros a b c Hne.
  destruct (Z.lt_total (type_id a) (type_id b)) as [Hab | [Hab | Hab]];
  destruct (Z.lt_total (type_id b) (type_id c)) as [Hbc | [Hbc | Hbc]].
  - rewrite (compare_type_rank a b), (compare_type_rank b c), (compare_type_rank a c) by lia.
    reflexivity.
  - rewrite (compare_type_rank a b), (compare_type_rank a c) by lia. apply t3_Lt_x_Lt.
  - rewrite (compare_type_rank a b), (compare_type_rank_gt b c) by lia. apply t3_Lt_Gt_x.
  - rewrite (compare_type_rank b c), (compare_type_rank a c) by lia. apply t3_x_Lt_Lt.
  - exfalso. apply Hne. split; assumption.
  - rewrite (compare_type_rank_gt b c), (compare_type_rank_gt a c) by lia. apply t3_x_Gt_Gt.
  - rewrite (compare_type_rank_gt a b), (compare_type_rank b c) by lia. apply t3_Gt_Lt_x.
  - rewrite (compare_type_rank_gt a b), (compare_type_rank_gt a c) by lia. apply t3_Gt_x_Gt.
  - rewrite (compare_type_rank_gt a b), (compare_type_rank_gt b c), (compare_type_rank_gt a c) by lia.
    reflexivity.
Qed.

(* ------------------------------------------------------------------ *)
(** * The two halves of the domain, and descent into arrays / objects *)

(* dom true = all integers small; dom false = no floats *)
Definition dom (m : bool) (v : value) : bool :=
  if m then small_ints v else no_floats v.

Lemma small_ints_arr_cons : forall x t,
  small_ints (VArr (x :: t)) = small_ints x && small_ints (VArr t).
Proof. reflexivity. Qed.
Lemma small_ints_obj_cons : forall k x t,
  small_ints (VObj ((k, x) :: t)) = small_ints x && small_ints (VObj t).
Proof. reflexivity. Qed.
Lemma no_floats_arr_cons : forall x t,
  no_floats (VArr (x :: t)) = no_floats x && no_floats (VArr t).
Proof. reflexivity. Qed.
Lemma no_floats_obj_cons : forall k x t,
  no_floats (VObj ((k, x) :: t)) = no_floats x && no_floats (VObj t).
Proof. reflexivity. Qed.
Lemma num_ok_arr_cons : forall x t,
  num_ok (VArr (x :: t)) = num_ok x && num_ok (VArr t).
Proof. reflexivity. Qed.
Lemma num_ok_obj_cons : forall k x t,
  num_ok (VObj ((k, x) :: t)) = num_ok x && num_ok (VObj t).
Proof. reflexivity. Qed.

Lemma dom_arr_cons : forall m x t, dom m (VArr (x :: t)) = dom m x && dom m (VArr t).
Proof. intros [] x t; reflexivity. Qed.

Lemma dom_obj_cons : forall m k x t, dom m (VObj ((k, x) :: t)) = dom m x && dom m (VObj t).
Proof. intros [] k x t; reflexivity. Qed.

Lemma num_t3 : forall m a b c,
  is_number a = true -> is_number b = true -> is_number c = true ->
  dom m a = true -> dom m b = true -> dom m c = true ->
  t3 (compare a b) (compare b c) (compare a c) = true.
Proof.
  intros m a b c Na Nb Nc Da Db Dc. destruct m; simpl in Da, Db, Dc.
  - rewrite (compare_numbers_nden a b), (compare_numbers_nden b c), (compare_numbers_nden a c)
      by assumption.
    apply Zcompare_t3.
  - rewrite (compare_nofloat a b), (compare_nofloat b c), (compare_nofloat a c) by assumption.
    apply Zcompare_t3.
Qed.

Definition T3 (m : bool) (a : value) : Prop :=
  forall b c, dom m a = true -> dom m b = true -> dom m c = true ->
              t3 (compare a b) (compare b c) (compare a c) = true.

Lemma arr_t3 : forall m l1, Forall (T3 m) l1 ->
  forall l2 l3, dom m (VArr l1) = true -> dom m (VArr l2) = true -> dom m (VArr l3) = true ->
  t3 (compare (VArr l1) (VArr l2)) (compare (VArr l2) (VArr l3)) (compare (VArr l1) (VArr l3)) = true.
Proof.
  intros m l1 H. induction H as [ | x t Hx Ht IHt ]; intros [ | y l2] [ | z l3] D1 D2 D3.
  - reflexivity.
  - reflexivity.
  - reflexivity.
  - rewrite !compare_arr_nil_cons. apply t3_Lt_x_Lt.
  - reflexivity.
  - rewrite compare_arr_cons_nil, compare_arr_nil_cons. apply t3_Gt_Lt_x.
  - rewrite !compare_arr_cons_nil. apply t3_x_Gt_Gt.
  - rewrite dom_arr_cons in D1, D2, D3.
    apply andb_true_iff in D1 as [D1x D1t].
    apply andb_true_iff in D2 as [D2x D2t].
    apply andb_true_iff in D3 as [D3x D3t].
    rewrite !compare_array_lex. apply t3_then.
    + apply Hx; assumption.
    + apply IHt; assumption.
Qed.

Lemma obj_t3 : forall m o1, Forall (fun kv => T3 m (snd kv)) o1 ->
  forall o2 o3, dom m (VObj o1) = true -> dom m (VObj o2) = true -> dom m (VObj o3) = true ->
  t3 (compare (VObj o1) (VObj o2)) (compare (VObj o2) (VObj o3)) (compare (VObj o1) (VObj o3)) = true.
Proof.
  intros m o1 H.
  induction H as [ | [k1 x] t Hx Ht IHt ]; intros [ | [k2 y] o2] [ | [k3 z] o3] D1 D2 D3.
  - reflexivity.
  - reflexivity.
  - reflexivity.
  - rewrite !compare_obj_nil_cons. apply t3_Lt_x_Lt.
  - reflexivity.
  - rewrite compare_obj_cons_nil, compare_obj_nil_cons. apply t3_Gt_Lt_x.
  - rewrite !compare_obj_cons_nil. apply t3_x_Gt_Gt.
  - rewrite dom_obj_cons in D1, D2, D3.
    apply andb_true_iff in D1 as [D1x D1t].
    apply andb_true_iff in D2 as [D2x D2t].
    apply andb_true_iff in D3 as [D3x D3t].
    simpl in Hx.
    rewrite !compare_object_lex. apply t3_then; [apply lex_t3 |]. apply t3_then.
    + apply Hx; assumption.
    + apply IHt; assumption.
Qed.

Lemma compare_t3_dom : forall m a, T3 m a.
Proof.
  intros m.
  induction a as [ | z | z | f | s | b1 | s n o | l IH | o IH ] using value_ind';
    intros b c Da Db Dc.
  - (* VNil *)
    destruct (Z.eq_dec (type_id VNil) (type_id b)) as [Hab|Hab];
      [destruct (Z.eq_dec (type_id b) (type_id c)) as [Hbc|Hbc]|];
      try (apply t3_tid; intros [? ?]; contradiction).
    destruct b; try discriminate Hab. destruct c; try discriminate Hbc. reflexivity.
  - (* VInt *)
    destruct (Z.eq_dec (type_id (VInt z)) (type_id b)) as [Hab|Hab];
      [destruct (Z.eq_dec (type_id b) (type_id c)) as [Hbc|Hbc]|];
      try (apply t3_tid; intros [? ?]; contradiction).
    apply (num_t3 m); try assumption; [reflexivity | | ]; apply tid_number; simpl in Hab; congruence.
  - (* VUint *)
    destruct (Z.eq_dec (type_id (VUint z)) (type_id b)) as [Hab|Hab];
      [destruct (Z.eq_dec (type_id b) (type_id c)) as [Hbc|Hbc]|];
      try (apply t3_tid; intros [? ?]; contradiction).
    apply (num_t3 m); try assumption; [reflexivity | | ]; apply tid_number; simpl in Hab; congruence.
  - (* VFloat *)
    destruct (Z.eq_dec (type_id (VFloat f)) (type_id b)) as [Hab|Hab];
      [destruct (Z.eq_dec (type_id b) (type_id c)) as [Hbc|Hbc]|];
      try (apply t3_tid; intros [? ?]; contradiction).
    apply (num_t3 m); try assumption; [reflexivity | | ]; apply tid_number; simpl in Hab; congruence.
  - (* VStr *)
    destruct (Z.eq_dec (type_id (VStr s)) (type_id b)) as [Hab|Hab];
      [destruct (Z.eq_dec (type_id b) (type_id c)) as [Hbc|Hbc]|];
      try (apply t3_tid; intros [? ?]; contradiction).
    destruct b; try discriminate Hab. destruct c; try discriminate Hbc.
    rewrite !compare_string_bytewise. apply lex_t3.
  - (* VBool *)
    destruct (Z.eq_dec (type_id (VBool b1)) (type_id b)) as [Hab|Hab];
      [destruct (Z.eq_dec (type_id b) (type_id c)) as [Hbc|Hbc]|];
      try (apply t3_tid; intros [? ?]; contradiction).
    destruct b; try discriminate Hab. destruct c; try discriminate Hbc.
    rewrite !compare_bool_eq. apply compare_bool_t3.
  - (* VTime *)
    destruct (Z.eq_dec (type_id (VTime s n o)) (type_id b)) as [Hab|Hab];
      [destruct (Z.eq_dec (type_id b) (type_id c)) as [Hbc|Hbc]|];
      try (apply t3_tid; intros [? ?]; contradiction).
    destruct b; try discriminate Hab. destruct c; try discriminate Hbc.
    rewrite !compare_time_eq. unfold compare_time. apply t3_then; apply Zcompare_t3.
  - (* VArr *)
    destruct (Z.eq_dec (type_id (VArr l)) (type_id b)) as [Hab|Hab];
      [destruct (Z.eq_dec (type_id b) (type_id c)) as [Hbc|Hbc]|];
      try (apply t3_tid; intros [? ?]; contradiction).
    destruct b; try discriminate Hab. destruct c; try discriminate Hbc.
    apply (arr_t3 m); assumption.
  - (* VObj *)
    destruct (Z.eq_dec (type_id (VObj o)) (type_id b)) as [Hab|Hab];
      [destruct (Z.eq_dec (type_id b) (type_id c)) as [Hbc|Hbc]|];
      try (apply t3_tid; intros [? ?]; contradiction).
    destruct b; try discriminate Hab. destruct c; try discriminate Hbc.
    apply (obj_t3 m); assumption.
Qed.

Lemma cmp_dom3_dom : forall a b c, cmp_dom3 a b c = true ->
  exists m, dom m a = true /\ dom m b = true /\ dom m c = true.
Proof.
  intros a b c H. unfold cmp_dom3 in H.
  apply andb_true_iff in H as [_ H]. apply orb_true_iff in H as [H | H].
  - apply andb_true_iff in H as [H Hc]. apply andb_true_iff in H as [Ha Hb].
    exists true. simpl. auto.
  - apply andb_true_iff in H as [H Hc]. apply andb_true_iff in H as [Ha Hb].
    exists false. simpl. auto.
Qed.

Lemma compare_t3 : forall a b c, cmp_dom3 a b c = true ->
  t3 (compare a b) (compare b c) (compare a c) = true.
Proof.
  intros a b c H. destruct (cmp_dom3_dom a b c H) as (m & Da & Db & Dc).
  apply (compare_t3_dom m); assumption.
Qed.

(* ------------------------------------------------------------------ *)
(** * Transitivity (item 5) *)

Theorem compare_trans : forall c0 a b c, cmp_dom3 a b c = true ->
  compare a b = c0 -> compare b c = c0 -> compare a c = c0.
Proof.
  intros c0 a b c H H1 H2. eapply t3_trans; [apply compare_t3; exact H | exact H1 | exact H2].
Qed.

Theorem compare_eq_cong : forall a b c, cmp_dom3 a b c = true ->
  compare a b = Eq -> compare a c = compare b c.
Proof.
  intros a b c H H1. eapply t3_eq_l; [apply compare_t3; exact H | exact H1].
Qed.

Lemma cmp_dom3_rot : forall a b c, cmp_dom3 a b c = true -> cmp_dom3 b c a = true.
Proof.
  intros a b c H. unfold cmp_dom3 in *.
  apply andb_true_iff in H as [H1 H2].
  apply andb_true_iff in H1 as [H1 Hc]. apply andb_true_iff in H1 as [Ha Hb].
  rewrite Ha, Hb, Hc. simpl.
  apply orb_true_iff in H2 as [H | H];
    apply andb_true_iff in H as [H Sc]; apply andb_true_iff in H as [Sa Sb];
    rewrite Sa, Sb, Sc; simpl; [reflexivity | apply orb_true_r].
Qed.

(* derived from compare_trans, compare_eq_cong and compare_antisym only *)
Theorem compare_le_trans : forall a b c, cmp_dom3 a b c = true ->
  compare a b <> Gt -> compare b c <> Gt -> compare a c <> Gt.
Proof.
  intros a b c H Hab Hbc.
  destruct (compare a b) eqn:E1.
  - rewrite (compare_eq_cong a b c H E1). exact Hbc.
  - destruct (compare b c) eqn:E2.
    + (* b ~ c: rotate and use congruence on the other side *)
      pose proof (compare_eq_cong b c a (cmp_dom3_rot a b c H) E2) as E3.
      rewrite (compare_antisym a b), (compare_antisym a c), E1 in E3.
      destruct (compare a c); simpl in E3; congruence.
    + rewrite (compare_trans Lt a b c H E1 E2). discriminate.
    + congruence.
  - congruence.
Qed.

(* ------------------------------------------------------------------ *)

Print Assumptions compare_refl.
Print Assumptions compare_antisym.
Print Assumptions compare_type_rank.
Print Assumptions fden_of_Z_exact.
Print Assumptions compare_numbers_by_value.
Print Assumptions compare_trans.
Print Assumptions compare_eq_cong.
Print Assumptions compare_le_trans.
Print Assumptions compare_string_bytewise.
Print Assumptions compare_array_lex.
Print Assumptions compare_object_lex.
Print Assumptions compare_arr_nil_nil.
Print Assumptions compare_arr_nil_cons.
Print Assumptions compare_arr_cons_nil.
Print Assumptions compare_obj_nil_nil.
Print Assumptions compare_obj_nil_cons.
Print Assumptions compare_obj_cons_nil.

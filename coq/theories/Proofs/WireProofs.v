(* Property C11: stored documents read back identical (replaceTimes / removeLocalizedTimes). *)
From Clover Require Import Wire BytesProofs CompareProofs.
Open Scope Z_scope.

(* the two local fixpoints over object bodies, named *)
Definition replace_obj : list (bytes * value) -> list (bytes * wire) :=
  fix go (o : list (bytes * value)) : list (bytes * wire) :=
    match o with [] => [] | (k, x) :: t => (k, replace_times x) :: go t end.

Definition remove_obj : list (bytes * wire) -> list (bytes * value) :=
  fix go (o : list (bytes * wire)) : list (bytes * value) :=
    match o with [] => [] | (k, x) :: t => (k, remove_localized x) :: go t end.

Lemma replace_times_obj : forall o, replace_times (VObj o) = WObj (replace_obj o).
Proof. reflexivity. Qed.

Lemma remove_localized_obj : forall o, remove_localized (WObj o) = VObj (remove_obj o).
Proof. reflexivity. Qed.

Lemma replace_obj_cons : forall k x t, replace_obj ((k, x) :: t) = (k, replace_times x) :: replace_obj t.
Proof. reflexivity. Qed.

Lemma remove_obj_cons : forall k x t, remove_obj ((k, x) :: t) = (k, remove_localized x) :: remove_obj t.
Proof. reflexivity. Qed.

(* ------------------------------------------------------------------ *)
(** * A1: decoding undoes encoding *)

Theorem remove_replace : forall v, remove_localized (replace_times v) = v.
Proof.
  induction v as [ | z | z | b | s | b | s n o | l IH | o IH ] using value_ind';
    try reflexivity.
  - simpl. f_equal. induction IH as [ | x t Hx Ht IHt ].
    + reflexivity.
    + simpl. rewrite Hx, IHt. reflexivity.
  - rewrite replace_times_obj, remove_localized_obj. f_equal.
    induction IH as [ | [k x] t Hx Ht IHt ].
    + reflexivity.
    + simpl in Hx. rewrite replace_obj_cons, remove_obj_cons, Hx, IHt. reflexivity.
Qed.

(** * A2: documents *)

Theorem decode_encode : forall d : obj, doc_decode (doc_encode d) = d.
Proof. intros d. unfold doc_decode, doc_encode. rewrite remove_replace. reflexivity. Qed.

(** * A3: kinds are preserved *)

Theorem roundtrip_kind : forall v, type_id (remove_localized (replace_times v)) = type_id v.
Proof. intros v. rewrite remove_replace. reflexivity. Qed.

Theorem roundtrip_numeric_kind :
  (forall z, remove_localized (replace_times (VInt z)) = VInt z) /\
  (forall z, remove_localized (replace_times (VUint z)) = VUint z) /\
  (forall b, remove_localized (replace_times (VFloat b)) = VFloat b).
Proof. repeat split. Qed.

(* the remaining constructors, for completeness *)
Theorem roundtrip_constructor_kind :
  remove_localized (replace_times VNil) = VNil /\
  (forall s, remove_localized (replace_times (VStr s)) = VStr s) /\
  (forall b, remove_localized (replace_times (VBool b)) = VBool b) /\
  (forall s n o, remove_localized (replace_times (VTime s n o)) = VTime s n o) /\
  (forall l, exists l', remove_localized (replace_times (VArr l)) = VArr l' /\ length l' = length l) /\
  (forall o, exists o', remove_localized (replace_times (VObj o)) = VObj o' /\ map fst o' = map fst o).
Proof.
  repeat split.
  - intros l. exists l. split; [apply remove_replace | reflexivity].
  - intros o. exists o. split; [apply remove_replace | reflexivity].
Qed.

(** * A4: the encoder never emits a bare time.Time *)

Fixpoint no_bare_time (w : wire) : bool :=
  match w with
  | WTime _ _ _ => false
  | WArr l => forallb no_bare_time l
  | WObj o => (fix go (o : list (bytes * wire)) : bool :=
                 match o with [] => true | (_, x) :: t => no_bare_time x && go t end) o
  | _ => true
  end.

Theorem encode_no_bare_time : forall v, no_bare_time (replace_times v) = true.
Proof.
  induction v as [ | z | z | b | s | b | s n o | l IH | o IH ] using value_ind';
    try reflexivity.
  - simpl. induction IH as [ | x t Hx Ht IHt ].
    + reflexivity.
    + simpl. rewrite Hx. exact IHt.
  - rewrite replace_times_obj. induction IH as [ | [k x] t Hx Ht IHt ].
    + reflexivity.
    + simpl in Hx. rewrite replace_obj_cons.
      change (no_bare_time (replace_times x) && no_bare_time (WObj (replace_obj t)) = true).
      rewrite Hx. exact IHt.
Qed.

Corollary doc_encode_no_bare_time : forall d : obj, no_bare_time (doc_encode d) = true.
Proof. intros d. apply encode_no_bare_time. Qed.

(* no_bare_time is not trivially true *)
Example no_bare_time_detects : no_bare_time (WArr [WObj [([116%N], WTime 1 2 3)]]) = false.
Proof. reflexivity. Qed.

(** * A5: a time nested inside an object inside an array *)

Definition ex_doc : obj :=
  [ ([97%N], VArr [VInt 1; VObj [([116%N], VTime 1700000000 5 3600)]; VUint 7; VFloat 0]) ;
    ([98%N], VTime 0 0 0) ].

Example ex_encode :
  doc_encode ex_doc =
  WObj [ ([97%N], WArr [WInt 1; WObj [([116%N], WLTime 1700000000 5 3600)]; WUint 7; WFloat 0]) ;
         ([98%N], WLTime 0 0 0) ].
Proof. reflexivity. Qed.

Example ex_roundtrip : doc_decode (doc_encode ex_doc) = ex_doc.
Proof. reflexivity. Qed.

Example ex_no_bare : no_bare_time (doc_encode ex_doc) = true.
Proof. reflexivity. Qed.

Print Assumptions remove_replace.
Print Assumptions decode_encode.
Print Assumptions roundtrip_kind.
Print Assumptions roundtrip_numeric_kind.
Print Assumptions roundtrip_constructor_kind.
Print Assumptions encode_no_bare_time.
Print Assumptions doc_encode_no_bare_time.
Print Assumptions ex_roundtrip.

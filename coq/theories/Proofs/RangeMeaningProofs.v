(* C17 at full strength — the range algebra and the range scan against what a range MEANS as the code
   reads it ([range_denotes], Spec/RangeSpec.v: an excluded nil bound is unbounded, an included nil bound
   is the value nil), on the domain property C17 quantifies over ([c17_range]: at least one non-nil
   bound, or the nil-only range).

   M1  empty_sound_full as first stated (EVERY range) is FALSE: the only counterexample shape is the
       range with no bound at all, {nil, nil, excl, excl}, which [range_is_empty] reports empty although
       it denotes every value (empty_sound_full_refuted; it lies outside [c17_range]).  The strongest
       true variant excludes exactly that range (empty_sound_bounded_somewhere); empty_sound_c17 is its
       restriction to the C17 domain.
   M2  denotes_in_range: what a scan visits is a superset of the meaning (no regime hypothesis needed).
   M3  in_range_denotes_c17: on the C17 domain, for ranges not reported empty, the scan set IS the meaning
       (false outside the domain: {nil, nil, excl, incl}, see in_range_denotes_refuted).
   M4  scan_exact_c17: a range scan folds the consumer over exactly the documents whose indexed value the
       range denotes, in index order — whether or not the range is reported empty.
   M5  intersect_sound_denotes: intersection never excludes, from what is scanned, a value contained in both.
   M6  non-vacuity examples. *)
From Coq Require Import Lia ZArith Bool List Permutation.
From Clover Require Import RangeSpec PureRun RangeProofs ScanProofs CompareProofs.
Import ListNotations.
Open Scope Z_scope.

Arguments compare : simpl never.

(* ------------------------------------------------------------------ *)
(** * Every value is at least nil; only nil is at most nil *)

Lemma ge_nil : forall v, is_ge (compare v VNil) = true.
Proof. intros v. rewrite compare_nil_r. destruct (is_nilv v); reflexivity. Qed.

Lemma le_nil_eq : forall v, is_le (compare v VNil) = is_eq (compare v VNil).
Proof. intros v. rewrite compare_nil_r. destruct (is_nilv v); reflexivity. Qed.

Lemma lt_nil_false : forall v, is_lt (compare v VNil) = false.
Proof. intros v. rewrite compare_nil_r. destruct (is_nilv v); reflexivity. Qed.

Lemma is_nilv_false_ne : forall x, is_nilv x = false -> x <> VNil.
Proof. intros x H E. subst x. discriminate H. Qed.

(* ------------------------------------------------------------------ *)
(** * Bound by bound: the meaning is at least as strict as the scan set *)

Lemma lower_ok_above : forall s i v, lower_ok s i v = true -> above s i v = true.
Proof.
  intros s i v H. unfold lower_ok in H. unfold above.
  destruct (is_nilv s) eqn:Ns; simpl; [reflexivity | ].
  simpl in H. exact H.
Qed.

Lemma upper_ok_below : forall e i v, upper_ok e i v = true -> below e i v = true.
Proof.
  intros e i v H. unfold upper_ok in H. unfold below.
  destruct (is_nilv e) eqn:Ne; simpl; [reflexivity | ].
  simpl in H. exact H.
Qed.

(* on a non-nil bound the two readings agree *)
Lemma lower_ok_nonnil : forall s i v, is_nilv s = false -> lower_ok s i v = above s i v.
Proof. intros s i v N. unfold lower_ok, above. rewrite N. reflexivity. Qed.

Lemma upper_ok_nonnil : forall e i v, is_nilv e = false -> upper_ok e i v = below e i v.
Proof. intros e i v N. unfold upper_ok, below. rewrite N. reflexivity. Qed.

(* on a nil start bound the two readings agree as well: nil is the least value *)
Lemma lower_ok_nil : forall i v, lower_ok VNil i v = true.
Proof.
  intros i v. unfold lower_ok. destruct i; simpl; [ | reflexivity]. apply ge_nil.
Qed.

(* ------------------------------------------------------------------ *)
(** * M2 — the scan set is a superset of the meaning *)

Theorem denotes_in_range : forall r v, range_denotes r v = true -> in_range r v = true.
Proof.
  intros [s e si ei] v H. unfold range_denotes in H. simpl in H.
  apply andb_true_iff in H as [HL HU].
  unfold in_range. destruct (range_is_nil (mkRange s e si ei)) eqn:N.
  - (* the nil-only range: v <= nil, hence v compares equal to nil *)
    unfold range_is_nil in N. simpl in N.
    apply andb_true_iff in N as [N Ie]. apply andb_true_iff in N as [N Is].
    apply andb_true_iff in N as [Ns Ne].
    apply is_nilv_true in Ne. subst e. subst ei.
    unfold upper_ok in HU. simpl in HU.
    rewrite <- le_nil_eq. exact HU.
  - simpl. apply andb_true_iff. split.
    + apply lower_ok_above. exact HL.
    + apply upper_ok_below. exact HU.
Qed.

(* ------------------------------------------------------------------ *)
(** * M1 — emptiness *)

(* the range with no bound at all *)
Definition range_unbounded (r : range) : bool :=
  is_nilv (r_start r) && is_nilv (r_end r) && negb (r_sinc r) && negb (r_einc r).

Lemma c17_not_unbounded : forall r, c17_range r = true -> range_unbounded r = false.
Proof.
  intros [s e si ei]. unfold c17_range, range_unbounded, range_is_nil. simpl.
  destruct (is_nilv s); destruct (is_nilv e); destruct si; destruct ei; simpl; intros H;
    try reflexivity; discriminate H.
Qed.

(* The statement for EVERY range is false.  Counterexample found by the vm_compute grid (6 values,
   144 ranges): r = {nil, nil, excl, excl} is reported empty, yet it denotes every value; it is the only
   range of the grid on which the statement fails. *)
Lemma empty_sound_full_refuted : exists m r v,
  regime m v = true /\ regime m (r_start r) = true /\ regime m (r_end r) = true /\
  range_is_empty r = true /\ range_denotes r v = true.
Proof.
  exists true, (mkRange VNil VNil false false), (VInt 5). vm_compute. repeat split.
Qed.

(* that range denotes everything *)
Lemma unbounded_denotes_all : forall r v, range_unbounded r = true -> range_denotes r v = true.
Proof.
  intros [s e si ei] v H. unfold range_unbounded in H. simpl in H.
  apply andb_true_iff in H as [H Ie]. apply andb_true_iff in H as [H Is].
  apply andb_true_iff in H as [Ns Ne].
  unfold range_denotes, lower_ok, upper_ok. simpl. rewrite Ns, Ne, Is, Ie. reflexivity.
Qed.

Lemma unbounded_reported_empty : forall r, range_unbounded r = true -> range_is_empty r = true.
Proof.
  intros [s e si ei] H. unfold range_unbounded in H. simpl in H.
  apply andb_true_iff in H as [H Ie]. apply andb_true_iff in H as [H Is].
  apply andb_true_iff in H as [Ns Ne].
  apply is_nilv_true in Ns. apply is_nilv_true in Ne. subst s e.
  apply negb_true_iff in Is. apply negb_true_iff in Ie. subst si ei. reflexivity.
Qed.

(* The strongest true variant: every range but the one with no bound at all. *)
Theorem empty_sound_bounded_somewhere : forall m r v,
  regime m v = true -> regime m (r_start r) = true -> regime m (r_end r) = true ->
  range_unbounded r = false ->
  range_is_empty r = true -> range_denotes r v = false.
Proof.
  intros m r v Rv Rs Re U H.
  destruct (is_nilv (r_end r)) eqn:Ne.
  - (* the end bound is nil *)
    destruct r as [s e si ei]. simpl in *.
    apply is_nilv_true in Ne. subst e.
    unfold range_is_empty in H. simpl in H.
    unfold range_unbounded in U. simpl in U.
    destruct (is_nilv s) eqn:Ns.
    + (* both nil: only {nil, nil, excl, excl} is reported empty *)
      apply is_nilv_true in Ns. subst s.
      destruct si; destruct ei; vm_compute in H, U; discriminate.
    + simpl in H. destruct ei; simpl in H.
      * (* {s, nil, _, incl}: v <= nil forces v ~ nil, and nil is below s *)
        unfold range_denotes, lower_ok, upper_ok. simpl. rewrite Ns. simpl.
        rewrite le_nil_eq.
        destruct (is_eq (compare v VNil)) eqn:E; [ | apply andb_false_r].
        apply is_eq_iff in E. apply compare_nil_eq in E. subst v.
        rewrite compare_nil_l, Ns. destruct si; reflexivity.
      * (* {s, nil, _, excl} is never reported empty *)
        discriminate H.
  - (* the end bound is a value: nothing is scanned, and the meaning is within the scan set *)
    destruct (range_denotes r v) eqn:D; [ | reflexivity].
    apply denotes_in_range in D.
    rewrite (empty_sound_bounded m r v Rv Rs Re) in D; [discriminate D | | exact H].
    unfold end_bounded. rewrite Ne. reflexivity.
Qed.

Theorem empty_sound_c17 : forall m r v,
  regime m v = true -> regime m (r_start r) = true -> regime m (r_end r) = true ->
  c17_range r = true ->
  range_is_empty r = true -> range_denotes r v = false.
Proof.
  intros m r v Rv Rs Re C H.
  apply empty_sound_bounded_somewhere with m; try assumption.
  apply c17_not_unbounded. exact C.
Qed.

(* ------------------------------------------------------------------ *)
(** * M3 — on the C17 domain, a range not reported empty is scanned exactly *)

(* no regime hypothesis is needed: no transitivity is involved *)
Lemma in_range_denotes_c17_any : forall r v,
  c17_range r = true -> range_is_empty r = false -> in_range r v = range_denotes r v.
Proof.
  intros [s e si ei] v C H.
  unfold c17_range in C. simpl in C.
  unfold in_range, range_denotes. simpl.
  destruct (range_is_nil (mkRange s e si ei)) eqn:N.
  - (* the nil-only range *)
    unfold range_is_nil in N. simpl in N.
    apply andb_true_iff in N as [N Ie]. apply andb_true_iff in N as [N Is].
    apply andb_true_iff in N as [Ns Ne].
    apply is_nilv_true in Ns. apply is_nilv_true in Ne. subst s e si ei.
    unfold lower_ok, upper_ok. simpl. rewrite ge_nil, le_nil_eq. reflexivity.
  - rewrite orb_false_r in C.
    destruct (is_nilv e) eqn:Ne.
    + (* the end bound is nil, so the start bound is a value *)
      simpl in C. rewrite orb_false_r in C. apply negb_true_iff in C.
      apply is_nilv_true in Ne. subst e.
      rewrite (lower_ok_nonnil s si v C).
      unfold range_is_empty in H. simpl in H. rewrite C in H. simpl in H.
      destruct ei; simpl in H.
      * (* {s, nil, _, incl} is reported empty *)
        rewrite compare_nil_r, C in H. simpl in H. discriminate H.
      * (* {s, nil, _, excl}: unbounded above in both readings *)
        unfold below, upper_ok. reflexivity.
    + rewrite (upper_ok_nonnil e ei v Ne).
      destruct (is_nilv s) eqn:Ns.
      * apply is_nilv_true in Ns. subst s. rewrite lower_ok_nil. reflexivity.
      * rewrite (lower_ok_nonnil s si v Ns). reflexivity.
Qed.

Theorem in_range_denotes_c17 : forall m r v,
  regime m v = true -> regime m (r_start r) = true -> regime m (r_end r) = true ->
  c17_range r = true -> range_is_empty r = false -> in_range r v = range_denotes r v.
Proof. intros m r v _ _ _ C H. apply in_range_denotes_c17_any; assumption. Qed.

(* outside the C17 domain the two readings differ on a range that is not reported empty:
   {nil, nil, excl, incl} is scanned as unbounded, but means "at most nil" *)
Lemma in_range_denotes_refuted : exists m r v,
  regime m v = true /\ regime m (r_start r) = true /\ regime m (r_end r) = true /\
  c17_range r = false /\ range_is_empty r = false /\
  in_range r v = true /\ range_denotes r v = false.
Proof.
  exists true, (mkRange VNil VNil false true), (VInt 1). vm_compute. repeat split.
Qed.

(* ------------------------------------------------------------------ *)
(** * M4 — the range scan, at full strength *)

Lemma filter_none_in : forall {A} (P : A -> bool) l,
  (forall x, In x l -> P x = false) -> filter P l = [].
Proof.
  intros A P l H. induction l as [ | x t IH]; [reflexivity | ].
  cbn [filter]. rewrite (H x (or_introl eq_refl)). apply IH.
  intros y Hy. apply H. right. exact Hy.
Qed.

Lemma docs_by_idx_stored : forall c f rv sc d,
  In d (docs_by_idx c f rv sc) -> exists id, In (id, d) (sc_docs sc).
Proof.
  intros c f rv sc d H.
  apply (Permutation_in d (docs_by_idx_perm c f rv sc)) in H.
  apply in_map_iff in H. destruct H as [[id d'] [E I]]. simpl in E. subst d'.
  exists id. exact I.
Qed.

Theorem scan_exact_c17 :
  forall m db c sc f B (g : obj -> B -> B * bool) (flt : option ncrit) r reverse (b : B) s,
  wf_db db -> assoc c db = Some sc -> In f (sc_idx sc) -> idx_dom f sc ->
  key_dom (r_start r) = true -> key_dom (r_end r) = true ->
  c17_range r = true ->
  (forall id d, In (id, d) (sc_docs sc) -> regime m (doc_get f d) = true) ->
  regime m (r_start r) = true -> regime m (r_end r) = true ->
  R db (view s) -> fault s = None ->
  runs_to (idx_iterate_range (on_index_id c flt (pure_cons g)) c f r reverse b) s
    (fold_pure g (filter (sat_opt flt)
       (filter (fun d => range_denotes r (doc_get f d)) (docs_by_idx c f reverse sc))) b).
Proof.
  intros m db c sc f B g flt r rv b s Hwf Hc Hf Hdom Hks Hke C Hreg Rs Re HR Hfl.
  destruct (range_is_empty r) eqn:E.
  - (* reported empty: nothing is scanned, and nothing is denoted *)
    assert (X : filter (fun d => range_denotes r (doc_get f d)) (docs_by_idx c f rv sc) = []).
    { apply filter_none_in. intros d Hd.
      destruct (docs_by_idx_stored c f rv sc d Hd) as [id Hid].
      apply empty_sound_c17 with m; try assumption.
      apply (Hreg id d Hid). }
    rewrite X. cbn [filter fold_pure].
    apply idx_iterate_range_empty_runs. exact E.
  - (* not reported empty: the scan set is the meaning *)
    assert (X : filter (fun d => range_denotes r (doc_get f d)) (docs_by_idx c f rv sc)
              = filter (fun d => in_range r (doc_get f d)) (docs_by_idx c f rv sc)).
    { apply filter_ext_in. intros d Hd.
      destruct (docs_by_idx_stored c f rv sc d Hd) as [id Hid].
      symmetry. apply in_range_denotes_c17 with m; try assumption.
      apply (Hreg id d Hid). }
    rewrite X.
    apply idx_iterate_range_pure with db; assumption.
Qed.

(* ------------------------------------------------------------------ *)
(** * M5 — intersection against the meaning *)

Theorem intersect_sound_denotes : forall m r1 r2 v,
  regime m v = true ->
  regime m (r_start r1) = true -> regime m (r_end r1) = true ->
  regime m (r_start r2) = true -> regime m (r_end r2) = true ->
  range_denotes r1 v = true -> range_denotes r2 v = true ->
  in_range (range_intersect r1 r2) v = true.
Proof.
  intros m r1 r2 v Rv Rs1 Re1 Rs2 Re2 H1 H2.
  apply intersect_sound with m; try assumption.
  - apply denotes_in_range. exact H1.
  - apply denotes_in_range. exact H2.
Qed.

(* ------------------------------------------------------------------ *)
(** * The exhaustive grid the statements were first tested on *)

Definition mgrid_vals : list value :=
  [VNil; VInt 1; VInt 3; VInt 5; VStr [97%N]; VBool true].
Definition mgrid_ranges : list range :=
  flat_map (fun s => flat_map (fun e => flat_map (fun si =>
    map (fun ei => mkRange s e si ei) [true; false]) [true; false]) mgrid_vals) mgrid_vals.
Definition mgrid_fails (P : range -> value -> bool) : list (range * value) :=
  flat_map (fun r => flat_map (fun v => if P r v then [] else [(r, v)]) mgrid_vals) mgrid_ranges.

(* M1 for every range: fails exactly on {nil, nil, excl, excl}, at every value *)
Example empty_full_grid :
  mgrid_fails (fun r v => implb (range_is_empty r) (negb (range_denotes r v)))
  = map (fun v => (mkRange VNil VNil false false, v)) mgrid_vals.
Proof. vm_compute. reflexivity. Qed.
Example empty_c17_grid :
  mgrid_fails (fun r v => implb (c17_range r && range_is_empty r) (negb (range_denotes r v))) = [].
Proof. vm_compute. reflexivity. Qed.
Example empty_bounded_somewhere_grid :
  mgrid_fails (fun r v => implb (negb (range_unbounded r) && range_is_empty r) (negb (range_denotes r v))) = [].
Proof. vm_compute. reflexivity. Qed.
Example denotes_in_range_grid :
  mgrid_fails (fun r v => implb (range_denotes r v) (in_range r v)) = [].
Proof. vm_compute. reflexivity. Qed.
Example in_range_denotes_c17_grid :
  mgrid_fails (fun r v => implb (c17_range r && negb (range_is_empty r))
                                (Bool.eqb (in_range r v) (range_denotes r v))) = [].
Proof. vm_compute. reflexivity. Qed.
(* M3 without the C17 side condition: fails exactly on {nil, nil, excl, incl}, at every non-nil value *)
Example in_range_denotes_any_grid :
  mgrid_fails (fun r v => implb (negb (range_is_empty r)) (Bool.eqb (in_range r v) (range_denotes r v)))
  = map (fun v => (mkRange VNil VNil false true, v)) (tl mgrid_vals).
Proof. vm_compute. reflexivity. Qed.
Example mgrid_regime : forallb (regime true) mgrid_vals && forallb (regime false) mgrid_vals = true.
Proof. vm_compute. reflexivity. Qed.

(* ------------------------------------------------------------------ *)
(** * M6 — non-vacuity *)

Definition r_3_nil_ii : range := mkRange (VInt 3) VNil true true.
Definition r_3_nil_ie : range := mkRange (VInt 3) VNil true false.
Definition r_nil_only : range := mkRange VNil VNil true true.
Definition r_no_bound : range := mkRange VNil VNil false false.

(* [3, nil] is reported empty and denotes nothing *)
Example ex_3_nil_ii_empty : range_is_empty r_3_nil_ii = true.
Proof. vm_compute. reflexivity. Qed.
Example ex_3_nil_ii_denotes : map (range_denotes r_3_nil_ii) mgrid_vals = [false; false; false; false; false; false].
Proof. vm_compute. reflexivity. Qed.
(* ... although the scan-set reading would put 5 in it *)
Example ex_3_nil_ii_in_range : in_range r_3_nil_ii (VInt 5) = true.
Proof. vm_compute. reflexivity. Qed.

(* [3, unbounded) denotes 5 and "a" but not 1, and is not reported empty *)
Example ex_3_nil_ie_nonempty : range_is_empty r_3_nil_ie = false.
Proof. vm_compute. reflexivity. Qed.
Example ex_3_nil_ie_5 : range_denotes r_3_nil_ie (VInt 5) = true.
Proof. vm_compute. reflexivity. Qed.
Example ex_3_nil_ie_a : range_denotes r_3_nil_ie (VStr [97%N]) = true.
Proof. vm_compute. reflexivity. Qed.
Example ex_3_nil_ie_1 : range_denotes r_3_nil_ie (VInt 1) = false.
Proof. vm_compute. reflexivity. Qed.
Example ex_3_nil_ie_denotes : map (range_denotes r_3_nil_ie) mgrid_vals = [false; false; true; true; true; true].
Proof. vm_compute. reflexivity. Qed.

(* the nil-only range denotes exactly nil, and is not reported empty *)
Example ex_nil_only_nonempty : range_is_empty r_nil_only = false.
Proof. vm_compute. reflexivity. Qed.
Example ex_nil_only_denotes : map (range_denotes r_nil_only) mgrid_vals = [true; false; false; false; false; false].
Proof. vm_compute. reflexivity. Qed.
Theorem nil_only_denotes_exactly_nil : forall v, range_denotes r_nil_only v = true <-> v = VNil.
Proof.
  intros v. unfold r_nil_only, range_denotes, lower_ok, upper_ok. simpl.
  rewrite ge_nil, le_nil_eq. simpl. rewrite is_eq_iff. apply compare_nil_eq.
Qed.

(* the C17 domain contains these three ranges and not the range with no bound at all *)
Example ex_c17_3_nil_ii : c17_range r_3_nil_ii = true.
Proof. vm_compute. reflexivity. Qed.
Example ex_c17_3_nil_ie : c17_range r_3_nil_ie = true.
Proof. vm_compute. reflexivity. Qed.
Example ex_c17_nil_only : c17_range r_nil_only = true.
Proof. vm_compute. reflexivity. Qed.
Example ex_c17_no_bound : c17_range r_no_bound = false.
Proof. vm_compute. reflexivity. Qed.
Example ex_no_bound_empty : range_is_empty r_no_bound = true.
Proof. vm_compute. reflexivity. Qed.
Example ex_no_bound_denotes : map (range_denotes r_no_bound) mgrid_vals = [true; true; true; true; true; true].
Proof. vm_compute. reflexivity. Qed.

(* ------------------------------------------------------------------ *)

Print Assumptions empty_sound_full_refuted.
Print Assumptions empty_sound_bounded_somewhere.
Print Assumptions empty_sound_c17.
Print Assumptions denotes_in_range.
Print Assumptions in_range_denotes_c17.
Print Assumptions in_range_denotes_refuted.
Print Assumptions scan_exact_c17.
Print Assumptions intersect_sound_denotes.

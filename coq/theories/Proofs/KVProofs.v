(* Finite-map and ordered-cursor theory of the store model (Model/KV.v).

   The store [kv] is an association list kept sorted by key (strictly increasing in [lex]).
   The value type plays no role in any proof below.

   Sections:
     0. generic list helpers, extra [lex] facts
     1. sortedness invariant: [kv_set] / [kv_del] preserve it
     2. map laws (all four hold WITHOUT sortedness)
     3. membership, key uniqueness
     4. extensionality
     5. algebra of [kv_set] / [kv_del]
     6. forward cursors
     7. prefix scans (forward)
     8. reverse cursors and reverse prefix scans
     9. non-vacuity examples and counterexamples
*)
From Clover Require Import KV BytesProofs.
From Coq Require Import Sorted Lia.

Arguments N.compare : simpl never.
Arguments N.eqb : simpl never.

(* ------------------------------------------------------------------ *)
(* 0. helpers                                                          *)
(* ------------------------------------------------------------------ *)

Lemma filter_all : forall {A} (f : A -> bool) l,
  Forall (fun x => f x = true) l -> filter f l = l.
Proof.
  intros A f l H. induction H as [|x l Hx Hl IH]; simpl; [reflexivity|].
  rewrite Hx, IH. reflexivity.
Qed.

Lemma filter_none : forall {A} (f : A -> bool) l,
  Forall (fun x => f x = false) l -> filter f l = [].
Proof.
  intros A f l H. induction H as [|x l Hx Hl IH]; simpl; [reflexivity|].
  rewrite Hx, IH. reflexivity.
Qed.

Lemma filter_rev_comm : forall {A} (f : A -> bool) l, filter f (rev l) = rev (filter f l).
Proof.
  intros A f l. induction l as [|x l IH]; simpl; [reflexivity|].
  rewrite filter_app, IH. simpl. destruct (f x); simpl; [reflexivity | apply app_nil_r].
Qed.

Lemma SSorted_app_iff : forall {A} (R : A -> A -> Prop) a b,
  StronglySorted R (a ++ b) <->
  StronglySorted R a /\ StronglySorted R b /\ Forall (fun x => Forall (R x) b) a.
Proof.
  intros A R a b. induction a as [|x a IH]; simpl.
  - split.
    + intros H. split; [constructor | split; [exact H | constructor]].
    + intros (_ & H & _). exact H.
  - split.
    + intros H. inversion H as [|? ? Hs Hf]; subst.
      apply IH in Hs. destruct Hs as (Ha & Hb & Hab).
      apply Forall_app in Hf. destruct Hf as [Hfa Hfb].
      split; [constructor; assumption | split; [assumption | constructor; assumption]].
    + intros (Ha & Hb & Hab).
      inversion Ha as [|? ? Ha' Hfa]; subst. inversion Hab as [|? ? Hxb Hab']; subst.
      constructor.
      * apply IH. split; [assumption | split; assumption].
      * apply Forall_app. split; assumption.
Qed.

Lemma SSorted_rev : forall {A} (R : A -> A -> Prop) l,
  StronglySorted R l -> StronglySorted (fun a b => R b a) (rev l).
Proof.
  intros A R l H. induction H as [|x l Hs IH Hf]; simpl; [constructor|].
  apply SSorted_app_iff. split; [exact IH | split].
  - constructor; constructor.
  - apply Forall_rev. eapply Forall_impl; [|exact Hf].
    intros y Hy. constructor; [exact Hy | constructor].
Qed.

(* extra lex facts *)
Lemma lex_lt_beqb_false : forall a b, lex a b = Lt -> beqb a b = false.
Proof. intros a b H. unfold beqb. rewrite H. reflexivity. Qed.

Lemma lex_gt_beqb_false : forall a b, lex a b = Gt -> beqb a b = false.
Proof. intros a b H. unfold beqb. rewrite H. reflexivity. Qed.

Lemma lex_ge_lt : forall a b t, lex a t <> Lt -> lex a b = Lt -> lex b t <> Lt.
Proof. intros a b t H1 H2 H3. apply H1. eapply lex_lt_trans; eauto. Qed.

Lemma lex_le_gt : forall a b t, lex t a <> Lt -> lex b a = Lt -> lex t b <> Lt.
Proof. intros a b t H1 H2 H3. apply H1. eapply lex_lt_trans; eauto. Qed.

Lemma lex_not_lt_not_gt : forall a b, lex a b <> Lt <-> lex b a <> Gt.
Proof. intros a b. rewrite (lex_gt_lt b a). tauto. Qed.

(* ------------------------------------------------------------------ *)
(* 1. the sortedness invariant                                         *)
(* ------------------------------------------------------------------ *)

Definition kv_sorted (s : kv) : Prop :=
  StronglySorted (fun a b => lex (fst a) (fst b) = Lt) s.

(* the order of a reverse cursor *)
Definition kv_sorted_desc (c : cursor) : Prop :=
  StronglySorted (fun a b => lex (fst b) (fst a) = Lt) c.

Lemma kv_sorted_nil : kv_sorted [].
Proof. constructor. Qed.

Lemma kv_sorted_cons_inv : forall e t,
  kv_sorted (e :: t) -> kv_sorted t /\ Forall (fun x => lex (fst e) (fst x) = Lt) t.
Proof. intros e t H. inversion H; subst. split; assumption. Qed.

Lemma kv_sorted_cons : forall e t,
  kv_sorted t -> Forall (fun x => lex (fst e) (fst x) = Lt) t -> kv_sorted (e :: t).
Proof. intros e t H1 H2. constructor; assumption. Qed.

Lemma kv_sorted_app_iff : forall a b,
  kv_sorted (a ++ b) <->
  kv_sorted a /\ kv_sorted b /\ Forall (fun x => Forall (fun y => lex (fst x) (fst y) = Lt) b) a.
Proof. intros a b. unfold kv_sorted. apply SSorted_app_iff. Qed.

Lemma kv_sorted_rev : forall s, kv_sorted s -> kv_sorted_desc (rev s).
Proof. intros s H. unfold kv_sorted_desc. apply (SSorted_rev _ _ H). Qed.

Lemma kv_set_Forall : forall (P : bytes * sval -> Prop) k v s,
  P (k, v) -> Forall P s -> Forall P (kv_set k v s).
Proof.
  intros P k v s Hp H. induction H as [|[k' v'] t Hh Ht IH]; simpl.
  - constructor; [exact Hp | constructor].
  - destruct (lex k k').
    + constructor; assumption.
    + constructor; [exact Hp | constructor; assumption].
    + constructor; assumption.
Qed.

Lemma kv_del_Forall : forall (P : bytes * sval -> Prop) k s,
  Forall P s -> Forall P (kv_del k s).
Proof.
  intros P k s H. induction H as [|[k' v'] t Hh Ht IH]; simpl; [constructor|].
  destruct (beqb k k'); [assumption | constructor; assumption].
Qed.

Lemma kv_set_In : forall k v s e, In e (kv_set k v s) -> e = (k, v) \/ In e s.
Proof.
  intros k v s e. induction s as [|[k' v'] t IH]; simpl.
  - intros [H|[]]. left. symmetry. exact H.
  - destruct (lex k k'); simpl.
    + intros [H|H]; [left; symmetry; exact H | right; right; exact H].
    + intros [H|[H|H]]; [left; symmetry; exact H | right; left; exact H | right; right; exact H].
    + intros [H|H]; [right; left; exact H|]. apply IH in H. destruct H; [left | right; right]; assumption.
Qed.

Lemma kv_del_In : forall k s e, In e (kv_del k s) -> In e s.
Proof.
  intros k s e. induction s as [|[k' v'] t IH]; simpl; [tauto|].
  destruct (beqb k k'); simpl; [intros H; right; auto|].
  intros [H|H]; [left; exact H | right; auto].
Qed.

Theorem kv_set_sorted : forall k v s, kv_sorted s -> kv_sorted (kv_set k v s).
Proof.
  intros k v s. induction s as [|[k' v'] t IH]; intros H; simpl.
  - constructor; constructor.
  - apply kv_sorted_cons_inv in H. destruct H as [Ht Hf]. simpl in Hf.
    destruct (lex k k') eqn:E.
    + apply lex_eq_iff in E. subst k'. apply kv_sorted_cons; assumption.
    + apply kv_sorted_cons.
      * apply kv_sorted_cons; assumption.
      * constructor; [exact E|]. eapply Forall_impl; [|exact Hf].
        simpl. intros a Ha. eapply lex_lt_trans; eauto.
    + apply kv_sorted_cons; [apply IH; exact Ht|].
      apply kv_set_Forall; [simpl; apply lex_gt_lt; exact E | exact Hf].
Qed.

Theorem kv_del_sorted : forall k s, kv_sorted s -> kv_sorted (kv_del k s).
Proof.
  intros k s. induction s as [|[k' v'] t IH]; intros H; simpl; [constructor|].
  apply kv_sorted_cons_inv in H. destruct H as [Ht Hf].
  destruct (beqb k k'); [auto|].
  apply kv_sorted_cons; [auto | apply kv_del_Forall; exact Hf].
Qed.

(* ------------------------------------------------------------------ *)
(* 2. map laws. None of the four needs sortedness.                     *)
(* ------------------------------------------------------------------ *)

(* sortedness is NOT needed: kv_set walks past keys strictly below k only *)
Theorem kv_get_set_same_nosort : forall k v s, kv_get k (kv_set k v s) = Some v.
Proof.
  intros k v s. induction s as [|[k' v'] t IH]; simpl.
  - rewrite beqb_refl. reflexivity.
  - destruct (lex k k') eqn:E; simpl.
    + rewrite beqb_refl. reflexivity.
    + rewrite beqb_refl. reflexivity.
    + rewrite (lex_gt_beqb_false _ _ E). exact IH.
Qed.

(* the requested signature (the hypothesis is unused) *)
Theorem kv_get_set_same : forall k v s, kv_sorted s -> kv_get k (kv_set k v s) = Some v.
Proof. intros k v s _. apply kv_get_set_same_nosort. Qed.

Theorem kv_get_set_other : forall k k' v s, k <> k' -> kv_get k' (kv_set k v s) = kv_get k' s.
Proof.
  intros k k' v s Hne.
  assert (Hb : beqb k' k = false) by (apply beqb_false_iff; congruence).
  induction s as [|[k0 v0] t IH]; simpl.
  - rewrite Hb. reflexivity.
  - destruct (lex k k0) eqn:E; simpl.
    + apply lex_eq_iff in E. subst k0. rewrite Hb. reflexivity.
    + rewrite Hb. reflexivity.
    + destruct (beqb k' k0); [reflexivity | exact IH].
Qed.

Theorem kv_get_del_same : forall k s, kv_get k (kv_del k s) = None.
Proof.
  intros k s. induction s as [|[k0 v0] t IH]; simpl; [reflexivity|].
  destruct (beqb k k0) eqn:E; simpl; [exact IH | rewrite E; exact IH].
Qed.

Theorem kv_get_del_other : forall k k' s, k <> k' -> kv_get k' (kv_del k s) = kv_get k' s.
Proof.
  intros k k' s Hne. induction s as [|[k0 v0] t IH]; simpl; [reflexivity|].
  destruct (beqb k k0) eqn:E.
  - apply beqb_true_iff in E. subst k0.
    rewrite (proj2 (beqb_false_iff k' k)) by congruence. exact IH.
  - simpl. destruct (beqb k' k0); [reflexivity | exact IH].
Qed.

(* ------------------------------------------------------------------ *)
(* 3. membership                                                       *)
(* ------------------------------------------------------------------ *)

Lemma kv_get_lt_none : forall k s,
  Forall (fun e => lex k (fst e) = Lt) s -> kv_get k s = None.
Proof.
  intros k s H. induction H as [|[k0 v0] t Hh Ht IH]; simpl; [reflexivity|].
  simpl in Hh. rewrite (lex_lt_beqb_false _ _ Hh). exact IH.
Qed.

(* the forward half needs no sortedness *)
Lemma kv_get_some_in : forall k v s, kv_get k s = Some v -> In (k, v) s.
Proof.
  intros k v s. induction s as [|[k0 v0] t IH]; simpl; [discriminate|].
  destruct (beqb k k0) eqn:E.
  - apply beqb_true_iff in E. subst k0. intros H. inversion H; subst. left. reflexivity.
  - intros H. right. apply IH. exact H.
Qed.

Theorem kv_get_in : forall k v s, kv_sorted s -> (kv_get k s = Some v <-> In (k, v) s).
Proof.
  intros k v s. induction s as [|[k' v'] t IH]; intros Hs; simpl.
  - split; [discriminate | tauto].
  - apply kv_sorted_cons_inv in Hs. destruct Hs as [Ht Hf]. simpl in Hf. specialize (IH Ht).
    destruct (beqb k k') eqn:E.
    + apply beqb_true_iff in E. subst k'. split.
      * intros H. inversion H; subst. left. reflexivity.
      * intros [H|H]; [inversion H; reflexivity|]. exfalso.
        rewrite Forall_forall in Hf. apply Hf in H. simpl in H. rewrite lex_refl in H. discriminate.
    + rewrite IH. split; [tauto|]. intros [H|H]; [|exact H].
      inversion H; subst. rewrite beqb_refl in E. discriminate.
Qed.

Theorem kv_get_none_iff : forall k s, kv_get k s = None <-> ~ In k (map fst s).
Proof.
  intros k s. induction s as [|[k' v'] t IH]; simpl.
  - tauto.
  - destruct (beqb k k') eqn:E.
    + apply beqb_true_iff in E. subst k'. split; [discriminate | intros H; exfalso; apply H; left; reflexivity].
    + apply beqb_false_iff in E. rewrite IH. split.
      * intros H [H1|H1]; [congruence | contradiction].
      * intros H H1. apply H. right. exact H1.
Qed.

Theorem kv_sorted_NoDup : forall s, kv_sorted s -> NoDup (map fst s).
Proof.
  intros s. induction s as [|e t IH]; intros Hs; simpl; [constructor|].
  apply kv_sorted_cons_inv in Hs. destruct Hs as [Ht Hf]. constructor; [|auto].
  intros Hin. apply in_map_iff in Hin. destruct Hin as (x & Hx & Hin).
  rewrite Forall_forall in Hf. apply Hf in Hin. rewrite Hx, lex_refl in Hin. discriminate.
Qed.

(* ------------------------------------------------------------------ *)
(* 4. extensionality                                                   *)
(* ------------------------------------------------------------------ *)

Theorem kv_ext : forall s1 s2, kv_sorted s1 -> kv_sorted s2 ->
  (forall k, kv_get k s1 = kv_get k s2) -> s1 = s2.
Proof.
  induction s1 as [|[k1 v1] t1 IH]; intros [|[k2 v2] t2] H1 H2 H.
  - reflexivity.
  - specialize (H k2). simpl in H. rewrite beqb_refl in H. discriminate.
  - specialize (H k1). simpl in H. rewrite beqb_refl in H. discriminate.
  - apply kv_sorted_cons_inv in H1. apply kv_sorted_cons_inv in H2.
    destruct H1 as [S1 F1]. destruct H2 as [S2 F2]. simpl in F1, F2.
    destruct (lex k1 k2) eqn:E.
    + apply lex_eq_iff in E. subst k2.
      assert (v1 = v2).
      { specialize (H k1). simpl in H. rewrite beqb_refl in H. congruence. }
      subst v2. f_equal. apply IH; auto.
      intros k. specialize (H k). simpl in H. destruct (beqb k k1) eqn:Ek; [|exact H].
      apply beqb_true_iff in Ek. subst k. rewrite !kv_get_lt_none; auto.
    + exfalso. specialize (H k1). simpl in H. rewrite beqb_refl in H.
      rewrite (lex_lt_beqb_false _ _ E) in H.
      rewrite kv_get_lt_none in H; [discriminate|].
      eapply Forall_impl; [|exact F2]. intros a Ha. simpl in *. eapply lex_lt_trans; eauto.
    + apply lex_gt_lt in E.
      exfalso. specialize (H k2). simpl in H. rewrite beqb_refl in H.
      rewrite (lex_lt_beqb_false _ _ E) in H.
      rewrite kv_get_lt_none in H; [discriminate|].
      eapply Forall_impl; [|exact F1]. intros a Ha. simpl in *. eapply lex_lt_trans; eauto.
Qed.

(* the raw dump is a function of the lookup behaviour, and conversely *)
Corollary kv_ext_iff : forall s1 s2, kv_sorted s1 -> kv_sorted s2 ->
  ((forall k, kv_get k s1 = kv_get k s2) <-> s1 = s2).
Proof. intros s1 s2 H1 H2. split; [apply kv_ext; assumption | intros ->; reflexivity]. Qed.

(* ------------------------------------------------------------------ *)
(* 5. algebra of set / del                                             *)
(* ------------------------------------------------------------------ *)

(* no sortedness needed *)
Theorem kv_del_absent_nosort : forall k s, kv_get k s = None -> kv_del k s = s.
Proof.
  intros k s. induction s as [|[k0 v0] t IH]; simpl; [reflexivity|].
  destruct (beqb k k0); [discriminate|]. intros H. f_equal. apply IH. exact H.
Qed.

Theorem kv_del_absent : forall k s, kv_sorted s -> kv_get k s = None -> kv_del k s = s.
Proof. intros k s _. apply kv_del_absent_nosort. Qed.

(* no sortedness needed *)
Theorem kv_set_idem : forall k v v' s, kv_set k v (kv_set k v' s) = kv_set k v s.
Proof.
  intros k v v' s. induction s as [|[k0 v0] t IH]; simpl.
  - rewrite lex_refl. reflexivity.
  - destruct (lex k k0) eqn:E; simpl.
    + rewrite lex_refl. reflexivity.
    + rewrite lex_refl. reflexivity.
    + rewrite E. f_equal. exact IH.
Qed.

(* case analysis on equality of keys *)
Ltac key_cases q k E :=
  destruct (beqb q k) eqn:E;
  [apply beqb_true_iff in E; try subst q | apply beqb_false_iff in E].

Theorem kv_del_set_other : forall k k' v s, k <> k' -> kv_sorted s ->
  kv_del k (kv_set k' v s) = kv_set k' v (kv_del k s).
Proof.
  intros k k' v s Hne Hs. apply kv_ext.
  - apply kv_del_sorted, kv_set_sorted, Hs.
  - apply kv_set_sorted, kv_del_sorted, Hs.
  - intros q. key_cases q k E.
    + rewrite kv_get_del_same, kv_get_set_other by congruence. rewrite kv_get_del_same. reflexivity.
    + rewrite kv_get_del_other by congruence. key_cases q k' E'.
      * rewrite !kv_get_set_same_nosort. reflexivity.
      * rewrite !kv_get_set_other by congruence. rewrite kv_get_del_other by congruence. reflexivity.
Qed.

Theorem kv_set_del_comm : forall k k' v s, k <> k' -> kv_sorted s ->
  kv_set k' v (kv_del k s) = kv_del k (kv_set k' v s).
Proof. intros. symmetry. apply kv_del_set_other; assumption. Qed.

Theorem kv_set_set_other : forall k k' v v' s, k <> k' -> kv_sorted s ->
  kv_set k v (kv_set k' v' s) = kv_set k' v' (kv_set k v s).
Proof.
  intros k k' v v' s Hne Hs. apply kv_ext.
  - apply kv_set_sorted, kv_set_sorted, Hs.
  - apply kv_set_sorted, kv_set_sorted, Hs.
  - intros q. key_cases q k E.
    + rewrite kv_get_set_same_nosort, kv_get_set_other by congruence.
      rewrite kv_get_set_same_nosort. reflexivity.
    + rewrite kv_get_set_other by congruence. key_cases q k' E'.
      * rewrite !kv_get_set_same_nosort. reflexivity.
      * rewrite !kv_get_set_other by congruence. reflexivity.
Qed.

Theorem kv_del_del_comm : forall k k' s, kv_sorted s ->
  kv_del k (kv_del k' s) = kv_del k' (kv_del k s).
Proof.
  intros k k' s Hs. apply kv_ext.
  - apply kv_del_sorted, kv_del_sorted, Hs.
  - apply kv_del_sorted, kv_del_sorted, Hs.
  - intros q. key_cases q k E.
    + rewrite kv_get_del_same. key_cases k k' E'.
      * rewrite kv_get_del_same. reflexivity.
      * rewrite kv_get_del_other by congruence. rewrite kv_get_del_same. reflexivity.
    + rewrite kv_get_del_other by congruence. key_cases q k' E'.
      * rewrite !kv_get_del_same. reflexivity.
      * rewrite !kv_get_del_other by congruence. reflexivity.
Qed.

Theorem kv_del_idem : forall k s, kv_del k (kv_del k s) = kv_del k s.
Proof. intros k s. apply kv_del_absent_nosort. apply kv_get_del_same. Qed.

(* setting a binding that is already there is the identity *)
Theorem kv_set_get_same : forall k v s, kv_sorted s -> kv_get k s = Some v -> kv_set k v s = s.
Proof.
  intros k v s Hs Hg. apply kv_ext; [apply kv_set_sorted, Hs | exact Hs |].
  intros q. key_cases q k E.
  - rewrite kv_get_set_same_nosort. symmetry. exact Hg.
  - apply kv_get_set_other. congruence.
Qed.

(* delete-then-set is set; set-then-delete is delete *)
Theorem kv_set_del_same : forall k v s, kv_sorted s -> kv_set k v (kv_del k s) = kv_set k v s.
Proof.
  intros k v s Hs. apply kv_ext.
  - apply kv_set_sorted, kv_del_sorted, Hs.
  - apply kv_set_sorted, Hs.
  - intros q. key_cases q k E.
    + rewrite !kv_get_set_same_nosort. reflexivity.
    + rewrite !kv_get_set_other by congruence. apply kv_get_del_other. congruence.
Qed.

Theorem kv_del_set_same : forall k v s, kv_sorted s -> kv_del k (kv_set k v s) = kv_del k s.
Proof.
  intros k v s Hs. apply kv_ext.
  - apply kv_del_sorted, kv_set_sorted, Hs.
  - apply kv_del_sorted, Hs.
  - intros q. key_cases q k E.
    + rewrite !kv_get_del_same. reflexivity.
    + rewrite !kv_get_del_other by congruence. apply kv_get_set_other. congruence.
Qed.

(* a fresh insert followed by a delete restores the store *)
Corollary kv_del_set_fresh : forall k v s, kv_sorted s -> kv_get k s = None ->
  kv_del k (kv_set k v s) = s.
Proof. intros k v s Hs Hn. rewrite kv_del_set_same by exact Hs. apply kv_del_absent_nosort, Hn. Qed.

(* ------------------------------------------------------------------ *)
(* 6. forward cursors                                                  *)
(* ------------------------------------------------------------------ *)

Theorem seek_fwd_split : forall t s, kv_sorted s ->
  exists pre, s = pre ++ seek_fwd t s
    /\ Forall (fun e => lex (fst e) t = Lt) pre
    /\ Forall (fun e => lex (fst e) t <> Lt) (seek_fwd t s).
Proof.
  intros t s. induction s as [|[k v] r IH]; intros Hs.
  - exists []. simpl. repeat split; constructor.
  - apply kv_sorted_cons_inv in Hs. destruct Hs as [Hr Hf]. simpl in Hf.
    simpl. unfold bltb. destruct (lex k t) eqn:E.
    + exists []. split; [reflexivity | split; [constructor|]].
      constructor; [simpl; rewrite E; discriminate|].
      eapply Forall_impl; [|exact Hf]. intros a Ha. simpl in Ha.
      apply (lex_ge_lt k); [rewrite E; discriminate | exact Ha].
    + destruct (IH Hr) as (pre & E1 & E2 & E3).
      exists ((k, v) :: pre). split; [simpl; f_equal; exact E1 | split; [|exact E3]].
      constructor; [exact E | exact E2].
    + exists []. split; [reflexivity | split; [constructor|]].
      constructor; [simpl; rewrite E; discriminate|].
      eapply Forall_impl; [|exact Hf]. intros a Ha. simpl in Ha.
      apply (lex_ge_lt k); [rewrite E; discriminate | exact Ha].
Qed.

Lemma seek_fwd_sorted : forall t s, kv_sorted s -> kv_sorted (seek_fwd t s).
Proof.
  intros t s Hs. destruct (seek_fwd_split t s Hs) as (pre & E & _ & _).
  rewrite E in Hs. apply kv_sorted_app_iff in Hs. tauto.
Qed.

Theorem seek_fwd_spec : forall t s, kv_sorted s ->
  seek_fwd t s = filter (fun e => negb (bltb (fst e) t)) s.
Proof.
  intros t s Hs. destruct (seek_fwd_split t s Hs) as (pre & E & Hp & Hq).
  revert E Hp Hq. generalize (seek_fwd t s). intros suf E Hp Hq. subst s.
  rewrite filter_app, filter_none, filter_all; [reflexivity | |].
  - eapply Forall_impl; [|exact Hq]. intros a Ha. simpl in Ha. unfold bltb.
    destruct (lex (fst a) t); [reflexivity | congruence | reflexivity].
  - eapply Forall_impl; [|exact Hp]. intros a Ha. simpl in Ha. unfold bltb. rewrite Ha. reflexivity.
Qed.

Corollary cursor_seek_fwd_spec : forall t s, kv_sorted s ->
  cursor_seek true t s = filter (fun e => negb (bltb (fst e) t)) s.
Proof. intros. simpl. apply seek_fwd_spec. assumption. Qed.

(* what a forward Seek positions on: the least key >= t, if any *)
Corollary seek_fwd_head : forall t s e c, kv_sorted s -> seek_fwd t s = e :: c ->
  In e s /\ lex (fst e) t <> Lt /\
  (forall e', In e' s -> lex (fst e') t <> Lt -> lex (fst e') (fst e) <> Lt).
Proof.
  intros t s e c Hs He. destruct (seek_fwd_split t s Hs) as (pre & E & Hp & Hq).
  pose proof (seek_fwd_sorted t s Hs) as Hss.
  rewrite He in E, Hq, Hss. inversion Hq as [|e0 l0 Hq1 Hq2]. clear Hq. subst e0 l0.
  apply kv_sorted_cons_inv in Hss. destruct Hss as [_ Hlt].
  split; [rewrite E; apply in_or_app; right; left; reflexivity | split; [exact Hq1|]].
  intros e' Hin Hge. rewrite E in Hin. apply in_app_or in Hin. destruct Hin as [Hin|[Hin|Hin]].
  - rewrite Forall_forall in Hp. apply Hp in Hin. contradiction.
  - subst e'. rewrite lex_refl. discriminate.
  - rewrite Forall_forall in Hlt. apply Hlt in Hin.
    apply lex_gt_lt in Hin. rewrite Hin. discriminate.
Qed.

(* ------------------------------------------------------------------ *)
(* 7. prefix scans                                                     *)
(* ------------------------------------------------------------------ *)

Theorem prefix_ge : forall p k, is_prefix p k = true -> lex k p <> Lt.
Proof.
  intros p k H. apply is_prefix_true_iff in H. destruct H as [r ->].
  rewrite <- (app_nil_r p) at 2. rewrite lex_app_prefix. destruct r; discriminate.
Qed.

Theorem prefix_convex : forall p a b c,
  lex a b <> Gt -> lex b c <> Gt ->
  is_prefix p a = true -> is_prefix p c = true -> is_prefix p b = true.
Proof.
  induction p as [|x p IH]; intros a b c Hab Hbc Ha Hc; [reflexivity|].
  destruct a as [|xa a]; [discriminate|]. destruct c as [|xc c]; [discriminate|].
  simpl in Ha, Hc. apply andb_true_iff in Ha. apply andb_true_iff in Hc.
  destruct Ha as [Ha1 Ha2]. destruct Hc as [Hc1 Hc2].
  apply N.eqb_eq in Ha1. apply N.eqb_eq in Hc1. subst xa xc.
  destruct b as [|y b]; [simpl in Hab; congruence|].
  simpl in Hab, Hbc. simpl.
  destruct (N.compare x y) eqn:E1; [| |congruence].
  - apply N.compare_eq in E1. subst y. rewrite N.compare_refl in Hbc.
    rewrite N.eqb_refl. simpl. eapply IH; eauto.
  - destruct (N.compare y x) eqn:E2; [| |congruence].
    + apply N.compare_eq in E2. subst y. rewrite N.compare_refl in E1. discriminate.
    + rewrite N.compare_lt_iff in E1, E2. lia.
Qed.

(* once a forward scan from p leaves the prefix, no later key has it *)
Theorem prefix_left : forall p k, lex p k <> Gt -> is_prefix p k = false ->
  forall k', is_prefix p k' = true -> lex k' k = Lt.
Proof.
  induction p as [|x p IH]; intros k Hle Hnp k' Hp; [simpl in Hnp; discriminate|].
  destruct k' as [|x' k']; [discriminate|].
  simpl in Hp. apply andb_true_iff in Hp. destruct Hp as [Hp1 Hp2].
  apply N.eqb_eq in Hp1. subst x'.
  destruct k as [|y k]; [simpl in Hle; congruence|].
  simpl in Hle, Hnp. simpl.
  destruct (N.compare x y) eqn:E; [|reflexivity|congruence].
  apply N.compare_eq in E. subst y. rewrite N.eqb_refl in Hnp. simpl in Hnp.
  eapply IH; eauto.
Qed.

(* below p there are no keys with prefix p *)
Lemma lt_not_prefix : forall p k, lex k p = Lt -> is_prefix p k = false.
Proof.
  intros p k H. destruct (is_prefix p k) eqn:E; [|reflexivity].
  apply prefix_ge in E. contradiction.
Qed.

Fixpoint take_prefix (p : bytes) (c : cursor) : cursor :=
  match c with
  | [] => []
  | e :: t => if is_prefix p (fst e) then e :: take_prefix p t else []
  end.

(* on an ascending cursor whose keys are all >= p, reading while the prefix holds = filtering *)
Lemma take_prefix_asc : forall p c, kv_sorted c ->
  Forall (fun e => lex (fst e) p <> Lt) c ->
  take_prefix p c = filter (fun e => is_prefix p (fst e)) c.
Proof.
  intros p c. induction c as [|e c IH]; intros Hs Hge; simpl; [reflexivity|].
  apply kv_sorted_cons_inv in Hs. destruct Hs as [Hc Hf].
  inversion Hge as [|? ? Hge1 Hge2]; subst.
  destruct (is_prefix p (fst e)) eqn:E.
  - f_equal. apply IH; assumption.
  - symmetry. apply filter_none. eapply Forall_impl; [|exact Hf].
    intros a Ha. simpl in Ha. destruct (is_prefix p (fst a)) eqn:Ea; [|reflexivity].
    exfalso. apply lex_not_lt_not_gt in Hge1.
    pose proof (prefix_left p (fst e) Hge1 E (fst a) Ea) as Hlt.
    apply lex_gt_lt in Hlt. congruence.
Qed.

Theorem prefix_scan_spec : forall p s, kv_sorted s ->
  take_prefix p (seek_fwd p s) = filter (fun e => is_prefix p (fst e)) s.
Proof.
  intros p s Hs. destruct (seek_fwd_split p s Hs) as (pre & E & Hp & Hq).
  pose proof (seek_fwd_sorted p s Hs) as Hss.
  revert E Hp Hq Hss. generalize (seek_fwd p s). intros suf E Hp Hq Hss. subst s.
  rewrite filter_app, filter_none.
  - simpl. apply take_prefix_asc; assumption.
  - eapply Forall_impl; [|exact Hp]. intros a Ha. apply lt_not_prefix. exact Ha.
Qed.

(* ------------------------------------------------------------------ *)
(* 8. reverse cursors                                                  *)
(* ------------------------------------------------------------------ *)

Theorem seek_rev_split_desc : forall t c, kv_sorted_desc c ->
  exists pre, c = pre ++ seek_rev t c
    /\ Forall (fun e => lex t (fst e) = Lt) pre
    /\ Forall (fun e => lex t (fst e) <> Lt) (seek_rev t c).
Proof.
  intros t c. induction c as [|[k v] r IH]; intros Hs.
  - exists []. simpl. repeat split; constructor.
  - inversion Hs as [|? ? Hr Hf]; subst. simpl in Hf.
    simpl. unfold bltb. destruct (lex t k) eqn:E.
    + exists []. split; [reflexivity | split; [constructor|]].
      constructor; [simpl; rewrite E; discriminate|].
      eapply Forall_impl; [|exact Hf]. intros a Ha. simpl in Ha.
      apply (lex_le_gt k); [rewrite E; discriminate | exact Ha].
    + destruct (IH Hr) as (pre & E1 & E2 & E3).
      exists ((k, v) :: pre). split; [simpl; f_equal; exact E1 | split; [|exact E3]].
      constructor; [exact E | exact E2].
    + exists []. split; [reflexivity | split; [constructor|]].
      constructor; [simpl; rewrite E; discriminate|].
      eapply Forall_impl; [|exact Hf]. intros a Ha. simpl in Ha.
      apply (lex_le_gt k); [rewrite E; discriminate | exact Ha].
Qed.

Lemma seek_rev_sorted_desc : forall t c, kv_sorted_desc c -> kv_sorted_desc (seek_rev t c).
Proof.
  intros t c Hs. destruct (seek_rev_split_desc t c Hs) as (pre & E & _ & _).
  rewrite E in Hs. apply SSorted_app_iff in Hs. unfold kv_sorted_desc. tauto.
Qed.

Theorem seek_rev_spec_desc : forall t c, kv_sorted_desc c ->
  seek_rev t c = filter (fun e => negb (bltb t (fst e))) c.
Proof.
  intros t c Hs. destruct (seek_rev_split_desc t c Hs) as (pre & E & Hp & Hq).
  revert E Hp Hq. generalize (seek_rev t c). intros suf E Hp Hq. subst c.
  rewrite filter_app, filter_none, filter_all; [reflexivity | |].
  - eapply Forall_impl; [|exact Hq]. intros a Ha. simpl in Ha. unfold bltb.
    destruct (lex t (fst a)); [reflexivity | congruence | reflexivity].
  - eapply Forall_impl; [|exact Hp]. intros a Ha. simpl in Ha. unfold bltb. rewrite Ha. reflexivity.
Qed.

(* the entries with key <= t, in descending order *)
Theorem seek_rev_spec : forall t s, kv_sorted s ->
  seek_rev t (rev s) = rev (filter (fun e => negb (bltb t (fst e))) s).
Proof.
  intros t s Hs. rewrite <- filter_rev_comm. apply seek_rev_spec_desc. apply kv_sorted_rev. exact Hs.
Qed.

Corollary cursor_seek_rev_spec : forall t s, kv_sorted s ->
  cursor_seek false t (rev s) = rev (filter (fun e => negb (bltb t (fst e))) s).
Proof. intros. simpl. apply seek_rev_spec. assumption. Qed.

(* on a descending cursor whose keys are all <= some bound b that itself has the prefix,
   reading while the prefix holds = filtering *)
Lemma take_prefix_desc : forall p b c, kv_sorted_desc c ->
  is_prefix p b = true ->
  Forall (fun e => lex b (fst e) <> Lt) c ->
  take_prefix p c = filter (fun e => is_prefix p (fst e)) c.
Proof.
  intros p b c. induction c as [|e c IH]; intros Hs Hb Hle; simpl; [reflexivity|].
  inversion Hs as [|? ? Hc Hf]; subst.
  inversion Hle as [|? ? Hle1 Hle2]; subst.
  destruct (is_prefix p (fst e)) eqn:E.
  - f_equal. apply IH; assumption.
  - symmetry. apply filter_none. eapply Forall_impl; [|exact Hf].
    intros a Ha. simpl in Ha. destruct (is_prefix p (fst a)) eqn:Ea; [|reflexivity].
    exfalso. apply lex_not_lt_not_gt in Hle1.
    assert (Hab : lex (fst a) (fst e) <> Gt) by (rewrite Ha; discriminate).
    pose proof (prefix_convex p (fst a) (fst e) b Hab Hle1 Ea Hb) as Hpe. congruence.
Qed.

Theorem prefix_scan_rev_spec : forall p s, kv_sorted s ->
  (forall e, In e s -> is_prefix p (fst e) = true -> lex (fst e) (p ++ [255%N]) = Lt) ->
  take_prefix p (seek_rev (p ++ [255%N]) (rev s)) = rev (filter (fun e => is_prefix p (fst e)) s).
Proof.
  intros p s Hs H. rewrite <- filter_rev_comm.
  pose proof (kv_sorted_rev s Hs) as Hd.
  assert (H' : forall e, In e (rev s) -> is_prefix p (fst e) = true -> lex (fst e) (p ++ [255%N]) = Lt).
  { intros e Hin. apply H. apply in_rev. exact Hin. }
  clear H. revert Hd H'. generalize (rev s). clear s Hs. intros c Hd H.
  destruct (seek_rev_split_desc (p ++ [255%N]) c Hd) as (pre & E & Hp & Hq).
  pose proof (seek_rev_sorted_desc (p ++ [255%N]) c Hd) as Hss.
  revert E Hp Hq Hss. generalize (seek_rev (p ++ [255%N]) c). intros suf E Hp Hq Hss. subst c.
  rewrite filter_app, filter_none.
  - simpl. apply (take_prefix_desc p (p ++ [255%N])); [exact Hss | apply is_prefix_app | exact Hq].
  - rewrite Forall_forall in *. intros a Ha.
    destruct (is_prefix p (fst a)) eqn:Ea; [|reflexivity]. exfalso.
    pose proof (H a (in_or_app _ _ _ (or_introl Ha)) Ea) as Hlt.
    apply Hp in Ha. apply lex_gt_lt in Ha. congruence.
Qed.

(* easy sufficient conditions for the hypothesis of prefix_scan_rev_spec *)
Theorem prefix_lt_255 : forall p r,
  (r = [] \/ exists x r', r = x :: r' /\ (x < 255)%N) ->
  lex (p ++ r) (p ++ [255%N]) = Lt.
Proof.
  intros p r H. rewrite lex_app_prefix. destruct H as [->|(x & r' & -> & Hx)]; [reflexivity|].
  simpl. apply N.compare_lt_iff in Hx. rewrite Hx. reflexivity.
Qed.

Corollary prefix_lt_255_key : forall p k,
  is_prefix p k = true -> Forall (fun x => (x < 255)%N) k -> lex k (p ++ [255%N]) = Lt.
Proof.
  intros p k Hp Hk. apply is_prefix_true_iff in Hp. destruct Hp as [r ->].
  apply Forall_app in Hk. destruct Hk as [_ Hr]. apply prefix_lt_255.
  destruct r as [|x r']; [left; reflexivity|].
  right. exists x, r'. inversion Hr; subst. split; [reflexivity | assumption].
Qed.

(* if no key contains the byte 255 (or larger), the reverse prefix scan is exact *)
Corollary prefix_scan_rev_spec_lt255 : forall p s, kv_sorted s ->
  Forall (fun e => Forall (fun x => (x < 255)%N) (fst e)) s ->
  take_prefix p (seek_rev (p ++ [255%N]) (rev s)) = rev (filter (fun e => is_prefix p (fst e)) s).
Proof.
  intros p s Hs Hb. apply prefix_scan_rev_spec; [exact Hs|].
  intros e Hin Hp. apply prefix_lt_255_key; [exact Hp|].
  rewrite Forall_forall in Hb. apply Hb. exact Hin.
Qed.

(* ------------------------------------------------------------------ *)
(* 9. non-vacuity                                                      *)
(* ------------------------------------------------------------------ *)

Definition exk (l : list N) : bytes := l.

(* built by inserting in scrambled order, with one overwrite *)
Definition ex_store : kv :=
  kv_set (exk [1;3]%N) (SMeta 4 [])
  (kv_set (exk [1;2;3]%N) SEmpty
  (kv_set (exk [2]%N) (SMeta 5 [])
  (kv_set (exk [1]%N) (SMeta 1 [])
  (kv_set (exk [1;2]%N) (SMeta 2 [])
  (kv_set (exk [1;3]%N) SEmpty []))))).

Example ex_store_dump : ex_store =
  [ ([1]%N, SMeta 1 []); ([1;2]%N, SMeta 2 []); ([1;2;3]%N, SEmpty);
    ([1;3]%N, SMeta 4 []); ([2]%N, SMeta 5 []) ].
Proof. vm_compute. reflexivity. Qed.

Example ex_store_sorted : kv_sorted ex_store.
Proof. unfold ex_store. repeat apply kv_set_sorted. apply kv_sorted_nil. Qed.

Example ex_get_hit : kv_get [1;3]%N ex_store = Some (SMeta 4 []).
Proof. vm_compute. reflexivity. Qed.

Example ex_get_miss : kv_get [1;2;4]%N ex_store = None.
Proof. vm_compute. reflexivity. Qed.

Example ex_del : kv_del [1;2]%N ex_store =
  [ ([1]%N, SMeta 1 []); ([1;2;3]%N, SEmpty); ([1;3]%N, SMeta 4 []); ([2]%N, SMeta 5 []) ].
Proof. vm_compute. reflexivity. Qed.

Example ex_seek_fwd : seek_fwd [1;2;0]%N ex_store =
  [ ([1;2;3]%N, SEmpty); ([1;3]%N, SMeta 4 []); ([2]%N, SMeta 5 []) ].
Proof. vm_compute. reflexivity. Qed.

Example ex_seek_fwd_filter :
  seek_fwd [1;2;0]%N ex_store = filter (fun e => negb (bltb (fst e) [1;2;0]%N)) ex_store.
Proof. vm_compute. reflexivity. Qed.

Example ex_seek_rev : seek_rev [1;2;9]%N (rev ex_store) =
  [ ([1;2;3]%N, SEmpty); ([1;2]%N, SMeta 2 []); ([1]%N, SMeta 1 []) ].
Proof. vm_compute. reflexivity. Qed.

Example ex_prefix_scan : take_prefix [1;2]%N (seek_fwd [1;2]%N ex_store) =
  [ ([1;2]%N, SMeta 2 []); ([1;2;3]%N, SEmpty) ].
Proof. vm_compute. reflexivity. Qed.

Example ex_prefix_scan_filter :
  take_prefix [1]%N (seek_fwd [1]%N ex_store) = filter (fun e => is_prefix [1]%N (fst e)) ex_store
  /\ length (filter (fun e => is_prefix [1]%N (fst e)) ex_store) = 4%nat.
Proof. vm_compute. split; reflexivity. Qed.

Example ex_prefix_scan_rev : take_prefix [1;2]%N (seek_rev ([1;2] ++ [255])%N (rev ex_store)) =
  [ ([1;2;3]%N, SEmpty); ([1;2]%N, SMeta 2 []) ].
Proof. vm_compute. reflexivity. Qed.

(* the hypothesis of prefix_scan_rev_spec holds of ex_store (via the byte bound) *)
Example ex_store_lt255 : Forall (fun e => Forall (fun x => (x < 255)%N) (fst e)) ex_store.
Proof. rewrite ex_store_dump. repeat constructor. Qed.

(* COUNTEREXAMPLE: without its hypothesis prefix_scan_rev_spec is false.  A key p ++ [255; 0]
   has the prefix p but sorts above p ++ [255], so the reverse seek skips it. *)
Definition ex_store_ff : kv := kv_set [1;2;255;0]%N SEmpty ex_store.

Example ex_store_ff_sorted : kv_sorted ex_store_ff.
Proof. apply kv_set_sorted, ex_store_sorted. Qed.

Example ex_prefix_scan_rev_needs_hyp :
  take_prefix [1;2]%N (seek_rev ([1;2] ++ [255])%N (rev ex_store_ff))
  <> rev (filter (fun e => is_prefix [1;2]%N (fst e)) ex_store_ff).
Proof. vm_compute. discriminate. Qed.

(* COUNTEREXAMPLE: kv_del_set_other needs the invariant (here: a duplicate-free, sorted store) *)
Example ex_del_set_other_needs_sorted :
  let s := [ ([2]%N, SEmpty); ([1]%N, SEmpty) ] in
  kv_del [2]%N (kv_set [1]%N SEmpty s) <> kv_set [1]%N SEmpty (kv_del [2]%N s).
Proof. vm_compute. discriminate. Qed.

(* COUNTEREXAMPLE: kv_ext needs the invariant: same lookups, different dumps *)
Example ex_ext_needs_sorted :
  let s1 := [ ([2]%N, SEmpty); ([1]%N, SEmpty) ] in
  let s2 := [ ([1]%N, SEmpty); ([2]%N, SEmpty) ] in
  (forall k, kv_get k s1 = kv_get k s2) /\ s1 <> s2.
Proof.
  split; [|discriminate]. intros k. simpl.
  destruct (beqb k [2%N]) eqn:E2; destruct (beqb k [1%N]) eqn:E1; try reflexivity.
Qed.

(* ------------------------------------------------------------------ *)
Print Assumptions kv_sorted_nil.
Print Assumptions kv_set_sorted.
Print Assumptions kv_del_sorted.
Print Assumptions kv_get_set_same_nosort.
Print Assumptions kv_get_set_same.
Print Assumptions kv_get_set_other.
Print Assumptions kv_get_del_same.
Print Assumptions kv_get_del_other.
Print Assumptions kv_get_in.
Print Assumptions kv_get_none_iff.
Print Assumptions kv_sorted_NoDup.
Print Assumptions kv_ext.
Print Assumptions kv_del_absent_nosort.
Print Assumptions kv_del_absent.
Print Assumptions kv_del_set_other.
Print Assumptions kv_set_del_comm.
Print Assumptions kv_set_set_other.
Print Assumptions kv_set_idem.
Print Assumptions kv_del_del_comm.
Print Assumptions kv_del_idem.
Print Assumptions kv_set_get_same.
Print Assumptions kv_set_del_same.
Print Assumptions kv_del_set_same.
Print Assumptions kv_del_set_fresh.
Print Assumptions seek_fwd_spec.
Print Assumptions seek_fwd_split.
Print Assumptions seek_fwd_head.
Print Assumptions prefix_ge.
Print Assumptions prefix_convex.
Print Assumptions prefix_left.
Print Assumptions prefix_scan_spec.
Print Assumptions seek_rev_spec_desc.
Print Assumptions seek_rev_spec.
Print Assumptions prefix_scan_rev_spec.
Print Assumptions prefix_lt_255.
Print Assumptions prefix_lt_255_key.
Print Assumptions prefix_scan_rev_spec_lt255.
Print Assumptions kv_ext_iff.
Print Assumptions cursor_seek_fwd_spec.
Print Assumptions cursor_seek_rev_spec.
Print Assumptions seek_rev_split_desc.
Print Assumptions take_prefix_asc.
Print Assumptions take_prefix_desc.
Print Assumptions ex_store_sorted.
Print Assumptions ex_prefix_scan_rev_needs_hyp.

(* C04 / C05 at the level of the refinement invariant: a store failure, or a crash, at ANY store call of ANY
   operation of the API (the multi-transaction composites included) leaves a store that refines a well-formed
   abstract database: documents, index entries, counts and catalog are mutually consistent without any
   rebuild; and the history can go on after a reopen.

   The fault position [Some k] of [fresh_rstate h (Some k)] is global across the transactions of one
   operation ([run_tx] threads [r_fault]); the fault fires in at most one transaction, the transactions
   before it have committed, the one it fires in is atomic, and none runs after it (the composites stop at
   the first error, and a fault that fired is always reported as an error). *)
From Coq Require Import Lia ZArith Bool List Permutation.
Import ListNotations.
From Clover Require Import CompositeSpec HistDom HistoryProofs RProofs OpProofs TxSpec TxProofs CompositeProofs.
Open Scope Z_scope.

(* ------------------------------------------------------------------------------------------ *)
(* 1. one transaction under a pending fault                                                    *)
(* ------------------------------------------------------------------------------------------ *)

(* either the transaction reports an error and the handle is what it was (this covers the fault firing in
   it, at Begin, at any call of the body, or at Commit), or it is the fault-free transaction: same result,
   same handle afterwards, and the fault has not fired *)
Lemma with_tx_fault_cases : forall A (body : M A) k db, good_body body ->
  (is_err (o_res (with_tx body (Some k) db)) = true /\ o_db (with_tx body (Some k) db) = db) \/
  (o_res (with_tx body (Some k) db) = o_res (with_tx body None db) /\
   o_db (with_tx body (Some k) db) = o_db (with_tx body None db) /\
   o_fired (with_tx body (Some k) db) = false).
Proof.
  intros A body k db (CL & K & FS).
  destruct (closed db) eqn:Cl.
  - left. rewrite with_tx_closed by exact Cl. split; reflexivity.
  - destruct ((tick ;;; body) (tx_start (Some k) db)) as [r s] eqn:Eb.
    assert (S0 : sim (tx_start (Some k) db) (tx_start None db)).
    { unfold sim, tx_start; cbn. repeat split; reflexivity. }
    destruct (fsim_begin _ _ K FS _ _ _ _ S0 Eb) as [F | [s2 [E2 S2]]].
    + left.
      assert (E : is_err (o_res (with_tx body (Some k) db)) = true).
      { apply with_tx_fault_reported; [exact K|].
        rewrite (with_tx_open _ _ _ _ _ _ Cl Eb). exact F. }
      split; [exact E|]. apply with_tx_error_no_effect; assumption.
    + right. rewrite (with_tx_open _ _ _ _ _ _ Cl Eb), (with_tx_open _ _ _ _ _ _ Cl E2).
      cbn [o_db o_res o_fired]. destruct S2 as (_ & C2 & _ & F1 & _). rewrite C2.
      split; [reflexivity|]. split; [reflexivity | exact F1].
Qed.

(* a body that never commits leaves the handle as it is, whatever the fault *)
Lemma with_tx_no_commit_db : forall A (body : M A) f db, no_commit body -> o_db (with_tx body f db) = db.
Proof.
  intros A body f db NC.
  destruct (closed db) eqn:Cl.
  - rewrite with_tx_closed by exact Cl. reflexivity.
  - destruct ((tick ;;; body) (tx_start f db)) as [r s] eqn:Eb.
    rewrite (with_tx_open _ _ _ _ _ _ Cl Eb). cbn [o_db].
    assert (NC' : no_commit (tick ;;; body)).
    { apply no_commit_bind; [exact no_commit_tick | intros _; exact NC]. }
    rewrite (NC' _ _ _ Eb). cbn [tx_start committed].
    destruct db as [d cl]. cbn in Cl |- *. rewrite Cl. reflexivity.
Qed.

Lemma run_tx_no_commit_db : forall A (body : M A) st, no_commit body -> r_db (snd (run_tx body st)) = r_db st.
Proof. intros A body st NC. unfold run_tx. cbn [snd r_db]. apply with_tx_no_commit_db. exact NC. Qed.

(* ------------------------------------------------------------------------------------------ *)
(* 2. the running state of an operation under a pending fault against the fault-free one        *)
(* ------------------------------------------------------------------------------------------ *)

(* the fault is still pending in [st1]; [st2] is the fault-free run at the same point *)
Definition rsim (st1 st2 : rstate) : Prop :=
  r_db st1 = r_db st2 /\ (exists k, r_fault st1 = Some k) /\ r_fault st2 = None.

Lemma rsim_fresh : forall h k, rsim (fresh_rstate h (Some k)) (fresh_rstate h None).
Proof. intros h k. unfold rsim, fresh_rstate; cbn. split; [reflexivity|]. split; [exists k|]; reflexivity. Qed.

(* one transaction of an operation: either it reports an error and nothing has changed since the
   fault-free state [st2] (the operation stops here), or it went exactly like the fault-free one and the
   fault is still pending *)
Lemma run_tx_fault_cases : forall A (body : M A) st1 st2, good_body body -> rsim st1 st2 ->
  (is_err (fst (run_tx body st1)) = true /\ r_db (snd (run_tx body st1)) = r_db st2) \/
  (fst (run_tx body st1) = fst (run_tx body st2) /\ rsim (snd (run_tx body st1)) (snd (run_tx body st2))).
Proof.
  intros A body st1 st2 G (Hdb & (k & Hk) & Hn).
  unfold run_tx. cbn [fst snd r_db]. rewrite Hk, Hn, Hdb.
  destruct (with_tx_fault_cases A body k (r_db st2) G) as [(E & D) | (E & D & F)].
  - left. split; assumption.
  - right. split; [exact E|]. unfold rsim. cbn [r_db r_fault]. rewrite F.
    split; [exact D|]. split; [eexists; reflexivity|].
    destruct (o_fired (with_tx body None (r_db st2))); reflexivity.
Qed.

Lemma find_all_op_fault_cases : forall q st1 st2, rsim st1 st2 ->
  (is_err (fst (find_all_op q st1)) = true /\ r_db (snd (find_all_op q st1)) = r_db st2) \/
  (fst (find_all_op q st1) = fst (find_all_op q st2) /\ rsim (snd (find_all_op q st1)) (snd (find_all_op q st2))).
Proof.
  intros q st1 st2 S. unfold find_all_op. destruct (normalize_query q) as [nq|].
  - exact (run_tx_fault_cases _ (find_all_tx nq) st1 st2 (good_find_all_tx nq) S).
  - right. cbn [fst snd]. split; [reflexivity | exact S].
Qed.

Lemma find_all_op_db : forall q st, r_db (snd (find_all_op q st)) = r_db st.
Proof.
  intros q st. unfold find_all_op. destruct (normalize_query q) as [nq|]; [|reflexivity].
  apply run_tx_no_commit_db. exact (proj1 read_bodies_no_commit nq).
Qed.

Lemma insert_op_fault_cases : forall c docs st1 st2, rsim st1 st2 ->
  (is_err (fst (insert_op c docs st1)) = true /\ r_db (snd (insert_op c docs st1)) = r_db st2) \/
  (fst (insert_op c docs st1) = fst (insert_op c docs st2) /\
   rsim (snd (insert_op c docs st1)) (snd (insert_op c docs st2))).
Proof. intros c docs st1 st2 S. exact (run_tx_fault_cases _ (insert_tx c docs) st1 st2 (good_insert_tx c docs) S). Qed.

(* ------------------------------------------------------------------------------------------ *)
(* 3. the states a composite can leave behind under a fault                                    *)
(* ------------------------------------------------------------------------------------------ *)

Lemma step_create_collection : forall h c,
  snd (step h (OCreateCollection c)) = r_db (snd (run_tx (create_collection_tx c) (fresh_rstate h None))).
Proof.
  intros h c. rewrite step_snd. unfold exec_op.
  destruct (run_tx (create_collection_tx c) (fresh_rstate h None)); reflexivity.
Qed.

(* Export never writes *)
Theorem export_fault_state : forall c st, r_db (snd (exec_op (OExport c) st)) = r_db st.
Proof.
  intros c st. unfold exec_op.
  pose proof (run_tx_no_commit_db _ (has_collection c) st
                (proj1 (proj2 (proj2 read_bodies_no_commit)) c)) as H1.
  destruct (run_tx (has_collection c) st) as [r st1]. cbn [snd] in H1.
  destruct r as [[|]|e]; cbn [snd]; try exact H1.
  pose proof (find_all_op_db (new_query c) st1) as H2.
  destruct (find_all_op (new_query c) st1) as [r2 st2]. cbn [snd] in *. congruence.
Qed.

(* Import: the state before, the state with the new, empty collection, or the state after the import *)
Theorem import_fault_states : forall h c file k,
  r_db (snd (exec_op (OImport c file) (fresh_rstate h (Some k)))) = h \/
  r_db (snd (exec_op (OImport c file) (fresh_rstate h (Some k)))) = snd (step h (OCreateCollection c)) \/
  r_db (snd (exec_op (OImport c file) (fresh_rstate h (Some k)))) = snd (step h (OImport c file)).
Proof.
  intros h c file k. rewrite step_create_collection, step_snd. unfold exec_op.
  destruct file as [| |l]; [left; reflexivity | |].
  - pose proof (run_tx_fault_cases _ (create_collection_tx c) _ _ (good_create_collection_tx c)
                  (rsim_fresh h k)) as H1.
    destruct (run_tx (create_collection_tx c) (fresh_rstate h (Some k))) as [r1 s1].
    destruct (run_tx (create_collection_tx c) (fresh_rstate h None)) as [r1' s1'].
    cbn [fst snd] in H1. destruct H1 as [(E & D) | (E & (D & _))].
    + left. destruct r1 as [u|e]; [discriminate E|]. cbn [snd]. exact D.
    + right; right. subst r1'. destruct r1 as [u|e]; cbn [snd]; exact D.
  - pose proof (run_tx_fault_cases _ (create_collection_tx c) _ _ (good_create_collection_tx c)
                  (rsim_fresh h k)) as H1.
    destruct (run_tx (create_collection_tx c) (fresh_rstate h (Some k))) as [r1 s1].
    destruct (run_tx (create_collection_tx c) (fresh_rstate h None)) as [r1' s1'].
    cbn [fst snd] in H1. destruct H1 as [(E & D) | (E & S1)].
    + left. destruct r1 as [u|e]; [discriminate E|]. cbn [snd]. exact D.
    + subst r1'. destruct r1 as [u|e]; [|right; right; cbn [snd]; exact (proj1 S1)].
      destruct (forallb _ l); [|right; right; cbn [snd]; exact (proj1 S1)].
      match goal with |- context [insert_op c ?d s1] =>
        pose proof (insert_op_fault_cases c d s1 s1' S1) as H2;
        destruct (insert_op c d s1) as [r2 s2]; destruct (insert_op c d s1') as [r2' s2']
      end.
      cbn [fst snd] in *. destruct H2 as [(E2 & D2) | (E2 & (D2 & _))].
      * right; left. exact D2.
      * right; right. exact D2.
Qed.

(* CreateCollectionByQuery: the same three states *)
Theorem create_by_query_fault_states : forall h c q k,
  r_db (snd (exec_op (OCreateByQuery c q) (fresh_rstate h (Some k)))) = h \/
  r_db (snd (exec_op (OCreateByQuery c q) (fresh_rstate h (Some k)))) = snd (step h (OCreateCollection c)) \/
  r_db (snd (exec_op (OCreateByQuery c q) (fresh_rstate h (Some k)))) = snd (step h (OCreateByQuery c q)).
Proof.
  intros h c q k. rewrite step_create_collection, step_snd. unfold exec_op.
  pose proof (run_tx_fault_cases _ (create_collection_tx c) _ _ (good_create_collection_tx c)
                (rsim_fresh h k)) as H1.
  destruct (run_tx (create_collection_tx c) (fresh_rstate h (Some k))) as [r1 s1].
  destruct (run_tx (create_collection_tx c) (fresh_rstate h None)) as [r1' s1'].
  cbn [fst snd] in H1. destruct H1 as [(E & D) | (E & S1)].
  - left. destruct r1 as [u|e]; [discriminate E|]. cbn [snd]. exact D.
  - subst r1'. destruct r1 as [u|e]; [|right; right; cbn [snd]; exact (proj1 S1)].
    pose proof (find_all_op_fault_cases (mk_query q) s1 s1' S1) as H2.
    pose proof (find_all_op_db (mk_query q) s1') as Hq.
    destruct (find_all_op (mk_query q) s1) as [r2 s2].
    destruct (find_all_op (mk_query q) s1') as [r2' s2'].
    cbn [fst snd] in *. destruct H2 as [(E2 & D2) | (E2 & S2)].
    + right; left. destruct r2 as [docs|e]; [discriminate E2|]. cbn [snd]. exact D2.
    + subst r2'. destruct r2 as [[|d docs]|e]; try (right; right; cbn [snd]; exact (proj1 S2)).
      pose proof (insert_op_fault_cases c (d :: docs) s2 s2' S2) as H3.
      destruct (insert_op c (d :: docs) s2) as [r3 s3].
      destruct (insert_op c (d :: docs) s2') as [r3' s3'].
      cbn [fst snd] in *. destruct H3 as [(E3 & D3) | (E3 & (D3 & _))].
      * right; left. congruence.
      * right; right. exact D3.
Qed.

(* ------------------------------------------------------------------------------------------ *)
(* F1: one step, any operation, any fault position                                             *)
(* ------------------------------------------------------------------------------------------ *)
Theorem fault_keeps_refinement : forall db h o k,
  wf_db db -> Rdb' db h -> (closed h = false -> op_dom_all db o) ->
  exists db', wf_db db' /\ Rdb' db' (r_db (snd (exec_op o (fresh_rstate h (Some k))))).
Proof.
  intros db h o k W HR D.
  pose proof (step_preserves_refinement_all db h o W HR D) as Hafter.
  assert (Hbefore : exists db', wf_db db' /\ Rdb' db' h) by (exists db; split; assumption).
  destruct (single_tx o) eqn:S.
  - pose proof (exec_op_crash_atomic o h k S) as H. cbv zeta in H.
    destruct H as [E|E]; rewrite E; assumption.
  - destruct o; try discriminate S.
    + rewrite export_fault_state. exact Hbefore.
    + destruct (import_fault_states h c file k) as [E|[E|E]]; rewrite E; [exact Hbefore | | exact Hafter].
      apply (step_preserves_refinement_all db h (OCreateCollection c) W HR).
      intros C. exact (proj1 (D C)).
    + destruct (create_by_query_fault_states h c q k) as [E|[E|E]]; rewrite E;
        [exact Hbefore | | exact Hafter].
      apply (step_preserves_refinement_all db h (OCreateCollection c) W HR).
      intros C. exact (proj1 (D C)).
    + exists db. split; [exact W | exact HR].
    + exists db. split; [exact W | exact HR].
Qed.

(* ------------------------------------------------------------------------------------------ *)
(* F2: single-transaction operations: exactly before or exactly after                          *)
(* ------------------------------------------------------------------------------------------ *)
Theorem fault_single_tx_before_or_after : forall db h o k,
  wf_db db -> Rdb' db h -> (closed h = false -> op_dom_all db o) -> single_tx o = true ->
  r_db (snd (exec_op o (fresh_rstate h (Some k)))) = h \/
  r_db (snd (exec_op o (fresh_rstate h (Some k)))) = snd (step h o).
Proof. intros db h o k _ _ _ S. exact (exec_op_crash_atomic o h k S). Qed.

(* the same with the abstract states: the one before, or one that the fault-free theorem gives *)
Theorem fault_single_tx_abstract : forall db h o k,
  wf_db db -> Rdb' db h -> (closed h = false -> op_dom_all db o) -> single_tx o = true ->
  Rdb' db (r_db (snd (exec_op o (fresh_rstate h (Some k))))) \/
  (r_db (snd (exec_op o (fresh_rstate h (Some k)))) = snd (step h o) /\
   exists db', wf_db db' /\ Rdb' db' (snd (step h o))).
Proof.
  intros db h o k W HR D S.
  destruct (exec_op_crash_atomic o h k S) as [E|E].
  - left. rewrite E. exact HR.
  - right. split; [exact E|]. exact (step_preserves_refinement_all db h o W HR D).
Qed.

(* ------------------------------------------------------------------------------------------ *)
(* F3: after any history, a fault at any call of any next operation                            *)
(* ------------------------------------------------------------------------------------------ *)
Lemma hist_dom_all_app : forall l1 l2 h,
  hist_dom_all h (l1 ++ l2) <-> hist_dom_all h l1 /\ hist_dom_all (snd (run_ops h l1)) l2.
Proof.
  induction l1 as [|o t IH]; intros l2 h.
  - cbn [app hist_dom_all run_ops snd]. tauto.
  - cbn [app hist_dom_all]. rewrite HistoryProofs.run_ops_cons. rewrite IH. tauto.
Qed.

(* the state reached by a history in the domain, and the next operation in its domain *)
Lemma history_then_op : forall ops o, hist_dom_all empty_db (ops ++ [o]) ->
  exists db, wf_db db /\ Rdb' db (snd (run_ops empty_db ops)) /\
             (closed (snd (run_ops empty_db ops)) = false -> op_dom_all db o).
Proof.
  intros ops o HD. apply hist_dom_all_app in HD. destruct HD as (HD1 & HD2).
  destruct (history_invariant_all ops HD1) as (db & W & HR).
  exists db. split; [exact W|]. split; [exact HR|].
  intros C. destruct HD2 as (Ho & _). apply Ho; [exact W|]. split; assumption.
Qed.

Theorem fault_after_history_keeps_invariant : forall ops o k,
  hist_dom_all empty_db (ops ++ [o]) ->
  exists db, wf_db db /\
    R db (durable (r_db (snd (exec_op o (fresh_rstate (snd (run_ops empty_db ops)) (Some k)))))).
Proof.
  intros ops o k HD. destruct (history_then_op ops o HD) as (db & W & HR & D).
  exact (fault_keeps_refinement db _ o k W HR D).
Qed.

(* ------------------------------------------------------------------------------------------ *)
(* F4: reopen after the crash and continue                                                     *)
(* ------------------------------------------------------------------------------------------ *)
Lemma step_reopen : forall h, snd (step h OReopen) = mkDb (durable h) false.
Proof. intros h. rewrite step_snd. reflexivity. Qed.

Theorem history_continues_after_fault : forall ops o k ops',
  hist_dom_all empty_db (ops ++ [o]) ->
  let h' := r_db (snd (exec_op o (fresh_rstate (snd (run_ops empty_db ops)) (Some k)))) in
  hist_dom_all (snd (step h' OReopen)) ops' ->
  exists db, wf_db db /\ R db (durable (snd (run_ops (snd (step h' OReopen)) ops'))).
Proof.
  intros ops o k ops' HD h' HD'.
  destruct (fault_after_history_keeps_invariant ops o k HD) as (db & W & HR). fold h' in HR.
  apply (history_invariant_all_from ops' (snd (step h' OReopen)) db W); [|exact HD'].
  unfold Rdb'. rewrite step_reopen. cbn [durable]. exact HR.
Qed.

(* ------------------------------------------------------------------------------------------ *)
(* F5: a fault that fired is reported, for every operation                                     *)
(* ------------------------------------------------------------------------------------------ *)
Theorem fault_fired_reported_all : forall h o k,
  r_fired (snd (exec_op o (fresh_rstate h (Some k)))) = true ->
  T_is_err (fst (exec_op o (fresh_rstate h (Some k)))) = true.
Proof. intros h o k F. exact (exec_op_fault_reported o (fresh_rstate h (Some k)) eq_refl F). Qed.

(* ------------------------------------------------------------------------------------------ *)
(* F6: non-vacuity on the example history of CompositeProofs.v                                 *)
(* ------------------------------------------------------------------------------------------ *)
(* the first three operations of [ex_ops] (collection "t" with two documents, exported), then the import of
   the two-document file [k_file] under the new name "u" *)
Local Notation x_pre := [OCreateCollection ex_c; OInsert ex_c [k_d1; k_d2] []; OExport ex_c] (only parsing).
Local Notation x_imp := (OImport k_c2 k_file) (only parsing).
Local Notation x_h := (snd (run_ops empty_db x_pre)) (only parsing).
Local Notation x_at k := (durable (r_db (snd (exec_op x_imp (fresh_rstate x_h (Some k)))))) (only parsing).

Example x_pre_is_prefix : firstn 4 ex_ops = x_pre ++ [x_imp].
Proof. reflexivity. Qed.

Example x_in_domain : hist_dom_all empty_db (x_pre ++ [x_imp]).
Proof. apply hist_domb_all_sound. vm_compute. reflexivity. Qed.

(* the fault-free import makes 12 store calls: Begin, Get, Set, Commit of the creation, then 8 of the insert *)
Example x_calls : r_calls (snd (exec_op x_imp (fresh_rstate x_h None))) = 12%nat.
Proof. vm_compute. reflexivity. Qed.

(* the three stores *)
Local Notation x_before :=
  [ (doc_key ex_c ex_id1, SDoc (doc_encode k_d1));
    (doc_key ex_c ex_id2, SDoc (doc_encode k_d2));
    (coll_key ex_c, SMeta 2 []) ] (only parsing).
Local Notation x_empty :=
  [ (doc_key ex_c ex_id1, SDoc (doc_encode k_d1));
    (doc_key ex_c ex_id2, SDoc (doc_encode k_d2));
    (coll_key ex_c, SMeta 2 []);
    (coll_key k_c2, SMeta 0 []) ] (only parsing).
Local Notation x_after :=
  [ (doc_key ex_c ex_id1, SDoc (doc_encode k_d1));
    (doc_key ex_c ex_id2, SDoc (doc_encode k_d2));
    (doc_key k_c2 ex_id1,
     SDoc (doc_encode [(id_field, VStr ex_id1); (ex_f, VFloat (Float64.of_Z 5)); (k_ts, VStr [84%N])]));
    (doc_key k_c2 ex_id2, SDoc (doc_encode [(id_field, VStr ex_id2); (ex_f, VFloat (Float64.of_Z 1))]));
    (coll_key ex_c, SMeta 2 []);
    (coll_key k_c2, SMeta 2 []) ] (only parsing).

Example x_states :
  durable x_h = x_before /\
  durable (snd (step x_h (OCreateCollection k_c2))) = x_empty /\
  durable (snd (step x_h x_imp)) = x_after.
Proof. repeat split; vm_compute; reflexivity. Qed.

(* the table: calls 0..3 are the creating transaction, 4..11 the inserting one, 12 is past the end *)
Example x_fault_table :
  map (fun k => x_at k) (seq 0 13) =
    [ x_before; x_before; x_before; x_before;
      x_empty; x_empty; x_empty; x_empty; x_empty; x_empty; x_empty; x_empty;
      x_after ].
Proof. vm_compute. reflexivity. Qed.

Example x_fault_each_one_of_three : forall k, (k <= 12)%nat ->
  x_at k = x_before \/ x_at k = x_empty \/ x_at k = x_after.
Proof.
  intros k Hk.
  do 4 (destruct k as [|k]; [left; vm_compute; reflexivity|]).
  do 8 (destruct k as [|k]; [right; left; vm_compute; reflexivity|]).
  destruct k as [|k]; [right; right; vm_compute; reflexivity|]. lia.
Qed.

(* whether the fault fired, and the result: an error exactly when it fired *)
Example x_fault_results :
  map (fun k => (r_fired (snd (exec_op x_imp (fresh_rstate x_h (Some k)))),
                 fst (exec_op x_imp (fresh_rstate x_h (Some k))))) (seq 0 13) =
  repeat (true, T_err EStore) 12 ++ [(false, T_ok (TL []))].
Proof. vm_compute. reflexivity. Qed.

(* F3 instantiated at one position of each kind: the abstract database with its collections and sizes *)
Lemma x_sizes : forall db s c n, wf_db db -> R db s ->
  kv_get (coll_key c) s = Some (SMeta (Z.of_nat n) []) ->
  exists sc, assoc c db = Some sc /\ length (sc_docs sc) = n /\ sc_idx sc = [].
Proof.
  intros db s c n W HR E. rewrite (R_get_meta db s c HR W) in E.
  destruct (assoc c db) as [sc|]; [|discriminate E].
  injection E as E1 E2. exists sc. split; [reflexivity|]. split; [lia | exact E2].
Qed.

Example x_fault_in_create_tx : exists db, wf_db db /\ R db (x_at 2%nat) /\
  (exists sc, assoc ex_c db = Some sc /\ length (sc_docs sc) = 2%nat /\ sc_idx sc = []) /\
  assoc k_c2 db = None.
Proof.
  destruct (fault_after_history_keeps_invariant x_pre x_imp 2%nat x_in_domain) as (db & W & HR).
  exists db. split; [exact W|]. split; [exact HR|]. split.
  - apply (x_sizes db _ ex_c 2%nat W HR). vm_compute. reflexivity.
  - pose proof (R_get_meta db _ k_c2 HR W) as E. destruct (assoc k_c2 db); [|reflexivity].
    vm_compute in E. discriminate E.
Qed.

Example x_fault_in_insert_tx : exists db, wf_db db /\ R db (x_at 7%nat) /\
  (exists sc, assoc ex_c db = Some sc /\ length (sc_docs sc) = 2%nat /\ sc_idx sc = []) /\
  (exists sc, assoc k_c2 db = Some sc /\ length (sc_docs sc) = 0%nat /\ sc_idx sc = []).
Proof.
  destruct (fault_after_history_keeps_invariant x_pre x_imp 7%nat x_in_domain) as (db & W & HR).
  exists db. split; [exact W|]. split; [exact HR|]. split.
  - apply (x_sizes db _ ex_c 2%nat W HR). vm_compute. reflexivity.
  - apply (x_sizes db _ k_c2 0%nat W HR). vm_compute. reflexivity.
Qed.

Example x_fault_past_the_end : exists db, wf_db db /\ R db (x_at 12%nat) /\
  (exists sc, assoc ex_c db = Some sc /\ length (sc_docs sc) = 2%nat /\ sc_idx sc = []) /\
  (exists sc, assoc k_c2 db = Some sc /\ length (sc_docs sc) = 2%nat /\ sc_idx sc = []).
Proof.
  destruct (fault_after_history_keeps_invariant x_pre x_imp 12%nat x_in_domain) as (db & W & HR).
  exists db. split; [exact W|]. split; [exact HR|]. split.
  - apply (x_sizes db _ ex_c 2%nat W HR). vm_compute. reflexivity.
  - apply (x_sizes db _ k_c2 2%nat W HR). vm_compute. reflexivity.
Qed.

(* F4 instantiated: after the crash in the inserting transaction, reopen, drop the half-made collection and
   import again *)
Example x_continue_after_fault :
  exists db, wf_db db /\
    R db (durable (snd (run_ops (snd (step (r_db (snd (exec_op x_imp (fresh_rstate x_h (Some 7%nat))))) OReopen))
                                [ODropCollection k_c2; x_imp]))) /\
    (exists sc, assoc k_c2 db = Some sc /\ length (sc_docs sc) = 2%nat /\ sc_idx sc = []).
Proof.
  destruct (history_continues_after_fault x_pre x_imp 7%nat [ODropCollection k_c2; x_imp] x_in_domain)
    as (db & W & HR).
  - apply hist_domb_all_sound. vm_compute. reflexivity.
  - exists db. split; [exact W|]. split; [exact HR|].
    apply (x_sizes db _ k_c2 2%nat W HR). vm_compute. reflexivity.
Qed.

Print Assumptions with_tx_fault_cases.
Print Assumptions run_tx_fault_cases.
Print Assumptions export_fault_state.
Print Assumptions import_fault_states.
Print Assumptions create_by_query_fault_states.
Print Assumptions fault_keeps_refinement.
Print Assumptions fault_single_tx_before_or_after.
Print Assumptions fault_single_tx_abstract.
Print Assumptions hist_dom_all_app.
Print Assumptions fault_after_history_keeps_invariant.
Print Assumptions history_continues_after_fault.
Print Assumptions fault_fired_reported_all.
Print Assumptions x_in_domain.
Print Assumptions x_states.
Print Assumptions x_fault_table.
Print Assumptions x_fault_each_one_of_three.
Print Assumptions x_fault_results.
Print Assumptions x_fault_in_create_tx.
Print Assumptions x_fault_in_insert_tx.
Print Assumptions x_fault_past_the_end.
Print Assumptions x_continue_after_fault.

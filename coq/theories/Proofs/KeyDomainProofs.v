(* The maximal key-order domain.

   clover encodes every number as a float64 inside index keys.  CodeProofs.v proves the key
   laws on [key_dom] (integers within +-2^53).  [small_int] is sufficient but not necessary:
   what matters is that the integer converts to float64 EXACTLY.  This file proves the three
   key laws on the larger domain [key_dom_x] (exactly convertible integers in their Go range)
   and proves that no further integer can be added (with one precisely delimited exception at
   the very top of the uint64 range, see part 6).

   Contents
     1. float64(z) for |z| >= 2^53: shape, range, the integer it denotes, idempotence
     2. X1  exact_int, small_int_exact, examples, round64
     3. X2  key_dom_x, key_dom_key_dom_x
     4. the key laws over an arbitrary integer domain on which float conversion reflects the
        order (Section IntDom): only the numeric leaf law is new, the lifting is the one of
        CodeProofs.v replayed
     5. X3  idx_key_law_x, idx_key_eq_x, idx_key_prefix_free_x
     6. X4  maximality, with the refuted variants
     7. X5  the bridging lemmas ScanProofs.v would need
     8. X6  examples

   Deviations from the task statement (all in X4, each with a machine-checked refutation):
     - the proposed witness b := VFloat (float64 z) never works: [compare] converts an integer
       to float64 before comparing it with a float, so compare (VInt z) (VFloat (of_Z z)) = Eq
       for EVERY z (int_vs_own_float_is_Eq, inexact_int_collides_float_witness_refuted,
       no_float_witness).  For the same reason the new leaf law needs exactness only for
       int/int pairs; int/float and float/float pairs hold for any integer (kd_num_compare).
       The colliding partner is the INTEGER float64(z) denotes, [round64 z]: as VUint when
       z >= 0 (float64(2^63-1) = 2^63 is not an int64), as VInt when z < 0.  With that
       witness X4 holds exactly as stated for VInt (inexact_int_collides).
     - for VUint the statement is false on the 1024 largest uint64 values
       [2^64-1024, 2^64): they round UP to 2^64, which is no uint64, so nothing inside
       key_dom_x shares their key with a different value, and key_dom_x + any ONE of them still
       satisfies all key laws (idx_key_law_x1, inexact_uint_collides_top_refuted; smallest
       counterexample 2^64-1024: inexact_uint_collides_refuted, smallest_uint_counterexample).
       Any two of them collide with each other (top_uints_collide).  Below 2^64-1024 the
       statement holds (inexact_uint_collides).
     - X2 needs the Go ranges of the integers ([num_ok], implied by [wf_value]) and nothing
       else; without them it is false (key_dom_not_key_dom_x_without_range: VUint (-1)). *)
From Coq Require Import Lia ZArith Bool List.
From Clover Require Import Index Domains BytesProofs CompareProofs FloatProofs OrderedCodeProofs CodeProofs.
From Clover Require Import PureRun SortProofs ScanProofs QueryProofs.
Import ListNotations.
Open Scope Z_scope.

Arguments Z.pow : simpl never.
Arguments Z.mul : simpl never.
Arguments Z.div : simpl never.
Arguments Z.modulo : simpl never.
Arguments N.compare : simpl never.
Arguments Z.to_N : simpl never.
Arguments oc_uint64 : simpl never.
Arguments oc_string : simpl never.
Arguments oc_float64 : simpl never.
Arguments of_Z : simpl never.
Arguments of_Z_mag : simpl never.
Arguments fden : simpl never.
Arguments fmag : simpl never.

(* ------------------------------------------------------------------ *)
(* 1. float64(z) for |z| >= 2^53                                       *)
(* ------------------------------------------------------------------ *)

Lemma two53_pow : two53 = 2 ^ 53. Proof. reflexivity. Qed.
Lemma two64_pow : two64 = 2 ^ 64. Proof. reflexivity. Qed.
Lemma two63_pow : two63 = 2 ^ 63. Proof. reflexivity. Qed.
Lemma two64_as_two52 : two64 = 4096 * two52. Proof. reflexivity. Qed.

(* the rounded 53-bit significand of m, where k = log2 m >= 53 *)
Definition rq (m k : Z) : Z :=
  let sh := k - 52 in
  let q := m / 2 ^ sh in
  let r := m mod 2 ^ sh in
  let half := 2 ^ (sh - 1) in
  if (half <? r) || ((r =? half) && Z.odd q) then q + 1 else q.

Lemma log2_ge_53 : forall m, two53 <= m -> 53 <= Z.log2 m.
Proof.
  intros m Hm. change 53 with (Z.log2 two53). apply Z.log2_le_mono. exact Hm.
Qed.

Lemma of_Z_mag_big_eq : forall m, two53 <= m ->
  of_Z_mag m = (1023 + Z.log2 m) * two52 + (rq m (Z.log2 m) - two52).
Proof.
  intros m Hm. pose proof (log2_ge_53 m Hm) as Hk.
  assert (H53 : 0 < two53) by reflexivity.
  unfold of_Z_mag, rq.
  destruct (m =? 0) eqn:E0; [apply Z.eqb_eq in E0; lia|].
  destruct (Z.log2 m <=? 52) eqn:E1; [apply Z.leb_le in E1; lia|].
  reflexivity.
Qed.

Lemma pow_split : forall k, 53 <= k ->
  2 ^ k = two52 * 2 ^ (k - 52) /\ 2 ^ (k + 1) = two53 * 2 ^ (k - 52) /\ 0 < 2 ^ (k - 52).
Proof.
  intros k Hk. split; [|split].
  - rewrite two52_pow, <- Z.pow_add_r by lia. f_equal. lia.
  - rewrite two53_pow, <- Z.pow_add_r by lia. f_equal. lia.
  - apply Z.pow_pos_nonneg; lia.
Qed.

Lemma rq_cases : forall m k, rq m k = m / 2 ^ (k - 52) \/ rq m k = m / 2 ^ (k - 52) + 1.
Proof.
  intros m k. unfold rq. cbv zeta.
  destruct ((2 ^ (k - 52 - 1) <? m mod 2 ^ (k - 52))
            || ((m mod 2 ^ (k - 52) =? 2 ^ (k - 52 - 1)) && Z.odd (m / 2 ^ (k - 52))));
    [right | left]; reflexivity.
Qed.

Lemma q_bounds : forall m k, 53 <= k -> 2 ^ k <= m < 2 ^ (k + 1) ->
  two52 <= m / 2 ^ (k - 52) < two53.
Proof.
  intros m k Hk Hm. destruct (pow_split k Hk) as (E1 & E2 & Hp).
  rewrite E1, E2 in Hm. split.
  - apply Z.div_le_lower_bound; [exact Hp | lia].
  - apply Z.div_lt_upper_bound; [exact Hp | lia].
Qed.

Lemma rq_bounds : forall m k, 53 <= k -> 2 ^ k <= m < 2 ^ (k + 1) ->
  two52 <= rq m k <= two53.
Proof.
  intros m k Hk Hm. pose proof (q_bounds m k Hk Hm) as Hq.
  destruct (rq_cases m k) as [E | E]; rewrite E; lia.
Qed.

Lemma log2_bounds : forall m, 0 < m -> 2 ^ Z.log2 m <= m < 2 ^ (Z.log2 m + 1).
Proof.
  intros m Hm. pose proof (Z.log2_spec m Hm) as H. unfold Z.succ in H. exact H.
Qed.

(* the bit pattern built from exponent 1023+k and a significand in [2^52, 2^53] (the upper end
   carries into the exponent): a non-negative finite pattern denoting q * 2^(k-52) *)
Lemma bits_fmag : forall k q, 53 <= k <= 1022 -> two52 <= q <= two53 ->
  0 <= (1023 + k) * two52 + (q - two52) < two63 /\
  fmag ((1023 + k) * two52 + (q - two52)) = q * 2 ^ (k - 52) * scale1074.
Proof.
  intros k q Hk Hq.
  assert (Hpw : 2 ^ (k - 52) * scale1074 = 2 ^ (1022 + k)).
  { unfold scale1074. rewrite <- Z.pow_add_r by lia. f_equal. lia. }
  pose proof two52_pos as H52. pose proof two53_as_two52 as H53.
  destruct (Z.eq_dec q two53) as [-> | Hne].
  - replace ((1023 + k) * two52 + (two53 - two52)) with ((1024 + k) * two52 + 0)
      by (rewrite two53_as_two52; lia).
    destruct (fields_pos (1024 + k) 0) as (_ & Hx & Hf); [lia | lia |].
    split.
    + rewrite two63_as_two52. nia.
    + rewrite (fmag_fields _ _ _ Hx Hf) by lia.
      rewrite <- Z.mul_assoc, Hpw.
      replace (1024 + k - 1) with (Z.succ (1022 + k)) by lia.
      rewrite Z.pow_succ_r by lia. rewrite two53_as_two52. lia.
  - destruct (fields_pos (1023 + k) (q - two52)) as (_ & Hx & Hf); [lia | lia |].
    split.
    + rewrite two63_as_two52. nia.
    + rewrite (fmag_fields _ _ _ Hx Hf) by lia.
      rewrite <- Z.mul_assoc, Hpw.
      replace (1023 + k - 1) with (1022 + k) by lia.
      f_equal. lia.
Qed.

(* the non-negative integer that float64(m) denotes, for m >= 2^53 *)
Definition rnd_mag (m : Z) : Z := rq m (Z.log2 m) * 2 ^ (Z.log2 m - 52).

Lemma log2_lt_64 : forall m, 0 < m < two64 -> Z.log2 m <= 63.
Proof.
  intros m Hm. assert (Z.log2 m < 64); [|lia].
  apply Z.log2_lt_pow2; [lia|]. change (2 ^ 64) with two64. lia.
Qed.

Lemma of_Z_mag_big : forall m, two53 <= m < two64 ->
  0 <= of_Z_mag m < two63 /\ fmag (of_Z_mag m) = rnd_mag m * scale1074.
Proof.
  intros m Hm. assert (H53 : 0 < two53) by reflexivity.
  pose proof (log2_ge_53 m ltac:(lia)) as Hk1.
  pose proof (log2_lt_64 m ltac:(lia)) as Hk2.
  pose proof (log2_bounds m ltac:(lia)) as Hb.
  rewrite of_Z_mag_big_eq by lia. unfold rnd_mag.
  apply bits_fmag; [lia | apply rq_bounds; assumption].
Qed.

Lemma of_Z_mag_range64 : forall m, 0 <= m < two64 -> 0 <= of_Z_mag m < two63.
Proof.
  intros m Hm. destruct (Z_lt_ge_dec m two53) as [Hs | Hb].
  - apply of_Z_mag_range. lia.
  - apply of_Z_mag_big. lia.
Qed.

Lemma of_Z_range64 : forall z, - two64 < z < two64 -> 0 <= of_Z z < two64.
Proof.
  intros z Hz. unfold of_Z. rewrite two64_two63.
  assert (H63 : 0 < two63) by reflexivity.
  destruct (z <? 0) eqn:E.
  - apply Z.ltb_lt in E.
    assert (H : 0 <= of_Z_mag (- z) < two63) by (apply of_Z_mag_range64; lia). lia.
  - apply Z.ltb_ge in E.
    assert (H : 0 <= of_Z_mag z < two63) by (apply of_Z_mag_range64; lia). lia.
Qed.

(* float64 of a 53-bit significand times a power of two: nothing is rounded away *)
Lemma of_Z_mag_scaled : forall q s, two52 <= q < two53 -> 1 <= s ->
  of_Z_mag (q * 2 ^ s) = (1075 + s) * two52 + (q - two52).
Proof.
  intros q s Hq Hs.
  assert (Hp : 0 < 2 ^ s) by (apply Z.pow_pos_nonneg; lia).
  assert (Hp1 : 0 < 2 ^ (s - 1)) by (apply Z.pow_pos_nonneg; lia).
  assert (Hp2 : 2 ^ s = 2 * 2 ^ (s - 1)).
  { replace s with (Z.succ (s - 1)) at 1 by lia. apply Z.pow_succ_r. lia. }
  assert (Hl : Z.log2 (q * 2 ^ s) = 52 + s).
  { apply Z.log2_unique; [lia|]. unfold Z.succ.
    rewrite !Z.pow_add_r by lia.
    change (2 ^ 52) with two52. replace (two52 * 2 ^ s * 2 ^ 1) with (two53 * 2 ^ s)
      by (rewrite two53_as_two52; change (2 ^ 1) with 2; lia).
    split; [apply Z.mul_le_mono_nonneg_r; lia | apply Z.mul_lt_mono_pos_r; lia]. }
  assert (Hbig : two53 <= q * 2 ^ s).
  { rewrite two53_as_two52, (Z.mul_comm 2 two52). pose proof two52_pos.
    apply Z.mul_le_mono_nonneg; lia. }
  rewrite (of_Z_mag_big_eq _ Hbig), Hl.
  replace (rq (q * 2 ^ s) (52 + s)) with q; [lia|].
  unfold rq. cbv zeta. replace (52 + s - 52) with s by lia.
  rewrite Z.div_mul, Z.mod_mul by lia.
  destruct (2 ^ (s - 1) <? 0) eqn:E1; [apply Z.ltb_lt in E1; lia|].
  destruct (0 =? 2 ^ (s - 1)) eqn:E2; [apply Z.eqb_eq in E2; lia|].
  reflexivity.
Qed.

(* float64 rounding is idempotent *)
Lemma of_Z_mag_idem : forall m, two53 <= m < two64 -> of_Z_mag (rnd_mag m) = of_Z_mag m.
Proof.
  intros m Hm. assert (H53 : 0 < two53) by reflexivity.
  pose proof (log2_ge_53 m ltac:(lia)) as Hk1.
  pose proof (log2_bounds m ltac:(lia)) as Hb.
  pose proof (rq_bounds m _ Hk1 Hb) as Hq.
  rewrite (of_Z_mag_big_eq m) by lia. unfold rnd_mag.
  set (k := Z.log2 m) in *. set (q := rq m k) in *.
  destruct (Z.eq_dec q two53) as [E | Hne].
  - rewrite E.
    replace (two53 * 2 ^ (k - 52)) with (two52 * 2 ^ (k - 52 + 1)).
    + rewrite of_Z_mag_scaled by (rewrite ?two53_as_two52; pose proof two52_pos; lia).
      rewrite two53_as_two52. lia.
    + rewrite Z.pow_add_r by lia. change (2 ^ 1) with 2. rewrite two53_as_two52. lia.
  - rewrite of_Z_mag_scaled by lia. lia.
Qed.

Lemma rnd_mag_pos : forall m, two53 <= m -> 0 < rnd_mag m.
Proof.
  intros m Hm. assert (H53 : 0 < two53) by reflexivity.
  pose proof (log2_ge_53 m Hm) as Hk1.
  pose proof (log2_bounds m ltac:(lia)) as Hb.
  pose proof (rq_bounds m _ Hk1 Hb) as Hq.
  destruct (pow_split _ Hk1) as (_ & _ & Hp). pose proof two52_pos.
  unfold rnd_mag. apply Z.mul_pos_pos; lia.
Qed.

(* the rounded value never leaves the binade [2^k, 2^(k+1)] *)
Lemma rnd_mag_le : forall m k, two53 <= m -> m < 2 ^ k -> rnd_mag m <= 2 ^ k.
Proof.
  intros m k Hm Hk. assert (H53 : 0 < two53) by reflexivity.
  pose proof (log2_ge_53 m Hm) as Hk1.
  pose proof (log2_bounds m ltac:(lia)) as Hb.
  pose proof (rq_bounds m _ Hk1 Hb) as Hq.
  destruct (pow_split _ Hk1) as (_ & E2 & Hp).
  assert (Hlt : Z.log2 m < k).
  { destruct (Z_lt_ge_dec k 0) as [Hn | Hn].
    - rewrite Z.pow_neg_r in Hk by lia. lia.
    - apply Z.log2_lt_pow2; lia. }
  unfold rnd_mag.
  apply Z.le_trans with (2 ^ (Z.log2 m + 1)).
  - rewrite E2. apply Z.mul_le_mono_nonneg_r; lia.
  - apply Z.pow_le_mono_r; lia.
Qed.

(* ------------------------------------------------------------------ *)
(* 2. X1: exactly convertible integers                                 *)
(* ------------------------------------------------------------------ *)

(* float64(z) = z *)
Definition exact_int (z : Z) : bool := (fden (of_Z z) =? z * scale1074).

Lemma exact_int_spec : forall z, exact_int z = true <-> fden (of_Z z) = z * scale1074.
Proof. intros z. unfold exact_int. apply Z.eqb_eq. Qed.

Lemma exact_int_false : forall z, exact_int z = false <-> fden (of_Z z) <> z * scale1074.
Proof. intros z. unfold exact_int. apply Z.eqb_neq. Qed.

Lemma small_int_exact : forall z, small_int z = true -> exact_int z = true.
Proof.
  intros z H. apply exact_int_spec. apply fden_of_Z_exact. apply small_int_range. exact H.
Qed.

Lemma exact_int_examples :
  exact_int (2 ^ 60) = true /\ exact_int (2 ^ 63) = true /\ exact_int (- (2 ^ 62)) = true /\
  exact_int (2 ^ 53 + 2) = true /\ exact_int (2 ^ 53 + 1) = false /\ exact_int (2 ^ 64 - 1) = false.
Proof. vm_compute. repeat split. Qed.

(* an inexact integer is beyond +-2^53 *)
Lemma inexact_big : forall z, exact_int z = false -> two53 < z \/ z < - two53.
Proof.
  intros z H.
  destruct (Z_le_gt_dec z two53) as [H1 | H1]; [|left; lia].
  destruct (Z_le_gt_dec (- two53) z) as [H2 | H2]; [|right; lia].
  rewrite small_int_exact in H; [discriminate H|].
  unfold small_int. apply andb_true_intro. split; apply Z.leb_le; assumption.
Qed.

(* the integer that float64(z) denotes *)
Definition round64 (z : Z) : Z := fden (of_Z z) / scale1074.

Lemma scale1074_ne : scale1074 <> 0.
Proof. pose proof scale1074_pos. lia. Qed.

Lemma of_Z_pos_big : forall z, two53 <= z < two64 ->
  of_Z z = of_Z_mag z /\ fden (of_Z z) = rnd_mag z * scale1074 /\ round64 z = rnd_mag z.
Proof.
  intros z Hz. assert (H53 : 0 < two53) by reflexivity.
  assert (E : of_Z z = of_Z_mag z).
  { unfold of_Z. destruct (z <? 0) eqn:E; [apply Z.ltb_lt in E; lia | reflexivity]. }
  destruct (of_Z_mag_big z Hz) as [Hr Hf].
  assert (F : fden (of_Z z) = rnd_mag z * scale1074).
  { rewrite E. destruct (fden_pos (of_Z_mag z) Hr) as [-> _]. exact Hf. }
  split; [exact E | split; [exact F |]].
  unfold round64. rewrite F. apply Z.div_mul. exact scale1074_ne.
Qed.

Lemma of_Z_neg_big : forall z, - two64 < z <= - two53 ->
  of_Z z = two63 + of_Z_mag (- z) /\ fden (of_Z z) = - rnd_mag (- z) * scale1074 /\
  round64 z = - rnd_mag (- z).
Proof.
  intros z Hz. assert (H53 : 0 < two53) by reflexivity.
  assert (E : of_Z z = two63 + of_Z_mag (- z)).
  { unfold of_Z. destruct (z <? 0) eqn:E; [reflexivity | apply Z.ltb_ge in E; lia]. }
  destruct (of_Z_mag_big (- z)) as [Hr Hf]; [lia|].
  assert (F : fden (of_Z z) = - rnd_mag (- z) * scale1074).
  { rewrite E. destruct (fden_neg (two63 + of_Z_mag (- z))) as [-> _].
    - rewrite two64_two63. lia.
    - replace (two63 + of_Z_mag (- z) - two63) with (of_Z_mag (- z)) by lia. rewrite Hf. lia. }
  split; [exact E | split; [exact F |]].
  unfold round64. rewrite F. apply Z.div_mul. exact scale1074_ne.
Qed.

(* float64(float64(z)) = float64(z), and the rounded integer is exactly convertible *)
Lemma of_Z_round64 : forall z, - two64 < z < two64 -> (two53 <= z \/ z <= - two53) ->
  of_Z (round64 z) = of_Z z /\ fden (of_Z z) = round64 z * scale1074.
Proof.
  intros z Hr [Hz | Hz]; assert (H53 : 0 < two53) by reflexivity.
  - destruct (of_Z_pos_big z ltac:(lia)) as (E & F & R). rewrite R. split; [|exact F].
    pose proof (rnd_mag_pos z Hz) as Hp.
    rewrite E. unfold of_Z. destruct (rnd_mag z <? 0) eqn:E0; [apply Z.ltb_lt in E0; lia|].
    apply of_Z_mag_idem. lia.
  - destruct (of_Z_neg_big z ltac:(lia)) as (E & F & R). rewrite R. split; [|exact F].
    pose proof (rnd_mag_pos (- z) ltac:(lia)) as Hp.
    rewrite E. unfold of_Z. destruct (- rnd_mag (- z) <? 0) eqn:E0; [|apply Z.ltb_ge in E0; lia].
    rewrite Z.opp_involutive. f_equal. apply of_Z_mag_idem. lia.
Qed.

Lemma round64_exact : forall z, - two64 < z < two64 -> (two53 <= z \/ z <= - two53) ->
  exact_int (round64 z) = true.
Proof.
  intros z Hr Hz. destruct (of_Z_round64 z Hr Hz) as [E F].
  apply exact_int_spec. rewrite E. exact F.
Qed.

(* exactness means: rounding does nothing *)
Lemma exact_int_round64 : forall z, - two64 < z < two64 -> (two53 <= z \/ z <= - two53) ->
  exact_int z = true <-> round64 z = z.
Proof.
  intros z Hr Hz. destruct (of_Z_round64 z Hr Hz) as [_ F].
  rewrite exact_int_spec, F. pose proof scale1074_pos as Hs. split; intros H.
  - apply Z.mul_cancel_r in H; [exact H | lia].
  - rewrite H. reflexivity.
Qed.

(* ------------------------------------------------------------------ *)
(* 3. X2: the recursive domain                                         *)
(* ------------------------------------------------------------------ *)

Definition int_x (z : Z) : bool := exact_int z && int64_ok z.
Definition uint_x (z : Z) : bool := exact_int z && uint64_ok z.

(* [key_dom] with "exactly convertible and in the Go range" in place of "within +-2^53" *)
Fixpoint key_dom_x (v : value) {struct v} : bool :=
  match v with
  | VInt z => exact_int z && int64_ok z
  | VUint z => exact_int z && uint64_ok z
  | VFloat b => uint64_ok b && negb (is_nan b)
  | VTime s n _ => time_key_ok s n
  | VArr l => forallb key_dom_x l
  | VObj o => (fix go (o : list (bytes * value)) : bool :=
                 match o with [] => true | (_, x) :: t => key_dom_x x && go t end) o
  | _ => true
  end.

Lemma key_dom_x_arr_cons : forall x t,
  key_dom_x (VArr (x :: t)) = key_dom_x x && key_dom_x (VArr t).
Proof. reflexivity. Qed.

Lemma key_dom_x_obj_cons : forall k x t,
  key_dom_x (VObj ((k, x) :: t)) = key_dom_x x && key_dom_x (VObj t).
Proof. reflexivity. Qed.

Lemma wf_arr_cons : forall x t, wf_value (VArr (x :: t)) = wf_value x && wf_value (VArr t).
Proof. reflexivity. Qed.

(* the side condition needed is exactly the Go ranges of the integers, [num_ok] (implied by
   [wf_value]): [small_int] does not imply [uint64_ok] for negative z, so VUint (-1) is in
   key_dom and not in key_dom_x (key_dom_not_key_dom_x_without_range below) *)
Lemma key_dom_key_dom_x_num_ok : forall v, num_ok v = true -> key_dom v = true -> key_dom_x v = true.
Proof.
  induction v as [ | z | z | f | s | b0 | s n o | l IHl | o IHo ] using value_ind';
    intros Hw Hd; try reflexivity; try exact Hd.
  - cbn [key_dom_x num_ok key_dom] in *. rewrite (small_int_exact z Hd), Hw. reflexivity.
  - cbn [key_dom_x num_ok key_dom] in *. rewrite (small_int_exact z Hd), Hw. reflexivity.
  - induction IHl as [ | x t Hx Ht IH ]; [reflexivity|].
    rewrite key_dom_x_arr_cons. rewrite key_dom_arr_cons in Hd. rewrite num_ok_arr_cons in Hw.
    apply andb_prop in Hd. destruct Hd as [D1 D2].
    apply andb_prop in Hw. destruct Hw as [W1 W2].
    rewrite (Hx W1 D1), (IH W2 D2). reflexivity.
  - induction IHo as [ | [k x] t Hx Ht IH ]; [reflexivity|].
    rewrite key_dom_x_obj_cons. rewrite key_dom_obj_cons in Hd. rewrite num_ok_obj_cons in Hw.
    apply andb_prop in Hd. destruct Hd as [D1 D2].
    apply andb_prop in Hw. destruct Hw as [W1 W2].
    cbn [snd] in Hx. rewrite (Hx W1 D1), (IH W2 D2). reflexivity.
Qed.

Lemma wf_value_num_ok : forall v, wf_value v = true -> num_ok v = true.
Proof.
  induction v as [ | z | z | f | s | b0 | s n o | l IHl | o IHo ] using value_ind';
    intros Hw; try reflexivity; try exact Hw.
  - induction IHl as [ | x t Hx Ht IH ]; [reflexivity|].
    rewrite num_ok_arr_cons. rewrite wf_arr_cons in Hw.
    apply andb_prop in Hw. destruct Hw as [W1 W2].
    rewrite (Hx W1), (IH W2). reflexivity.
  - cbn [wf_value] in Hw. apply andb_prop in Hw. destruct Hw as [_ Hw].
    induction IHo as [ | [k x] t Hx Ht IH ]; [reflexivity|].
    rewrite num_ok_obj_cons.
    apply andb_prop in Hw. destruct Hw as [W1 W2].
    cbn [snd] in Hx. rewrite (Hx W1), (IH W2). reflexivity.
Qed.

Lemma key_dom_key_dom_x : forall v, wf_value v = true -> key_dom v = true -> key_dom_x v = true.
Proof.
  intros v Hw Hd. apply key_dom_key_dom_x_num_ok; [apply wf_value_num_ok; exact Hw | exact Hd].
Qed.

(* the side condition cannot be dropped: a "uint64" holding -1 is inside key_dom *)
Lemma key_dom_not_key_dom_x_without_range :
  key_dom (VUint (-1)) = true /\ key_dom_x (VUint (-1)) = false.
Proof. vm_compute. split; reflexivity. Qed.

(* the inclusion is strict *)
Lemma key_dom_x_not_key_dom :
  key_dom_x (VInt (2 ^ 60)) = true /\ key_dom (VInt (2 ^ 60)) = false /\ wf_value (VInt (2 ^ 60)) = true.
Proof. vm_compute. repeat split. Qed.

(* ------------------------------------------------------------------ *)
(* 4. The key laws over an arbitrary integer domain                    *)
(* ------------------------------------------------------------------ *)

(* Everything the key laws need from the integers of the domain: their float64 conversion is a
   64-bit pattern, and it reflects the order of the integers (equivalently: it is injective on
   the domain).  Comparisons that involve a float need nothing: [compare] itself converts the
   integer to float64 first, exactly as the key does. *)
Section IntDom.
  Variables PI PU : Z -> bool.          (* admissible int64 / uint64 payloads *)
  Let P (z : Z) : bool := PI z || PU z.
  Hypothesis P_range : forall z, P z = true -> 0 <= of_Z z < two64.
  Hypothesis P_order : forall z w, P z = true -> P w = true -> fcmp (of_Z z) (of_Z w) = (z ?= w).

  Fixpoint kd (v : value) {struct v} : bool :=
    match v with
    | VInt z => PI z
    | VUint z => PU z
    | VFloat b => uint64_ok b && negb (is_nan b)
    | VTime s n _ => time_key_ok s n
    | VArr l => forallb kd l
    | VObj o => (fix go (o : list (bytes * value)) : bool :=
                   match o with [] => true | (_, x) :: t => kd x && go t end) o
    | _ => true
    end.

  Lemma kd_arr_cons : forall x t, kd (VArr (x :: t)) = kd x && kd (VArr t).
  Proof. reflexivity. Qed.

  Lemma kd_obj_cons : forall k x t, kd (VObj ((k, x) :: t)) = kd x && kd (VObj t).
  Proof. reflexivity. Qed.

  Lemma PI_P : forall z, PI z = true -> P z = true.
  Proof. intros z H. unfold P. rewrite H. reflexivity. Qed.

  Lemma PU_P : forall z, PU z = true -> P z = true.
  Proof. intros z H. unfold P. rewrite H. apply orb_true_r. Qed.

  Lemma kd_to_float_range : forall a, is_number a = true -> kd a = true -> 0 <= to_float a < two64.
  Proof.
    intros a Hn Hd. destruct a; try discriminate Hn; cbn [to_float kd] in *.
    - apply P_range, PI_P, Hd.
    - apply P_range, PU_P, Hd.
    - apply andb_prop in Hd. destruct Hd as [Hu _]. unfold uint64_ok in Hu.
      apply andb_prop in Hu. destruct Hu as [H1 H2].
      apply Z.leb_le in H1. apply Z.ltb_lt in H2. lia.
  Qed.

  (* the only new leaf law: two numbers *)
  Lemma kd_num_compare : forall a b, is_number a = true -> is_number b = true ->
    kd a = true -> kd b = true -> fcmp (to_float a) (to_float b) = compare a b.
  Proof.
    intros a b Na Nb Da Db. rewrite (compare_num a b Na Nb). unfold compare_numbers.
    destruct a; try discriminate Na; destruct b; try discriminate Nb;
      cbn [is_float orb to_float int_val kd] in *; try reflexivity.
    - apply P_order; [apply PI_P | apply PI_P]; assumption.
    - apply P_order; [apply PI_P | apply PU_P]; assumption.
    - apply P_order; [apply PU_P | apply PI_P]; assumption.
    - apply P_order; [apply PU_P | apply PU_P]; assumption.
  Qed.

  Lemma body_num_law_kd : forall a b x y,
    is_number a = true -> is_number b = true -> kd a = true -> kd b = true ->
    lex (oc_float64 (to_float a) ++ x) (oc_float64 (to_float b) ++ y)
    = cmp_then (compare a b) (lex x y).
  Proof.
    intros a b x y Na Nb Da Db.
    rewrite oc_float64_law_gen by (apply kd_to_float_range; assumption).
    rewrite (kd_num_compare a b Na Nb Da Db). reflexivity.
  Qed.

  (* from here on: CodeProofs.v replayed with [kd] for [key_dom] *)
  Lemma prim_body_law_kd : forall a b x y,
    is_container a = false ->
    kd a = true -> kd b = true -> type_id a = type_id b ->
    lex (oc_body a ++ x) (oc_body b ++ y) = cmp_then (compare a b) (lex x y).
  Proof.
    intros a b x y Hc Da Db Ht.
    destruct a as [ | za | za | fa | sa | ba | s1 n1 o1 | la | oa ]; try discriminate Hc;
    destruct b as [ | zb | zb | fb | sb | bb | s2 n2 o2 | lb | ob ];
      cbn [type_id] in Ht; try discriminate Ht; cbn [oc_body oc_prim_body].
    - rewrite compare_refl. reflexivity.
    - apply (body_num_law_kd (VInt za) (VInt zb)); first [reflexivity | assumption].
    - apply (body_num_law_kd (VInt za) (VUint zb)); first [reflexivity | assumption].
    - apply (body_num_law_kd (VInt za) (VFloat fb)); first [reflexivity | assumption].
    - apply (body_num_law_kd (VUint za) (VInt zb)); first [reflexivity | assumption].
    - apply (body_num_law_kd (VUint za) (VUint zb)); first [reflexivity | assumption].
    - apply (body_num_law_kd (VUint za) (VFloat fb)); first [reflexivity | assumption].
    - apply (body_num_law_kd (VFloat fa) (VInt zb)); first [reflexivity | assumption].
    - apply (body_num_law_kd (VFloat fa) (VUint zb)); first [reflexivity | assumption].
    - apply (body_num_law_kd (VFloat fa) (VFloat fb)); first [reflexivity | assumption].
    - rewrite oc_string_law, compare_string_bytewise. reflexivity.
    - apply body_bool_law.
    - cbn [kd] in Da, Db. apply body_time_law; assumption.
  Qed.

  Definition OCLawK (a : value) : Prop :=
    forall b x y, kd a = true -> kd b = true ->
      lex (ordered_code a true ++ x) (ordered_code b true ++ y)
      = cmp_then (compare a b) (lex x y).

  Lemma arr_go_law_kd : forall l1, Forall OCLawK l1 -> forall l2,
    kd (VArr l1) = true -> kd (VArr l2) = true ->
    lex (arr_go l1) (arr_go l2) = compare (VArr l1) (VArr l2).
  Proof.
    intros l1 HF. induction HF as [ | a t1 Ha HF IH ]; intros l2 D1 D2.
    - destruct l2 as [ | b t2 ].
      + rewrite compare_arr_nil_nil. reflexivity.
      + rewrite compare_arr_nil_cons, arr_go_cons.
        destruct (ordered_code_cons b (arr_go t2)) as [h [t E]]. rewrite E. reflexivity.
    - destruct l2 as [ | b t2 ].
      + rewrite compare_arr_cons_nil, arr_go_cons.
        destruct (ordered_code_cons a (arr_go t1)) as [h [t E]]. rewrite E. reflexivity.
      + rewrite kd_arr_cons in D1, D2.
        apply andb_prop in D1. destruct D1 as [Da Dt1].
        apply andb_prop in D2. destruct D2 as [Db Dt2].
        rewrite !arr_go_cons, compare_array_lex.
        rewrite (Ha b (arr_go t1) (arr_go t2) Da Db).
        rewrite (IH t2 Dt1 Dt2). reflexivity.
  Qed.

  Lemma obj_go_law_kd : forall o1, Forall (fun kv => OCLawK (snd kv)) o1 -> forall o2,
    kd (VObj o1) = true -> kd (VObj o2) = true ->
    lex (obj_go o1) (obj_go o2) = compare (VObj o1) (VObj o2).
  Proof.
    intros o1 HF. induction HF as [ | [k1 a] t1 Ha HF IH ]; intros o2 D1 D2.
    - destruct o2 as [ | [k2 b] t2 ].
      + rewrite compare_obj_nil_nil. reflexivity.
      + rewrite compare_obj_nil_cons, obj_go_cons.
        destruct (oc_string_cons k2 (ordered_code b true ++ obj_go t2)) as [h [t E]].
        rewrite E. reflexivity.
    - destruct o2 as [ | [k2 b] t2 ].
      + rewrite compare_obj_cons_nil, obj_go_cons.
        destruct (oc_string_cons k1 (ordered_code a true ++ obj_go t1)) as [h [t E]].
        rewrite E. reflexivity.
      + rewrite kd_obj_cons in D1, D2.
        apply andb_prop in D1. destruct D1 as [Da Dt1].
        apply andb_prop in D2. destruct D2 as [Db Dt2].
        cbn [snd] in Ha.
        rewrite !obj_go_cons, compare_object_lex, oc_string_law.
        rewrite (Ha b (obj_go t1) (obj_go t2) Da Db).
        rewrite (IH t2 Dt1 Dt2). reflexivity.
  Qed.

  Lemma OCLawK_prim : forall a, is_container a = false -> OCLawK a.
  Proof.
    intros a Hc b x y Da Db. apply law_from_body. intros Ht.
    apply prim_body_law_kd; assumption.
  Qed.

  Lemma OCLawK_all : forall a, OCLawK a.
  Proof.
    induction a as [ | z | z | f | s | b0 | s n o | l IHl | o IHo ] using value_ind';
      try (apply OCLawK_prim; reflexivity).
    - intros b x y Da Db. apply law_from_body. intros Ht.
      destruct b as [ | zb | zb | fb | sb | bb | s2 n2 o2 | lb | ob ];
        cbn [type_id] in Ht; try discriminate Ht.
      cbn [oc_body]. rewrite oc_string_law.
      rewrite (arr_go_law_kd l IHl lb Da Db). reflexivity.
    - intros b x y Da Db. apply law_from_body. intros Ht.
      destruct b as [ | zb | zb | fb | sb | bb | s2 n2 o2 | lb | ob ];
        cbn [type_id] in Ht; try discriminate Ht.
      cbn [oc_body]. rewrite oc_string_law.
      rewrite (obj_go_law_kd o IHo ob Da Db). reflexivity.
  Qed.

  Theorem ordered_code_law_kd : forall a b x y,
    kd a = true -> kd b = true ->
    lex (ordered_code a true ++ x) (ordered_code b true ++ y)
    = cmp_then (compare a b) (lex x y).
  Proof. intros a b x y Da Db. apply OCLawK_all; assumption. Qed.

  Lemma oc_body_law_kd : forall a b x y,
    kd a = true -> kd b = true -> type_id a = type_id b ->
    lex (oc_body a ++ x) (oc_body b ++ y) = cmp_then (compare a b) (lex x y).
  Proof.
    intros a b x y Da Db Ht.
    rewrite <- (ordered_code_law_kd a b x y Da Db).
    rewrite !ordered_code_true, <- !app_assoc, Ht, lex_app_prefix. reflexivity.
  Qed.

  Theorem value_code_law_kd : forall a b x y,
    kd a = true -> kd b = true -> type_id a = type_id b ->
    lex (value_code a ++ x) (value_code b ++ y) = cmp_then (compare a b) (lex x y).
  Proof.
    intros a b x y Da Db Ht. unfold value_code.
    rewrite !ordered_code_false, <- (container_tid a b Ht).
    destruct (is_container a).
    - apply ordered_code_law_kd; assumption.
    - apply oc_body_law_kd; assumption.
  Qed.

  Theorem idx_key_law_kd : forall c f a b ida idb,
    kd a = true -> kd b = true ->
    lex (idx_value_key c f a ++ ida) (idx_value_key c f b ++ idb)
    = cmp_then (compare a b) (lex ida idb).
  Proof.
    intros c f a b ida idb Da Db.
    rewrite !idx_value_key_shape, lex_app_prefix.
    pose proof (type_id_range a) as Ra. pose proof (type_id_range b) as Rb.
    destruct (Z.compare_spec (type_id a) (type_id b)) as [E | L | G].
    - rewrite E, !lex_cons_eq. apply value_code_law_kd; assumption.
    - rewrite (compare_type_rank a b L). cbn [cmp_then].
      apply lex_cons_lt. unfold N.lt.
      rewrite Z2N.inj_compare by lia. apply Z.compare_lt_iff. lia.
    - rewrite (compare_type_rank_gt a b G). cbn [cmp_then].
      apply lex_cons_gt. unfold N.lt.
      rewrite Z2N.inj_compare by lia. apply Z.compare_lt_iff. lia.
  Qed.

  Theorem idx_key_eq_kd : forall c f a b,
    kd a = true -> kd b = true -> compare a b = Eq ->
    idx_value_key c f a = idx_value_key c f b.
  Proof.
    intros c f a b Da Db Hc.
    apply lex_eq_iff.
    rewrite <- (app_nil_r (idx_value_key c f a)), <- (app_nil_r (idx_value_key c f b)).
    rewrite (idx_key_law_kd c f a b [] [] Da Db), Hc. reflexivity.
  Qed.

  Theorem idx_key_prefix_free_kd : forall c f a b r,
    kd a = true -> kd b = true ->
    idx_value_key c f a ++ r = idx_value_key c f b -> compare a b = Eq.
  Proof.
    intros c f a b r Da Db Hr.
    pose proof (idx_key_law_kd c f a b r [] Da Db) as H.
    rewrite app_nil_r, Hr, lex_refl in H.
    destruct (compare a b); [reflexivity | discriminate H | discriminate H].
  Qed.
End IntDom.

(* ------------------------------------------------------------------ *)
(* 5. X3: the three key laws on key_dom_x                              *)
(* ------------------------------------------------------------------ *)

Lemma key_dom_x_kd : forall v, key_dom_x v = kd int_x uint_x v.
Proof. reflexivity. Qed.

Lemma int64_ok_range : forall z, int64_ok z = true -> - two63 <= z < two63.
Proof.
  intros z H. unfold int64_ok in H. apply andb_prop in H. destruct H as [H1 H2].
  apply Z.leb_le in H1. apply Z.ltb_lt in H2. lia.
Qed.

Lemma uint64_ok_range : forall z, uint64_ok z = true -> 0 <= z < two64.
Proof.
  intros z H. unfold uint64_ok in H. apply andb_prop in H. destruct H as [H1 H2].
  apply Z.leb_le in H1. apply Z.ltb_lt in H2. lia.
Qed.

Lemma go_int_range : forall z, int64_ok z || uint64_ok z = true -> - two64 < z < two64.
Proof.
  intros z H. rewrite two64_two63. assert (H63 : 0 < two63) by reflexivity.
  apply orb_prop in H. destruct H as [H | H].
  - apply int64_ok_range in H. lia.
  - apply uint64_ok_range in H. rewrite two64_two63 in H. lia.
Qed.

(* on exactly convertible integers the float comparison is the integer comparison *)
Lemma exact_order : forall z w, exact_int z = true -> exact_int w = true ->
  fcmp (of_Z z) (of_Z w) = (z ?= w).
Proof.
  intros z w Hz Hw. apply exact_int_spec in Hz. apply exact_int_spec in Hw.
  unfold fcmp. rewrite Hz, Hw. symmetry.
  apply Zmult_compare_compat_r. pose proof scale1074_pos. lia.
Qed.

Lemma x_split : forall z, int_x z || uint_x z = true ->
  exact_int z = true /\ int64_ok z || uint64_ok z = true.
Proof.
  intros z H. unfold int_x, uint_x in H.
  destruct (exact_int z); [split; [reflexivity | exact H] | discriminate H].
Qed.

Lemma x_range : forall z, int_x z || uint_x z = true -> 0 <= of_Z z < two64.
Proof. intros z H. apply x_split in H. apply of_Z_range64, go_int_range, H. Qed.

Lemma x_order : forall z w, int_x z || uint_x z = true -> int_x w || uint_x w = true ->
  fcmp (of_Z z) (of_Z w) = (z ?= w).
Proof.
  intros z w Hz Hw. apply x_split in Hz. apply x_split in Hw.
  apply exact_order; [apply Hz | apply Hw].
Qed.

Theorem idx_key_law_x : forall c f a b ida idb,
  key_dom_x a = true -> key_dom_x b = true ->
  lex (idx_value_key c f a ++ ida) (idx_value_key c f b ++ idb)
  = cmp_then (compare a b) (lex ida idb).
Proof. exact (idx_key_law_kd int_x uint_x x_range x_order). Qed.

Theorem idx_key_eq_x : forall c f a b,
  key_dom_x a = true -> key_dom_x b = true -> compare a b = Eq ->
  idx_value_key c f a = idx_value_key c f b.
Proof. exact (idx_key_eq_kd int_x uint_x x_range x_order). Qed.

Theorem idx_key_prefix_free_x : forall c f a b r,
  key_dom_x a = true -> key_dom_x b = true ->
  idx_value_key c f a ++ r = idx_value_key c f b -> compare a b = Eq.
Proof. exact (idx_key_prefix_free_kd int_x uint_x x_range x_order). Qed.

(* the companions of CodeProofs.v, for completeness *)
Theorem ordered_code_law_x : forall a b x y,
  key_dom_x a = true -> key_dom_x b = true ->
  lex (ordered_code a true ++ x) (ordered_code b true ++ y) = cmp_then (compare a b) (lex x y).
Proof. exact (ordered_code_law_kd int_x uint_x x_range x_order). Qed.

Theorem value_code_law_x : forall a b x y,
  key_dom_x a = true -> key_dom_x b = true -> type_id a = type_id b ->
  lex (value_code a ++ x) (value_code b ++ y) = cmp_then (compare a b) (lex x y).
Proof. exact (value_code_law_kd int_x uint_x x_range x_order). Qed.

Theorem idx_key_order_x : forall c f a b ida idb,
  key_dom_x a = true -> key_dom_x b = true -> compare a b = Lt ->
  lex (idx_key c f a ida) (idx_key c f b idb) = Lt.
Proof.
  intros c f a b ida idb Da Db Hc. unfold idx_key.
  rewrite (idx_key_law_x c f a b ida idb Da Db), Hc. reflexivity.
Qed.

Corollary idx_key_prefix_free_nil_x : forall c f a b r,
  key_dom_x a = true -> key_dom_x b = true ->
  idx_value_key c f a ++ r = idx_value_key c f b -> r = [].
Proof.
  intros c f a b r Da Db Hr.
  pose proof (idx_key_prefix_free_x c f a b r Da Db Hr) as Hc.
  pose proof (idx_key_eq_x c f a b Da Db Hc) as He.
  rewrite <- He in Hr.
  rewrite <- (app_nil_r (idx_value_key c f a)) in Hr at 2.
  apply app_inv_head in Hr. exact Hr.
Qed.

(* the old laws are instances: nothing is lost *)
Corollary idx_key_law_from_x : forall c f a b ida idb,
  wf_value a = true -> wf_value b = true -> key_dom a = true -> key_dom b = true ->
  lex (idx_value_key c f a ++ ida) (idx_value_key c f b ++ idb)
  = cmp_then (compare a b) (lex ida idb).
Proof.
  intros c f a b ida idb Wa Wb Da Db.
  apply idx_key_law_x; apply key_dom_key_dom_x; assumption.
Qed.

(* ------------------------------------------------------------------ *)
(* 6. X4: maximality                                                   *)
(* ------------------------------------------------------------------ *)

(* two numbers with the same float64 conversion share their index key *)
Lemma same_float_same_key : forall c f a b, is_number a = true -> is_number b = true ->
  to_float a = to_float b -> idx_value_key c f a = idx_value_key c f b.
Proof.
  intros c f a b Na Nb H. unfold idx_value_key, value_code.
  destruct a; try discriminate Na; destruct b; try discriminate Nb;
    cbn [type_id ordered_code oc_prim_body app]; rewrite H; reflexivity.
Qed.

Lemma compare_int_int : forall a b, is_number a = true -> is_number b = true ->
  is_float a = false -> is_float b = false -> compare a b = (int_val a ?= int_val b).
Proof.
  intros a b Na Nb Fa Fb. rewrite (compare_num a b Na Nb). unfold compare_numbers.
  rewrite Fa, Fb. reflexivity.
Qed.

(* 6.1 The witness proposed in the task statement, b := VFloat (float64 z), does NOT work, for
   any z: [compare] converts the integer to float64 before comparing it with a float, so an
   integer and its own float64 rounding compare Eq (the comparison int/float is as inexact as
   the key).  The colliding partner of an inexact integer is another INTEGER. *)
Theorem int_vs_own_float_is_Eq : forall z,
  compare (VInt z) (VFloat (of_Z z)) = Eq /\ compare (VUint z) (VFloat (of_Z z)) = Eq.
Proof.
  intros z. split.
  - rewrite (compare_num (VInt z) (VFloat (of_Z z)) eq_refl eq_refl).
    unfold compare_numbers, fcmp. cbn [is_float orb to_float]. apply Z.compare_refl.
  - rewrite (compare_num (VUint z) (VFloat (of_Z z)) eq_refl eq_refl).
    unfold compare_numbers, fcmp. cbn [is_float orb to_float]. apply Z.compare_refl.
Qed.

(* the statement of X4 with the suggested witness, refuted on the smallest inexact integer *)
Theorem inexact_int_collides_float_witness_refuted :
  exists z, int64_ok z = true /\ exact_int z = false /\
    key_dom_x (VFloat (of_Z z)) = true /\
    idx_value_key [99%N] [97%N] (VInt z) = idx_value_key [99%N] [97%N] (VFloat (of_Z z)) /\
    ~ (compare (VInt z) (VFloat (of_Z z)) <> Eq).
Proof.
  exists (2 ^ 53 + 1). split; [|split; [|split; [|split]]].
  - vm_compute. reflexivity.
  - vm_compute. reflexivity.
  - vm_compute. reflexivity.
  - apply same_float_same_key; reflexivity.
  - intros H. apply H. exact (proj1 (int_vs_own_float_is_Eq (2 ^ 53 + 1))).
Qed.

(* more: NO float in the domain is a witness, for any integer *)
Theorem no_float_witness : forall c f z fb,
  key_dom_x (VFloat fb) = true -> - two64 < z < two64 ->
  idx_value_key c f (VInt z) = idx_value_key c f (VFloat fb) ->
  compare (VInt z) (VFloat fb) = Eq.
Proof.
  intros c f z fb Db Hz Hk.
  (* a domain containing just this z besides the floats: the law holds there trivially *)
  set (PI := fun w => w =? z). set (PU := fun _ : Z => false).
  assert (Hr : forall w, PI w || PU w = true -> 0 <= of_Z w < two64).
  { intros w Hw. unfold PI, PU in Hw. rewrite orb_false_r in Hw. apply Z.eqb_eq in Hw. subst w.
    apply of_Z_range64. exact Hz. }
  assert (Ho : forall w1 w2, PI w1 || PU w1 = true -> PI w2 || PU w2 = true ->
                 fcmp (of_Z w1) (of_Z w2) = (w1 ?= w2)).
  { intros w1 w2 H1 H2. unfold PI, PU in H1, H2. rewrite orb_false_r in H1, H2.
    apply Z.eqb_eq in H1. apply Z.eqb_eq in H2. subst w1 w2.
    unfold fcmp. rewrite !Z.compare_refl. reflexivity. }
  apply (idx_key_prefix_free_kd PI PU Hr Ho c f (VInt z) (VFloat fb) []).
  - cbn [kd]. unfold PI. apply Z.eqb_refl.
  - exact Db.
  - rewrite app_nil_r. exact Hk.
Qed.

(* 6.2 The true statement for int64: the partner is the rounded integer (as uint64 when it is
   positive: float64(2^63 - 1) = 2^63 is not an int64). *)
Definition int_partner (z : Z) : value :=
  if z <? 0 then VInt (round64 z) else VUint (round64 z).

Lemma exact_neg_two63 : exact_int (- two63) = true.
Proof. vm_compute. reflexivity. Qed.

Lemma round64_ne : forall z, - two64 < z < two64 -> exact_int z = false -> round64 z <> z.
Proof.
  intros z Hr Hx E.
  assert (Hb : two53 <= z \/ z <= - two53) by (destruct (inexact_big z Hx); lia).
  apply (exact_int_round64 z Hr Hb) in E. rewrite E in Hx. discriminate Hx.
Qed.

Theorem inexact_int_collides_gen : forall c f z, int64_ok z = true -> exact_int z = false ->
  key_dom_x (int_partner z) = true /\
  idx_value_key c f (VInt z) = idx_value_key c f (int_partner z) /\
  compare (VInt z) (int_partner z) <> Eq.
Proof.
  intros c f z Hok Hx. apply int64_ok_range in Hok.
  assert (H63 : 0 < two63) by reflexivity.
  assert (Hr : - two64 < z < two64) by (rewrite two64_two63; lia).
  pose proof (inexact_big z Hx) as Hbig.
  assert (Hb : two53 <= z \/ z <= - two53) by lia.
  destruct (of_Z_round64 z Hr Hb) as [E _].
  pose proof (round64_exact z Hr Hb) as Hex.
  pose proof (round64_ne z Hr Hx) as Hne.
  unfold int_partner. destruct (z <? 0) eqn:Es.
  - apply Z.ltb_lt in Es. assert (Hz : z < - two53) by (assert (0 < two53) by reflexivity; lia).
    destruct (of_Z_neg_big z ltac:(lia)) as (_ & _ & R).
    assert (Hm : - z < two63).
    { destruct (Z.eq_dec z (- two63)) as [-> | Hn]; [|lia].
      rewrite exact_neg_two63 in Hx. discriminate Hx. }
    pose proof (rnd_mag_le (- z) 63 ltac:(lia) Hm) as Hle. change (2 ^ 63) with two63 in Hle.
    pose proof (rnd_mag_pos (- z) ltac:(lia)) as Hpos.
    split; [|split].
    + cbn [key_dom_x]. rewrite Hex. unfold int64_ok. rewrite R.
      apply andb_true_intro. split; [reflexivity|]. apply andb_true_intro; split;
        first [apply Z.leb_le; lia | apply Z.ltb_lt; lia].
    + apply same_float_same_key; [reflexivity | reflexivity |]. cbn [to_float]. symmetry. exact E.
    + rewrite compare_int_int by reflexivity. cbn [int_val].
      intros Hc. apply Z.compare_eq in Hc. apply Hne. symmetry. exact Hc.
  - apply Z.ltb_ge in Es. assert (Hz : two53 < z) by (assert (0 < two53) by reflexivity; lia).
    destruct (of_Z_pos_big z ltac:(lia)) as (_ & _ & R).
    pose proof (rnd_mag_le z 63 ltac:(lia) ltac:(change (2 ^ 63) with two63; lia)) as Hle.
    change (2 ^ 63) with two63 in Hle.
    pose proof (rnd_mag_pos z ltac:(lia)) as Hpos.
    split; [|split].
    + cbn [key_dom_x]. rewrite Hex. unfold uint64_ok. rewrite R, two64_two63.
      apply andb_true_intro. split; [reflexivity|]. apply andb_true_intro; split;
        first [apply Z.leb_le; lia | apply Z.ltb_lt; lia].
    + apply same_float_same_key; [reflexivity | reflexivity |]. cbn [to_float]. symmetry. exact E.
    + rewrite compare_int_int by reflexivity. cbn [int_val].
      intros Hc. apply Z.compare_eq in Hc. apply Hne. symmetry. exact Hc.
Qed.

(* X4 as stated (with an integer partner in place of the float) *)
Theorem inexact_int_collides : forall z, int64_ok z = true -> exact_int z = false ->
  exists b, key_dom_x b = true /\
    idx_value_key [99%N] [97%N] (VInt z) = idx_value_key [99%N] [97%N] b /\
    compare (VInt z) b <> Eq.
Proof.
  intros z Hok Hx. exists (int_partner z). apply inexact_int_collides_gen; assumption.
Qed.

(* 6.3 uint64.  float64 rounds the 1024 largest uint64 values up to 2^64, which is not a
   uint64: these have no partner inside the domain.  Below them the statement holds. *)
Lemma log2_63 : forall z, two63 <= z < two64 -> Z.log2 z = 63.
Proof.
  intros z Hz. apply Z.log2_unique; [lia|].
  unfold Z.succ. change (2 ^ 63) with two63. change (2 ^ (63 + 1)) with two64. exact Hz.
Qed.

Lemma rq_63 : forall z, rq z 63 =
  if (1024 <? z mod 2048) || ((z mod 2048 =? 1024) && Z.odd (z / 2048)) then z / 2048 + 1 else z / 2048.
Proof. intros z. reflexivity. Qed.

Lemma rnd_mag_63 : forall z, two63 <= z < two64 -> rnd_mag z = rq z 63 * 2048.
Proof. intros z Hz. unfold rnd_mag. rewrite (log2_63 z Hz). reflexivity. Qed.

Lemma rnd_mag_below_top : forall z, two53 <= z < two64 - 1024 -> rnd_mag z < two64.
Proof.
  intros z Hz. destruct (Z_lt_ge_dec z two63) as [Hs | Hb].
  - pose proof (rnd_mag_le z 63 ltac:(lia) ltac:(change (2 ^ 63) with two63; lia)) as Hle.
    change (2 ^ 63) with two63 in Hle. rewrite two64_two63. assert (0 < two63) by reflexivity. lia.
  - rewrite rnd_mag_63 by lia. rewrite rq_63.
    unfold two64, two63, two53 in *.
    destruct (Z.ltb_spec 1024 (z mod 2048)) as [E1 | E1];
      destruct (Z.eqb_spec (z mod 2048) 1024) as [E2 | E2];
      destruct (Z.odd (z / 2048)); cbn [orb andb]; cbv iota; lia.
Qed.

Lemma rq_top : forall z, two64 - 1024 <= z < two64 -> rq z 63 = two53.
Proof.
  intros z Hz. rewrite rq_63. unfold two64, two53 in *.
  assert (Hq : z / 2048 = 9007199254740991) by lia.
  rewrite Hq. change (Z.odd 9007199254740991) with true.
  destruct (Z.ltb_spec 1024 (z mod 2048)) as [E1 | E1];
    destruct (Z.eqb_spec (z mod 2048) 1024) as [E2 | E2];
    cbn [orb andb]; cbv iota; lia.
Qed.

(* the 1024 largest uint64: all convert to the float 2^64, none is exact *)
Lemma top_uint_facts : forall z, two64 - 1024 <= z < two64 ->
  uint64_ok z = true /\ exact_int z = false /\
  fden (of_Z z) = two64 * scale1074 /\ of_Z z = of_Z (two64 - 1).
Proof.
  intros z Hz.
  assert (Hb : two53 <= z < two64) by (unfold two64, two53 in *; lia).
  assert (Hb63 : two63 <= z < two64) by (unfold two64, two63 in *; lia).
  destruct (of_Z_pos_big z Hb) as (E & F & _).
  assert (Hrm : rnd_mag z = two64).
  { rewrite (rnd_mag_63 z Hb63), (rq_top z Hz). reflexivity. }
  rewrite Hrm in F.
  split; [|split; [|split]].
  - unfold uint64_ok. apply andb_true_intro.
    split; [apply Z.leb_le | apply Z.ltb_lt]; unfold two64 in *; lia.
  - apply exact_int_false. rewrite F. pose proof scale1074_pos as Hs. intros H.
    apply Z.mul_cancel_r in H; lia.
  - exact F.
  - rewrite E. rewrite (of_Z_mag_big_eq z) by lia. rewrite (log2_63 z Hb63), (rq_top z Hz).
    reflexivity.
Qed.

Theorem inexact_uint_collides_gen : forall c f z, uint64_ok z = true -> exact_int z = false ->
  z < two64 - 1024 ->
  key_dom_x (VUint (round64 z)) = true /\
  idx_value_key c f (VUint z) = idx_value_key c f (VUint (round64 z)) /\
  compare (VUint z) (VUint (round64 z)) <> Eq.
Proof.
  intros c f z Hok Hx Htop. apply uint64_ok_range in Hok.
  assert (Hr : - two64 < z < two64) by lia.
  pose proof (inexact_big z Hx) as Hbig.
  assert (H53 : 0 < two53) by reflexivity.
  assert (Hz : two53 < z) by lia.
  assert (Hb : two53 <= z \/ z <= - two53) by lia.
  destruct (of_Z_round64 z Hr Hb) as [E _].
  pose proof (round64_exact z Hr Hb) as Hex.
  pose proof (round64_ne z Hr Hx) as Hne.
  destruct (of_Z_pos_big z ltac:(lia)) as (_ & _ & R).
  pose proof (rnd_mag_below_top z ltac:(lia)) as Hlt.
  pose proof (rnd_mag_pos z ltac:(lia)) as Hpos.
  split; [|split].
  - cbn [key_dom_x]. rewrite Hex. unfold uint64_ok. rewrite R.
    apply andb_true_intro. split; [reflexivity|]. apply andb_true_intro; split;
      first [apply Z.leb_le; lia | apply Z.ltb_lt; lia].
  - apply same_float_same_key; [reflexivity | reflexivity |]. cbn [to_float]. symmetry. exact E.
  - rewrite compare_int_int by reflexivity. cbn [int_val].
    intros Hc. apply Z.compare_eq in Hc. apply Hne. symmetry. exact Hc.
Qed.

Theorem inexact_uint_collides : forall z, uint64_ok z = true -> exact_int z = false ->
  z < two64 - 1024 ->
  exists b, key_dom_x b = true /\
    idx_value_key [99%N] [97%N] (VUint z) = idx_value_key [99%N] [97%N] b /\
    compare (VUint z) b <> Eq.
Proof.
  intros z Hok Hx Ht. exists (VUint (round64 z)). apply inexact_uint_collides_gen; assumption.
Qed.

(* [kd] is monotone in the integer predicates *)
Lemma kd_mono : forall (PI PU PI' PU' : Z -> bool),
  (forall z, PI z = true -> PI' z = true) -> (forall z, PU z = true -> PU' z = true) ->
  forall v, kd PI PU v = true -> kd PI' PU' v = true.
Proof.
  intros PI PU PI' PU' HI HU.
  induction v as [ | z | z | f | s | b0 | s n o | l IHl | o IHo ] using value_ind';
    intros Hd; try exact Hd.
  - apply HI. exact Hd.
  - apply HU. exact Hd.
  - induction IHl as [ | x t Hx Ht IH ]; [reflexivity|].
    rewrite kd_arr_cons in *. apply andb_prop in Hd. destruct Hd as [D1 D2].
    rewrite (Hx D1), (IH D2). reflexivity.
  - induction IHo as [ | [k x] t Hx Ht IH ]; [reflexivity|].
    rewrite kd_obj_cons in *. apply andb_prop in Hd. destruct Hd as [D1 D2].
    cbn [snd] in Hx. rewrite (Hx D1), (IH D2). reflexivity.
Qed.

(* an exactly convertible uint64 lies below the top 1024 *)
Lemma exact_below_top : forall w, exact_int w = true -> w < two64 -> w < two64 - 1024.
Proof.
  intros w Hx Hw. destruct (Z_lt_ge_dec w (two64 - 1024)) as [H | H]; [exact H|].
  destruct (top_uint_facts w ltac:(lia)) as (_ & Hn & _). rewrite Hn in Hx. discriminate Hx.
Qed.

(* key_dom_x extended by ONE of the top uint64 values still satisfies the key laws ... *)
Section OneTop.
  Variable z0 : Z.
  Hypothesis Hz0 : two64 - 1024 <= z0 < two64.

  Definition uint_x1 (w : Z) : bool := uint_x w || (w =? z0).

  Lemma x1_cases : forall w, int_x w || uint_x1 w = true ->
    (exact_int w = true /\ w < two64) \/ w = z0.
  Proof.
    intros w H. unfold uint_x1 in H. rewrite orb_assoc in H.
    apply orb_prop in H. destruct H as [H | H].
    - left. apply x_split in H. destruct H as [Hx Hr]. split; [exact Hx|].
      apply go_int_range in Hr. lia.
    - right. apply Z.eqb_eq. exact H.
  Qed.

  Lemma x1_range : forall w, int_x w || uint_x1 w = true -> 0 <= of_Z w < two64.
  Proof.
    intros w H. unfold uint_x1 in H. rewrite orb_assoc in H.
    apply orb_prop in H. destruct H as [H | H].
    - apply x_range. exact H.
    - apply Z.eqb_eq in H. subst w. apply of_Z_range64. unfold two64 in *. lia.
  Qed.

  Lemma x1_order : forall w1 w2, int_x w1 || uint_x1 w1 = true -> int_x w2 || uint_x1 w2 = true ->
    fcmp (of_Z w1) (of_Z w2) = (w1 ?= w2).
  Proof.
    intros w1 w2 H1 H2. apply x1_cases in H1. apply x1_cases in H2.
    destruct (top_uint_facts z0 Hz0) as (_ & _ & F0 & _).
    pose proof scale1074_pos as Hs.
    destruct H1 as [[X1 R1] | ->]; destruct H2 as [[X2 R2] | ->].
    - apply exact_order; assumption.
    - pose proof (exact_below_top w1 X1 R1) as Hlt. apply exact_int_spec in X1.
      unfold fcmp. rewrite X1, F0.
      transitivity Lt; [|symmetry]; apply Z.compare_lt_iff; [|lia].
      apply Z.mul_lt_mono_pos_r; lia.
    - pose proof (exact_below_top w2 X2 R2) as Hlt. apply exact_int_spec in X2.
      unfold fcmp. rewrite X2, F0.
      transitivity Gt; [|symmetry]; apply Z.compare_gt_iff; [|lia].
      apply Z.mul_lt_mono_pos_r; lia.
    - unfold fcmp. rewrite !Z.compare_refl. reflexivity.
  Qed.

  Definition key_dom_x1 : value -> bool := kd int_x uint_x1.

  Lemma key_dom_x_x1 : forall v, key_dom_x v = true -> key_dom_x1 v = true.
  Proof.
    intros v H. rewrite key_dom_x_kd in H. unfold key_dom_x1.
    apply (kd_mono int_x uint_x int_x uint_x1); [auto | | exact H].
    intros w Hw. unfold uint_x1. rewrite Hw. reflexivity.
  Qed.

  Theorem idx_key_law_x1 : forall c f a b ida idb,
    key_dom_x1 a = true -> key_dom_x1 b = true ->
    lex (idx_value_key c f a ++ ida) (idx_value_key c f b ++ idb)
    = cmp_then (compare a b) (lex ida idb).
  Proof. exact (idx_key_law_kd int_x uint_x1 x1_range x1_order). Qed.

  (* ... so the statement of X4 is FALSE for VUint z0: every value of the domain that shares
     its key compares Eq to it *)
  Theorem inexact_uint_collides_top_refuted :
    uint64_ok z0 = true /\ exact_int z0 = false /\
    ~ (exists b, key_dom_x b = true /\
         idx_value_key [99%N] [97%N] (VUint z0) = idx_value_key [99%N] [97%N] b /\
         compare (VUint z0) b <> Eq).
  Proof.
    destruct (top_uint_facts z0 Hz0) as (U & X & _).
    split; [exact U | split; [exact X |]].
    intros (b & Db & Hk & Hc). apply Hc.
    apply (idx_key_prefix_free_kd int_x uint_x1 x1_range x1_order [99%N] [97%N] (VUint z0) b []).
    - cbn [kd]. unfold uint_x1. rewrite Z.eqb_refl. apply orb_true_r.
    - apply key_dom_x_x1. exact Db.
    - rewrite app_nil_r. exact Hk.
  Qed.
End OneTop.

(* the smallest counterexample: 2^64 - 1024 = 18446744073709550592 *)
Corollary inexact_uint_collides_refuted :
  exists z, uint64_ok z = true /\ exact_int z = false /\
    ~ (exists b, key_dom_x b = true /\
         idx_value_key [99%N] [97%N] (VUint z) = idx_value_key [99%N] [97%N] b /\
         compare (VUint z) b <> Eq).
Proof.
  exists (two64 - 1024). apply inexact_uint_collides_top_refuted. unfold two64. lia.
Qed.

Lemma smallest_uint_counterexample : forall z, uint64_ok z = true -> exact_int z = false ->
  ~ (exists b, key_dom_x b = true /\
       idx_value_key [99%N] [97%N] (VUint z) = idx_value_key [99%N] [97%N] b /\
       compare (VUint z) b <> Eq) ->
  two64 - 1024 <= z.
Proof.
  intros z Hok Hx Hn. destruct (Z_lt_ge_dec z (two64 - 1024)) as [H | H]; [|lia].
  exfalso. apply Hn. apply inexact_uint_collides; assumption.
Qed.

(* but they collide with one another: no domain can contain two of them *)
Theorem top_uints_collide : forall c f z z', two64 - 1024 <= z < two64 -> two64 - 1024 <= z' < two64 ->
  z <> z' ->
  idx_value_key c f (VUint z) = idx_value_key c f (VUint z') /\ compare (VUint z) (VUint z') <> Eq.
Proof.
  intros c f z z' Hz Hz' Hne.
  destruct (top_uint_facts z Hz) as (_ & _ & _ & E).
  destruct (top_uint_facts z' Hz') as (_ & _ & _ & E').
  split.
  - apply same_float_same_key; [reflexivity | reflexivity |]. cbn [to_float]. rewrite E, E'. reflexivity.
  - rewrite compare_int_int by reflexivity. cbn [int_val].
    intros Hc. apply Z.compare_eq in Hc. apply Hne. exact Hc.
Qed.

(* 6.4 Summary: inside the Go ranges, key_dom_x is exactly the set of integers on which "equal
   key" means "equal value" against the domain *)
Definition key_faithful (c f : bytes) (a : value) : Prop :=
  forall b, key_dom_x b = true -> idx_value_key c f a = idx_value_key c f b -> compare a b = Eq.

Theorem int_domain_characterised : forall c f z, int64_ok z = true ->
  (key_dom_x (VInt z) = true <-> key_faithful c f (VInt z)).
Proof.
  intros c f z Hok. split.
  - intros Da b Db Hk. apply (idx_key_prefix_free_x c f (VInt z) b [] Da Db).
    rewrite app_nil_r. exact Hk.
  - intros Hf. cbn [key_dom_x]. rewrite Hok, andb_true_r.
    destruct (exact_int z) eqn:Hx; [reflexivity|]. exfalso.
    destruct (inexact_int_collides_gen c f z Hok Hx) as (Db & Hk & Hc).
    apply Hc. apply Hf; assumption.
Qed.

Theorem uint_domain_characterised : forall c f z, uint64_ok z = true -> z < two64 - 1024 ->
  (key_dom_x (VUint z) = true <-> key_faithful c f (VUint z)).
Proof.
  intros c f z Hok Ht. split.
  - intros Da b Db Hk. apply (idx_key_prefix_free_x c f (VUint z) b [] Da Db).
    rewrite app_nil_r. exact Hk.
  - intros Hf. cbn [key_dom_x]. rewrite Hok, andb_true_r.
    destruct (exact_int z) eqn:Hx; [reflexivity|]. exfalso.
    destruct (inexact_uint_collides_gen c f z Hok Hx Ht) as (Db & Hk & Hc).
    apply Hc. apply Hf; assumption.
Qed.

(* ------------------------------------------------------------------ *)
(* 7. X5: what the scan theorems need                                  *)
(* ------------------------------------------------------------------ *)

(* ScanProofs.v touches [key_dom] in exactly three ways (checked by reading the file):

     (a) Lemma klaw  (Section "range scans", line ~698): from idx_key_law
     (b) Lemma kcmp  (line ~706): from idx_key_law
     (c) Lemma val_dom (line ~712): unfolds the hypothesis [idx_dom f sc] (Spec/PureRun.v)
     (d) Lemma by_idx_sorted_values (line ~997): idx_key_law on two stored values

   Every other lemma of the range-scan section (seekQ_fwd, seekQ_rev_inc, seekQ_rev_exc, skipP,
   scan_list, idx_iterate_range_run) uses the domain only through klaw / kcmp / val_dom, and
   the theorems idx_iterate_range_pure, docs_by_idx_sorted, docs_by_idx_sorted_rev,
   run_input_pure (through input_ok) only pass the hypotheses on.  No transitivity of
   [compare] and no [small_ints]/[cmp_dom3] fact is used there.  Hence, with

        idx_dom  :=  idx_dom_x   and   key_dom (r_start r), key_dom (r_end r)  :=  key_dom_x ...

   these go through VERBATIM (same proof scripts, klaw/kcmp replaced by klaw_x/kcmp_x):
       ScanProofs.v   klaw, kcmp, val_dom, seekQ_fwd, seekQ_rev_inc, seekQ_rev_exc, skipP,
                      scan_list, idx_iterate_range_run, by_idx_sorted_values,
                      docs_by_idx_sorted, docs_by_idx_sorted_rev, idx_iterate_range_pure,
                      run_input_pure (with key_dom_x in input_ok)
       KeyProofs.v    idx_key_inj_value (uses idx_key_prefix_free only)
   The consumers further up (RangeMeaningProofs.scan_exact_c17, Properties/C17.v,
   QueryProofs.v: field_range_bounds_P key_dom, doc_get_key_dom, Spec/QueryDom.v,
   HistoryProofs.v: crit_lits_ok key_dom) additionally carry a [regime] hypothesis
   (small_ints or no_floats) for the MEANING of in_range, i.e. for transitivity of compare;
   key_dom_x does not supply that, so those are out of scope here.

   Below: (a), (b), (c), (d) over key_dom_x, and the closure of key_dom_x under doc_get that
   QueryProofs.doc_get_key_dom provides for key_dom. *)

Lemma klaw_x : forall c f a b x y, key_dom_x a = true -> key_dom_x b = true ->
  lex (idx_value_key c f a ++ x) (idx_value_key c f b ++ y)
  = cmp_then (lex (idx_value_key c f a) (idx_value_key c f b)) (lex x y).
Proof.
  intros c f a b x y Ha Hb. rewrite (idx_key_law_x c f a b x y Ha Hb).
  pose proof (idx_key_law_x c f a b [] [] Ha Hb) as E. rewrite !app_nil_r in E.
  cbn [lex] in E. rewrite cmp_then_eq_r in E. rewrite E. reflexivity.
Qed.

Lemma kcmp_x : forall c f a b, key_dom_x a = true -> key_dom_x b = true ->
  lex (idx_value_key c f a) (idx_value_key c f b) = compare a b.
Proof.
  intros c f a b Ha Hb. pose proof (idx_key_law_x c f a b [] [] Ha Hb) as E.
  rewrite !app_nil_r in E. cbn [lex] in E. rewrite cmp_then_eq_r in E. exact E.
Qed.

(* every stored value of field f is inside the extended key-order domain *)
Definition idx_dom_x (f : bytes) (sc : scoll) : Prop :=
  forall id d, In (id, d) (sc_docs sc) -> key_dom_x (doc_get f d) = true.

Lemma val_dom_x : forall f sc, idx_dom_x f sc ->
  forall x, In x (sc_docs sc) -> key_dom_x (doc_get f (snd x)) = true.
Proof. intros f sc Hdom [id d] H. apply (Hdom id d H). Qed.

Lemma idx_dom_idx_dom_x : forall f sc,
  (forall id d, In (id, d) (sc_docs sc) -> num_ok (doc_get f d) = true) ->
  idx_dom f sc -> idx_dom_x f sc.
Proof.
  intros f sc Hn Hd id d Hin. apply key_dom_key_dom_x_num_ok; [apply (Hn id d Hin) | apply (Hd id d Hin)].
Qed.

Lemma key_dom_x_nil : key_dom_x VNil = true.
Proof. reflexivity. Qed.

Lemma doc_get_key_dom_x : forall d f, key_dom_x (VObj d) = true -> key_dom_x (doc_get f d) = true.
Proof. intros d f H. apply (doc_get_P key_dom_x); [reflexivity | reflexivity | exact H]. Qed.

(* index-entry order is value order (ties broken by id) when the stored values are in key_dom_x *)
Lemma by_idx_sorted_values_x : forall c f sc, idx_dom_x f sc ->
  StronglySorted (fun a b : bytes * obj => compare (doc_get f (snd a)) (doc_get f (snd b)) <> Gt)
    (msort (by_idx_leb c f) (sc_docs sc)).
Proof.
  intros c f sc Hdom.
  apply (SSorted_weaken (fun x y => by_idx_leb c f x y = true)).
  - intros [ida da] [idb db] Ha Hb H. apply msort_In in Ha. apply msort_In in Hb.
    unfold by_idx_leb, idx_entry_key, idx_key in H. cbn [fst snd] in *. apply bleb_true_iff in H.
    rewrite (idx_key_law_x c f _ _ ida idb (Hdom ida da Ha) (Hdom idb db Hb)) in H.
    destruct (compare (doc_get f da) (doc_get f db)); [discriminate | discriminate | exact H].
  - apply msort_sorted.
    + intros x y. apply bleb_total.
    + intros x y z. apply bleb_trans.
Qed.

Theorem docs_by_idx_sorted_x : forall c f sc, idx_dom_x f sc ->
  StronglySorted (fun a b => compare (doc_get f a) (doc_get f b) <> Gt) (docs_by_idx c f false sc).
Proof.
  intros c f sc Hdom. unfold docs_by_idx. apply SSorted_map. apply by_idx_sorted_values_x. exact Hdom.
Qed.

(* KeyProofs.idx_key_inj_value over key_dom_x *)
Theorem idx_key_inj_value_x : forall c c' f f' v v' id id',
  no_semi c = true -> no_semi c' = true -> no_semi f = true -> no_semi f' = true ->
  length id = 36%nat -> length id' = 36%nat ->
  key_dom_x v = true -> key_dom_x v' = true ->
  idx_key c f v id = idx_key c' f' v' id' ->
  c = c' /\ f = f' /\ compare v v' = Eq /\ id = id'.
Proof.
  intros c c' f f' v v' id id' Hc Hc' Hf Hf' L L' Dv Dv' H.
  destruct (KeyProofs.idx_key_inj c c' f f' v v' id id' Hc Hc' Hf Hf' L L' H) as [Ec [Ef [Ek Eid]]].
  subst c' f'. repeat split; try assumption.
  apply (idx_key_prefix_free_x c f v v' [] Dv Dv').
  rewrite app_nil_r. exact Ek.
Qed.

(* ------------------------------------------------------------------ *)
(* 8. X6: examples                                                     *)
(* ------------------------------------------------------------------ *)

(* float64 5.5 = 0x4016000000000000 *)
Definition f_5_5 : Z := 4617878467915022336.

Lemma f_5_5_den : 2 * fden f_5_5 = 11 * scale1074.
Proof. vm_compute. reflexivity. Qed.

Definition x6_values : list value :=
  [ VInt (2 ^ 63 - 1024); VUint (2 ^ 63); VFloat (of_Z (2 ^ 62)); VInt (- (2 ^ 60)); VInt 5;
    VFloat f_5_5 ].

Definition x6_key (v : value) : bytes := idx_value_key [99%N] [97%N] v.

Definition x6_pair_ok (a b : value) : bool :=
  ceq (lex (x6_key a) (x6_key b)) (compare a b) &&
  ceq (lex (x6_key a ++ [1%N]) (x6_key b ++ [2%N])) (cmp_then (compare a b) Lt).

Example x6_all_in_key_dom_x : forallb key_dom_x x6_values = true.
Proof. vm_compute. reflexivity. Qed.

Example x6_not_all_in_key_dom :
  forallb key_dom x6_values = false /\
  map key_dom x6_values = [false; false; true; false; true; true].
Proof. vm_compute. split; reflexivity. Qed.

Example x6_wf : forallb wf_value x6_values = true.
Proof. vm_compute. reflexivity. Qed.

(* all 36 ordered pairs: the bytes of the keys sort exactly like compare *)
Example x6_pairwise :
  forallb (fun a => forallb (fun b => x6_pair_ok a b) x6_values) x6_values = true.
Proof. vm_compute. reflexivity. Qed.

(* the order of the six values, as the index sees it and as compare sees it:
   -2^60 < 5 < 5.5 < 2^62 < 2^63-1024 < 2^63 *)
Example x6_order :
  map (fun a => map (fun b => compare a b) x6_values) x6_values =
  [ [Eq; Lt; Gt; Gt; Gt; Gt];
    [Gt; Eq; Gt; Gt; Gt; Gt];
    [Lt; Lt; Eq; Gt; Gt; Gt];
    [Lt; Lt; Lt; Eq; Lt; Lt];
    [Lt; Lt; Lt; Gt; Eq; Lt];
    [Lt; Lt; Lt; Gt; Gt; Eq] ].
Proof. vm_compute. reflexivity. Qed.

(* the same facts from the theorem instead of by computation *)
Example x6_by_theorem : forall a b, In a x6_values -> In b x6_values ->
  lex (x6_key a) (x6_key b) = compare a b.
Proof.
  intros a b Ha Hb. apply kcmp_x.
  - pose proof x6_all_in_key_dom_x as H. rewrite forallb_forall in H. apply H. exact Ha.
  - pose proof x6_all_in_key_dom_x as H. rewrite forallb_forall in H. apply H. exact Hb.
Qed.

(* K-float-key, seen from the new domain: 2^53+1 is outside, and its partner is 2^53 *)
Example partner_of_two53_plus_1 :
  int_partner (2 ^ 53 + 1) = VUint (2 ^ 53) /\
  int_partner (2 ^ 63 - 1) = VUint (2 ^ 63) /\
  int_partner (- (2 ^ 63) + 1) = VInt (- (2 ^ 63)).
Proof. vm_compute. repeat split. Qed.

(* ------------------------------------------------------------------ *)
Print Assumptions small_int_exact.
Print Assumptions exact_int_examples.
Print Assumptions key_dom_key_dom_x.
Print Assumptions key_dom_key_dom_x_num_ok.
Print Assumptions key_dom_not_key_dom_x_without_range.
Print Assumptions key_dom_x_not_key_dom.
Print Assumptions of_Z_round64.
Print Assumptions round64_exact.
Print Assumptions idx_key_law_kd.
Print Assumptions idx_key_law_x.
Print Assumptions idx_key_eq_x.
Print Assumptions idx_key_prefix_free_x.
Print Assumptions ordered_code_law_x.
Print Assumptions value_code_law_x.
Print Assumptions idx_key_order_x.
Print Assumptions idx_key_prefix_free_nil_x.
Print Assumptions idx_key_law_from_x.
Print Assumptions int_vs_own_float_is_Eq.
Print Assumptions inexact_int_collides_float_witness_refuted.
Print Assumptions no_float_witness.
Print Assumptions inexact_int_collides_gen.
Print Assumptions inexact_int_collides.
Print Assumptions inexact_uint_collides_gen.
Print Assumptions inexact_uint_collides.
Print Assumptions top_uint_facts.
Print Assumptions idx_key_law_x1.
Print Assumptions inexact_uint_collides_top_refuted.
Print Assumptions inexact_uint_collides_refuted.
Print Assumptions smallest_uint_counterexample.
Print Assumptions top_uints_collide.
Print Assumptions int_domain_characterised.
Print Assumptions uint_domain_characterised.
Print Assumptions klaw_x.
Print Assumptions kcmp_x.
Print Assumptions val_dom_x.
Print Assumptions idx_dom_idx_dom_x.
Print Assumptions doc_get_key_dom_x.
Print Assumptions by_idx_sorted_values_x.
Print Assumptions docs_by_idx_sorted_x.
Print Assumptions idx_key_inj_value_x.
Print Assumptions x6_all_in_key_dom_x.
Print Assumptions x6_not_all_in_key_dom.
Print Assumptions x6_pairwise.
Print Assumptions x6_order.
Print Assumptions x6_by_theorem.

(* Capstone: the per-operation refinement lemmas lifted to the public operation alphabet and to whole
   histories. The invariant carried along a history is "the durable store refines a well-formed abstract
   database" (R, SpecDB.v): one metadata record per collection whose counter is the number of its documents,
   one record per document, one index entry per (document, indexed field) under the current value, nothing
   else. *)
From Coq Require Import Lia ZArith Bool List.
Import ListNotations.
From Clover Require Import HistDom RProofs WriteProofs BulkProofs QueryProofs OpProofs TxProofs WireProofs.
Open Scope Z_scope.

(* ------------------------------------------------------------------------------------------ *)
(* The invariant on a handle.  [Rdb] (SpecDB.v) also demands an open handle; Close makes that   *)
(* false, so the history invariant is the closed-flag-free [Rdb'].                              *)
(* ------------------------------------------------------------------------------------------ *)
Definition Rdb' (db : sdb) (h : dbst) : Prop := R db (durable h).

Lemma Rdb_Rdb' : forall db h, Rdb db h -> Rdb' db h.
Proof. intros db h [_ H]. exact H. Qed.

Lemma Rdb_of_Rdb' : forall db h, closed h = false -> Rdb' db h -> Rdb db h.
Proof. intros db h Hc H. split; assumption. Qed.

(* ------------------------------------------------------------------------------------------ *)
(* run_tx without a fault is with_tx                                                           *)
(* ------------------------------------------------------------------------------------------ *)
Lemma run_tx_with_tx : forall A (body : M A) h,
  run_tx body (fresh_rstate h None) =
  (o_res (with_tx body None h),
   mkR (o_db (with_tx body None h)) None (o_calls (with_tx body None h)) (o_fired (with_tx body None h))).
Proof.
  intros. unfold run_tx, fresh_rstate; cbn [r_fault r_db r_calls r_fired].
  destruct (o_fired _); reflexivity.
Qed.

Lemma open_handle : forall h, closed h = false -> h = mkDb (durable h) false.
Proof. intros [s c] H. cbn in H. subst c. reflexivity. Qed.

(* a document listed in a collection of a well-formed database is stored under its own id *)
Lemma wf_listed_stored : forall db c sc d, wf_db db -> assoc c db = Some sc ->
  In d (map snd (sc_docs sc)) -> assoc (object_id d) (sc_docs sc) = Some d.
Proof.
  intros db c sc d W A H. apply in_docs_pair in H. destruct H as (id & H).
  pose proof (wf_docs_NoDup db c sc W A) as ND.
  apply (assoc_In id d (sc_docs sc) ND) in H.
  rewrite (wf_doc_object_id db c sc id d W A H). exact H.
Qed.

(* the selection hypotheses of update_refines, from the query theorems *)
Lemma selection_stored : forall m db s q sc sel,
  wf_db db -> R db s -> assoc (nq_coll q) db = Some sc -> coll_dom m sc -> crit_dom m (nq_crit q) ->
  o_res (with_tx (find_all_tx q) None (mkDb s false)) = Ok sel ->
  (forall d, In d sel -> assoc (object_id d) (sc_docs sc) = Some d) /\ NoDup (map object_id sel).
Proof.
  intros m db s q sc sel W HR A CD KD E. split.
  - intros d Hd.
    destruct (find_all_only_matches m db s q sc sel d W HR A CD KD E Hd) as [_ Hin].
    exact (wf_listed_stored db (nq_coll q) sc d W A Hin).
  - exact (find_all_each_once m db s q sc sel W HR A CD KD E).
Qed.

(* ------------------------------------------------------------------------------------------ *)
(* one transaction body at a time                                                              *)
(* ------------------------------------------------------------------------------------------ *)
Definition keeps (s' : kv) : Prop := exists db', wf_db db' /\ R db' s'.

Lemma keeps_same : forall db s, wf_db db -> R db s -> keeps s.
Proof. intros db s W HR. exists db. split; assumption. Qed.

Lemma keeps_unchanged : forall A (out : txout A) db s,
  wf_db db -> R db s -> o_db out = mkDb s false -> keeps (durable (o_db out)).
Proof. intros A out db s W HR E. rewrite E. exact (keeps_same db s W HR). Qed.

Section Bodies.
  Variables (db : sdb) (s : kv).
  Hypothesis (W : wf_db db) (HR : R db s).

  Lemma keeps_create : forall c, no_semi c = true ->
    keeps (durable (o_db (with_tx (create_collection_tx c) None (mkDb s false)))).
  Proof.
    intros c Hc. destruct point_ops_preserve_refinement as (P & _).
    specialize (P db s c W HR Hc). cbv zeta in P. destruct (s_create c db) as [db'|e].
    - destruct P as (_ & R' & _ & W'). exists db'. split; assumption.
    - destruct P as (_ & E). exact (keeps_unchanged _ _ db s W HR E).
  Qed.

  Lemma keeps_insert : forall c docs, no_semi c = true -> docs_have_ids docs ->
    keeps (durable (o_db (with_tx (insert_tx c docs) None (mkDb s false)))).
  Proof.
    intros c docs Hc Hd. destruct point_ops_preserve_refinement as (_ & P & _).
    specialize (P db s c docs W HR Hc Hd). cbv zeta in P. destruct (s_insert c docs db) as [db'|e].
    - destruct P as (_ & R' & W'). exists db'. split; assumption.
    - destruct P as (_ & E). exact (keeps_unchanged _ _ db s W HR E).
  Qed.

  Lemma keeps_delete_by_id : forall c id, no_semi c = true ->
    keeps (durable (o_db (with_tx (delete_by_id_tx c id) None (mkDb s false)))).
  Proof.
    intros c id Hc. destruct point_ops_preserve_refinement as (_ & _ & P & _).
    specialize (P db s c id W HR Hc). cbv zeta in P. destruct (s_delete_by_id c id db) as [db'|e].
    - destruct P as (_ & R' & W'). exists db'. split; assumption.
    - destruct P as (_ & E). exact (keeps_unchanged _ _ db s W HR E).
  Qed.

  Lemma keeps_update_by_id : forall c id u, no_semi c = true ->
    keeps (durable (o_db (with_tx (update_by_id_tx c id u) None (mkDb s false)))).
  Proof.
    intros c id u Hc. destruct point_ops_preserve_refinement as (_ & _ & _ & P).
    specialize (P db s c id u W HR Hc). cbv zeta in P. destruct (s_update_by_id c id u db) as [db'|e].
    - destruct P as (_ & R' & W'). exists db'. split; assumption.
    - destruct P as (_ & E). exact (keeps_unchanged _ _ db s W HR E).
  Qed.

  Lemma keeps_create_index : forall c f, no_semi c = true -> no_semi f = true ->
    keeps (durable (o_db (with_tx (create_index_tx c f) None (mkDb s false)))).
  Proof.
    intros c f Hc Hf. pose proof (create_index_refines db s c f W HR Hc Hf) as P.
    cbv zeta in P. destruct (s_create_index c f db) as [db'|e].
    - destruct P as (_ & R' & W'). exists db'. split; assumption.
    - destruct P as (_ & E). exact (keeps_unchanged _ _ db s W HR E).
  Qed.

  Lemma keeps_drop_index : forall c f, no_semi c = true -> no_semi f = true ->
    keeps (durable (o_db (with_tx (drop_index_tx c f) None (mkDb s false)))).
  Proof.
    intros c f Hc Hf. pose proof (drop_index_refines db s c f W HR Hc Hf) as P.
    cbv zeta in P. destruct (s_drop_index c f db) as [db'|e].
    - destruct P as (_ & R' & W'). exists db'. split; assumption.
    - destruct P as (_ & E). exact (keeps_unchanged _ _ db s W HR E).
  Qed.

  Lemma keeps_drop_collection : forall c, no_semi c = true ->
    keeps (durable (o_db (with_tx (drop_collection_tx c) None (mkDb s false)))).
  Proof.
    intros c Hc. pose proof (drop_collection_refines db s c W HR Hc) as P.
    cbv zeta in P. destruct (s_drop c db) as [db'|e].
    - destruct P as (_ & R' & W'). exists db'. split; assumption.
    - destruct P as (_ & E). exact (keeps_unchanged _ _ db s W HR E).
  Qed.

  (* Update / UpdateFunc / Delete: the selection is what FindAll returns inside the transaction *)
  Lemma keeps_update : forall q nq u, query_dom db q -> normalize_query q = Some nq ->
    keeps (durable (o_db (with_tx (update_tx nq u) None (mkDb s false)))).
  Proof.
    intros q nq u (_ & QD) N. rewrite N in QD. destruct QD as (Hskip & QD).
    destruct (assoc (nq_coll nq) db) as [sc|] eqn:A.
    - destruct QD as (m & CD & KD).
      destruct (find_all_refines m db s nq sc W HR A CD KD Hskip) as (sel & E & _ & _).
      destruct (selection_stored m db s nq sc sel W HR A CD KD E) as (St & ND).
      pose proof (update_refines db s nq u sc sel W HR A E St ND) as P. cbv zeta in P.
      destruct (s_apply_sel u sel (sc_docs sc)) as [ds|e].
      + destruct P as (_ & R' & W'). eexists. split; eassumption.
      + destruct P as (_ & E'). exact (keeps_unchanged _ _ db s W HR E').
    - destruct (update_no_collection db s nq u W HR A) as (_ & E').
      exact (keeps_unchanged _ _ db s W HR E').
  Qed.

  Lemma keeps_fail : forall A e,
    keeps (durable (o_db (with_tx (@fail A e) None (mkDb s false)))).
  Proof.
    intros A e. destruct (runs_with_tx A (fail e) s (Err e) s None (runs_fail A e s None)) as (_ & E).
    exact (keeps_unchanged _ _ db s W HR E).
  Qed.
End Bodies.

(* ------------------------------------------------------------------------------------------ *)
(* H1: every operation of the public alphabet preserves the invariant                          *)
(* ------------------------------------------------------------------------------------------ *)

(* the database after an operation made of one transaction *)
Ltac one_tx :=
  rewrite run_tx_with_tx; cbn [snd r_db].

Lemma step_open_keeps : forall db s o, wf_db db -> R db s -> op_dom db o ->
  keeps (durable (snd (step (mkDb s false) o))).
Proof.
  intros db s o W HR D.
  destruct (is_write_op o) eqn:RW;
    [| rewrite (clover_read_pure (mkDb s false) o RW); exact (keeps_same db s W HR)].
  rewrite step_snd.
  destruct o; try discriminate RW; cbn [op_dom] in D; try contradiction;
    unfold exec_op, insert_op.
  - (* OCreateCollection *) one_tx. exact (keeps_create db s W HR c D).
  - (* ODropCollection *) one_tx. exact (keeps_drop_collection db s W HR c D).
  - (* OInsert *) destruct D as (Hc & Hd). one_tx. exact (keeps_insert db s W HR c _ Hc Hd).
  - (* OSave *) destruct D as (Hc & Hd). destruct (needs_id d).
    + one_tx. exact (keeps_insert db s W HR c _ Hc Hd).
    + one_tx. exact (keeps_update_by_id db s W HR c _ _ Hc).
  - (* ODeleteById *) one_tx. exact (keeps_delete_by_id db s W HR c id D).
  - (* OUpdateById *) one_tx. exact (keeps_update_by_id db s W HR c id u D).
  - (* OReplaceById *) destruct (negb (beqb (object_id d) id)).
    + cbn [snd r_db fresh_rstate]. exact (keeps_same db s W HR).
    + one_tx. exact (keeps_update_by_id db s W HR c id _ D).
  - (* OUpdate *) destruct (normalize_query (mk_query q)) as [nq|] eqn:N.
    + one_tx. exact (keeps_update db s W HR (mk_query q) nq _ D N).
    + cbn [snd r_db fresh_rstate]. exact (keeps_same db s W HR).
  - (* OUpdateFunc *) destruct (normalize_query (mk_query q)) as [nq|] eqn:N.
    + one_tx. exact (keeps_update db s W HR (mk_query q) nq _ D N).
    + one_tx. exact (keeps_fail db s W HR unit EOther).
  - (* ODelete *) destruct (normalize_query (mk_query q)) as [nq|] eqn:N.
    + one_tx. exact (keeps_update db s W HR (mk_query q) nq _ D N).
    + cbn [snd r_db fresh_rstate]. exact (keeps_same db s W HR).
  - (* OCreateIndex *) destruct D as (Hc & Hf). one_tx. exact (keeps_create_index db s W HR c f Hc Hf).
  - (* ODropIndex *) destruct D as (Hc & Hf). one_tx. exact (keeps_drop_index db s W HR c f Hc Hf).
  - (* OClose *) cbn [snd r_db fresh_rstate durable]. exact (keeps_same db s W HR).
  - (* OReopen *) cbn [snd r_db fresh_rstate durable]. exact (keeps_same db s W HR).
Qed.

(* H1. Formulation chosen: the invariant is [Rdb'] (no closed-flag requirement), and the operation has to
   be in the domain only when the handle is open -- on a closed handle every operation other than
   Close/Reopen fails without touching anything, and Close/Reopen never touch the durable store. *)
Theorem step_preserves_refinement : forall db h o,
  wf_db db -> Rdb' db h -> (closed h = false -> op_dom db o) ->
  exists db', wf_db db' /\ Rdb' db' (snd (step h o)).
Proof.
  intros db h o W HR D. unfold Rdb' in *.
  destruct (closed h) eqn:C.
  - destruct (handle_op o) eqn:Ho.
    + destruct o; try discriminate Ho; rewrite step_snd; cbn [exec_op snd r_db fresh_rstate durable];
        exists db; split; assumption.
    + rewrite (step_closed o h C Ho). cbn [snd]. exists db; split; assumption.
  - rewrite (open_handle h C). cbn [durable] in HR.
    exact (step_open_keeps db (durable h) o W HR (D eq_refl)).
Qed.

(* the same with the open-handle relation of SpecDB.v, for every operation that is not Close *)
Theorem step_preserves_refinement_open : forall db h o,
  wf_db db -> Rdb db h -> op_dom db o -> o <> OClose ->
  exists db', wf_db db' /\ Rdb db' (snd (step h o)).
Proof.
  intros db h o W [C HR] D NC.
  destruct (step_preserves_refinement db h o W HR (fun _ => D)) as (db' & W' & R').
  exists db'. split; [exact W'|]. split; [|exact R'].
  destruct (single_tx o) eqn:S.
  - exact (step_keeps_open h (mkTxOp o S) C).
  - destruct o; try discriminate S; cbn [op_dom] in D; try contradiction.
    rewrite step_snd. reflexivity.
Qed.

(* The literal statement with [Rdb] on both sides is false: Close is in the domain and leaves a closed handle *)
Theorem step_preserves_Rdb_refuted :
  ~ (forall db h o, wf_db db -> Rdb db h -> op_dom db o -> exists db', wf_db db' /\ Rdb db' (snd (step h o))).
Proof.
  intros H. destruct (H [] empty_db OClose wf_empty) as (db' & _ & C & _).
  - split; [reflexivity | exact R_empty].
  - exact I.
  - discriminate C.
Qed.

(* ------------------------------------------------------------------------------------------ *)
(* H2: along every history of the domain                                                       *)
(* ------------------------------------------------------------------------------------------ *)
Lemma run_ops_cons : forall h o t, snd (run_ops h (o :: t)) = snd (run_ops (snd (step h o)) t).
Proof.
  intros h o t. cbn [run_ops]. destruct (step h o) as [x h']. cbn [snd].
  destruct (run_ops h' t) as [xs h'']. reflexivity.
Qed.

Theorem history_invariant_from : forall ops h db,
  wf_db db -> Rdb' db h -> hist_dom h ops ->
  exists db', wf_db db' /\ R db' (durable (snd (run_ops h ops))).
Proof.
  induction ops as [|o t IH]; intros h db W HR HD.
  - exists db. split; assumption.
  - destruct HD as (Ho & Ht). rewrite run_ops_cons.
    destruct (step_preserves_refinement db h o W HR) as (db1 & W1 & R1).
    + intros C. apply Ho; [exact W|]. split; assumption.
    + exact (IH _ db1 W1 R1 Ht).
Qed.

Theorem history_invariant : forall ops, hist_dom empty_db ops ->
  exists db, wf_db db /\ R db (durable (snd (run_ops empty_db ops))).
Proof. intros ops HD. exact (history_invariant_from ops empty_db [] wf_empty R_empty HD). Qed.

(* ------------------------------------------------------------------------------------------ *)
(* H3: what the invariant says about the store at the end of a history                         *)
(* ------------------------------------------------------------------------------------------ *)
(* stated for the store at the end of a history of the domain and any abstract database it refines (one
   exists by history_invariant); the proofs use the invariant only *)
Definition final_store (ops : list op) : kv := durable (snd (run_ops empty_db ops)).

(* the stored counter is the number of documents *)
Theorem history_count_consistent : forall ops db s,
  hist_dom empty_db ops -> s = final_store ops -> wf_db db -> R db s ->
  forall c sc, assoc c db = Some sc ->
    kv_get (coll_key c) s = Some (SMeta (Z.of_nat (length (sc_docs sc))) (sc_idx sc)).
Proof. intros ops db s _ _ W HR c sc A. rewrite (R_get_meta db s c HR W), A. reflexivity. Qed.

(* every index holds exactly one entry per document, under its current value *)
Theorem history_index_exact : forall ops db s,
  hist_dom empty_db ops -> s = final_store ops -> wf_db db -> R db s ->
  forall c sc f, assoc c db = Some sc -> In f (sc_idx sc) ->
    (forall e, In e s -> is_prefix (idx_prefix c f) (fst e) = true ->
       exists id d, assoc id (sc_docs sc) = Some d /\ e = (idx_key c f (doc_get f d) id, SEmpty)) /\
    (forall id d, assoc id (sc_docs sc) = Some d -> In (idx_key c f (doc_get f d) id, SEmpty) s).
Proof.
  intros ops db s _ _ W HR c sc f A F. split.
  - intros e He Hp.
    destruct (R_idx_prefix_entries db s c f HR W (wf_coll_name db c sc W A) (wf_idx_name db c sc f W A F)
                e He Hp) as (sc' & id & d & A' & Hd & _ & E).
    rewrite A in A'. injection A' as <-. exists id, d. split; assumption.
  - intros id d Hd. exact (proj1 (R_idx_entry_in db s c sc f id d HR A Hd F)).
Qed.

(* C12: ids are unique within a collection and are the documents' own *)
Theorem history_ids_unique : forall ops db s,
  hist_dom empty_db ops -> s = final_store ops -> wf_db db -> R db s ->
  forall c sc, assoc c db = Some sc ->
    NoDup (map fst (sc_docs sc)) /\ forall id d, assoc id (sc_docs sc) = Some d -> object_id d = id.
Proof.
  intros ops db s _ _ W _ c sc A. split; [exact (wf_docs_NoDup db c sc W A)|].
  intros id d Hd. exact (wf_doc_object_id db c sc id d W A Hd).
Qed.

(* C13: the catalog of the store is the catalog of the abstract database *)
Theorem history_catalog : forall ops db s,
  hist_dom empty_db ops -> s = final_store ops -> wf_db db -> R db s ->
  forall c, kv_get (coll_key c) s <> None <-> assoc c db <> None.
Proof.
  intros ops db s _ _ W HR c. rewrite (R_get_meta db s c HR W).
  destruct (assoc c db); split; intros H; congruence.
Qed.

(* packaged: for every history of the domain there is an abstract database with all of the above *)
Theorem history_consistent : forall ops, hist_dom empty_db ops ->
  let s := durable (snd (run_ops empty_db ops)) in
  exists db, wf_db db /\ R db s /\
    (forall c sc, assoc c db = Some sc ->
       kv_get (coll_key c) s = Some (SMeta (Z.of_nat (length (sc_docs sc))) (sc_idx sc)) /\
       NoDup (map fst (sc_docs sc)) /\
       (forall id d, assoc id (sc_docs sc) = Some d -> object_id d = id) /\
       forall f, In f (sc_idx sc) ->
         (forall e, In e s -> is_prefix (idx_prefix c f) (fst e) = true ->
            exists id d, assoc id (sc_docs sc) = Some d /\ e = (idx_key c f (doc_get f d) id, SEmpty)) /\
         (forall id d, assoc id (sc_docs sc) = Some d -> In (idx_key c f (doc_get f d) id, SEmpty) s)) /\
    (forall c, kv_get (coll_key c) s <> None <-> assoc c db <> None).
Proof.
  intros ops HD s. destruct (history_invariant ops HD) as (db & W & HR). fold s in HR.
  assert (Es : s = final_store ops) by reflexivity.
  exists db. split; [exact W|]. split; [exact HR|]. split.
  - intros c sc A. split; [exact (history_count_consistent ops db s HD Es W HR c sc A)|].
    destruct (history_ids_unique ops db s HD Es W HR c sc A) as (ND & Hid).
    split; [exact ND|]. split; [exact Hid|].
    intros f F. exact (history_index_exact ops db s HD Es W HR c sc f A F).
  - exact (history_catalog ops db s HD Es W HR).
Qed.

(* ------------------------------------------------------------------------------------------ *)
(* H4: an operation that reports an error has changed nothing                                  *)
(* ------------------------------------------------------------------------------------------ *)
Theorem history_errors_no_effect : forall h o,
  single_tx o = true -> T_is_err (fst (step h o)) = true -> snd (step h o) = h.
Proof.
  intros h o S E. rewrite step_snd. rewrite step_fst in E.
  exact (exec_op_error_no_effect o (fresh_rstate h None) S E).
Qed.

(* ------------------------------------------------------------------------------------------ *)
(* H5: a decidable sufficient condition for [hist_dom], and a concrete history                 *)
(* ------------------------------------------------------------------------------------------ *)

(* every document stored under collection c is in regime m and in the key-order domain *)
Definition store_docs_ok (m : bool) (c : bytes) (s : kv) : bool :=
  forallb (fun e => negb (is_prefix (doc_prefix c) (fst e)) ||
                    match snd e with
                    | SDoc w => regime m (VObj (doc_decode w)) && key_dom (VObj (doc_decode w))
                    | _ => true
                    end) s.

Definition crit_domb (m : bool) (crit : option ncrit) : bool :=
  match crit with
  | None => true
  | Some c => crit_lits_ok (regime m) c && crit_lits_ok key_dom c
  end.

Definition query_domb (s : kv) (q : query) : bool :=
  no_semi (q_coll q) &&
  match normalize_query q with
  | None => true
  | Some nq =>
      (0 <=? nq_skip nq) &&
      existsb (fun m => store_docs_ok m (nq_coll nq) s && crit_domb m (nq_crit nq)) [true; false]
  end.

Lemma store_docs_ok_coll_dom : forall m db s c sc, wf_db db -> R db s -> assoc c db = Some sc ->
  store_docs_ok m c s = true -> coll_dom m sc.
Proof.
  intros m db s c sc W HR A H. apply coll_dom_of_values. intros id d Hin.
  apply (assoc_In id d (sc_docs sc) (wf_docs_NoDup db c sc W A)) in Hin.
  destruct (R_doc_entry_in db s c sc id d HR A Hin) as (He & Hp).
  unfold store_docs_ok in H. rewrite forallb_forall in H. specialize (H _ He).
  cbn [fst snd] in H. rewrite Hp, decode_encode in H. cbn [negb orb] in H.
  apply andb_true_iff in H. exact H.
Qed.

Lemma crit_domb_sound : forall m crit, crit_domb m crit = true -> crit_dom m crit.
Proof.
  intros m [c|] H; [|exact I]. cbn [crit_domb crit_dom] in *. apply andb_true_iff in H. exact H.
Qed.

Lemma query_domb_sound : forall s q, query_domb s q = true ->
  forall db, wf_db db -> R db s -> query_dom db q.
Proof.
  intros s q H db W HR. unfold query_domb in H. apply andb_true_iff in H. destruct H as (Hc & H).
  split; [exact Hc|]. destruct (normalize_query q) as [nq|]; [|exact I].
  apply andb_true_iff in H. destruct H as (Hs & H). split; [apply Z.leb_le; exact Hs|].
  destruct (assoc (nq_coll nq) db) as [sc|] eqn:A; [|exact I].
  apply existsb_exists in H. destruct H as (m & _ & H). apply andb_true_iff in H. destruct H as (H1 & H2).
  exists m. split.
  - exact (store_docs_ok_coll_dom m db s (nq_coll nq) sc W HR A H1).
  - exact (crit_domb_sound m _ H2).
Qed.

Definition ids_okb (docs : list obj) : bool := forallb (fun d => canonical_id (object_id d)) docs.

Lemma ids_okb_sound : forall docs, ids_okb docs = true -> docs_have_ids docs.
Proof. intros docs H d Hd. unfold ids_okb in H. rewrite forallb_forall in H. exact (H d Hd). Qed.

Definition op_domb (s : kv) (o : op) : bool :=
  match o with
  | OCreateCollection c | ODropCollection c | OHasCollection c | OListIndexes c => no_semi c
  | OListCollections | OClose | OReopen => true
  | OInsert c docs fresh => no_semi c && ids_okb (assign_ids docs fresh)
  | OSave c d fresh => no_semi c && ids_okb (assign_ids [d] [fresh])
  | OFindAll q _ | OCount q | OExists q | OFindFirst q | OForEach q _ _ | ODelete q
  | OUpdate q _ | OUpdateFunc q _ => query_domb s (mk_query q)
  | OFindById c _ | ODeleteById c _ | OUpdateById c _ _ | OReplaceById c _ _ => no_semi c
  | OCreateIndex c f | ODropIndex c f | OHasIndex c f => no_semi c && no_semi f
  | OExport _ | OImport _ _ | OCreateByQuery _ _ => false
  end.

Lemma op_domb_sound : forall s o, op_domb s o = true ->
  forall db, wf_db db -> R db s -> op_dom db o.
Proof.
  intros s o H db W HR.
  destruct o; cbn [op_domb op_dom] in *; try exact H; try exact I; try discriminate H;
    try (apply andb_true_iff in H; destruct H as (H1 & H2); split;
         [exact H1 | first [exact H2 | exact (ids_okb_sound _ H2)]]);
    exact (query_domb_sound s _ H db W HR).
Qed.

Fixpoint hist_domb (h : dbst) (ops : list op) : bool :=
  match ops with
  | [] => true
  | o :: t => (closed h || op_domb (durable h) o) && hist_domb (snd (step h o)) t
  end.

Theorem hist_domb_sound : forall ops h, hist_domb h ops = true -> hist_dom h ops.
Proof.
  induction ops as [|o t IH]; intros h H; [exact I|].
  cbn [hist_domb hist_dom] in *. apply andb_true_iff in H. destruct H as (H1 & H2).
  split; [|exact (IH _ H2)].
  intros db W [C HR]. rewrite C in H1. cbn [orb] in H1. exact (op_domb_sound _ o H1 db W HR).
Qed.

(* collections "t" and "tt"; an index on "a" of "t"; two documents; update one by id; delete those with
   1 <= a < 7; drop the index *)
Definition hx_c2 : bytes := [116%N; 116%N].
Definition hx_id3 : bytes := ex_uuid 98%N.
Definition hx_d3 : obj := [(id_field, VStr hx_id3); (ex_f, VInt 3)].
Definition hx_crit : gcrit :=
  CAnd (CCmp OGtEq ex_f (OLit (GInt 0 1))) (CCmp OLt ex_f (OLit (GInt 0 7))).

Definition hx_history : list op :=
  [ OCreateCollection ex_c;
    OCreateCollection hx_c2;
    OCreateIndex ex_c ex_f;
    OInsert ex_c [ex_d1; ex_d2] [];
    OInsert hx_c2 [hx_d3] [];
    OUpdateById ex_c ex_id2 (UFunSet ex_f (VInt 9));
    ODelete (ex_c, [QWhere hx_crit]);
    ODropIndex ex_c ex_f ].

Example hx_history_in_domain : hist_dom empty_db hx_history.
Proof. apply hist_domb_sound. vm_compute. reflexivity. Qed.

(* the history is not a sequence of failures: every operation succeeds, and the final store holds the
   surviving document of "t" (updated), the document of "tt", two counters and no index entry *)
Example hx_history_runs :
  fst (run_ops empty_db hx_history) = repeat (T_ok (TL [])) 8 /\
  durable (snd (run_ops empty_db hx_history)) =
    [ (doc_key ex_c ex_id2, SDoc (doc_encode (doc_set ex_f (VInt 9) ex_d2)));
      (doc_key hx_c2 hx_id3, SDoc (doc_encode hx_d3));
      (coll_key ex_c, SMeta 1 []);
      (coll_key hx_c2, SMeta 1 []) ].
Proof. split; vm_compute; reflexivity. Qed.

Example hx_history_invariant :
  exists db, wf_db db /\ R db (durable (snd (run_ops empty_db hx_history))).
Proof. exact (history_invariant hx_history hx_history_in_domain). Qed.

Example hx_history_consistent :
  let s := durable (snd (run_ops empty_db hx_history)) in
  exists db, wf_db db /\ R db s /\
    assoc ex_c db <> None /\ assoc hx_c2 db <> None /\
    forall c sc, assoc c db = Some sc ->
      kv_get (coll_key c) s = Some (SMeta (Z.of_nat (length (sc_docs sc))) (sc_idx sc)).
Proof.
  intros s. destruct (history_consistent hx_history hx_history_in_domain) as (db & W & HR & Hc & Hcat).
  fold s in HR, Hc, Hcat. exists db. split; [exact W|]. split; [exact HR|].
  split; [|split].
  - apply Hcat. vm_compute. discriminate.
  - apply Hcat. vm_compute. discriminate.
  - intros c sc A. exact (proj1 (Hc c sc A)).
Qed.

Print Assumptions step_preserves_refinement.
Print Assumptions step_preserves_refinement_open.
Print Assumptions step_preserves_Rdb_refuted.
Print Assumptions history_invariant.
Print Assumptions history_count_consistent.
Print Assumptions history_index_exact.
Print Assumptions history_ids_unique.
Print Assumptions history_catalog.
Print Assumptions history_consistent.
Print Assumptions history_errors_no_effect.
Print Assumptions hist_domb_sound.
Print Assumptions hx_history_in_domain.
Print Assumptions hx_history_runs.
Print Assumptions hx_history_invariant.
Print Assumptions hx_history_consistent.

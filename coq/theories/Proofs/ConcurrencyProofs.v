(** * Proofs about [Spec/Concurrency.v] (property C07)

    Generic linearizability of "one operation = one store transaction" under
    the single-writer / snapshot-reader discipline, for ANY sequential
    specification [step], any number of clients and any interleaving allowed
    by [trans].

    Main results (all for executions starting in [init s0]):

      L1  [lin_replay]                   the durable state is the sequential
                                         replay of [lin_of tr], and every
                                         recorded result is the one [step]
                                         gives at its position;
      L2  [returns_are_linearised]       each returned call has exactly its
                                         linearisation point between its
                                         invoke and its return;
          [linearised_has_invoke]        each linearisation point belongs to an
                                         invoked call (also for calls that have
                                         not returned yet);
      L3  [real_time_respected]          A returns before B is invoked =>
                                         A is before B in [lin_of tr];
      L4  [reads_see_committed_prefix]   a reader's result is computed on the
                                         replay of whole committed operations;
      L5  [abort_no_effect], [abort_not_linearised],
          [aborted_never_linearised]     rolled-back writes change nothing and
                                         are not in [lin_of tr];
      L6  [one_writer]                   mutual exclusion;
      L7  [Demo]                         a concrete counter instance. *)

From Coq Require Import List Arith Bool Lia.
Import ListNotations.
From Clover Require Import Concurrency.

(** ** Functional update *)

Lemma upd_same : forall (A : Type) (f : client -> A) c x, upd f c x c = x.
Proof. intros. unfold upd. now rewrite Nat.eqb_refl. Qed.

Lemma upd_other : forall (A : Type) (f : client -> A) c c' x,
  c' <> c -> upd f c x c' = f c'.
Proof.
  intros A f c c' x H. unfold upd.
  destruct (Nat.eqb_spec c' c); [contradiction | reflexivity].
Qed.

(** ** Lists *)

Lemma nth_error_snoc_lt : forall (A : Type) (l : list A) e m,
  m < length l -> nth_error (l ++ [e]) m = nth_error l m.
Proof. intros. now apply nth_error_app1. Qed.

Lemma nth_error_snoc_eq : forall (A : Type) (l : list A) e,
  nth_error (l ++ [e]) (length l) = Some e.
Proof. intros. rewrite nth_error_app2 by lia. now rewrite Nat.sub_diag. Qed.

Lemma nth_error_firstn_lt : forall (A : Type) (l : list A) i m,
  m < i -> nth_error (firstn i l) m = nth_error l m.
Proof.
  intros A l. induction l as [|a l IH]; intros i m H.
  - now rewrite firstn_nil.
  - destruct i as [|i]; [lia|]. destruct m as [|m]; simpl; [reflexivity|].
    apply IH. lia.
Qed.

Ltac upd_cases c' c :=
  destruct (Nat.eq_dec c' c) as [->|?];
  [ rewrite ?upd_same in * | rewrite ?upd_other in * by assumption ].

Section ConcurrencyProofs.

  Variables State Op Res : Type.
  Variable step : State -> Op -> Res * State.
  Variable is_write : Op -> bool.

  (** The only assumption: read operations do not change the state. *)
  Hypothesis read_pure : forall s o, is_write o = false -> snd (step s o) = s.

  Local Notation sys := (Concurrency.sys State Op Res).
  Local Notation cstate := (Concurrency.cstate State Op Res).
  Local Notation event := (Concurrency.event Op Res).
  Local Notation lin_entry := (Concurrency.lin_entry Op Res).
  Local Notation trans := (Concurrency.trans step is_write).
  Local Notation exec := (Concurrency.exec step is_write).
  Local Notation replay_ok := (Concurrency.replay_ok step).

  (** ** Executions *)

  Lemma exec_app : forall t1 t2 (s s1 s2 : sys),
    exec s t1 s1 -> exec s1 t2 s2 -> exec s (t1 ++ t2) s2.
  Proof.
    intros t1 t2 s s1 s2 H. induction H; intros H2; simpl; [assumption|].
    econstructor; eauto.
  Qed.

  Lemma exec_snoc : forall tr e (s s1 s2 : sys),
    exec s tr s1 -> trans s1 e s2 -> exec s (tr ++ [e]) s2.
  Proof.
    intros. eapply exec_app; [eassumption|]. econstructor; [eassumption|constructor].
  Qed.

  Lemma exec_app_inv : forall t1 t2 (s s2 : sys),
    exec s (t1 ++ t2) s2 -> exists s1, exec s t1 s1 /\ exec s1 t2 s2.
  Proof.
    induction t1 as [|e t1 IH]; intros t2 s s2 H; simpl in H.
    - exists s. split; [constructor | assumption].
    - inversion H; subst.
      destruct (IH _ _ _ H5) as [s1 [Ha Hb]].
      exists s1. split; [econstructor; eassumption | assumption].
  Qed.

  Lemma exec_snoc_inv : forall tr e (s s2 : sys),
    exec s (tr ++ [e]) s2 -> exists s1, exec s tr s1 /\ trans s1 e s2.
  Proof.
    intros tr e s s2 H. apply exec_app_inv in H. destruct H as [s1 [Ha Hb]].
    exists s1. split; [assumption|].
    inversion Hb; subst. inversion H4; subst. assumption.
  Qed.

  (** Induction on executions from the end of the trace. *)
  Lemma exec_rev_ind : forall (s0 : sys) (P : list event -> sys -> Prop),
    P [] s0 ->
    (forall tr s e s', exec s0 tr s -> P tr s -> trans s e s' -> P (tr ++ [e]) s') ->
    forall tr s, exec s0 tr s -> P tr s.
  Proof.
    intros s0 P H0 HS tr. induction tr as [|e tr IH] using rev_ind; intros s H.
    - inversion H; subst. assumption.
    - apply exec_snoc_inv in H. destruct H as [s1 [Ha Hb]].
      eapply HS; eauto.
  Qed.

  (** The state just before and just after the event at position [i]. *)
  Lemma exec_split_at : forall (s0 s : sys) tr i e,
    exec s0 tr s -> nth_error tr i = Some e ->
    exists s1 s2,
      exec s0 (firstn i tr) s1 /\ trans s1 e s2 /\ length (firstn i tr) = i.
  Proof.
    intros s0 s tr i e H Hn.
    destruct (nth_error_split _ _ Hn) as [l1 [l2 [-> Hl]]].
    assert (Hf : firstn i (l1 ++ e :: l2) = l1).
    { subst i. rewrite firstn_app, Nat.sub_diag, firstn_all. simpl.
      now rewrite app_nil_r. }
    rewrite Hf.
    apply exec_app_inv in H. destruct H as [s1 [Ha Hb]].
    inversion Hb; subst.
    exists s1, s'. auto.
  Qed.

  (** ** Linearisation and replay: list facts *)

  Lemma lin_of_app : forall (a b : list event),
    lin_of (a ++ b) = lin_of a ++ lin_of b.
  Proof.
    induction a as [|e a IH]; intros b; simpl; [reflexivity|].
    rewrite IH. destruct (lin_event e); reflexivity.
  Qed.

  Lemma replay_ok_app : forall (l1 l2 : list lin_entry) s s1 s2,
    replay_ok s l1 s1 -> replay_ok s1 l2 s2 -> replay_ok s (l1 ++ l2) s2.
  Proof.
    induction l1 as [|[[c o] r] l1 IH]; intros l2 s s1 s2 H1 H2; simpl in *.
    - subst. assumption.
    - destruct H1 as [Hr H1]. split; [assumption|]. eapply IH; eauto.
  Qed.

  Lemma replay_ok_app_inv : forall (l1 l2 : list lin_entry) s s2,
    replay_ok s (l1 ++ l2) s2 ->
    exists s1, replay_ok s l1 s1 /\ replay_ok s1 l2 s2.
  Proof.
    induction l1 as [|[[c o] r] l1 IH]; intros l2 s s2 H; simpl in *.
    - exists s. auto.
    - destruct H as [Hr H]. destruct (IH _ _ _ H) as [s1 [Ha Hb]].
      exists s1. auto.
  Qed.

  (** [replay_ok] determines the final state. *)
  Lemma replay_ok_fun : forall (l : list lin_entry) s s1 s2,
    replay_ok s l s1 -> replay_ok s l s2 -> s1 = s2.
  Proof.
    induction l as [|[[c o] r] l IH]; intros s s1 s2 H1 H2; simpl in *.
    - congruence.
    - destruct H1, H2. eauto.
  Qed.

  Lemma lin_of_In : forall (tr : list event) c o r,
    In (c, o, r) (lin_of tr) <-> In (EBeginRead c o r) tr \/ In (ECommit c o r) tr.
  Proof.
    induction tr as [|e tr IH]; intros c o r; simpl.
    - tauto.
    - destruct e; simpl; rewrite ?IH;
        (split; [intros [H|H] | intros [[H|H]|[H|H]]]);
        try discriminate; try (inversion H; subst); tauto.
  Qed.

  (** ** The lock invariant (mutual exclusion)

      A client is inside a write transaction iff it holds the lock, and then
      the state it began on is still the durable state: nobody else can have
      committed in between. *)
  Definition lock_inv (s : sys) : Prop :=
    (forall c snap o, cl s c = CWriting snap o ->
                      lock s = Some c /\ snap = durable s) /\
    (forall c, lock s = Some c -> exists o, cl s c = CWriting (durable s) o).

  Lemma lock_inv_init : forall s0, lock_inv (init s0).
  Proof. intros s0. split; simpl; intros; discriminate. Qed.

  Lemma lock_inv_trans : forall (s s' : sys) e,
    lock_inv s -> trans s e s' -> lock_inv s'.
  Proof.
    intros s s' e [H1 H2] T.
    inversion T; subst; split; simpl; intros c' ?; intros;
      upd_cases c' c; try discriminate; eauto;
      try (match goal with
           | Hl : lock _ = Some ?c, Hc : cl _ ?c = _ |- _ =>
               destruct (H2 _ Hl) as [? ?]; congruence
           end);
      try (match goal with
           | Hw : cl _ _ = CWriting _ _ |- _ =>
               destruct (H1 _ _ _ Hw) as [? ?]; congruence
           end);
      try (match goal with
           | Hw : CWriting _ _ = CWriting _ _ |- _ =>
               inversion Hw; subst; auto
           end);
      try congruence.
  Qed.

  Lemma lock_inv_exec : forall s0 tr (s : sys),
    exec (init s0) tr s -> lock_inv s.
  Proof.
    intros s0 tr s H. pattern tr, s. eapply exec_rev_ind; [| |exact H].
    - apply lock_inv_init.
    - intros. eapply lock_inv_trans; eauto.
  Qed.

  (** ** L6: at most one writer *)

  Theorem one_writer : forall s0 tr (s : sys),
    exec (init s0) tr s ->
    forall c1 c2 sn1 o1 sn2 o2,
      cl s c1 = CWriting sn1 o1 -> cl s c2 = CWriting sn2 o2 -> c1 = c2.
  Proof.
    intros s0 tr s H c1 c2 sn1 o1 sn2 o2 W1 W2.
    destruct (lock_inv_exec _ _ _ H) as [H1 _].
    destruct (H1 _ _ _ W1) as [L1 _]. destruct (H1 _ _ _ W2) as [L2 _].
    congruence.
  Qed.

  (** The writer is the lock holder and works on the current durable state. *)
  Theorem writer_holds_lock : forall s0 tr (s : sys) c snap o,
    exec (init s0) tr s -> cl s c = CWriting snap o ->
    lock s = Some c /\ snap = durable s.
  Proof. intros. eapply (proj1 (lock_inv_exec _ _ _ H)); eauto. Qed.

  Theorem lock_holder_is_writer : forall s0 tr (s : sys) c,
    exec (init s0) tr s -> lock s = Some c ->
    exists o, cl s c = CWriting (durable s) o.
  Proof. intros. eapply (proj2 (lock_inv_exec _ _ _ H)); eauto. Qed.

  (** While the lock is held nobody can begin a write transaction. *)
  Theorem no_second_writer : forall (s s' : sys) c c' o,
    lock s = Some c -> ~ trans s (EBeginWrite c' o) s'.
  Proof. intros s s' c c' o L T. inversion T; subst. congruence. Qed.

  (** ** L1: the durable state is the replay of the linearisation *)

  Theorem lin_replay : forall s0 tr (s : sys),
    exec (init s0) tr s -> replay_ok s0 (lin_of tr) (durable s).
  Proof.
    intros s0 tr s H. pattern tr, s. eapply exec_rev_ind; [| |exact H].
    - simpl. reflexivity.
    - clear tr s H. intros tr s e s' E IH T.
      pose proof (lock_inv_exec _ _ _ E) as [L1 _].
      rewrite lin_of_app.
      inversion T; subst; simpl; rewrite ?app_nil_r; try assumption.
      + (* begin read: the result is computed on the durable state, which the
           read leaves unchanged *)
        eapply replay_ok_app; [eassumption|]. simpl. split; [reflexivity|].
        symmetry. now apply read_pure.
      + (* commit: by mutual exclusion the snapshot is still the durable state *)
        match goal with Hw : cl _ _ = CWriting _ _ |- _ =>
          destruct (L1 _ _ _ Hw) as [_ ->] end.
        eapply replay_ok_app; [eassumption|]. simpl. split; reflexivity.
  Qed.

  (** ** L5: aborts have no effect *)

  Theorem abort_no_effect : forall (s s' : sys) ev c o,
    trans s ev s' -> ev = EAbort c o -> durable s' = durable s.
  Proof. intros s s' ev c o T ->. inversion T; subst. reflexivity. Qed.

  Theorem abort_not_linearised : forall (tr : list event) c o,
    lin_event (EAbort c o : event) = None /\
    lin_of (tr ++ [EAbort c o]) = lin_of tr.
  Proof.
    intros. split; [reflexivity|]. rewrite lin_of_app. simpl. apply app_nil_r.
  Qed.

  (** Only the durable-state-changing events are commits. *)
  Theorem only_commit_changes_durable : forall (s s' : sys) e,
    trans s e s' ->
    durable s' = durable s \/ exists c o r, e = ECommit c o r.
  Proof. intros s s' e T. inversion T; subst; simpl; eauto. Qed.

  (** ** Phases: what the trace looks like, seen from one client

      For each client, its current state determines the shape of the tail of
      the trace restricted to that client. *)
  Definition phase (tr : list event) (c : client) (st : cstate) : Prop :=
    match st with
    | CIdle => True
    | CPending o =>
        exists k, k < length tr /\ invoked_at tr k c o /\
                  own_quiet tr c o k (length tr) None
    | CReading o r =>
        exists k j, k < j < length tr /\ invoked_at tr k c o /\
                    nth_error tr j = Some (EBeginRead c o r) /\
                    own_quiet tr c o k (length tr) (Some j)
    | CWriting _ o =>
        exists k, k < length tr /\ invoked_at tr k c o /\
                  own_quiet tr c o k (length tr) None
    | CDone o r =>
        exists k j, k < j < length tr /\ invoked_at tr k c o /\
                    linearised_at tr j c o r /\
                    own_quiet tr c o k (length tr) (Some j)
    end.

  Lemma own_quiet_weaken : forall (tr : list event) c o k i j,
    own_quiet tr c o k i None -> own_quiet tr c o k i j.
  Proof.
    intros tr c o k i j H m e Hm _ Hn Hc. apply (H m e); auto. discriminate.
  Qed.

  Lemma own_quiet_snoc : forall (tr : list event) c o k j e,
    own_quiet tr c o k (length tr) j ->
    (event_client e = c -> op_internal c o e \/ j = Some (length tr)) ->
    own_quiet (tr ++ [e]) c o k (length (tr ++ [e])) j.
  Proof.
    intros tr c o k j e H He m e' Hm Hj Hn Hc.
    rewrite app_length in Hm. simpl in Hm.
    destruct (Nat.eq_dec m (length tr)) as [->|Hne].
    - rewrite nth_error_snoc_eq in Hn. inversion Hn; subst e'.
      destruct (He Hc) as [?|Hj']; [assumption|].
      exfalso. apply Hj. now rewrite Hj'.
    - rewrite nth_error_snoc_lt in Hn by lia.
      apply (H m e'); auto. lia.
  Qed.

  Lemma own_quiet_empty : forall (tr : list event) c o k j,
    own_quiet tr c o k (S k) j.
  Proof. intros tr c o k j m e Hm. lia. Qed.

  Lemma own_quiet_firstn : forall (tr : list event) c o k i j,
    own_quiet (firstn i tr) c o k i j -> own_quiet tr c o k i j.
  Proof.
    intros tr c o k i j H m e Hm Hj Hn Hc. apply (H m e); auto.
    rewrite nth_error_firstn_lt by lia. assumption.
  Qed.

  Lemma phase_snoc_other : forall (tr : list event) c st e,
    phase tr c st -> event_client e <> c -> phase (tr ++ [e]) c st.
  Proof.
    intros tr c st e P Hc.
    assert (Hlen : length (tr ++ [e]) = S (length tr))
      by (rewrite app_length; simpl; lia).
    destruct st as [|o|o r|snap o|o r]; simpl in *.
    - exact I.
    - destruct P as [k [Hk [Hi Hq]]]. exists k. split; [lia|]. split.
      + unfold invoked_at in *. now rewrite nth_error_snoc_lt.
      + apply own_quiet_snoc; [assumption | intros; contradiction].
    - destruct P as [k [j [Hk [Hi [Hj Hq]]]]]. exists k, j.
      split; [lia|]. split; [|split].
      + unfold invoked_at in *. rewrite nth_error_snoc_lt; [assumption|lia].
      + rewrite nth_error_snoc_lt; [assumption|lia].
      + apply own_quiet_snoc; [assumption | intros; contradiction].
    - destruct P as [k [Hk [Hi Hq]]]. exists k. split; [lia|]. split.
      + unfold invoked_at in *. now rewrite nth_error_snoc_lt.
      + apply own_quiet_snoc; [assumption | intros; contradiction].
    - destruct P as [k [j [Hk [Hi [Hj Hq]]]]]. exists k, j.
      split; [lia|]. split; [|split].
      + unfold invoked_at in *. rewrite nth_error_snoc_lt; [assumption|lia].
      + unfold linearised_at in *.
        rewrite nth_error_snoc_lt; [assumption|lia].
      + apply own_quiet_snoc; [assumption | intros; contradiction].
  Qed.

  Lemma trans_cl_other : forall (s s' : sys) e c,
    trans s e s' -> c <> event_client e -> cl s' c = cl s c.
  Proof.
    intros s s' e c T Hc. inversion T; subst; simpl in *;
      now rewrite upd_other.
  Qed.

  Lemma phase_exec : forall s0 tr (s : sys),
    exec (init s0) tr s -> forall c, phase tr c (cl s c).
  Proof.
    intros s0 tr s H. pattern tr, s. eapply exec_rev_ind; [| |exact H].
    - intros c. simpl. exact I.
    - clear tr s H. intros tr s e s' E IH T c.
      assert (Hlen : length (tr ++ [e]) = S (length tr))
        by (rewrite app_length; simpl; lia).
      destruct (Nat.eq_dec c (event_client e)) as [Heq|Hne].
      2:{ rewrite (trans_cl_other _ _ _ _ T Hne).
          apply phase_snoc_other; auto. }
      specialize (IH c).
      inversion T; subst; simpl in *; rewrite upd_same;
        match goal with Hc : cl s _ = _ |- _ => rewrite Hc in IH end;
        simpl in IH.
      + (* invoke *)
        exists (length tr). split; [lia|]. split.
        * apply nth_error_snoc_eq.
        * rewrite Hlen. apply own_quiet_empty.
      + (* begin read *)
        destruct IH as [k [Hk [Hi Hq]]]. exists k, (length tr).
        split; [lia|]. split; [|split].
        * unfold invoked_at in *. now rewrite nth_error_snoc_lt.
        * apply nth_error_snoc_eq.
        * apply own_quiet_snoc; [now apply own_quiet_weaken | auto].
      + (* end read *)
        destruct IH as [k [j [Hk [Hi [Hj Hq]]]]]. exists k, j.
        split; [lia|]. split; [|split].
        * unfold invoked_at in *. rewrite nth_error_snoc_lt; [assumption|lia].
        * left. rewrite nth_error_snoc_lt; [assumption|lia].
        * apply own_quiet_snoc; [assumption|]. intros _. left. right. reflexivity.
      + (* begin write *)
        destruct IH as [k [Hk [Hi Hq]]]. exists k. split; [lia|]. split.
        * unfold invoked_at in *. now rewrite nth_error_snoc_lt.
        * apply own_quiet_snoc; [assumption|]. intros _. left. left. reflexivity.
      + (* commit *)
        destruct IH as [k [Hk [Hi Hq]]]. exists k, (length tr).
        split; [lia|]. split; [|split].
        * unfold invoked_at in *. now rewrite nth_error_snoc_lt.
        * right. apply nth_error_snoc_eq.
        * apply own_quiet_snoc; [now apply own_quiet_weaken | auto].
      + (* abort *) exact I.
      + (* return *) exact I.
  Qed.

  (** ** L2: the linearisation point lies between invoke and return *)

  (** Every linearisation point belongs to a call that was invoked before it,
      and since that invoke the client has done nothing but internal steps of
      that call.  (This also covers calls that have not returned yet.) *)
  Theorem linearised_has_invoke : forall s0 tr (s : sys) c o r j,
    exec (init s0) tr s ->
    linearised_at tr j c o r ->
    exists k, k < j /\ nth_error tr k = Some (EInvoke c o) /\
              own_quiet tr c o k j None.
  Proof.
    intros s0 tr s c o r j H L.
    assert (exists e, nth_error tr j = Some e /\
                      (e = EBeginRead c o r \/ e = ECommit c o r)) as [e [Hn He]].
    { destruct L as [L|L]; eexists; split; eauto. }
    destruct (exec_split_at _ _ _ _ _ H Hn) as [s1 [s2 [E [T Hlen]]]].
    pose proof (phase_exec _ _ _ E c) as P.
    destruct He as [->| ->]; inversion T; subst;
      match goal with Hc : cl s1 _ = _ |- _ => rewrite Hc in P end;
      simpl in P; rewrite Hlen in P;
      destruct P as [k [Hk [Hi Hq]]]; exists k;
      (split; [assumption|]); (split; [|now apply own_quiet_firstn]);
      unfold invoked_at in Hi; now rewrite nth_error_firstn_lt in Hi.
  Qed.

  Theorem returns_are_linearised : forall s0 tr (s : sys) c o r i,
    exec (init s0) tr s ->
    nth_error tr i = Some (EReturn c o r) ->
    exists j, j < i /\
      (nth_error tr j = Some (EBeginRead c o r) \/
       nth_error tr j = Some (ECommit c o r)) /\
      exists k, k < j /\ nth_error tr k = Some (EInvoke c o) /\
        (* between its invoke [k] and its return [i], and apart from [j],
           client [c] does only internal steps of this very operation *)
        own_quiet tr c o k i (Some j).
  Proof.
    intros s0 tr s c o r i H Hn.
    destruct (exec_split_at _ _ _ _ _ H Hn) as [s1 [s2 [E [T Hlen]]]].
    pose proof (phase_exec _ _ _ E c) as P.
    inversion T; subst.
    match goal with Hc : cl s1 _ = _ |- _ => rewrite Hc in P end.
    simpl in P. rewrite Hlen in P.
    destruct P as [k [j [Hk [Hi [Hj Hq]]]]].
    exists j. split; [lia|]. split.
    - unfold linearised_at in Hj.
      rewrite !nth_error_firstn_lt in Hj by lia. assumption.
    - exists k. split; [lia|]. split.
      + unfold invoked_at in Hi. rewrite nth_error_firstn_lt in Hi by lia.
        assumption.
      + now apply own_quiet_firstn.
  Qed.

  (** The same facts phrased with [lin_point_of]. *)
  Lemma op_internal_not_invoke : forall c o o' (e : event),
    op_internal c o e -> e <> EInvoke c o'.
  Proof. intros c o o' e [->| ->]; discriminate. Qed.

  Corollary linearised_lin_point : forall s0 tr (s : sys) c o r j,
    exec (init s0) tr s ->
    linearised_at tr j c o r ->
    exists k, lin_point_of tr c o r k j.
  Proof.
    intros s0 tr s c o r j H L.
    destruct (linearised_has_invoke _ _ _ _ _ _ _ H L) as [k [Hk [Hi Hq]]].
    exists k. repeat split; try assumption.
    intros m o' Hm Hn.
    eapply op_internal_not_invoke; [|reflexivity].
    eapply (Hq m); eauto. discriminate.
  Qed.

  Corollary return_lin_point : forall s0 tr (s : sys) c o r i,
    exec (init s0) tr s ->
    returned_at tr i c o r ->
    exists k j, lin_point_of tr c o r k j /\ j < i /\
                own_quiet tr c o k i (Some j).
  Proof.
    intros s0 tr s c o r i H R.
    destruct (returns_are_linearised _ _ _ _ _ _ _ H R)
      as [j [Hj [L [k [Hk [Hi Hq]]]]]].
    exists k, j. repeat split; try assumption.
    intros m o' Hm Hn.
    eapply op_internal_not_invoke; [|reflexivity].
    eapply (Hq m); eauto; [lia|]. intros Heq. inversion Heq. lia.
  Qed.

  (** A rolled-back write is never linearised: between its invoke and its
      abort the client has no linearisation point. *)
  Theorem aborted_never_linearised : forall s0 tr (s : sys) c o i,
    exec (init s0) tr s ->
    nth_error tr i = Some (EAbort c o) ->
    exists k, k < i /\ nth_error tr k = Some (EInvoke c o) /\
      own_quiet tr c o k i None /\
      forall m o' r', k < m < i -> ~ linearised_at tr m c o' r'.
  Proof.
    intros s0 tr s c o i H Hn.
    destruct (exec_split_at _ _ _ _ _ H Hn) as [s1 [s2 [E [T Hlen]]]].
    pose proof (phase_exec _ _ _ E c) as P.
    inversion T; subst.
    match goal with Hc : cl s1 _ = _ |- _ => rewrite Hc in P end.
    simpl in P. rewrite Hlen in P.
    destruct P as [k [Hk [Hi Hq]]].
    apply own_quiet_firstn in Hq.
    exists k. split; [assumption|]. split; [|split; [assumption|]].
    - unfold invoked_at in Hi. now rewrite nth_error_firstn_lt in Hi.
    - intros m o' r' Hm [L|L];
        (assert (I : op_internal c o _)
          by (eapply (Hq m); [exact Hm | discriminate | exact L | reflexivity]));
        destruct I; discriminate.
  Qed.

  (** ** L3: real time *)

  Lemma lin_index_nth : forall (tr : list event) j e x,
    nth_error tr j = Some e -> lin_event e = Some x ->
    nth_error (lin_of tr) (lin_index tr j) = Some x.
  Proof.
    unfold lin_index.
    induction tr as [|a tr IH]; intros j e x Hn Hx.
    - destruct j; discriminate.
    - destruct j as [|j]; simpl in *.
      + inversion Hn; subst a. rewrite Hx. reflexivity.
      + destruct (lin_event a); simpl; eapply IH; eauto.
  Qed.

  Lemma lin_index_lt : forall (tr : list event) la lb e x,
    la < lb -> nth_error tr la = Some e -> lin_event e = Some x ->
    lin_index tr la < lin_index tr lb.
  Proof.
    unfold lin_index.
    induction tr as [|a tr IH]; intros la lb e x Hl Hn Hx.
    - destruct la; discriminate.
    - destruct lb as [|lb]; [lia|]. destruct la as [|la]; simpl in *.
      + inversion Hn; subst a. rewrite Hx. simpl. lia.
      + assert (Hlt : la < lb) by lia.
        specialize (IH la lb e x Hlt Hn Hx).
        destruct (lin_event a); simpl; lia.
  Qed.

  Lemma linearised_at_lin_index : forall (tr : list event) j c o r,
    linearised_at tr j c o r ->
    nth_error (lin_of tr) (lin_index tr j) = Some (c, o, r).
  Proof.
    intros tr j c o r [L|L]; eapply lin_index_nth; eauto.
  Qed.

  (** If call A (of [ca]) returns at position [i], and call B (of [cb]) is
      invoked at a later position [j] and linearised at [lb], then A's
      linearisation point [la] precedes [lb] in the trace, and A's entry
      precedes B's entry in [lin_of tr]. *)
  Theorem real_time_respected :
    forall s0 tr (s : sys) ca oa ra i cb ob rb j lb,
      exec (init s0) tr s ->
      returned_at tr i ca oa ra ->          (* A returns at i            *)
      i < j ->                              (* ... before B is invoked   *)
      lin_point_of tr cb ob rb j lb ->      (* B: invoked j, linearised lb *)
      exists ka la,
        lin_point_of tr ca oa ra ka la /\   (* A: invoked ka, linearised la *)
        la < i /\
        la < lb /\
        lin_index tr la < lin_index tr lb /\
        nth_error (lin_of tr) (lin_index tr la) = Some (ca, oa, ra) /\
        nth_error (lin_of tr) (lin_index tr lb) = Some (cb, ob, rb).
  Proof.
    intros s0 tr s ca oa ra i cb ob rb j lb H RA Hij LB.
    destruct (return_lin_point _ _ _ _ _ _ _ H RA) as [ka [la [LA [Hla _]]]].
    destruct LB as [Hjl [_ [LBl _]]].
    pose proof LA as [_ [_ [LAl _]]].
    exists ka, la. split; [assumption|]. split; [assumption|].
    split; [lia|]. split; [|split].
    - destruct LAl as [L|L];
        (eapply (lin_index_lt tr la lb _ (ca, oa, ra));
         [lia | exact L | reflexivity]).
    - now apply linearised_at_lin_index.
    - now apply linearised_at_lin_index.
  Qed.

  (** ** L4: readers see whole committed operations only *)

  Theorem reads_see_committed_prefix : forall s0 tr (s : sys) i c o r,
    exec (init s0) tr s ->
    nth_error tr i = Some (EBeginRead c o r) ->
    exists s1, replay_ok s0 (lin_of (firstn i tr)) s1 /\ r = fst (step s1 o).
  Proof.
    intros s0 tr s i c o r H Hn.
    destruct (exec_split_at _ _ _ _ _ H Hn) as [s1 [s2 [E [T _]]]].
    exists (durable s1). split.
    - now apply (lin_replay _ _ _ E).
    - inversion T; subst. reflexivity.
  Qed.

  (** The same for writers: the result of a commit is computed on the replay
      of the linearisation prefix before it. *)
  Theorem commits_see_committed_prefix : forall s0 tr (s : sys) i c o r,
    exec (init s0) tr s ->
    nth_error tr i = Some (ECommit c o r) ->
    exists s1, replay_ok s0 (lin_of (firstn i tr)) s1 /\ r = fst (step s1 o).
  Proof.
    intros s0 tr s i c o r H Hn.
    destruct (exec_split_at _ _ _ _ _ H Hn) as [s1 [s2 [E [T _]]]].
    exists (durable s1). split.
    - now apply (lin_replay _ _ _ E).
    - inversion T; subst.
      match goal with Hw : cl _ _ = CWriting _ _ |- _ =>
        destruct (writer_holds_lock _ _ _ _ _ _ E Hw) as [_ ->] end.
      reflexivity.
  Qed.

  (** ** Summary: linearizability

      For every execution, the sequential history [lin_of tr]
        (1) is a legal sequential history of [step] ending in the durable
            state, with exactly the recorded results;
        (2) contains every returned call, with the result it returned, at a
            point between its invoke and its return;
        (3) contains only invoked calls;
        (4) orders A before B whenever A returned before B was invoked. *)
  Theorem linearizable : forall s0 tr (s : sys),
    exec (init s0) tr s ->
    replay_ok s0 (lin_of tr) (durable s) /\
    (forall i c o r, returned_at tr i c o r ->
       exists k j, lin_point_of tr c o r k j /\ j < i /\
                   own_quiet tr c o k i (Some j) /\
                   nth_error (lin_of tr) (lin_index tr j) = Some (c, o, r)) /\
    (forall j c o r, linearised_at tr j c o r ->
       exists k, lin_point_of tr c o r k j) /\
    (forall i ca oa ra j cb ob rb lb,
       returned_at tr i ca oa ra -> i < j -> lin_point_of tr cb ob rb j lb ->
       exists ka la, lin_point_of tr ca oa ra ka la /\ la < i /\
                     lin_index tr la < lin_index tr lb).
  Proof.
    intros s0 tr s H. split; [now apply lin_replay|]. split; [|split].
    - intros i c o r R.
      destruct (return_lin_point _ _ _ _ _ _ _ H R) as [k [j [L [Hj Hq]]]].
      exists k, j. repeat split; try assumption; try apply L.
      apply linearised_at_lin_index. apply L.
    - intros. eapply linearised_lin_point; eauto.
    - intros i ca oa ra j cb ob rb lb R Hij L.
      destruct (real_time_respected _ _ _ _ _ _ _ _ _ _ _ _ H R Hij L)
        as [ka [la [A [B [_ [C _]]]]]].
      exists ka, la. auto.
  Qed.

End ConcurrencyProofs.

(** ** L7: a concrete instance — a shared counter

    Three clients: client 0 reads, clients 1 and 2 add.  The reader begins
    before writer 1 commits and ends after it (and still answers the old
    value); writer 2 can only begin once writer 1 has committed; finally
    client 1 starts another add that is rolled back. *)
Module Demo.

  Inductive cop : Type := ORead | OAdd (n : nat).

  Definition cstep (s : nat) (o : cop) : nat * nat :=
    match o with
    | ORead  => (s, s)
    | OAdd n => (s + n, s + n)
    end.

  Definition cis_write (o : cop) : bool :=
    match o with ORead => false | OAdd _ => true end.

  Lemma cread_pure : forall s o, cis_write o = false -> snd (cstep s o) = s.
  Proof. intros s [|n] H; [reflexivity | discriminate]. Qed.

  Definition demo_trace : list (event cop nat) :=
    [ EInvoke 0 ORead;            (*  0 *)
      EInvoke 1 (OAdd 5);         (*  1 *)
      EInvoke 2 (OAdd 7);         (*  2 *)
      EBeginWrite 1 (OAdd 5);     (*  3  writer 1 takes the lock          *)
      EBeginRead 0 ORead 0;       (*  4  reader snapshots 0               *)
      ECommit 1 (OAdd 5) 5;       (*  5  writer 1 commits: durable = 5    *)
      EBeginWrite 2 (OAdd 7);     (*  6  only now can writer 2 begin      *)
      EEndRead 0;                 (*  7  reader ends after the commit     *)
      EReturn 1 (OAdd 5) 5;       (*  8 *)
      ECommit 2 (OAdd 7) 12;      (*  9  durable = 12                     *)
      EReturn 0 ORead 0;          (* 10  the reader still answers 0       *)
      EReturn 2 (OAdd 7) 12;      (* 11 *)
      EInvoke 1 (OAdd 100);       (* 12 *)
      EBeginWrite 1 (OAdd 100);   (* 13 *)
      EAbort 1 (OAdd 100) ].      (* 14  rolled back: no effect           *)

  Ltac step_exec :=
    eapply exec_cons;
    [ econstructor; simpl; rewrite ?upd_same; reflexivity | simpl ].

  (** The trace is an execution allowed by the discipline. *)
  Lemma demo_exec :
    exists s, exec cstep cis_write (init 0) demo_trace s /\
              durable s = 12 /\ lock s = None.
  Proof.
    unfold demo_trace. eexists. split.
    - repeat step_exec. apply exec_nil.
    - simpl. split; reflexivity.
  Qed.

  (** Its linearisation: read (answer 0), add 5, add 7. *)
  Lemma demo_lin :
    lin_of demo_trace = [ (0, ORead, 0); (1, OAdd 5, 5); (2, OAdd 7, 12) ].
  Proof. reflexivity. Qed.

  (** The discipline really forbids something: in the state after position 3
      (writer 1 holds the lock) writer 2 cannot begin. *)
  Lemma demo_blocked : forall s,
    exec cstep cis_write (init 0) (firstn 4 demo_trace) s ->
    forall s', ~ trans cstep cis_write s (EBeginWrite 2 (OAdd 7)) s'.
  Proof.
    intros s E s'.
    assert (L : lock s = Some 1).
    { simpl in E.
      repeat match goal with
             | H : exec _ _ _ (_ :: _) _ |- _ => inversion H; subst; clear H
             | H : exec _ _ _ [] _ |- _ => inversion H; subst; clear H
             | H : trans _ _ _ _ _ |- _ => inversion H; subst; clear H
             end.
      reflexivity. }
    eapply no_second_writer; eauto.
  Qed.

  (** The generic theorems applied to the instance. *)
  Lemma demo_replay : replay_ok cstep 0 (lin_of demo_trace) 12.
  Proof.
    destruct demo_exec as [s [E [D _]]]. rewrite <- D.
    exact (lin_replay _ _ _ cstep cis_write cread_pure _ _ _ E).
  Qed.

  Lemma demo_reader :
    exists s1, replay_ok cstep 0 (lin_of (firstn 4 demo_trace)) s1 /\
               0 = fst (cstep s1 ORead).
  Proof.
    destruct demo_exec as [s [E _]].
    exact (reads_see_committed_prefix _ _ _ cstep cis_write cread_pure
             _ _ _ 4 0 ORead 0 E eq_refl).
  Qed.

  (** A second trace for real time: the add of client 1 returns (position 4)
      before the read of client 2 is invoked (position 5), so that read must
      come after the add in the linearisation and answer 5; the read of
      client 0 overlaps with the add and may be linearised on either side. *)

  Definition demo_trace2 : list (event cop nat) :=
    [ EInvoke 1 (OAdd 5);         (* 0 *)
      EInvoke 0 ORead;            (* 1  overlaps with the add            *)
      EBeginWrite 1 (OAdd 5);     (* 2 *)
      ECommit 1 (OAdd 5) 5;       (* 3 *)
      EReturn 1 (OAdd 5) 5;       (* 4  the add returns ...              *)
      EInvoke 2 ORead;            (* 5  ... before this read is invoked  *)
      EBeginRead 2 ORead 5;       (* 6  so it must see 5                 *)
      EBeginRead 0 ORead 5;       (* 7  overlapping read: may see 0 or 5 *)
      EEndRead 2;                 (* 8 *)
      EReturn 2 ORead 5 ].        (* 9 *)

  Lemma demo_exec2 :
    exists s, exec cstep cis_write (init 0) demo_trace2 s.
  Proof.
    unfold demo_trace2. eexists. repeat step_exec. apply exec_nil.
  Qed.

  Lemma demo_real_time :
    lin_index demo_trace2 3 < lin_index demo_trace2 6 /\
    nth_error (lin_of demo_trace2) (lin_index demo_trace2 3) = Some (1, OAdd 5, 5) /\
    nth_error (lin_of demo_trace2) (lin_index demo_trace2 6) = Some (2, ORead, 5).
  Proof.
    destruct demo_exec2 as [s E].
    assert (LB : lin_point_of demo_trace2 2 ORead 5 5 6).
    { unfold lin_point_of, invoked_at, linearised_at. repeat split; auto.
      intros m o' Hm. lia. }
    destruct (real_time_respected _ _ _ cstep cis_write _ _ _
                1 (OAdd 5) 5 4 2 ORead 5 5 6 E eq_refl (le_n 5) LB)
      as [ka [la [LA [Hla [_ [Hidx [HA HB]]]]]]].
    (* the theorem does not tell us la = 3 by computation; determine it *)
    assert (la = 3).
    { destruct LA as [_ [_ [[L|L] _]]];
        do 4 (destruct la as [|la]; try discriminate; try reflexivity); lia. }
    subst la. auto.
  Qed.

End Demo.

(** ** Assumptions *)

Print Assumptions lin_replay.
Print Assumptions returns_are_linearised.
Print Assumptions linearised_has_invoke.
Print Assumptions real_time_respected.
Print Assumptions reads_see_committed_prefix.
Print Assumptions abort_no_effect.
Print Assumptions abort_not_linearised.
Print Assumptions aborted_never_linearised.
Print Assumptions one_writer.
Print Assumptions linearizable.
Print Assumptions Demo.demo_replay.
Print Assumptions Demo.demo_real_time.

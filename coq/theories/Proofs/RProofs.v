(* The base library of the refinement proof: association lists, well-formedness accessors,
   inversion of [denotes] by key kind, lookups and prefix scans through [R], preservation of
   [wf_db] by the abstract operations, frame lemmas, and a non-vacuity example. *)
From Coq Require Import Lia.
From Clover Require Import SpecDB BytesProofs.

Arguments idx_key : simpl never.
Arguments doc_key : simpl never.
Arguments coll_key : simpl never.
Arguments idx_value_key : simpl never.
Arguments idx_prefix : simpl never.
Arguments doc_prefix : simpl never.

(* ------------------------------------------------------------------ *)
(* 0. Ids                                                              *)
(* ------------------------------------------------------------------ *)

Lemma is_hex_not_semi : forall b, is_hex b = true -> N.eqb b ch_semi = false.
Proof.
  intros b H. destruct (N.eqb_spec b ch_semi) as [E|E]; [|reflexivity].
  subst b. vm_compute in H. discriminate H.
Qed.

Lemma canonical_from_no_semi : forall s i, canonical_from i s = true -> no_semi s = true.
Proof.
  induction s as [|b s IH]; intros i H; [reflexivity|].
  simpl in H. apply andb_true_iff in H. destruct H as [Hb Hs].
  rewrite no_semi_cons. apply andb_true_iff. split; [|eapply IH; exact Hs].
  destruct (Nat.eqb i 8 || Nat.eqb i 13 || Nat.eqb i 18 || Nat.eqb i 23)%bool.
  - apply N.eqb_eq in Hb. subst b. reflexivity.
  - rewrite (is_hex_not_semi b Hb). reflexivity.
Qed.

Lemma canonical_id_length : forall id, canonical_id id = true -> length id = 36%nat.
Proof.
  intros id H. unfold canonical_id in H. apply andb_true_iff in H.
  apply Nat.eqb_eq. exact (proj1 H).
Qed.

Lemma canonical_id_no_semi : forall id, canonical_id id = true -> no_semi id = true.
Proof.
  intros id H. unfold canonical_id in H. apply andb_true_iff in H.
  eapply canonical_from_no_semi. exact (proj2 H).
Qed.

Theorem canonical_id_ok : forall id, canonical_id id = true -> id_ok id.
Proof.
  intros id H. split; [apply canonical_id_length | apply canonical_id_no_semi]; exact H.
Qed.

(* ------------------------------------------------------------------ *)
(* 1. Association lists                                                *)
(* ------------------------------------------------------------------ *)

Section Assoc.
  Context {A : Type}.
  Implicit Types (l : list (bytes * A)) (k : bytes) (a : A).

  Lemma assoc_set_same : forall k a l, assoc k (assoc_set k a l) = Some a.
  Proof.
    intros k a l. induction l as [|[k0 a0] t IH]; simpl.
    - rewrite beqb_refl. reflexivity.
    - destruct (beqb k k0) eqn:E; simpl.
      + rewrite beqb_refl. reflexivity.
      + rewrite E. exact IH.
  Qed.

  Lemma assoc_set_other : forall k k' a l, k <> k' -> assoc k' (assoc_set k a l) = assoc k' l.
  Proof.
    intros k k' a l Hne. assert (Hb : beqb k' k = false).
    { apply beqb_false_iff. intros E. apply Hne. symmetry. exact E. }
    induction l as [|[k0 a0] t IH]; simpl.
    - rewrite Hb. reflexivity.
    - destruct (beqb k k0) eqn:E; simpl.
      + apply beqb_true_iff in E. subst k0. rewrite Hb. reflexivity.
      + rewrite IH. reflexivity.
  Qed.

  Lemma assoc_del_same : forall k l, assoc k (assoc_del k l) = None.
  Proof.
    intros k l. induction l as [|[k0 a0] t IH]; simpl; [reflexivity|].
    destruct (beqb k k0) eqn:E; simpl; [exact IH|]. rewrite E. exact IH.
  Qed.

  Lemma assoc_del_other : forall k k' l, k <> k' -> assoc k' (assoc_del k l) = assoc k' l.
  Proof.
    intros k k' l Hne. induction l as [|[k0 a0] t IH]; simpl; [reflexivity|].
    destruct (beqb k k0) eqn:E; simpl.
    - apply beqb_true_iff in E. subst k0.
      assert (Hb : beqb k' k = false).
      { apply beqb_false_iff. intros E. apply Hne. symmetry. exact E. }
      rewrite Hb. exact IH.
    - rewrite IH. reflexivity.
  Qed.

  Lemma assoc_app_none : forall k a l, assoc k l = None -> assoc k (l ++ [(k, a)]) = Some a.
  Proof.
    intros k a l. induction l as [|[k0 a0] t IH]; simpl; intros H.
    - rewrite beqb_refl. reflexivity.
    - destruct (beqb k k0); [discriminate H | exact (IH H)].
  Qed.

  Lemma assoc_app_other : forall k k' a l, k <> k' -> assoc k' (l ++ [(k, a)]) = assoc k' l.
  Proof.
    intros k k' a l Hne. induction l as [|[k0 a0] t IH]; simpl.
    - assert (Hb : beqb k' k = false).
      { apply beqb_false_iff. intros E. apply Hne. symmetry. exact E. }
      rewrite Hb. reflexivity.
    - rewrite IH. reflexivity.
  Qed.

  (* appending a fresh key is what assoc_set does *)
  Lemma assoc_set_fresh : forall k a l, assoc k l = None -> assoc_set k a l = l ++ [(k, a)].
  Proof.
    intros k a l. induction l as [|[k0 a0] t IH]; simpl; intros H; [reflexivity|].
    destruct (beqb k k0); [discriminate H|]. rewrite (IH H). reflexivity.
  Qed.

  Lemma assoc_some_In : forall k a l, assoc k l = Some a -> In (k, a) l.
  Proof.
    intros k a l. induction l as [|[k0 a0] t IH]; simpl; intros H; [discriminate H|].
    destruct (beqb k k0) eqn:E.
    - apply beqb_true_iff in E. subst k0. injection H as H. subst a0. left. reflexivity.
    - right. exact (IH H).
  Qed.

  Lemma assoc_none_notin : forall k l, assoc k l = None <-> ~ In k (map fst l).
  Proof.
    intros k l. induction l as [|[k0 a0] t IH]; simpl.
    - split; [intros _ H; exact H | reflexivity].
    - destruct (beqb k k0) eqn:E.
      + apply beqb_true_iff in E. subst k0. split; [discriminate|].
        intros H. exfalso. apply H. left. reflexivity.
      + apply beqb_false_iff in E. rewrite IH. split.
        * intros H [H1|H1]; [apply E; symmetry; exact H1 | exact (H H1)].
        * intros H H1. apply H. right. exact H1.
  Qed.

  Lemma assoc_some_in_keys : forall k a l, assoc k l = Some a -> In k (map fst l).
  Proof.
    intros k a l H. apply assoc_some_In in H.
    apply in_map_iff. exists (k, a). split; [reflexivity | exact H].
  Qed.

  Lemma assoc_In : forall k a l, NoDup (map fst l) -> (In (k, a) l <-> assoc k l = Some a).
  Proof.
    intros k a l Hnd. split; [|apply assoc_some_In].
    induction l as [|[k0 a0] t IH]; simpl; intros H; [contradiction H|].
    simpl in Hnd. inversion Hnd as [|? ? Hnotin Hnd']; subst.
    destruct (beqb k k0) eqn:E.
    - apply beqb_true_iff in E. subst k0. destruct H as [H|H].
      + injection H as H. subst a0. reflexivity.
      + exfalso. apply Hnotin. apply in_map_iff. exists (k, a). split; [reflexivity | exact H].
    - destruct H as [H|H].
      + injection H as H1 H2. subst k0. rewrite beqb_refl in E. discriminate E.
      + exact (IH Hnd' H).
  Qed.

  (* membership after an update *)
  Lemma assoc_set_In : forall k a l k' a',
    In (k', a') (assoc_set k a l) -> (k' = k /\ a' = a) \/ In (k', a') l.
  Proof.
    intros k a l k' a'. induction l as [|[k0 a0] t IH]; simpl; intros H.
    - destruct H as [H|H]; [|contradiction H]. injection H as H1 H2. left. split; congruence.
    - destruct (beqb k k0) eqn:E; simpl in H.
      + destruct H as [H|H].
        * injection H as H1 H2. left. split; congruence.
        * right. right. exact H.
      + destruct H as [H|H].
        * right. left. exact H.
        * destruct (IH H) as [H'|H']; [left; exact H' | right; right; exact H'].
  Qed.

  Lemma assoc_del_In : forall k l (x : bytes * A),
    In x (assoc_del k l) -> In x l /\ fst x <> k.
  Proof.
    intros k l x. induction l as [|[k0 a0] t IH]; simpl; intros H; [contradiction H|].
    destruct (beqb k k0) eqn:E.
    - destruct (IH H) as [H1 H2]. split; [right; exact H1 | exact H2].
    - simpl in H. destruct H as [H|H].
      + subst x. split; [left; reflexivity|]. simpl. apply beqb_false_iff in E.
        intros E'. apply E. symmetry. exact E'.
      + destruct (IH H) as [H1 H2]. split; [right; exact H1 | exact H2].
  Qed.

  Lemma assoc_set_keys_In : forall k a l k',
    In k' (map fst (assoc_set k a l)) -> k' = k \/ In k' (map fst l).
  Proof.
    intros k a l k' H. apply in_map_iff in H. destruct H as ([k1 a1] & E & H).
    simpl in E. subst k1. apply assoc_set_In in H. destruct H as [[H _]|H].
    - left. exact H.
    - right. apply in_map_iff. exists (k', a1). split; [reflexivity | exact H].
  Qed.

  Lemma assoc_del_keys_In : forall k l k',
    In k' (map fst (assoc_del k l)) -> In k' (map fst l) /\ k' <> k.
  Proof.
    intros k l k' H. apply in_map_iff in H. destruct H as (x & E & H).
    apply assoc_del_In in H. destruct H as [H1 H2]. subst k'. split; [|exact H2].
    apply in_map_iff. exists x. split; [reflexivity | exact H1].
  Qed.

  (* NoDup preservation *)
  Lemma assoc_set_NoDup : forall k a l, NoDup (map fst l) -> NoDup (map fst (assoc_set k a l)).
  Proof.
    intros k a l. induction l as [|[k0 a0] t IH]; simpl; intros H.
    - constructor; [intros F; exact F | constructor].
    - inversion H as [|? ? Hnotin Hnd]; subst.
      destruct (beqb k k0) eqn:E; simpl.
      + apply beqb_true_iff in E. subst k0. constructor; assumption.
      + constructor; [|exact (IH Hnd)].
        intros Hin. apply assoc_set_keys_In in Hin. destruct Hin as [Hin|Hin].
        * subst k0. rewrite beqb_refl in E. discriminate E.
        * exact (Hnotin Hin).
  Qed.

  Lemma assoc_del_NoDup : forall k l, NoDup (map fst l) -> NoDup (map fst (assoc_del k l)).
  Proof.
    intros k l. induction l as [|[k0 a0] t IH]; simpl; intros H; [constructor|].
    inversion H as [|? ? Hnotin Hnd]; subst.
    destruct (beqb k k0) eqn:E; simpl; [exact (IH Hnd)|].
    constructor; [|exact (IH Hnd)].
    intros Hin. apply assoc_del_keys_In in Hin. exact (Hnotin (proj1 Hin)).
  Qed.

  Lemma app_fresh_NoDup : forall k a l,
    assoc k l = None -> NoDup (map fst l) -> NoDup (map fst (l ++ [(k, a)])).
  Proof.
    intros k a l Hn Hnd. rewrite <- (assoc_set_fresh k a l Hn). apply assoc_set_NoDup. exact Hnd.
  Qed.

  (* lengths *)
  Lemma assoc_set_length_present : forall k a a0 l,
    assoc k l = Some a0 -> length (assoc_set k a l) = length l.
  Proof.
    intros k a a0 l. induction l as [|[k1 a1] t IH]; simpl; intros H; [discriminate H|].
    destruct (beqb k k1); simpl; [reflexivity|]. rewrite (IH H). reflexivity.
  Qed.

  Lemma assoc_set_length_absent : forall k a l,
    assoc k l = None -> length (assoc_set k a l) = S (length l).
  Proof.
    intros k a l H. rewrite (assoc_set_fresh k a l H), app_length. simpl. lia.
  Qed.

  Lemma assoc_del_absent : forall k l, assoc k l = None -> assoc_del k l = l.
  Proof.
    intros k l. induction l as [|[k1 a1] t IH]; simpl; intros H; [reflexivity|].
    destruct (beqb k k1); [discriminate H|]. rewrite (IH H). reflexivity.
  Qed.

  Lemma assoc_del_length_absent : forall k l,
    assoc k l = None -> length (assoc_del k l) = length l.
  Proof. intros k l H. rewrite (assoc_del_absent k l H). reflexivity. Qed.

  Lemma assoc_del_length_present : forall k a0 l,
    NoDup (map fst l) -> assoc k l = Some a0 -> length (assoc_del k l) = (length l - 1)%nat.
  Proof.
    intros k a0 l. induction l as [|[k1 a1] t IH]; simpl; intros Hnd H; [discriminate H|].
    inversion Hnd as [|? ? Hnotin Hnd']; subst.
    destruct (beqb k k1) eqn:E; simpl.
    - apply beqb_true_iff in E. subst k1.
      apply assoc_none_notin in Hnotin. rewrite (assoc_del_absent k t Hnotin). lia.
    - rewrite (IH Hnd' H). destruct t as [|x t]; [discriminate H|]. simpl. lia.
  Qed.

  (* the S-form, convenient for the Size counter *)
  Lemma assoc_del_length_present_S : forall k a0 l,
    NoDup (map fst l) -> assoc k l = Some a0 -> length l = S (length (assoc_del k l)).
  Proof.
    intros k a0 l Hnd H. rewrite (assoc_del_length_present k a0 l Hnd H).
    destruct l as [|x t]; [discriminate H|]. simpl. lia.
  Qed.

  Lemma assoc_In_keys_some : forall k l, In k (map fst l) -> exists a, assoc k l = Some a.
  Proof.
    intros k l H. destruct (assoc k l) as [a|] eqn:E; [exists a; reflexivity|].
    apply assoc_none_notin in E. contradiction (E H).
  Qed.
End Assoc.

(* ------------------------------------------------------------------ *)
(* 2. Well-formedness accessors                                        *)
(* ------------------------------------------------------------------ *)

Lemma wf_NoDup : forall db, wf_db db -> NoDup (map fst db).
Proof. intros db H. exact (proj1 H). Qed.

Lemma wf_coll : forall db c sc, wf_db db -> assoc c db = Some sc -> coll_ok c sc.
Proof. intros db c sc [_ H] Ha. apply H. apply assoc_some_In. exact Ha. Qed.

Lemma wf_coll_name : forall db c sc, wf_db db -> assoc c db = Some sc -> no_semi c = true.
Proof. intros db c sc H Ha. exact (proj1 (wf_coll db c sc H Ha)). Qed.

Lemma wf_docs_NoDup : forall db c sc,
  wf_db db -> assoc c db = Some sc -> NoDup (map fst (sc_docs sc)).
Proof. intros db c sc H Ha. exact (proj1 (proj2 (wf_coll db c sc H Ha))). Qed.

Lemma wf_idx_NoDup : forall db c sc, wf_db db -> assoc c db = Some sc -> NoDup (sc_idx sc).
Proof. intros db c sc H Ha. exact (proj1 (proj2 (proj2 (proj2 (wf_coll db c sc H Ha))))). Qed.

Lemma wf_doc : forall db c sc id d,
  wf_db db -> assoc c db = Some sc -> assoc id (sc_docs sc) = Some d -> doc_ok id d.
Proof.
  intros db c sc id d H Ha Hd.
  destruct (wf_coll db c sc H Ha) as (_ & _ & Hdocs & _).
  apply Hdocs. apply assoc_some_In. exact Hd.
Qed.

Lemma doc_ok_id_ok : forall id d, doc_ok id d -> id_ok id.
Proof. intros id d H. apply canonical_id_ok. exact (proj1 H). Qed.

Lemma wf_doc_id_ok : forall db c sc id d,
  wf_db db -> assoc c db = Some sc -> assoc id (sc_docs sc) = Some d -> id_ok id.
Proof. intros db c sc id d H Ha Hd. exact (doc_ok_id_ok id d (wf_doc db c sc id d H Ha Hd)). Qed.

Lemma wf_doc_object_id : forall db c sc id d,
  wf_db db -> assoc c db = Some sc -> assoc id (sc_docs sc) = Some d -> object_id d = id.
Proof. intros db c sc id d H Ha Hd. exact (proj1 (proj2 (wf_doc db c sc id d H Ha Hd))). Qed.

Lemma wf_idx_name : forall db c sc f,
  wf_db db -> assoc c db = Some sc -> In f (sc_idx sc) -> no_semi f = true.
Proof.
  intros db c sc f H Ha Hf.
  destruct (wf_coll db c sc H Ha) as (_ & _ & _ & _ & Hn). exact (Hn f Hf).
Qed.

Lemma wf_empty : wf_db [].
Proof. split; [constructor | intros c sc F; contradiction F]. Qed.

(* ------------------------------------------------------------------ *)
(* 3. Inversion of [denotes] by key kind                               *)
(* ------------------------------------------------------------------ *)

(* the one place where [denotes] is inverted *)
Lemma den_inv : forall db k v, denotes db k v ->
  (exists c sc, assoc c db = Some sc /\ k = coll_key c /\
                v = SMeta (Z.of_nat (length (sc_docs sc))) (sc_idx sc)) \/
  (exists c sc id d, assoc c db = Some sc /\ assoc id (sc_docs sc) = Some d /\
                     k = doc_key c id /\ v = SDoc (doc_encode d)) \/
  (exists c sc id d f, assoc c db = Some sc /\ assoc id (sc_docs sc) = Some d /\
                       In f (sc_idx sc) /\ k = idx_key c f (doc_get f d) id /\ v = SEmpty).
Proof.
  intros db k v H. destruct H as [c sc Ha | c sc id d Ha Hd | c sc id d f Ha Hd Hf].
  - left. exists c, sc. repeat split; assumption.
  - right. left. exists c, sc, id, d. repeat split; assumption.
  - right. right. exists c, sc, id, d, f. repeat split; assumption.
Qed.

Lemma idx_key_of_value_key : forall c f x y id,
  idx_value_key c f x = idx_value_key c f y -> idx_key c f x id = idx_key c f y id.
Proof. intros c f x y id H. unfold idx_key. rewrite H. reflexivity. Qed.

Theorem den_coll_iff : forall db c v, wf_db db ->
  (denotes db (coll_key c) v <->
   exists sc, assoc c db = Some sc /\ v = SMeta (Z.of_nat (length (sc_docs sc))) (sc_idx sc)).
Proof.
  intros db c v Hwf. split.
  - intros H. apply den_inv in H.
    destruct H as [(c0 & sc & Ha & Ek & Ev) | [(c0 & sc & id & d & Ha & Hd & Ek & Ev)
                                              | (c0 & sc & id & d & f & Ha & Hd & Hf & Ek & Ev)]].
    + apply coll_key_inj in Ek. subst c0. exists sc. split; assumption.
    + exfalso. exact (coll_key_not_doc _ _ _ Ek).
    + exfalso. exact (coll_key_not_idx _ _ _ _ _ Ek).
  - intros (sc & Ha & Ev). subst v. apply den_meta. exact Ha.
Qed.

Theorem den_doc_iff : forall db c id v, wf_db db -> no_semi c = true ->
  (denotes db (doc_key c id) v <->
   exists sc d, assoc c db = Some sc /\ assoc id (sc_docs sc) = Some d /\ v = SDoc (doc_encode d)).
Proof.
  intros db c id v Hwf Hc. split.
  - intros H. apply den_inv in H.
    destruct H as [(c0 & sc & Ha & Ek & Ev) | [(c0 & sc & id0 & d & Ha & Hd & Ek & Ev)
                                              | (c0 & sc & id0 & d & f & Ha & Hd & Hf & Ek & Ev)]].
    + exfalso. symmetry in Ek. exact (coll_key_not_doc _ _ _ Ek).
    + pose proof (wf_coll_name db c0 sc Hwf Ha) as Hc0.
      apply doc_key_inj in Ek; [|assumption|assumption]. destruct Ek as [E1 E2]. subst c0 id0.
      exists sc, d. repeat split; assumption.
    + exfalso. pose proof (wf_coll_name db c0 sc Hwf Ha) as Hc0.
      exact (doc_key_not_idx _ _ _ _ _ _ Hc Hc0 Ek).
  - intros (sc & d & Ha & Hd & Ev). subst v. eapply den_doc; eassumption.
Qed.

Theorem den_idx_iff : forall db c f x id v,
  wf_db db -> no_semi c = true -> no_semi f = true -> length id = 36%nat ->
  (denotes db (idx_key c f x id) v <->
   v = SEmpty /\
   exists sc d, assoc c db = Some sc /\ assoc id (sc_docs sc) = Some d /\ In f (sc_idx sc) /\
                idx_value_key c f x = idx_value_key c f (doc_get f d)).
Proof.
  intros db c f x id v Hwf Hc Hf Hid. split.
  - intros H. apply den_inv in H.
    destruct H as [(c0 & sc & Ha & Ek & Ev) | [(c0 & sc & id0 & d & Ha & Hd & Ek & Ev)
                                              | (c0 & sc & id0 & d & f0 & Ha & Hd & Hf0 & Ek & Ev)]].
    + exfalso. symmetry in Ek. exact (coll_key_not_idx _ _ _ _ _ Ek).
    + exfalso. pose proof (wf_coll_name db c0 sc Hwf Ha) as Hc0.
      symmetry in Ek. exact (doc_key_not_idx _ _ _ _ _ _ Hc0 Hc Ek).
    + pose proof (wf_coll_name db c0 sc Hwf Ha) as Hc0.
      pose proof (wf_idx_name db c0 sc f0 Hwf Ha Hf0) as Hf0'.
      destruct (wf_doc_id_ok db c0 sc id0 d Hwf Ha Hd) as [Hid0 _].
      apply idx_key_inj in Ek; try assumption.
      destruct Ek as (E1 & E2 & E3 & E4). subst c0 f0 id0.
      split; [exact Ev|]. exists sc, d. repeat split; assumption.
  - intros (Ev & sc & d & Ha & Hd & Hfi & Ek). subst v.
    rewrite (idx_key_of_value_key c f x (doc_get f d) id Ek).
    eapply den_idx; eassumption.
Qed.

Theorem den_cases : forall db k v, wf_db db -> denotes db k v ->
  (exists c, k = coll_key c) \/
  (exists c id, k = doc_key c id /\ no_semi c = true /\ id_ok id) \/
  (exists c f x id, k = idx_key c f x id /\ no_semi c = true /\ no_semi f = true /\ id_ok id).
Proof.
  intros db k v Hwf H. apply den_inv in H.
  destruct H as [(c0 & sc & Ha & Ek & Ev) | [(c0 & sc & id0 & d & Ha & Hd & Ek & Ev)
                                            | (c0 & sc & id0 & d & f0 & Ha & Hd & Hf0 & Ek & Ev)]].
  - left. exists c0. exact Ek.
  - right. left. exists c0, id0. split; [exact Ek|]. split.
    + exact (wf_coll_name db c0 sc Hwf Ha).
    + exact (wf_doc_id_ok db c0 sc id0 d Hwf Ha Hd).
  - right. right. exists c0, f0, (doc_get f0 d), id0. split; [exact Ek|]. split; [|split].
    + exact (wf_coll_name db c0 sc Hwf Ha).
    + exact (wf_idx_name db c0 sc f0 Hwf Ha Hf0).
    + exact (wf_doc_id_ok db c0 sc id0 d Hwf Ha Hd).
Qed.

(* the same with everything known about the key: the full inversion under wf *)
Theorem den_cases_full : forall db k v, wf_db db -> denotes db k v ->
  (exists c sc, assoc c db = Some sc /\ no_semi c = true /\ k = coll_key c /\
                v = SMeta (Z.of_nat (length (sc_docs sc))) (sc_idx sc)) \/
  (exists c sc id d, assoc c db = Some sc /\ assoc id (sc_docs sc) = Some d /\
                     no_semi c = true /\ id_ok id /\ doc_ok id d /\
                     k = doc_key c id /\ v = SDoc (doc_encode d)) \/
  (exists c sc id d f, assoc c db = Some sc /\ assoc id (sc_docs sc) = Some d /\ In f (sc_idx sc) /\
                       no_semi c = true /\ no_semi f = true /\ id_ok id /\ doc_ok id d /\
                       k = idx_key c f (doc_get f d) id /\ v = SEmpty).
Proof.
  intros db k v Hwf H. apply den_inv in H.
  destruct H as [(c0 & sc & Ha & Ek & Ev) | [(c0 & sc & id0 & d & Ha & Hd & Ek & Ev)
                                            | (c0 & sc & id0 & d & f0 & Ha & Hd & Hf0 & Ek & Ev)]].
  - left. exists c0, sc. repeat split; try assumption. exact (wf_coll_name db c0 sc Hwf Ha).
  - right. left. exists c0, sc, id0, d.
    pose proof (wf_doc db c0 sc id0 d Hwf Ha Hd) as Hok.
    split; [exact Ha|]. split; [exact Hd|]. split; [exact (wf_coll_name db c0 sc Hwf Ha)|].
    split; [exact (doc_ok_id_ok id0 d Hok)|]. split; [exact Hok|]. split; assumption.
  - right. right. exists c0, sc, id0, d, f0.
    pose proof (wf_doc db c0 sc id0 d Hwf Ha Hd) as Hok.
    split; [exact Ha|]. split; [exact Hd|]. split; [exact Hf0|].
    split; [exact (wf_coll_name db c0 sc Hwf Ha)|].
    split; [exact (wf_idx_name db c0 sc f0 Hwf Ha Hf0)|].
    split; [exact (doc_ok_id_ok id0 d Hok)|]. split; [exact Hok|]. split; assumption.
Qed.

Theorem den_fun : forall db k v v', wf_db db -> denotes db k v -> denotes db k v' -> v = v'.
Proof.
  intros db k v v' Hwf H H'.
  destruct (den_cases db k v Hwf H) as [(c & Ek) | [(c & id & Ek & Hc & Hid)
                                                   | (c & f & x & id & Ek & Hc & Hf & Hid)]]; subst k.
  - apply (den_coll_iff db c v Hwf) in H. apply (den_coll_iff db c v' Hwf) in H'.
    destruct H as (sc & Ha & Ev). destruct H' as (sc' & Ha' & Ev').
    rewrite Ha in Ha'. injection Ha' as E. subst sc' v v'. reflexivity.
  - apply (den_doc_iff db c id v Hwf Hc) in H. apply (den_doc_iff db c id v' Hwf Hc) in H'.
    destruct H as (sc & d & Ha & Hd & Ev). destruct H' as (sc' & d' & Ha' & Hd' & Ev').
    rewrite Ha in Ha'. injection Ha' as E. subst sc'.
    rewrite Hd in Hd'. injection Hd' as E. subst d' v v'. reflexivity.
  - destruct Hid as [Hlen _].
    apply (den_idx_iff db c f x id v Hwf Hc Hf Hlen) in H.
    apply (den_idx_iff db c f x id v' Hwf Hc Hf Hlen) in H'.
    destruct H as [Ev _]. destruct H' as [Ev' _]. subst v v'. reflexivity.
Qed.

(* ------------------------------------------------------------------ *)
(* 4. Lookups through R                                                *)
(* ------------------------------------------------------------------ *)

Lemma R_sorted : forall db s, R db s -> kv_sorted s.
Proof. intros db s H. exact (proj1 H). Qed.

Lemma R_get_iff : forall db s k v, R db s -> (kv_get k s = Some v <-> denotes db k v).
Proof. intros db s k v H. exact (proj2 H k v). Qed.

Lemma R_In_iff : forall db s k v, R db s -> (In (k, v) s <-> denotes db k v).
Proof.
  intros db s k v H. rewrite <- (R_get_iff db s k v H). symmetry.
  apply kv_get_in. exact (R_sorted db s H).
Qed.

Lemma R_get_none : forall db s k, R db s -> (forall v, ~ denotes db k v) -> kv_get k s = None.
Proof.
  intros db s k H Hn. destruct (kv_get k s) as [v|] eqn:E; [|reflexivity].
  exfalso. apply (Hn v). apply (R_get_iff db s k v H). exact E.
Qed.

Lemma R_empty : R [] [].
Proof.
  split; [apply kv_sorted_nil|]. intros k v. split.
  - simpl. discriminate.
  - intros H. exfalso. apply den_inv in H.
    destruct H as [(c0 & sc & Ha & _) | [(c0 & sc & id0 & d & Ha & _)
                                        | (c0 & sc & id0 & d & f0 & Ha & _)]]; discriminate Ha.
Qed.

Theorem R_get_meta : forall db s c, R db s -> wf_db db ->
  kv_get (coll_key c) s =
  match assoc c db with
  | Some sc => Some (SMeta (Z.of_nat (length (sc_docs sc))) (sc_idx sc))
  | None => None
  end.
Proof.
  intros db s c HR Hwf. destruct (assoc c db) as [sc|] eqn:Ha.
  - apply (R_get_iff db s _ _ HR). apply den_meta. exact Ha.
  - apply (R_get_none db s _ HR). intros v H.
    apply (den_coll_iff db c v Hwf) in H. destruct H as (sc & Ha' & _).
    rewrite Ha in Ha'. discriminate Ha'.
Qed.

Theorem R_get_doc : forall db s c id, R db s -> wf_db db -> no_semi c = true ->
  kv_get (doc_key c id) s =
  match assoc c db with
  | Some sc => match assoc id (sc_docs sc) with
               | Some d => Some (SDoc (doc_encode d))
               | None => None
               end
  | None => None
  end.
Proof.
  intros db s c id HR Hwf Hc. destruct (assoc c db) as [sc|] eqn:Ha.
  - destruct (assoc id (sc_docs sc)) as [d|] eqn:Hd.
    + apply (R_get_iff db s _ _ HR). eapply den_doc; eassumption.
    + apply (R_get_none db s _ HR). intros v H.
      apply (den_doc_iff db c id v Hwf Hc) in H. destruct H as (sc' & d & Ha' & Hd' & _).
      rewrite Ha in Ha'. injection Ha' as E. subst sc'. rewrite Hd in Hd'. discriminate Hd'.
  - apply (R_get_none db s _ HR). intros v H.
    apply (den_doc_iff db c id v Hwf Hc) in H. destruct H as (sc' & d & Ha' & _).
    rewrite Ha in Ha'. discriminate Ha'.
Qed.

(* an index entry is present iff a document with this id exists, the field is indexed, and
   the value bytes are those of the document's field *)
Theorem R_get_idx_iff : forall db s c f x id v, R db s -> wf_db db ->
  no_semi c = true -> no_semi f = true -> length id = 36%nat ->
  (kv_get (idx_key c f x id) s = Some v <->
   v = SEmpty /\
   exists sc d, assoc c db = Some sc /\ assoc id (sc_docs sc) = Some d /\ In f (sc_idx sc) /\
                idx_value_key c f x = idx_value_key c f (doc_get f d)).
Proof.
  intros db s c f x id v HR Hwf Hc Hf Hid.
  rewrite (R_get_iff db s _ _ HR). apply den_idx_iff; assumption.
Qed.

Theorem R_get_idx_some : forall db s c sc f id d, R db s ->
  assoc c db = Some sc -> assoc id (sc_docs sc) = Some d -> In f (sc_idx sc) ->
  kv_get (idx_key c f (doc_get f d) id) s = Some SEmpty.
Proof.
  intros db s c sc f id d HR Ha Hd Hf.
  apply (R_get_iff db s _ _ HR). eapply den_idx; eassumption.
Qed.

(* the entry for another value of the same document's field, too *)
Theorem R_get_idx_some_value : forall db s c sc f x id d, R db s ->
  assoc c db = Some sc -> assoc id (sc_docs sc) = Some d -> In f (sc_idx sc) ->
  idx_value_key c f x = idx_value_key c f (doc_get f d) ->
  kv_get (idx_key c f x id) s = Some SEmpty.
Proof.
  intros db s c sc f x id d HR Ha Hd Hf Ek.
  rewrite (idx_key_of_value_key c f x (doc_get f d) id Ek).
  eapply R_get_idx_some; eassumption.
Qed.

Theorem R_get_idx_none : forall db s c f x id, R db s -> wf_db db ->
  no_semi c = true -> no_semi f = true -> length id = 36%nat ->
  (forall sc d, assoc c db = Some sc -> assoc id (sc_docs sc) = Some d -> In f (sc_idx sc) ->
                idx_value_key c f x <> idx_value_key c f (doc_get f d)) ->
  kv_get (idx_key c f x id) s = None.
Proof.
  intros db s c f x id HR Hwf Hc Hf Hid Hn.
  apply (R_get_none db s _ HR). intros v H.
  apply (den_idx_iff db c f x id v Hwf Hc Hf Hid) in H.
  destruct H as (_ & sc & d & Ha & Hd & Hfi & Ek). exact (Hn sc d Ha Hd Hfi Ek).
Qed.

Corollary R_get_idx_none_coll : forall db s c f x id, R db s -> wf_db db ->
  no_semi c = true -> no_semi f = true -> length id = 36%nat ->
  assoc c db = None -> kv_get (idx_key c f x id) s = None.
Proof.
  intros db s c f x id HR Hwf Hc Hf Hid Ha. apply (R_get_idx_none db s c f x id HR Hwf Hc Hf Hid).
  intros sc d Ha'. rewrite Ha in Ha'. discriminate Ha'.
Qed.

Corollary R_get_idx_none_doc : forall db s c sc f x id, R db s -> wf_db db ->
  no_semi c = true -> no_semi f = true -> length id = 36%nat ->
  assoc c db = Some sc -> assoc id (sc_docs sc) = None -> kv_get (idx_key c f x id) s = None.
Proof.
  intros db s c sc f x id HR Hwf Hc Hf Hid Ha Hd.
  apply (R_get_idx_none db s c f x id HR Hwf Hc Hf Hid).
  intros sc' d Ha'. rewrite Ha in Ha'. injection Ha' as E. subst sc'.
  intros Hd'. rewrite Hd in Hd'. discriminate Hd'.
Qed.

Corollary R_get_idx_none_field : forall db s c sc f x id, R db s -> wf_db db ->
  no_semi c = true -> no_semi f = true -> length id = 36%nat ->
  assoc c db = Some sc -> ~ In f (sc_idx sc) -> kv_get (idx_key c f x id) s = None.
Proof.
  intros db s c sc f x id HR Hwf Hc Hf Hid Ha Hnf.
  apply (R_get_idx_none db s c f x id HR Hwf Hc Hf Hid).
  intros sc' d Ha'. rewrite Ha in Ha'. injection Ha' as E. subst sc'.
  intros _ Hfi. contradiction (Hnf Hfi).
Qed.

Theorem R_unique : forall db s1 s2, wf_db db -> R db s1 -> R db s2 -> s1 = s2.
Proof.
  intros db s1 s2 Hwf H1 H2.
  apply kv_ext; [exact (R_sorted db s1 H1) | exact (R_sorted db s2 H2) |].
  intros k. destruct (kv_get k s1) as [v1|] eqn:E1.
  - apply (R_get_iff db s1 k v1 H1) in E1. apply (R_get_iff db s2 k v1 H2) in E1.
    symmetry. exact E1.
  - destruct (kv_get k s2) as [v2|] eqn:E2; [|reflexivity].
    apply (R_get_iff db s2 k v2 H2) in E2. apply (R_get_iff db s1 k v2 H1) in E2.
    rewrite E1 in E2. discriminate E2.
Qed.

(* ------------------------------------------------------------------ *)
(* 5. Which entries of the store carry a given prefix                  *)
(* ------------------------------------------------------------------ *)

Lemma R_entry_den : forall db s e, R db s -> In e s -> denotes db (fst e) (snd e).
Proof.
  intros db s [k v] HR Hin. simpl. apply (R_In_iff db s k v HR). exact Hin.
Qed.

Theorem R_doc_prefix_entries : forall db s c, R db s -> wf_db db -> no_semi c = true ->
  forall e, In e s -> is_prefix (doc_prefix c) (fst e) = true ->
  exists sc id d, assoc c db = Some sc /\ assoc id (sc_docs sc) = Some d /\
                  e = (doc_key c id, SDoc (doc_encode d)).
Proof.
  intros db s c HR Hwf Hc [k v] Hin Hp. cbn [fst] in Hp.
  apply (R_In_iff db s k v HR) in Hin.
  destruct (den_cases_full db k v Hwf Hin)
    as [(c0 & sc & Ha & Hc0 & Ek & Ev) | [(c0 & sc & id0 & d & Ha & Hd & Hc0 & Hid & Hok & Ek & Ev)
       | (c0 & sc & id0 & d & f0 & Ha & Hd & Hf0 & Hc0 & Hf0' & Hid & Hok & Ek & Ev)]]; subst k v.
  - rewrite doc_prefix_coll in Hp. discriminate Hp.
  - apply (doc_prefix_doc c c0 id0 Hc Hc0) in Hp. subst c0.
    exists sc, id0, d. repeat split; assumption.
  - rewrite (doc_prefix_idx c c0 f0 _ id0 Hc Hc0) in Hp. discriminate Hp.
Qed.

Theorem R_doc_entry_in : forall db s c sc id d, R db s ->
  assoc c db = Some sc -> assoc id (sc_docs sc) = Some d ->
  In (doc_key c id, SDoc (doc_encode d)) s /\
  is_prefix (doc_prefix c) (doc_key c id) = true.
Proof.
  intros db s c sc id d HR Ha Hd. split.
  - apply (R_In_iff db s _ _ HR). eapply den_doc; eassumption.
  - unfold doc_key. apply is_prefix_app.
Qed.

Theorem R_idx_prefix_entries : forall db s c f, R db s -> wf_db db ->
  no_semi c = true -> no_semi f = true ->
  forall e, In e s -> is_prefix (idx_prefix c f) (fst e) = true ->
  exists sc id d, assoc c db = Some sc /\ assoc id (sc_docs sc) = Some d /\ In f (sc_idx sc) /\
                  e = (idx_key c f (doc_get f d) id, SEmpty).
Proof.
  intros db s c f HR Hwf Hc Hf [k v] Hin Hp. cbn [fst] in Hp.
  apply (R_In_iff db s k v HR) in Hin.
  destruct (den_cases_full db k v Hwf Hin)
    as [(c0 & sc & Ha & Hc0 & Ek & Ev) | [(c0 & sc & id0 & d & Ha & Hd & Hc0 & Hid & Hok & Ek & Ev)
       | (c0 & sc & id0 & d & f0 & Ha & Hd & Hf0 & Hc0 & Hf0' & Hid & Hok & Ek & Ev)]]; subst k v.
  - rewrite idx_prefix_coll in Hp. discriminate Hp.
  - rewrite (idx_prefix_doc c f c0 id0 Hc Hc0) in Hp. discriminate Hp.
  - apply (idx_prefix_idx c f c0 f0 _ id0 Hc Hc0 Hf Hf0') in Hp. destruct Hp as [E1 E2]. subst c0 f0.
    exists sc, id0, d. repeat split; assumption.
Qed.

Theorem R_idx_entry_in : forall db s c sc f id d, R db s ->
  assoc c db = Some sc -> assoc id (sc_docs sc) = Some d -> In f (sc_idx sc) ->
  In (idx_key c f (doc_get f d) id, SEmpty) s /\
  is_prefix (idx_prefix c f) (idx_key c f (doc_get f d) id) = true.
Proof.
  intros db s c sc f id d HR Ha Hd Hf. split.
  - apply (R_In_iff db s _ _ HR). eapply den_idx; eassumption.
  - rewrite idx_key_tail. apply is_prefix_app.
Qed.

Theorem R_idx_prefix_none : forall db s c f, R db s -> wf_db db ->
  no_semi c = true -> no_semi f = true ->
  (forall sc, assoc c db = Some sc -> ~ In f (sc_idx sc)) ->
  forall e, In e s -> is_prefix (idx_prefix c f) (fst e) = false.
Proof.
  intros db s c f HR Hwf Hc Hf Hn e Hin.
  destruct (is_prefix (idx_prefix c f) (fst e)) eqn:Hp; [|reflexivity]. exfalso.
  destruct (R_idx_prefix_entries db s c f HR Hwf Hc Hf e Hin Hp) as (sc & id & d & Ha & _ & Hfi & _).
  exact (Hn sc Ha Hfi).
Qed.

Corollary R_idx_prefix_filter_none : forall db s c f, R db s -> wf_db db ->
  no_semi c = true -> no_semi f = true ->
  (forall sc, assoc c db = Some sc -> ~ In f (sc_idx sc)) ->
  filter (fun e => is_prefix (idx_prefix c f) (fst e)) s = [].
Proof.
  intros db s c f HR Hwf Hc Hf Hn. apply filter_none. apply Forall_forall.
  intros e Hin. exact (R_idx_prefix_none db s c f HR Hwf Hc Hf Hn e Hin).
Qed.

Theorem R_coll_prefix_entries : forall db s, R db s -> wf_db db ->
  forall e, In e s -> is_prefix coll_prefix (fst e) = true ->
  exists c sc, assoc c db = Some sc /\
               e = (coll_key c, SMeta (Z.of_nat (length (sc_docs sc))) (sc_idx sc)).
Proof.
  intros db s HR Hwf [k v] Hin Hp. cbn [fst] in Hp.
  apply (R_In_iff db s k v HR) in Hin.
  destruct (den_cases_full db k v Hwf Hin)
    as [(c0 & sc & Ha & Hc0 & Ek & Ev) | [(c0 & sc & id0 & d & Ha & Hd & Hc0 & Hid & Hok & Ek & Ev)
       | (c0 & sc & id0 & d & f0 & Ha & Hd & Hf0 & Hc0 & Hf0' & Hid & Hok & Ek & Ev)]]; subst k v.
  - exists c0, sc. split; [exact Ha | reflexivity].
  - rewrite coll_prefix_doc in Hp. discriminate Hp.
  - rewrite coll_prefix_idx in Hp. discriminate Hp.
Qed.

Theorem R_coll_entry_in : forall db s c sc, R db s -> assoc c db = Some sc ->
  In (coll_key c, SMeta (Z.of_nat (length (sc_docs sc))) (sc_idx sc)) s /\
  is_prefix coll_prefix (coll_key c) = true.
Proof.
  intros db s c sc HR Ha. split.
  - apply (R_In_iff db s _ _ HR). apply den_meta. exact Ha.
  - apply coll_prefix_coll.
Qed.

(* ------------------------------------------------------------------ *)
(* 6. Preservation of well-formedness by the abstract operations       *)
(* ------------------------------------------------------------------ *)

Lemma wf_assoc_set : forall db c sc', wf_db db -> coll_ok c sc' -> wf_db (assoc_set c sc' db).
Proof.
  intros db c sc' [Hnd Hall] Hok. split.
  - apply assoc_set_NoDup. exact Hnd.
  - intros c0 sc0 Hin. apply assoc_set_In in Hin. destruct Hin as [[E1 E2]|Hin].
    + subst c0 sc0. exact Hok.
    + exact (Hall c0 sc0 Hin).
Qed.

Lemma wf_assoc_del : forall db c, wf_db db -> wf_db (assoc_del c db).
Proof.
  intros db c [Hnd Hall]. split.
  - apply assoc_del_NoDup. exact Hnd.
  - intros c0 sc0 Hin. apply assoc_del_In in Hin. exact (Hall c0 sc0 (proj1 Hin)).
Qed.

Lemma coll_ok_empty : forall c, no_semi c = true -> coll_ok c (mkSC [] []).
Proof.
  intros c Hc. split; [exact Hc|]. simpl. split; [constructor|]. split.
  - intros id d F. contradiction F.
  - split; [constructor|]. intros f F. contradiction F.
Qed.

Theorem wf_s_create : forall c db db', wf_db db -> no_semi c = true ->
  s_create c db = Ok db' -> wf_db db'.
Proof.
  intros c db db' Hwf Hc H. unfold s_create in H.
  destruct (assoc c db) as [sc|] eqn:Ha; [discriminate H|]. injection H as H. subst db'.
  rewrite <- (assoc_set_fresh c (mkSC [] []) db Ha).
  apply wf_assoc_set; [exact Hwf | exact (coll_ok_empty c Hc)].
Qed.

Theorem wf_s_drop : forall c db db', wf_db db -> s_drop c db = Ok db' -> wf_db db'.
Proof.
  intros c db db' Hwf H. unfold s_drop in H.
  destruct (assoc c db) as [sc|] eqn:Ha; [|discriminate H]. injection H as H. subst db'.
  apply wf_assoc_del. exact Hwf.
Qed.

(* Insert *)
Lemma s_insert_docs_eq : forall docs acc ds,
  s_insert_docs docs acc = Ok ds -> ds = acc ++ map (fun d => (object_id d, d)) docs.
Proof.
  induction docs as [|d t IH]; intros acc ds H; simpl in H.
  - injection H as H. subst ds. rewrite app_nil_r. reflexivity.
  - destruct (assoc (object_id d) acc); [discriminate H|].
    destruct (validate d); [|discriminate H].
    rewrite (IH _ _ H). rewrite <- app_assoc. reflexivity.
Qed.

Lemma s_insert_docs_ok : forall docs acc ds,
  docs_have_ids docs ->
  NoDup (map fst acc) -> (forall id d, In (id, d) acc -> doc_ok id d) ->
  s_insert_docs docs acc = Ok ds ->
  NoDup (map fst ds) /\ (forall id d, In (id, d) ds -> doc_ok id d).
Proof.
  induction docs as [|d t IH]; intros acc ds Hids Hnd Hall H; simpl in H.
  - injection H as H. subst ds. split; assumption.
  - destruct (assoc (object_id d) acc) eqn:Ha; [discriminate H|].
    destruct (validate d) eqn:Hv; [|discriminate H].
    apply (IH _ _) in H.
    + exact H.
    + intros d0 Hd0. apply Hids. right. exact Hd0.
    + apply app_fresh_NoDup; assumption.
    + intros id0 d0 Hin. apply in_app_or in Hin. destruct Hin as [Hin|[Hin|F]].
      * exact (Hall id0 d0 Hin).
      * injection Hin as E1 E2. subst id0 d0. split; [|split].
        -- apply Hids. left. reflexivity.
        -- reflexivity.
        -- exact Hv.
      * contradiction F.
Qed.

Theorem wf_s_insert : forall c docs db db', wf_db db -> docs_have_ids docs ->
  s_insert c docs db = Ok db' -> wf_db db'.
Proof.
  intros c docs db db' Hwf Hids H. unfold s_insert in H.
  destruct (assoc c db) as [sc|] eqn:Ha; [|discriminate H].
  destruct (s_insert_docs docs (sc_docs sc)) as [ds|e] eqn:Hi; [|discriminate H].
  injection H as H. subst db'.
  destruct (wf_coll db c sc Hwf Ha) as (Hc & Hnd & Hall & Hni & Hfi).
  destruct (s_insert_docs_ok docs (sc_docs sc) ds Hids Hnd Hall Hi) as [Hnd' Hall'].
  apply wf_assoc_set; [exact Hwf|].
  split; [exact Hc|]. simpl. split; [exact Hnd'|]. split; [exact Hall'|]. split; assumption.
Qed.

Theorem wf_s_delete_by_id : forall c id db db', wf_db db ->
  s_delete_by_id c id db = Ok db' -> wf_db db'.
Proof.
  intros c id db db' Hwf H. unfold s_delete_by_id in H.
  destruct (assoc c db) as [sc|] eqn:Ha; [|discriminate H]. injection H as H. subst db'.
  destruct (wf_coll db c sc Hwf Ha) as (Hc & Hnd & Hall & Hni & Hfi).
  apply wf_assoc_set; [exact Hwf|].
  split; [exact Hc|]. simpl. split; [apply assoc_del_NoDup; exact Hnd|]. split.
  - intros id0 d0 Hin. apply assoc_del_In in Hin. exact (Hall id0 d0 (proj1 Hin)).
  - split; assumption.
Qed.

(* what a successful UpdateById did *)
Lemma s_update_by_id_inv : forall c id u db db', s_update_by_id c id u db = Ok db' ->
  exists sc d d', assoc c db = Some sc /\ assoc id (sc_docs sc) = Some d /\
                  apply_updater u d = Some d' /\ object_id d' = id /\ validate d' = true /\
                  db' = assoc_set c (mkSC (assoc_set id d' (sc_docs sc)) (sc_idx sc)) db.
Proof.
  intros c id u db db' H. unfold s_update_by_id in H.
  destruct (assoc c db) as [sc|] eqn:Ha; [|discriminate H].
  destruct (assoc id (sc_docs sc)) as [d|] eqn:Hd; [|discriminate H].
  destruct (apply_updater u d) as [d'|] eqn:Hu; [|discriminate H].
  destruct (beqb (object_id d') id) eqn:Ei; simpl in H; [|discriminate H].
  destruct (validate d') eqn:Hv; [|discriminate H].
  injection H as H. apply beqb_true_iff in Ei.
  exists sc, d, d'. repeat split; try assumption. symmetry. exact H.
Qed.

Lemma coll_ok_set_doc : forall c sc id d',
  coll_ok c sc -> doc_ok id d' -> coll_ok c (mkSC (assoc_set id d' (sc_docs sc)) (sc_idx sc)).
Proof.
  intros c sc id d' (Hc & Hnd & Hall & Hni & Hfi) Hok.
  split; [exact Hc|]. simpl. split; [apply assoc_set_NoDup; exact Hnd|]. split.
  - intros id0 d0 Hin. apply assoc_set_In in Hin. destruct Hin as [[E1 E2]|Hin].
    + subst id0 d0. exact Hok.
    + exact (Hall id0 d0 Hin).
  - split; assumption.
Qed.

Theorem wf_s_update_by_id : forall c id u db db', wf_db db ->
  s_update_by_id c id u db = Ok db' -> wf_db db'.
Proof.
  intros c id u db db' Hwf H.
  destruct (s_update_by_id_inv c id u db db' H) as (sc & d & d' & Ha & Hd & Hu & Hi & Hv & E).
  subst db'. apply wf_assoc_set; [exact Hwf|].
  apply coll_ok_set_doc; [exact (wf_coll db c sc Hwf Ha)|].
  destruct (wf_doc db c sc id d Hwf Ha Hd) as (Hcan & _ & _).
  split; [exact Hcan|]. split; assumption.
Qed.

(* indexes *)
Lemma has_field_In : forall f l, has_field f l = true <-> In f l.
Proof.
  intros f l. unfold has_field. rewrite existsb_exists. split.
  - intros (x & Hin & E). apply beqb_true_iff in E. subst x. exact Hin.
  - intros Hin. exists f. split; [exact Hin | apply beqb_refl].
Qed.

Lemma has_field_false : forall f l, has_field f l = false <-> ~ In f l.
Proof.
  intros f l. rewrite <- has_field_In. destruct (has_field f l); split; intros H.
  - discriminate H.
  - exfalso. apply H. reflexivity.
  - intros F. discriminate F.
  - reflexivity.
Qed.

Theorem wf_s_create_index : forall c f db db', wf_db db -> no_semi f = true ->
  s_create_index c f db = Ok db' -> wf_db db'.
Proof.
  intros c f db db' Hwf Hf H. unfold s_create_index in H.
  destruct (assoc c db) as [sc|] eqn:Ha; [|discriminate H].
  destruct (has_field f (sc_idx sc)) eqn:Hh; [discriminate H|]. injection H as H. subst db'.
  apply has_field_false in Hh.
  destruct (wf_coll db c sc Hwf Ha) as (Hc & Hnd & Hall & Hni & Hfi).
  apply wf_assoc_set; [exact Hwf|].
  split; [exact Hc|]. simpl. split; [exact Hnd|]. split; [exact Hall|]. split.
  - apply (Permutation_NoDup (Permutation_cons_append (sc_idx sc) f)).
    constructor; assumption.
  - intros g Hg. apply in_app_or in Hg. destruct Hg as [Hg|[Hg|F]].
    + exact (Hfi g Hg).
    + subst g. exact Hf.
    + contradiction F.
Qed.

(* DropIndex's slice surgery *)
Lemma last_index_of_gen : forall f l i found j,
  last_index_of f l i found = Some j ->
  found = Some j \/ exists n, j = (i + n)%nat /\ nth_error l n = Some f.
Proof.
  intros f l. induction l as [|x t IH]; intros i found j H; simpl in H.
  - left. exact H.
  - apply IH in H. destruct H as [H|(n & Ej & Hn)].
    + destruct (beqb x f) eqn:E.
      * apply beqb_true_iff in E. subst x. injection H as H. subst j.
        right. exists 0%nat. split; [lia | reflexivity].
      * left. exact H.
    + right. exists (S n). split; [lia | exact Hn].
Qed.

Lemma last_index_of_nth : forall f l j,
  last_index_of f l 0 None = Some j -> nth_error l j = Some f.
Proof.
  intros f l j H. apply last_index_of_gen in H. destruct H as [H|(n & Ej & Hn)].
  - discriminate H.
  - simpl in Ej. subst j. exact Hn.
Qed.

Lemma last_index_of_none_gen : forall f l i found,
  last_index_of f l i found = None <-> found = None /\ ~ In f l.
Proof.
  intros f l. induction l as [|x t IH]; intros i found; simpl.
  - split; [intros H; split; [exact H | intros F; exact F] | intros [H _]; exact H].
  - rewrite IH. destruct (beqb x f) eqn:E.
    + apply beqb_true_iff in E. subst x. split.
      * intros [H _]. discriminate H.
      * intros [_ H]. exfalso. apply H. left. reflexivity.
    + apply beqb_false_iff in E. split.
      * intros [H1 H2]. split; [exact H1|]. intros [F|F]; [exact (E F) | exact (H2 F)].
      * intros [H1 H2]. split; [exact H1|]. intros F. apply H2. right. exact F.
Qed.

Lemma last_index_of_none : forall f l, last_index_of f l 0 None = None <-> ~ In f l.
Proof.
  intros f l. rewrite last_index_of_none_gen. split.
  - intros [_ H]. exact H.
  - intros H. split; [reflexivity | exact H].
Qed.

Lemma last_index_of_some_In : forall f l j, last_index_of f l 0 None = Some j -> In f l.
Proof. intros f l j H. apply last_index_of_nth in H. eapply nth_error_In. exact H. Qed.

Lemma set_nth_perm : forall (t : list bytes) j f h,
  nth_error t j = Some f -> Permutation (f :: set_nth j h t) (h :: t).
Proof.
  induction t as [|x t IH]; intros j f h H.
  - destruct j; discriminate H.
  - destruct j as [|j]; simpl in H.
    + injection H as H. subst x. simpl. apply perm_swap.
    + simpl. eapply perm_trans; [apply perm_swap|].
      eapply perm_trans; [apply perm_skip; exact (IH j f h H)|]. apply perm_swap.
Qed.

Lemma drop_slot_perm : forall f l j,
  nth_error l j = Some f -> Permutation (f :: drop_slot j l) l.
Proof.
  intros f l j H. destruct l as [|h t]; [destruct j; discriminate H|].
  unfold drop_slot. destruct j as [|j]; simpl in H.
  - injection H as H. subst h. simpl. apply Permutation_refl.
  - simpl. apply set_nth_perm. exact H.
Qed.

Theorem drop_slot_spec : forall f l j,
  last_index_of f l 0 None = Some j -> NoDup l -> Permutation (f :: drop_slot j l) l.
Proof. intros f l j H _. apply drop_slot_perm. apply last_index_of_nth. exact H. Qed.

Lemma drop_slot_NoDup : forall f l j,
  last_index_of f l 0 None = Some j -> NoDup l -> NoDup (drop_slot j l) /\ ~ In f (drop_slot j l).
Proof.
  intros f l j H Hnd.
  pose proof (Permutation_NoDup (Permutation_sym (drop_slot_spec f l j H Hnd)) Hnd) as Hn.
  inversion Hn; subst. split; assumption.
Qed.

Lemma drop_slot_In_iff : forall f l j g,
  last_index_of f l 0 None = Some j -> NoDup l ->
  (In g (drop_slot j l) <-> In g l /\ g <> f).
Proof.
  intros f l j g H Hnd. pose proof (drop_slot_spec f l j H Hnd) as Hp.
  destruct (drop_slot_NoDup f l j H Hnd) as [_ Hnf]. split.
  - intros Hin. split.
    + apply (Permutation_in g Hp). right. exact Hin.
    + intros E. subst g. exact (Hnf Hin).
  - intros [Hin Hne]. apply (Permutation_in g (Permutation_sym Hp)) in Hin.
    destruct Hin as [E|Hin]; [|exact Hin]. exfalso. apply Hne. symmetry. exact E.
Qed.

Theorem wf_s_drop_index : forall c f db db', wf_db db ->
  s_drop_index c f db = Ok db' -> wf_db db'.
Proof.
  intros c f db db' Hwf H. unfold s_drop_index in H.
  destruct (assoc c db) as [sc|] eqn:Ha; [|discriminate H].
  destruct (last_index_of f (sc_idx sc) 0 None) as [j|] eqn:Hj; [|discriminate H].
  injection H as H. subst db'.
  destruct (wf_coll db c sc Hwf Ha) as (Hc & Hnd & Hall & Hni & Hfi).
  apply wf_assoc_set; [exact Hwf|].
  split; [exact Hc|]. simpl. split; [exact Hnd|]. split; [exact Hall|]. split.
  - exact (proj1 (drop_slot_NoDup f (sc_idx sc) j Hj Hni)).
  - intros g Hg. apply (drop_slot_In_iff f (sc_idx sc) j g Hj Hni) in Hg. exact (Hfi g (proj1 Hg)).
Qed.

(* ------------------------------------------------------------------ *)
(* 7. Frame lemmas: what an update of one collection leaves alone       *)
(* ------------------------------------------------------------------ *)

(* the keys that belong to collection c *)
Definition key_in_coll (c k : bytes) : Prop :=
  k = coll_key c \/ (exists id, k = doc_key c id) \/ (exists f x id, k = idx_key c f x id).

(* the collection name of an index key, whatever the field name is *)
Lemma idx_key_coll_inj : forall c c' f f' v v' id id',
  no_semi c = true -> no_semi c' = true ->
  idx_key c f v id = idx_key c' f' v' id' -> c = c'.
Proof.
  intros c c' f f' v v' id id' Hc Hc' H.
  rewrite !idx_key_shape in H. apply app_inv_head in H.
  apply no_semi_split_inj in H; [|assumption|assumption]. exact (proj1 H).
Qed.

Lemma coll_key_in_coll : forall c c', key_in_coll c (coll_key c') -> c' = c.
Proof.
  intros c c' [H|[(id & H)|(f & x & id & H)]].
  - apply coll_key_inj. exact H.
  - exfalso. exact (coll_key_not_doc _ _ _ H).
  - exfalso. exact (coll_key_not_idx _ _ _ _ _ H).
Qed.

Lemma doc_key_in_coll : forall c c' id, no_semi c = true -> no_semi c' = true ->
  key_in_coll c (doc_key c' id) -> c' = c.
Proof.
  intros c c' id Hc Hc' [H|[(id0 & H)|(f & x & id0 & H)]].
  - exfalso. symmetry in H. exact (coll_key_not_doc _ _ _ H).
  - apply doc_key_inj in H; [|assumption|assumption]. exact (proj1 H).
  - exfalso. exact (doc_key_not_idx _ _ _ _ _ _ Hc' Hc H).
Qed.

Lemma idx_key_in_coll : forall c c' f x id, no_semi c = true -> no_semi c' = true ->
  key_in_coll c (idx_key c' f x id) -> c' = c.
Proof.
  intros c c' f x id Hc Hc' [H|[(id0 & H)|(f0 & x0 & id0 & H)]].
  - exfalso. symmetry in H. exact (coll_key_not_idx _ _ _ _ _ H).
  - exfalso. symmetry in H. exact (doc_key_not_idx _ _ _ _ _ _ Hc Hc' H).
  - exact (idx_key_coll_inj _ _ _ _ _ _ _ _ Hc' Hc H).
Qed.

(* one direction, decision-free: a denoted pair either survives or its key is in c *)
Theorem den_frame_fwd : forall db db' c k v,
  (forall c', c' <> c -> assoc c' db' = assoc c' db) ->
  denotes db k v -> key_in_coll c k \/ denotes db' k v.
Proof.
  intros db db' c k v Hfr H. apply den_inv in H.
  destruct H as [(c0 & sc & Ha & Ek & Ev) | [(c0 & sc & id0 & d & Ha & Hd & Ek & Ev)
                                            | (c0 & sc & id0 & d & f0 & Ha & Hd & Hf0 & Ek & Ev)]];
    subst k v; destruct (beqb c0 c) eqn:E.
  - apply beqb_true_iff in E. subst c0. left. left. reflexivity.
  - apply beqb_false_iff in E. right. apply den_meta. rewrite (Hfr c0 E). exact Ha.
  - apply beqb_true_iff in E. subst c0. left. right. left. exists id0. reflexivity.
  - apply beqb_false_iff in E. right. apply (den_doc db' c0 sc id0 d); [|exact Hd].
    rewrite (Hfr c0 E). exact Ha.
  - apply beqb_true_iff in E. subst c0. left. right. right.
    exists f0, (doc_get f0 d), id0. reflexivity.
  - apply beqb_false_iff in E. right. apply (den_idx db' c0 sc id0 d f0); [|exact Hd|exact Hf0].
    rewrite (Hfr c0 E). exact Ha.
Qed.

Theorem den_frame : forall db db' c k v,
  (forall c', c' <> c -> assoc c' db' = assoc c' db) ->
  ~ key_in_coll c k -> (denotes db' k v <-> denotes db k v).
Proof.
  intros db db' c k v Hfr Hn. split; intros H.
  - destruct (den_frame_fwd db' db c k v) as [F|H']; [|exact H|contradiction (Hn F)|exact H'].
    intros c' Hc'. symmetry. exact (Hfr c' Hc').
  - destruct (den_frame_fwd db db' c k v Hfr H) as [F|H']; [contradiction (Hn F)|exact H'].
Qed.

(* the same with the key kinds spelled out (under wf of the source database) *)
Theorem den_frame_cases : forall db db' c k v, wf_db db ->
  (forall c', c' <> c -> assoc c' db' = assoc c' db) ->
  denotes db k v ->
  denotes db' k v \/
  k = coll_key c \/
  (exists id, k = doc_key c id /\ id_ok id) \/
  (exists f x id, k = idx_key c f x id /\ no_semi f = true /\ id_ok id).
Proof.
  intros db db' c k v Hwf Hfr H.
  destruct (den_cases_full db k v Hwf H)
    as [(c0 & sc & Ha & Hc0 & Ek & Ev) | [(c0 & sc & id0 & d & Ha & Hd & Hc0 & Hid & Hok & Ek & Ev)
       | (c0 & sc & id0 & d & f0 & Ha & Hd & Hf0 & Hc0 & Hf0' & Hid & Hok & Ek & Ev)]];
    subst k v; destruct (beqb c0 c) eqn:E.
  - apply beqb_true_iff in E. subst c0. right. left. reflexivity.
  - apply beqb_false_iff in E. left. apply den_meta. rewrite (Hfr c0 E). exact Ha.
  - apply beqb_true_iff in E. subst c0. right. right. left. exists id0. split; [reflexivity|exact Hid].
  - apply beqb_false_iff in E. left. apply (den_doc db' c0 sc id0 d); [|exact Hd].
    rewrite (Hfr c0 E). exact Ha.
  - apply beqb_true_iff in E. subst c0. right. right. right.
    exists f0, (doc_get f0 d), id0. split; [reflexivity|]. split; assumption.
  - apply beqb_false_iff in E. left. apply (den_idx db' c0 sc id0 d f0); [|exact Hd|exact Hf0].
    rewrite (Hfr c0 E). exact Ha.
Qed.

(* instances for [assoc_set] / [assoc_del] on the collection list *)
Lemma assoc_set_frame : forall (db : sdb) c sc' c',
  c' <> c -> assoc c' (assoc_set c sc' db) = assoc c' db.
Proof. intros db c sc' c' H. apply assoc_set_other. intros E. apply H. symmetry. exact E. Qed.

Lemma assoc_del_frame : forall (db : sdb) c c',
  c' <> c -> assoc c' (assoc_del c db) = assoc c' db.
Proof. intros db c c' H. apply assoc_del_other. intros E. apply H. symmetry. exact E. Qed.

Theorem den_other_coll : forall db c sc' c' v, c' <> c ->
  (denotes (assoc_set c sc' db) (coll_key c') v <-> denotes db (coll_key c') v).
Proof.
  intros db c sc' c' v Hne. apply (den_frame db _ c); [intros c0; apply assoc_set_frame|].
  intros F. apply coll_key_in_coll in F. exact (Hne F).
Qed.

Theorem den_other_doc : forall db c sc' c' id v, c' <> c ->
  no_semi c = true -> no_semi c' = true ->
  (denotes (assoc_set c sc' db) (doc_key c' id) v <-> denotes db (doc_key c' id) v).
Proof.
  intros db c sc' c' id v Hne Hc Hc'. apply (den_frame db _ c); [intros c0; apply assoc_set_frame|].
  intros F. apply doc_key_in_coll in F; [|assumption|assumption]. exact (Hne F).
Qed.

Theorem den_other_idx : forall db c sc' c' f x id v, c' <> c ->
  no_semi c = true -> no_semi c' = true ->
  (denotes (assoc_set c sc' db) (idx_key c' f x id) v <-> denotes db (idx_key c' f x id) v).
Proof.
  intros db c sc' c' f x id v Hne Hc Hc'.
  apply (den_frame db _ c); [intros c0; apply assoc_set_frame|].
  intros F. apply idx_key_in_coll in F; [|assumption|assumption]. exact (Hne F).
Qed.

(* ... and what the updated collection itself denotes *)
Theorem den_set_coll : forall db c sc' v, wf_db (assoc_set c sc' db) ->
  (denotes (assoc_set c sc' db) (coll_key c) v <->
   v = SMeta (Z.of_nat (length (sc_docs sc'))) (sc_idx sc')).
Proof.
  intros db c sc' v Hwf. rewrite (den_coll_iff _ c v Hwf). rewrite assoc_set_same. split.
  - intros (sc & E & Ev). injection E as E. subst sc. exact Ev.
  - intros Ev. exists sc'. split; [reflexivity | exact Ev].
Qed.

Theorem den_set_doc : forall db c sc' id v, wf_db (assoc_set c sc' db) -> no_semi c = true ->
  (denotes (assoc_set c sc' db) (doc_key c id) v <->
   exists d, assoc id (sc_docs sc') = Some d /\ v = SDoc (doc_encode d)).
Proof.
  intros db c sc' id v Hwf Hc. rewrite (den_doc_iff _ c id v Hwf Hc). rewrite assoc_set_same. split.
  - intros (sc & d & E & Hd & Ev). injection E as E. subst sc. exists d. split; assumption.
  - intros (d & Hd & Ev). exists sc', d. split; [reflexivity|]. split; assumption.
Qed.

Theorem den_set_idx : forall db c sc' f x id v, wf_db (assoc_set c sc' db) ->
  no_semi c = true -> no_semi f = true -> length id = 36%nat ->
  (denotes (assoc_set c sc' db) (idx_key c f x id) v <->
   v = SEmpty /\ exists d, assoc id (sc_docs sc') = Some d /\ In f (sc_idx sc') /\
                           idx_value_key c f x = idx_value_key c f (doc_get f d)).
Proof.
  intros db c sc' f x id v Hwf Hc Hf Hid.
  rewrite (den_idx_iff _ c f x id v Hwf Hc Hf Hid). rewrite assoc_set_same. split.
  - intros (Ev & sc & d & E & Hd & Hfi & Ek). injection E as E. subst sc.
    split; [exact Ev|]. exists d. repeat split; assumption.
  - intros (Ev & d & Hd & Hfi & Ek). split; [exact Ev|]. exists sc', d.
    split; [reflexivity|]. repeat split; assumption.
Qed.

(* dropping a collection: nothing of c is left, the rest is untouched.
   [no_semi c] is needed: for a name c with ';' (necessarily absent from a wf db, so that
   assoc_del c db = db) a key "of c" can be a key of another collection: an index entry
   "c:a;i:f;t:2;v:" ++ bytes ++ id of collection "a", whose value bytes contain ";d:", is also
   doc_key c id' for c = "a;i:f;t:2;v:..." (value bytes may contain any byte, see
   KeyProofs.value_code_has_semi). *)
Theorem den_del_coll : forall db c k v, wf_db db -> no_semi c = true ->
  (denotes (assoc_del c db) k v <-> denotes db k v /\ ~ key_in_coll c k).
Proof.
  intros db c k v Hwf Hc. pose proof (wf_assoc_del db c Hwf) as Hwf'. split.
  - intros H. assert (Hn : ~ key_in_coll c k).
    { intros F.
      destruct (den_cases_full _ k v Hwf' H)
        as [(c0 & sc & Ha & Hc0 & Ek & Ev)
           | [(c0 & sc & id0 & d & Ha & Hd & Hc0 & Hid & Hok & Ek & Ev)
           | (c0 & sc & id0 & d & f0 & Ha & Hd & Hf0 & Hc0 & Hf0' & Hid & Hok & Ek & Ev)]];
        subst k.
      - apply coll_key_in_coll in F. subst c0. rewrite assoc_del_same in Ha. discriminate Ha.
      - apply doc_key_in_coll in F; [|assumption|assumption].
        subst c0. rewrite assoc_del_same in Ha. discriminate Ha.
      - apply idx_key_in_coll in F; [|assumption|assumption].
        subst c0. rewrite assoc_del_same in Ha. discriminate Ha. }
    split; [|exact Hn]. apply (den_frame db _ c k v (assoc_del_frame db c) Hn). exact H.
  - intros [H Hn]. apply (den_frame db _ c k v (assoc_del_frame db c) Hn). exact H.
Qed.

(* ------------------------------------------------------------------ *)
(* 8. Non-vacuity                                                      *)
(* ------------------------------------------------------------------ *)

(* a canonical 36-byte id made of one hex digit *)
Definition ex_uuid (b : N) : bytes :=
  repeat b 8 ++ [45%N] ++ repeat b 4 ++ [45%N] ++ repeat b 4 ++ [45%N] ++ repeat b 4 ++ [45%N]
  ++ repeat b 12.

Definition ex_id1 : bytes := ex_uuid 48%N.    (* "00000000-0000-0000-0000-000000000000" *)
Definition ex_id2 : bytes := ex_uuid 97%N.    (* "aaaaaaaa-aaaa-aaaa-aaaa-aaaaaaaaaaaa" *)
Definition ex_c : bytes := [116%N].           (* collection "t" *)
Definition ex_f : bytes := [97%N].            (* field "a" *)
Definition ex_d1 : obj := [(id_field, VStr ex_id1); (ex_f, VInt 5)].
Definition ex_d2 : obj := [(id_field, VStr ex_id2); (ex_f, VStr [120%N])].
Definition ex_sc : scoll := mkSC [(ex_id1, ex_d1); (ex_id2, ex_d2)] [ex_f].
Definition ex_db : sdb := [(ex_c, ex_sc)].

(* the 1 + 2 + 2 denoted pairs in key order: documents, index entries, metadata *)
Definition ex_s : kv :=
  [ (doc_key ex_c ex_id1, SDoc (doc_encode ex_d1));
    (doc_key ex_c ex_id2, SDoc (doc_encode ex_d2));
    (idx_key ex_c ex_f (doc_get ex_f ex_d1) ex_id1, SEmpty);
    (idx_key ex_c ex_f (doc_get ex_f ex_d2) ex_id2, SEmpty);
    (coll_key ex_c, SMeta (Z.of_nat (length (sc_docs ex_sc))) (sc_idx ex_sc)) ].

Lemma ex_wf : wf_db ex_db.
Proof.
  split.
  - simpl. constructor; [intros F; exact F | constructor].
  - intros c sc [H|F]; [|contradiction F]. injection H as E1 E2. subst c sc.
    split; [reflexivity|]. split; [|split; [|split]].
    + simpl. constructor; [|constructor; [intros F; exact F | constructor]].
      intros [F|F]; [|exact F]. vm_compute in F. discriminate F.
    + intros id d [H|[H|F]]; [| |contradiction F]; injection H as E1 E2; subst id d;
        (split; [|split]); vm_compute; reflexivity.
    + simpl. constructor; [intros F; exact F | constructor].
    + intros f [H|F]; [|contradiction F]. subst f. reflexivity.
Qed.

Lemma ex_sorted : kv_sorted ex_s.
Proof.
  unfold kv_sorted, ex_s.
  repeat (apply SSorted_cons || apply SSorted_nil || apply Forall_cons || apply Forall_nil);
    vm_compute; reflexivity.
Qed.

Lemma ex_R : R ex_db ex_s.
Proof.
  split; [exact ex_sorted|]. intros k v. split.
  - intros H. unfold ex_s in H. cbn [kv_get] in H.
    destruct (beqb k (doc_key ex_c ex_id1)) eqn:E1.
    { apply beqb_true_iff in E1. injection H as H. subst k v.
      apply (den_doc ex_db ex_c ex_sc ex_id1 ex_d1); reflexivity. }
    destruct (beqb k (doc_key ex_c ex_id2)) eqn:E2.
    { apply beqb_true_iff in E2. injection H as H. subst k v.
      apply (den_doc ex_db ex_c ex_sc ex_id2 ex_d2); reflexivity. }
    destruct (beqb k (idx_key ex_c ex_f (doc_get ex_f ex_d1) ex_id1)) eqn:E3.
    { apply beqb_true_iff in E3. injection H as H. subst k v.
      apply (den_idx ex_db ex_c ex_sc ex_id1 ex_d1 ex_f); [reflexivity | reflexivity |].
      left. reflexivity. }
    destruct (beqb k (idx_key ex_c ex_f (doc_get ex_f ex_d2) ex_id2)) eqn:E4.
    { apply beqb_true_iff in E4. injection H as H. subst k v.
      apply (den_idx ex_db ex_c ex_sc ex_id2 ex_d2 ex_f); [reflexivity | reflexivity |].
      left. reflexivity. }
    destruct (beqb k (coll_key ex_c)) eqn:E5; [|discriminate H].
    apply beqb_true_iff in E5. injection H as H. subst k v.
    apply (den_meta ex_db ex_c ex_sc). reflexivity.
  - intros H. apply den_inv in H.
    assert (Hc : forall c0 sc, assoc c0 ex_db = Some sc -> c0 = ex_c /\ sc = ex_sc).
    { intros c0 sc Ha. unfold ex_db in Ha. cbn [assoc] in Ha.
      destruct (beqb c0 ex_c) eqn:E; [|discriminate Ha].
      apply beqb_true_iff in E. injection Ha as Ha. split; [exact E | symmetry; exact Ha]. }
    assert (Hd : forall id d, assoc id (sc_docs ex_sc) = Some d ->
                              (id = ex_id1 /\ d = ex_d1) \/ (id = ex_id2 /\ d = ex_d2)).
    { intros id d Ha. unfold ex_sc in Ha. cbn [assoc sc_docs] in Ha.
      destruct (beqb id ex_id1) eqn:E1.
      - apply beqb_true_iff in E1. injection Ha as Ha. left. split; [exact E1 | symmetry; exact Ha].
      - destruct (beqb id ex_id2) eqn:E2; [|discriminate Ha].
        apply beqb_true_iff in E2. injection Ha as Ha. right. split; [exact E2 | symmetry; exact Ha]. }
    destruct H as [(c0 & sc & Ha & Ek & Ev) | [(c0 & sc & id0 & d & Ha & Hd0 & Ek & Ev)
                                              | (c0 & sc & id0 & d & f0 & Ha & Hd0 & Hf0 & Ek & Ev)]];
      destruct (Hc c0 sc Ha) as [E1 E2]; subst c0 sc k v.
    + vm_compute. reflexivity.
    + destruct (Hd id0 d Hd0) as [[E1 E2]|[E1 E2]]; subst id0 d; vm_compute; reflexivity.
    + destruct Hf0 as [Ef|F]; [|contradiction F]. subst f0.
      destruct (Hd id0 d Hd0) as [[E1 E2]|[E1 E2]]; subst id0 d; vm_compute; reflexivity.
Qed.

Example R_example :
  wf_db ex_db /\ R ex_db ex_s /\ length ex_s = 5%nat /\
  canonical_id ex_id1 = true /\ canonical_id ex_id2 = true /\ length ex_id1 = 36%nat /\
  (* the store is what the model's own writes build *)
  ex_s = kv_set (coll_key ex_c) (SMeta 2 [ex_f])
           (kv_set (idx_key ex_c ex_f (VStr [120%N]) ex_id2) SEmpty
           (kv_set (doc_key ex_c ex_id2) (SDoc (doc_encode ex_d2))
           (kv_set (idx_key ex_c ex_f (VInt 5) ex_id1) SEmpty
           (kv_set (doc_key ex_c ex_id1) (SDoc (doc_encode ex_d1))
           (kv_set (coll_key ex_c) (SMeta 0 []) []))))) /\
  (* and the lookup lemmas give the expected answers on it *)
  kv_get (coll_key ex_c) ex_s = Some (SMeta 2 [ex_f]) /\
  kv_get (doc_key ex_c ex_id2) ex_s = Some (SDoc (doc_encode ex_d2)) /\
  kv_get (idx_key ex_c ex_f (VInt 5) ex_id1) ex_s = Some SEmpty /\
  kv_get (idx_key ex_c ex_f (VInt 5) ex_id2) ex_s = None.
Proof.
  split; [exact ex_wf|]. split; [exact ex_R|]. split; [reflexivity|].
  split; [vm_compute; reflexivity|]. split; [vm_compute; reflexivity|].
  split; [vm_compute; reflexivity|]. split; [vm_compute; reflexivity|].
  split; [|split; [|split]].
  - rewrite (R_get_meta ex_db ex_s ex_c ex_R ex_wf). reflexivity.
  - rewrite (R_get_doc ex_db ex_s ex_c ex_id2 ex_R ex_wf eq_refl). reflexivity.
  - apply (R_get_idx_some ex_db ex_s ex_c ex_sc ex_f ex_id1 ex_d1 ex_R); try reflexivity.
    left. reflexivity.
  - apply (R_get_idx_none ex_db ex_s ex_c ex_f (VInt 5) ex_id2 ex_R ex_wf); try reflexivity.
    intros sc d Ha Hd _. unfold ex_db in Ha. cbn [assoc] in Ha.
    change (beqb ex_c ex_c) with true in Ha. injection Ha as Ha. subst sc.
    unfold ex_sc in Hd. cbn [assoc sc_docs] in Hd.
    change (beqb ex_id2 ex_id1) with false in Hd. change (beqb ex_id2 ex_id2) with true in Hd.
    injection Hd as Hd. subst d. intros F. vm_compute in F. discriminate F.
Qed.

(* the example also exercises uniqueness: any store related to ex_db is ex_s *)
Example R_example_unique : forall s, R ex_db s -> s = ex_s.
Proof. intros s H. exact (R_unique ex_db s ex_s ex_wf H ex_R). Qed.

(* ------------------------------------------------------------------ *)
(* Assumptions                                                         *)
(* ------------------------------------------------------------------ *)

Print Assumptions canonical_id_ok.
Print Assumptions canonical_id_length.
Print Assumptions assoc_set_same.
Print Assumptions assoc_set_other.
Print Assumptions assoc_del_same.
Print Assumptions assoc_del_other.
Print Assumptions assoc_app_none.
Print Assumptions assoc_app_other.
Print Assumptions assoc_In.
Print Assumptions assoc_some_In.
Print Assumptions assoc_none_notin.
Print Assumptions assoc_set_NoDup.
Print Assumptions assoc_del_NoDup.
Print Assumptions app_fresh_NoDup.
Print Assumptions assoc_set_In.
Print Assumptions assoc_del_In.
Print Assumptions assoc_set_length_present.
Print Assumptions assoc_set_length_absent.
Print Assumptions assoc_del_length_present.
Print Assumptions assoc_del_length_absent.
Print Assumptions wf_coll.
Print Assumptions wf_doc.
Print Assumptions wf_doc_id_ok.
Print Assumptions wf_idx_name.
Print Assumptions wf_empty.
Print Assumptions den_coll_iff.
Print Assumptions den_doc_iff.
Print Assumptions den_idx_iff.
Print Assumptions den_cases.
Print Assumptions den_cases_full.
Print Assumptions den_fun.
Print Assumptions R_get_meta.
Print Assumptions R_get_doc.
Print Assumptions R_get_idx_iff.
Print Assumptions R_get_idx_some.
Print Assumptions R_get_idx_none.
Print Assumptions R_sorted.
Print Assumptions R_empty.
Print Assumptions R_unique.
Print Assumptions R_doc_prefix_entries.
Print Assumptions R_doc_entry_in.
Print Assumptions R_idx_prefix_entries.
Print Assumptions R_idx_entry_in.
Print Assumptions R_idx_prefix_none.
Print Assumptions R_coll_prefix_entries.
Print Assumptions R_coll_entry_in.
Print Assumptions wf_s_create.
Print Assumptions wf_s_drop.
Print Assumptions wf_s_insert.
Print Assumptions wf_s_delete_by_id.
Print Assumptions wf_s_update_by_id.
Print Assumptions wf_s_create_index.
Print Assumptions drop_slot_spec.
Print Assumptions wf_s_drop_index.
Print Assumptions den_frame.
Print Assumptions den_frame_cases.
Print Assumptions den_other_coll.
Print Assumptions den_other_doc.
Print Assumptions den_other_idx.
Print Assumptions den_set_coll.
Print Assumptions den_set_doc.
Print Assumptions den_set_idx.
Print Assumptions den_del_coll.
Print Assumptions R_example.
Print Assumptions R_example_unique.

(* Generic observation terms exchanged between the Go harness and the model. *)
From Clover Require Export Bytes.
Open Scope Z_scope.

Inductive T : Type := TZ (z : Z) | TL (l : list T).

Fixpoint T_eqb (a b : T) {struct a} : bool :=
  match a, b with
  | TZ x, TZ y => Z.eqb x y
  | TL l1, TL l2 =>
      (fix go (l1 l2 : list T) {struct l1} : bool :=
         match l1, l2 with
         | [], [] => true
         | x :: t1, y :: t2 => T_eqb x y && go t1 t2
         | _, _ => false
         end) l1 l2
  | _, _ => false
  end.

Definition TB (s : bytes) : T := TL (map (fun b => TZ (Z.of_N b)) s).
Definition Tbool (b : bool) : T := TZ (if b then 1 else 0).
Definition Tsign (c : comparison) : T := TZ (match c with Lt => -1 | Eq => 0 | Gt => 1 end).

(* indices (from 0) of positions where the two lists differ, with the model's value *)
Fixpoint diff_at (i : Z) (model observed : list T) : list (Z * T) :=
  match model, observed with
  | [], [] => []
  | m :: mt, o :: ot => (if T_eqb m o then [] else [(i, m)]) ++ diff_at (i + 1) mt ot
  | m :: mt, [] => [(i, m)]
  | [], o :: _ => [(i, TL [])]
  end.

Definition first_diff (model observed : list T) : option (Z * T) :=
  match diff_at 0 model observed with
  | [] => None
  | d :: _ => Some d
  end.

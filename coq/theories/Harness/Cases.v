(* Case formats of the correspondence check and the model-side checker.
   Every stream of the Go harness produces cases of this type; check_case returns the list of
   disagreements (empty = the implementation behaved like the model on this case). *)
From Clover Require Export Ops RunC10 Unmarshal Msgpack MsgpackSpec.
Open Scope Z_scope.

Inductive hcase : Type :=
| HC10 (pool : list value) (signs keys : list T)
| HHist (steps : list (op * T * option T))    (* op, observed result, observed raw dump (if taken) *)
| HNorm (g : goval) (obs : T)                 (* internal.Normalize on a Go value *)
| HSat (c : gcrit) (d : obj) (obs : T)        (* normalise the criteria, then Criteria.Satisfy(doc) *)
| HFault (base : list op) (o : op) (k : Z) (obs dump : T) (calls : Z)
    (* run base from the empty database, then o with store call number k failing (k < 0: no fault);
       observed result, raw dump afterwards, number of store calls made (compared when >= 0) *)
| HCrash (base : list op) (o : op) (k : Z) (dump : T)
    (* run base, then o interrupted at store call k (k < 0: not interrupted); raw dump after reopening *)
| HRange (entries : list (value * bytes)) (rs re : value) (sinc einc whole reverse : bool) (stop : Z) (obs : T)
    (* an index on ("c","f") populated through Add, then IterateRange (or Iterate when [whole]) with a
       consumer that stops after [stop] ids (stop < 0: never); observed: the ids visited, in order *)
| HCursor (keys : list bytes) (forward : bool) (target : bytes) (obs : T)
    (* store-level cursor contract: keys written (with empty values), Seek(target), then iterate *)
| HDocSet (d : obj) (name : bytes) (g : goval) (probe : bytes) (obs : T) (* Set then Get/Has of probe *)
| HUnm (t : gotype) (d : obj) (obs : T)
| HMp (d : obj) (raw : option bytes) (back : T).
    (* byte level of a stored document: d = the normalised document handed to Insert, raw = the bytes found under its
       key in the real store (None: Insert failed), back = the document FindById returned.  The model decoder applied to
       the real bytes must give what Go read back, the model encoder applied to d (in the map order and with the Location flags read off the bytes) must give the
       real bytes again, and inside the codec domain that document is d. *)
    (* Document.Unmarshal of document d into a zeroed target of Go type t; observed: [3] on error, otherwise
       Normalize of what the target holds. Compared only where the model determines the outcome. *)

(* one history: stop at the first disagreement; report (index, model result, model dump if compared) *)
Fixpoint check_hist (i : Z) (db : dbst) (steps : list (op * T * option T)) : list T :=
  match steps with
  | [] => []
  | (o, obs, odump) :: t =>
      let '(m, db') := step db o in
      if negb (T_eqb m obs) then [TL [TZ i; TZ 0; m]]
      else
        match odump with
        | Some dmp =>
            let md := T_of_kv (durable db') in
            if T_eqb md dmp then check_hist (i + 1) db' t else [TL [TZ i; TZ 1; md]]
        | None => check_hist (i + 1) db' t
        end
  end.

Definition T_of_diffs (l : list (Z * T)) : list T := map (fun d => TL [TZ (fst d); snd d]) l.

Definition T_of_nres (r : nres) : T :=
  match r with
  | NOk v => TL [TZ 0; T_of_value v]
  | NErr => TL [TZ 1]
  | NBytes => TL [TZ 2]
  end.

Definition expect (m obs : T) : list T := if T_eqb m obs then [] else [m].

Definition check_case (c : hcase) : list T :=
  match c with
  | HC10 pool signs keys => c10_check pool signs keys
  | HHist steps => check_hist 0 empty_db steps
  | HNorm g obs => expect (T_of_nres (normalize g)) obs
  | HSat c d obs =>
      expect (match norm_crit c with
              | Some c' => TL [TZ 0; Tbool (sat c' d)]
              | None => TL [TZ 1]
              end) obs
  | HFault base o k obs dump calls =>
      let db := snd (run_ops empty_db base) in
      let '(t, st) := exec_op o (fresh_rstate db (if k <? 0 then None else Some (Z.to_nat k))) in
      expect t obs ++ expect (T_of_kv (durable (r_db st))) dump ++
      (if calls <? 0 then [] else expect (TZ (Z.of_nat (r_calls st))) (TZ calls))
  | HCrash base o k dump =>
      let db := snd (run_ops empty_db base) in
      let '(t, st) := exec_op o (fresh_rstate db (if k <? 0 then None else Some (Z.to_nat k))) in
      expect (T_of_kv (durable (r_db st))) dump
  | HRange entries rs re sinc einc whole reverse stop obs =>
      let c := [99%N] in let f := [102%N] in
      let body : M (list bytes) :=
        (fix add (l : list (value * bytes)) : M unit :=
           match l with [] => ret tt | (v, id) :: t => idx_add c f id v ;;; add t end) entries ;;;
        let on_id := fun (id : bytes) (acc : list bytes) =>
                       ret (id :: acc, negb (Z.of_nat (length acc) + 1 =? stop)) in
        (if whole then idx_iterate on_id c f reverse []
         else idx_iterate_range on_id c f (mkRange rs re sinc einc) reverse []) in
      let out := with_tx body None empty_db in
      expect (match o_res out with Ok l => TL [TZ 0; TL (map TB (rev l))] | Err e => T_err e end) obs
  | HCursor keys forward target obs =>
      let s := fold_left (fun s k => kv_set k SEmpty s) keys [] in
      let cur := cursor_seek forward target (if forward then s else rev s) in
      expect (TL (map (fun e => TB (fst e)) cur)) obs
  | HDocSet d name g probe obs =>
      let d' := doc_set_go name g d in
      expect (TL [T_of_doc d'; Tbool (doc_has probe d'); T_of_value (doc_get probe d')]) obs
  | HUnm t d obs =>
      match unmarshal t d with
      | UOk g => expect (T_of_nres (normalize g)) obs
      | UErr => expect (TL [TZ 3]) obs
      | UUndet => []
      end
  | HMp d raw back =>
      match raw with
      | None =>                                  (* Insert failed: the model encoder must refuse the document too *)
          match bw_encode (bw_of_value (VObj d)) with None => [] | Some _ => [TL [TZ 0]] end
      | Some b =>
          match mp_unmarshal b with
          | None => [TL [TZ 1]]
          | Some t =>
              (match bw_encode (bw_align (VObj d) t) with      (* the encoder, on d in Go's map order / Location flags *)
               | Some e => if beqb e b then [] else [TL [TZ 2; TB e]]
               | None => [TL [TZ 2]]
               end) ++
              (if mp_dom (VObj d) then                         (* inside the domain the decoded tree re-encodes to b *)
                 match bw_encode t with
                 | Some e => if beqb e b then [] else [TL [TZ 3; TB e]]
                 | None => [TL [TZ 3]]
                 end
               else []) ++
              expect (T_of_value (bw_value t)) back ++
              (if mp_dom (VObj d) then expect (T_of_value (bw_value t)) (T_of_value (VObj d)) else [])
          end
      end
  end.

(* used by the in-Coq (vm_compute) sample check: indices of the cases that disagree *)
Fixpoint bad_cases (i : Z) (cs : list hcase) : list Z :=
  match cs with
  | [] => []
  | c :: t => (match check_case c with [] => [] | _ => [i] end) ++ bad_cases (i + 1) t
  end.

(* Case formats of the correspondence check and the model-side checker.
   Every stream of the Go harness produces cases of this type; check_case returns the list of
   disagreements (empty = the implementation behaved like the model on this case). *)
From Clover Require Export Ops RunC10.
Open Scope Z_scope.

Inductive hcase : Type :=
| HC10 (pool : list value) (signs keys : list T)
| HHist (steps : list (op * T * option T)).   (* op, observed result, observed raw dump (if taken) *)

(* one history: stop at the first disagreement; report (index, model result, model dump if compared) *)
Fixpoint check_hist (i : Z) (db : dbst) (steps : list (op * T * option T)) : list T :=
  match steps with
  | [] => []
  | (o, obs, odump) :: t =>
      let '(m, db') := step db o in
      if negb (T_eqb m obs) then [TL [TZ i; TZ 0; m]]
      else
        match odump with
        | Some dmp =>
            let md := T_of_kv (durable db') in
            if T_eqb md dmp then check_hist (i + 1) db' t else [TL [TZ i; TZ 1; md]]
        | None => check_hist (i + 1) db' t
        end
  end.

Definition T_of_diffs (l : list (Z * T)) : list T := map (fun d => TL [TZ (fst d); snd d]) l.

Definition check_case (c : hcase) : list T :=
  match c with
  | HC10 pool signs keys => c10_check pool signs keys
  | HHist steps => check_hist 0 empty_db steps
  end.

(* used by the in-Coq (vm_compute) sample check: indices of the cases that disagree *)
Fixpoint bad_cases (i : Z) (cs : list hcase) : list Z :=
  match cs with
  | [] => []
  | c :: t => (match check_case c with [] => [] | _ => [i] end) ++ bad_cases (i + 1) t
  end.

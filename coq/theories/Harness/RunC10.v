From Clover Require Export Obs Code.
Open Scope Z_scope.

(* model side of the C10 sweep: sign matrix of compare over a pool, and the key bytes of each value
   (prefixed by the type-id digit the index key carries) *)
Definition c10_key (a : value) : T := TB ([Z.to_N (48 + type_id a); 124%N] ++ value_code a).

Fixpoint c10_row (i j : Z) (a : value) (pool : list value) (obs : list T) : list T :=
  match pool, obs with
  | b :: pt, o :: ot =>
      (if T_eqb (Tsign (compare a b)) o then [] else [TL [TZ i; TZ j; Tsign (compare a b)]])
        ++ c10_row i (j + 1) a pt ot
  | [], [] => []
  | _, _ => [TL [TZ i; TZ j; TZ 99]]
  end.

Fixpoint c10_rows (i : Z) (rest pool : list value) (signs : list T) : list T :=
  match rest, signs with
  | a :: t, TL row :: st => c10_row i 0 a pool row ++ c10_rows (i + 1) t pool st
  | [], [] => []
  | _, _ => [TL [TZ i; TZ (-1); TZ 99]]
  end.

Fixpoint c10_keys (i : Z) (pool : list value) (keys : list T) : list T :=
  match pool, keys with
  | a :: t, k :: kt =>
      (if T_eqb (c10_key a) k then [] else [TL [TZ i; TZ (-1); c10_key a]]) ++ c10_keys (i + 1) t kt
  | [], [] => []
  | _, _ => [TL [TZ i; TZ (-2); TZ 99]]
  end.

(* disagreements: [i; j; model sign] for compare, [i; -1; model key] for keys *)
Definition c10_check (pool : list value) (signs keys : list T) : list T :=
  c10_rows 0 pool pool signs ++ c10_keys 0 pool keys.

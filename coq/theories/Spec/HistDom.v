(* The domain of histories the end-to-end theorems quantify over: a predicate on (abstract state, operation).
   Specification-level definitions only. *)
From Clover Require Export QueryDom.
Open Scope Z_scope.

(* a query in the domain of a given abstract database: the target collection (if it exists) holds values in
   the key-order domain for its indexed fields and in one numeric regime; the criteria's literals normalise
   and are in that regime and in the key domain *)
Definition query_dom (db : sdb) (q : query) : Prop :=
  no_semi (q_coll q) = true /\
  match normalize_query q with
  | None => True                       (* un-normalisable literal: the operation fails before any effect *)
  | Some nq =>
      0 <= nq_skip nq /\
      match assoc (nq_coll nq) db with
      | None => True
      | Some sc => exists m, coll_dom m sc /\ crit_dom m (nq_crit nq)
      end
  end.

Definition fresh_ok (ids : list bytes) : Prop := forall id, In id ids -> canonical_id id = true.

(* documents handed to Insert/Save/Replace carry a canonical id once the generated ids are filled in *)
Definition op_dom (db : sdb) (o : op) : Prop :=
  match o with
  | OCreateCollection c | ODropCollection c | OHasCollection c | OListIndexes c => no_semi c = true
  | OListCollections | OClose | OReopen => True
  | OInsert c docs fresh => no_semi c = true /\ docs_have_ids (assign_ids docs fresh)
  | OSave c d fresh => no_semi c = true /\ docs_have_ids (assign_ids [d] [fresh])
  | OFindAll q _ | OCount q | OExists q | OFindFirst q | OForEach q _ _ | ODelete q => query_dom db (mk_query q)
  | OUpdate q _ | OUpdateFunc q _ => query_dom db (mk_query q)
  | OFindById c _ | ODeleteById c _ | OUpdateById c _ _ => no_semi c = true
  | OReplaceById c _ d => no_semi c = true
  | OCreateIndex c f | ODropIndex c f | OHasIndex c f => no_semi c = true /\ no_semi f = true
  (* the multi-transaction composites are outside the history theorem (their transactions are covered one
     by one: create = C13_create, FindAll = C01, Insert = C12; their non-atomicity is K-composite) *)
  | OExport _ | OImport _ _ | OCreateByQuery _ _ => False
  end.

(* every operation of the history is in the domain of every abstract state that the store can denote at that
   point (the abstract state is determined by the store: R_unique) *)
Fixpoint hist_dom (h : dbst) (ops : list op) : Prop :=
  match ops with
  | [] => True
  | o :: t => (forall db, wf_db db -> Rdb db h -> op_dom db o) /\ hist_dom (snd (step h o)) t
  end.

(* Index independence at the level of histories (C02): two histories that differ only by CreateIndex / DropIndex
   operations leave the same documents in every collection, provided the bulk writes select without a window
   (with Skip/Limit the selected set may legitimately depend on how ties are ordered, and index-ordered scans order
   ties differently from the in-memory sort). Specification-level definitions only. *)
From Clover Require Export HistDom.
Open Scope Z_scope.

Definition is_index_op (o : op) : bool :=
  match o with OCreateIndex _ _ | ODropIndex _ _ => true | _ => false end.

(* l2 is l1 with index operations inserted and/or removed *)
Inductive idx_variant : list op -> list op -> Prop :=
| iv_nil : idx_variant [] []
| iv_same : forall o l1 l2, is_index_op o = false -> idx_variant l1 l2 -> idx_variant (o :: l1) (o :: l2)
| iv_left : forall o l1 l2, is_index_op o = true -> idx_variant l1 l2 -> idx_variant (o :: l1) l2
| iv_right : forall o l1 l2, is_index_op o = true -> idx_variant l1 l2 -> idx_variant l1 (o :: l2).

(* the same collections with the same documents (by id, in the same order); index sets are free *)
Definition docs_eq (db1 db2 : sdb) : Prop :=
  map fst db1 = map fst db2 /\
  forall c, option_map sc_docs (assoc c db1) = option_map sc_docs (assoc c db2).

Definition unwindowed_q (q : qspec) : Prop :=
  match normalize_query (mk_query q) with
  | Some nq => nq_skip nq = 0 /\ nq_limit nq < 0
  | None => True
  end.

(* bulk writes select without Skip/Limit *)
Definition unwindowed_write (o : op) : Prop :=
  match o with
  | OUpdate q _ | OUpdateFunc q _ | ODelete q => unwindowed_q q
  | _ => True
  end.

(* result classes as the harness compares them across configurations: the same success value, or an error in both *)
Definition same_outcome (t1 t2 : T) : Prop :=
  t1 = t2 \/ (exists e1 e2, t1 = T_err e1 /\ t2 = T_err e2).

(* Domains the properties quantify over, as boolean predicates. Definitions only. *)
From Clover Require Export Code.
Open Scope Z_scope.

Definition small_int (z : Z) : bool := (- two53 <=? z) && (z <=? two53).

(* every integer inside the value is within +-2^53 (exactly representable as a float64) *)
Fixpoint small_ints (v : value) {struct v} : bool :=
  match v with
  | VInt z | VUint z => small_int z
  | VArr l => forallb small_ints l
  | VObj o => (fix go (o : list (bytes * value)) : bool :=
                 match o with [] => true | (_, x) :: t => small_ints x && go t end) o
  | _ => true
  end.

(* no float64 anywhere inside the value *)
Fixpoint no_floats (v : value) {struct v} : bool :=
  match v with
  | VFloat _ => false
  | VArr l => forallb no_floats l
  | VObj o => (fix go (o : list (bytes * value)) : bool :=
                 match o with [] => true | (_, x) :: t => no_floats x && go t end) o
  | _ => true
  end.

(* float bit patterns are 64-bit and not NaN; integers are in their Go range *)
Fixpoint num_ok (v : value) {struct v} : bool :=
  match v with
  | VInt z => int64_ok z
  | VUint z => uint64_ok z
  | VFloat b => uint64_ok b && negb (is_nan b)
  | VArr l => forallb num_ok l
  | VObj o => (fix go (o : list (bytes * value)) : bool :=
                 match o with [] => true | (_, x) :: t => num_ok x && go t end) o
  | _ => true
  end.

(* the compare domain of C10 for a triple: no NaN, and integers beyond 2^53 are never mixed with floats *)
Definition cmp_dom3 (a b c : value) : bool :=
  num_ok a && num_ok b && num_ok c &&
  ((small_ints a && small_ints b && small_ints c) || (no_floats a && no_floats b && no_floats c)).

(* times whose UnixNano is a non-negative int64: 1970-01-01 .. 2262-04-11 *)
Definition time_key_ok (sec nsec : Z) : bool :=
  (0 <=? nsec) && (nsec <? billion) && (0 <=? sec * billion + nsec) && (sec * billion + nsec <? two63).

(* the key-order domain of C10: numbers within 2^53, no NaN, times from 1970 on *)
Fixpoint key_dom (v : value) {struct v} : bool :=
  match v with
  | VInt z | VUint z => small_int z
  | VFloat b => uint64_ok b && negb (is_nan b)
  | VTime s n _ => time_key_ok s n
  | VArr l => forallb key_dom l
  | VObj o => (fix go (o : list (bytes * value)) : bool :=
                 match o with [] => true | (_, x) :: t => key_dom x && go t end) o
  | _ => true
  end.

(* exact numeric denotation on the 2^1074 scale *)
Definition nden (v : value) : Z :=
  match v with
  | VInt z | VUint z => z * scale1074
  | VFloat b => fden b
  | _ => 0
  end.

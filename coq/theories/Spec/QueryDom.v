(* The domain the query theorems quantify over, as predicates on a collection and a criteria tree. *)
From Clover Require Export PureRun.
Open Scope Z_scope.

(* every stored value of an indexed field is in the key-order domain (numbers within 2^53, no NaN, times
   1970..2262), and all field values of the collection live in one numeric regime m (either every integer
   is within 2^53 so that int/float comparisons are exact, or there is no float at all) *)
Definition coll_dom (m : bool) (sc : scoll) : Prop :=
  (forall f, In f (sc_idx sc) -> idx_dom f sc) /\
  (forall f id d, In (id, d) (sc_docs sc) -> regime m (doc_get f d) = true).

(* the literals of the criteria are in the same regime and in the key-order domain *)
Definition crit_dom (m : bool) (crit : option ncrit) : Prop :=
  match crit with
  | None => True
  | Some c => crit_lits_ok (regime m) c = true /\ crit_lits_ok key_dom c = true
  end.

(* two result lists are equal up to ties of the sort order *)
Definition tie_equal (sort : list (bytes * Z)) (r1 r2 : list obj) : Prop :=
  Forall2 (fun a b => docs_leb sort a b = true /\ docs_leb sort b a = true) r1 r2.

Definition unwindowed (q : nquery) : Prop := nq_skip q = 0 /\ nq_limit q < 0.

(* Vocabulary for stating what scans and plans compute when no fault is injected and the consumer is a
   pure function: results as pure folds over lists of documents. Definitions only. *)
From Clover Require Export SpecDB.
Open Scope Z_scope.

(* a consumer that does not touch the store *)
Definition pure_cons {B : Type} (g : obj -> B -> B * bool) : obj -> B -> M (B * bool) :=
  fun d b => ret (g d b).

(* feeding a list of documents to a pure consumer until it asks to stop *)
Fixpoint fold_pure {B : Type} (g : obj -> B -> B * bool) (l : list obj) (b : B) : B :=
  match l with
  | [] => b
  | d :: t => let r := g d b in if snd r then fold_pure g t (fst r) else fst r
  end.

(* equality of transaction states up to the store-call counter *)
Definition same_but_calls (s s' : txst) : Prop :=
  view s' = view s /\ fault s' = fault s /\ committed s' = committed s /\ fired s' = fired s.

(* m, started in s, returns a without changing anything but the call counter *)
Definition runs_to {A : Type} (m : M A) (s : txst) (a : A) : Prop :=
  exists s', m s = (Ok a, s') /\ same_but_calls s s'.

(* the order in which a full collection scan visits documents: by id (the document keys share a prefix) *)
Definition by_id_leb (a b : bytes * obj) : bool := bleb (fst a) (fst b).
Definition docs_by_id (sc : scoll) : list obj := map snd (msort by_id_leb (sc_docs sc)).

(* the order in which a scan of the index on f visits documents: by the bytes of their index entry *)
Definition idx_entry_key (c f : bytes) (e : bytes * obj) : bytes := idx_key c f (doc_get f (snd e)) (fst e).
Definition by_idx_leb (c f : bytes) (a b : bytes * obj) : bool := bleb (idx_entry_key c f a) (idx_entry_key c f b).
Definition docs_by_idx (c f : bytes) (reverse : bool) (sc : scoll) : list obj :=
  let l := map snd (msort (by_idx_leb c f) (sc_docs sc)) in if reverse then rev l else l.

(* every stored value of field f is inside the key-order domain *)
Definition idx_dom (f : bytes) (sc : scoll) : Prop :=
  forall id d, In (id, d) (sc_docs sc) -> key_dom (doc_get f d) = true.

(* one numeric regime for the values of field f across a collection *)
Definition field_regime (m : bool) (f : bytes) (sc : scoll) : Prop :=
  forall id d, In (id, d) (sc_docs sc) -> regime m (doc_get f d) = true.

(* "the input node selected for this query feeds exactly the documents L, in that order, to any pure
   consumer" — the interface between the scan theorems and the plan-level theorems *)
Definition input_feeds (c : bytes) (crit : option ncrit) (sort : list (bytes * Z)) (idx : list bytes)
           (L : list obj) : Prop :=
  forall (B : Type) (g : obj -> B -> B * bool) (b : B) (s : txst),
    fault s = None ->
    runs_to (run_input c crit (fst (try_select_index crit sort idx)) (pure_cons g) b) s (fold_pure g L b).

(* What an index range denotes: the set of field values whose entries a scan over the range visits.
   Specification-level definitions only. *)
From Clover Require Export Visit Domains.
Open Scope Z_scope.

Definition above (s : value) (inc : bool) (v : value) : bool :=
  is_nilv s || (if inc then is_ge (compare v s) else is_gt (compare v s)).

Definition below (e : value) (inc : bool) (v : value) : bool :=
  is_nilv e || (if inc then is_le (compare v e) else is_lt (compare v e)).

(* VNil as a bound means "unbounded", except in the nil-only range {nil, nil, incl, incl} *)
Definition in_range (r : range) (v : value) : bool :=
  if range_is_nil r then is_eq (compare v VNil)
  else above (r_start r) (r_sinc r) v && below (r_end r) (r_einc r) v.

(* every literal operand occurring in a criteria tree satisfies P (references carry no literal) *)
Definition operand_lit_ok (P : value -> bool) (o : operand value) : bool :=
  match o with OLit x => P x | ORef _ => true end.

Fixpoint crit_lits_ok (P : value -> bool) (c : ncrit) : bool :=
  match c with
  | CCmp _ _ v => operand_lit_ok P v
  | CIn _ vs | CContains _ vs => forallb (operand_lit_ok P) vs
  | CNot c' => crit_lits_ok P c'
  | CAnd a b | COr a b => crit_lits_ok P a && crit_lits_ok P b
  | _ => true
  end.

(* one numeric regime for a whole comparison context: either every integer is within 2^53
   (so int/float comparisons are exact) or there is no float at all *)
Definition regime (m : bool) (v : value) : bool :=
  num_ok v && (if m then small_ints v else no_floats v).

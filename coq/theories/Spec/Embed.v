(* Canonical values seen as the Go values they are (int64, uint64, float64, string, bool, time.Time,
   nil, []interface{}, map[string]interface{}): the fixed points of Normalize. Definitions only. *)
From Clover Require Export GoValue.
Open Scope Z_scope.

Fixpoint embed (v : value) {struct v} : goval :=
  match v with
  | VNil => GNil
  | VInt z => GInt 64 z
  | VUint z => GUint 64 z
  | VFloat b => GFloat64 b
  | VStr s => GString s
  | VBool b => GBool b
  | VTime s n o => GTime s n o
  | VArr l => GSlice false (map embed l)
  | VObj o => GMap true ((fix go (o : list (bytes * value)) : list (bytes * goval) :=
                            match o with [] => [] | (k, x) :: t => (k, embed x) :: go t end) o)
  end.

(* objects in canonical form: keys strictly increasing, recursively *)
Fixpoint canonical (v : value) {struct v} : bool :=
  match v with
  | VArr l => forallb canonical l
  | VObj o => keys_sorted o && (fix go (o : list (bytes * value)) : bool :=
                                  match o with [] => true | (_, x) :: t => canonical x && go t end) o
  | _ => true
  end.

(* a Go value contains no []uint8 / [N]uint8 and nothing unsupported: Normalize succeeds on it *)
Fixpoint supported (g : goval) {struct g} : bool :=
  match g with
  | GUnsupported => false
  | GSlice true _ => false
  | GSlice false l => forallb supported l
  | GMap sk es => sk && (fix go (es : list (bytes * goval)) : bool :=
                           match es with [] => true | (_, x) :: t => supported x && go t end) es
  | GPtr (Some g') => supported g'
  | GStruct fs => (fix go (fs : list gfield) : bool :=
                     match fs with
                     | [] => true
                     | GField _ _ _ _ _ x :: t => supported x && go t
                     end) fs
  | GCanon v => canonical v
  | _ => true
  end.

(* Domains and the representation relation for the byte level of a stored document (Model/Msgpack.v).
   Definitions only; the theorems are in Proofs/MsgpackProofs.v and restated in Properties/C11.v. *)
From Clover Require Export Msgpack.
From Coq Require Export Permutation.
Open Scope Z_scope.

(* zone offsets (seconds east of UTC) that time.MarshalBinary/UnmarshalBinary reproduce for a Location other than
   time.UTC: a whole number of minutes or positive, minutes within int16, and not the minute -1 (Go's marker for UTC,
   rejected by MarshalBinary) *)
Definition off_ok (off : Z) : bool :=
  ((Z.rem off 60 =? 0) || (0 <? off)) &&
  (-32768 <=? Z.quot off 60) && (Z.quot off 60 <=? 32767) && negb (Z.quot off 60 =? -1).

Definition sec_ok (sec : Z) : bool := (- two63 <=? sec + unix_to_internal) && (sec + unix_to_internal <? two63).
Definition nsec_ok (nsec : Z) : bool := (0 <=? nsec) && (nsec <? 1000000000).

Definition time_ok (sec nsec off : Z) (utc : bool) : bool :=
  sec_ok sec && nsec_ok nsec && (if utc then off =? 0 else off_ok off).

Definition len32 (n : nat) : bool := Z.of_nat n <? 2 ^ 32.

(* what msgpack can write without truncating a length, and gob without corrupting a zone *)
Fixpoint bw_dom (t : bwire) : bool :=
  match t with
  | BNil | BBool _ => true
  | BInt z => int64_ok z
  | BUint z => uint64_ok z
  | BFloat b => uint64_ok b
  | BStr s => len32 (length s)
  | BLTime s n o u => time_ok s n o u
  | BArr l => len32 (length l) && forallb bw_dom l
  | BObj l => len32 (length l) &&
              (fix go (l : list (bytes * bwire)) : bool :=
                 match l with [] => true | (k, x) :: t => len32 (length k) && bw_dom x && go t end) l
  end.

(* the same domain stated on the document *)
Fixpoint mp_dom (v : value) : bool :=
  match v with
  | VNil | VBool _ | VInt _ | VUint _ | VFloat _ => true
  | VStr s => len32 (length s)
  | VTime s n o => sec_ok s && off_ok o
  | VArr l => len32 (length l) && forallb mp_dom l
  | VObj o => len32 (length o) &&
              (fix go (o : list (bytes * value)) : bool :=
                 match o with [] => true | (k, x) :: t => len32 (length k) && mp_dom x && go t end) o
  end.

(* t is one of the trees msgpack may be handed for the value v: every map in some order, every time with either
   Location flag its offset allows *)
Inductive bw_repr : value -> bwire -> Prop :=
| RNil : bw_repr VNil BNil
| RInt z : bw_repr (VInt z) (BInt z)
| RUint z : bw_repr (VUint z) (BUint z)
| RFloat b : bw_repr (VFloat b) (BFloat b)
| RStr s : bw_repr (VStr s) (BStr s)
| RBool b : bw_repr (VBool b) (BBool b)
| RTime s n o u : (u = true -> o = 0) -> bw_repr (VTime s n o) (BLTime s n o u)
| RArr l l' : Forall2 bw_repr l l' -> bw_repr (VArr l) (BArr l')
| RObj o l l' :
    Forall2 (fun kv kt => fst kv = fst kt /\ bw_repr (snd kv) (snd kt)) o l ->
    Permutation l l' ->
    bw_repr (VObj o) (BObj l').

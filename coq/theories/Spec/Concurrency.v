(** * Concurrency: one handle, many goroutines (property C07)

    This file is a SPECIFICATION: it contains definitions only.  The theorems
    about it are in [Proofs/ConcurrencyProofs.v].

    What is modelled.  Every public operation of the database runs as exactly
    ONE transaction of the underlying key/value store, and the handle itself
    has no mutable state.  The store's transaction discipline (bbolt) is:

      - at most one WRITE transaction exists at any time, from its begin to
        its commit or rollback (mutual exclusion);
      - a READ transaction works on the snapshot of the committed state taken
        at the instant it begins, whatever is committed afterwards.

    The model is generic in the sequential specification of the operations,

        step : State -> Op -> Res * State

    ("running operation [o] alone on committed state [s] answers [fst (step s
    o)] and leaves [snd (step s o)]"), and in the classification [is_write] of
    operations into those run in a write transaction and those run in a read
    transaction.  Nothing else about the database is assumed, except that an
    operation run in a read transaction does not change the state
    ([read_pure]).

    A concurrent execution is a TRACE: a list of events, each belonging to one
    client (goroutine).  The transition relation [trans] says which event may
    happen in which system state; ANY interleaving of the clients that
    respects [trans] is an execution.

    The linearisation point of an operation is
      - the BEGIN of its transaction for a read operation,
      - the COMMIT of its transaction for a write operation.
    [lin_of tr] extracts these events from a trace, in trace order; the
    theorems state that replaying [lin_of tr] sequentially with [step]
    explains every result observed in [tr], and that [lin_of tr] respects
    real time. *)

From Coq Require Import List Arith Bool.
Import ListNotations.

(** Clients (goroutines sharing the handle) are numbered. *)
Definition client := nat.

(** Functional update of a map from clients. *)
Definition upd {A : Type} (f : client -> A) (c : client) (x : A) : client -> A :=
  fun c' => if Nat.eqb c' c then x else f c'.

Section Concurrency.

  Variables State Op Res : Type.

  (** The sequential specification, and which operations are writes. *)
  Variable step : State -> Op -> Res * State.
  Variable is_write : Op -> bool.

  (** Assumption on the sequential specification: an operation that is run in
      a read transaction leaves the state unchanged.  No definition below
      depends on it; it is recorded here because it is part of the setting,
      and it is restated as the (only) hypothesis of the proofs. *)
  Hypothesis read_pure : forall s o, is_write o = false -> snd (step s o) = s.

  (** ** States *)

  (** What one client is doing. *)
  Inductive cstate : Type :=
  | CIdle
      (* between operations *)
  | CPending (o : Op)
      (* has called [o]; its transaction has not begun yet *)
  | CReading (o : Op) (r : Res)
      (* inside a read transaction; the result [r] was fixed from the
         snapshot taken at begin *)
  | CWriting (snap : State) (o : Op)
      (* inside THE write transaction, begun on committed state [snap] *)
  | CDone (o : Op) (r : Res).
      (* transaction finished, result [r] not yet returned to the caller *)

  (** The whole system: the committed (durable) state of the store, the holder
      of the writer lock if any, and the state of each client. *)
  Record sys : Type := mkSys {
    durable : State;
    lock    : option client;
    cl      : client -> cstate
  }.

  Definition init (s0 : State) : sys :=
    mkSys s0 None (fun _ => CIdle).

  (** Change the state of one client, nothing else. *)
  Definition set_cl (s : sys) (c : client) (x : cstate) : sys :=
    mkSys (durable s) (lock s) (upd (cl s) c x).

  (** ** Events *)

  Inductive event : Type :=
  | EInvoke     (c : client) (o : Op)            (* the call *)
  | EBeginRead  (c : client) (o : Op) (r : Res)  (* read tx begins: snapshot *)
  | EEndRead    (c : client)                     (* read tx ends *)
  | EBeginWrite (c : client) (o : Op)            (* write tx begins: lock *)
  | ECommit     (c : client) (o : Op) (r : Res)  (* write tx commits *)
  | EAbort      (c : client) (o : Op)            (* write tx is rolled back *)
  | EReturn     (c : client) (o : Op) (r : Res). (* the call returns [r] *)

  Definition event_client (e : event) : client :=
    match e with
    | EInvoke c _ | EBeginRead c _ _ | EEndRead c | EBeginWrite c _
    | ECommit c _ _ | EAbort c _ | EReturn c _ _ => c
    end.

  (** ** The transaction discipline

      [trans s e s']: in system state [s] event [e] may happen and leads to
      [s'].

      Modelling choice for [EAbort]: a rolled-back write transaction has no
      effect and the operation gets NO linearisation point and NO [EReturn]
      event; the client goes from [CWriting] straight back to [CIdle].  The
      [EAbort] event therefore also stands for the (error) return of that
      call.  (An operation whose sequential specification is "fail and change
      nothing" is a different thing: it is an ordinary operation whose [step]
      answers an error and returns the state unchanged, and it is linearised
      like any other.) *)
  Inductive trans : sys -> event -> sys -> Prop :=
  | T_invoke : forall s c o,
      cl s c = CIdle ->
      trans s (EInvoke c o) (set_cl s c (CPending o))
  | T_begin_read : forall s c o r,
      cl s c = CPending o ->
      is_write o = false ->
      r = fst (step (durable s) o) ->
      trans s (EBeginRead c o r) (set_cl s c (CReading o r))
  | T_end_read : forall s c o r,
      cl s c = CReading o r ->
      trans s (EEndRead c) (set_cl s c (CDone o r))
  | T_begin_write : forall s c o,
      cl s c = CPending o ->
      is_write o = true ->
      lock s = None ->
      trans s (EBeginWrite c o)
            (mkSys (durable s) (Some c) (upd (cl s) c (CWriting (durable s) o)))
  | T_commit : forall s c snap o r,
      cl s c = CWriting snap o ->
      lock s = Some c ->
      r = fst (step snap o) ->
      trans s (ECommit c o r)
            (mkSys (snd (step snap o)) None (upd (cl s) c (CDone o r)))
  | T_abort : forall s c snap o,
      cl s c = CWriting snap o ->
      lock s = Some c ->
      trans s (EAbort c o)
            (mkSys (durable s) None (upd (cl s) c CIdle))
  | T_return : forall s c o r,
      cl s c = CDone o r ->
      trans s (EReturn c o r) (set_cl s c CIdle).

  (** ** Executions: a trace from one system state to another. *)
  Inductive exec : sys -> list event -> sys -> Prop :=
  | exec_nil : forall s,
      exec s [] s
  | exec_cons : forall s e s' tr s'',
      trans s e s' -> exec s' tr s'' -> exec s (e :: tr) s''.

  (** ** The linearisation of a trace *)

  (** One entry of a sequential history: who, what, with which result. *)
  Definition lin_entry : Type := (client * Op * Res)%type.

  (** The linearisation point events. *)
  Definition lin_event (e : event) : option lin_entry :=
    match e with
    | EBeginRead c o r => Some (c, o, r)
    | ECommit c o r    => Some (c, o, r)
    | _                => None
    end.

  (** The sub-sequence of linearisation points, in trace order. *)
  Fixpoint lin_of (tr : list event) : list lin_entry :=
    match tr with
    | [] => []
    | e :: tr' =>
        match lin_event e with
        | Some x => x :: lin_of tr'
        | None   => lin_of tr'
        end
    end.

  (** ** Sequential replay

      [replay_ok s l s']: running the operations of [l] one after the other
      with [step], starting from [s], ends in [s'], AND every result recorded
      in [l] is the one [step] gives at that position. *)
  Fixpoint replay_ok (s : State) (l : list lin_entry) (s' : State) : Prop :=
    match l with
    | [] => s' = s
    | (_, o, r) :: l' =>
        r = fst (step s o) /\ replay_ok (snd (step s o)) l' s'
    end.

  (** ** Real time: positions in the trace *)

  (** Client [c] calls [o] at position [k]. *)
  Definition invoked_at (tr : list event) (k : nat) (c : client) (o : Op) : Prop :=
    nth_error tr k = Some (EInvoke c o).

  (** The call of [o] by client [c] returns [r] at position [i]. *)
  Definition returned_at (tr : list event) (i : nat) (c : client) (o : Op) (r : Res) : Prop :=
    nth_error tr i = Some (EReturn c o r).

  (** Position [j] is the linearisation point of an operation [o] of client
      [c] with result [r]. *)
  Definition linearised_at (tr : list event) (j : nat) (c : client) (o : Op) (r : Res) : Prop :=
    nth_error tr j = Some (EBeginRead c o r) \/ nth_error tr j = Some (ECommit c o r).

  (** The events a client performs inside one operation [o] other than its
      invoke, its linearisation point and its return. *)
  Definition op_internal (c : client) (o : Op) (e : event) : Prop :=
    e = EBeginWrite c o \/ e = EEndRead c.

  (** Between positions [k] and [i] (both excluded), and apart from position
      [j] if one is given, client [c] does nothing but internal steps of its
      operation [o]: in particular no other invoke, return, abort or
      linearisation point of [c] lies there. *)
  Definition own_quiet (tr : list event) (c : client) (o : Op)
             (k i : nat) (j : option nat) : Prop :=
    forall m e,
      k < m < i -> Some m <> j ->
      nth_error tr m = Some e -> event_client e = c ->
      op_internal c o e.

  (** The operation [o] that client [c] invoked at position [k] takes effect
      at position [j] with result [r]: [j] is a linearisation point of [c]
      after [k], and [c] does not start another call in between. *)
  Definition lin_point_of (tr : list event) (c : client) (o : Op) (r : Res)
             (k j : nat) : Prop :=
    k < j /\ invoked_at tr k c o /\ linearised_at tr j c o r /\
    forall m o', k < m < j -> nth_error tr m <> Some (EInvoke c o').

  (** The rank, in [lin_of tr], of the trace event at position [j] (meaningful
      when that event is a linearisation point). *)
  Definition lin_index (tr : list event) (j : nat) : nat :=
    length (lin_of (firstn j tr)).

End Concurrency.

(** Implicit arguments: the three carrier types are always inferred. *)
Arguments CIdle {State Op Res}.
Arguments CPending {State Op Res} o.
Arguments CReading {State Op Res} o r.
Arguments CWriting {State Op Res} snap o.
Arguments CDone {State Op Res} o r.
Arguments mkSys {State Op Res} durable lock cl.
Arguments durable {State Op Res} s.
Arguments lock {State Op Res} s.
Arguments cl {State Op Res} s c.
Arguments init {State Op Res} s0.
Arguments set_cl {State Op Res} s c x.
Arguments EInvoke {Op Res} c o.
Arguments EBeginRead {Op Res} c o r.
Arguments EEndRead {Op Res} c.
Arguments EBeginWrite {Op Res} c o.
Arguments ECommit {Op Res} c o r.
Arguments EAbort {Op Res} c o.
Arguments EReturn {Op Res} c o r.
Arguments event_client {Op Res} e.
Arguments trans {State Op Res} step is_write s e s'.
Arguments exec {State Op Res} step is_write s tr s'.
Arguments lin_event {Op Res} e.
Arguments lin_of {Op Res} tr.
Arguments replay_ok {State Op Res} step s l s'.
Arguments invoked_at {Op Res} tr k c o.
Arguments returned_at {Op Res} tr i c o r.
Arguments linearised_at {Op Res} tr j c o r.
Arguments op_internal {Op Res} c o e.
Arguments own_quiet {Op Res} tr c o k i j.
Arguments lin_point_of {Op Res} tr c o r k j.
Arguments lin_index {Op Res} tr j.

(* Specification-level predicates about transaction bodies and operation results. Definitions only. *)
From Clover Require Export Ops.
Open Scope Z_scope.

Definition is_err {A} (r : res A) : bool := match r with Err _ => true | Ok _ => false end.

(* the observation term of an operation reports an error: its first component is a non-zero code *)
Definition T_is_err (t : T) : bool :=
  match t with
  | TL (TZ c :: _) => negb (c =? 0)
  | _ => false
  end.

(* a transaction body that can only have committed if it returns Ok *)
Definition commit_last {A} (body : M A) : Prop :=
  forall s r s', committed s = None -> body s = (r, s') -> is_err r = true -> committed s' = None.

(* a computation that never commits *)
Definition no_commit {A} (m : M A) : Prop :=
  forall s r s', m s = (r, s') -> committed s' = committed s.

(* a store failure is never swallowed: if the injected fault fires during m, m returns an error *)
Definition fault_reported {A} (m : M A) : Prop :=
  forall s r s', m s = (r, s') -> fired s = false -> fired s' = true -> is_err r = true.

(* operations made of exactly one store transaction *)
Definition single_tx (o : op) : bool :=
  match o with
  | OImport _ _ | OCreateByQuery _ _ | OExport _ | OClose | OReopen => false
  | _ => true
  end.

(* the transaction states of a handle that is open *)
Definition db_open (db : dbst) : Prop := closed db = false.

(* What a range MEANS, as the code reads it: a nil bound that is excluded stands for "unbounded"; a nil bound
   that is included stands for the value nil (so {nil, nil, incl, incl} is the nil-only range, {3, nil, _, incl}
   is empty, and {nil, 5, incl, _} starts at nil, i.e. is unbounded below). [in_range] (ScanSpec.v) is what a
   scan over a range that is not reported empty visits; the two coincide on the domain of property C17.
   Definitions only. *)
From Clover Require Export ScanSpec.
Open Scope Z_scope.

Definition lower_ok (s : value) (inc : bool) (v : value) : bool :=
  (is_nilv s && negb inc) || (if inc then is_ge (compare v s) else is_gt (compare v s)).

Definition upper_ok (e : value) (inc : bool) (v : value) : bool :=
  (is_nilv e && negb inc) || (if inc then is_le (compare v e) else is_lt (compare v e)).

Definition range_denotes (r : range) (v : value) : bool :=
  lower_ok (r_start r) (r_sinc r) v && upper_ok (r_end r) (r_einc r) v.

(* the ranges property C17 quantifies over: at least one non-nil bound, or the nil-only range *)
Definition c17_range (r : range) : bool :=
  negb (is_nilv (r_start r)) || negb (is_nilv (r_end r)) || range_is_nil r.

(* The multi-transaction composites (ExportCollection, ImportCollection, CreateCollectionByQuery) at the level
   of the abstract database, and the history domain extended to them. Specification-level definitions only.
   The composites are NOT atomic (K-composite): their specification says exactly what is left behind. *)
From Clover Require Export HistDom.
Open Scope Z_scope.

(* the documents of an import file, None when it holds a null element *)
Definition file_docs (l : list (option obj)) : option (list obj) :=
  if forallb (fun o => match o with Some _ => true | None => false end) l
  then Some (flat_map (fun o => match o with Some d => [d] | None => [] end) l)
  else None.

(* ImportCollection c file on the abstract database: (result, database afterwards) *)
Definition s_import (c : bytes) (file : import_file) (db : sdb) : res unit * sdb :=
  match file with
  | FUnreadable => (Err EOther, db)
  | _ =>
      match s_create c db with
      | Err e => (Err e, db)
      | Ok db1 =>
          match file with
          | FElems l =>
              match file_docs l with
              | None => (Err EOther, db1)                       (* the new, empty collection stays *)
              | Some docs =>
                  match s_insert c docs db1 with
                  | Ok db2 => (Ok tt, db2)
                  | Err e => (Err e, db1)                       (* the new, empty collection stays *)
                  end
              end
          | _ => (Err EOther, db1)                              (* ill-formed file: the collection stays *)
          end
      end
  end.

(* the domain of operations, composites included *)
Definition op_dom_all (db : sdb) (o : op) : Prop :=
  match o with
  | OExport c => no_semi c = true
  | OImport c file =>
      no_semi c = true /\
      match file with FElems l => forall d, In (Some d) l -> canonical_id (object_id d) = true | _ => True end
  | OCreateByQuery c q => no_semi c = true /\ query_dom db (mk_query q)
  | _ => op_dom db o
  end.

Fixpoint hist_dom_all (h : dbst) (ops : list op) : Prop :=
  match ops with
  | [] => True
  | o :: t => (forall db, wf_db db -> Rdb db h -> op_dom_all db o) /\ hist_dom_all (snd (step h o)) t
  end.

(* JSON typing of a whole document, as export followed by import sees it *)
Section RoundTrip.
  Variable fmt_time : Z -> Z -> Z -> bytes.
  Definition json_doc (d : obj) : obj :=
    match json_value fmt_time (VObj d) with VObj o => o | _ => d end.
End RoundTrip.

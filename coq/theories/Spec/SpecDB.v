(* The specification S: a database is a finite map from collection names to (documents by id, list of
   indexed fields). No result of S depends on indexes. The refinement relation R ties an abstract
   database to the key/value content the model keeps. Definitions only. *)
From Clover Require Export TxSpec ScanSpec KeyProofs KVProofs.
From Coq Require Export Permutation Sorted.
Open Scope Z_scope.

(* ---- abstract state ---- *)
Record scoll : Type := mkSC { sc_docs : list (bytes * obj); sc_idx : list bytes }.
Definition sdb : Type := list (bytes * scoll).

Fixpoint assoc {A : Type} (k : bytes) (l : list (bytes * A)) : option A :=
  match l with
  | [] => None
  | (k', a) :: t => if beqb k k' then Some a else assoc k t
  end.

Fixpoint assoc_del {A : Type} (k : bytes) (l : list (bytes * A)) : list (bytes * A) :=
  match l with
  | [] => []
  | (k', a) :: t => if beqb k k' then assoc_del k t else (k', a) :: assoc_del k t
  end.

(* replace in place when present, append otherwise *)
Fixpoint assoc_set {A : Type} (k : bytes) (a : A) (l : list (bytes * A)) : list (bytes * A) :=
  match l with
  | [] => [(k, a)]
  | (k', a') :: t => if beqb k k' then (k, a) :: t else (k', a') :: assoc_set k a t
  end.

(* ---- well-formedness ---- *)
Definition doc_ok (id : bytes) (d : obj) : Prop :=
  canonical_id id = true /\ object_id d = id /\ validate d = true.

Definition coll_ok (c : bytes) (sc : scoll) : Prop :=
  no_semi c = true /\
  NoDup (map fst (sc_docs sc)) /\
  (forall id d, In (id, d) (sc_docs sc) -> doc_ok id d) /\
  NoDup (sc_idx sc) /\
  (forall f, In f (sc_idx sc) -> no_semi f = true).

Definition wf_db (db : sdb) : Prop :=
  NoDup (map fst db) /\ forall c sc, In (c, sc) db -> coll_ok c sc.

(* ---- what an abstract database denotes in the key space ---- *)
Inductive denotes (db : sdb) : bytes -> sval -> Prop :=
| den_meta : forall c sc,
    assoc c db = Some sc ->
    denotes db (coll_key c) (SMeta (Z.of_nat (length (sc_docs sc))) (sc_idx sc))
| den_doc : forall c sc id d,
    assoc c db = Some sc -> assoc id (sc_docs sc) = Some d ->
    denotes db (doc_key c id) (SDoc (doc_encode d))
| den_idx : forall c sc id d f,
    assoc c db = Some sc -> assoc id (sc_docs sc) = Some d -> In f (sc_idx sc) ->
    denotes db (idx_key c f (doc_get f d) id) SEmpty.

(* the refinement relation: the store holds exactly the keys the abstract database denotes *)
Definition R (db : sdb) (s : kv) : Prop :=
  kv_sorted s /\ forall k v, kv_get k s = Some v <-> denotes db k v.

(* ---- abstract query semantics ---- *)
Definition s_docs (db : sdb) (c : bytes) : option (list obj) :=
  match assoc c db with Some sc => Some (map snd (sc_docs sc)) | None => None end.

Definition matches (crit : option ncrit) (docs : list obj) : list obj := filter (sat_opt crit) docs.

(* skipLimit window: a negative limit means unlimited, skip is >= 0 by construction of queries *)
Definition window (skip limit : Z) (l : list obj) : list obj :=
  let l1 := skipn (Z.to_nat skip) l in
  if limit <? 0 then l1 else firstn (Z.to_nat limit) l1.

Definition docs_le (opts : list (bytes * Z)) (a b : obj) : Prop := docs_leb opts a b = true.

(* the set of acceptable results of FindAll for a normalised query *)
Definition find_ok (docs : list obj) (q : nquery) (res : list obj) : Prop :=
  exists l0, Permutation l0 (matches (nq_crit q) docs) /\
             (nq_sort q <> [] -> StronglySorted (docs_le (nq_sort q)) l0) /\
             res = window (nq_skip q) (nq_limit q) l0.

(* ---- abstract write operations (deterministic ones as functions) ---- *)
Definition s_create (c : bytes) (db : sdb) : res sdb :=
  match assoc c db with
  | Some _ => Err ECollExist
  | None => Ok (db ++ [(c, mkSC [] [])])
  end.

Definition s_drop (c : bytes) (db : sdb) : res sdb :=
  match assoc c db with
  | None => Err ECollNotExist
  | Some _ => Ok (assoc_del c db)
  end.

(* Insert: documents are scanned in order; the first duplicate (already stored, or earlier in the batch)
   gives ErrDuplicateKey, an invalid document an error; nothing is stored unless all succeed *)
Fixpoint s_insert_docs (docs : list obj) (acc : list (bytes * obj)) : res (list (bytes * obj)) :=
  match docs with
  | [] => Ok acc
  | d :: t =>
      match assoc (object_id d) acc with
      | Some _ => Err EDupKey
      | None => if validate d then s_insert_docs t (acc ++ [(object_id d, d)]) else Err EOther
      end
  end.

Definition s_insert (c : bytes) (docs : list obj) (db : sdb) : res sdb :=
  match assoc c db with
  | None => Err ECollNotExist
  | Some sc =>
      match s_insert_docs docs (sc_docs sc) with
      | Ok ds => Ok (assoc_set c (mkSC ds (sc_idx sc)) db)
      | Err e => Err e
      end
  end.

Definition s_delete_by_id (c id : bytes) (db : sdb) : res sdb :=
  match assoc c db with
  | None => Err ECollNotExist
  | Some sc => Ok (assoc_set c (mkSC (assoc_del id (sc_docs sc)) (sc_idx sc)) db)
  end.

Definition s_update_by_id (c id : bytes) (u : updater) (db : sdb) : res sdb :=
  match assoc c db with
  | None => Err ECollNotExist
  | Some sc =>
      match assoc id (sc_docs sc) with
      | None => Err EDocNotExist
      | Some d =>
          match apply_updater u d with
          | None => Err EOther
          | Some d' =>
              if negb (beqb (object_id d') id) then Err EOther
              else if validate d' then Ok (assoc_set c (mkSC (assoc_set id d' (sc_docs sc)) (sc_idx sc)) db)
              else Err EOther
          end
      end
  end.

Definition s_create_index (c f : bytes) (db : sdb) : res sdb :=
  match assoc c db with
  | None => Err ECollNotExist
  | Some sc => if has_field f (sc_idx sc) then Err EIdxExist
               else Ok (assoc_set c (mkSC (sc_docs sc) (sc_idx sc ++ [f])) db)
  end.

Definition s_drop_index (c f : bytes) (db : sdb) : res sdb :=
  match assoc c db with
  | None => Err ECollNotExist
  | Some sc =>
      match last_index_of f (sc_idx sc) 0 None with
      | None => Err EIdxNotExist
      | Some j => Ok (assoc_set c (mkSC (sc_docs sc) (drop_slot j (sc_idx sc))) db)
      end
  end.

(* bulk update / delete of a selection: every selected document is replaced by the updater's result
   (computed from its pre-call value), or removed when the updater returns None *)
Fixpoint s_apply_sel (u : updater) (sel : list obj) (docs : list (bytes * obj)) : res (list (bytes * obj)) :=
  match sel with
  | [] => Ok docs
  | d :: t =>
      match apply_updater u d with
      | None => s_apply_sel u t (assoc_del (object_id d) docs)
      | Some d' =>
          if negb (beqb (object_id d') (object_id d)) then Err EOther
          else if validate d' then s_apply_sel u t (assoc_set (object_id d) d' docs)
          else Err EOther
      end
  end.

(* the relation "db' is an acceptable outcome of Update/UpdateFunc/Delete(q, u) on db" *)
Definition s_update_ok (q : nquery) (u : updater) (db : sdb) (r : res sdb) : Prop :=
  match assoc (nq_coll q) db with
  | None => r = Err ECollNotExist
  | Some sc =>
      exists sel, find_ok (map snd (sc_docs sc)) q sel /\
        match s_apply_sel u sel (sc_docs sc) with
        | Ok ds => r = Ok (assoc_set (nq_coll q) (mkSC ds (sc_idx sc)) db)
        | Err e => r = Err e
        end
  end.

(* ---- the state of the handle seen abstractly ---- *)
Definition Rdb (db : sdb) (h : dbst) : Prop := closed h = false /\ R db (durable h).

(* domains of operations the theorems quantify over: documents carry canonical ids *)
Definition docs_have_ids (docs : list obj) : Prop :=
  forall d, In d docs -> canonical_id (object_id d) = true.

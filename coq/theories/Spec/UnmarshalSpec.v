(* The round-trip domain of Document.Unmarshal (C18, last clause): which Go struct types and values the property
   "a struct converted to a document and unmarshalled back is unchanged" is claimed for. Definitions only. *)
From Clover Require Export Unmarshal.
Open Scope Z_scope.

Definition finite (b : Z) : bool := negb (is_nan b) && negb (is_inf b) && (0 <=? b) && (b <? two64).

Definition is_u8 (t : gotype) : bool := match t with TyUint 8 => true | _ => false end.
Definition is_iface (t : gotype) : bool := match t with TyIface => true | _ => false end.

(* what an interface{}-typed field may hold and get back with the same Go type *)
Definition iface_ok (g : goval) : bool :=
  match g with
  | GNil | GBool _ => true
  | GString s => ascii s
  | GFloat64 b => finite b
  | _ => false
  end.

(* ---- typing: g is a value of Go type t, inside what encoding/json reproduces exactly ---- *)
Fixpoint type_ok (t : gotype) (g : goval) {struct t} : bool :=
  match t with
  | TyInt bits => match g with GInt b z => (b =? bits) && int_range bits z | _ => false end
  | TyUint bits => match g with GUint b z => (b =? bits) && uint_range bits z | _ => false end
  | TyFloat32 => match g with GFloat32 b => finite b && f32_exact b | _ => false end
  | TyFloat64 => match g with GFloat64 b => finite b | _ => false end
  | TyString => match g with GString s => ascii s | _ => false end
  | TyBool => match g with GBool _ => true | _ => false end
  | TyTime => match g with
              | GTime s n o => time_year_ok s o && (o mod 60 =? 0) && (0 <=? n) && (n <? 1000000000)
              | _ => false
              end
  | TyPtr p => match g with GPtr None => true | GPtr (Some g') => type_ok p g' | _ => false end
  | TyMap e => match g with
               | GMap true es => negb (is_u8 e) && forallb (fun kv => ascii (fst kv) && type_ok e (snd kv)) es
               | _ => false
               end
  | TySlice e => match g with GSlice false l => negb (is_u8 e) && forallb (type_ok e) l | _ => false end
  | TyArray n e => match g with
                   | GSlice false l => negb (is_u8 e) && (Z.of_nat (length l) =? n) && forallb (type_ok e) l
                   | _ => false
                   end
  | TyIface => iface_ok g
  | TyStruct tfs =>
      match g with
      | GStruct gfs =>
          (fix go (tfs : list tfield) (gfs : list gfield) : bool :=
             match tfs, gfs with
             | [], [] => true
             | TField n e tg _ an ft :: trest, GField n' e' tg' an' ifc v :: grest =>
                 beqb n n' && Bool.eqb e e' && beqb tg tg' && Bool.eqb an an' && Bool.eqb ifc (is_iface ft) &&
                 (if e then type_ok ft v else true) && go trest grest
             | _, _ => false
             end) tfs gfs
      | _ => false
      end
  end.

(* ---- the domain on types ---- *)
Fixpoint pairwise {A} (r : A -> A -> bool) (l : list A) : bool :=
  match l with
  | [] => true
  | x :: t => forallb (fun y => negb (r x y)) t && pairwise r t
  end.

Definition name_ok (s : bytes) : bool :=
  ascii s && negb (mem_byte ch_comma s) && match s with [] => false | _ => true end.

(* one struct level, on its declared fields *)
Definition field_decl_ok (f : tfield) : bool :=
  name_ok (tf_name f) && ascii (tf_tag f) &&
  match tf_jtag f with
  | Some j => ascii j && negb (beqb (tag_name j) [45%N])   (* json:"-" drops the field *)
  | None => true
  end &&
  (if tf_exported f then
     (if tf_anon f && is_struct_ty (tf_type f)
      then match tf_tag f, tf_jtag f with [], None => true | _, _ => false end   (* embedded structs: untagged *)
      else true)
   else (* unexported: no tags, never an embedded struct *)
     match tf_tag f, tf_jtag f with [], None => negb (tf_anon f && is_struct_ty (tf_type f)) | _, _ => false end).

(* an embedded pointer to a struct is restored only when one of its own fields is present in the document:
   its struct must have an exported, non-embedded field that is always stored *)
Definition always_present (f : tfield) : bool :=
  tf_exported f && negb (tf_anon f) && negb (tag_omitempty (tf_tag f)).
Definition emb_ptr_ok (f : tfield) : bool :=
  if tf_anon f && is_struct_ty (tf_type f) then
    match tf_type f with
    | TyPtr p => match elem_type p with TyStruct fs => existsb always_present fs | _ => false end
    | _ => true
    end
  else true.

(* names an embedded nil pointer is stored under: they must reach no field *)
Definition emb_ptr_names (fs : list tfield) : list bytes :=
  map tf_name (filter (fun f => tf_anon f && is_struct_ty (tf_type f) && match tf_type f with TyPtr _ => true | _ => false end) fs).

Fixpoint all_emb_ptr_names (t : gotype) : list bytes :=
  match t with
  | TyPtr p => all_emb_ptr_names p
  | TyStruct fs =>
      emb_ptr_names fs ++
      (fix go (fs : list tfield) : list bytes :=
         match fs with
         | [] => []
         | TField _ e _ _ an ft :: rest => (if an && is_struct_ty ft then all_emb_ptr_names ft else []) ++ go rest
         end) fs
  | _ => []
  end.

Definition struct_level_ok (t : gotype) : bool :=
  let flat := filter tf_exported (struct_fields t) in
  let reserved := all_emb_ptr_names t in
  pairwise beqb (map field_from flat ++ reserved) &&
  pairwise fold_eq (map field_to flat ++ reserved).

Fixpoint rt_ty (t : gotype) {struct t} : bool :=
  match t with
  | TyPtr p => rt_ty p
  | TyMap p | TySlice p | TyArray _ p => negb (is_u8 p) && rt_ty p
  | TyStruct fs =>
      struct_level_ok t &&
      (fix go (fs : list tfield) : bool :=
         match fs with
         | [] => true
         | TField n e tg jt an ft :: rest =>
             field_decl_ok (TField n e tg jt an ft) && emb_ptr_ok (TField n e tg jt an ft) &&
             (if e then rt_ty ft else true) && go rest
         end) fs
  | _ => true
  end.

(* Extraction of the executable model to OCaml. ExtrOcamlBasic only: bool, option, unit, list, prod,
   sumbool, sumor map to OCaml's; Z, N, positive, nat, comparison stay Coq's inductives. *)
From Coq Require Import ExtrOcamlBasic.
From Clover Require Import Cases.
Extraction Language OCaml.
Extraction "model.ml" check_case.

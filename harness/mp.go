package main

// Byte level of stored documents (HMp cases): the bytes the real store holds under a document key go to the model's
// msgpack/gob decoder and back through its encoder (Model/Msgpack.v). No PRNG is consumed here.

import (
	"fmt"
	"math"
	"strings"
	"time"

	d "github.com/ostafen/clover/v2/document"
)

// rawDocBytes reads the value stored under the key of document id of collection coll, straight from the store.
func rawDocBytes(env *Env, coll, id string) ([]byte, error) {
	tx, err := env.st.inner.Begin(false)
	if err != nil {
		return nil, err
	}
	defer tx.Rollback()
	v, err := tx.Get([]byte("c:" + coll + ";d:" + id))
	if err != nil {
		return nil, err
	}
	return append([]byte{}, v...), nil
}

func mpCaseTerm(m map[string]interface{}, raw []byte, ok bool, back T) string {
	r := "None"
	if ok {
		r = "(Some " + gBytes(raw) + ")"
	}
	return fmt.Sprintf("(HMp %s %s %s)", gObj(m), r, Tstr(back))
}

// mpExisting adds one HMp case per document already stored in collection coll of env.
func mpExisting(env *Env, be, coll string, ids []string, stored map[string]map[string]interface{}, cs *CaseSet, f *failer, evals *int, dist map[string]int) {
	for i, id := range ids {
		raw, err := rawDocBytes(env, coll, id)
		if err != nil || len(raw) == 0 {
			f.failf("no bytes under the key of document %s on %s (err %v)", id, be, err)
			continue
		}
		doc, err := env.db.FindById(coll, id)
		if err != nil || doc == nil {
			continue // reported by the read-back check of the stream
		}
		*evals++
		dist["hmp_cases"]++
		cs.Add(mpCaseTerm(stored[id], raw, true, tDoc(doc)), be == "bbolt" && i < 6)
	}
}

type mpDoc struct {
	what string
	m    map[string]interface{}
}

// mpBoundaryDocs: every header form of the encoder (fixstr/str8/str16/str32, fixarray/array16/array32, fixmap/map16,
// fixext16 against ext8) and the whole zone-offset line of time.MarshalBinary.
func mpBoundaryDocs() []mpDoc {
	var out []mpDoc
	add := func(what string, m map[string]interface{}) {
		m["_id"] = fmt.Sprintf("%08x-5555-4000-8000-%012x", len(out), 0)
		out = append(out, mpDoc{what, m})
	}
	for _, n := range []int{0, 1, 31, 32, 33, 255, 256, 257, 65535, 65536, 70001} {
		add(fmt.Sprintf("string of %d bytes", n), map[string]interface{}{"s": strings.Repeat("s", n)})
	}
	add("string with NUL, 0xff and multi-byte runes", map[string]interface{}{"s": "a\x00b\xffcé世\U0001F600"})
	for _, n := range []int{0, 1, 15, 16, 17, 255, 256, 65535, 65536} {
		l := make([]interface{}, n)
		for i := range l {
			if i%3 == 1 {
				l[i] = true
			}
		}
		add(fmt.Sprintf("array of %d elements", n), map[string]interface{}{"l": l})
	}
	for _, n := range []int{0, 1, 13, 14, 15, 16, 17, 300} {
		m := map[string]interface{}{}
		for i := 0; i < n; i++ {
			m[fmt.Sprintf("k%04d", i)] = int64(i)
		}
		add(fmt.Sprintf("document with %d+1 fields", n), m)
		add(fmt.Sprintf("nested object with %d fields", n), map[string]interface{}{"o": copyCanon(m)})
	}
	add("field name of 40 and of 300 bytes", map[string]interface{}{strings.Repeat("n", 40): int64(1), strings.Repeat("m", 300): int64(2)})
	add("numbers at their limits", map[string]interface{}{"a": int64(math.MinInt64), "b": int64(math.MaxInt64), "c": uint64(math.MaxUint64), "d": uint64(0),
		"e": math.Inf(1), "f": math.Inf(-1), "g": math.Copysign(0, -1), "h": math.SmallestNonzeroFloat64, "i": math.MaxFloat64, "j": int64(-1), "k": int64(-33), "l": int64(127), "m": int64(128)})
	add("nil, booleans, empty containers", map[string]interface{}{"n": nil, "t": true, "f": false, "l": []interface{}{}, "o": map[string]interface{}{}, "ll": []interface{}{[]interface{}{}, map[string]interface{}{}}})
	base := time.Unix(1700000000, 123456789)
	offs := []int{0, 1, 59, 60, 61, 19*60 + 32, 3600, 14 * 3600, 32767 * 60, 32767*60 + 59, 32768 * 60, 32768*60 + 1,
		-1, -30, -59, -60, -61, -119, -120, -121, -316, -3600, -19800, -19801, -(5*3600 + 30*60 + 1), -32768 * 60, -32768*60 - 1, -32768*60 - 59, -32769 * 60}
	for _, off := range offs {
		add(fmt.Sprintf("time in FixedZone %+ds", off), map[string]interface{}{"t": base.In(time.FixedZone("", off))})
	}
	add("time in time.UTC", map[string]interface{}{"t": base.UTC()})
	add("time in time.Local", map[string]interface{}{"t": base.In(time.Local)})
	add("zero time.Time", map[string]interface{}{"t": time.Time{}})
	add("times far from 1970", map[string]interface{}{"a": time.Date(1, 1, 1, 0, 0, 0, 0, time.UTC), "b": time.Date(9999, 12, 31, 23, 59, 59, 999999999, time.UTC),
		"c": time.Unix(1<<55, 999999999).UTC(), "d": time.Unix(-(1 << 55), 0).In(time.FixedZone("", 7200)), "e": time.Date(-5000, 3, 4, 5, 6, 7, 8, time.FixedZone("x", -7*3600))})
	add("times inside arrays and objects, mixed zones", map[string]interface{}{"l": []interface{}{base.UTC(), base.In(time.FixedZone("", 1172)), []interface{}{base.In(time.FixedZone("", -3600))}},
		"o": map[string]interface{}{"at": base.In(time.FixedZone("", 0)), "deep": map[string]interface{}{"z": []interface{}{nil, base.UTC()}}}})
	return out
}

// mpBoundary stores the boundary documents in a collection of their own (outside the recorded history: some are large).
func mpBoundary(be string, cs *CaseSet, f *failer, evals *int, dist map[string]int) {
	env, err := newEnv(be)
	if err != nil {
		f.failf("open %s: %v", be, err)
		return
	}
	defer env.destroy()
	if err := env.db.CreateCollection("mp"); err != nil {
		f.failf("CreateCollection(mp) on %s: %v", be, err)
		return
	}
	for i, bd := range mpBoundaryDocs() {
		id := bd.m["_id"].(string)
		var ierr error
		var panicked interface{}
		func() {
			defer func() { panicked = recover() }()
			ierr = env.db.Insert("mp", d.NewDocumentOf(copyCanon(bd.m)))
		}()
		if panicked != nil {
			f.failf("Insert of a document with %s panicked on %s: %v", bd.what, be, panicked)
			continue
		}
		*evals++
		small := len(gObj(bd.m)) < 4000
		if ierr != nil {
			dist["hmp_insert_rejected"]++
			// an insert that fails leaves nothing under the key
			if raw, _ := rawDocBytes(env, "mp", id); len(raw) != 0 {
				f.failf("Insert of a document with %s failed (%v) on %s but left %d bytes under its key", bd.what, ierr, be, len(raw))
			}
			cs.Add(mpCaseTerm(bd.m, nil, false, []T{}), be == "bbolt" && small)
			continue
		}
		raw, err := rawDocBytes(env, "mp", id)
		if err != nil || len(raw) == 0 {
			f.failf("no bytes under the key of the document with %s on %s (err %v)", bd.what, be, err)
			continue
		}
		doc, err := env.db.FindById("mp", id)
		if err != nil || doc == nil {
			f.failf("FindById of the document with %s on %s: err=%v doc=%v", bd.what, be, err, doc)
			continue
		}
		dist["hmp_boundary_cases"]++
		cs.Add(mpCaseTerm(bd.m, raw, true, tDoc(doc)), be == "bbolt" && small && i%4 == 0)
		// direct oracle, independent of the model: the instant always survives; the zone offset survives wherever
		// Go's codec can carry it (whole minutes, or positive)
		cmpTimes(bd.what, be, bd.m, doc.AsMap(), f)
	}
}

func cmpTimes(what, be string, want, got interface{}, f *failer) {
	switch w := want.(type) {
	case time.Time:
		g, ok := got.(time.Time)
		if !ok {
			f.failf("document with %s on %s: a time was read back as %T", what, be, got)
			return
		}
		if !g.Equal(w) {
			f.failf("document with %s on %s: instant changed from %v to %v", what, be, w, g)
		}
		_, wo := w.Zone()
		_, gof := g.Zone()
		if (wo%60 == 0 || wo > 0) && wo != gof {
			f.failf("document with %s on %s: zone offset changed from %d to %d", what, be, wo, gof)
		}
	case map[string]interface{}:
		g, _ := got.(map[string]interface{})
		for k, v := range w {
			cmpTimes(what, be, v, g[k], f)
		}
	case []interface{}:
		g, _ := got.([]interface{})
		for i, v := range w {
			if i < len(g) {
				cmpTimes(what, be, v, g[i], f)
			}
		}
	}
}

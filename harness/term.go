package main

// Printing of Go canonical values as Gallina terms of the model's types, and
// generic observation terms T (TZ / TL).

import (
	"fmt"
	"math"
	"sort"
	"strconv"
	"strings"
	"time"
)

// ---- observation terms ----

type T interface{}

// T is either int64/int (TZ) or []T (TL)

func TB(b []byte) T {
	l := make([]T, len(b))
	for i, x := range b {
		l[i] = int64(x)
	}
	return l
}

func TS(s string) T { return TB([]byte(s)) }

func Tbool(b bool) T {
	if b {
		return int64(1)
	}
	return int64(0)
}

func printT(sb *strings.Builder, t T) {
	switch x := t.(type) {
	case int64:
		if x < 0 {
			fmt.Fprintf(sb, "(TZ (%d))", x)
		} else {
			fmt.Fprintf(sb, "(TZ %d)", x)
		}
	case int:
		printT(sb, int64(x))
	case uint64:
		fmt.Fprintf(sb, "(TZ %d)", x)
	case []T:
		sb.WriteString("(TL [")
		for i, e := range x {
			if i > 0 {
				sb.WriteString(";")
			}
			printT(sb, e)
		}
		sb.WriteString("])")
	default:
		panic(fmt.Sprintf("printT: bad term %T", t))
	}
}

func Tstr(t T) string {
	var sb strings.Builder
	printT(&sb, t)
	return sb.String()
}

func TListInline(ts []T) string {
	var sb strings.Builder
	sb.WriteString("[")
	for i, t := range ts {
		if i > 0 {
			sb.WriteString(";")
		}
		printT(&sb, t)
	}
	sb.WriteString("]")
	return sb.String()
}

func TList(ts []T) string {
	var sb strings.Builder
	sb.WriteString("[")
	for i, t := range ts {
		if i > 0 {
			sb.WriteString(";\n ")
		}
		printT(&sb, t)
	}
	sb.WriteString("]")
	return sb.String()
}

// ---- Gallina printing of model values ----

func gBytes(b []byte) string {
	if len(b) == 0 {
		return "[]"
	}
	var sb strings.Builder
	sb.WriteString("[")
	for i, x := range b {
		if i > 0 {
			sb.WriteString(";")
		}
		sb.WriteString(strconv.Itoa(int(x)))
	}
	sb.WriteString("]%N")
	return sb.String()
}

func gStr(s string) string { return gBytes([]byte(s)) }

func gZ(z int64) string {
	if z < 0 {
		return fmt.Sprintf("(%d)", z)
	}
	return strconv.FormatInt(z, 10)
}

func gBool(b bool) string {
	if b {
		return "true"
	}
	return "false"
}

func timeParts(t time.Time) (int64, int64, int64) {
	_, off := t.Zone()
	return t.Unix(), int64(t.Nanosecond()), int64(off)
}

func sortedKeys(m map[string]interface{}) []string {
	keys := make([]string, 0, len(m))
	for k := range m {
		keys = append(keys, k)
	}
	sort.Strings(keys)
	return keys
}

// gValue prints a canonical clover value as a term of type value.
func gValue(v interface{}) string {
	var sb strings.Builder
	printValue(&sb, v)
	return sb.String()
}

func printValue(sb *strings.Builder, v interface{}) {
	switch x := v.(type) {
	case nil:
		sb.WriteString("VNil")
	case int64:
		fmt.Fprintf(sb, "(VInt %s)", gZ(x))
	case uint64:
		fmt.Fprintf(sb, "(VUint %d)", x)
	case float64:
		fmt.Fprintf(sb, "(VFloat %d)", math.Float64bits(x))
	case string:
		fmt.Fprintf(sb, "(VStr %s)", gStr(x))
	case bool:
		fmt.Fprintf(sb, "(VBool %s)", gBool(x))
	case time.Time:
		s, n, o := timeParts(x)
		fmt.Fprintf(sb, "(VTime %s %s %s)", gZ(s), gZ(n), gZ(o))
	case []interface{}:
		sb.WriteString("(VArr [")
		for i, e := range x {
			if i > 0 {
				sb.WriteString(";")
			}
			printValue(sb, e)
		}
		sb.WriteString("])")
	case map[string]interface{}:
		sb.WriteString("(VObj [")
		for i, k := range sortedKeys(x) {
			if i > 0 {
				sb.WriteString(";")
			}
			fmt.Fprintf(sb, "(%s,", gStr(k))
			printValue(sb, x[k])
			sb.WriteString(")")
		}
		sb.WriteString("])")
	default:
		// not a canonical value: print a marker the model never produces
		fmt.Fprintf(sb, "(VBad %s)", gStr(fmt.Sprintf("%T", v)))
	}
}

// tValue renders a canonical value as an observation term (mirrors Obs.v: T_of_value).
func tValue(v interface{}) T {
	switch x := v.(type) {
	case nil:
		return []T{int64(0)}
	case int64:
		return []T{int64(1), x}
	case uint64:
		return []T{int64(2), x}
	case float64:
		return []T{int64(3), math.Float64bits(x)}
	case string:
		return []T{int64(4), TS(x)}
	case bool:
		return []T{int64(5), Tbool(x)}
	case time.Time:
		s, n, o := timeParts(x)
		return []T{int64(6), s, n, o}
	case []interface{}:
		l := make([]T, len(x))
		for i, e := range x {
			l[i] = tValue(e)
		}
		return []T{int64(7), l}
	case map[string]interface{}:
		l := make([]T, 0, len(x))
		for _, k := range sortedKeys(x) {
			l = append(l, []T{TS(k), tValue(x[k])})
		}
		return []T{int64(8), l}
	default:
		return []T{int64(99), TS(fmt.Sprintf("%T", v))}
	}
}

package main

// C07: concurrent use of one DB handle. 2-8 goroutines issue operations against shared collections with
// the scheduler perturbed at every store call; recorded call/return histories are checked for
// linearizability against a sequential specification (a Wing-Gong style search: validation and failing-input
// finder, not the proof), plus direct atomicity invariants observed by readers. The race detector is run
// by the check over the same workload (binary built with -race).

import (
	"fmt"
	"sort"
	"strings"
	"sync"
	"sync/atomic"
	"time"

	clover "github.com/ostafen/clover/v2"
	d "github.com/ostafen/clover/v2/document"
	"github.com/ostafen/clover/v2/query"
)

// A deliberately small sequential specification: one collection "c" whose documents carry
//   g (batch id), k (position in batch), v (value, rewritten by bulk updates)
// Operations: InsertBatch(g, n), BulkSet(g, v), BulkDel(g), ReadAll -> multiset of (g,k,v), CountAll -> n.
type cOp struct {
	kind string
	g, n int
	v    int
}

type cRes struct {
	err   bool
	docs  string // canonical rendering of ReadAll
	count int
}

type cEvent struct {
	op        cOp
	res       cRes
	call, ret int64
	client    int
}

type specState map[int]map[int]int // g -> k -> v

func (s specState) clone() specState {
	o := specState{}
	for g, m := range s {
		mm := map[int]int{}
		for k, v := range m {
			mm[k] = v
		}
		o[g] = mm
	}
	return o
}

func (s specState) render() string {
	var parts []string
	for g, m := range s {
		for k, v := range m {
			parts = append(parts, fmt.Sprintf("%d/%d/%d", g, k, v))
		}
	}
	sort.Strings(parts)
	return strings.Join(parts, ",")
}

func (s specState) size() int {
	n := 0
	for _, m := range s {
		n += len(m)
	}
	return n
}

// apply op to s (mutating a clone) and say whether the observed result is the spec's
func specStep(s specState, e cEvent) (specState, bool) {
	switch e.op.kind {
	case "insert":
		if e.res.err {
			return s, true // a rejected operation has no effect
		}
		if _, exists := s[e.op.g]; exists {
			return s, false
		}
		n := s.clone()
		m := map[int]int{}
		for k := 0; k < e.op.n; k++ {
			m[k] = 0
		}
		n[e.op.g] = m
		return n, true
	case "set":
		if e.res.err {
			return s, true
		}
		n := s.clone()
		for k := range n[e.op.g] {
			n[e.op.g][k] = e.op.v
		}
		return n, true
	case "del":
		if e.res.err {
			return s, true
		}
		n := s.clone()
		delete(n, e.op.g)
		return n, true
	case "delone": // DeleteById of document 0 of batch g: an absent id is fine
		if e.res.err {
			return s, true
		}
		if _, has := s[e.op.g][0]; !has {
			return s, true
		}
		n := s.clone()
		delete(n[e.op.g], 0)
		if len(n[e.op.g]) == 0 {
			delete(n, e.op.g)
		}
		return n, true
	case "like", "mkindex", "sharedcount":
		return s, true
	case "incr": // read-modify-write of document 0 of batch g: v := v + 1 (absent document: UpdateById reports an error)
		if e.res.err {
			return s, true // rejected (write conflict) or no such document: no effect
		}
		v, has := s[e.op.g][0]
		if !has {
			return s, false
		}
		n := s.clone()
		n[e.op.g][0] = v + 1
		return n, true
	case "bulkincr": // UpdateFunc over batch g: v := v + 1 on every document of the batch
		if e.res.err {
			return s, true
		}
		n := s.clone()
		for k, v := range n[e.op.g] {
			n[e.op.g][k] = v + 1
		}
		return n, true
	case "get": // FindById of document 0 of batch g: absent (count 0) or present with value v (count 1)
		if e.res.err {
			return s, true // reported separately
		}
		v, has := s[e.op.g][0]
		if !has {
			return s, e.res.count == 0
		}
		return s, e.res.count == 1 && e.res.docs == fmt.Sprint(v)
	case "read":
		return s, e.res.err || s.render() == e.res.docs
	case "count":
		return s, e.res.err || s.size() == e.res.count
	}
	return s, false
}

// Wing & Gong: search for a linearisation of the history consistent with real time
func linearizable(events []cEvent) bool {
	n := len(events)
	if n > 62 {
		return true
	}
	done := uint64(0)
	type key struct {
		done uint64
		st   string
	}
	seen := map[key]bool{}
	var rec func(done uint64, s specState) bool
	rec = func(done uint64, s specState) bool {
		if done == (uint64(1)<<uint(n))-1 {
			return true
		}
		k := key{done, s.render()}
		if seen[k] {
			return false
		}
		seen[k] = true
		// minimal return time among pending ops: an op may go first only if it was called before that
		minRet := int64(1) << 62
		for i := 0; i < n; i++ {
			if done&(1<<uint(i)) == 0 && events[i].ret < minRet {
				minRet = events[i].ret
			}
		}
		for i := 0; i < n; i++ {
			if done&(1<<uint(i)) != 0 || events[i].call > minRet {
				continue
			}
			ns, ok := specStep(s, events[i])
			if ok && rec(done|1<<uint(i), ns) {
				return true
			}
		}
		return false
	}
	return rec(done, specState{})
}

func runConcStream(seed int64, n int, out, backendSpec string) *RunReport {
	f := &failer{}
	evals := 0
	distinct := map[string]bool{}
	stats := map[string]int{}
	var samples []interface{}
	for round := 0; round < n; round++ {
		bes := backendsOf(backendSpec)
		if round%3 == 0 && (backendSpec == "" || backendSpec == "all") {
			bes = append(bes, "badgeropen")
		}
		for _, be := range bes {
			g := NewGen(seed*313 + int64(round))
			env, err := newEnv(be)
			if err != nil {
				f.failf("open: %v", err)
				continue
			}
			env.st.yield = true
			env.st.stall = true
			db := env.db
			db.CreateCollection("c")
			if g.Bool() {
				db.CreateIndex("c", "g")
			}
			if g.Bool() {
				db.CreateIndex("c", "v")
			}
			nclients := 2 + g.Intn(7)
			opsPer := 3 + g.Intn(4)
			var clock int64
			var mu sync.Mutex
			var events []cEvent
			var wg sync.WaitGroup
			var partial int32
			nextG := int32(0)
			// plans are drawn up front from the single PRNG
			plans := make([][]cOp, nclients)
			for c := 0; c < nclients; c++ {
				for j := 0; j < opsPer; j++ {
					switch g.Intn(9) {
					case 6:
						plans[c] = append(plans[c], cOp{kind: "get", g: 1 + g.Intn(int(nextG)+1)})
					case 7:
						plans[c] = append(plans[c], cOp{kind: "incr", g: 1 + g.Intn(int(nextG)+1)})
					case 8:
						if g.Chance(0.35) {
							plans[c] = append(plans[c], cOp{kind: "mkindex", g: g.Intn(3)})
						} else if g.Chance(0.5) {
							plans[c] = append(plans[c], cOp{kind: "bulkincr", g: 1 + g.Intn(int(nextG)+1)})
						} else {
							plans[c] = append(plans[c], cOp{kind: "incr", g: 1 + g.Intn(int(nextG)+1)})
						}
					case 0, 1:
						plans[c] = append(plans[c], cOp{kind: "insert", g: int(atomic.AddInt32(&nextG, 1)), n: 2 + g.Intn(5)})
					case 2:
						plans[c] = append(plans[c], cOp{kind: "set", g: 1 + g.Intn(int(nextG)+1), v: 1 + g.Intn(9)})
					case 3:
						if g.Bool() {
							plans[c] = append(plans[c], cOp{kind: "delone", g: 1 + g.Intn(int(nextG)+1)})
						} else {
							plans[c] = append(plans[c], cOp{kind: "del", g: 1 + g.Intn(int(nextG)+1)})
						}
					case 4:
						if g.Bool() {
							plans[c] = append(plans[c], cOp{kind: "sharedcount"})
						} else {
							plans[c] = append(plans[c], cOp{kind: "like", g: c*10 + j})
						}
					default:
						if g.Bool() {
							plans[c] = append(plans[c], cOp{kind: "count"})
						} else {
							plans[c] = append(plans[c], cOp{kind: "read"})
						}
					}
				}
			}
			// one query object shared by every goroutine: In operands in Go kinds the library has to normalise
			sharedQ := query.NewQuery("c").Where(query.Field("g").In(int(1), int8(2), uint16(3), float32(4)).Or(query.Field("k").Contains(int(0))))
			sharedPrint := critFingerprint(sharedQ.Criteria())
			incrTargets := map[int]bool{}
			for _, pl := range plans {
				for _, op := range pl {
					if op.kind == "incr" {
						incrTargets[op.g] = true
					}
				}
			}
			for c := 0; c < nclients; c++ {
				wg.Add(1)
				go func(c int) {
					defer wg.Done()
					defer func() {
						if r := recover(); r != nil {
							f.failf("panic in a concurrent operation on %s: %v", be, r)
						}
					}()
					for _, op := range plans[c] {
						ev := cEvent{op: op, client: c}
						ev.call = atomic.AddInt64(&clock, 1)
						switch op.kind {
						case "insert":
							docs := make([]*d.Document, op.n)
							for k := range docs {
								docs[k] = d.NewDocumentOf(map[string]interface{}{"_id": concId(op.g, k), "g": int64(op.g), "k": int64(k), "v": int64(0), "tag": fmt.Sprintf("t%d", op.g)})
							}
							ev.res.err = db.Insert("c", docs...) != nil
						case "set":
							ev.res.err = db.Update(query.NewQuery("c").Where(query.Field("g").Eq(op.g)), map[string]interface{}{"v": int64(op.v)}) != nil
						case "delone":
							ev.res.err = db.DeleteById("c", concId(op.g, 0)) != nil
						case "del":
							ev.res.err = db.Delete(query.NewQuery("c").Where(query.Field("g").Eq(op.g))) != nil
						case "incr":
							ev.res.err = db.UpdateById("c", concId(op.g, 0), func(doc *d.Document) *d.Document {
								cp := doc.Copy()
								v, _ := doc.Get("v").(int64)
								cp.Set("v", v+1)
								return cp
							}) != nil
						case "bulkincr":
							ev.res.err = db.UpdateFunc(query.NewQuery("c").Where(query.Field("g").Eq(op.g)), func(doc *d.Document) *d.Document {
								cp := doc.Copy()
								v, _ := doc.Get("v").(int64)
								cp.Set("v", v+1)
								return cp
							}) != nil
						case "mkindex":
							// an index created while writers are active must still cover every document
							ev.res.err = db.CreateIndex("c", []string{"k", "v", "tag"}[op.g]) != nil
						case "get":
							doc, err := db.FindById("c", concId(op.g, 0))
							ev.res.err = err != nil
							if err != nil {
								f.failf("FindById failed under concurrency on %s: %v", be, err)
							} else if doc != nil {
								gi, _ := doc.Get("g").(int64)
								ki, _ := doc.Get("k").(int64)
								vi, isInt := doc.Get("v").(int64)
								tag, _ := doc.Get("tag").(string)
								if doc.ObjectId() != concId(op.g, 0) || int(gi) != op.g || ki != 0 || !isInt || tag != fmt.Sprintf("t%d", op.g) {
									f.failf("FindById(%s) returned a document that was never written on %s: %s", concId(op.g, 0), be, clip(gValue(doc.AsMap()), 300))
								}
								ev.res.count, ev.res.docs = 1, fmt.Sprint(vi)
							}
						case "count":
							cnt, err := db.Count(query.NewQuery("c"))
							ev.res.err, ev.res.count = err != nil, cnt
						case "sharedcount":
							_, err := db.Count(sharedQ)
							ev.res.err = err != nil
						case "like":
							// a regexp criteria private to this goroutine (shared caches inside the library would race)
							_, err := db.FindAll(query.NewQuery("c").Where(query.Field("tag").Like(fmt.Sprintf("^t%d.*", op.g)).Or(query.Field("g").Eq(op.g))))
							ev.res.err = err != nil
						case "read":
							docs, err := db.FindAll(query.NewQuery("c"))
							ev.res.err = err != nil
							st := specState{}
							perG := map[int]map[int]bool{}
							for _, doc := range docs {
								gi, _ := doc.Get("g").(int64)
								ki, _ := doc.Get("k").(int64)
								vi, _ := doc.Get("v").(int64)
								if st[int(gi)] == nil {
									st[int(gi)] = map[int]int{}
									perG[int(gi)] = map[int]bool{}
								}
								st[int(gi)][int(ki)] = int(vi)
								perG[int(gi)][int(vi)] = true
							}
							ev.res.docs = st.render()
							// direct atomicity invariant: a reader never sees a batch half-updated (batches whose document 0
							// is incremented on its own are exempt)
							for gi, vs := range perG {
								if len(vs) > 1 && !incrTargets[gi] {
									atomic.StoreInt32(&partial, 1)
								}
							}
						}
						ev.ret = atomic.AddInt64(&clock, 1)
						mu.Lock()
						events = append(events, ev)
						mu.Unlock()
					}
				}(c)
			}
			okDone := withDeadline(60*time.Second, func() { wg.Wait() })
			evals += len(events)
			if !okDone {
				f.failf("concurrent workload deadlocked on %s (%d clients)", be, nclients)
				continue
			}
			if fp := critFingerprint(sharedQ.Criteria()); fp != sharedPrint {
				f.failf("a query object shared by the goroutines was modified by the reads on %s: %s became %s", be, clip(sharedPrint, 200), clip(fp, 200))
			}
			if partial == 1 {
				f.failf("a reader observed a partially applied bulk update on %s (%d clients, round seed %d)", be, nclients, seed*313+int64(round))
			}
			// insert batches must be all-or-nothing in every read
			for _, ev := range events {
				if ev.op.kind == "read" && !ev.res.err {
					counts := map[string]int{}
					for _, p := range strings.Split(ev.res.docs, ",") {
						if p != "" {
							counts[strings.Split(p, "/")[0]]++
						}
					}
					touched := map[int]bool{} // batches a point delete was aimed at: their size legitimately varies
					for _, e3 := range events {
						if e3.op.kind == "delone" {
							touched[e3.op.g] = true
						}
					}
					for _, e2 := range events {
						if e2.op.kind == "insert" && !e2.res.err && !touched[e2.op.g] {
							if c := counts[fmt.Sprint(e2.op.g)]; c != 0 && c != e2.op.n {
								f.failf("a reader observed %d of the %d documents of one insert batch on %s", c, e2.op.n, be)
							}
						}
					}
				}
			}
			for _, ev := range events {
				if ev.res.err && (ev.op.kind == "read" || ev.op.kind == "count" || ev.op.kind == "like") {
					f.failf("a read-only operation (%s) failed under concurrency on %s", ev.op.kind, be)
				}
			}
			nerr := 0
			for _, ev := range events {
				if ev.res.err {
					nerr++
					stats[be+"/rejected"]++
				}
				distinct[fmt.Sprintf("%s/%s/%v", be, ev.op.kind, ev.res.err)] = true
			}
			stats[be+"/ops"] += len(events)
			if !linearizable(events) {
				sort.Slice(events, func(i, j int) bool { return events[i].call < events[j].call })
				var desc []string
				for _, ev := range events {
					desc = append(desc, fmt.Sprintf("[%d-%d c%d %s g=%d n=%d v=%d -> err=%v count=%d docs=%s]", ev.call, ev.ret, ev.client, ev.op.kind, ev.op.g, ev.op.n, ev.op.v, ev.res.err, ev.res.count, clip(ev.res.docs, 120)))
				}
				f.failf("history of %d operations by %d clients on %s has no linearisation: %s", len(events), nclients, be, clip(strings.Join(desc, " "), 3000))
			}
			// final state equals the sequential replay of SOME order is implied by the search; check consistency of the stored state too
			final, _ := db.FindAll(query.NewQuery("c"))
			cnt, _ := db.Count(query.NewQuery("c"))
			if cnt != len(final) {
				f.failf("after the concurrent run Count=%d but FindAll returns %d on %s", cnt, len(final), be)
			}
			if idxs, err := db.ListIndexes("c"); err == nil {
				for _, ix := range idxs {
					via, err := db.FindAll(query.NewQuery("c").Sort(query.SortOption{Field: ix.Field, Direction: 1}))
					if err != nil || len(via) != len(final) {
						f.failf("after the concurrent run the index on %q serves %d of the %d documents on %s (err %v)", ix.Field, len(via), len(final), be, err)
					}
					ids := map[string]bool{}
					for _, doc := range via {
						if ids[doc.ObjectId()] {
							f.failf("after the concurrent run the index on %q returns document %s twice on %s", ix.Field, doc.ObjectId(), be)
							break
						}
						ids[doc.ObjectId()] = true
					}
				}
			}
			if len(samples) < 3 {
				samples = append(samples, map[string]interface{}{"backend": be, "clients": nclients, "operations": len(events), "rejected_by_store": nerr})
			}
			env.destroy()
		}
	}
	// catalog race: several goroutines create the same collection, fill and index it; exactly one creation succeeds, and
	// afterwards counter, documents and index agree (a creation that lost the race must not reset what the winner built)
	for round := 0; round < n; round++ {
		for _, be := range backendsOf(backendSpec) {
			env, err := newEnv(be)
			if err != nil {
				continue
			}
			env.st.yield = true
			db := env.db
			const workers = 5
			var created, inserted, indexed int32
			var wg sync.WaitGroup
			for w := 0; w < workers; w++ {
				wg.Add(1)
				go func(w int) {
					defer wg.Done()
					defer func() { recover() }()
					if db.CreateCollection("race") == nil {
						atomic.AddInt32(&created, 1)
					}
					for k := 0; k < 2; k++ {
						if db.Insert("race", d.NewDocumentOf(map[string]interface{}{"_id": concId(700+w, k), "k": int64(k), "w": int64(w)})) == nil {
							atomic.AddInt32(&inserted, 1)
						}
					}
					if db.CreateIndex("race", "k") == nil {
						atomic.AddInt32(&indexed, 1)
					}
				}(w)
			}
			okDone := withDeadline(60*time.Second, func() { wg.Wait() })
			evals += workers
			if !okDone {
				f.failf("catalog race workload deadlocked on %s", be)
				continue
			}
			if created != 1 {
				f.failf("%d of %d concurrent CreateCollection calls for one name succeeded on %s", created, workers, be)
			}
			all, _ := db.FindAll(query.NewQuery("race"))
			cnt, _ := db.Count(query.NewQuery("race"))
			if cnt != len(all) || len(all) != int(inserted) {
				f.failf("after concurrent creation of one collection: %d inserts succeeded, FindAll returns %d, Count %d on %s", inserted, len(all), cnt, be)
			}
			has, _ := db.HasIndex("race", "k")
			if (indexed > 0) != has {
				f.failf("after concurrent creation: %d CreateIndex calls succeeded but HasIndex = %v on %s", indexed, has, be)
			}
			if has {
				via, _ := db.FindAll(query.NewQuery("race").Sort(query.SortOption{Field: "k", Direction: 1}))
				if len(via) != len(all) {
					f.failf("after concurrent creation the index serves %d of %d documents on %s", len(via), len(all), be)
				}
			}
			distinct[fmt.Sprintf("%s/catalograce", be)] = true
			env.destroy()
		}
	}
	// several goroutines evaluating regexp criteria at once (fresh patterns each time), and several deleting the same document
	// at once: no shared state may be raced on, and the counter must follow the documents
	for round := 0; round < 3 && round < n; round++ {
		for _, be := range backendsOf(backendSpec) {
			env, err := newEnv(be)
			if err != nil {
				continue
			}
			env.st.yield = true
			db := env.db
			db.CreateCollection("p")
			db.CreateIndex("p", "k")
			for k := 0; k < 6; k++ {
				db.Insert("p", d.NewDocumentOf(map[string]interface{}{"_id": concId(800, k), "k": int64(k), "tag": fmt.Sprintf("t%d", k)}))
			}
			var wg sync.WaitGroup
			var likeErrs, delOk int32
			for w := 0; w < 4; w++ {
				wg.Add(1)
				go func(w int) {
					defer wg.Done()
					defer func() {
						if r := recover(); r != nil {
							f.failf("panic in a concurrent Like / DeleteById on %s: %v", be, r)
						}
					}()
					for i := 0; i < 6; i++ {
						pat := fmt.Sprintf("^t[%d-%d]x*%d?$", i%5, 5+w, round)
						if _, err := db.FindAll(query.NewQuery("p").Where(query.Field("tag").Like(pat))); err != nil {
							atomic.AddInt32(&likeErrs, 1)
						}
						if i == 2 {
							if db.DeleteById("p", concId(800, 3)) == nil {
								atomic.AddInt32(&delOk, 1)
							}
						}
					}
				}(w)
			}
			okDone := withDeadline(60*time.Second, func() { wg.Wait() })
			evals += 4 * 7
			if !okDone {
				f.failf("concurrent Like / DeleteById workload deadlocked on %s", be)
				continue
			}
			all, _ := db.FindAll(query.NewQuery("p"))
			cnt, _ := db.Count(query.NewQuery("p"))
			via, _ := db.FindAll(query.NewQuery("p").Sort(query.SortOption{Field: "k", Direction: 1}))
			if len(all) != 5 || cnt != 5 || len(via) != 5 {
				f.failf("after 4 concurrent DeleteById of one document (of 6): FindAll returns %d, Count %d, the index %d on %s", len(all), cnt, len(via), be)
			}
			if likeErrs > 0 {
				f.failf("%d Like queries failed under concurrency on %s", likeErrs, be)
			}
			distinct[fmt.Sprintf("%s/likedelrace", be)] = true
			env.destroy()
		}
	}
	// read-modify-write race: goroutines increment a counter through UpdateFunc (bulk) and UpdateById at once; every call that
	// reports success must be reflected exactly once (a conflicting one must report an error and change nothing)
	for round := 0; round < 3 && round < n; round++ {
		for _, be := range backendsOf(backendSpec) {
			env, err := newEnv(be)
			if err != nil {
				continue
			}
			env.st.yield = true
			db := env.db
			db.CreateCollection("r")
			if round%2 == 0 {
				db.CreateIndex("r", "v")
			}
			for k := 0; k < 3; k++ {
				db.Insert("r", d.NewDocumentOf(map[string]interface{}{"_id": concId(850, k), "k": int64(k), "v": int64(0)}))
			}
			incr := func(doc *d.Document) *d.Document {
				cp := doc.Copy()
				v, _ := doc.Get("v").(int64)
				cp.Set("v", v+1)
				return cp
			}
			var bulkOk, oneOk int32
			var wg sync.WaitGroup
			for w := 0; w < 4; w++ {
				wg.Add(1)
				go func(w int) {
					defer wg.Done()
					defer func() { recover() }()
					for i := 0; i < 3; i++ {
						if db.UpdateFunc(query.NewQuery("r"), incr) == nil {
							atomic.AddInt32(&bulkOk, 1)
						}
						if db.UpdateById("r", concId(850, 0), incr) == nil {
							atomic.AddInt32(&oneOk, 1)
						}
					}
				}(w)
			}
			okDone := withDeadline(60*time.Second, func() { wg.Wait() })
			evals += 24
			if !okDone {
				f.failf("read-modify-write workload deadlocked on %s", be)
				continue
			}
			for k := 0; k < 3; k++ {
				doc, _ := db.FindById("r", concId(850, k))
				want := int64(bulkOk)
				if k == 0 {
					want += int64(oneOk)
				}
				if doc == nil {
					f.failf("document %d vanished during concurrent updates on %s", k, be)
				} else if v, _ := doc.Get("v").(int64); v != want {
					f.failf("after %d successful bulk increments and %d successful single increments document %d holds v=%d instead of %d on %s (an update was lost or applied twice)", bulkOk, oneOk, k, v, want, be)
				}
			}
			distinct[fmt.Sprintf("%s/rmwrace", be)] = true
			env.destroy()
		}
	}
	// ids generated concurrently are distinct; one document object handed to two goroutines is only read; several goroutines
	// closing the handle at once close the store once
	for round := 0; round < 3 && round < n; round++ {
		for _, be := range backendsOf(backendSpec) {
			env, err := newEnv(be)
			if err != nil {
				continue
			}
			env.st.yield = true
			db := env.db
			db.CreateCollection("g1")
			db.CreateCollection("g2")
			shared := d.NewDocumentOf(map[string]interface{}{"_id": concId(870, round), "when": time.Unix(1700000000, 5).In(zoneP2), "l": []interface{}{time.Unix(1, 0).UTC(), map[string]interface{}{"at": time.Unix(2, 0).UTC()}}})
			sharedBefore := Tstr(tValue(shared.AsMap()))
			var dupKey int32
			var idsMu sync.Mutex
			ids := map[string]int{}
			var wg sync.WaitGroup
			for w := 0; w < 4; w++ {
				wg.Add(1)
				go func(w int) {
					defer wg.Done()
					defer func() {
						if r := recover(); r != nil {
							f.failf("panic in concurrent inserts on %s: %v", be, r)
						}
					}()
					coll := []string{"g1", "g2"}[w%2]
					for i := 0; i < 6; i++ {
						doc := d.NewDocumentOf(map[string]interface{}{"w": int64(w), "i": int64(i)})
						err := db.Insert(coll, doc)
						if err == clover.ErrDuplicateKey {
							atomic.AddInt32(&dupKey, 1)
						}
						if err == nil {
							idsMu.Lock()
							ids[doc.ObjectId()]++
							idsMu.Unlock()
						}
					}
					if w < 2 {
						db.Insert(coll, shared) // the same document object from two goroutines, into two collections
					}
				}(w)
			}
			okDone := withDeadline(60*time.Second, func() { wg.Wait() })
			evals += 26
			if !okDone {
				f.failf("concurrent insert workload deadlocked on %s", be)
				continue
			}
			if dupKey > 0 {
				f.failf("%d inserts of documents WITHOUT an _id were refused as duplicates under concurrency on %s (generated ids collided)", dupKey, be)
			}
			for id, cnt := range ids {
				if cnt > 1 {
					f.failf("the generated _id %s was handed to %d concurrently inserted documents on %s", id, cnt, be)
					break
				}
			}
			if after := Tstr(tValue(shared.AsMap())); after != sharedBefore || nonCanonical(shared.AsMap()) != "" {
				f.failf("a document object saved by two goroutines was modified by the saves on %s", be)
			}
			// concurrent Close
			var cg sync.WaitGroup
			var closePanics int32
			for w := 0; w < 4; w++ {
				cg.Add(1)
				go func() {
					defer cg.Done()
					defer func() {
						if r := recover(); r != nil {
							atomic.AddInt32(&closePanics, 1)
							f.failf("concurrent Close panicked on %s: %v", be, r)
						}
					}()
					db.Close()
				}()
			}
			if !withDeadline(30*time.Second, func() { cg.Wait() }) {
				f.failf("concurrent Close deadlocked on %s", be)
				env.wedged = true
			}
			env.closed = true
			distinct[fmt.Sprintf("%s/genids-close", be)] = true
			env.db = nil
			env.destroy()
		}
	}
	// one batch beyond what a single badger transaction accepts (and a big one on the others): readers polling while it
	// is written see none or all of it, and a refused batch leaves nothing
	for _, be := range backendsOf(backendSpec) {
		env, err := newEnv(be)
		if err != nil {
			continue
		}
		db := env.db
		db.CreateCollection("huge")
		const nb = 72
		docs := make([]*d.Document, nb)
		pad := strings.Repeat("x", 200000)
		for i := range docs {
			docs[i] = d.NewDocumentOf(map[string]interface{}{"_id": concId(900, i), "k": int64(i), "pad": pad})
		}
		var stop int32
		seenCounts := map[int]bool{}
		var smu sync.Mutex
		var rg sync.WaitGroup
		for r := 0; r < 3; r++ {
			rg.Add(1)
			go func(r int) {
				defer rg.Done()
				defer func() { recover() }()
				for atomic.LoadInt32(&stop) == 0 {
					var n int
					if r == 0 {
						n, _ = db.Count(query.NewQuery("huge"))
					} else {
						n = 0
						db.ForEach(query.NewQuery("huge"), func(*d.Document) bool { n++; return true })
					}
					smu.Lock()
					seenCounts[n] = true
					smu.Unlock()
				}
			}(r)
		}
		var ierr error
		okIns := withDeadline(120*time.Second, func() { ierr = db.Insert("huge", docs...) })
		time.Sleep(5 * time.Millisecond)
		atomic.StoreInt32(&stop, 1)
		rg.Wait()
		evals++
		if !okIns {
			f.failf("a 14 MB insert did not return on %s", be)
		}
		for n := range seenCounts {
			if n != 0 && n != nb {
				f.failf("readers polling during a 14 MB insert batch saw %d of its %d documents on %s (insert result: %v)", n, nb, be, ierr)
			}
		}
		final, _ := db.Count(query.NewQuery("huge"))
		if ierr != nil && final != 0 {
			f.failf("a refused 14 MB insert batch (%v) left %d documents on %s", ierr, final, be)
		}
		if ierr == nil && final != nb {
			f.failf("an accepted 14 MB insert batch stored %d of %d documents on %s", final, nb, be)
		}
		distinct[fmt.Sprintf("%s/hugebatch/%v", be, ierr != nil)] = true
		env.destroy()
	}
	_ = clover.ErrDuplicateKey
	return &RunReport{Stream: "conc", Seed: seed, Evaluations: evals, Distinct: len(distinct),
		Rule:         "one evaluation = one operation of a concurrent history (2-8 goroutines on one handle, runtime.Gosched at every store call); each history is searched for a linearisation against a sequential specification and checked for partially visible batches and bulk updates; distinct = distinct (backend, operation kind, accepted/rejected)",
		OracleFails:  f.fails, Samples: samples,
		Distribution: map[string]interface{}{"histories": n, "backends": backendsOf(backendSpec), "stats": stats}}
}

func concId(g, k int) string { return fmt.Sprintf("%08x-0000-4000-8000-%012x", g, k) }

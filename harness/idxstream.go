package main

// C17: index.RangeIndex driven directly (Add, IterateRange, Iterate) on both backends, compared with the
// model and with a direct oracle (membership in the requested bounds by Compare; order; stop request).
// C15: store-level cursor contract of both adapters against the model's ordered-map cursor.

import (
	"bytes"
	"fmt"
	"math"
	"sort"
	"strings"
	"time"

	clover "github.com/ostafen/clover/v2"
	"github.com/ostafen/clover/v2/index"
	"github.com/ostafen/clover/v2/store"
)

func rangePool() []interface{} {
	// a time whose UnixNano ends in the byte 0xff, a float and an integer whose key ends in 0xff (an excluded lower bound
	// must be stepped over whatever its last byte is), and integers beyond 2^53 that float64 represents exactly
	tff := time.Unix(1700000000, 0).UTC()
	tff = tff.Add(time.Duration(255 - tff.UnixNano()&0xff))
	return []interface{}{nil, int64(1), int64(3), float64(3), uint64(3), float64(3.5), int64(5), int64(-2), "", "a", "ab", true, false,
		poolTimes()[0], poolTimes()[4], []interface{}{}, []interface{}{int64(1)}, map[string]interface{}{}, map[string]interface{}{"a": int64(1)}, float64(1 << 53), int64(1<<53 + 1),
		int64(1<<53 - 1), int64(-(1<<53 - 1)), math.Float64frombits(math.Float64bits(2.5) | 0xff), math.Float64frombits(math.Float64bits(-7) | 0xff), tff, tff.Add(1), "a\xff",
		uint64(1 << 63), uint64(1 << 62), int64(-(1 << 62)), float64(1e19), uint64(math.MaxUint64), []interface{}{nil}, []interface{}{int64(1), nil}}
}

// meaning of a range: a nil bound that is excluded is "unbounded"; an included nil bound is the value nil
func rangeDenotes(start, end interface{}, sinc, einc bool, v interface{}) bool {
	lo := true
	if !(start == nil && !sinc) {
		c := clover.VerifCompare(v, start)
		lo = c > 0 || (c == 0 && sinc)
	}
	hi := true
	if !(end == nil && !einc) {
		c := clover.VerifCompare(v, end)
		hi = c < 0 || (c == 0 && einc)
	}
	return lo && hi
}

type idxEntry struct {
	v  interface{}
	id string
}

func runIdxStream(seed int64, n int, out, backendSpec string) *RunReport {
	f := &failer{}
	cs := &CaseSet{}
	evals := 0
	distinct := map[string]bool{}
	shapes := map[string]int{}
	var samples []interface{}
	pool := rangePool()
	for round := 0; round < n; round++ {
		g := NewGen(seed*101 + int64(round))
		// index contents: duplicates, nil and mixed types
		var entries []idxEntry
		ne := 4 + g.Intn(14)
		for i := 0; i < ne; i++ {
			entries = append(entries, idxEntry{pickOf(g, pool), fmt.Sprintf("%08x-aaaa-4bbb-8ccc-%012x", i, g.Intn(1<<20))})
		}
		// every index also holds two nil entries (documents lacking the field): the nil-only range is never vacuous
		entries = append(entries, idxEntry{nil, fmt.Sprintf("%08x-aaaa-4bbb-8ccc-%012x", 900, round)}, idxEntry{nil, fmt.Sprintf("%08x-aaaa-4bbb-8ccc-%012x", 901, round)})
		entTerm := make([]string, len(entries))
		allDom := true
		for i, e := range entries {
			entTerm[i] = "(" + gValue(e.v) + "," + gStr(e.id) + ")"
			if !inKeyDom(e.v) {
				allDom = false
			}
		}
		for _, be := range backendsOf(backendSpec) {
			inner, err := openBackend(be, mustTemp())
			if err != nil {
				f.failf("open: %v", err)
				continue
			}
			for _, committed := range []bool{false, true} {
				func() {
					tx, _ := inner.Begin(true)
					defer tx.Rollback()
					// the collection and field names only shape the key prefix (and the capacity of the buffers it is built in)
					cname, fname := "c"+strings.Repeat("x", round%9), "f"+strings.Repeat("y", (round/2)%7)
					idx := index.CreateIndex(cname, fname, index.SingleField, tx).(index.RangeIndex)
					for _, e := range entries {
						if err := idx.Add(e.id, e.v, -1); err != nil {
							f.failf("Add(%s): %v", gValue(e.v), err)
						}
					}
					scanTx := tx
					if committed {
						if err := tx.Commit(); err != nil {
							f.failf("commit: %v", err)
							return
						}
						scanTx, _ = inner.Begin(false)
						defer scanTx.Rollback()
						idx = index.CreateIndex(cname, fname, index.SingleField, scanTx).(index.RangeIndex)
					}
					// systematic part: every stored value as an excluded / included bound on either side, both directions
					type fixedRange struct {
						rs, re          interface{}
						sinc, einc, rev bool
					}
					var fixed []fixedRange
					seenV := map[string]bool{}
					for _, e := range entries {
						if e.v == nil || seenV[gValue(e.v)] {
							continue
						}
						seenV[gValue(e.v)] = true
						for _, rev := range []bool{false, true} {
							fixed = append(fixed, fixedRange{e.v, nil, false, false, rev}, fixedRange{nil, e.v, false, false, rev},
								fixedRange{e.v, e.v, true, true, rev}, fixedRange{e.v, nil, true, false, rev}, fixedRange{nil, e.v, false, true, rev})
						}
					}
					fixed = append(fixed, fixedRange{nil, nil, true, true, false}, fixedRange{nil, nil, true, true, true})
					nranges := 40 + len(fixed)
					for k := 0; k < nranges; k++ {
						rs, re := pickOf(g, pool), pickOf(g, pool)
						if g.Chance(0.25) {
							rs = nil
						}
						if g.Chance(0.25) {
							re = nil
						}
						sinc, einc, rev := g.Bool(), g.Bool(), g.Bool()
						whole := g.Chance(0.08)
						if g.Chance(0.05) { // the nil-only range
							rs, re, sinc, einc = nil, nil, true, true
						}
						if k >= 40 {
							fr := fixed[k-40]
							rs, re, sinc, einc, rev, whole = fr.rs, fr.re, fr.sinc, fr.einc, fr.rev, false
						}
						stop := pickOf(g, []int{-1, -1, -1, 1, 2})
						var ids []string
						cons := func(id string) error {
							ids = append(ids, id)
							if len(ids) == stop {
								return clover.VerifErrStopIteration
							}
							return nil
						}
						var err error
						var res T
						func() {
							defer func() {
								if r := recover(); r != nil {
									res = []T{int64(99), TS(fmt.Sprint(r))}
								}
							}()
							if whole {
								err = idx.Iterate(rev, cons)
							} else {
								err = idx.IterateRange(&index.Range{Start: rs, End: re, StartIncluded: sinc, EndIncluded: einc}, rev, cons)
							}
						}()
						evals++
						if res == nil {
							if err != nil {
								res = tErr(err)
							} else {
								l := make([]T, len(ids))
								for i, s := range ids {
									l[i] = TS(s)
								}
								res = []T{int64(0), l}
							}
						}
						shape := fmt.Sprintf("s%v/e%v/%v%v/rev%v/whole%v", rs == nil, re == nil, sinc, einc, rev, whole)
						shapes[shape]++
						if !committed || k < 6 {
							cs.Add(fmt.Sprintf("(HRange [%s] %s %s %s %s %s %s %s %s)", strings.Join(entTerm, ";"), gValue(rs), gValue(re), gBool(sinc), gBool(einc), gBool(whole), gBool(rev), gZ(int64(stop)), Tstr(res)), round == 0 && k < 8 && !committed)
						}
						// direct oracle inside the key domain, for ranges with a non-nil bound or the nil-only range
						inDomRange := whole || rs != nil || re != nil || (sinc && einc)
						if allDom && inKeyDom(rs) && inKeyDom(re) && inDomRange && err == nil && errKind(res) == "e0" {
							var want []idxEntry
							for _, e := range entries {
								if whole || rangeDenotes(rs, re, sinc, einc, e.v) {
									want = append(want, e)
								}
							}
							sort.SliceStable(want, func(i, j int) bool {
								c := clover.VerifCompare(want[i].v, want[j].v)
								if c != 0 {
									return (c < 0) != rev
								}
								return (want[i].id < want[j].id) != rev
							})
							if stop > 0 && len(want) > stop {
								want = want[:stop]
							}
							wantIds := make([]string, len(want))
							for i, e := range want {
								wantIds[i] = e.id
							}
							if strings.Join(wantIds, ",") != strings.Join(ids, ",") {
								f.failf("range scan {%s,%s,%v,%v} reverse=%v whole=%v stop=%d on %s (committed=%v) visited %d ids, expected %d: got %v want %v over entries %s",
									gValue(rs), gValue(re), sinc, einc, rev, whole, stop, be, committed, len(ids), len(wantIds), ids, wantIds, clip(strings.Join(entTerm, ";"), 800))
							}
							distinct[shape+fmt.Sprintf("/n%d", min3(len(ids)))] = true
						}
						if len(samples) < 3 && k == 7 {
							samples = append(samples, map[string]interface{}{"range": fmt.Sprintf("{%s, %s, %v, %v}", gValue(rs), gValue(re), sinc, einc), "reverse": rev, "backend": be, "ids_visited": len(ids), "entries": len(entries)})
						}
					}
				}()
			}
			inner.Close()
		}
		// Range algebra on the implementation: intersection and emptiness against membership
		for k := 0; k < 60; k++ {
			r1 := &index.Range{Start: pickOf(g, pool), End: pickOf(g, pool), StartIncluded: g.Bool(), EndIncluded: g.Bool()}
			r2 := &index.Range{Start: pickOf(g, pool), End: pickOf(g, pool), StartIncluded: g.Bool(), EndIncluded: g.Bool()}
			if g.Chance(0.3) {
				r1.Start = nil
			}
			if g.Chance(0.3) {
				r2.End = nil
			}
			dom := func(r *index.Range) bool {
				return (r.Start != nil || r.End != nil || (r.StartIncluded && r.EndIncluded)) && !hasBigInt(r.Start) && !hasBigInt(r.End)
			}
			if !dom(r1) || !dom(r2) {
				continue
			}
			var ri *index.Range
			func() {
				defer func() { recover() }()
				ri = r1.Intersect(r2)
			}()
			evals++
			if ri == nil {
				f.failf("Intersect panicked on %+v and %+v", r1, r2)
				continue
			}
			for _, v := range pool {
				if hasBigInt(v) {
					continue
				}
				in1 := rangeDenotes(r1.Start, r1.End, r1.StartIncluded, r1.EndIncluded, v)
				in2 := rangeDenotes(r2.Start, r2.End, r2.StartIncluded, r2.EndIncluded, v)
				if in1 && in2 {
					// the intersection, as scanned, must not exclude v: nil bounds of the result mean unbounded unless both flags make it the nil-only range
					ini := rangeDenotes(ri.Start, ri.End, ri.StartIncluded, ri.EndIncluded, v) || scanSet(ri, v)
					if !ini {
						f.failf("Intersect(%+v, %+v) = %+v excludes %s which lies in both", *r1, *r2, *ri, gValue(v))
					}
				}
				if r1.IsEmpty() && in1 {
					f.failf("range %+v is reported empty but contains %s", *r1, gValue(v))
				}
			}
		}
	}
	// the range algebra exhaustively over a small set: all 100 ranges with bounds in {nil, 1, 3, 3.0, "a"} and both flags,
	// all 10 000 ordered pairs, against membership of the probes
	{
		small := []interface{}{nil, int64(1), int64(3), float64(3), "a"}
		probes := []interface{}{nil, int64(0), int64(1), int64(2), uint64(3), float64(3.5), "", "a", "b", true}
		var rs []*index.Range
		for _, a := range small {
			for _, b := range small {
				for _, si := range []bool{false, true} {
					for _, ei := range []bool{false, true} {
						if a == nil && b == nil && !(si && ei) {
							continue // outside the quantified domain: at least one non-nil bound, or the nil-only range
						}
						rs = append(rs, &index.Range{Start: a, End: b, StartIncluded: si, EndIncluded: ei})
					}
				}
			}
		}
		for _, r1 := range rs {
			for _, v := range probes {
				if r1.IsEmpty() && rangeDenotes(r1.Start, r1.End, r1.StartIncluded, r1.EndIncluded, v) {
					f.failf("range %+v is reported empty but contains %s", *r1, gValue(v))
				}
			}
			for _, r2 := range rs {
				var ri *index.Range
				func() {
					defer func() { recover() }()
					ri = r1.Intersect(r2)
				}()
				evals++
				if ri == nil {
					f.failf("Intersect panicked on %+v and %+v", *r1, *r2)
					continue
				}
				for _, v := range probes {
					if rangeDenotes(r1.Start, r1.End, r1.StartIncluded, r1.EndIncluded, v) && rangeDenotes(r2.Start, r2.End, r2.StartIncluded, r2.EndIncluded, v) &&
						!(rangeDenotes(ri.Start, ri.End, ri.StartIncluded, ri.EndIncluded, v) || scanSet(ri, v)) {
						f.failf("Intersect(%+v, %+v) = %+v excludes %s which lies in both", *r1, *r2, *ri, gValue(v))
					}
				}
			}
		}
		distinct["range-algebra-exhaustive"] = true
	}
	files := cs.Write(out, "idx")
	return &RunReport{Stream: "idx", Seed: seed, Evaluations: evals, Distinct: len(distinct) + len(shapes),
		Rule:         "one evaluation = one IterateRange/Iterate call on an index populated through Add (uncommitted and committed, both backends), visited ids compared with the model and, inside the key domain, with membership-by-Compare in value order; or one Intersect/IsEmpty call checked against membership over the value pool; distinct = distinct range shapes x result sizes",
		OracleFails:  f.fails, CaseFiles: files, Samples: samples,
		Distribution: map[string]interface{}{"rounds": n, "backends": backendsOf(backendSpec), "range_shapes": shapes}}
}

// what a scan over r visits: nil bounds are unbounded, except the nil-only range
func scanSet(r *index.Range, v interface{}) bool {
	if r.IsNil() {
		return clover.VerifCompare(v, nil) == 0
	}
	lo := r.Start == nil
	if !lo {
		c := clover.VerifCompare(v, r.Start)
		lo = c > 0 || (c == 0 && r.StartIncluded)
	}
	hi := r.End == nil
	if !hi {
		c := clover.VerifCompare(v, r.End)
		hi = c < 0 || (c == 0 && r.EndIncluded)
	}
	return lo && hi
}

func min3(n int) int {
	if n > 3 {
		return 3
	}
	return n
}

func mustTemp() string {
	d, err := mkTemp("vh-idx-")
	if err != nil {
		panic(err)
	}
	return d
}

// ---------------------------------------------------------------- C15 cursor contract

func cursorKeys(g *Gen) [][]byte {
	alphabet := [][]byte{[]byte("a"), []byte("b"), []byte("ab"), []byte("abc"), []byte("b\x00"), []byte("c"), []byte("c:x;d:1"), []byte("c:x;i:f;"), []byte("coll:x"), []byte("d"), []byte("\xff"), []byte("\xff\xff"), []byte("e"), []byte("f"), {1}, {0, 1}}
	n := 1 + g.Intn(8)
	seen := map[string]bool{}
	var ks [][]byte
	for i := 0; i < n; i++ {
		k := pickOf(g, alphabet)
		if !seen[string(k)] {
			seen[string(k)] = true
			ks = append(ks, k)
		}
	}
	return ks
}

func iterateCursor(tx store.Tx, forward bool, target []byte) (res T) {
	defer func() {
		if r := recover(); r != nil {
			res = []T{int64(99), TS(fmt.Sprint(r))}
		}
	}()
	cur, err := tx.Cursor(forward)
	if err != nil {
		return tErr(err)
	}
	defer cur.Close()
	if err := cur.Seek(target); err != nil {
		return tErr(err)
	}
	var out []T
	for ; cur.Valid(); cur.Next() {
		it, err := cur.Item()
		if err != nil {
			return tErr(err)
		}
		out = append(out, TB(append([]byte{}, it.Key...)))
		if len(out) > 100 {
			break
		}
	}
	if out == nil {
		out = []T{}
	}
	return out
}

func runCursorStream(seed int64, n int, out string) *RunReport {
	f := &failer{}
	cs := &CaseSet{}
	evals := 0
	distinct := map[string]bool{}
	var samples []interface{}
	for round := 0; round < n; round++ {
		g := NewGen(seed*211 + int64(round))
		keys := cursorKeys(g)
		keyTerms := make([]string, len(keys))
		for i, k := range keys {
			keyTerms[i] = gBytes(k)
		}
		sorted := append([][]byte{}, keys...)
		sort.Slice(sorted, func(i, j int) bool { return bytes.Compare(sorted[i], sorted[j]) < 0 })
		targets := append([][]byte{}, keys...)
		targets = append(targets, []byte("a\x00"), []byte("bb"), []byte{0}, []byte("\xff\xff\xff"), []byte("zz"), []byte("c:x;i:f;\xff"), []byte("aa"))
		results := map[string]map[string]string{}
		for _, be := range []string{"bbolt", "badger", "badgerdisk"} {
			inner, err := openBackend(be, mustTemp())
			if err != nil {
				f.failf("open %s: %v", be, err)
				continue
			}
			for _, phase := range []string{"same-tx", "committed", "deleted-under-cursor"} {
				tx, _ := inner.Begin(true)
				if phase == "same-tx" {
					for _, k := range keys {
						tx.Set(k, nil)
					}
				}
				for _, tgt := range targets {
					for _, fwd := range []bool{true, false} {
						res := iterateCursor(tx, fwd, tgt)
						evals++
						key := fmt.Sprintf("%s/%v/%x", phase, fwd, tgt)
						if results[key] == nil {
							results[key] = map[string]string{}
						}
						results[key][be] = Tstr(res)
						if phase != "deleted-under-cursor" {
							if be == "bbolt" {
								cs.Add(fmt.Sprintf("(HCursor [%s] %s %s %s)", strings.Join(keyTerms, ";"), gBool(fwd), gBytes(tgt), Tstr(res)), round < 2 && len(cs.Sample) < 10)
							}
							// direct contract
							var want [][]byte
							if fwd {
								for _, k := range sorted {
									if bytes.Compare(k, tgt) >= 0 {
										want = append(want, k)
									}
								}
							} else {
								for i := len(sorted) - 1; i >= 0; i-- {
									if bytes.Compare(sorted[i], tgt) <= 0 {
										want = append(want, sorted[i])
									}
								}
							}
							wl := make([]T, len(want))
							for i, k := range want {
								wl[i] = TB(k)
							}
							if Tstr(T(wl)) != Tstr(res) {
								f.failf("%s cursor (forward=%v, %s) Seek(%q) over keys %q yields %s, the contract says %s", be, fwd, phase, tgt, keys, Tstr(res), Tstr(T(wl)))
							}
							rel := "absent"
							for _, k := range keys {
								if bytes.Equal(k, tgt) {
									rel = "present"
								}
							}
							if len(want) == 0 {
								rel += "/beyond"
							}
							distinct[fmt.Sprintf("%s/%v/%s/n%d", phase, fwd, rel, min3(len(want)))] = true
						}
					}
				}
				if phase == "same-tx" {
					tx.Commit()
				} else {
					tx.Rollback()
				}
			}
			// deleting the key under the cursor while iterating forward (what index Drop does): every key is visited once
			tx, _ := inner.Begin(true)
			cur, _ := tx.Cursor(true)
			cur.Seek([]byte{0})
			var visited [][]byte
			for ; cur.Valid(); cur.Next() {
				it, _ := cur.Item()
				k := append([]byte{}, it.Key...)
				visited = append(visited, k)
				tx.Delete(k)
				if len(visited) > 100 {
					break
				}
			}
			cur.Close()
			evals++
			if len(visited) != len(sorted) {
				f.failf("%s: deleting the key under a forward cursor visited %d of %d keys", be, len(visited), len(sorted))
			}
			tx.Rollback()
			inner.Close()
		}
		for key, m := range results {
			if strings.HasPrefix(key, "deleted") {
				continue
			}
			if m["bbolt"] != m["badger"] || m["bbolt"] != m["badgerdisk"] {
				f.failf("backends disagree on cursor %s over keys %q: bbolt %s badger %s badgerdisk %s", key, keys, m["bbolt"], m["badger"], m["badgerdisk"])
			}
		}
		if len(samples) < 2 {
			samples = append(samples, map[string]interface{}{"keys": fmt.Sprintf("%q", keys), "targets": len(targets)})
		}
	}
	files := cs.Write(out, "cursor")
	return &RunReport{Stream: "cursor", Seed: seed, Evaluations: evals, Distinct: len(distinct),
		Rule:         "one evaluation = one Seek + full iteration of a store cursor (forward/reverse; keys written with empty values in the same transaction or committed; bbolt, badger in memory, badger on disk) compared with the ordered-map contract, with the model's cursor and across backends; distinct = distinct (phase, direction, target present/absent/beyond, result size)",
		OracleFails:  f.fails, CaseFiles: files, Samples: samples,
		Distribution: map[string]interface{}{"key_sets": n}}
}
